/-
  C05, floating-point clause for the COVARIANCE — a machine-checked rounding-error bound
  for one entry of the streaming covariance matrix (`Cov2.push`: the `(x, y)` entry of
  `np.outer(delta1, delta2)` fed to a `Mean`) and its read-out `.value`.

  Model (Gpv/Proofs/FloatCov.lean, on top of FloatMean / FloatVar): every floating point
  operation returns its exact result times `1 + δ`, `|δ| ≤ u` (`u` unit roundoff,
  `eps = 2u`), δ's arbitrary and independent; integer counts convert exactly; no
  overflow/underflow.  `FlCovRun u ps mx my cv` : `(mx, my, cv)` is a possible state
  `(mx.val, my.val, c.val)` after the pairs `ps`.  Reference:
      Sxy = Σ (x − x̄)(y − ȳ) = `sumProdDev ps`  (the exact `n · c.val`),
      Sxx = `sumSqDev (ps.map Prod.fst)`,  Syy = `sumSqDev (ps.map Prod.snd)`,
      `batchCov = Sxy / (n − 1)`.

  Proved (all for EVERY possible float run, `|x| ≤ Mx`, `|y| ≤ My`, smallness `64·n·u ≤ 1`):

  * `cov_float_defect`           |n·c − Sxy| ≤ 2u·(t·Sxx + Syy/t) + 58·n²·u·Mx·My   for every t > 0
  * `cov_float_defect_cs`        |n·c − Sxy| ≤ 4u·G + 58·n²·u·Mx·My     for every G ≥ 0 with Sxx·Syy ≤ G²
                                 (i.e. G ≥ √(Sxx·Syy): the square-root-free form of
                                 `4u·√(Sxx·Syy) + 58·n²·u·Mx·My`, valid in any ordered field)
  * `cov_float_defect_abs`       |n·c − Sxy| ≤ 62·n²·u·Mx·My
  * `cov_float_defect_centered`  |n·c − Sxy| ≤ 2u·(t·Sxx + Syy/t) + 5u·MxMy + 26·n²u·RxRy
                                     + 14·n²u·(Rx·My + Ry·Mx) + 72·n³u²·MxMy
                                 (data in the box |x − cx| ≤ Rx, |y − cy| ≤ Ry)
  * `cov_float_error`            the same for `c` itself (divide by n)
  * `cov_float_value_error(_cs, _centered)`  the rounded read-out `c * (n / (n − 1))`, n ≥ 2.

  On the diagonal `y = x`, `t = 1` (or `G = Sxx`) these are literally the bounds of
  `C05FloatVar` (same constants): `var_float_defect_from_cov`.

  NOT true, hence not proved: exact symmetry of the float matrix.  Entry `(x, y)` rounds
  `fl(x − mx_old)·fl(y − my_new)`, entry `(y, x)` rounds `fl(y − my_old)·fl(x − mx_new)`;
  the two agree in exact arithmetic only.  `cov_float_swap` bounds the asymmetry.
-/
import Gpv.Proofs.FloatCov
import Gpv.Props.C05FloatVar
set_option linter.unusedSectionVars false

namespace Gpv.C05FloatCov
open Gpv
variable {K : Type} [Field K] [LinearOrder K] [IsStrictOrderedRing K]

/-! ### 1. the model (definitions in `Gpv.Proofs.FloatCov`, restated) -/

theorem flCovStep_def (u : K) (k : ℕ) (mx my cv x y mx' my' cv' : K) :
    FlCovStep u k mx my cv x y mx' my' cv' ↔ ∃ d1 d2 q : K, Rnd u (x - mx) d1
      ∧ FlStep u k mx x mx' ∧ FlStep u k my y my' ∧ Rnd u (y - my') d2 ∧ Rnd u (d1 * d2) q
      ∧ FlStep u k cv q cv' := Iff.rfl

theorem flCovRun_nil_iff (u mx my cv : K) : FlCovRun u [] mx my cv ↔ mx = 0 ∧ my = 0 ∧ cv = 0 := by
  constructor
  · exact FlCovRun.nil_inv
  · rintro ⟨rfl, rfl, rfl⟩; exact FlCovRun.nil

theorem flCovRun_snoc_iff (u : K) (ps : List (K × K)) (p : K × K) (mx' my' cv' : K) :
    FlCovRun u (ps ++ [p]) mx' my' cv'
      ↔ ∃ mx my cv, FlCovRun u ps mx my cv
          ∧ FlCovStep u (ps.length + 1) mx my cv p.1 p.2 mx' my' cv' := by
  constructor
  · intro h
    generalize hl : ps ++ [p] = l at h
    cases h with
    | nil => simp at hl
    | @snoc qs mx my cv q mx' my' cv' hr hs =>
      obtain ⟨rfl, h2⟩ := List.append_inj' hl rfl
      simp only [List.cons.injEq, and_true] at h2
      subst h2
      exact ⟨mx, my, cv, hr, hs⟩
  · rintro ⟨mx, my, cv, hr, hs⟩; exact FlCovRun.snoc p mx' my' cv' hr hs

/-- the float read-out `c.val * (n / (n − 1))` (`Cov2.value`): the integer `n − 1` is exact,
    the quotient and the product are rounded once each.  Same formula as `Variance.value`. -/
def FlCovValue (u : K) (n : ℕ) (c r : K) : Prop :=
  ∃ ρ : K, Rnd u ((n : K) / ((n : K) - 1)) ρ ∧ Rnd u (c * ρ) r

theorem flCovValue_iff_var (u : K) (n : ℕ) (c r : K) :
    FlCovValue u n c r ↔ C05FloatVar.FlVarValue u n c r := Iff.rfl

/-! ### 2. exactness -/

theorem cov_float_exact (ps : List (K × K)) (mx my cv : K) :
    FlCovRun 0 ps mx my cv
      ↔ mx = (Cov2.run ps).mx.val ∧ my = (Cov2.run ps).my.val ∧ cv = (Cov2.run ps).c.val :=
  flCovRun_zero_iff ps mx my cv

theorem exact_cov_run_possible {u : K} (hu : 0 ≤ u) (ps : List (K × K)) :
    FlCovRun u ps (Cov2.run ps).mx.val (Cov2.run ps).my.val (Cov2.run ps).c.val :=
  FlCovRun.of_exact hu ps

theorem cov_float_run_mono {u u' : K} (h : u ≤ u') {ps : List (K × K)} {mx my cv : K}
    (hr : FlCovRun u ps mx my cv) : FlCovRun u' ps mx my cv := hr.mono h

/-- the two means inside a covariance run are float mean runs, so C05Float applies to them -/
theorem cov_run_means {u : K} {ps : List (K × K)} {mx my cv : K} (hr : FlCovRun u ps mx my cv) :
    FlRun u (ps.map Prod.fst) mx ∧ FlRun u (ps.map Prod.snd) my :=
  ⟨hr.mean_run_x, hr.mean_run_y⟩

theorem exact_value_possible {u : K} (hu : 0 ≤ u) (n : ℕ) (c : K) :
    FlCovValue u n c (c * ((n : K) / ((n : K) - 1))) :=
  ⟨_, Rnd.exact hu _, Rnd.exact hu _⟩

/-! ### 3. the exact reference quantities -/

/-- `n · c.val` of the exact run is `Sxy = Σ (x − x̄)(y − ȳ)` -/
theorem exact_C_eq (ps : List (K × K)) : (ps.length : K) * (Cov2.run ps).c.val = sumProdDev ps := by
  rcases ps with _ | ⟨p, t⟩
  · simp [sumProdDev]
  · have hne : (p :: t) ≠ [] := by simp
    have hl : (((p :: t).length : ℕ) : K) ≠ 0 := Nat.cast_ne_zero.mpr (by simp)
    have hc := (Cov2.run_inv (p :: t)).c_val
    rw [sumProdDev_eq _ hne]
    field_simp
    linear_combination hc

theorem exact_Wx_eq (ps : List (K × K)) :
    (ps.length : K) * (Variance.run (ps.map Prod.fst)).var.val = sumSqDev (ps.map Prod.fst) := by
  rw [← C05FloatVar.exact_W_eq, List.length_map]

theorem exact_Wy_eq (ps : List (K × K)) :
    (ps.length : K) * (Variance.run (ps.map Prod.snd)).var.val = sumSqDev (ps.map Prod.snd) := by
  rw [← C05FloatVar.exact_W_eq, List.length_map]

/-- Cauchy–Schwarz, weighted AM–GM form: `|Sxy| ≤ (t·Sxx + Syy/t)/2` for every `t > 0` -/
theorem sumProdDev_abs_le {t : K} (ht : 0 < t) (ps : List (K × K)) :
    |sumProdDev ps| ≤ (t * sumSqDev (ps.map Prod.fst) + sumSqDev (ps.map Prod.snd) / t) / 2 := by
  have := exact_C_abs_le ht ps
  rwa [exact_C_eq, exact_Wx_eq, exact_Wy_eq] at this

theorem bounds_nonneg {Mx My : K} {ps : List (K × K)} (hne : ps ≠ [])
    (hx : ∀ p ∈ ps, |p.1| ≤ Mx) (hy : ∀ p ∈ ps, |p.2| ≤ My) : 0 ≤ Mx ∧ 0 ≤ My := by
  obtain ⟨p, t, rfl⟩ := List.exists_cons_of_ne_nil hne
  exact ⟨(abs_nonneg _).trans (hx p (by simp)), (abs_nonneg _).trans (hy p (by simp))⟩

theorem one_le_length {ps : List (K × K)} (hne : ps ≠ []) : (1 : K) ≤ (ps.length : K) := by
  exact_mod_cast Nat.succ_le_of_lt (List.length_pos_iff.mpr hne)

theorem u64_of_small {u : K} (hu : 0 ≤ u) {ps : List (K × K)} (hne : ps ≠ [])
    (hsmall : 64 * (ps.length : K) * u ≤ 1) : 64 * u ≤ 1 := by
  have hn := one_le_length (K := K) hne
  have : 64 * u * 1 ≤ 64 * u * (ps.length : K) := mul_le_mul_of_nonneg_left hn (by positivity)
  linarith

/-! ### 4. the bounds -/

/-- **Main bound.**  For every `t > 0`:
    `|n·c − Sxy| ≤ 2u·(t·Sxx + Syy/t) + 58·n²·u·Mx·My`. -/
theorem cov_float_defect {u Mx My t : K} (hu : 0 ≤ u) (ht : 0 < t) {ps : List (K × K)}
    (hne : ps ≠ []) (hx : ∀ p ∈ ps, |p.1| ≤ Mx) (hy : ∀ p ∈ ps, |p.2| ≤ My)
    (hsmall : 64 * (ps.length : K) * u ≤ 1) {mx my cv : K} (h : FlCovRun u ps mx my cv) :
    |(ps.length : K) * cv - sumProdDev ps|
      ≤ 2 * u * (t * sumSqDev (ps.map Prod.fst) + sumSqDev (ps.map Prod.snd) / t)
        + 58 * (ps.length : K) ^ 2 * u * (Mx * My) := by
  obtain ⟨hMx, hMy⟩ := bounds_nonneg hne hx hy
  obtain ⟨Q, _, q2, _, q4⟩ := FlCovRun.inv hu hMx hMy ht h hx hy hsmall
  rw [exact_C_eq, exact_Wx_eq, exact_Wy_eq] at q4
  have hn := one_le_length (K := K) hne
  have huM : 0 ≤ u * (Mx * My) := by positivity
  have e : (ps.length : K) * cv - sumProdDev ps
      = ((ps.length : K) * cv - Q) + (Q - sumProdDev ps) := by ring
  rw [e]
  refine (abs_add_le _ _).trans ((add_le_add q2 q4).trans ?_)
  have : (ps.length : K) * ((ps.length : K) + 1) * (u * (Mx * My))
      ≤ (ps.length : K) * (2 * (ps.length : K)) * (u * (Mx * My)) :=
    mul_le_mul_of_nonneg_right (mul_le_mul_of_nonneg_left (by linarith) (by linarith)) huM
  nlinarith

/-- `a ≤ c·t + b` for all `t > 0` forces `a ≤ b` (any ordered field, no limits needed) -/
theorem le_of_forall_pos_mul {a b c : K} (hc : 0 ≤ c) (h : ∀ t, 0 < t → a ≤ c * t + b) : a ≤ b := by
  by_contra hlt
  rw [not_le] at hlt
  rcases hc.eq_or_lt with rfl | hcpos
  · have := h 1 one_pos; linarith
  · have hpos : 0 < (a - b) / (2 * c) := div_pos (sub_pos.mpr hlt) (by positivity)
    have := h _ hpos
    have e : c * ((a - b) / (2 * c)) = (a - b) / 2 := by field_simp
    rw [e] at this
    linarith

/-- optimising the free weight: from `a ≤ w·(t·P + Q/t) + b` for all `t > 0` to
    `a ≤ 2w·G + b` for any `G ≥ √(P·Q)` (stated without square roots) -/
theorem of_forall_weight {a b w P Q G : K} (hw : 0 ≤ w) (hP : 0 ≤ P) (hQ : 0 ≤ Q) (hG : 0 ≤ G)
    (hPQ : P * Q ≤ G ^ 2) (h : ∀ t, 0 < t → a ≤ w * (t * P + Q / t) + b) : a ≤ 2 * w * G + b := by
  have hwG : 0 ≤ 2 * w * G := by positivity
  rcases hP.eq_or_lt with hP0 | hPpos
  · -- `P = 0`: let `t → ∞`
    have : a ≤ b := by
      refine le_of_forall_pos_mul (mul_nonneg hw hQ) (fun s hs => ?_)
      have := h (1 / s) (by positivity)
      rw [← hP0] at this
      have e : w * (1 / s * 0 + Q / (1 / s)) = w * Q * s := by
        rw [one_div, div_inv_eq_mul]; ring
      rwa [e] at this
    linarith
  · rcases hG.eq_or_lt with hG0 | hGpos
    · -- `G = 0`, `P > 0`: then `Q = 0`; let `t → 0`
      have hQ0 : Q = 0 := by
        rw [← hG0] at hPQ
        have : P * Q ≤ 0 := by simpa using hPQ
        have hQle : Q ≤ 0 := by
          by_contra hq; rw [not_le] at hq
          have : 0 < P * Q := mul_pos hPpos hq
          linarith
        exact le_antisymm hQle hQ
      have : a ≤ b := by
        refine le_of_forall_pos_mul (mul_nonneg hw hP) (fun s hs => ?_)
        have := h s hs
        rw [hQ0] at this
        have e : w * (s * P + 0 / s) = w * P * s := by ring
        rwa [e] at this
      linarith
    · have := h (G / P) (div_pos hGpos hPpos)
      have e1 : G / P * P = G := by field_simp
      have e2 : Q / (G / P) = P * Q / G := by field_simp
      rw [e1, e2] at this
      have hle : P * Q / G ≤ G := by
        rw [div_le_iff₀ hGpos]; calc P * Q ≤ G ^ 2 := hPQ
          _ = G * G := by ring
      have : w * (G + P * Q / G) ≤ w * (G + G) := mul_le_mul_of_nonneg_left (by linarith) hw
      linarith

/-- **Cauchy–Schwarz form.**  For every `G ≥ 0` with `Sxx·Syy ≤ G²` (that is `G ≥ √(Sxx·Syy)`):
    `|n·c − Sxy| ≤ 4u·G + 58·n²·u·Mx·My`. -/
theorem cov_float_defect_cs {u Mx My G : K} (hu : 0 ≤ u) (hG : 0 ≤ G) {ps : List (K × K)}
    (hne : ps ≠ []) (hx : ∀ p ∈ ps, |p.1| ≤ Mx) (hy : ∀ p ∈ ps, |p.2| ≤ My)
    (hsmall : 64 * (ps.length : K) * u ≤ 1)
    (hcs : sumSqDev (ps.map Prod.fst) * sumSqDev (ps.map Prod.snd) ≤ G ^ 2)
    {mx my cv : K} (h : FlCovRun u ps mx my cv) :
    |(ps.length : K) * cv - sumProdDev ps| ≤ 4 * u * G + 58 * (ps.length : K) ^ 2 * u * (Mx * My) := by
  have := of_forall_weight (w := 2 * u) (by positivity) (C05FloatVar.sumSqDev_nonneg _)
    (C05FloatVar.sumSqDev_nonneg _) hG hcs
    (fun t ht => cov_float_defect hu ht hne hx hy hsmall h)
  calc _ ≤ 2 * (2 * u) * G + 58 * (ps.length : K) ^ 2 * u * (Mx * My) := this
    _ = _ := by ring

theorem sumSq_le (xs : List K) (M : K) (hx : ∀ x ∈ xs, |x| ≤ M) : sumSq xs ≤ (xs.length : K) * M ^ 2 := by
  induction xs with
  | nil => simp
  | cons x xs ih =>
    have h1 : x * x ≤ M ^ 2 := by
      have := hx x (by simp)
      rw [← abs_mul_abs_self x, pow_two]
      exact mul_le_mul this this (abs_nonneg _) ((abs_nonneg _).trans this)
    have h2 := ih (fun y hy => hx y (by simp [hy]))
    simp only [sumSq, List.map_cons, List.sum_cons, List.length_cons] at h2 ⊢
    push_cast
    linarith

/-- `S = Σ (x − x̄)² ≤ Σ x² ≤ n·M²` -/
theorem sumSqDev_le (xs : List K) (M : K) (hx : ∀ x ∈ xs, |x| ≤ M) :
    sumSqDev xs ≤ (xs.length : K) * M ^ 2 := by
  rcases xs with _ | ⟨x, t⟩
  · simp [sumSqDev]
  · have hne : (x :: t) ≠ [] := by simp
    have hn : (0 : K) < (((x :: t).length : ℕ) : K) := Nat.cast_pos.mpr (by simp)
    rw [sumSqDev_eq _ hne]
    have h1 := sumSq_le (x :: t) M hx
    have h2 : 0 ≤ (x :: t).sum ^ 2 / (((x :: t).length : ℕ) : K) := by positivity
    linarith

/-- **All-absolute bound.**  `|n·c − Sxy| ≤ 62·n²·u·Mx·My`. -/
theorem cov_float_defect_abs {u Mx My : K} (hu : 0 ≤ u) {ps : List (K × K)}
    (hne : ps ≠ []) (hx : ∀ p ∈ ps, |p.1| ≤ Mx) (hy : ∀ p ∈ ps, |p.2| ≤ My)
    (hsmall : 64 * (ps.length : K) * u ≤ 1) {mx my cv : K} (h : FlCovRun u ps mx my cv) :
    |(ps.length : K) * cv - sumProdDev ps| ≤ 62 * (ps.length : K) ^ 2 * u * (Mx * My) := by
  obtain ⟨hMx, hMy⟩ := bounds_nonneg hne hx hy
  have hn := one_le_length (K := K) hne
  have hn0 : (0 : K) ≤ (ps.length : K) := by linarith
  have sx := sumSqDev_le (ps.map Prod.fst) Mx (mem_map_fst_le hx)
  have sy := sumSqDev_le (ps.map Prod.snd) My (mem_map_snd_le hy)
  rw [List.length_map] at sx sy
  have hcs : sumSqDev (ps.map Prod.fst) * sumSqDev (ps.map Prod.snd)
      ≤ ((ps.length : K) * (Mx * My)) ^ 2 := by
    calc sumSqDev (ps.map Prod.fst) * sumSqDev (ps.map Prod.snd)
        ≤ ((ps.length : K) * Mx ^ 2) * ((ps.length : K) * My ^ 2) :=
          mul_le_mul sx sy (C05FloatVar.sumSqDev_nonneg _) (by positivity)
      _ = ((ps.length : K) * (Mx * My)) ^ 2 := by ring
  have := cov_float_defect_cs hu (G := (ps.length : K) * (Mx * My)) (by positivity) hne hx hy
    hsmall hcs h
  refine this.trans ?_
  have huM : 0 ≤ u * (Mx * My) := by positivity
  have : (ps.length : K) * (u * (Mx * My)) ≤ (ps.length : K) ^ 2 * (u * (Mx * My)) := by
    apply mul_le_mul_of_nonneg_right _ huM
    nlinarith
  nlinarith

/-- error of `c.val` itself (the population covariance `Sxy/n`) -/
theorem cov_float_error {u Mx My t : K} (hu : 0 ≤ u) (ht : 0 < t) {ps : List (K × K)}
    (hne : ps ≠ []) (hx : ∀ p ∈ ps, |p.1| ≤ Mx) (hy : ∀ p ∈ ps, |p.2| ≤ My)
    (hsmall : 64 * (ps.length : K) * u ≤ 1) {mx my cv : K} (h : FlCovRun u ps mx my cv) :
    |cv - sumProdDev ps / (ps.length : K)|
      ≤ 2 * u * (t * (sumSqDev (ps.map Prod.fst) / (ps.length : K))
                  + sumSqDev (ps.map Prod.snd) / (ps.length : K) / t)
        + 58 * (ps.length : K) * u * (Mx * My) := by
  have hn : (0 : K) < (ps.length : K) := Nat.cast_pos.mpr (List.length_pos_iff.mpr hne)
  have hd := cov_float_defect hu ht hne hx hy hsmall h
  have e : cv - sumProdDev ps / (ps.length : K)
      = ((ps.length : K) * cv - sumProdDev ps) / (ps.length : K) := by
    field_simp
  rw [e, abs_div, abs_of_pos hn, div_le_iff₀ hn]
  refine hd.trans (le_of_eq ?_)
  field_simp

/-- the same, all-absolute: `|c − Sxy/n| ≤ 62·n·u·Mx·My` -/
theorem cov_float_error_abs {u Mx My : K} (hu : 0 ≤ u) {ps : List (K × K)}
    (hne : ps ≠ []) (hx : ∀ p ∈ ps, |p.1| ≤ Mx) (hy : ∀ p ∈ ps, |p.2| ≤ My)
    (hsmall : 64 * (ps.length : K) * u ≤ 1) {mx my cv : K} (h : FlCovRun u ps mx my cv) :
    |cv - sumProdDev ps / (ps.length : K)| ≤ 62 * (ps.length : K) * u * (Mx * My) := by
  have hn : (0 : K) < (ps.length : K) := Nat.cast_pos.mpr (List.length_pos_iff.mpr hne)
  have hd := cov_float_defect_abs hu hne hx hy hsmall h
  have e : cv - sumProdDev ps / (ps.length : K)
      = ((ps.length : K) * cv - sumProdDev ps) / (ps.length : K) := by
    field_simp
  rw [e, abs_div, abs_of_pos hn, div_le_iff₀ hn]
  refine hd.trans (le_of_eq ?_)
  ring

/-- **Centred bound.**  Data in the box `|x − cx| ≤ Rx`, `|y − cy| ≤ Ry`, with `|x| ≤ Mx`,
    `|y| ≤ My`, for every `t > 0`:
    `|n·c − Sxy| ≤ 2u·(t·Sxx + Syy/t) + 5u·MxMy + 26·n²u·RxRy + 14·n²u·(Rx·My + Ry·Mx)
        + 72·n³u²·MxMy`. -/
theorem cov_float_defect_centered {u Mx My Rx Ry cx cy t : K} (hu : 0 ≤ u) (ht : 0 < t)
    {ps : List (K × K)} (hne : ps ≠ [])
    (hx : ∀ p ∈ ps, |p.1| ≤ Mx) (hy : ∀ p ∈ ps, |p.2| ≤ My)
    (hcx : ∀ p ∈ ps, |p.1 - cx| ≤ Rx) (hcy : ∀ p ∈ ps, |p.2 - cy| ≤ Ry)
    (hsmall : 64 * (ps.length : K) * u ≤ 1) {mx my cv : K} (h : FlCovRun u ps mx my cv) :
    |(ps.length : K) * cv - sumProdDev ps|
      ≤ 2 * u * (t * sumSqDev (ps.map Prod.fst) + sumSqDev (ps.map Prod.snd) / t)
        + 5 * u * (Mx * My) + 26 * (ps.length : K) ^ 2 * u * (Rx * Ry)
        + 14 * (ps.length : K) ^ 2 * u * (Rx * My + Ry * Mx)
        + 72 * (ps.length : K) ^ 3 * u ^ 2 * (Mx * My) := by
  obtain ⟨hMx, hMy⟩ := bounds_nonneg hne hx hy
  obtain ⟨hRx, hRy⟩ : 0 ≤ Rx ∧ 0 ≤ Ry := by
    obtain ⟨p, t, rfl⟩ := List.exists_cons_of_ne_nil hne
    exact ⟨(abs_nonneg _).trans (hcx p (by simp)), (abs_nonneg _).trans (hcy p (by simp))⟩
  obtain ⟨Q, _, q2, _, q4⟩ :=
    FlCovRun.inv_centered hu hMx hMy hRx hRy ht ps.length hsmall h hx hy hcx hcy le_rfl
  rw [exact_C_eq, exact_Wx_eq, exact_Wy_eq, if_neg hne] at q4
  have hn := one_le_length (K := K) hne
  have e : (ps.length : K) * cv - sumProdDev ps
      = ((ps.length : K) * cv - Q) + (Q - sumProdDev ps) := by ring
  rw [e]
  refine (abs_add_le _ _).trans ((add_le_add q2 q4).trans ?_)
  generalize (ps.length : K) = n at *
  generalize sumSqDev (ps.map Prod.fst) = Sxx at *
  generalize sumSqDev (ps.map Prod.snd) = Syy at *
  have hn0 : 0 ≤ n := by linarith
  have hκ : n * u ≤ 1 / 64 := by linarith
  have hA : 0 ≤ n ^ 2 * u * (Rx * My + Ry * Mx) := by positivity
  have hB : 0 ≤ n ^ 3 * u ^ 2 * (Mx * My) := by positivity
  have hD : 0 ≤ n ^ 2 * u ^ 2 * (Mx * My) := by positivity
  have hC : 0 ≤ n ^ 2 * u * (Rx * Ry) := by positivity
  have b1 : n * u * (n ^ 2 * u * (Rx * My + Ry * Mx)) ≤ 1 / 64 * (n ^ 2 * u * (Rx * My + Ry * Mx)) :=
    mul_le_mul_of_nonneg_right hκ hA
  have b2 : n * u * (n ^ 3 * u ^ 2 * (Mx * My)) ≤ 1 / 64 * (n ^ 3 * u ^ 2 * (Mx * My)) :=
    mul_le_mul_of_nonneg_right hκ hB
  have b3 : 1 * (n ^ 2 * u ^ 2 * (Mx * My)) ≤ n * (n ^ 2 * u ^ 2 * (Mx * My)) :=
    mul_le_mul_of_nonneg_right hn hD
  have key : 6 * n ^ 2 * u * (17 / 16 * ((2 * Rx + 6 * n * u * Mx) * (2 * Ry + 6 * n * u * My))
        + 5 * u * (Mx * My))
      + n * (17 / 16 * (2 * Rx * (6 * n * u * My) + 6 * n * u * Mx * (2 * Ry)
          + 6 * n * u * Mx * (6 * n * u * My)))
      = 51 / 2 * (n ^ 2 * u * (Rx * Ry)) + 51 / 4 * (n ^ 2 * u * (Rx * My + Ry * Mx))
        + 153 / 4 * (n ^ 3 * u ^ 2 * (Mx * My))
        + 153 / 2 * (n * u * (n ^ 2 * u * (Rx * My + Ry * Mx)))
        + 459 / 2 * (n * u * (n ^ 3 * u ^ 2 * (Mx * My)))
        + 30 * (1 * (n ^ 2 * u ^ 2 * (Mx * My))) := by ring
  have b3' : n * (n ^ 2 * u ^ 2 * (Mx * My)) = n ^ 3 * u ^ 2 * (Mx * My) := by ring
  linarith

/-! ### the read-out `.value` -/

/-- from a defect bound `|n·c − S| ≤ B` to the rounded read-out `c * (n/(n−1))`; `S` of
    either sign -/
theorem value_error_of_defect {u S B : K} (hu : 0 ≤ u) (hu64 : 64 * u ≤ 1)
    {n : ℕ} (hn : 2 ≤ n) {c r : K} (hd : |(n : K) * c - S| ≤ B) (hr : FlCovValue u n c r) :
    |r - S / ((n : K) - 1)| ≤ (67 / 64 * B + 3 * u * |S|) / ((n : K) - 1) := by
  obtain ⟨ρ, ⟨δa, ha, rfl⟩, ⟨δb, hb, rfl⟩⟩ := hr
  have hn1 : (0 : K) < (n : K) - 1 := by
    have : (2 : K) ≤ (n : K) := by exact_mod_cast hn
    linarith
  have hB : 0 ≤ B := (abs_nonneg _).trans hd
  have hπ1 : |(1 + δa) * (1 + δb) - 1| ≤ 3 * u := by
    have p1 : |(1 + δa) - 1| ≤ u := by simpa using ha
    refine (rel_compose p1 hb).trans ?_
    have : u * u ≤ u * (1 / 64) := mul_le_mul_of_nonneg_left (by linarith) hu
    linarith
  have hπ : |(1 + δa) * (1 + δb)| ≤ 67 / 64 := (abs_le_one_add_of_rel hπ1).trans (by linarith)
  have e : c * ((n : K) / ((n : K) - 1) * (1 + δa)) * (1 + δb) - S / ((n : K) - 1)
      = (((n : K) * c - S) * ((1 + δa) * (1 + δb)) + S * ((1 + δa) * (1 + δb) - 1)) / ((n : K) - 1) := by
    field_simp
    ring
  rw [e, abs_div, abs_of_pos hn1]
  apply div_le_div_of_nonneg_right _ hn1.le
  calc |((n : K) * c - S) * ((1 + δa) * (1 + δb)) + S * ((1 + δa) * (1 + δb) - 1)|
      ≤ |((n : K) * c - S) * ((1 + δa) * (1 + δb))| + |S * ((1 + δa) * (1 + δb) - 1)| := abs_add_le _ _
    _ = |(n : K) * c - S| * |(1 + δa) * (1 + δb)| + |S| * |(1 + δa) * (1 + δb) - 1| := by
        rw [abs_mul ((n : K) * c - S), abs_mul S]
    _ ≤ B * (67 / 64) + |S| * (3 * u) :=
        add_le_add (mul_le_mul hd hπ (abs_nonneg _) hB) (mul_le_mul_of_nonneg_left hπ1 (abs_nonneg _))
    _ = 67 / 64 * B + 3 * u * |S| := by ring

theorem ne_nil_of_two_le {ps : List (K × K)} (h2 : 2 ≤ ps.length) : ps ≠ [] := by
  intro e; simp [e] at h2

theorem batchVar_fst (ps : List (K × K)) :
    batchVar (ps.map Prod.fst) = sumSqDev (ps.map Prod.fst) / ((ps.length : K) - 1) := by
  rw [batchVar, List.length_map]

theorem batchVar_snd (ps : List (K × K)) :
    batchVar (ps.map Prod.snd) = sumSqDev (ps.map Prod.snd) / ((ps.length : K) - 1) := by
  rw [batchVar, List.length_map]

/-- **Read-out.**  For `n ≥ 2`, every `t > 0`:
    `|value − batchCov| ≤ 4u·(t·batchVar x + batchVar y / t) + 61·n²·u·MxMy / (n − 1)`. -/
theorem cov_float_value_error {u Mx My t : K} (hu : 0 ≤ u) (ht : 0 < t) {ps : List (K × K)}
    (h2 : 2 ≤ ps.length) (hx : ∀ p ∈ ps, |p.1| ≤ Mx) (hy : ∀ p ∈ ps, |p.2| ≤ My)
    (hsmall : 64 * (ps.length : K) * u ≤ 1) {mx my cv r : K}
    (h : FlCovRun u ps mx my cv) (hr : FlCovValue u ps.length cv r) :
    |r - batchCov ps|
      ≤ 4 * u * (t * batchVar (ps.map Prod.fst) + batchVar (ps.map Prod.snd) / t)
        + 61 * (ps.length : K) ^ 2 * u * (Mx * My) / ((ps.length : K) - 1) := by
  have hne := ne_nil_of_two_le h2
  obtain ⟨hMx, hMy⟩ := bounds_nonneg hne hx hy
  have hn1 : (0 : K) < (ps.length : K) - 1 := by
    have : (2 : K) ≤ (ps.length : K) := by exact_mod_cast h2
    linarith
  have hd := cov_float_defect hu ht hne hx hy hsmall h
  have hv := value_error_of_defect hu (u64_of_small hu hne hsmall) h2 hd hr
  have hS := sumProdDev_abs_le ht ps
  rw [batchCov, batchVar_fst, batchVar_snd]
  refine hv.trans ?_
  have hT : 0 ≤ t * sumSqDev (ps.map Prod.fst) + sumSqDev (ps.map Prod.snd) / t := by
    have := C05FloatVar.sumSqDev_nonneg (ps.map Prod.fst)
    have := C05FloatVar.sumSqDev_nonneg (ps.map Prod.snd)
    positivity
  have e : 4 * u * (t * (sumSqDev (ps.map Prod.fst) / ((ps.length : K) - 1))
        + sumSqDev (ps.map Prod.snd) / ((ps.length : K) - 1) / t)
      + 61 * (ps.length : K) ^ 2 * u * (Mx * My) / ((ps.length : K) - 1)
      = (4 * u * (t * sumSqDev (ps.map Prod.fst) + sumSqDev (ps.map Prod.snd) / t)
        + 61 * (ps.length : K) ^ 2 * u * (Mx * My)) / ((ps.length : K) - 1) := by
    field_simp
  rw [e]
  apply div_le_div_of_nonneg_right _ hn1.le
  generalize t * sumSqDev (ps.map Prod.fst) + sumSqDev (ps.map Prod.snd) / t = T at *
  have h1 : 0 ≤ u * T := mul_nonneg hu hT
  have h3 : 0 ≤ (ps.length : K) ^ 2 * u * (Mx * My) := by positivity
  have h4 : u * |sumProdDev ps| ≤ u * (T / 2) := mul_le_mul_of_nonneg_left hS hu
  linarith

/-- **Read-out, Cauchy–Schwarz form.**  For `n ≥ 2`, `G ≥ 0`, `Sxx·Syy ≤ G²`:
    `|value − batchCov| ≤ (8u·G + 61·n²·u·MxMy) / (n − 1)`. -/
theorem cov_float_value_error_cs {u Mx My G : K} (hu : 0 ≤ u) (hG : 0 ≤ G) {ps : List (K × K)}
    (h2 : 2 ≤ ps.length) (hx : ∀ p ∈ ps, |p.1| ≤ Mx) (hy : ∀ p ∈ ps, |p.2| ≤ My)
    (hsmall : 64 * (ps.length : K) * u ≤ 1)
    (hcs : sumSqDev (ps.map Prod.fst) * sumSqDev (ps.map Prod.snd) ≤ G ^ 2) {mx my cv r : K}
    (h : FlCovRun u ps mx my cv) (hr : FlCovValue u ps.length cv r) :
    |r - batchCov ps|
      ≤ (8 * u * G + 61 * (ps.length : K) ^ 2 * u * (Mx * My)) / ((ps.length : K) - 1) := by
  have hn1 : (0 : K) < (ps.length : K) - 1 := by
    have : (2 : K) ≤ (ps.length : K) := by exact_mod_cast h2
    linarith
  have hP : 0 ≤ sumSqDev (ps.map Prod.fst) / ((ps.length : K) - 1) :=
    div_nonneg (C05FloatVar.sumSqDev_nonneg _) hn1.le
  have hQ : 0 ≤ sumSqDev (ps.map Prod.snd) / ((ps.length : K) - 1) :=
    div_nonneg (C05FloatVar.sumSqDev_nonneg _) hn1.le
  have hPQ : sumSqDev (ps.map Prod.fst) / ((ps.length : K) - 1)
      * (sumSqDev (ps.map Prod.snd) / ((ps.length : K) - 1)) ≤ (G / ((ps.length : K) - 1)) ^ 2 := by
    rw [div_mul_div_comm, div_pow, pow_two ((ps.length : K) - 1)]
    exact div_le_div_of_nonneg_right hcs (by positivity)
  have := of_forall_weight (w := 4 * u) (by positivity) hP hQ (div_nonneg hG hn1.le) hPQ
    (fun t ht => by
      have := cov_float_value_error hu ht h2 hx hy hsmall h hr
      rwa [batchVar_fst, batchVar_snd] at this)
  refine this.trans (le_of_eq ?_)
  field_simp
  ring

/-- **Read-out, centred form.**  For `n ≥ 2`, data in the box, every `t > 0`:
    `|value − batchCov| ≤ 4u·(t·batchVar x + batchVar y / t)
        + (6u·MxMy + 28·n²u·RxRy + 15·n²u·(Rx·My + Ry·Mx) + 76·n³u²·MxMy) / (n − 1)`. -/
theorem cov_float_value_error_centered {u Mx My Rx Ry cx cy t : K} (hu : 0 ≤ u) (ht : 0 < t)
    {ps : List (K × K)} (h2 : 2 ≤ ps.length)
    (hx : ∀ p ∈ ps, |p.1| ≤ Mx) (hy : ∀ p ∈ ps, |p.2| ≤ My)
    (hcx : ∀ p ∈ ps, |p.1 - cx| ≤ Rx) (hcy : ∀ p ∈ ps, |p.2 - cy| ≤ Ry)
    (hsmall : 64 * (ps.length : K) * u ≤ 1) {mx my cv r : K}
    (h : FlCovRun u ps mx my cv) (hr : FlCovValue u ps.length cv r) :
    |r - batchCov ps|
      ≤ 4 * u * (t * batchVar (ps.map Prod.fst) + batchVar (ps.map Prod.snd) / t)
        + (6 * u * (Mx * My) + 28 * (ps.length : K) ^ 2 * u * (Rx * Ry)
            + 15 * (ps.length : K) ^ 2 * u * (Rx * My + Ry * Mx)
            + 76 * (ps.length : K) ^ 3 * u ^ 2 * (Mx * My)) / ((ps.length : K) - 1) := by
  have hne := ne_nil_of_two_le h2
  obtain ⟨hMx, hMy⟩ := bounds_nonneg hne hx hy
  obtain ⟨hRx, hRy⟩ : 0 ≤ Rx ∧ 0 ≤ Ry := by
    obtain ⟨p, t, rfl⟩ := List.exists_cons_of_ne_nil hne
    exact ⟨(abs_nonneg _).trans (hcx p (by simp)), (abs_nonneg _).trans (hcy p (by simp))⟩
  have hn1 : (0 : K) < (ps.length : K) - 1 := by
    have : (2 : K) ≤ (ps.length : K) := by exact_mod_cast h2
    linarith
  have hd := cov_float_defect_centered hu ht hne hx hy hcx hcy hsmall h
  have hv := value_error_of_defect hu (u64_of_small hu hne hsmall) h2 hd hr
  have hS := sumProdDev_abs_le ht ps
  rw [batchCov, batchVar_fst, batchVar_snd]
  refine hv.trans ?_
  have hT : 0 ≤ t * sumSqDev (ps.map Prod.fst) + sumSqDev (ps.map Prod.snd) / t := by
    have := C05FloatVar.sumSqDev_nonneg (ps.map Prod.fst)
    have := C05FloatVar.sumSqDev_nonneg (ps.map Prod.snd)
    positivity
  have e : 4 * u * (t * (sumSqDev (ps.map Prod.fst) / ((ps.length : K) - 1))
        + sumSqDev (ps.map Prod.snd) / ((ps.length : K) - 1) / t)
      + (6 * u * (Mx * My) + 28 * (ps.length : K) ^ 2 * u * (Rx * Ry)
            + 15 * (ps.length : K) ^ 2 * u * (Rx * My + Ry * Mx)
            + 76 * (ps.length : K) ^ 3 * u ^ 2 * (Mx * My)) / ((ps.length : K) - 1)
      = (4 * u * (t * sumSqDev (ps.map Prod.fst) + sumSqDev (ps.map Prod.snd) / t)
        + (6 * u * (Mx * My) + 28 * (ps.length : K) ^ 2 * u * (Rx * Ry)
            + 15 * (ps.length : K) ^ 2 * u * (Rx * My + Ry * Mx)
            + 76 * (ps.length : K) ^ 3 * u ^ 2 * (Mx * My))) / ((ps.length : K) - 1) := by
    field_simp
  rw [e]
  apply div_le_div_of_nonneg_right _ hn1.le
  generalize t * sumSqDev (ps.map Prod.fst) + sumSqDev (ps.map Prod.snd) / t = T at *
  have h1 : 0 ≤ u * T := mul_nonneg hu hT
  have h3 : 0 ≤ u * (Mx * My) := by positivity
  have h4 : 0 ≤ (ps.length : K) ^ 2 * u * (Rx * Ry) := by positivity
  have h5 : 0 ≤ (ps.length : K) ^ 2 * u * (Rx * My + Ry * Mx) := by positivity
  have h6 : 0 ≤ (ps.length : K) ^ 3 * u ^ 2 * (Mx * My) := by positivity
  have h7 : u * |sumProdDev ps| ≤ u * (T / 2) := mul_le_mul_of_nonneg_left hS hu
  linarith

/-! ### 5. the diagonal: the variance is the case `y = x` -/

/-- every float variance run is a float covariance run on the diagonal data `(x, x)`, with
    both mean components equal; step by step, a diagonal covariance step with equal mean
    components *is* a variance step.  (The inclusion is strict in the model: the two mean
    updates of `Cov2.push` are separate operations with independent roundings.) -/
theorem cov_diag_is_var {u : K} {xs : List K} {m v : K} (hr : FlVarRun u xs m v) :
    FlCovRun u (xs.map fun x => (x, x)) m m v := hr.to_cov

theorem cov_diag_step_iff (u : K) (k : ℕ) (m v x m' v' : K) :
    FlCovStep u k m m v x x m' m' v' ↔ FlVarStep u k m v x m' v' := flCovStep_diag_iff u k m v x m' v'

/-- both mean components of any diagonal covariance run are float mean runs over `xs` -/
theorem cov_diag_means {u : K} {xs : List K} {mx my cv : K}
    (hr : FlCovRun u (xs.map fun x => (x, x)) mx my cv) : FlRun u xs mx ∧ FlRun u xs my := by
  have h1 := hr.mean_run_x
  have h2 := hr.mean_run_y
  simp only [List.map_map, Function.comp_def, List.map_id'] at h1 h2
  exact ⟨h1, h2⟩

/-- the variance bound of `C05FloatVar` IS the diagonal case `t = 1` of `cov_float_defect`
    (same constants `4u·S + 58·n²·u·M²`) -/
theorem var_float_defect_from_cov {u M : K} (hu : 0 ≤ u) {xs : List K} (hne : xs ≠ [])
    (hx : ∀ x ∈ xs, |x| ≤ M) (hsmall : 64 * (xs.length : K) * u ≤ 1) {m v : K}
    (h : FlVarRun u xs m v) :
    |(xs.length : K) * v - sumSqDev xs|
      ≤ 4 * u * sumSqDev xs + 58 * (xs.length : K) ^ 2 * u * M ^ 2 := by
  have hd := cov_float_defect (u := u) (Mx := M) (My := M) (t := 1) hu one_pos
    (ps := xs.map fun x => (x, x)) (by simpa using hne)
    (by intro p hp; obtain ⟨x, hx', rfl⟩ := List.mem_map.mp hp; exact hx x hx')
    (by intro p hp; obtain ⟨x, hx', rfl⟩ := List.mem_map.mp hp; exact hx x hx')
    (by rw [List.length_map]; exact hsmall) (cov_diag_is_var h)
  rw [← sumSqDev_eq_sumProdDev] at hd
  simp only [List.map_map, Function.comp_def, List.map_id', List.length_map] at hd
  refine hd.trans (le_of_eq ?_)
  ring

/-! ### 6. exchanging `x` and `y`

  The float update is not symmetric (see the header), but the reference and the bound
  are: entries `(x, y)` and `(y, x)` of the computed matrix differ by at most twice the
  bound. -/

theorem sumProdDev_swap (ps : List (K × K)) : sumProdDev (ps.map Prod.swap) = sumProdDev ps := by
  simp [sumProdDev, List.map_map, Function.comp_def, mul_comm]

theorem map_fst_swap (ps : List (K × K)) : (ps.map Prod.swap).map Prod.fst = ps.map Prod.snd := by
  simp [List.map_map, Function.comp_def]

theorem map_snd_swap (ps : List (K × K)) : (ps.map Prod.swap).map Prod.snd = ps.map Prod.fst := by
  simp [List.map_map, Function.comp_def]

/-- the `(y, x)` entry obeys the same bound against the same `Sxy` -/
theorem cov_float_defect_swapped {u Mx My t : K} (hu : 0 ≤ u) (ht : 0 < t) {ps : List (K × K)}
    (hne : ps ≠ []) (hx : ∀ p ∈ ps, |p.1| ≤ Mx) (hy : ∀ p ∈ ps, |p.2| ≤ My)
    (hsmall : 64 * (ps.length : K) * u ≤ 1) {my mx cv : K}
    (h : FlCovRun u (ps.map Prod.swap) my mx cv) :
    |(ps.length : K) * cv - sumProdDev ps|
      ≤ 2 * u * (t * sumSqDev (ps.map Prod.fst) + sumSqDev (ps.map Prod.snd) / t)
        + 58 * (ps.length : K) ^ 2 * u * (Mx * My) := by
  have hd := cov_float_defect (u := u) (Mx := My) (My := Mx) (t := 1 / t) hu (by positivity)
    (ps := ps.map Prod.swap) (by simpa using hne)
    (by intro p hp; obtain ⟨q, hq, rfl⟩ := List.mem_map.mp hp; exact hy q hq)
    (by intro p hp; obtain ⟨q, hq, rfl⟩ := List.mem_map.mp hp; exact hx q hq)
    (by rw [List.length_map]; exact hsmall) h
  rw [sumProdDev_swap, map_fst_swap, map_snd_swap, List.length_map] at hd
  refine hd.trans (le_of_eq ?_)
  field_simp
  ring

/-- asymmetry of the computed matrix: the `(x, y)` and `(y, x)` entries differ by at most
    twice the bound -/
theorem cov_float_swap {u Mx My t : K} (hu : 0 ≤ u) (ht : 0 < t) {ps : List (K × K)}
    (hne : ps ≠ []) (hx : ∀ p ∈ ps, |p.1| ≤ Mx) (hy : ∀ p ∈ ps, |p.2| ≤ My)
    (hsmall : 64 * (ps.length : K) * u ≤ 1) {mx my cv mx' my' cv' : K}
    (h : FlCovRun u ps mx my cv) (h' : FlCovRun u (ps.map Prod.swap) my' mx' cv') :
    |(ps.length : K) * cv - (ps.length : K) * cv'|
      ≤ 2 * (2 * u * (t * sumSqDev (ps.map Prod.fst) + sumSqDev (ps.map Prod.snd) / t)
        + 58 * (ps.length : K) ^ 2 * u * (Mx * My)) := by
  have a := cov_float_defect hu ht hne hx hy hsmall h
  have b := cov_float_defect_swapped hu ht hne hx hy hsmall h'
  have e : (ps.length : K) * cv - (ps.length : K) * cv'
      = ((ps.length : K) * cv - sumProdDev ps) - ((ps.length : K) * cv' - sumProdDev ps) := by ring
  rw [e]
  refine (abs_sub _ _).trans ?_
  linarith

/-- with `u = 0` the two entries coincide (this is `C05.cov_symm`) -/
theorem cov_exact_swap (ps : List (K × K)) {mx my cv mx' my' cv' : K}
    (h : FlCovRun 0 ps mx my cv) (h' : FlCovRun 0 (ps.map Prod.swap) my' mx' cv') : cv = cv' := by
  rw [flCovRun_zero_iff] at h h'
  rw [h.2.2, h'.2.2, (C05.cov_symm ps).1]

/-! ### 7. non-vacuity: a genuinely perturbed run over ℚ, `u = 1/1000`,
    `ps = [(1, 2), (3, 5/2), (0, 1)]` (`Sxy = 13/6`, `Sxx = 14/3`, `Syy = 7/6`, `√(Sxx·Syy) = 7/3`) -/

theorem flCovStep_of_deltas {u : K} (k : ℕ)
    (mx my cv x y ε1 ε2 ε3 a1 a2 a3 a4 b1 b2 b3 b4 c1 c2 c3 c4 : K)
    (h1 : |ε1| ≤ u) (h2 : |ε2| ≤ u) (h3 : |ε3| ≤ u)
    (ha1 : |a1| ≤ u) (ha2 : |a2| ≤ u) (ha3 : |a3| ≤ u) (ha4 : |a4| ≤ u)
    (hb1 : |b1| ≤ u) (hb2 : |b2| ≤ u) (hb3 : |b3| ≤ u) (hb4 : |b4| ≤ u)
    (hc1 : |c1| ≤ u) (hc2 : |c2| ≤ u) (hc3 : |c3| ≤ u) (hc4 : |c4| ≤ u) :
    FlCovStep u k mx my cv x y
      ((mx + (x / (k : K) * (1 + a1) - mx / (k : K) * (1 + a2)) * (1 + a3)) * (1 + a4))
      ((my + (y / (k : K) * (1 + b1) - my / (k : K) * (1 + b2)) * (1 + b3)) * (1 + b4))
      ((cv + ((x - mx) * (1 + ε1)
              * ((y - (my + (y / (k : K) * (1 + b1) - my / (k : K) * (1 + b2)) * (1 + b3)) * (1 + b4))
                  * (1 + ε2)) * (1 + ε3) / (k : K) * (1 + c1)
            - cv / (k : K) * (1 + c2)) * (1 + c3)) * (1 + c4)) :=
  ⟨_, _, _, ⟨ε1, h1, rfl⟩,
    ⟨_, _, _, ⟨a1, ha1, rfl⟩, ⟨a2, ha2, rfl⟩, ⟨a3, ha3, rfl⟩, ⟨a4, ha4, rfl⟩⟩,
    ⟨_, _, _, ⟨b1, hb1, rfl⟩, ⟨b2, hb2, rfl⟩, ⟨b3, hb3, rfl⟩, ⟨b4, hb4, rfl⟩⟩,
    ⟨ε2, h2, rfl⟩, ⟨ε3, h3, rfl⟩,
    ⟨_, _, _, ⟨c1, hc1, rfl⟩, ⟨c2, hc2, rfl⟩, ⟨c3, hc3, rfl⟩, ⟨c4, hc4, rfl⟩⟩⟩

/-- the inclusion "float variance runs ⊂ diagonal float covariance runs" is strict: a diagonal
    covariance run whose two mean components differ (single pair `(1, 1)`, `u = 1/1000`, only
    the last rounding of the `x`-mean perturbed) -/
example : ∃ mx my cv : ℚ, FlCovRun (1 / 1000) [(1, 1)] mx my cv ∧ mx ≠ my := by
  have r0 : FlCovRun (1 / 1000 : ℚ) [] 0 0 0 := FlCovRun.nil
  have r1 := FlCovRun.snoc (1, 1) _ _ _ r0 (flCovStep_of_deltas (u := (1 / 1000 : ℚ)) _ 0 0 0 1 1
    0 0 0 0 0 0 (1 / 1000) 0 0 0 0 0 0 0 0
    (by norm_num [abs_le]) (by norm_num [abs_le]) (by norm_num [abs_le]) (by norm_num [abs_le])
    (by norm_num [abs_le]) (by norm_num [abs_le]) (by norm_num [abs_le]) (by norm_num [abs_le])
    (by norm_num [abs_le]) (by norm_num [abs_le]) (by norm_num [abs_le]) (by norm_num [abs_le])
    (by norm_num [abs_le]) (by norm_num [abs_le]) (by norm_num [abs_le]))
  exact ⟨_, _, _, r1, by norm_num⟩

example : sumProdDev ([(1, 2), (3, 5/2), (0, 1)] : List (ℚ × ℚ)) = 13 / 6
    ∧ sumSqDev (([(1, 2), (3, 5/2), (0, 1)] : List (ℚ × ℚ)).map Prod.fst) = 14 / 3
    ∧ sumSqDev (([(1, 2), (3, 5/2), (0, 1)] : List (ℚ × ℚ)).map Prod.snd) = 7 / 6 := by
  norm_num [sumProdDev, sumSqDev, batchMean]

example : ∃ mx my cv : ℚ, FlCovRun (1 / 1000) [(1, 2), (3, 5/2), (0, 1)] mx my cv
    ∧ mx ≠ 4 / 3 ∧ my ≠ 11 / 6 ∧ 3 * cv ≠ 13 / 6
    ∧ |3 * cv - 13 / 6| ≤ 4 * (1 / 1000) * (7 / 3) + 58 * 3 ^ 2 * (1 / 1000) * (3 * (5 / 2)) := by
  have r0 : FlCovRun (1 / 1000 : ℚ) [] 0 0 0 := FlCovRun.nil
  have r1 := FlCovRun.snoc (1, 2) _ _ _ r0 (flCovStep_of_deltas (u := (1 / 1000 : ℚ)) _ 0 0 0 1 2
    (1 / 1000) 0 0 (1 / 1000) 0 0 (-1 / 1000) 0 0 (1 / 1000) 0 0 0 0 (1 / 1000)
    (by norm_num [abs_le]) (by norm_num [abs_le]) (by norm_num [abs_le]) (by norm_num [abs_le])
    (by norm_num [abs_le]) (by norm_num [abs_le]) (by norm_num [abs_le]) (by norm_num [abs_le])
    (by norm_num [abs_le]) (by norm_num [abs_le]) (by norm_num [abs_le]) (by norm_num [abs_le])
    (by norm_num [abs_le]) (by norm_num [abs_le]) (by norm_num [abs_le]))
  have r2 := FlCovRun.snoc (3, 5/2) _ _ _ r1 (flCovStep_of_deltas (u := (1 / 1000 : ℚ)) _ _ _ _ 3 (5/2)
    0 (-1 / 1000) (1 / 1000) 0 (1 / 1000) 0 0 (-1 / 1000) 0 0 0 (1 / 1000) 0 (-1 / 1000) 0
    (by norm_num [abs_le]) (by norm_num [abs_le]) (by norm_num [abs_le]) (by norm_num [abs_le])
    (by norm_num [abs_le]) (by norm_num [abs_le]) (by norm_num [abs_le]) (by norm_num [abs_le])
    (by norm_num [abs_le]) (by norm_num [abs_le]) (by norm_num [abs_le]) (by norm_num [abs_le])
    (by norm_num [abs_le]) (by norm_num [abs_le]) (by norm_num [abs_le]))
  have r3 := FlCovRun.snoc (0, 1) _ _ _ r2 (flCovStep_of_deltas (u := (1 / 1000 : ℚ)) _ _ _ _ 0 1
    (1 / 1000) 0 (1 / 1000) 0 0 (1 / 1000) 0 (1 / 1000) 0 0 0 0 (-1 / 1000) 0 (1 / 1000)
    (by norm_num [abs_le]) (by norm_num [abs_le]) (by norm_num [abs_le]) (by norm_num [abs_le])
    (by norm_num [abs_le]) (by norm_num [abs_le]) (by norm_num [abs_le]) (by norm_num [abs_le])
    (by norm_num [abs_le]) (by norm_num [abs_le]) (by norm_num [abs_le]) (by norm_num [abs_le])
    (by norm_num [abs_le]) (by norm_num [abs_le]) (by norm_num [abs_le]))
  refine ⟨_, _, _, r3, ?_, ?_, ?_, ?_⟩ <;> norm_num [abs_le]

/-- the theorems apply to every run on that list: `64·3/1000 ≤ 1`, `|x| ≤ 3`, `|y| ≤ 5/2`,
    `G = 7/3` (`(7/3)² = Sxx·Syy`), data in the box `[3/2 ± 3/2] × [7/4 ± 3/4]` -/
example (mx my cv : ℚ) (h : FlCovRun (1 / 1000) [(1, 2), (3, 5/2), (0, 1)] mx my cv) :
    |3 * cv - 13 / 6| ≤ 4 * (1 / 1000) * (7 / 3) + 58 * 3 ^ 2 * (1 / 1000) * (3 * (5 / 2)) := by
  have := cov_float_defect_cs (u := (1 / 1000 : ℚ)) (Mx := 3) (My := 5 / 2) (G := 7 / 3)
    (by norm_num) (by norm_num) (ps := [(1, 2), (3, 5/2), (0, 1)]) (by simp)
    (by intro p hp; simp at hp; rcases hp with rfl | rfl | rfl <;> norm_num [abs_le])
    (by intro p hp; simp at hp; rcases hp with rfl | rfl | rfl <;> norm_num [abs_le])
    (by norm_num) (by norm_num [sumSqDev, batchMean]) h
  have e : sumProdDev ([(1, 2), (3, 5/2), (0, 1)] : List (ℚ × ℚ)) = 13 / 6 := by
    norm_num [sumProdDev, batchMean]
  rw [e] at this
  simpa using this

example (mx my cv : ℚ) (h : FlCovRun (1 / 1000) [(1, 2), (3, 5/2), (0, 1)] mx my cv) :
    |3 * cv - 13 / 6| ≤ 2 * (1 / 1000) * (1 / 2 * (14 / 3) + 7 / 6 / (1 / 2))
        + 5 * (1 / 1000) * (3 * (5 / 2)) + 26 * 3 ^ 2 * (1 / 1000) * (3 / 2 * (3 / 4))
        + 14 * 3 ^ 2 * (1 / 1000) * (3 / 2 * (5 / 2) + 3 / 4 * 3)
        + 72 * 3 ^ 3 * (1 / 1000) ^ 2 * (3 * (5 / 2)) := by
  have := cov_float_defect_centered (u := (1 / 1000 : ℚ)) (Mx := 3) (My := 5 / 2) (Rx := 3 / 2)
    (Ry := 3 / 4) (cx := 3 / 2) (cy := 7 / 4) (t := 1 / 2)
    (by norm_num) (by norm_num) (ps := [(1, 2), (3, 5/2), (0, 1)]) (by simp)
    (by intro p hp; simp at hp; rcases hp with rfl | rfl | rfl <;> norm_num [abs_le])
    (by intro p hp; simp at hp; rcases hp with rfl | rfl | rfl <;> norm_num [abs_le])
    (by intro p hp; simp at hp; rcases hp with rfl | rfl | rfl <;> norm_num [abs_le])
    (by intro p hp; simp at hp; rcases hp with rfl | rfl | rfl <;> norm_num [abs_le])
    (by norm_num) h
  have e1 : sumProdDev ([(1, 2), (3, 5/2), (0, 1)] : List (ℚ × ℚ)) = 13 / 6 := by
    norm_num [sumProdDev, batchMean]
  have e2 : sumSqDev (([(1, 2), (3, 5/2), (0, 1)] : List (ℚ × ℚ)).map Prod.fst) = 14 / 3 := by
    norm_num [sumSqDev, batchMean]
  have e3 : sumSqDev (([(1, 2), (3, 5/2), (0, 1)] : List (ℚ × ℚ)).map Prod.snd) = 7 / 6 := by
    norm_num [sumSqDev, batchMean]
  rw [e1, e2, e3] at this
  simpa using this

end Gpv.C05FloatCov

#print axioms Gpv.C05FloatCov.flCovRun_nil_iff
#print axioms Gpv.C05FloatCov.flCovRun_snoc_iff
#print axioms Gpv.C05FloatCov.cov_float_exact
#print axioms Gpv.C05FloatCov.exact_cov_run_possible
#print axioms Gpv.C05FloatCov.cov_float_run_mono
#print axioms Gpv.C05FloatCov.cov_run_means
#print axioms Gpv.C05FloatCov.exact_value_possible
#print axioms Gpv.C05FloatCov.exact_C_eq
#print axioms Gpv.C05FloatCov.sumProdDev_abs_le
#print axioms Gpv.C05FloatCov.cov_float_defect
#print axioms Gpv.C05FloatCov.of_forall_weight
#print axioms Gpv.C05FloatCov.cov_float_defect_cs
#print axioms Gpv.C05FloatCov.sumSqDev_le
#print axioms Gpv.C05FloatCov.cov_float_defect_abs
#print axioms Gpv.C05FloatCov.cov_float_error
#print axioms Gpv.C05FloatCov.cov_float_error_abs
#print axioms Gpv.C05FloatCov.cov_float_defect_centered
#print axioms Gpv.C05FloatCov.value_error_of_defect
#print axioms Gpv.C05FloatCov.cov_float_value_error
#print axioms Gpv.C05FloatCov.cov_float_value_error_cs
#print axioms Gpv.C05FloatCov.cov_float_value_error_centered
#print axioms Gpv.C05FloatCov.cov_diag_is_var
#print axioms Gpv.C05FloatCov.cov_diag_step_iff
#print axioms Gpv.C05FloatCov.cov_diag_means
#print axioms Gpv.C05FloatCov.var_float_defect_from_cov
#print axioms Gpv.C05FloatCov.sumProdDev_swap
#print axioms Gpv.C05FloatCov.cov_float_defect_swapped
#print axioms Gpv.C05FloatCov.cov_float_swap
#print axioms Gpv.C05FloatCov.cov_exact_swap
#print axioms Gpv.C05FloatCov.flCovStep_of_deltas
