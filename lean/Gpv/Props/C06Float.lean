/-
  C06, floating-point clause — a machine-checked rounding-error bound for the pooled-mean
  merge `ntot = n + m; _val = _val*(n/ntot) + other._val*(m/ntot)` (`Mean.merge`), for two
  merged streams, and for whole merge trees over chunks.

  Model (Gpv/Proofs/FloatMerge.lean, on top of Gpv/Proofs/FloatMean.lean): each of the five
  floating-point operations of the source line (the two quotients `n/ntot`, `m/ntot`, the two
  products, the sum) returns its exact result times `1 + δ`, `|δ| ≤ u` (`u` unit roundoff,
  `2^-53` for binary64), δ's arbitrary and independent; the integer counts `n`, `m`, `ntot`
  are exact; no overflow/underflow.  `FlMerge u a n b m r` : `r` is a possible result of
  merging value `a` (count `n`) with value `b` (count `m`).  `FlTree u t v` : `v` is a
  possible result of the merge tree `t` whose leaves are float runs (`FlRun`) of the
  incremental mean over their chunks.

  Proved, for EVERY possible float result:

  * `mean_merge_float_error`      |r − (n a + m b)/(n+m)| ≤ ((1+u)³ − 1)·max(|a|,|b|)
        = (3u + 3u² + u³)·max;  ≤ 4·u·max for u ≤ 1/4;  ≤ (7/2)·u·max for u ≤ 1/8.
    The weights lie in [0,1]: no growth with the counts.  (The constant 3 itself is not
    attainable as a bound `3·u·max`: all δ = u gives exactly `(1+u)³ − 1 > 3u`.)
  * `merged_streams_float_error`  two float runs over `xs`, `ys` (|x| ≤ M), merged:
        |r − mean(xs ++ ys)| ≤ 6·(L + 1)·u·M,  L = max(|xs|,|ys|), for 8·L·u ≤ 1
    — one merge costs as much as ONE more observation in the longest stream.
  * `tree_float_error`            a merge tree of depth `d`, longest leaf `L`, 8·L·u ≤ 1:
        |v − mean(all)| ≤ M·((1 + 6 L u)(1 + u)^(3d) − 1)          (no further smallness)
  * `tree_float_error_lin`        … ≤ 6·(L + d)·u·M   for additionally 21·d·u ≤ 1
    — the error grows with the DEPTH of the tree, not with the number of chunks.
-/
import Gpv.Proofs.FloatMerge
import Gpv.Props.C05Float
set_option linter.unusedSectionVars false

namespace Gpv.C06Float
open Gpv Gpv.C06
variable {K : Type} [Field K] [LinearOrder K] [IsStrictOrderedRing K]

/-! ### 1. the model -/

theorem flMerge_def (u a : K) (n : ℕ) (b : K) (m : ℕ) (r : K) :
    FlMerge u a n b m r ↔ ∃ p q s t : K, Rnd u ((n : K) / ((n + m : ℕ) : K)) p
      ∧ Rnd u ((m : K) / ((n + m : ℕ) : K)) q ∧ Rnd u (a * p) s ∧ Rnd u (b * q) t
      ∧ Rnd u (s + t) r := Iff.rfl

/-- the exact merge of the model is a possible float merge, for every `u ≥ 0` -/
theorem exact_merge_possible {u : K} (hu : 0 ≤ u) (a b : K) {n m : ℕ} (hnm : n + m ≠ 0) :
    FlMerge u a n b m ((⟨a, n⟩ : Mean K).merge ⟨b, m⟩).val := by
  rw [(Mean.merge_val a b hnm).1]; exact FlMerge.of_exact hu a n b m

/-- with `u = 0` the only possible float merge is the model's `Mean.merge` -/
theorem exact_is_the_float_merge (a b r : K) {n m : ℕ} (hnm : n + m ≠ 0) :
    FlMerge 0 a n b m r ↔ r = ((⟨a, n⟩ : Mean K).merge ⟨b, m⟩).val := by
  rw [(Mean.merge_val a b hnm).1]; exact flMerge_zero_iff a n b m r

/-- a larger unit roundoff allows more results -/
theorem float_merge_mono {u u' : K} (h : u ≤ u') {a b r : K} {n m : ℕ}
    (hm : FlMerge u a n b m r) : FlMerge u' a n b m r := hm.mono h

/-- the tree relation -/
theorem flTree_leaf_iff (u : K) (xs : List K) (v : K) : FlTree u (.leaf xs) v ↔ FlRun u xs v := by
  constructor
  · intro h; cases h with | leaf hr => exact hr
  · exact FlTree.leaf

theorem flTree_node_iff (u : K) (l r : MTree K) (v : K) :
    FlTree u (.node l r) v ↔ ∃ a b, FlTree u l a ∧ FlTree u r b
      ∧ FlMerge u a l.flatten.length b r.flatten.length v := by
  constructor
  · intro h; cases h with | node hl hr hm => exact ⟨_, _, hl, hr, hm⟩
  · rintro ⟨a, b, hl, hr, hm⟩; exact FlTree.node hl hr hm

/-- the exact tree evaluation of C06 (`MTree.eval Mean.run Mean.merge`) is a float evaluation -/
theorem exact_tree_possible {u : K} (hu : 0 ≤ u) (t : MTree K) :
    FlTree u t (t.eval Mean.run Mean.merge).val := by
  rw [mean_tree_eq]; exact FlTree.of_exact hu t

/-- and at `u = 0` the only one -/
theorem exact_is_the_float_tree (t : MTree K) (v : K) :
    FlTree 0 t v ↔ v = (t.eval Mean.run Mean.merge).val := by
  rw [mean_tree_eq]; exact flTree_zero_iff t v

theorem float_tree_mono {u u' : K} (h : u ≤ u') {t : MTree K} {v : K} (ht : FlTree u t v) :
    FlTree u' t v := ht.mono h

/-! ### 2. one merge -/

/-- **one merge**: within `(1+u)³ − 1 = 3u + 3u² + u³` of the exact pooled mean, relative to
    the larger operand — independent of the counts -/
theorem mean_merge_float_error {u a b r : K} {n m : ℕ} (hnm : n + m ≠ 0)
    (h : FlMerge u a n b m r) :
    |r - ((n : K) * a + (m : K) * b) / ((n + m : ℕ) : K)| ≤ ((1 + u) ^ 3 - 1) * max |a| |b| := by
  have := h.error hnm (le_max_left |a| |b|) (le_max_right |a| |b|)
  exact this.trans (le_of_eq (mul_comm _ _))

/-- `C = 4` for `u ≤ 1/4` -/
theorem mean_merge_float_error_four {u a b r : K} {n m : ℕ} (hu : 0 ≤ u) (hu4 : u ≤ 1 / 4)
    (hnm : n + m ≠ 0) (h : FlMerge u a n b m r) :
    |r - ((n : K) * a + (m : K) * b) / ((n + m : ℕ) : K)| ≤ 4 * u * max |a| |b| :=
  (mean_merge_float_error hnm h).trans
    (mul_le_mul_of_nonneg_right (gam3_le_four hu hu4) (le_max_of_le_left (abs_nonneg a)))

/-- `C = 7/2` for `u ≤ 1/8` -/
theorem mean_merge_float_error_eighth {u a b r : K} {n m : ℕ} (hu : 0 ≤ u) (hu8 : u ≤ 1 / 8)
    (hnm : n + m ≠ 0) (h : FlMerge u a n b m r) :
    |r - ((n : K) * a + (m : K) * b) / ((n + m : ℕ) : K)| ≤ 7 / 2 * u * max |a| |b| := by
  refine (mean_merge_float_error hnm h).trans
    (mul_le_mul_of_nonneg_right ?_ (le_max_of_le_left (abs_nonneg a)))
  have := gam3_le_eighth hu hu8
  linarith

/-- the same against the value the model's `Mean.merge` returns -/
theorem mean_merge_float_vs_model {u a b r : K} {n m : ℕ} (hu : 0 ≤ u) (hu4 : u ≤ 1 / 4)
    (hnm : n + m ≠ 0) (h : FlMerge u a n b m r) :
    |r - ((⟨a, n⟩ : Mean K).merge ⟨b, m⟩).val| ≤ 4 * u * max |a| |b| := by
  rw [(Mean.merge_val a b hnm).1, mergeVal_eq a b hnm]
  exact mean_merge_float_error_four hu hu4 hnm h

/-- the merged value exceeds the operands by at most three roundings -/
theorem mean_merge_float_magnitude {u a b r : K} {n m : ℕ} (h : FlMerge u a n b m r) :
    |r| ≤ max |a| |b| * (1 + u) ^ 3 :=
  h.magnitude (le_max_left |a| |b|) (le_max_right |a| |b|)

/-- sharpness of the constant: with all five δ equal to `u` and equal operands `a = b`, the
    result is exactly `a (1+u)³`; so no bound `3·u·max` holds, `(1+u)³ − 1` is attained -/
theorem mean_merge_float_error_attained {u : K} (hu : 0 ≤ u) (a : K) {n m : ℕ} (hnm : n + m ≠ 0) :
    FlMerge u a n a m (a * (1 + u) ^ 3)
      ∧ a * (1 + u) ^ 3 - ((n : K) * a + (m : K) * a) / ((n + m : ℕ) : K) = ((1 + u) ^ 3 - 1) * a := by
  have hN : ((n + m : ℕ) : K) ≠ 0 := Nat.cast_ne_zero.mpr hnm
  have hc : ((n + m : ℕ) : K) = (n : K) + (m : K) := by push_cast; rfl
  have habs : |u| ≤ u := by rw [abs_of_nonneg hu]
  constructor
  · have := flMerge_of_deltas (u := u) a n a m u u u u u habs habs habs habs habs
    convert this using 1
    rw [hc] at hN ⊢
    field_simp
  · rw [hc] at hN ⊢
    field_simp

/-! ### 3. two float streams, merged -/

/-- **two streams.**  `a` a float run of the mean over `xs`, `b` one over `ys`, `r` a float
    merge of the two: `|r − mean(xs ++ ys)| ≤ 6 (L + 1) u M`, `L = max(|xs|, |ys|)` -/
theorem merged_streams_float_error {u M : K} (hu : 0 ≤ u) (hM : 0 ≤ M) {xs ys : List K}
    (hne : xs.length + ys.length ≠ 0)
    (hx : ∀ x ∈ xs, |x| ≤ M) (hy : ∀ y ∈ ys, |y| ≤ M)
    (hsmall : 8 * ((max xs.length ys.length : ℕ) : K) * u ≤ 1)
    {a b r : K} (ha : FlRun u xs a) (hb : FlRun u ys b)
    (hm : FlMerge u a xs.length b ys.length r) :
    |r - (xs ++ ys).sum / ((xs ++ ys).length : K)|
      ≤ 6 * (((max xs.length ys.length : ℕ) : K) + 1) * u * M := by
  have ht : FlTree u (.node (.leaf xs) (.leaf ys)) r := FlTree.node (FlTree.leaf ha) (FlTree.leaf hb) hm
  have hxy : ∀ z ∈ (MTree.node (.leaf xs) (.leaf ys)).flatten, |z| ≤ M := by
    intro z hz
    rcases List.mem_append.mp hz with h | h
    · exact hx z h
    · exact hy z h
  have hinv := (FlTree.inv hu hM ht hxy hsmall).1
  simp only [MTree.flatten, MTree.maxLeaf, MTree.depth, max_self, zero_add] at hinv
  set L : ℕ := max xs.length ys.length with hL
  have hN : (0 : K) < ((xs ++ ys).length : K) := by
    rw [List.length_append]; exact Nat.cast_pos.mpr (by omega)
  have hL1 : (1 : K) ≤ (L : K) := by
    have : 1 ≤ L := by rw [hL]; omega
    exact_mod_cast this
  have hL0 : (0 : K) ≤ (L : K) := by linarith
  have hu8 : u ≤ 1 / 8 := by nlinarith
  -- linearise `treeB u M L 1 − M`
  have hlin : treeB u M L 1 - M ≤ 6 * ((L : K) + 1) * u * M := by
    unfold treeB
    have hg := gam3_le_eighth hu hu8
    set t : K := 6 * (L : K) * u with htdef
    have ht0 : 0 ≤ t := by positivity
    have ht1 : t ≤ 3 / 4 := by rw [htdef]; linarith
    have hγ0 := gam3_nonneg hu
    have e : M * (1 + t) * (1 + u) ^ (3 * 1) - M = M * (t + (1 + t) * ((1 + u) ^ 3 - 1)) := by ring
    have h2 : (1 + t) * ((1 + u) ^ 3 - 1) ≤ 7 / 4 * (217 / 64 * u) :=
      mul_le_mul (by linarith) hg hγ0 (by norm_num)
    rw [e]
    calc M * (t + (1 + t) * ((1 + u) ^ 3 - 1)) ≤ M * (t + 6 * u) :=
          mul_le_mul_of_nonneg_left (by linarith) hM
      _ = 6 * ((L : K) + 1) * u * M := by rw [htdef]; ring
  have e : r - (xs ++ ys).sum / ((xs ++ ys).length : K)
      = (((xs ++ ys).length : K) * r - (xs ++ ys).sum) / ((xs ++ ys).length : K) := by
    field_simp
  rw [e, abs_div, abs_of_pos hN, div_le_iff₀ hN]
  exact (hinv.trans (mul_le_mul_of_nonneg_left hlin hN.le)).trans (le_of_eq (mul_comm _ _))

/-- the same against the exact merged state of the model, `(Mean.run xs).merge (Mean.run ys)` -/
theorem merged_streams_float_vs_model {u M : K} (hu : 0 ≤ u) (hM : 0 ≤ M) {xs ys : List K}
    (hne : xs.length + ys.length ≠ 0)
    (hx : ∀ x ∈ xs, |x| ≤ M) (hy : ∀ y ∈ ys, |y| ≤ M)
    (hsmall : 8 * ((max xs.length ys.length : ℕ) : K) * u ≤ 1)
    {a b r : K} (ha : FlRun u xs a) (hb : FlRun u ys b)
    (hm : FlMerge u a xs.length b ys.length r) :
    |r - ((Mean.run xs).merge (Mean.run ys)).val|
      ≤ 6 * (((max xs.length ys.length : ℕ) : K) + 1) * u * M := by
  have hne' : xs ++ ys ≠ [] := by
    intro h; apply hne; rw [← List.length_append, h]; rfl
  rw [Mean.merge_run, Mean.run_val _ hne']
  exact merged_streams_float_error hu hM hne hx hy hsmall ha hb hm

/-! ### 4. merge trees: the error grows with the depth -/

/-- division-free invariant of every float evaluation of a merge tree, and the magnitude -/
theorem tree_float_defect {u M : K} (hu : 0 ≤ u) (hM : 0 ≤ M) {t : MTree K} {v : K}
    (h : FlTree u t v) (hx : ∀ x ∈ t.flatten, |x| ≤ M) (hsmall : 8 * (t.maxLeaf : K) * u ≤ 1) :
    |(t.flatten.length : K) * v - t.flatten.sum|
        ≤ (t.flatten.length : K) * (M * (1 + 6 * (t.maxLeaf : K) * u) * (1 + u) ^ (3 * t.depth) - M)
      ∧ |v| ≤ M * (1 + 6 * (t.maxLeaf : K) * u) * (1 + u) ^ (3 * t.depth) :=
  FlTree.inv hu hM h hx hsmall

/-- **merge tree, closed form.**  Depth `d`, longest leaf `L`, `8 L u ≤ 1`:
    `|v − mean| ≤ M ((1 + 6 L u)(1 + u)^(3 d) − 1)` -/
theorem tree_float_error {u M : K} (hu : 0 ≤ u) (hM : 0 ≤ M) {t : MTree K} {v : K}
    (h : FlTree u t v) (hne : t.flatten ≠ []) (hx : ∀ x ∈ t.flatten, |x| ≤ M)
    (hsmall : 8 * (t.maxLeaf : K) * u ≤ 1) :
    |v - t.flatten.sum / (t.flatten.length : K)|
      ≤ M * ((1 + 6 * (t.maxLeaf : K) * u) * (1 + u) ^ (3 * t.depth) - 1) := by
  have hN : (0 : K) < (t.flatten.length : K) := Nat.cast_pos.mpr (List.length_pos_iff.mpr hne)
  have hd := (tree_float_defect hu hM h hx hsmall).1
  have e : v - t.flatten.sum / (t.flatten.length : K)
      = ((t.flatten.length : K) * v - t.flatten.sum) / (t.flatten.length : K) := by
    field_simp
  rw [e, abs_div, abs_of_pos hN, div_le_iff₀ hN]
  refine hd.trans (le_of_eq ?_)
  ring

/-- **merge tree, linearised.**  `|v − mean| ≤ 6 (L + d) u M` for `8 L u ≤ 1`, `21 d u ≤ 1` -/
theorem tree_float_error_lin {u M : K} (hu : 0 ≤ u) (hM : 0 ≤ M) {t : MTree K} {v : K}
    (h : FlTree u t v) (hne : t.flatten ≠ []) (hx : ∀ x ∈ t.flatten, |x| ≤ M)
    (hsmall : 8 * (t.maxLeaf : K) * u ≤ 1) (hdepth : 21 * (t.depth : K) * u ≤ 1) :
    |v - t.flatten.sum / (t.flatten.length : K)|
      ≤ 6 * ((t.maxLeaf : K) + (t.depth : K)) * u * M := by
  refine (tree_float_error hu hM h hne hx hsmall).trans ?_
  have := treeB_lin hu hM t.maxLeaf t.depth hsmall hdepth
  unfold treeB at this
  refine le_trans (le_of_eq ?_) this
  ring

/-- against the exact tree evaluation of C06 -/
theorem tree_float_vs_exact_tree {u M : K} (hu : 0 ≤ u) (hM : 0 ≤ M) {t : MTree K} {v : K}
    (h : FlTree u t v) (hne : t.flatten ≠ []) (hx : ∀ x ∈ t.flatten, |x| ≤ M)
    (hsmall : 8 * (t.maxLeaf : K) * u ≤ 1) (hdepth : 21 * (t.depth : K) * u ≤ 1) :
    |v - (t.eval Mean.run Mean.merge).val| ≤ 6 * ((t.maxLeaf : K) + (t.depth : K)) * u * M := by
  rw [mean_tree_eq, Mean.run_val _ hne]
  exact tree_float_error_lin hu hM h hne hx hsmall hdepth

/-- in the shape of the property: `eps = 2u`, against the batch mean, data magnitude `max|x|` -/
theorem tree_float_error_rel {eps : K} (heps : 0 ≤ eps) {t : MTree K} {v : K}
    (h : FlTree (eps / 2) t v) (hne : t.flatten ≠ [])
    (hsmall : 4 * (t.maxLeaf : K) * eps ≤ 1) (hdepth : 21 * (t.depth : K) * eps ≤ 2) :
    |v - batchMean t.flatten|
      ≤ 3 * ((t.maxLeaf : K) + (t.depth : K)) * eps * C05Float.maxAbs t.flatten := by
  have := tree_float_error_lin (u := eps / 2) (by positivity) (C05Float.maxAbs_nonneg _) h hne
    (C05Float.le_maxAbs _) (by linarith) (by linarith)
  refine this.trans (le_of_eq ?_)
  ring

/-- the value itself: `|v| ≤ M (1 + 6 L u)(1 + u)^(3d)` -/
theorem tree_float_magnitude {u M : K} (hu : 0 ≤ u) (hM : 0 ≤ M) {t : MTree K} {v : K}
    (h : FlTree u t v) (hx : ∀ x ∈ t.flatten, |x| ≤ M) (hsmall : 8 * (t.maxLeaf : K) * u ≤ 1) :
    |v| ≤ M * (1 + 6 * (t.maxLeaf : K) * u) * (1 + u) ^ (3 * t.depth) :=
  (tree_float_defect hu hM h hx hsmall).2

/-- depth 2, explicitly: four chunks merged pairwise, then the two halves -/
theorem four_chunks_float_error {u M : K} (hu : 0 ≤ u) (hM : 0 ≤ M) {c1 c2 c3 c4 : List K}
    (hne : c1 ++ c2 ++ (c3 ++ c4) ≠ [])
    (hx : ∀ x ∈ c1 ++ c2 ++ (c3 ++ c4), |x| ≤ M)
    (hsmall : 8 * ((max (max c1.length c2.length) (max c3.length c4.length) : ℕ) : K) * u ≤ 1)
    (hu42 : 42 * u ≤ 1) {v : K}
    (h : FlTree u (.node (.node (.leaf c1) (.leaf c2)) (.node (.leaf c3) (.leaf c4))) v) :
    |v - (c1 ++ c2 ++ (c3 ++ c4)).sum / ((c1 ++ c2 ++ (c3 ++ c4)).length : K)|
      ≤ 6 * (((max (max c1.length c2.length) (max c3.length c4.length) : ℕ) : K) + 2) * u * M := by
  have := tree_float_error_lin hu hM h hne hx hsmall
    (by simp only [MTree.depth]; norm_num; linarith)
  simpa [MTree.depth, MTree.maxLeaf, MTree.flatten] using this

/-! ### 5. non-vacuity over ℚ: a genuinely perturbed merge, `u = 1/1000`,
    `a = 2` (3 observations), `b = 5` (1 observation); exact pooled mean `11/4` -/

example : ∃ r : ℚ, FlMerge (1 / 1000) 2 3 5 1 r ∧ r ≠ 11 / 4
    ∧ r = 11000988999 / 4000000000
    ∧ |r - 11 / 4| ≤ 4 * (1 / 1000) * 5 := by
  have h := flMerge_of_deltas (u := (1 / 1000 : ℚ)) 2 3 5 1
    (1 / 1000) (-1 / 1000) (1 / 1000) (1 / 1000) (-1 / 1000)
    (by norm_num [abs_le]) (by norm_num [abs_le]) (by norm_num [abs_le]) (by norm_num [abs_le])
    (by norm_num [abs_le])
  refine ⟨_, h, ?_, ?_, ?_⟩ <;> norm_num [abs_le]

/-- and the theorem applies to every such merge -/
example (r : ℚ) (h : FlMerge (1 / 1000) 2 3 5 1 r) : |r - 11 / 4| ≤ 4 * (1 / 1000) * 5 := by
  have := mean_merge_float_error_four (u := (1 / 1000 : ℚ)) (by norm_num) (by norm_num)
    (n := 3) (m := 1) (by norm_num) h
  norm_num at this ⊢
  exact this

/-- a perturbed two-chunk tree: chunks `[1, 2, 3]` and `[5]`, leaves exact, merge perturbed -/
example : ∃ v : ℚ, FlTree (1 / 1000) (.node (.leaf [1, 2, 3]) (.leaf [5])) v ∧ v ≠ 11 / 4
    ∧ |v - 11 / 4| ≤ 6 * (3 + 1) * (1 / 1000) * 5 := by
  have l1 : FlRun (1 / 1000 : ℚ) [1, 2, 3] 2 := by
    have := FlRun.of_exact (u := (1 / 1000 : ℚ)) (by norm_num) [1, 2, 3]
    have e : (Mean.run ([1, 2, 3] : List ℚ)).val = 2 := by
      norm_num [Mean.run, Mean.push, Mean.init]
    rwa [e] at this
  have l2 : FlRun (1 / 1000 : ℚ) [5] 5 := by
    have := FlRun.of_exact (u := (1 / 1000 : ℚ)) (by norm_num) [5]
    have e : (Mean.run ([5] : List ℚ)).val = 5 := by
      norm_num [Mean.run, Mean.push, Mean.init]
    rwa [e] at this
  have h := flMerge_of_deltas (u := (1 / 1000 : ℚ)) 2 3 5 1
    (1 / 1000) (-1 / 1000) (1 / 1000) (1 / 1000) (-1 / 1000)
    (by norm_num [abs_le]) (by norm_num [abs_le]) (by norm_num [abs_le]) (by norm_num [abs_le])
    (by norm_num [abs_le])
  refine ⟨_, FlTree.node (FlTree.leaf l1) (FlTree.leaf l2) h, ?_, ?_⟩ <;> norm_num [abs_le]

end Gpv.C06Float

#print axioms Gpv.C06Float.flMerge_def
#print axioms Gpv.C06Float.exact_merge_possible
#print axioms Gpv.C06Float.exact_is_the_float_merge
#print axioms Gpv.C06Float.float_merge_mono
#print axioms Gpv.C06Float.flTree_leaf_iff
#print axioms Gpv.C06Float.flTree_node_iff
#print axioms Gpv.C06Float.exact_tree_possible
#print axioms Gpv.C06Float.exact_is_the_float_tree
#print axioms Gpv.C06Float.float_tree_mono
#print axioms Gpv.C06Float.mean_merge_float_error
#print axioms Gpv.C06Float.mean_merge_float_error_four
#print axioms Gpv.C06Float.mean_merge_float_error_eighth
#print axioms Gpv.C06Float.mean_merge_float_vs_model
#print axioms Gpv.C06Float.mean_merge_float_magnitude
#print axioms Gpv.C06Float.mean_merge_float_error_attained
#print axioms Gpv.C06Float.merged_streams_float_error
#print axioms Gpv.C06Float.merged_streams_float_vs_model
#print axioms Gpv.C06Float.tree_float_defect
#print axioms Gpv.C06Float.tree_float_error
#print axioms Gpv.C06Float.tree_float_error_lin
#print axioms Gpv.C06Float.tree_float_vs_exact_tree
#print axioms Gpv.C06Float.tree_float_error_rel
#print axioms Gpv.C06Float.tree_float_magnitude
#print axioms Gpv.C06Float.four_chunks_float_error
