/-
  C06, floating-point clause for MERGE TREES of `Covariance` accumulators — a machine-checked
  rounding-error bound for ONE ENTRY `(i, j)` of the population covariance matrix `_cov.value`
  (and for the two mean components `i`, `j`) that results from merging the float streaming
  states of arbitrary chunks in an arbitrary binary tree.

  Model (Gpv/Proofs/FloatCovTree.lean, on top of FloatMean / FloatCov / FloatMerge /
  FloatCovMerge): every floating-point operation returns its exact result times `1 + δ`,
  `|δ| ≤ u` (`u` unit roundoff, `2^-53` for binary64), δ's arbitrary and independent; the
  integer counts are exact; no overflow/underflow.
  `FlCovTree u t ai aj c` : `(ai, aj, c)` is a possible float (`mean.value[i]`,
  `mean.value[j]`, `_cov.value[i, j]`) of the merge tree `t : MTree (K × K)` (C06.lean; leaves
  are chunks of pairs `(x_i, x_j)`, the two components of each observation vector):
    * a leaf is a float streaming covariance run over its chunk (`FlCovRun`, C05FloatCov);
    * a node merges its children as `Covariance._accumulate_other` does — `dmean[i]`, `dmean[j]`
      from the OLD float means, the entry by the eleven operations of `FlCovMerge`
      (C06FloatCov), each mean component by the five operations of `FlMerge` (C06Float) — on
      the children's float values and exact counts.
      (With `newn = 0` the source returns early; the relation then yields `(0, 0, 0)` as well.)

  Notation: `N` pairs in the tree, `Sxy = Σ (x − x̄)(y − ȳ)` over all of them (`sumProdDev`),
  `d = t.depth` (a leaf has depth 0), `L = t.maxLeaf` the longest chunk, `|x| ≤ Mx`, `|y| ≤ My`,
      ε(L,d) = (1+6Lu)(1+u)^(3d) − 1                          (relative error of the float means)
      T(L,0) = 62·L·u ,
      T(L,d+1) = (1+u)⁴·T(L,d) + ((1+u)⁴ − 1) + ((1+u)⁸ − 1) + (1+u)⁸·(2ε(L,d) + ε(L,d)²) .

  THE DIFFERENCE TO THE VARIANCE TREE (C06FloatVarTree): `Sxy` has no sign and can vanish while
  the Chan terms of a merge do not (`C06FloatCov.no_relative_bound`), so there is NO part
  relative to `Sxy`; everything is absolute, in units of `Mx·My`.  The relative factor
  `(1+u)^(4(d+1)) − 1` of the variance tree reappears as the summands `γ₄ + γ₈` per level.

  Proved, for EVERY tree and EVERY possible float evaluation:

  * `flCovTree_leaf_iff`, `flCovTree_node_iff` (unfolding), `exact_tree_possible` (the exact
    `t.eval Cov2.run Cov2.merge` of C06 is a possible float evaluation, every `u ≥ 0`),
    `exact_is_the_float_tree` (`u = 0` forces it), `float_tree_mono`,
    `cov_tree_means_are_float_trees` (each mean component is a `FlTree` over the projected
    tree: all of C06Float applies), `empty_tree_float`,
    `var_tree_is_diag_cov_tree` (every float VARIANCE tree is a float covariance tree on the
    diagonal data `(x, x)`).
  * `cov_tree_float_defect`   (only `64·L·u ≤ 1`; NO smallness hypothesis on the depth)
        |N·c − Sxy| ≤ N·T(L,d)·Mx·My ,   |ai − x̄| ≤ Mx·ε(L,d) ,   |aj − ȳ| ≤ My·ε(L,d).
  * `cov_tree_float_error`    |c − Sxy/N| ≤ T(L,d)·Mx·My.
  * `abs_coeff_zero/_succ/_le_closed/_lin/_nonneg/_mono`: the recursion for `T`, the bound
        T(L,d) ≤ (1+u)^(4d)·(62Lu + d(γ₄ + γ₈ + (1+u)⁸(2ε+ε²))), and for `64·L·u ≤ 1`,
        `64·d·u ≤ 1`:   T(L,d) ≤ (67·L + 30·d·(L+d))·u.
  * `cov_tree_float_defect_lin`, `cov_tree_float_error_lin`   (`64·L·u ≤ 1`, `64·d·u ≤ 1`)
        |c − Sxy/N| ≤ (67·L + 30·d·(L+d))·u·Mx·My
    — in terms of the DEPTH and the longest CHUNK only: neither the number of chunks nor the
    total number of pairs `N` enters.  (One streaming run over all `N` pairs:
    `62·N·u·MxMy`, C05FloatCov; two merged streams: `(13 + 74·N)·u·MxMy`, C06FloatCov.  A
    balanced tree over `k` chunks of length `L` has `d = ⌈log₂ k⌉` and `N = k·L`; the
    streaming reduce `total += part` is the left comb, `d = k − 1`.)
  * `cov_tree_float_vs_model (_closed)`  the same against
    `(t.eval Cov2.run Cov2.merge).c.val`, the two-component model of entry `(i, j)`.
  * `cov_tree_means_float_error_lin`  |ai − mean_i| ≤ 6·(L+d)·u·Mx, |aj − mean_j| ≤ 6·(L+d)·u·My
    (C06Float, restated);  `cov_tree_means_float_vs_model`.
  * `four_chunks_cov_float_error`  depth 2, explicitly.
  * `example`s over ℚ: the 3-leaf tree `(([(1,2),(2,1),(3,3)] ⊕ [(4,1),(6,5)]) ⊕ [(5,2)])`,
    `u = 1/1000`, a genuinely perturbed evaluation different from the exact one, within the
    bound; the theorems applied to every evaluation of that tree.

  Not proved here: a Cauchy–Schwarz (`√(Sxx·Syy)`-relative) or centred (`|x − c| ≤ R`) form
  (the leaves have both, `C05FloatCov.cov_float_defect_cs / _centered`; the `dmean` step would
  need the centred mean bound); sharpness of the constants 67 and 30 (not claimed); that the
  diagonal covariance tree yields exactly the same SET of results as the variance tree (only
  `⊇`); the read-out `.value = _cov·(n/(n−1))` after a tree (it is
  `C05FloatCov.value_error_of_defect` applied to `cov_tree_float_defect`); the whole matrix at
  once (per entry; entries of one tree evaluation share the float means, which is irrelevant
  for the bound since it holds for every choice of roundings — cf. C05FloatMatrix).
-/
import Gpv.Proofs.FloatCovTree
set_option linter.unusedSectionVars false

namespace Gpv.C06FloatCovTree
open Gpv Gpv.C06
variable {K : Type} [Field K] [LinearOrder K] [IsStrictOrderedRing K]

/-! ### 1. the model -/

/-- a leaf is a float streaming covariance run over its chunk of pairs -/
theorem flCovTree_leaf_iff (u : K) (ps : List (K × K)) (ai aj c : K) :
    FlCovTree u (.leaf ps) ai aj c ↔ FlCovRun u ps ai aj c := by
  constructor
  · intro h; cases h with | leaf hr => exact hr
  · exact FlCovTree.leaf

/-- a node merges the float states of its children: each mean component by `FlMerge`, the
    entry by `FlCovMerge`, all on the children's float means/entries and exact counts -/
theorem flCovTree_node_iff (u : K) (l r : MTree (K × K)) (ci cj cc : K) :
    FlCovTree u (.node l r) ci cj cc ↔ ∃ ai aj ca bi bj cb,
      FlCovTree u l ai aj ca ∧ FlCovTree u r bi bj cb
      ∧ FlMerge u ai l.flatten.length bi r.flatten.length ci
      ∧ FlMerge u aj l.flatten.length bj r.flatten.length cj
      ∧ FlCovMerge u ai aj ca l.flatten.length bi bj cb r.flatten.length cc := by
  constructor
  · intro h
    cases h with | node hl hr hi hj hc => exact ⟨_, _, _, _, _, _, hl, hr, hi, hj, hc⟩
  · rintro ⟨ai, aj, ca, bi, bj, cb, hl, hr, hi, hj, hc⟩; exact FlCovTree.node hl hr hi hj hc

/-- the exact tree evaluation of C06 (`MTree.eval Cov2.run Cov2.merge`, the two-component
    model of entry `(i, j)`) is a possible float evaluation, for every `u ≥ 0` -/
theorem exact_tree_possible {u : K} (hu : 0 ≤ u) (t : MTree (K × K)) :
    FlCovTree u t (t.eval Cov2.run Cov2.merge).mx.val (t.eval Cov2.run Cov2.merge).my.val
      (t.eval Cov2.run Cov2.merge).c.val := by
  rw [cov_tree_eq]; exact FlCovTree.of_exact hu t

/-- and at `u = 0` the only one -/
theorem exact_is_the_float_tree (t : MTree (K × K)) (ai aj c : K) :
    FlCovTree 0 t ai aj c ↔ ai = (t.eval Cov2.run Cov2.merge).mx.val
      ∧ aj = (t.eval Cov2.run Cov2.merge).my.val
      ∧ c = (t.eval Cov2.run Cov2.merge).c.val := by
  rw [cov_tree_eq]; exact flCovTree_zero_iff t ai aj c

/-- a larger unit roundoff allows more results -/
theorem float_tree_mono {u u' : K} (h : u ≤ u') {t : MTree (K × K)} {ai aj c : K}
    (ht : FlCovTree u t ai aj c) : FlCovTree u' t ai aj c := ht.mono h

/-- the two mean components of a covariance tree are mean trees over the projected trees:
    everything C06Float proves about `FlTree` applies to them -/
theorem cov_tree_means_are_float_trees {u : K} {t : MTree (K × K)} {ai aj c : K}
    (ht : FlCovTree u t ai aj c) :
    FlTree u (t.map Prod.fst) ai ∧ FlTree u (t.map Prod.snd) aj :=
  ⟨ht.mean_tree_x, ht.mean_tree_y⟩

/-- a tree without observations evaluates to `(0, 0, 0)` -/
theorem empty_tree_float {u : K} {t : MTree (K × K)} {ai aj c : K} (ht : FlCovTree u t ai aj c)
    (he : t.flatten = []) : ai = 0 ∧ aj = 0 ∧ c = 0 := ht.empty he

/-- **the diagonal.**  Every float VARIANCE tree (C06FloatVarTree) is a float covariance tree
    over the diagonal data `(x, x)` with both mean components equal: the diagonal entries of
    the merged matrix obey the (relative) variance-tree bounds AND the bounds below -/
theorem var_tree_is_diag_cov_tree {u : K} {t : MTree K} {a va : K} (ht : FlVarTree u t a va) :
    FlCovTree u (t.map fun x => (x, x)) a a va := by
  induction ht with
  | leaf hr => exact FlCovTree.leaf hr.to_cov
  | @node l r a va b vb c vc _ _ hm hv ihl ihr =>
    refine FlCovTree.node ihl ihr ?_ ?_ ?_
    · rw [MTree.length_flatten_map, MTree.length_flatten_map]; exact hm
    · rw [MTree.length_flatten_map, MTree.length_flatten_map]; exact hm
    · rw [MTree.length_flatten_map, MTree.length_flatten_map]; exact hv.to_cov

/-! ### 2. the coefficient -/

/-- leaves: `T(L,0) = 62·L·u` (the streaming bound `62·n²·u·MxMy` of C05FloatCov, per pair) -/
theorem abs_coeff_zero (u : K) (L : ℕ) : covTreeT u L 0 = 62 * (L : K) * u := rfl

/-- one more level: the children's `T` is amplified by the four roundings of the `.sum`
    path; the four roundings on the children's exact `Sxy` (bounded by `n·MxMy`) and the eight
    on the exact `dmean` term (bounded by `N·MxMy`) add `γ₄ + γ₈`; and the errors `Mx·ε`,
    `My·ε` of the float means enter through `dmean[i]·dmean[j]` (eight roundings, weight
    `n·m/N² ≤ 1/4`) -/
theorem abs_coeff_succ (u : K) (L d : ℕ) :
    covTreeT u L (d + 1)
      = (1 + u) ^ 4 * covTreeT u L d + ((1 + u) ^ 4 - 1) + ((1 + u) ^ 8 - 1)
        + (1 + u) ^ 8 * (2 * ((1 + 6 * (L : K) * u) * (1 + u) ^ (3 * d) - 1)
            + ((1 + 6 * (L : K) * u) * (1 + u) ^ (3 * d) - 1) ^ 2) := rfl

/-- closed upper bound, no smallness hypothesis -/
theorem abs_coeff_le_closed {u : K} (hu : 0 ≤ u) (L d : ℕ) :
    covTreeT u L d
      ≤ (1 + u) ^ (4 * d)
        * (62 * (L : K) * u + (d : K) * (((1 + u) ^ 4 - 1) + ((1 + u) ^ 8 - 1)
            + (1 + u) ^ 8 * (2 * ((1 + 6 * (L : K) * u) * (1 + u) ^ (3 * d) - 1)
                + ((1 + 6 * (L : K) * u) * (1 + u) ^ (3 * d) - 1) ^ 2))) :=
  covTreeT_le_closed hu L d

/-- linearised: `T(L,d) ≤ (67·L + 30·d·(L+d))·u` for `64·L·u ≤ 1`, `64·d·u ≤ 1` -/
theorem abs_coeff_lin {u : K} (hu : 0 ≤ u) (L d : ℕ) (hL : 64 * (L : K) * u ≤ 1)
    (hd : 64 * (d : K) * u ≤ 1) :
    covTreeT u L d ≤ (67 * (L : K) + 30 * (d : K) * ((L : K) + (d : K))) * u :=
  covTreeT_lin hu L d hL hd

theorem abs_coeff_nonneg {u : K} (hu : 0 ≤ u) (L d : ℕ) : 0 ≤ covTreeT u L d :=
  covTreeT_nonneg hu L d

theorem abs_coeff_mono {u : K} (hu : 0 ≤ u) {L L' d d' : ℕ} (hL : L ≤ L') (hd : d ≤ d') :
    covTreeT u L d ≤ covTreeT u L' d' := covTreeT_mono hu hL hd

/-! ### 3. the bounds -/

/-- **merge tree, division-free.**  Every possible float evaluation `(ai, aj, c)` of every
    merge tree over pairs with `|x| ≤ Mx`, `|y| ≤ My` whose chunks satisfy `64·L·u ≤ 1`:
    `|N·c − Sxy| ≤ N·T(L,d)·Mx·My`, `|ai − x̄| ≤ Mx·((1+6Lu)(1+u)^(3d) − 1)`,
    `|aj − ȳ| ≤ My·((1+6Lu)(1+u)^(3d) − 1)`.  No hypothesis on the depth; no relative part. -/
theorem cov_tree_float_defect {u Mx My : K} (hu : 0 ≤ u) (hMx : 0 ≤ Mx) (hMy : 0 ≤ My)
    {t : MTree (K × K)} {ai aj c : K} (h : FlCovTree u t ai aj c)
    (hx : ∀ p ∈ t.flatten, |p.1| ≤ Mx) (hy : ∀ p ∈ t.flatten, |p.2| ≤ My)
    (hsmall : 64 * (t.maxLeaf : K) * u ≤ 1) :
    |(t.flatten.length : K) * c - sumProdDev t.flatten|
        ≤ (t.flatten.length : K) * covTreeT u t.maxLeaf t.depth * (Mx * My)
      ∧ |ai - (Cov2.run t.flatten).mx.val|
        ≤ Mx * ((1 + 6 * (t.maxLeaf : K) * u) * (1 + u) ^ (3 * t.depth) - 1)
      ∧ |aj - (Cov2.run t.flatten).my.val|
        ≤ My * ((1 + 6 * (t.maxLeaf : K) * u) * (1 + u) ^ (3 * t.depth) - 1) := by
  have hs8 : 8 * (t.maxLeaf : K) * u ≤ 1 := by
    have : 0 ≤ (t.maxLeaf : K) * u := mul_nonneg (Nat.cast_nonneg _) hu
    linarith
  obtain ⟨h1, h2⟩ := h.mean_errors hu hMx hMy hx hy hs8
  exact ⟨h.inv hu hMx hMy hx hy hsmall, h1, h2⟩

/-- **merge tree, division-free, linearised** (`64·L·u ≤ 1`, `64·d·u ≤ 1`):
    `|N·c − Sxy| ≤ N·(67·L + 30·d·(L+d))·u·Mx·My` -/
theorem cov_tree_float_defect_lin {u Mx My : K} (hu : 0 ≤ u) (hMx : 0 ≤ Mx) (hMy : 0 ≤ My)
    {t : MTree (K × K)} {ai aj c : K} (h : FlCovTree u t ai aj c)
    (hx : ∀ p ∈ t.flatten, |p.1| ≤ Mx) (hy : ∀ p ∈ t.flatten, |p.2| ≤ My)
    (hsmall : 64 * (t.maxLeaf : K) * u ≤ 1) (hdepth : 64 * (t.depth : K) * u ≤ 1) :
    |(t.flatten.length : K) * c - sumProdDev t.flatten|
      ≤ (t.flatten.length : K)
          * ((67 * (t.maxLeaf : K) + 30 * (t.depth : K) * ((t.maxLeaf : K) + (t.depth : K))) * u)
          * (Mx * My) := by
  have hd := (cov_tree_float_defect hu hMx hMy h hx hy hsmall).1
  have hN0 : (0 : K) ≤ (t.flatten.length : K) := Nat.cast_nonneg _
  have hτ := covTreeT_lin hu t.maxLeaf t.depth hsmall hdepth
  exact hd.trans (mul_le_mul_of_nonneg_right (mul_le_mul_of_nonneg_left hτ hN0)
    (mul_nonneg hMx hMy))

/-- **merge tree**: the error of the population covariance entry `_cov.value[i, j]`,
    `|c − Sxy/N| ≤ T(L,d)·Mx·My` -/
theorem cov_tree_float_error {u Mx My : K} (hu : 0 ≤ u) (hMx : 0 ≤ Mx) (hMy : 0 ≤ My)
    {t : MTree (K × K)} {ai aj c : K} (h : FlCovTree u t ai aj c) (hne : t.flatten ≠ [])
    (hx : ∀ p ∈ t.flatten, |p.1| ≤ Mx) (hy : ∀ p ∈ t.flatten, |p.2| ≤ My)
    (hsmall : 64 * (t.maxLeaf : K) * u ≤ 1) :
    |c - sumProdDev t.flatten / (t.flatten.length : K)|
      ≤ covTreeT u t.maxLeaf t.depth * (Mx * My) := by
  have hN : (0 : K) < (t.flatten.length : K) := Nat.cast_pos.mpr (List.length_pos_iff.mpr hne)
  have hd := (cov_tree_float_defect hu hMx hMy h hx hy hsmall).1
  refine (abs_sub_div_le_of_defect hN hd).trans (le_of_eq ?_)
  field_simp

/-- **merge tree, linearised.**  For `64·L·u ≤ 1` and `64·d·u ≤ 1`:
    `|c − Sxy/N| ≤ (67·L + 30·d·(L+d))·u·Mx·My`
    — the bound grows with the DEPTH of the tree and the longest CHUNK, not with the number of
    chunks (nor with the total number of pairs) -/
theorem cov_tree_float_error_lin {u Mx My : K} (hu : 0 ≤ u) (hMx : 0 ≤ Mx) (hMy : 0 ≤ My)
    {t : MTree (K × K)} {ai aj c : K} (h : FlCovTree u t ai aj c) (hne : t.flatten ≠ [])
    (hx : ∀ p ∈ t.flatten, |p.1| ≤ Mx) (hy : ∀ p ∈ t.flatten, |p.2| ≤ My)
    (hsmall : 64 * (t.maxLeaf : K) * u ≤ 1) (hdepth : 64 * (t.depth : K) * u ≤ 1) :
    |c - sumProdDev t.flatten / (t.flatten.length : K)|
      ≤ (67 * (t.maxLeaf : K) + 30 * (t.depth : K) * ((t.maxLeaf : K) + (t.depth : K))) * u
        * (Mx * My) := by
  have hN : (0 : K) < (t.flatten.length : K) := Nat.cast_pos.mpr (List.length_pos_iff.mpr hne)
  have hd := cov_tree_float_defect_lin hu hMx hMy h hx hy hsmall hdepth
  refine (abs_sub_div_le_of_defect hN hd).trans (le_of_eq ?_)
  field_simp

/-- the exact `c.val` of C06's tree evaluation is `Sxy/N` -/
theorem model_tree_cov (t : MTree (K × K)) (hne : t.flatten ≠ []) :
    (t.eval Cov2.run Cov2.merge).c.val
      = sumProdDev t.flatten / (t.flatten.length : K) := by
  have hN : (t.flatten.length : K) ≠ 0 :=
    Nat.cast_ne_zero.mpr (Nat.pos_iff_ne_zero.mp (List.length_pos_iff.mpr hne))
  rw [cov_tree_eq, ← C05FloatCov.exact_C_eq]
  field_simp

/-- **against the model**: the same bound against the `c.val` of the exact tree evaluation
    `t.eval Cov2.run Cov2.merge` — the function C06 (`cov_tree_eq`) proves equal to
    accumulating all pairs; `Cov2` is entry `(i, j)` of the matrix model
    (`Covariance.merge_entry`) -/
theorem cov_tree_float_vs_model {u Mx My : K} (hu : 0 ≤ u) (hMx : 0 ≤ Mx) (hMy : 0 ≤ My)
    {t : MTree (K × K)} {ai aj c : K} (h : FlCovTree u t ai aj c) (hne : t.flatten ≠ [])
    (hx : ∀ p ∈ t.flatten, |p.1| ≤ Mx) (hy : ∀ p ∈ t.flatten, |p.2| ≤ My)
    (hsmall : 64 * (t.maxLeaf : K) * u ≤ 1) (hdepth : 64 * (t.depth : K) * u ≤ 1) :
    |c - (t.eval Cov2.run Cov2.merge).c.val|
      ≤ (67 * (t.maxLeaf : K) + 30 * (t.depth : K) * ((t.maxLeaf : K) + (t.depth : K))) * u
        * (Mx * My) := by
  rw [model_tree_cov t hne]
  exact cov_tree_float_error_lin hu hMx hMy h hne hx hy hsmall hdepth

/-- the closed form against the model (no hypothesis on the depth) -/
theorem cov_tree_float_vs_model_closed {u Mx My : K} (hu : 0 ≤ u) (hMx : 0 ≤ Mx) (hMy : 0 ≤ My)
    {t : MTree (K × K)} {ai aj c : K} (h : FlCovTree u t ai aj c) (hne : t.flatten ≠ [])
    (hx : ∀ p ∈ t.flatten, |p.1| ≤ Mx) (hy : ∀ p ∈ t.flatten, |p.2| ≤ My)
    (hsmall : 64 * (t.maxLeaf : K) * u ≤ 1) :
    |c - (t.eval Cov2.run Cov2.merge).c.val| ≤ covTreeT u t.maxLeaf t.depth * (Mx * My) := by
  rw [model_tree_cov t hne]
  exact cov_tree_float_error hu hMx hMy h hne hx hy hsmall

/-- the two means of a covariance tree (C06Float `tree_float_error_lin`, restated):
    `|ai − mean_i| ≤ 6·(L + d)·u·Mx`, `|aj − mean_j| ≤ 6·(L + d)·u·My` -/
theorem cov_tree_means_float_error_lin {u Mx My : K} (hu : 0 ≤ u) (hMx : 0 ≤ Mx) (hMy : 0 ≤ My)
    {t : MTree (K × K)} {ai aj c : K} (h : FlCovTree u t ai aj c) (hne : t.flatten ≠ [])
    (hx : ∀ p ∈ t.flatten, |p.1| ≤ Mx) (hy : ∀ p ∈ t.flatten, |p.2| ≤ My)
    (hsmall : 8 * (t.maxLeaf : K) * u ≤ 1) (hdepth : 21 * (t.depth : K) * u ≤ 1) :
    |ai - (t.flatten.map Prod.fst).sum / (t.flatten.length : K)|
        ≤ 6 * ((t.maxLeaf : K) + (t.depth : K)) * u * Mx
      ∧ |aj - (t.flatten.map Prod.snd).sum / (t.flatten.length : K)|
        ≤ 6 * ((t.maxLeaf : K) + (t.depth : K)) * u * My := by
  have h1 := C06Float.tree_float_error_lin hu hMx h.mean_tree_x
    (by rw [MTree.flatten_map]; simpa using hne)
    (by rw [MTree.flatten_map]; exact mem_map_fst_le hx)
    (by rw [MTree.maxLeaf_map]; exact hsmall) (by rw [MTree.depth_map]; exact hdepth)
  have h2 := C06Float.tree_float_error_lin hu hMy h.mean_tree_y
    (by rw [MTree.flatten_map]; simpa using hne)
    (by rw [MTree.flatten_map]; exact mem_map_snd_le hy)
    (by rw [MTree.maxLeaf_map]; exact hsmall) (by rw [MTree.depth_map]; exact hdepth)
  rw [MTree.flatten_map, MTree.maxLeaf_map, MTree.depth_map, List.length_map] at h1 h2
  exact ⟨h1, h2⟩

/-- and against the `mx.val`, `my.val` of the exact tree evaluation -/
theorem cov_tree_means_float_vs_model {u Mx My : K} (hu : 0 ≤ u) (hMx : 0 ≤ Mx) (hMy : 0 ≤ My)
    {t : MTree (K × K)} {ai aj c : K} (h : FlCovTree u t ai aj c)
    (hx : ∀ p ∈ t.flatten, |p.1| ≤ Mx) (hy : ∀ p ∈ t.flatten, |p.2| ≤ My)
    (hsmall : 8 * (t.maxLeaf : K) * u ≤ 1) :
    |ai - (t.eval Cov2.run Cov2.merge).mx.val|
        ≤ Mx * ((1 + 6 * (t.maxLeaf : K) * u) * (1 + u) ^ (3 * t.depth) - 1)
      ∧ |aj - (t.eval Cov2.run Cov2.merge).my.val|
        ≤ My * ((1 + 6 * (t.maxLeaf : K) * u) * (1 + u) ^ (3 * t.depth) - 1) := by
  rw [cov_tree_eq]; exact h.mean_errors hu hMx hMy hx hy hsmall

/-- depth 2, explicitly: four chunks merged pairwise, then the two halves -/
theorem four_chunks_cov_float_error {u Mx My : K} (hu : 0 ≤ u) (hMx : 0 ≤ Mx) (hMy : 0 ≤ My)
    {c1 c2 c3 c4 : List (K × K)} (hne : c1 ++ c2 ++ (c3 ++ c4) ≠ [])
    (hx : ∀ p ∈ c1 ++ c2 ++ (c3 ++ c4), |p.1| ≤ Mx)
    (hy : ∀ p ∈ c1 ++ c2 ++ (c3 ++ c4), |p.2| ≤ My)
    (hsmall : 64 * ((max (max c1.length c2.length) (max c3.length c4.length) : ℕ) : K) * u ≤ 1)
    (hu128 : 128 * u ≤ 1) {ai aj c : K}
    (h : FlCovTree u (.node (.node (.leaf c1) (.leaf c2)) (.node (.leaf c3) (.leaf c4))) ai aj c) :
    |c - sumProdDev (c1 ++ c2 ++ (c3 ++ c4)) / ((c1 ++ c2 ++ (c3 ++ c4)).length : K)|
      ≤ (127 * ((max (max c1.length c2.length) (max c3.length c4.length) : ℕ) : K) + 120) * u
        * (Mx * My) := by
  have := cov_tree_float_error_lin hu hMx hMy h hne hx hy hsmall
    (by simp only [MTree.depth]; norm_num; linarith)
  simp only [MTree.depth, MTree.maxLeaf, MTree.flatten, max_self, zero_add] at this
  refine this.trans (le_of_eq ?_)
  push_cast
  ring

/-! ### 4. non-vacuity over ℚ: `u = 1/1000`, the tree
    `(([(1,2),(2,1),(3,3)] ⊕ [(4,1),(6,5)]) ⊕ [(5,2)])` (depth 2, longest chunk 3, `Mx = 6`,
    `My = 5`); exact: means `7/2`, `7/3`, `Sxy = 8`, `Sxy/N = 4/3` -/

example : sumProdDev ([(1, 2), (2, 1), (3, 3), (4, 1), (6, 5), (5, 2)] : List (ℚ × ℚ)) = 8 := by
  norm_num [sumProdDev, batchMean]

example : ((MTree.node (.node (.leaf [(1, 2), (2, 1), (3, 3)]) (.leaf [(4, 1), (6, 5)]))
    (.leaf [((5 : ℚ), (2 : ℚ))])).eval Cov2.run Cov2.merge).c.val = 4 / 3 := by
  rw [model_tree_cov _ (by simp [MTree.flatten])]
  norm_num [MTree.flatten, sumProdDev, batchMean]

/-- the exact leaf states, as float runs -/
theorem ex_leaf1 : FlCovRun (1 / 1000 : ℚ) [(1, 2), (2, 1), (3, 3)] 2 2 (1 / 3) := by
  have := FlCovRun.of_exact (u := (1 / 1000 : ℚ)) (by norm_num) [(1, 2), (2, 1), (3, 3)]
  have e : (Cov2.run ([(1, 2), (2, 1), (3, 3)] : List (ℚ × ℚ))).mx.val = 2
      ∧ (Cov2.run ([(1, 2), (2, 1), (3, 3)] : List (ℚ × ℚ))).my.val = 2
      ∧ (Cov2.run ([(1, 2), (2, 1), (3, 3)] : List (ℚ × ℚ))).c.val = 1 / 3 := by
    norm_num [Cov2.run, Cov2.push, Mean.push, Cov2.init, Mean.init]
  rwa [e.1, e.2.1, e.2.2] at this

theorem ex_leaf2 : FlCovRun (1 / 1000 : ℚ) [(4, 1), (6, 5)] 5 3 2 := by
  have := FlCovRun.of_exact (u := (1 / 1000 : ℚ)) (by norm_num) [(4, 1), (6, 5)]
  have e : (Cov2.run ([(4, 1), (6, 5)] : List (ℚ × ℚ))).mx.val = 5
      ∧ (Cov2.run ([(4, 1), (6, 5)] : List (ℚ × ℚ))).my.val = 3
      ∧ (Cov2.run ([(4, 1), (6, 5)] : List (ℚ × ℚ))).c.val = 2 := by
    norm_num [Cov2.run, Cov2.push, Mean.push, Cov2.init, Mean.init]
  rwa [e.1, e.2.1, e.2.2] at this

theorem ex_leaf3 : FlCovRun (1 / 1000 : ℚ) [(5, 2)] 5 2 0 := by
  have := FlCovRun.of_exact (u := (1 / 1000 : ℚ)) (by norm_num) [(5, 2)]
  have e : (Cov2.run ([(5, 2)] : List (ℚ × ℚ))).mx.val = 5
      ∧ (Cov2.run ([(5, 2)] : List (ℚ × ℚ))).my.val = 2
      ∧ (Cov2.run ([(5, 2)] : List (ℚ × ℚ))).c.val = 0 := by
    norm_num [Cov2.run, Cov2.push, Mean.push, Cov2.init, Mean.init]
  rwa [e.1, e.2.1, e.2.2] at this

/-- the inner node, merged exactly: means `16/5`, `12/5`, population covariance `43/25`,
    5 pairs -/
theorem ex_inner : FlCovTree (1 / 1000 : ℚ)
    (.node (.leaf [(1, 2), (2, 1), (3, 3)]) (.leaf [(4, 1), (6, 5)])) (16 / 5) (12 / 5) (43 / 25) := by
  have hi := FlMerge.of_exact (u := (1 / 1000 : ℚ)) (by norm_num) 2 3 5 2
  have hj := FlMerge.of_exact (u := (1 / 1000 : ℚ)) (by norm_num) 2 3 3 2
  have hc := FlCovMerge.of_exact (u := (1 / 1000 : ℚ)) (by norm_num) 2 2 (1 / 3) 3 5 3 2 2
  have e1 : mergeVal (2 : ℚ) 3 5 2 = 16 / 5 := by norm_num [mergeVal]
  have e2 : mergeVal (2 : ℚ) 3 3 2 = 12 / 5 := by norm_num [mergeVal]
  have e3 : covMergeVal (2 : ℚ) 2 (1 / 3) 3 5 3 2 2 = 43 / 25 := by norm_num [covMergeVal]
  rw [e1] at hi
  rw [e2] at hj
  rw [e3] at hc
  exact FlCovTree.node (FlCovTree.leaf ex_leaf1) (FlCovTree.leaf ex_leaf2) hi hj hc

/-- a genuinely perturbed evaluation of the 3-leaf tree (all three merges of the root rounded
    with δ = ±1/1000): different from the exact `(7/2, 7/3, 4/3)`, within the bounds of
    `cov_tree_float_error_lin` and `cov_tree_means_float_error_lin` -/
example : ∃ ai aj c : ℚ,
    FlCovTree (1 / 1000)
        (.node (.node (.leaf [(1, 2), (2, 1), (3, 3)]) (.leaf [(4, 1), (6, 5)])) (.leaf [(5, 2)]))
        ai aj c
      ∧ ai ≠ 7 / 2 ∧ aj ≠ 7 / 3 ∧ c ≠ 4 / 3 ∧ 0 < |c - 4 / 3|
      ∧ |c - 4 / 3| ≤ (67 * 3 + 30 * 2 * (3 + 2)) * (1 / 1000) * (6 * 5)
      ∧ |ai - 7 / 2| ≤ 6 * (3 + 2) * (1 / 1000) * 6
      ∧ |aj - 7 / 3| ≤ 6 * (3 + 2) * (1 / 1000) * 5 := by
  have hi := flMerge_of_deltas (u := (1 / 1000 : ℚ)) (16 / 5) 5 5 1
    (1 / 1000) (-1 / 1000) (1 / 1000) (1 / 1000) (-1 / 1000)
    (by norm_num [abs_le]) (by norm_num [abs_le]) (by norm_num [abs_le]) (by norm_num [abs_le])
    (by norm_num [abs_le])
  have hj := flMerge_of_deltas (u := (1 / 1000 : ℚ)) (12 / 5) 5 2 1
    (-1 / 1000) (1 / 1000) (1 / 1000) (-1 / 1000) (1 / 1000)
    (by norm_num [abs_le]) (by norm_num [abs_le]) (by norm_num [abs_le]) (by norm_num [abs_le])
    (by norm_num [abs_le])
  have hc := flCovMerge_of_deltas (u := (1 / 1000 : ℚ)) (16 / 5) (12 / 5) (43 / 25) 5 5 2 0 1
    (1 / 1000) (-1 / 1000) (1 / 1000) (-1 / 1000) (1 / 1000) (1 / 1000) (1 / 1000) (-1 / 1000)
    (1 / 1000) (1 / 1000) (1 / 1000)
    (by norm_num [abs_le]) (by norm_num [abs_le]) (by norm_num [abs_le]) (by norm_num [abs_le])
    (by norm_num [abs_le]) (by norm_num [abs_le]) (by norm_num [abs_le]) (by norm_num [abs_le])
    (by norm_num [abs_le]) (by norm_num [abs_le]) (by norm_num [abs_le])
  refine ⟨_, _, _, FlCovTree.node ex_inner (FlCovTree.leaf ex_leaf3) hi hj hc,
    ?_, ?_, ?_, ?_, ?_, ?_, ?_⟩ <;> norm_num [abs_le]

/-- the data of the 3-leaf tree lie in the box `|x| ≤ 6`, `|y| ≤ 5` -/
theorem ex_box : (∀ p ∈ (MTree.node (.node (.leaf [(1, 2), (2, 1), (3, 3)])
      (.leaf [(4, 1), (6, 5)])) (.leaf [((5 : ℚ), (2 : ℚ))])).flatten, |p.1| ≤ 6)
    ∧ (∀ p ∈ (MTree.node (.node (.leaf [(1, 2), (2, 1), (3, 3)])
      (.leaf [(4, 1), (6, 5)])) (.leaf [((5 : ℚ), (2 : ℚ))])).flatten, |p.2| ≤ 5) := by
  constructor
  · intro p hp
    simp [MTree.flatten] at hp
    rcases hp with rfl | rfl | rfl | rfl | rfl | rfl <;> norm_num [abs_le]
  · intro p hp
    simp [MTree.flatten] at hp
    rcases hp with rfl | rfl | rfl | rfl | rfl | rfl <;> norm_num [abs_le]

/-- and the theorems apply to EVERY float evaluation of that tree: `64·3/1000 ≤ 1`,
    `64·2/1000 ≤ 1`, `|x| ≤ 6`, `|y| ≤ 5` -/
example (ai aj c : ℚ)
    (h : FlCovTree (1 / 1000)
      (.node (.node (.leaf [(1, 2), (2, 1), (3, 3)]) (.leaf [(4, 1), (6, 5)])) (.leaf [(5, 2)]))
      ai aj c) :
    |c - 4 / 3| ≤ (67 * 3 + 30 * 2 * (3 + 2)) * (1 / 1000) * (6 * 5) := by
  have := cov_tree_float_error_lin (u := (1 / 1000 : ℚ)) (Mx := 6) (My := 5) (by norm_num)
    (by norm_num) (by norm_num) h (by simp [MTree.flatten]) ex_box.1 ex_box.2
    (by simp [MTree.maxLeaf]; norm_num) (by simp [MTree.depth]; norm_num)
  have hS : sumProdDev ([(1, 2), (2, 1), (3, 3), (4, 1), (6, 5), (5, 2)] : List (ℚ × ℚ)) = 8 := by
    norm_num [sumProdDev, batchMean]
  simp only [MTree.flatten, MTree.maxLeaf, MTree.depth, List.cons_append, List.nil_append,
    List.length_cons, List.length_nil, hS] at this
  norm_num at this ⊢
  exact this

/-- the closed form (no linearisation) on the same tree, division-free -/
example (ai aj c : ℚ)
    (h : FlCovTree (1 / 1000)
      (.node (.node (.leaf [(1, 2), (2, 1), (3, 3)]) (.leaf [(4, 1), (6, 5)])) (.leaf [(5, 2)]))
      ai aj c) :
    |6 * c - 8| ≤ 6 * covTreeT (1 / 1000) 3 2 * (6 * 5) := by
  have := (cov_tree_float_defect (u := (1 / 1000 : ℚ)) (Mx := 6) (My := 5) (by norm_num)
    (by norm_num) (by norm_num) h ex_box.1 ex_box.2 (by simp [MTree.maxLeaf]; norm_num)).1
  have hS : sumProdDev ([(1, 2), (2, 1), (3, 3), (4, 1), (6, 5), (5, 2)] : List (ℚ × ℚ)) = 8 := by
    norm_num [sumProdDev, batchMean]
  simp only [MTree.flatten, MTree.maxLeaf, MTree.depth, List.cons_append, List.nil_append,
    List.length_cons, List.length_nil, hS] at this
  norm_num at this ⊢
  exact this

/-- a diagonal entry: every float variance tree over `(([1,2,3] ⊕ [4,6]) ⊕ [5])` is a float
    covariance tree over the diagonal pairs -/
example (a va : ℚ)
    (h : FlVarTree (1 / 1000) (.node (.node (.leaf [1, 2, 3]) (.leaf [4, 6])) (.leaf [5])) a va) :
    FlCovTree (1 / 1000)
      (.node (.node (.leaf [(1, 1), (2, 2), (3, 3)]) (.leaf [(4, 4), (6, 6)])) (.leaf [(5, 5)]))
      a a va := var_tree_is_diag_cov_tree h

end Gpv.C06FloatCovTree

#print axioms Gpv.C06FloatCovTree.flCovTree_leaf_iff
#print axioms Gpv.C06FloatCovTree.flCovTree_node_iff
#print axioms Gpv.C06FloatCovTree.exact_tree_possible
#print axioms Gpv.C06FloatCovTree.exact_is_the_float_tree
#print axioms Gpv.C06FloatCovTree.float_tree_mono
#print axioms Gpv.C06FloatCovTree.cov_tree_means_are_float_trees
#print axioms Gpv.C06FloatCovTree.empty_tree_float
#print axioms Gpv.C06FloatCovTree.var_tree_is_diag_cov_tree
#print axioms Gpv.C06FloatCovTree.abs_coeff_zero
#print axioms Gpv.C06FloatCovTree.abs_coeff_succ
#print axioms Gpv.C06FloatCovTree.abs_coeff_le_closed
#print axioms Gpv.C06FloatCovTree.abs_coeff_lin
#print axioms Gpv.C06FloatCovTree.abs_coeff_nonneg
#print axioms Gpv.C06FloatCovTree.abs_coeff_mono
#print axioms Gpv.C06FloatCovTree.cov_tree_float_defect
#print axioms Gpv.C06FloatCovTree.cov_tree_float_defect_lin
#print axioms Gpv.C06FloatCovTree.cov_tree_float_error
#print axioms Gpv.C06FloatCovTree.cov_tree_float_error_lin
#print axioms Gpv.C06FloatCovTree.model_tree_cov
#print axioms Gpv.C06FloatCovTree.cov_tree_float_vs_model
#print axioms Gpv.C06FloatCovTree.cov_tree_float_vs_model_closed
#print axioms Gpv.C06FloatCovTree.cov_tree_means_float_error_lin
#print axioms Gpv.C06FloatCovTree.cov_tree_means_float_vs_model
#print axioms Gpv.C06FloatCovTree.four_chunks_cov_float_error
#print axioms Gpv.C06FloatCovTree.ex_leaf1
#print axioms Gpv.C06FloatCovTree.ex_leaf2
#print axioms Gpv.C06FloatCovTree.ex_leaf3
#print axioms Gpv.C06FloatCovTree.ex_inner
#print axioms Gpv.C06FloatCovTree.ex_box
