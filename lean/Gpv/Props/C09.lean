/-
  C09 — decoration is transparent for single elements; kwargs reach every call.

  `Pipe.call` is `Pipeline.__call__`: the dispatch on `isiterator(arg)`.  The element
  path is literally `return self.func(arg, **kwargs)`; the theorems say that it is the
  undecorated call (value or exception — `ρ` is any result type, e.g. `Except ε β`),
  that it creates no stream (hence draws nothing, owns no pool, touches no counter),
  and that only iterators are streams.  In the stream path the keyword arguments are
  part of the function `f` the transition system is parameterised by (the model's `f`
  is `fun x => func x kw`), so "the same kwargs reach every call" is the statement that
  every run, under every schedule, delivers `spec c f …` for that one `f` (C01).
-/
import Gpv.Props.C01
import Gpv.Props.C13

namespace Gpv.C09
open Gpv.Pipe

/-- an element argument gives exactly the undecorated call: same value or same exception -/
theorem elem_path {ρ σ : Type} (applyF : Unit → ρ) (mkStream : Unit → σ) :
    call .element applyF mkStream = .direct (applyF ()) := rfl

/-- no stream object is created on the element path: nothing can be drawn, no pool, no counter change -/
theorem elem_path_no_stream {ρ σ : Type} (applyF : Unit → ρ) (mkStream : Unit → σ) :
    ∀ s, call .element applyF mkStream ≠ .stream s := by
  intro s h; cases h

/-- only iterators are treated as streams, and the stream is created, not advanced -/
theorem iterator_path {ρ σ : Type} (applyF : Unit → ρ) (mkStream : Unit → σ) :
    call .iterator applyF mkStream = .stream (mkStream ()) := rfl

/-- the dispatch is decided by the argument kind alone -/
theorem dispatch_iff {ρ σ : Type} (k : ArgKind) (applyF : Unit → ρ) (mkStream : Unit → σ) :
    (∃ r, call k applyF mkStream = .direct r) ↔ k = .element := by
  cases k <;> simp [call]

/-- a freshly created parallel stream has drawn nothing, owns no pool and carries the stage counters unchanged -/
theorem fresh_stream_inert {β ε : Type} (p y : Nat) :
    (PS.init p y : PS β ε).drawn = 0 ∧ (PS.init p y : PS β ε).pool = .notCreated ∧
    (PS.init p y : PS β ε).processed = p ∧ (PS.init p y : PS β ε).yielded = y ∧
    (PS.init p y : PS β ε).out = [] := ⟨rfl, rfl, rfl, rfl, rfl⟩

/-- kwargs: with `f := fun x => func x kw` every finished parallel run delivers the spec of that `f`:
    each per-element result is `func x kw` with the one `kw` given at the call (corollary of C01.par_final) -/
theorem kwargs_parallel {α β ε κ : Type} (c : Cfg) (xs : List α) (tail : Option ε) (func : α → κ → Outcome β ε) (kw : κ)
    (p0 y0 : Nat) (s : PS β ε) (h : ReachN c xs tail (fun x => func x kw) p0 y0 s)
    (hf : s.pc = .done ∨ s.pc = .failed) :
    s.out = spec c (fun x => func x kw) tail xs :=
  C01.par_final h hf

end Gpv.C09

#print axioms Gpv.C09.elem_path
#print axioms Gpv.C09.elem_path_no_stream
#print axioms Gpv.C09.iterator_path
#print axioms Gpv.C09.dispatch_iff
#print axioms Gpv.C09.fresh_stream_inert
#print axioms Gpv.C09.kwargs_parallel
