/-
  C15 (re-entrancy) — `ReservoirSampling._accumulate_obj` called from inside itself.

  Model: `Gpv.Model.Reentrant` — a statement-level model in which the finaliser of an
  element evicted by `self._reservoir[j-1] = obj` runs INSIDE that statement and feeds the
  same accumulator another observation (`Obs.echo i` → nested / follow-up call
  `accumulate (plain (echoId i))`; see the header of the model for when exactly).
    * `runFirst`/`execFirst`/`callsFirst`  the real statement order (`self._n += 1` first);
    * `runLate`/`execLate`/`callsLate`     the faulty order (`n = self._n + 1` at entry,
                                           `self._n = n` at the very end);
    * `runFlat`                            the existing atomic model `Gpv.Reservoir.push`
                                           (+ `Reservoir.requestedRange`) folded over a flat list
                                           of calls, consuming the same script per request.

  Proved here (for every reservoir length `k`, every script — also too short ones —, every
  list of observations, any nesting depth):
    * `first_eq_flat`            `runFirst k s obs = runFlat k s (callsFirst k s obs)`: count,
                                 reservoir and requested ranges of the re-entrant run are those
                                 of the atomic model run on the calls in order of entry —
                                 a call made from inside the store behaves exactly like an
                                 ordinary call made right after;
    * `flat_eq_run`              `runFlat` in terms of `Gpv.Reservoir.run` (draws in its
                                 one-per-observation format, `draws`), so that `Gpv.Props.C15`
                                 applies; `first_eq_run` the composition;
    * `first_counts_every_call`  final `n` = number of `accumulate` calls that happened;
    * `offered_sublist`, `calls_ge` the offered observations are all called, in the order offered
                                 (the other calls are the follow-ups); `obs.length ≤ n`;
    * `first_ranges`             the requests are exactly `(1, t)` for `t = k+1 … n`, in order;
    * `first_reservoir_size`     the reservoir holds `min n k` items;
    * `late_counterexample`      `k = 1`, three echo observations, draws all `1`: 5 calls, but the
                                 faulty order reports `n = 4` and asks for `(1, 2)` twice; the
                                 real order reports 5 and `(1,2) … (1,5)`;
    * `late_ne_flat_counterexample` there the faulty order is NOT the atomic model on its calls;
    * `late_eq_first_without_echo`  with plain observations only the two orders agree (same final
                                 heap, call log included): the fault needs re-entrancy.
  NOT covered: that CPython runs the finaliser at the modelled moments (checked by the harness
  against the real interpreter via the driver command `res.echo`), cyclic garbage, threads.
-/
import Gpv.Model.Reentrant
import Gpv.Proofs.ReservoirAlg

namespace Gpv.C15Reentrant
open Gpv Gpv.Reentrant

/-! ### the atomic model on a flat call list -/

theorem flatExec_snoc (k : Nat) (s0 : List Nat) (calls : List Obs) (x : Obs) :
    flatExec k s0 (calls ++ [x]) = flatStep (flatExec k s0 calls) x := by
  simp [flatExec, List.foldl_append]

theorem flatStep_k (s : FlatSt) (x : Obs) : (flatStep s x).r.k = s.r.k := by
  unfold flatStep; split <;> simp [Reservoir.push_k]

theorem flatStep_n (s : FlatSt) (x : Obs) : (flatStep s x).r.n = s.r.n + 1 := by
  unfold flatStep; split <;> simp [Reservoir.push_n]

theorem foldl_flat_k (calls : List Obs) (s : FlatSt) : (calls.foldl flatStep s).r.k = s.r.k := by
  induction calls generalizing s with
  | nil => rfl
  | cons x xs ih => simp [List.foldl_cons, ih, flatStep_k]

theorem foldl_flat_n (calls : List Obs) (s : FlatSt) :
    (calls.foldl flatStep s).r.n = s.r.n + calls.length := by
  induction calls generalizing s with
  | nil => rfl
  | cons x xs ih => simp [List.foldl_cons, ih, flatStep_n]; omega

/-- the atomic model counts every call -/
theorem flat_n (k : Nat) (s0 : List Nat) (calls : List Obs) :
    (runFlat k s0 calls).n = calls.length := by
  simp [runFlat, flatExec, foldl_flat_n, Reservoir.init]

/-- the ranges `(1, k+1), …, (1, m)` -/
def rangesUpTo (k m : Nat) : List (Nat × Nat) := (List.range (m - k)).map fun i => (1, k + 1 + i)

theorem rangesUpTo_succ_le {k m : Nat} (h : m + 1 ≤ k) : rangesUpTo k (m + 1) = rangesUpTo k m := by
  unfold rangesUpTo
  have h1 : m + 1 - k = 0 := by omega
  have h2 : m - k = 0 := by omega
  rw [h1, h2]

theorem rangesUpTo_succ_gt {k m : Nat} (h : ¬ m + 1 ≤ k) :
    rangesUpTo k (m + 1) = rangesUpTo k m ++ [(1, m + 1)] := by
  unfold rangesUpTo
  have h1 : m + 1 - k = (m - k) + 1 := by omega
  rw [h1, List.range_succ, List.map_append]
  have h2 : k + 1 + (m - k) = m + 1 := by omega
  simp [h2]

/-- the atomic model asks for `(1, t)`, `t = k+1 … m`, over `m` calls -/
theorem flat_ranges (k : Nat) (s0 : List Nat) (calls : List Obs) :
    (flatExec k s0 calls).ranges = rangesUpTo k calls.length := by
  induction calls using List.reverseRecOn with
  | nil => simp [flatExec, rangesUpTo]
  | append_singleton xs x ih =>
    rw [flatExec_snoc]
    have hn : (flatExec k s0 xs).r.n = xs.length := by
      simp [flatExec, foldl_flat_n, Reservoir.init]
    have hk : (flatExec k s0 xs).r.k = k := by
      simp [flatExec, foldl_flat_k, Reservoir.init]
    unfold flatStep
    rw [hn, hk]
    unfold Reservoir.requestedRange
    by_cases h : xs.length + 1 ≤ k
    · simp only [h, if_true, List.length_append, List.length_singleton]
      rw [rangesUpTo_succ_le h]; exact ih
    · simp only [h, if_false, List.length_append, List.length_singleton]
      rw [rangesUpTo_succ_gt h, ih]

/-! ### `runFlat` is `Gpv.Reservoir.run` with the draws in its own format -/

theorem foldl_flat_eq_push (calls : List Obs) (s : FlatSt) :
    (calls.foldl flatStep s).r =
      (calls.zip (draws s.r.k s.r.n s.script calls.length)).foldl (fun r p => r.push p.1 p.2) s.r := by
  induction calls generalizing s with
  | nil => rfl
  | cons x xs ih =>
    rw [List.foldl_cons, ih, flatStep_k, flatStep_n]
    simp only [List.length_cons, draws]
    unfold flatStep Reservoir.requestedRange
    by_cases h : s.r.n + 1 ≤ s.r.k
    · simp [h]
    · simp [h]

/-- count and reservoir of `runFlat` are those of `Reservoir.run` on the same calls with the
    draws `draws k 0 script m` (`0` for the filling observations, then the script, then the
    upper ends of the ranges), to which all of `Gpv.Props.C15` applies -/
theorem flat_eq_run (k : Nat) (s0 : List Nat) (calls : List Obs) :
    (runFlat k s0 calls).n = (Reservoir.run k calls (draws k 0 s0 calls.length)).n ∧
    (runFlat k s0 calls).res = (Reservoir.run k calls (draws k 0 s0 calls.length)).res.map Obs.id := by
  have h := foldl_flat_eq_push calls ⟨Reservoir.init k, s0, []⟩
  simp only [Reservoir.init] at h
  simp only [runFlat, flatExec, Reservoir.run, Reservoir.init, h, and_self]

theorem draws_length (k n : Nat) (s : List Nat) (c : Nat) : (draws k n s c).length = c := by
  induction c generalizing n s with
  | zero => rfl
  | succ c ih => unfold draws; split <;> simp [ih]

/-! ### the real order is the atomic model on its calls -/

/-- the atomic model, run over the calls entered so far, is in the state of the heap and has
    consumed the same part of the script (the pin plays no role) -/
def Inv (k : Nat) (s0 : List Nat) (st : St) (script : List Nat) : Prop :=
  flatExec k s0 st.calls = ⟨⟨k, st.n, st.res⟩, script, st.ranges⟩

/-- entering a call and (not) storing is one atomic step — the three ways a call can go -/
theorem inv_append {k : Nat} {s0 script : List Nat} {st : St} (top : Bool) (obj : Obs)
    (h : Inv k s0 st script) (hk : st.n + 1 ≤ k) :
    Inv k s0 (append top (st.enter obj) obj) script := by
  unfold Inv at *
  simp only [append, St.enter]
  rw [flatExec_snoc, h]
  simp [flatStep, Reservoir.requestedRange, Reservoir.push, hk]

theorem inv_skip {k : Nat} {s0 : List Nat} {st : St} (obj : Obs)
    (h : Inv k s0 st []) (hk : ¬ st.n + 1 ≤ k) :
    Inv k s0 ((st.enter obj).request (st.n + 1)) [] := by
  unfold Inv at *
  simp only [St.request, St.enter]
  rw [flatExec_snoc, h]
  simp [flatStep, Reservoir.requestedRange, Reservoir.push, hk]

theorem inv_skip_cons {k : Nat} {s0 : List Nat} {st : St} (obj : Obs) {j : Nat} {rest : List Nat}
    (h : Inv k s0 st (j :: rest)) (hk : ¬ st.n + 1 ≤ k) (hj : ¬ j ≤ k) :
    Inv k s0 ((st.enter obj).request (st.n + 1)) rest := by
  unfold Inv at *
  simp only [St.request, St.enter]
  rw [flatExec_snoc, h]
  simp [flatStep, Reservoir.requestedRange, Reservoir.push, hk, hj]

theorem inv_store {k : Nat} {s0 : List Nat} {st : St} (top : Bool) (obj : Obs) {j : Nat}
    {rest : List Nat} (h : Inv k s0 st (j :: rest)) (hk : ¬ st.n + 1 ≤ k) (hj : j ≤ k) :
    Inv k s0 (store top ((st.enter obj).request (st.n + 1)) (j - 1) obj) rest := by
  unfold Inv at *
  simp only [store, St.request, St.enter]
  rw [flatExec_snoc, h]
  simp [flatStep, Reservoir.requestedRange, Reservoir.push, hk, hj]

theorem enter_n (st : St) (obj : Obs) : (st.enter obj).n = st.n + 1 := rfl

theorem callFirst_inv (k : Nat) (s0 : List Nat) (script : List Nat) :
    ∀ (top : Bool) (st : St) (obj : Obs), Inv k s0 st script →
      Inv k s0 (callFirst k top st obj script).1 (callFirst k top st obj script).2 := by
  induction script with
  | nil =>
    intro top st obj h
    unfold callFirst
    simp only [enter_n]
    by_cases hk : st.n + 1 ≤ k
    · simp only [hk, if_true]; exact inv_append top obj h hk
    · simp only [hk, if_false]; exact inv_skip obj h hk
  | cons j rest ih =>
    intro top st obj h
    unfold callFirst
    simp only [enter_n]
    by_cases hk : st.n + 1 ≤ k
    · simp only [hk, if_true]; exact inv_append top obj h hk
    · simp only [hk, if_false]
      by_cases hj : j ≤ k
      · simp only [hj, if_true]
        have hs := inv_store top obj h hk hj
        split
        · exact hs
        · exact ih _ _ _ hs
      · simp only [hj, if_false]; exact inv_skip_cons obj h hk hj

theorem offerFirst_inv (k : Nat) (s0 : List Nat) (p : St × List Nat) (x : Obs)
    (h : Inv k s0 p.1 p.2) : Inv k s0 (offerFirst k p x).1 (offerFirst k p x).2 := by
  have h1 : Inv k s0 { p.1 with pin := none } p.2 := h
  have h2 := callFirst_inv k s0 p.2 true _ x h1
  unfold offerFirst
  simp only []
  split
  · exact callFirst_inv k s0 _ false _ _ h2
  · exact h2

theorem foldl_offerFirst_inv (k : Nat) (s0 : List Nat) (obs : List Obs) (p : St × List Nat)
    (h : Inv k s0 p.1 p.2) :
    Inv k s0 (obs.foldl (offerFirst k) p).1 (obs.foldl (offerFirst k) p).2 := by
  induction obs generalizing p with
  | nil => exact h
  | cons x xs ih => exact ih _ (offerFirst_inv k s0 p x h)

theorem execFirst_inv (k : Nat) (script : List Nat) (obs : List Obs) :
    Inv k script (execFirst k script obs) (obs.foldl (offerFirst k) (St.init, script)).2 :=
  foldl_offerFirst_inv k script obs (St.init, script) rfl

/-- **Re-entrant observations are ordinary observations.**  For every reservoir length, script
and list of observations, the run in the real statement order — with the finalisers of evicted
echo observations calling `accumulate` from inside the list store, to any nesting depth, and
those of observations that were not retained calling it right after their own call — reports
the same count, reservoir and requested ranges as the atomic model `Gpv.Reservoir.push` run on
the flattened call sequence (all calls in order of entry). -/
theorem first_eq_flat (k : Nat) (script : List Nat) (obs : List Obs) :
    runFirst k script obs = runFlat k script (callsFirst k script obs) := by
  have h := execFirst_inv k script obs
  unfold Inv at h
  simp only [runFirst, runFlat, callsFirst, St.out, h]

/-- … hence it is `Gpv.Reservoir.run` on the flattened call sequence -/
theorem first_eq_run (k : Nat) (script : List Nat) (obs : List Obs) :
    let calls := callsFirst k script obs
    let r := Reservoir.run k calls (draws k 0 script calls.length)
    (runFirst k script obs).n = r.n ∧ (runFirst k script obs).res = r.res.map Obs.id := by
  simp only [first_eq_flat]
  exact flat_eq_run k script _

/-- **Every call is counted**: the final `n` is the number of `accumulate` calls that
happened — offered observations plus the follow-ups made by finalisers. -/
theorem first_counts_every_call (k : Nat) (script : List Nat) (obs : List Obs) :
    (runFirst k script obs).n = (callsFirst k script obs).length := by
  rw [first_eq_flat, flat_n]

/-- **The requests**: the random source is asked for exactly `(1, t)`, `t = k+1, …, n`, in this
order (`n` the final count) — no range is skipped or repeated. -/
theorem first_ranges (k : Nat) (script : List Nat) (obs : List Obs) :
    (runFirst k script obs).ranges =
      (List.range ((runFirst k script obs).n - k)).map fun i => (1, k + 1 + i) := by
  rw [first_counts_every_call, first_eq_flat]
  exact flat_ranges k script _

/-- the reservoir holds `min n k` items -/
theorem first_reservoir_size (k : Nat) (script : List Nat) (obs : List Obs) :
    (runFirst k script obs).res.length = min (runFirst k script obs).n k := by
  have h := first_eq_run k script obs
  simp only [] at h
  rw [h.2, first_counts_every_call, List.length_map]
  exact Reservoir.run_length k _ _ (draws_length _ _ _ _)

/-! ### what the call log consists of -/

theorem callFirst_calls (k : Nat) (script : List Nat) :
    ∀ (top : Bool) (st : St) (obj : Obs),
      ∃ extra, (callFirst k top st obj script).1.calls = st.calls ++ obj :: extra := by
  induction script with
  | nil =>
    intro top st obj
    unfold callFirst
    simp only [enter_n]
    by_cases hk : st.n + 1 ≤ k <;> simp [hk, append, St.enter, St.request]
  | cons j rest ih =>
    intro top st obj
    unfold callFirst
    simp only [enter_n]
    by_cases hk : st.n + 1 ≤ k
    · simp [hk, append, St.enter]
    · by_cases hj : j ≤ k
      · simp only [hk, hj, if_true, if_false]
        split
        · exact ⟨[], by simp [store, St.enter, St.request]⟩
        · rename_i tok _
          obtain ⟨e, he⟩ := ih false (store top ((st.enter obj).request (st.n + 1)) (j - 1) obj) tok
          exact ⟨tok :: e, by rw [he]; simp [store, St.enter, St.request]⟩
      · simp [hk, hj, St.enter, St.request]

/-- the call log of one offered observation: the log before, the observation, then follow-up
    tokens -/
theorem offerFirst_calls (k : Nat) (p : St × List Nat) (x : Obs) :
    ∃ extra, (offerFirst k p x).1.calls = p.1.calls ++ x :: extra := by
  obtain ⟨e1, h1⟩ := callFirst_calls k p.2 true { p.1 with pin := none } x
  unfold offerFirst
  simp only []
  split
  · rename_i tok _
    obtain ⟨e2, h2⟩ := callFirst_calls k
      (callFirst k true { p.1 with pin := none } x p.2).2 false
      (callFirst k true { p.1 with pin := none } x p.2).1 tok
    exact ⟨e1 ++ tok :: e2, by rw [h2, h1]; simp⟩
  · exact ⟨e1, h1⟩

theorem foldl_offerFirst_sublist (k : Nat) (obs : List Obs) (p : St × List Nat) :
    ∃ l, (obs.foldl (offerFirst k) p).1.calls = p.1.calls ++ l ∧ obs.Sublist l := by
  induction obs generalizing p with
  | nil => exact ⟨[], by simp⟩
  | cons x xs ih =>
    obtain ⟨e, he⟩ := offerFirst_calls k p x
    obtain ⟨l, hl, hs⟩ := ih (offerFirst k p x)
    refine ⟨x :: (e ++ l), ?_, ?_⟩
    · rw [List.foldl_cons, hl, he]; simp
    · exact (hs.trans (List.sublist_append_right e l)).cons_cons x

/-- the offered observations are all called, in the order offered (the other entries of the
    call log are the follow-ups) -/
theorem offered_sublist (k : Nat) (script : List Nat) (obs : List Obs) :
    obs.Sublist (callsFirst k script obs) := by
  obtain ⟨l, hl, hs⟩ := foldl_offerFirst_sublist k obs (St.init, script)
  unfold callsFirst execFirst
  rw [hl]
  simpa [St.init] using hs

/-- hence at least one call per offered observation -/
theorem calls_ge (k : Nat) (script : List Nat) (obs : List Obs) :
    obs.length ≤ (runFirst k script obs).n := by
  rw [first_counts_every_call]
  exact (offered_sublist k script obs).length_le

/-! ### the faulty order -/

/-- **The fault.**  Reservoir of length 1, three echo observations, every draw `1`.
Real order: `accumulate(e0)`; `accumulate(e1)` evicts `e0`, whose finaliser calls
`accumulate(t0)` inside the store (it evicts `e1`, still held by the caller); `e1` dies when its
call has returned: `accumulate(t1)`; `accumulate(e2)`.  Five calls, `n = 5`, requests
`(1,2) (1,3) (1,4) (1,5)`.  Faulty order: the nested call reads the stale `_n = 1`, asks for
`(1,2)` again, and its count is overwritten by the outer `self._n = 2`: the same five calls,
but `n = 4` and a repeated range. -/
theorem late_counterexample :
    let obs := [Obs.echo 0, Obs.echo 1, Obs.echo 2]
    let script := [1, 1, 1, 1]
    callsLate 1 script obs = [.echo 0, .echo 1, .plain (echoId 0), .plain (echoId 1), .echo 2] ∧
    callsFirst 1 script obs = callsLate 1 script obs ∧
    runLate 1 script obs = ⟨4, [2], [(1, 2), (1, 2), (1, 3), (1, 4)]⟩ ∧
    runFirst 1 script obs = ⟨5, [2], [(1, 2), (1, 3), (1, 4), (1, 5)]⟩ ∧
    (runLate 1 script obs).n < (callsLate 1 script obs).length ∧
    ¬ (runLate 1 script obs).ranges.Nodup := by
  decide

/-- there the faulty order is not the atomic model on its own call sequence -/
theorem late_ne_flat_counterexample :
    runLate 1 [1, 1, 1, 1] [.echo 0, .echo 1, .echo 2] ≠
      runFlat 1 [1, 1, 1, 1] (callsLate 1 [1, 1, 1, 1] [.echo 0, .echo 1, .echo 2]) := by
  decide

/-- all observations inert -/
def AllPlain (l : List Obs) : Prop := ∀ o ∈ l, finaliser o = none

theorem allPlain_iff (l : List Obs) : AllPlain l ↔ ∀ o ∈ l, ∃ i, o = Obs.plain i := by
  constructor
  · intro h o ho
    have := h o ho
    cases o with
    | plain i => exact ⟨i, rfl⟩
    | echo i => simp [finaliser] at this
  · intro h o ho
    obtain ⟨i, rfl⟩ := h o ho
    rfl

theorem released_none_of_allPlain {st : St} (h : AllPlain st.res) (slot : Nat) :
    released st slot = none := by
  unfold released
  split
  · rfl
  · cases hg : st.res[slot]? with
    | none => rfl
    | some o => exact h o (List.mem_of_getElem? hg)

theorem allPlain_set {l : List Obs} (h : AllPlain l) {x : Obs} (hx : finaliser x = none) (i : Nat) :
    AllPlain (l.set i x) := by
  intro o ho
  rcases List.mem_or_eq_of_mem_set ho with h' | h'
  · exact h o h'
  · rw [h']; exact hx

theorem allPlain_append {l : List Obs} (h : AllPlain l) {x : Obs} (hx : finaliser x = none) :
    AllPlain (l ++ [x]) := by
  intro o ho
  rcases List.mem_append.1 ho with h' | h'
  · exact h o h'
  · rw [List.mem_singleton.1 h']; exact hx

/-- a call with an inert argument into a reservoir of inert items: both orders do the same,
    the reservoir stays inert, and the call log grows by this call only -/
theorem call_plain (k : Nat) (top : Bool) (st : St) (obj : Obs) (script : List Nat)
    (hres : AllPlain st.res) (hobj : finaliser obj = none) :
    callLate k top st obj script = callFirst k top st obj script ∧
    AllPlain (callFirst k top st obj script).1.res ∧
    (callFirst k top st obj script).1.calls = st.calls ++ [obj] := by
  cases script with
  | nil =>
    unfold callLate callFirst
    simp only [enter_n]
    by_cases hk : st.n + 1 ≤ k
    · simp only [hk, if_true]
      exact ⟨rfl, allPlain_append hres hobj, rfl⟩
    · simp only [hk, if_false]
      exact ⟨rfl, hres, rfl⟩
  | cons j rest =>
    unfold callLate callFirst
    simp only [enter_n]
    by_cases hk : st.n + 1 ≤ k
    · simp only [hk, if_true]
      exact ⟨rfl, allPlain_append hres hobj, rfl⟩
    · simp only [hk, if_false]
      by_cases hj : j ≤ k
      · simp only [hj, if_true]
        rw [released_none_of_allPlain (st := (st.log obj).request (st.n + 1)) hres,
            released_none_of_allPlain (st := (st.enter obj).request (st.n + 1)) hres]
        exact ⟨rfl, allPlain_set hres hobj _, rfl⟩
      · simp only [hj, if_false]
        exact ⟨rfl, hres, rfl⟩

theorem offer_plain (k : Nat) (p : St × List Nat) (x : Obs)
    (hres : AllPlain p.1.res) (hx : finaliser x = none) :
    offerLate k p x = offerFirst k p x ∧ AllPlain (offerFirst k p x).1.res ∧
    (offerFirst k p x).1.calls = p.1.calls ++ [x] := by
  have h := call_plain k true { p.1 with pin := none } x p.2 hres hx
  have hd : ∀ st : St, dropped st x = none := by intro st; simp [dropped, hx]
  unfold offerLate offerFirst
  simp only [h.1, hd]
  exact ⟨trivial, h.2.1, h.2.2⟩

theorem foldl_offer_plain (k : Nat) (obs : List Obs) (p : St × List Nat)
    (hres : AllPlain p.1.res) (hobs : AllPlain obs) :
    obs.foldl (offerLate k) p = obs.foldl (offerFirst k) p ∧
    (obs.foldl (offerFirst k) p).1.calls = p.1.calls ++ obs := by
  induction obs generalizing p with
  | nil => simp
  | cons x xs ih =>
    have hx := hobs x (List.mem_cons_self ..)
    have h := offer_plain k p x hres hx
    have h' := ih _ h.2.1 (fun o ho => hobs o (List.mem_cons_of_mem _ ho))
    rw [List.foldl_cons, List.foldl_cons, h.1]
    refine ⟨h'.1, ?_⟩
    rw [h'.2, h.2.2]; simp

/-- **The fault needs re-entrancy**: if all offered observations are plain, the faulty order
ends in exactly the heap of the real order (count, reservoir, requests, call log), and the
calls are the offered observations. -/
theorem late_eq_first_without_echo (k : Nat) (script : List Nat) (obs : List Obs)
    (h : ∀ o ∈ obs, ∃ i, o = Obs.plain i) :
    runLate k script obs = runFirst k script obs ∧
    callsLate k script obs = callsFirst k script obs ∧
    callsFirst k script obs = obs := by
  have h0 : AllPlain (St.init, script).1.res := by intro o ho; simp [St.init] at ho
  have hp := foldl_offer_plain k obs (St.init, script) h0 ((allPlain_iff obs).2 h)
  have hf : execLate k script obs = execFirst k script obs := by
    unfold execLate execFirst; rw [hp.1]
  refine ⟨?_, ?_, ?_⟩
  · simp only [runLate, runFirst, hf]
  · simp only [callsLate, callsFirst, hf]
  · simp only [callsFirst, execFirst, hp.2]; simp [St.init]

/-! ### non-vacuity: a deeper nesting (reservoir of two echoes, chain of evictions) -/
example : runFirst 2 [1, 2, 1, 3, 2] [.echo 0, .echo 1, .echo 2, .echo 3, .plain 4] =
    ⟨8, [1001, 3], [(1, 3), (1, 4), (1, 5), (1, 6), (1, 7), (1, 8)]⟩ := by decide
example : runLate 2 [1, 2, 1, 3, 2] [.echo 0, .echo 1, .echo 2, .echo 3, .plain 4] =
    ⟨6, [1001, 3], [(1, 3), (1, 3), (1, 3), (1, 4), (1, 5), (1, 6)]⟩ := by decide
example : draws 2 0 [1, 2] 5 = [0, 0, 1, 2, 5] := by decide

end Gpv.C15Reentrant

#print axioms Gpv.C15Reentrant.first_eq_flat
#print axioms Gpv.C15Reentrant.flat_eq_run
#print axioms Gpv.C15Reentrant.first_eq_run
#print axioms Gpv.C15Reentrant.first_counts_every_call
#print axioms Gpv.C15Reentrant.first_ranges
#print axioms Gpv.C15Reentrant.first_reservoir_size
#print axioms Gpv.C15Reentrant.offered_sublist
#print axioms Gpv.C15Reentrant.calls_ge
#print axioms Gpv.C15Reentrant.late_counterexample
#print axioms Gpv.C15Reentrant.late_ne_flat_counterexample
#print axioms Gpv.C15Reentrant.late_eq_first_without_echo
