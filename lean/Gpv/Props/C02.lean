/-
  C02 — the stream is lazy and the prefetch window is exact: nothing is drawn before the
  first `next`; at most `cachelen = nworkers + extracache` elements are ever ahead of the
  consumer, and whenever the generator waits or is suspended inside the main loop the
  window is used to the full; when no task can be started, every worker that could be
  busy is busy.  The in-process mode draws exactly one element per processed element.

  All statements are about `Gpv.Model.Pipeline` (`step?`, `sstep?`); `Reach` = every
  consumer (next/close/throw) and every schedule, `ReachN` = a consumer that only calls next.
-/
import Gpv.Proofs.PipelineInv
import Gpv.Proofs.PipelineRun

namespace Gpv.C02
open Gpv Gpv.Pipe
variable {α β ε : Type}
variable {c : Cfg} {xs : List α} {tail : Option ε} {f : α → Outcome β ε} {p0 y0 : Nat} {s s' : PS β ε}

theorem cachelen_pos (hw : 1 ≤ c.nworkers) : 1 ≤ c.cachelen := by unfold Cfg.cachelen; omega

/-! ### laziness -/

theorem lazy_init (h : Reach c xs tail f p0 y0 s) (hpc : s.pc = .notStarted) :
    s.drawn = 0 ∧ s.pool = .notCreated ∧ s.cache = [] ∧ s.out = [] := by
  have g := h.ginv
  obtain ⟨hp, ho⟩ := g.ns hpc
  obtain ⟨hd, hc, -⟩ := g.pool_nc hp
  exact ⟨hd, hp, hc, ho⟩

/-- the only thing that can happen to an unstarted stream without the consumer is nothing -/
theorem lazy_no_spontaneous_step (hpc : s.pc = .notStarted) (hpool : s.pool = .notCreated) (l : Label ε)
    (hs : step? c xs tail f s l = some s') : l = .next ∨ l = .close ∨ ∃ e, l = .throw e := by
  cases l with
  | next => exact .inl rfl
  | close => exact .inr (.inl rfl)
  | throw e => exact .inr (.inr ⟨e, rfl⟩)
  | draw => simp [step?, hpc] at hs
  | get => simp [step?, hpc] at hs
  | flush => simp [step?, hpc] at hs
  | start i => simp [step?, hpool] at hs
  | finish i => simp [step?, hpool] at hs

/-! ### the window -/

/-- never more than `cachelen` elements ahead — in every state, the failed ones included
    (no slack is needed there: the failing task had been counted in the window) -/
theorem window_bound (hw : 1 ≤ c.nworkers) (h : Reach c xs tail f p0 y0 s) :
    s.cache.length ≤ c.cachelen ∧ s.drawn - s.taken ≤ c.cachelen := by
  have g := h.ginv
  have := g.win_bound (cachelen_pos hw)
  exact ⟨g.len_le (cachelen_pos hw), by omega⟩

/-- the form with the explicit slack term for failed states (weaker than `window_bound`) -/
theorem window_bound_slack (hw : 1 ≤ c.nworkers) (h : Reach c xs tail f p0 y0 s) :
    s.cache.length ≤ c.cachelen ∧ s.drawn - s.taken ≤ c.cachelen + (if s.pc = .failed then 1 else 0) := by
  obtain ⟨h1, h2⟩ := window_bound hw h
  exact ⟨h1, by omega⟩

/-- outside failure the window is exactly the drawn-but-not-taken elements -/
theorem window_exact (h : Reach c xs tail f p0 y0 s) (hnf : s.pc ≠ .failed) :
    s.cache.length = s.drawn - s.taken ∧ s.cache.map Prod.fst = List.range' s.taken (s.drawn - s.taken) := by
  have g := h.ginv
  have h1 := g.win_eq hnf
  refine ⟨by omega, ?_⟩
  rw [g.idx]; congr 1 <;> omega

theorem window_full_when_waiting (hw : 1 ≤ c.nworkers) (h : Reach c xs tail f p0 y0 s) :
    (s.pc = .waitLoop → s.cache.length = c.cachelen) ∧
    (s.pc = .yieldLoop → s.cache.length + 1 = c.cachelen) ∧
    (s.pc = .loopHead → s.cache.length < c.cachelen) := by
  have g := h.ginv
  have hc := cachelen_pos hw
  exact ⟨g.len_wait hc, g.len_yield hc, g.len_head hc⟩

/-! ### the workers -/

theorem running_le (h : Reach c xs tail f p0 y0 s) : running s.cache ≤ c.nworkers := h.ginv.run_le

/-- tasks in the window that have not finished -/
def unfinished (cache : List (Nat × TStat)) : Nat := (cache.filter fun t => t.2 ≠ .finished).length

theorem running_le_unfinished (cache : List (Nat × TStat)) : running cache ≤ unfinished cache := by
  induction cache with
  | nil => simp [unfinished]
  | cons t r ih =>
    rw [running_cons]
    have : unfinished (t :: r) = (if t.2 ≠ .finished then 1 else 0) + unfinished r := by
      simp only [unfinished, List.filter_cons]
      by_cases h : t.2 = .finished <;> simp [h]; omega
    rw [this]
    rcases t with ⟨i, st⟩
    cases st <;> simp <;> omega

theorem running_eq_unfinished_of_no_queued (cache : List (Nat × TStat))
    (h : ∀ i, (i, TStat.queued) ∉ cache) : running cache = unfinished cache := by
  induction cache with
  | nil => simp [unfinished]
  | cons t r ih =>
    rw [running_cons]
    have e : unfinished (t :: r) = (if t.2 ≠ .finished then 1 else 0) + unfinished r := by
      simp only [unfinished, List.filter_cons]
      by_cases h : t.2 = .finished <;> simp [h]; omega
    rw [e, ih (fun i hi => h i (List.mem_cons_of_mem _ hi))]
    rcases t with ⟨i, st⟩
    cases st
    · exact absurd List.mem_cons_self (h i)
    · simp
    · simp

/-- when the scheduler cannot start anything, every worker that could be busy is busy -/
theorem workers_saturated (h : Reach c xs tail f p0 y0 s) (hp : s.pool = .alive)
    (hno : ∀ i, step? c xs tail f s (.start i) = none) :
    running s.cache = min c.nworkers (unfinished s.cache) := by
  have hle := running_le h
  have hu := running_le_unfinished s.cache
  by_cases hq : ∃ i, (i, TStat.queued) ∈ s.cache
  · obtain ⟨i, hi⟩ := hq
    have := hno i
    simp only [step?] at this
    have hnr : ¬ running s.cache < c.nworkers := by
      intro hr
      rw [if_pos ⟨hp, hi, hr⟩] at this; cases this
    omega
  · have := running_eq_unfinished_of_no_queued s.cache (fun i hi => hq ⟨i, hi⟩)
    omega

/-! ### draws -/

/-- suspended at the main loop's yield, the stream is exactly `cachelen - 1` elements ahead -/
theorem draws_at_yield_any_consumer (hw : 1 ≤ c.nworkers) (h : Reach c xs tail f p0 y0 s)
    (hpc : s.pc = .yieldLoop) : s.drawn = s.taken + c.cachelen - 1 := by
  have g := h.ginv
  have h1 := g.win_eq (by simp [hpc])
  have h2 := g.len_yield (cachelen_pos hw) hpc
  omega

theorem draws_at_yield (hw : 1 ≤ c.nworkers) (h : ReachN c xs tail f p0 y0 s) (hpc : s.pc = .yieldLoop) :
    s.drawn = s.taken + c.cachelen - 1 := draws_at_yield_any_consumer hw h.reach hpc

/-- never past the end of the source -/
theorem drawn_le_length (h : Reach c xs tail f p0 y0 s) : s.drawn ≤ xs.length := h.ginv.drawn_le

/-! ### in-process mode: one draw per processed element, nothing ahead -/

theorem serial_one_per_element {g : α → SOutcome β ε} {s : SS β ε} (h : SReach c xs tail g p0 y0 s)
    (hpc : s.pc = .atYield ∨ s.pc = .innerHead) :
    s.drawn = s.processed - p0 ∧ s.processed = p0 + s.drawn ∧ 1 ≤ s.drawn ∧ s.drawn ≤ xs.length := by
  have i := h.sinv
  have h1 := i.proc_eq (by rcases hpc with h | h <;> simp [h])
  exact ⟨by omega, h1, i.pos hpc, i.drawn_le⟩

/-- in every state of the in-process mode at most the failing element is drawn and not counted -/
theorem serial_never_ahead {g : α → SOutcome β ε} {s : SS β ε} (h : SReach c xs tail g p0 y0 s) :
    s.processed ≤ p0 + s.drawn ∧ p0 + s.drawn ≤ s.processed + 1 ∧
    (s.pc ≠ .failed → s.processed = p0 + s.drawn) ∧ (s.pc = .notStarted → s.drawn = 0) := by
  have i := h.sinv
  exact ⟨i.proc_le.1, i.proc_le.2, i.proc_eq, fun hp => (i.ns hp).1⟩

/-! ### non-vacuity -/

def exCfg : Cfg := ⟨2, 1, true⟩      -- cachelen = 3
def exF (x : Nat) : Outcome Nat String := .val (some x)

/-- five elements, window 3: suspended at the first yield, 3 are drawn, 1 is taken, 2 are in the window,
    both workers busy, nothing more can be started -/
def exRun : List (Label String) :=
  [.next, .draw, .draw, .draw, .start 1, .finish 1, .start 0, .start 2, .finish 0, .get]

example : runLabels exCfg [1, 2, 3, 4, 5] none exF (PS.init 0 0) exRun
    = some ⟨.yieldLoop, 3, 1, [(1, .finished), (2, .running)], [.value (some 1)], .alive, none, 1, 1⟩ := by
  decide

example : ((runLabels exCfg [1, 2, 3, 4, 5] none exF (PS.init 0 0) exRun).map fun (s : PS Nat String) =>
    (running s.cache, [0, 1, 2, 3, 4].all fun i => (step? exCfg [1, 2, 3, 4, 5] none exF s (.start i)).isNone))
    = some (1, true) := by decide

/-- without a `next` the fresh stream can do nothing at all -/
example : ∀ l ∈ ([.draw, .get, .flush, .start 0, .finish 0] : List (Label String)),
    step? exCfg [1, 2, 3] none exF (PS.init 0 0) l = none := by decide

end Gpv.C02

#print axioms Gpv.C02.lazy_init
#print axioms Gpv.C02.lazy_no_spontaneous_step
#print axioms Gpv.C02.window_bound
#print axioms Gpv.C02.window_bound_slack
#print axioms Gpv.C02.window_exact
#print axioms Gpv.C02.window_full_when_waiting
#print axioms Gpv.C02.running_le
#print axioms Gpv.C02.workers_saturated
#print axioms Gpv.C02.draws_at_yield
#print axioms Gpv.C02.draws_at_yield_any_consumer
#print axioms Gpv.C02.drawn_le_length
#print axioms Gpv.C02.serial_one_per_element
#print axioms Gpv.C02.serial_never_ahead
