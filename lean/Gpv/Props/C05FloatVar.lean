/-
  C05, floating-point clause for the VARIANCE — a machine-checked rounding-error bound
  for the streaming (Welford) update `Variance.push` and its read-out `.value`.

  Model (Gpv/Proofs/FloatVar.lean, on top of Gpv/Proofs/FloatMean.lean): every floating
  point operation returns its exact result times `1 + δ`, `|δ| ≤ u` (`u` unit roundoff,
  `eps = 2u`), δ's arbitrary and independent; integer counts convert exactly; no
  overflow/underflow.  `FlVarRun u xs m v` : `(m, v)` is a possible state
  `(mean.val, var.val)` after `xs`.  Reference: `S = Σ (x − x̄)²` (`sumSqDev`), the exact
  `n · var.val`, and `batchVar = S / (n − 1)`.

  Proved (all for EVERY possible float run, smallness `64·n·u ≤ 1`):

  * `var_float_defect`           |n·v − S| ≤ 4u·S + 58·n²·u·M²              (|x| ≤ M)
  * `var_float_defect_centered`  |n·v − S| ≤ 4u·S + 5u·M² + 26·n²u·R² + 28·n²u·R·M + 72·n³u²·M²
                                 (|x| ≤ M and |x − c| ≤ R for some centre c)
  * `var_float_value_error(_centered)`  the same for the read-out `var * (n / (n − 1))`.

  With σ² = S/n the centred bound reads, relative to S,
      4u + n·u·[26 (R/σ)² + 28 (R/σ)(M/σ)] + 72 (n·u·M/σ)² + 5u (M/σ)²/n ,
  i.e. first order in `n·u` it is LINEAR in M/σ (≈ the condition number κ = √(1 + x̄²/σ²)),
  times the spread ratio R/σ; the κ² dependence only enters at second order `(n·u·κ)²`.
  This is a worst-case bound in terms of max-deviation `R`; it is not the harness's
  statistical tolerance `8·n·eps·κ` (which has no R/σ factor) — see the report.
-/
import Gpv.Proofs.FloatVar
import Gpv.Props.C05
import Mathlib.Algebra.Order.Field.Rat
import Mathlib.Tactic.NormNum
set_option linter.unusedSectionVars false

namespace Gpv.C05FloatVar
open Gpv
variable {K : Type} [Field K] [LinearOrder K] [IsStrictOrderedRing K]

/-! ### 1. the model (definitions in `Gpv.Proofs.FloatVar`, restated) -/

theorem flVarStep_def (u : K) (k : ℕ) (m v x m' v' : K) :
    FlVarStep u k m v x m' v' ↔ ∃ d1 d2 q : K, Rnd u (x - m) d1 ∧ FlStep u k m x m'
      ∧ Rnd u (x - m') d2 ∧ Rnd u (d1 * d2) q ∧ FlStep u k v q v' := Iff.rfl

theorem flVarRun_nil_iff (u m v : K) : FlVarRun u [] m v ↔ m = 0 ∧ v = 0 := by
  constructor
  · intro h
    generalize hl : ([] : List K) = l at h
    cases h with
    | nil => exact ⟨rfl, rfl⟩
    | snoc x m' v' _ _ => simp at hl
  · rintro ⟨rfl, rfl⟩; exact FlVarRun.nil

theorem flVarRun_snoc_iff (u : K) (xs : List K) (x m' v' : K) :
    FlVarRun u (xs ++ [x]) m' v'
      ↔ ∃ m v, FlVarRun u xs m v ∧ FlVarStep u (xs.length + 1) m v x m' v' := by
  constructor
  · intro h
    generalize hl : xs ++ [x] = l at h
    cases h with
    | nil => simp at hl
    | @snoc ys m v y m' v' hr hs =>
      obtain ⟨rfl, h2⟩ := List.append_inj' hl rfl
      simp only [List.cons.injEq, and_true] at h2
      subst h2
      exact ⟨m, v, hr, hs⟩
  · rintro ⟨m, v, hr, hs⟩; exact FlVarRun.snoc x m' v' hr hs

/-- the float read-out `var.val * (n / (n − 1))`: the integer `n − 1` is exact, the
    quotient and the product are rounded once each -/
def FlVarValue (u : K) (n : ℕ) (v r : K) : Prop :=
  ∃ ρ : K, Rnd u ((n : K) / ((n : K) - 1)) ρ ∧ Rnd u (v * ρ) r

/-! ### 3. exactness -/

theorem var_float_exact (xs : List K) (m v : K) :
    FlVarRun 0 xs m v ↔ (m, v) = ((Variance.run xs).mean.val, (Variance.run xs).var.val) := by
  rw [flVarRun_zero_iff, Prod.mk.injEq]

theorem exact_var_run_possible {u : K} (hu : 0 ≤ u) (xs : List K) :
    FlVarRun u xs (Variance.run xs).mean.val (Variance.run xs).var.val := FlVarRun.of_exact hu xs

theorem var_float_run_mono {u u' : K} (h : u ≤ u') {xs : List K} {m v : K}
    (hr : FlVarRun u xs m v) : FlVarRun u' xs m v := hr.mono h

/-- the mean inside a variance run is a float mean run, so C05Float applies to it -/
theorem var_run_mean {u : K} {xs : List K} {m v : K} (hr : FlVarRun u xs m v) : FlRun u xs m :=
  hr.mean_run

/-- the exact read-out is a possible float read-out -/
theorem exact_value_possible {u : K} (hu : 0 ≤ u) (n : ℕ) (v : K) :
    FlVarValue u n v (v * ((n : K) / ((n : K) - 1))) :=
  ⟨_, Rnd.exact hu _, Rnd.exact hu _⟩

/-! ### 2. the bounds -/

/-- `n · var.val` of the exact run is `S = Σ (x − x̄)²` -/
theorem exact_W_eq (xs : List K) : (xs.length : K) * (Variance.run xs).var.val = sumSqDev xs := by
  rcases xs with _ | ⟨x, t⟩
  · simp [sumSqDev]
  · have hne : (x :: t) ≠ [] := by simp
    have hl : (((x :: t).length : ℕ) : K) ≠ 0 := Nat.cast_ne_zero.mpr (by simp)
    have := C05.rms_eq (x :: t) hne
    rw [Variance.rms] at this
    rw [this]; field_simp

theorem sumSqDev_nonneg (xs : List K) : 0 ≤ sumSqDev xs := by
  rw [← exact_W_eq]; exact exact_W_nonneg xs

theorem bound_nonneg {M : K} {xs : List K} (hne : xs ≠ []) (hx : ∀ x ∈ xs, |x| ≤ M) : 0 ≤ M := by
  obtain ⟨x, t, rfl⟩ := List.exists_cons_of_ne_nil hne
  exact (abs_nonneg x).trans (hx x (by simp))

/-- **Crude bound.**  `|n·v − S| ≤ 4u·S + 58·n²·u·M²` for data with `|x| ≤ M`, `64 n u ≤ 1`. -/
theorem var_float_defect {u M : K} (hu : 0 ≤ u) {xs : List K} (hne : xs ≠ [])
    (hx : ∀ x ∈ xs, |x| ≤ M) (hsmall : 64 * (xs.length : K) * u ≤ 1) {m v : K}
    (h : FlVarRun u xs m v) :
    |(xs.length : K) * v - sumSqDev xs|
      ≤ 4 * u * sumSqDev xs + 58 * (xs.length : K) ^ 2 * u * M ^ 2 := by
  have hM := bound_nonneg hne hx
  obtain ⟨_, Q, _, q2, _, q4⟩ := FlVarRun.inv hu hM h hx hsmall
  rw [exact_W_eq] at q4
  have hn : (1 : K) ≤ (xs.length : K) := by
    exact_mod_cast Nat.succ_le_of_lt (List.length_pos_iff.mpr hne)
  have huM : 0 ≤ u * M ^ 2 := by positivity
  have e : (xs.length : K) * v - sumSqDev xs = ((xs.length : K) * v - Q) + (Q - sumSqDev xs) := by ring
  rw [e]
  refine (abs_add_le _ _).trans ((add_le_add q2 q4).trans ?_)
  have : (xs.length : K) * ((xs.length : K) + 1) * (u * M ^ 2)
      ≤ (xs.length : K) * (2 * (xs.length : K)) * (u * M ^ 2) :=
    mul_le_mul_of_nonneg_right (mul_le_mul_of_nonneg_left (by linarith) (by linarith)) huM
  nlinarith

/-- error of `var.val` itself (the population variance `S/n`) -/
theorem var_float_error {u M : K} (hu : 0 ≤ u) {xs : List K} (hne : xs ≠ [])
    (hx : ∀ x ∈ xs, |x| ≤ M) (hsmall : 64 * (xs.length : K) * u ≤ 1) {m v : K}
    (h : FlVarRun u xs m v) :
    |v - sumSqDev xs / (xs.length : K)|
      ≤ 4 * u * (sumSqDev xs / (xs.length : K)) + 58 * (xs.length : K) * u * M ^ 2 := by
  have hn : (0 : K) < (xs.length : K) := Nat.cast_pos.mpr (List.length_pos_iff.mpr hne)
  have hd := var_float_defect hu hne hx hsmall h
  have e : v - sumSqDev xs / (xs.length : K) = ((xs.length : K) * v - sumSqDev xs) / (xs.length : K) := by
    field_simp
  rw [e, abs_div, abs_of_pos hn, div_le_iff₀ hn]
  refine hd.trans (le_of_eq ?_)
  field_simp

/-- **Centred bound.**  Data in `[c − R, c + R]` with `|x| ≤ M`:
    `|n·v − S| ≤ 4u·S + 5u·M² + 26·n²u·R² + 28·n²u·R·M + 72·n³u²·M²`. -/
theorem var_float_defect_centered {u M R c : K} (hu : 0 ≤ u) {xs : List K} (hne : xs ≠ [])
    (hx : ∀ x ∈ xs, |x| ≤ M) (hc : ∀ x ∈ xs, |x - c| ≤ R)
    (hsmall : 64 * (xs.length : K) * u ≤ 1) {m v : K} (h : FlVarRun u xs m v) :
    |(xs.length : K) * v - sumSqDev xs|
      ≤ 4 * u * sumSqDev xs + 5 * u * M ^ 2 + 26 * (xs.length : K) ^ 2 * u * R ^ 2
        + 28 * (xs.length : K) ^ 2 * u * R * M + 72 * (xs.length : K) ^ 3 * u ^ 2 * M ^ 2 := by
  have hM := bound_nonneg hne hx
  have hR : 0 ≤ R := by
    obtain ⟨x, t, rfl⟩ := List.exists_cons_of_ne_nil hne
    exact (abs_nonneg _).trans (hc x (by simp))
  obtain ⟨_, Q, _, q2, _, q4⟩ :=
    FlVarRun.inv_centered hu hM hR xs.length hsmall h hx hc le_rfl
  rw [exact_W_eq, if_neg hne] at q4
  have hn : (1 : K) ≤ (xs.length : K) := by
    exact_mod_cast Nat.succ_le_of_lt (List.length_pos_iff.mpr hne)
  have e : (xs.length : K) * v - sumSqDev xs = ((xs.length : K) * v - Q) + (Q - sumSqDev xs) := by ring
  rw [e]
  refine (abs_add_le _ _).trans ((add_le_add q2 q4).trans ?_)
  generalize (xs.length : K) = n at *
  have hn0 : 0 ≤ n := by linarith
  have ht : n * u ≤ 1 / 64 := by linarith
  have hA : 0 ≤ n ^ 2 * u * R * M := by positivity
  have hB : 0 ≤ n ^ 3 * u ^ 2 * M ^ 2 := by positivity
  have hC : 0 ≤ n ^ 2 * u * R ^ 2 := by positivity
  have hD : 0 ≤ n ^ 2 * u ^ 2 * M ^ 2 := by positivity
  have b1 : n * u * (n ^ 2 * u * R * M) ≤ 1 / 64 * (n ^ 2 * u * R * M) :=
    mul_le_mul_of_nonneg_right ht hA
  have b2 : n * u * (n ^ 3 * u ^ 2 * M ^ 2) ≤ 1 / 64 * (n ^ 3 * u ^ 2 * M ^ 2) :=
    mul_le_mul_of_nonneg_right ht hB
  have b3 : 1 * (n ^ 2 * u ^ 2 * M ^ 2) ≤ n * (n ^ 2 * u ^ 2 * M ^ 2) :=
    mul_le_mul_of_nonneg_right hn hD
  have key : 6 * n ^ 2 * u * (17 / 16 * (2 * R + 6 * n * u * M) ^ 2 + 5 * u * M ^ 2)
      + n * (17 / 16 * (4 * R * (6 * n * u * M) + (6 * n * u * M) ^ 2))
      = 51 / 2 * (n ^ 2 * u * R ^ 2) + 51 / 2 * (n ^ 2 * u * R * M)
        + 153 / 4 * (n ^ 3 * u ^ 2 * M ^ 2) + 153 * (n * u * (n ^ 2 * u * R * M))
        + 459 / 2 * (n * u * (n ^ 3 * u ^ 2 * M ^ 2)) + 30 * (1 * (n ^ 2 * u ^ 2 * M ^ 2)) := by ring
  have b3' : n * (n ^ 2 * u ^ 2 * M ^ 2) = n ^ 3 * u ^ 2 * M ^ 2 := by ring
  linarith

/-! ### the read-out `.value` -/

/-- from a defect bound `|n·v − S| ≤ B` to the rounded read-out `var * (n/(n−1))` -/
theorem value_error_of_defect {u S B : K} (hu : 0 ≤ u) (hu64 : 64 * u ≤ 1) (hS : 0 ≤ S)
    {n : ℕ} (hn : 2 ≤ n) {v r : K} (hd : |(n : K) * v - S| ≤ B) (hr : FlVarValue u n v r) :
    |r - S / ((n : K) - 1)| ≤ (67 / 64 * B + 3 * u * S) / ((n : K) - 1) := by
  obtain ⟨ρ, ⟨δa, ha, rfl⟩, ⟨δb, hb, rfl⟩⟩ := hr
  have hn1 : (0 : K) < (n : K) - 1 := by
    have : (2 : K) ≤ (n : K) := by exact_mod_cast hn
    linarith
  have hB : 0 ≤ B := (abs_nonneg _).trans hd
  have hπ1 : |(1 + δa) * (1 + δb) - 1| ≤ 3 * u := by
    have p1 : |(1 + δa) - 1| ≤ u := by simpa using ha
    refine (rel_compose p1 hb).trans ?_
    have : u * u ≤ u * (1 / 64) := mul_le_mul_of_nonneg_left (by linarith) hu
    linarith
  have hπ : |(1 + δa) * (1 + δb)| ≤ 67 / 64 := (abs_le_one_add_of_rel hπ1).trans (by linarith)
  have e : v * ((n : K) / ((n : K) - 1) * (1 + δa)) * (1 + δb) - S / ((n : K) - 1)
      = (((n : K) * v - S) * ((1 + δa) * (1 + δb)) + S * ((1 + δa) * (1 + δb) - 1)) / ((n : K) - 1) := by
    field_simp
    ring
  rw [e, abs_div, abs_of_pos hn1]
  apply div_le_div_of_nonneg_right _ hn1.le
  calc |((n : K) * v - S) * ((1 + δa) * (1 + δb)) + S * ((1 + δa) * (1 + δb) - 1)|
      ≤ |((n : K) * v - S) * ((1 + δa) * (1 + δb))| + |S * ((1 + δa) * (1 + δb) - 1)| := abs_add_le _ _
    _ = |(n : K) * v - S| * |(1 + δa) * (1 + δb)| + S * |(1 + δa) * (1 + δb) - 1| := by
        rw [abs_mul ((n : K) * v - S), abs_mul S, abs_of_nonneg hS]
    _ ≤ B * (67 / 64) + S * (3 * u) :=
        add_le_add (mul_le_mul hd hπ (abs_nonneg _) hB) (mul_le_mul_of_nonneg_left hπ1 hS)
    _ = 67 / 64 * B + 3 * u * S := by ring

theorem u64_of_small {u : K} (hu : 0 ≤ u) {xs : List K} (hne : xs ≠ [])
    (hsmall : 64 * (xs.length : K) * u ≤ 1) : 64 * u ≤ 1 := by
  have hn : (1 : K) ≤ (xs.length : K) := by
    exact_mod_cast Nat.succ_le_of_lt (List.length_pos_iff.mpr hne)
  have : 64 * u * 1 ≤ 64 * u * (xs.length : K) := mul_le_mul_of_nonneg_left hn (by positivity)
  linarith

/-- **Read-out, crude form.**  For `n ≥ 2`:
    `|value − batchVar| ≤ 8u·batchVar + 61·n²·u·M² / (n − 1)`. -/
theorem var_float_value_error {u M : K} (hu : 0 ≤ u) {xs : List K} (h2 : 2 ≤ xs.length)
    (hx : ∀ x ∈ xs, |x| ≤ M) (hsmall : 64 * (xs.length : K) * u ≤ 1) {m v r : K}
    (h : FlVarRun u xs m v) (hr : FlVarValue u xs.length v r) :
    |r - batchVar xs|
      ≤ 8 * u * batchVar xs + 61 * (xs.length : K) ^ 2 * u * M ^ 2 / ((xs.length : K) - 1) := by
  have hne : xs ≠ [] := by intro e; simp [e] at h2
  have hM := bound_nonneg hne hx
  have hn1 : (0 : K) < (xs.length : K) - 1 := by
    have : (2 : K) ≤ (xs.length : K) := by exact_mod_cast h2
    linarith
  have hS := sumSqDev_nonneg xs
  have hd := var_float_defect hu hne hx hsmall h
  have hv := value_error_of_defect hu (u64_of_small hu hne hsmall) hS h2 hd hr
  rw [batchVar]
  refine hv.trans ?_
  rw [mul_div_assoc', ← add_div]
  apply div_le_div_of_nonneg_right _ hn1.le
  have h1 : 0 ≤ u * sumSqDev xs := mul_nonneg hu hS
  have h3 : 0 ≤ (xs.length : K) ^ 2 * u * M ^ 2 := by positivity
  linarith

/-- **Read-out, centred form.**  For `n ≥ 2`, data in `[c − R, c + R]`, `|x| ≤ M`:
    `|value − batchVar| ≤ 8u·batchVar
        + (6u·M² + 28·n²u·R² + 30·n²u·R·M + 76·n³u²·M²) / (n − 1)`. -/
theorem var_float_value_error_centered {u M R c : K} (hu : 0 ≤ u) {xs : List K}
    (h2 : 2 ≤ xs.length) (hx : ∀ x ∈ xs, |x| ≤ M) (hc : ∀ x ∈ xs, |x - c| ≤ R)
    (hsmall : 64 * (xs.length : K) * u ≤ 1) {m v r : K}
    (h : FlVarRun u xs m v) (hr : FlVarValue u xs.length v r) :
    |r - batchVar xs|
      ≤ 8 * u * batchVar xs
        + (6 * u * M ^ 2 + 28 * (xs.length : K) ^ 2 * u * R ^ 2
            + 30 * (xs.length : K) ^ 2 * u * R * M + 76 * (xs.length : K) ^ 3 * u ^ 2 * M ^ 2)
          / ((xs.length : K) - 1) := by
  have hne : xs ≠ [] := by intro e; simp [e] at h2
  have hM := bound_nonneg hne hx
  have hR : 0 ≤ R := by
    obtain ⟨x, t, rfl⟩ := List.exists_cons_of_ne_nil hne
    exact (abs_nonneg _).trans (hc x (by simp))
  have hn1 : (0 : K) < (xs.length : K) - 1 := by
    have : (2 : K) ≤ (xs.length : K) := by exact_mod_cast h2
    linarith
  have hS := sumSqDev_nonneg xs
  have hd := var_float_defect_centered hu hne hx hc hsmall h
  have hv := value_error_of_defect hu (u64_of_small hu hne hsmall) hS h2 hd hr
  rw [batchVar]
  refine hv.trans ?_
  rw [mul_div_assoc', ← add_div]
  apply div_le_div_of_nonneg_right _ hn1.le
  have h1 : 0 ≤ u * sumSqDev xs := mul_nonneg hu hS
  have h3 : 0 ≤ u * M ^ 2 := by positivity
  have h4 : 0 ≤ (xs.length : K) ^ 2 * u * R ^ 2 := by positivity
  have h5 : 0 ≤ (xs.length : K) ^ 2 * u * R * M := by positivity
  have h6 : 0 ≤ (xs.length : K) ^ 3 * u ^ 2 * M ^ 2 := by positivity
  linarith

/-- relative form: for non-degenerate data (`S > 0`) the read-out error is at most
    `(8u + X / S) · batchVar` with `X` the absolute part of the centred bound -/
theorem var_float_value_rel_centered {u M R c : K} (hu : 0 ≤ u) {xs : List K}
    (h2 : 2 ≤ xs.length) (hx : ∀ x ∈ xs, |x| ≤ M) (hc : ∀ x ∈ xs, |x - c| ≤ R)
    (hsmall : 64 * (xs.length : K) * u ≤ 1) (hS : 0 < sumSqDev xs) {m v r : K}
    (h : FlVarRun u xs m v) (hr : FlVarValue u xs.length v r) :
    |r - batchVar xs|
      ≤ (8 * u + (6 * u * M ^ 2 + 28 * (xs.length : K) ^ 2 * u * R ^ 2
            + 30 * (xs.length : K) ^ 2 * u * R * M + 76 * (xs.length : K) ^ 3 * u ^ 2 * M ^ 2)
          / sumSqDev xs) * batchVar xs := by
  refine (var_float_value_error_centered hu h2 hx hc hsmall h hr).trans (le_of_eq ?_)
  have hn1 : (xs.length : K) - 1 ≠ 0 := by
    have : (2 : K) ≤ (xs.length : K) := by exact_mod_cast h2
    intro e; linarith
  rw [batchVar]
  field_simp

/-! ### 5. non-vacuity: a genuinely perturbed run over ℚ, `u = 1/1000`, `xs = [1, 2, 4]` -/

theorem flVarStep_of_deltas {u : K} (k : ℕ) (m v x ε1 ε2 ε3 a1 a2 a3 a4 b1 b2 b3 b4 : K)
    (h1 : |ε1| ≤ u) (h2 : |ε2| ≤ u) (h3 : |ε3| ≤ u)
    (ha1 : |a1| ≤ u) (ha2 : |a2| ≤ u) (ha3 : |a3| ≤ u) (ha4 : |a4| ≤ u)
    (hb1 : |b1| ≤ u) (hb2 : |b2| ≤ u) (hb3 : |b3| ≤ u) (hb4 : |b4| ≤ u) :
    FlVarStep u k m v x
      ((m + (x / (k : K) * (1 + a1) - m / (k : K) * (1 + a2)) * (1 + a3)) * (1 + a4))
      ((v + ((x - m) * (1 + ε1)
              * ((x - (m + (x / (k : K) * (1 + a1) - m / (k : K) * (1 + a2)) * (1 + a3)) * (1 + a4))
                  * (1 + ε2)) * (1 + ε3) / (k : K) * (1 + b1)
            - v / (k : K) * (1 + b2)) * (1 + b3)) * (1 + b4)) :=
  ⟨_, _, _, ⟨ε1, h1, rfl⟩,
    ⟨_, _, _, ⟨a1, ha1, rfl⟩, ⟨a2, ha2, rfl⟩, ⟨a3, ha3, rfl⟩, ⟨a4, ha4, rfl⟩⟩,
    ⟨ε2, h2, rfl⟩, ⟨ε3, h3, rfl⟩,
    ⟨_, _, _, ⟨b1, hb1, rfl⟩, ⟨b2, hb2, rfl⟩, ⟨b3, hb3, rfl⟩, ⟨b4, hb4, rfl⟩⟩⟩

example : ∃ m v : ℚ, FlVarRun (1 / 1000) [1, 2, 4] m v ∧ m ≠ 7 / 3 ∧ 3 * v ≠ 14 / 3
    ∧ |3 * v - 14 / 3| ≤ 4 * (1 / 1000) * (14 / 3) + 58 * 3 ^ 2 * (1 / 1000) * 4 ^ 2 := by
  have r0 : FlVarRun (1 / 1000 : ℚ) [] 0 0 := FlVarRun.nil
  have r1 := FlVarRun.snoc 1 _ _ r0 (flVarStep_of_deltas (u := (1 / 1000 : ℚ)) _ 0 0 1
    (1 / 1000) 0 0 (1 / 1000) 0 0 (-1 / 1000) 0 0 0 (1 / 1000)
    (by norm_num [abs_le]) (by norm_num [abs_le]) (by norm_num [abs_le]) (by norm_num [abs_le])
    (by norm_num [abs_le]) (by norm_num [abs_le]) (by norm_num [abs_le]) (by norm_num [abs_le])
    (by norm_num [abs_le]) (by norm_num [abs_le]) (by norm_num [abs_le]))
  have r2 := FlVarRun.snoc 2 _ _ r1 (flVarStep_of_deltas (u := (1 / 1000 : ℚ)) _ _ _ 2
    0 (-1 / 1000) (1 / 1000) 0 (1 / 1000) 0 0 (1 / 1000) 0 (-1 / 1000) 0
    (by norm_num [abs_le]) (by norm_num [abs_le]) (by norm_num [abs_le]) (by norm_num [abs_le])
    (by norm_num [abs_le]) (by norm_num [abs_le]) (by norm_num [abs_le]) (by norm_num [abs_le])
    (by norm_num [abs_le]) (by norm_num [abs_le]) (by norm_num [abs_le]))
  have r3 := FlVarRun.snoc 4 _ _ r2 (flVarStep_of_deltas (u := (1 / 1000 : ℚ)) _ _ _ 4
    (1 / 1000) 0 (1 / 1000) 0 0 (1 / 1000) 0 0 (-1 / 1000) 0 (1 / 1000)
    (by norm_num [abs_le]) (by norm_num [abs_le]) (by norm_num [abs_le]) (by norm_num [abs_le])
    (by norm_num [abs_le]) (by norm_num [abs_le]) (by norm_num [abs_le]) (by norm_num [abs_le])
    (by norm_num [abs_le]) (by norm_num [abs_le]) (by norm_num [abs_le]))
  refine ⟨_, _, r3, ?_, ?_, ?_⟩ <;> norm_num [abs_le]

/-- the theorem applies to every run on that list: `64·3/1000 ≤ 1`, `|x| ≤ 4`,
    data in `[5/2 − 3/2, 5/2 + 3/2]` -/
example (m v : ℚ) (h : FlVarRun (1 / 1000) [1, 2, 4] m v) :
    |3 * v - sumSqDev ([1, 2, 4] : List ℚ)|
      ≤ 4 * (1 / 1000) * sumSqDev ([1, 2, 4] : List ℚ) + 5 * (1 / 1000) * 4 ^ 2
        + 26 * 3 ^ 2 * (1 / 1000) * (3 / 2) ^ 2 + 28 * 3 ^ 2 * (1 / 1000) * (3 / 2) * 4
        + 72 * 3 ^ 3 * (1 / 1000) ^ 2 * 4 ^ 2 := by
  have := var_float_defect_centered (u := (1 / 1000 : ℚ)) (M := 4) (R := 3 / 2) (c := 5 / 2)
    (by norm_num) (xs := [1, 2, 4]) (by simp)
    (by intro x hx; simp at hx; rcases hx with rfl | rfl | rfl <;> norm_num [abs_le])
    (by intro x hx; simp at hx; rcases hx with rfl | rfl | rfl <;> norm_num [abs_le])
    (by norm_num) h
  simpa using this

example : sumSqDev ([1, 2, 4] : List ℚ) = 14 / 3 := by
  norm_num [sumSqDev, batchMean]

end Gpv.C05FloatVar

#print axioms Gpv.C05FloatVar.flVarRun_nil_iff
#print axioms Gpv.C05FloatVar.flVarRun_snoc_iff
#print axioms Gpv.C05FloatVar.var_float_exact
#print axioms Gpv.C05FloatVar.exact_var_run_possible
#print axioms Gpv.C05FloatVar.var_float_run_mono
#print axioms Gpv.C05FloatVar.var_run_mean
#print axioms Gpv.C05FloatVar.exact_value_possible
#print axioms Gpv.C05FloatVar.exact_W_eq
#print axioms Gpv.C05FloatVar.var_float_defect
#print axioms Gpv.C05FloatVar.var_float_error
#print axioms Gpv.C05FloatVar.var_float_defect_centered
#print axioms Gpv.C05FloatVar.value_error_of_defect
#print axioms Gpv.C05FloatVar.var_float_value_error
#print axioms Gpv.C05FloatVar.var_float_value_error_centered
#print axioms Gpv.C05FloatVar.var_float_value_rel_centered
#print axioms Gpv.C05FloatVar.flVarStep_of_deltas
