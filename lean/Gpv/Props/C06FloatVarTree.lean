/-
  C06, floating-point clause for MERGE TREES of `Variance` accumulators — a machine-checked
  rounding-error bound for the population variance `var.value` (and the mean) that results
  from merging the float Welford states of arbitrary chunks in an arbitrary binary tree.

  Model (Gpv/Proofs/FloatVarTree.lean, on top of FloatMean / FloatVar / FloatMerge /
  FloatVarMerge): every floating-point operation returns its exact result times `1 + δ`,
  `|δ| ≤ u` (`u` unit roundoff, `2^-53` for binary64), δ's arbitrary and independent; the
  integer counts are exact; no overflow/underflow.
  `FlVarTree u t a va` : `(a, va)` is a possible float (`mean.value`, `var.value`) of the
  merge tree `t : MTree K` (C06.lean; leaves are chunks `List K`):
    * a leaf is a float Welford run over its chunk (`FlVarRun`, 11 operations per observation);
    * a node merges its children as `Variance._accumulate_other` does — `dmean` from the two
      OLD float means, the variance by the ten operations of `FlVarMerge`, the mean by the five
      operations of `FlMerge` — on the children's float values and exact counts.
      (With `newn = 0` the source returns early; the relation then yields `(0, 0)` as well.)

  Notation: `N` observations in the tree, `S = Σ (x − x̄)²` over all of them (`sumSqDev`),
  `d = t.depth` (a leaf has depth 0), `L = t.maxLeaf` the longest chunk, `|x| ≤ M`,
      ε(L,d) = (1+6Lu)(1+u)^(3d) − 1                          (relative error of the float mean)
      T(L,0) = 58·L·u ,   T(L,d+1) = (1+u)⁴·T(L,d) + (1+u)⁸·(2ε(L,d) + ε(L,d)²) .

  Proved, for EVERY tree and EVERY possible float evaluation:

  * `flVarTree_leaf_iff`, `flVarTree_node_iff` (unfolding), `exact_tree_possible` (the exact
    `t.eval Variance.run Variance.merge` of C06 is a possible float evaluation, every `u ≥ 0`),
    `exact_is_the_float_tree` (`u = 0` forces it), `float_tree_mono`,
    `var_tree_mean_is_float_tree` (the mean component is a `FlTree`: all of C06Float applies).
  * `var_tree_float_defect`   (only `64·L·u ≤ 1`; NO smallness hypothesis on the depth)
        |N·va − S| ≤ ((1+u)^(4(d+1)) − 1)·S + N·T(L,d)·M²     and    |a − x̄| ≤ M·ε(L,d).
  * `var_tree_float_error`    |va − S/N| ≤ ((1+u)^(4(d+1)) − 1)·(S/N) + T(L,d)·M².
  * `abs_coeff_zero/_succ/_le_closed/_lin`, `rel_coeff_lin`: the recursion for `T`, the bound
        T(L,d) ≤ (1+u)^(4d)·(58Lu + d(1+u)⁸(2ε+ε²)), and for `64·L·u ≤ 1`, `64·d·u ≤ 1`
        T(L,d) ≤ (62·L + 16·d·(L+d))·u ,     (1+u)^(4(d+1)) − 1 ≤ (9/2)·(d+1)·u.
  * `var_tree_float_defect_lin`, `var_tree_float_error_lin`   (`64·L·u ≤ 1`, `64·d·u ≤ 1`)
        |va − S/N| ≤ (9/2)·(d+1)·u·(S/N) + (62·L + 16·d·(L+d))·u·M²
    — relative part 4.5·(d+1)·u, absolute part in terms of the DEPTH and the longest CHUNK
    only: neither the number of chunks nor the total number of observations `N` enters.
    (One Welford run over all `N` observations: `4u·(S/N) + 58·N·u·M²`, C05FloatVar; two merged
    streams: `9u·(S/N) + 62·N·u·M²`, C06FloatVar.  A balanced tree over `k` chunks of length `L`
    has `d = ⌈log₂ k⌉` and `N = k·L`; the streaming reduce `total += part` is the left comb,
    `d = k − 1`.)
  * `var_tree_float_vs_model`  the same against `(t.eval Variance.run Variance.merge).var.val`.
  * `var_tree_mean_float_error_lin`  |a − mean| ≤ 6·(L+d)·u·M  (C06Float, restated).
  * `four_chunks_var_float_error`  depth 2, explicitly.
  * `example`s over ℚ: a 3-leaf tree `(([1,2,3] ⊕ [4,6]) ⊕ [5])`, `u = 1/1000`, a genuinely
    perturbed evaluation different from the exact one, within the bound.

  Not proved here: a centred (`|x − c| ≤ R`) form (the leaves have one:
  `C05FloatVar.var_float_defect_centered`; the `dmean` step would need the centred mean bound);
  sharpness of the constants (`4(d+1)` roundings on the relative part is what the 4-rounding
  `.sum` path of `FlVarMerge` gives per level, cf. `C06FloatVar.var_merge_float_error_attained`
  for one merge; the absolute constants 62 and 16 are not claimed sharp); the read-out
  `.value = var·(n/(n−1))` after a tree (it is `C05FloatVar.value_error_of_defect` applied to
  `var_tree_float_defect`); `dmean ** 2` as `pow` with a libm that is not correctly rounded.
-/
import Gpv.Proofs.FloatVarTree
set_option linter.unusedSectionVars false

namespace Gpv.C06FloatVarTree
open Gpv Gpv.C06
variable {K : Type} [Field K] [LinearOrder K] [IsStrictOrderedRing K]

/-! ### 1. the model -/

/-- a leaf is a float Welford run over its chunk -/
theorem flVarTree_leaf_iff (u : K) (xs : List K) (a va : K) :
    FlVarTree u (.leaf xs) a va ↔ FlVarRun u xs a va := by
  constructor
  · intro h; cases h with | leaf hr => exact hr
  · exact FlVarTree.leaf

/-- a node merges the float states of its children: the mean by `FlMerge`, the variance by
    `FlVarMerge`, both on the children's float means/variances and exact counts -/
theorem flVarTree_node_iff (u : K) (l r : MTree K) (c vc : K) :
    FlVarTree u (.node l r) c vc ↔ ∃ a va b vb, FlVarTree u l a va ∧ FlVarTree u r b vb
      ∧ FlMerge u a l.flatten.length b r.flatten.length c
      ∧ FlVarMerge u a va l.flatten.length b vb r.flatten.length vc := by
  constructor
  · intro h; cases h with | node hl hr hm hv => exact ⟨_, _, _, _, hl, hr, hm, hv⟩
  · rintro ⟨a, va, b, vb, hl, hr, hm, hv⟩; exact FlVarTree.node hl hr hm hv

/-- the exact tree evaluation of C06 (`MTree.eval Variance.run Variance.merge`) is a possible
    float evaluation, for every `u ≥ 0` -/
theorem exact_tree_possible {u : K} (hu : 0 ≤ u) (t : MTree K) :
    FlVarTree u t (t.eval Variance.run Variance.merge).mean.val
      (t.eval Variance.run Variance.merge).var.val := by
  rw [variance_tree_eq]; exact FlVarTree.of_exact hu t

/-- and at `u = 0` the only one -/
theorem exact_is_the_float_tree (t : MTree K) (a va : K) :
    FlVarTree 0 t a va ↔ a = (t.eval Variance.run Variance.merge).mean.val
      ∧ va = (t.eval Variance.run Variance.merge).var.val := by
  rw [variance_tree_eq]; exact flVarTree_zero_iff t a va

/-- a larger unit roundoff allows more results -/
theorem float_tree_mono {u u' : K} (h : u ≤ u') {t : MTree K} {a va : K}
    (ht : FlVarTree u t a va) : FlVarTree u' t a va := ht.mono h

/-- the mean component of a variance tree is a mean tree: everything C06Float proves about
    `FlTree` applies to it -/
theorem var_tree_mean_is_float_tree {u : K} {t : MTree K} {a va : K} (ht : FlVarTree u t a va) :
    FlTree u t a := ht.mean_tree

/-- a tree without observations evaluates to `(0, 0)` -/
theorem empty_tree_float {u : K} {t : MTree K} {a va : K} (ht : FlVarTree u t a va)
    (he : t.flatten = []) : a = 0 ∧ va = 0 := ht.empty he

/-! ### 2. the coefficients -/

/-- leaves: `T(L,0) = 58·L·u` (the Welford bound `58·n²·u·M²` of C05FloatVar, per observation) -/
theorem abs_coeff_zero (u : K) (L : ℕ) : varTreeT u L 0 = 58 * (L : K) * u := rfl

/-- one more level: the children's `T` is amplified by the four roundings of the `.sum`
    path, and the error `M·ε` of the two float means enters through `dmean²` (eight roundings,
    weight `n·m/N² ≤ 1/4`) -/
theorem abs_coeff_succ (u : K) (L d : ℕ) :
    varTreeT u L (d + 1)
      = (1 + u) ^ 4 * varTreeT u L d
        + (1 + u) ^ 8 * (2 * ((1 + 6 * (L : K) * u) * (1 + u) ^ (3 * d) - 1)
            + ((1 + 6 * (L : K) * u) * (1 + u) ^ (3 * d) - 1) ^ 2) := rfl

/-- closed upper bound, no smallness hypothesis -/
theorem abs_coeff_le_closed {u : K} (hu : 0 ≤ u) (L d : ℕ) :
    varTreeT u L d
      ≤ (1 + u) ^ (4 * d)
        * (58 * (L : K) * u + (d : K) * (1 + u) ^ 8
            * (2 * ((1 + 6 * (L : K) * u) * (1 + u) ^ (3 * d) - 1)
                + ((1 + 6 * (L : K) * u) * (1 + u) ^ (3 * d) - 1) ^ 2)) :=
  varTreeT_le_closed hu L d

/-- linearised: `T(L,d) ≤ (62·L + 16·d·(L+d))·u` for `64·L·u ≤ 1`, `64·d·u ≤ 1` -/
theorem abs_coeff_lin {u : K} (hu : 0 ≤ u) (L d : ℕ) (hL : 64 * (L : K) * u ≤ 1)
    (hd : 64 * (d : K) * u ≤ 1) :
    varTreeT u L d ≤ (62 * (L : K) + 16 * (d : K) * ((L : K) + (d : K))) * u :=
  varTreeT_lin hu L d hL hd

/-- linearised relative part: `(1+u)^(4(d+1)) − 1 ≤ (9/2)·(d+1)·u` -/
theorem rel_coeff_lin {u : K} (hu : 0 ≤ u) (d : ℕ) (hu64 : 64 * u ≤ 1) (hd : 64 * (d : K) * u ≤ 1) :
    (1 + u) ^ (4 * (d + 1)) - 1 ≤ 9 / 2 * ((d : K) + 1) * u :=
  varTreeA_lin hu d hu64 hd

theorem abs_coeff_nonneg {u : K} (hu : 0 ≤ u) (L d : ℕ) : 0 ≤ varTreeT u L d :=
  varTreeT_nonneg hu L d

theorem abs_coeff_mono {u : K} (hu : 0 ≤ u) {L L' d d' : ℕ} (hL : L ≤ L') (hd : d ≤ d') :
    varTreeT u L d ≤ varTreeT u L' d' := varTreeT_mono hu hL hd

/-! ### 3. the bounds -/

/-- **merge tree, division-free.**  Every possible float evaluation `(a, va)` of every merge
    tree over data `|x| ≤ M` whose chunks satisfy `64·L·u ≤ 1`:
    `|N·va − S| ≤ ((1+u)^(4(d+1)) − 1)·S + N·T(L,d)·M²` and `|a − x̄| ≤ M·((1+6Lu)(1+u)^(3d) − 1)`.
    No hypothesis on the depth. -/
theorem var_tree_float_defect {u M : K} (hu : 0 ≤ u) (hM : 0 ≤ M) {t : MTree K} {a va : K}
    (h : FlVarTree u t a va) (hx : ∀ x ∈ t.flatten, |x| ≤ M)
    (hsmall : 64 * (t.maxLeaf : K) * u ≤ 1) :
    |(t.flatten.length : K) * va - sumSqDev t.flatten|
        ≤ ((1 + u) ^ (4 * (t.depth + 1)) - 1) * sumSqDev t.flatten
          + (t.flatten.length : K) * varTreeT u t.maxLeaf t.depth * M ^ 2
      ∧ |a - (Variance.run t.flatten).mean.val|
        ≤ M * ((1 + 6 * (t.maxLeaf : K) * u) * (1 + u) ^ (3 * t.depth) - 1) :=
  ⟨h.inv hu hM hx hsmall, h.mean_error hu hM hx (by
    have : 0 ≤ (t.maxLeaf : K) * u := mul_nonneg (Nat.cast_nonneg _) hu
    linarith)⟩

/-- `64·u ≤ 1` from the chunk hypothesis, for trees with observations -/
theorem u64_of_tree_small {u : K} (hu : 0 ≤ u) {t : MTree K} (hne : t.flatten ≠ [])
    (hsmall : 64 * (t.maxLeaf : K) * u ≤ 1) : 64 * u ≤ 1 := by
  have h1 : (1 : K) ≤ (t.maxLeaf : K) := by exact_mod_cast t.maxLeaf_pos hne
  have : 64 * u * 1 ≤ 64 * u * (t.maxLeaf : K) := mul_le_mul_of_nonneg_left h1 (by positivity)
  linarith

/-- **merge tree, division-free, linearised** (`64·L·u ≤ 1`, `64·d·u ≤ 1`):
    `|N·va − S| ≤ (9/2)(d+1)·u·S + N·(62·L + 16·d·(L+d))·u·M²` -/
theorem var_tree_float_defect_lin {u M : K} (hu : 0 ≤ u) (hM : 0 ≤ M) {t : MTree K} {a va : K}
    (h : FlVarTree u t a va) (hne : t.flatten ≠ []) (hx : ∀ x ∈ t.flatten, |x| ≤ M)
    (hsmall : 64 * (t.maxLeaf : K) * u ≤ 1) (hdepth : 64 * (t.depth : K) * u ≤ 1) :
    |(t.flatten.length : K) * va - sumSqDev t.flatten|
      ≤ 9 / 2 * ((t.depth : K) + 1) * u * sumSqDev t.flatten
        + (t.flatten.length : K)
          * ((62 * (t.maxLeaf : K) + 16 * (t.depth : K) * ((t.maxLeaf : K) + (t.depth : K))) * u)
          * M ^ 2 := by
  have hd := (var_tree_float_defect hu hM h hx hsmall).1
  have hS := C05FloatVar.sumSqDev_nonneg t.flatten
  have hN0 : (0 : K) ≤ (t.flatten.length : K) := Nat.cast_nonneg _
  have hα := varTreeA_lin hu t.depth (u64_of_tree_small hu hne hsmall) hdepth
  have hτ := varTreeT_lin hu t.maxLeaf t.depth hsmall hdepth
  refine hd.trans (add_le_add (mul_le_mul_of_nonneg_right hα hS) ?_)
  exact mul_le_mul_of_nonneg_right (mul_le_mul_of_nonneg_left hτ hN0) (sq_nonneg M)

/-- **merge tree**: the error of the population variance `var.value`,
    `|va − S/N| ≤ ((1+u)^(4(d+1)) − 1)·(S/N) + T(L,d)·M²` -/
theorem var_tree_float_error {u M : K} (hu : 0 ≤ u) (hM : 0 ≤ M) {t : MTree K} {a va : K}
    (h : FlVarTree u t a va) (hne : t.flatten ≠ []) (hx : ∀ x ∈ t.flatten, |x| ≤ M)
    (hsmall : 64 * (t.maxLeaf : K) * u ≤ 1) :
    |va - sumSqDev t.flatten / (t.flatten.length : K)|
      ≤ ((1 + u) ^ (4 * (t.depth + 1)) - 1) * (sumSqDev t.flatten / (t.flatten.length : K))
        + varTreeT u t.maxLeaf t.depth * M ^ 2 := by
  have hN : (0 : K) < (t.flatten.length : K) := Nat.cast_pos.mpr (List.length_pos_iff.mpr hne)
  have hd := (var_tree_float_defect hu hM h hx hsmall).1
  refine (abs_sub_div_le_of_defect hN hd).trans (le_of_eq ?_)
  field_simp

/-- **merge tree, linearised.**  For `64·L·u ≤ 1` and `64·d·u ≤ 1`:
    `|va − S/N| ≤ (9/2)·(d+1)·u·(S/N) + (62·L + 16·d·(L+d))·u·M²`
    — the bound grows with the DEPTH of the tree and the longest CHUNK, not with the number of
    chunks (nor with the total number of observations) -/
theorem var_tree_float_error_lin {u M : K} (hu : 0 ≤ u) (hM : 0 ≤ M) {t : MTree K} {a va : K}
    (h : FlVarTree u t a va) (hne : t.flatten ≠ []) (hx : ∀ x ∈ t.flatten, |x| ≤ M)
    (hsmall : 64 * (t.maxLeaf : K) * u ≤ 1) (hdepth : 64 * (t.depth : K) * u ≤ 1) :
    |va - sumSqDev t.flatten / (t.flatten.length : K)|
      ≤ 9 / 2 * ((t.depth : K) + 1) * u * (sumSqDev t.flatten / (t.flatten.length : K))
        + (62 * (t.maxLeaf : K) + 16 * (t.depth : K) * ((t.maxLeaf : K) + (t.depth : K))) * u
          * M ^ 2 := by
  have hN : (0 : K) < (t.flatten.length : K) := Nat.cast_pos.mpr (List.length_pos_iff.mpr hne)
  have hd := var_tree_float_defect_lin hu hM h hne hx hsmall hdepth
  refine (abs_sub_div_le_of_defect hN hd).trans (le_of_eq ?_)
  field_simp

/-- the exact `var.val` of C06's tree evaluation is `S/N` -/
theorem model_tree_var (t : MTree K) (hne : t.flatten ≠ []) :
    (t.eval Variance.run Variance.merge).var.val
      = sumSqDev t.flatten / (t.flatten.length : K) := by
  rw [variance_tree_eq]; exact C05.rms_eq t.flatten hne

/-- **against the model**: the same bound against the `var.val` of the exact tree evaluation
    `t.eval Variance.run Variance.merge` — the function C06 (`variance_tree_eq`) proves equal
    to accumulating all observations -/
theorem var_tree_float_vs_model {u M : K} (hu : 0 ≤ u) (hM : 0 ≤ M) {t : MTree K} {a va : K}
    (h : FlVarTree u t a va) (hne : t.flatten ≠ []) (hx : ∀ x ∈ t.flatten, |x| ≤ M)
    (hsmall : 64 * (t.maxLeaf : K) * u ≤ 1) (hdepth : 64 * (t.depth : K) * u ≤ 1) :
    |va - (t.eval Variance.run Variance.merge).var.val|
      ≤ 9 / 2 * ((t.depth : K) + 1) * u * (t.eval Variance.run Variance.merge).var.val
        + (62 * (t.maxLeaf : K) + 16 * (t.depth : K) * ((t.maxLeaf : K) + (t.depth : K))) * u
          * M ^ 2 := by
  rw [model_tree_var t hne]
  exact var_tree_float_error_lin hu hM h hne hx hsmall hdepth

/-- the closed form against the model (no hypothesis on the depth) -/
theorem var_tree_float_vs_model_closed {u M : K} (hu : 0 ≤ u) (hM : 0 ≤ M) {t : MTree K}
    {a va : K} (h : FlVarTree u t a va) (hne : t.flatten ≠ []) (hx : ∀ x ∈ t.flatten, |x| ≤ M)
    (hsmall : 64 * (t.maxLeaf : K) * u ≤ 1) :
    |va - (t.eval Variance.run Variance.merge).var.val|
      ≤ ((1 + u) ^ (4 * (t.depth + 1)) - 1) * (t.eval Variance.run Variance.merge).var.val
        + varTreeT u t.maxLeaf t.depth * M ^ 2 := by
  rw [model_tree_var t hne]
  exact var_tree_float_error hu hM h hne hx hsmall

/-- the mean of a variance tree (C06Float `tree_float_error_lin`, restated):
    `|a − mean| ≤ 6·(L + d)·u·M` -/
theorem var_tree_mean_float_error_lin {u M : K} (hu : 0 ≤ u) (hM : 0 ≤ M) {t : MTree K}
    {a va : K} (h : FlVarTree u t a va) (hne : t.flatten ≠ []) (hx : ∀ x ∈ t.flatten, |x| ≤ M)
    (hsmall : 8 * (t.maxLeaf : K) * u ≤ 1) (hdepth : 21 * (t.depth : K) * u ≤ 1) :
    |a - t.flatten.sum / (t.flatten.length : K)|
      ≤ 6 * ((t.maxLeaf : K) + (t.depth : K)) * u * M :=
  C06Float.tree_float_error_lin hu hM h.mean_tree hne hx hsmall hdepth

/-- and against the `mean.val` of the exact tree evaluation -/
theorem var_tree_mean_float_vs_model {u M : K} (hu : 0 ≤ u) (hM : 0 ≤ M) {t : MTree K}
    {a va : K} (h : FlVarTree u t a va) (hx : ∀ x ∈ t.flatten, |x| ≤ M)
    (hsmall : 8 * (t.maxLeaf : K) * u ≤ 1) :
    |a - (t.eval Variance.run Variance.merge).mean.val|
      ≤ M * ((1 + 6 * (t.maxLeaf : K) * u) * (1 + u) ^ (3 * t.depth) - 1) := by
  rw [variance_tree_eq]; exact h.mean_error hu hM hx hsmall

/-- depth 2, explicitly: four chunks merged pairwise, then the two halves -/
theorem four_chunks_var_float_error {u M : K} (hu : 0 ≤ u) (hM : 0 ≤ M) {c1 c2 c3 c4 : List K}
    (hne : c1 ++ c2 ++ (c3 ++ c4) ≠ [])
    (hx : ∀ x ∈ c1 ++ c2 ++ (c3 ++ c4), |x| ≤ M)
    (hsmall : 64 * ((max (max c1.length c2.length) (max c3.length c4.length) : ℕ) : K) * u ≤ 1)
    (hu128 : 128 * u ≤ 1) {a va : K}
    (h : FlVarTree u (.node (.node (.leaf c1) (.leaf c2)) (.node (.leaf c3) (.leaf c4))) a va) :
    |va - sumSqDev (c1 ++ c2 ++ (c3 ++ c4)) / ((c1 ++ c2 ++ (c3 ++ c4)).length : K)|
      ≤ 27 / 2 * u * (sumSqDev (c1 ++ c2 ++ (c3 ++ c4)) / ((c1 ++ c2 ++ (c3 ++ c4)).length : K))
        + (94 * ((max (max c1.length c2.length) (max c3.length c4.length) : ℕ) : K) + 64) * u
          * M ^ 2 := by
  have := var_tree_float_error_lin hu hM h hne hx hsmall
    (by simp only [MTree.depth]; norm_num; linarith)
  simp only [MTree.depth, MTree.maxLeaf, MTree.flatten, max_self, zero_add] at this
  refine this.trans (le_of_eq ?_)
  push_cast
  ring

/-! ### 4. non-vacuity over ℚ: `u = 1/1000`, the tree `(([1,2,3] ⊕ [4,6]) ⊕ [5])`
    (depth 2, longest chunk 3, `M = 6`); exact: mean `7/2`, `S = 35/2`, `S/N = 35/12` -/

example : sumSqDev ([1, 2, 3, 4, 6, 5] : List ℚ) = 35 / 2 := by
  norm_num [sumSqDev, batchMean]

example : ((MTree.node (.node (.leaf [1, 2, 3]) (.leaf [4, 6])) (.leaf [(5 : ℚ)])).eval
    Variance.run Variance.merge).var.val = 35 / 12 := by
  rw [model_tree_var _ (by simp [MTree.flatten])]
  norm_num [MTree.flatten, sumSqDev, batchMean]

/-- the exact leaf states, as float runs -/
theorem ex_leaf1 : FlVarRun (1 / 1000 : ℚ) [1, 2, 3] 2 (2 / 3) := by
  have := FlVarRun.of_exact (u := (1 / 1000 : ℚ)) (by norm_num) [1, 2, 3]
  have e : (Variance.run ([1, 2, 3] : List ℚ)).mean.val = 2
      ∧ (Variance.run ([1, 2, 3] : List ℚ)).var.val = 2 / 3 := by
    norm_num [Variance.run, Variance.push, Mean.push, Variance.init, Mean.init]
  rwa [e.1, e.2] at this

theorem ex_leaf2 : FlVarRun (1 / 1000 : ℚ) [4, 6] 5 1 := by
  have := FlVarRun.of_exact (u := (1 / 1000 : ℚ)) (by norm_num) [4, 6]
  have e : (Variance.run ([4, 6] : List ℚ)).mean.val = 5
      ∧ (Variance.run ([4, 6] : List ℚ)).var.val = 1 := by
    norm_num [Variance.run, Variance.push, Mean.push, Variance.init, Mean.init]
  rwa [e.1, e.2] at this

theorem ex_leaf3 : FlVarRun (1 / 1000 : ℚ) [5] 5 0 := by
  have := FlVarRun.of_exact (u := (1 / 1000 : ℚ)) (by norm_num) [5]
  have e : (Variance.run ([5] : List ℚ)).mean.val = 5
      ∧ (Variance.run ([5] : List ℚ)).var.val = 0 := by
    norm_num [Variance.run, Variance.push, Mean.push, Variance.init, Mean.init]
  rwa [e.1, e.2] at this

/-- the inner node, merged exactly: mean `16/5`, population variance `74/25`, 5 observations -/
theorem ex_inner : FlVarTree (1 / 1000 : ℚ) (.node (.leaf [1, 2, 3]) (.leaf [4, 6])) (16 / 5) (74 / 25) := by
  have hm := FlMerge.of_exact (u := (1 / 1000 : ℚ)) (by norm_num) 2 3 5 2
  have hv := FlVarMerge.of_exact (u := (1 / 1000 : ℚ)) (by norm_num) 2 (2 / 3) 3 5 1 2
  have e1 : mergeVal (2 : ℚ) 3 5 2 = 16 / 5 := by norm_num [mergeVal]
  have e2 : varMergeVal (2 : ℚ) (2 / 3) 3 5 1 2 = 74 / 25 := by norm_num [varMergeVal]
  rw [e1] at hm
  rw [e2] at hv
  exact FlVarTree.node (FlVarTree.leaf ex_leaf1) (FlVarTree.leaf ex_leaf2) hm hv

/-- a genuinely perturbed evaluation of the 3-leaf tree (both merges of the root rounded with
    δ = ±1/1000): different from the exact `(7/2, 35/12)`, within the bound of
    `var_tree_float_error_lin` -/
example : ∃ a va : ℚ,
    FlVarTree (1 / 1000) (.node (.node (.leaf [1, 2, 3]) (.leaf [4, 6])) (.leaf [5])) a va
      ∧ a ≠ 7 / 2 ∧ va ≠ 35 / 12 ∧ 0 < |va - 35 / 12|
      ∧ |va - 35 / 12| ≤ 9 / 2 * (2 + 1) * (1 / 1000) * (35 / 12)
          + (62 * 3 + 16 * 2 * (3 + 2)) * (1 / 1000) * 6 ^ 2
      ∧ |a - 7 / 2| ≤ 6 * (3 + 2) * (1 / 1000) * 6 := by
  have hm := flMerge_of_deltas (u := (1 / 1000 : ℚ)) (16 / 5) 5 5 1
    (1 / 1000) (-1 / 1000) (1 / 1000) (1 / 1000) (-1 / 1000)
    (by norm_num [abs_le]) (by norm_num [abs_le]) (by norm_num [abs_le]) (by norm_num [abs_le])
    (by norm_num [abs_le])
  have hv := flVarMerge_of_deltas (u := (1 / 1000 : ℚ)) (16 / 5) (74 / 25) 5 5 0 1
    (1 / 1000) (-1 / 1000) (1 / 1000) (1 / 1000) (1 / 1000) (1 / 1000) (-1 / 1000) (1 / 1000)
    (1 / 1000) (1 / 1000)
    (by norm_num [abs_le]) (by norm_num [abs_le]) (by norm_num [abs_le]) (by norm_num [abs_le])
    (by norm_num [abs_le]) (by norm_num [abs_le]) (by norm_num [abs_le]) (by norm_num [abs_le])
    (by norm_num [abs_le]) (by norm_num [abs_le])
  refine ⟨_, _, FlVarTree.node ex_inner (FlVarTree.leaf ex_leaf3) hm hv, ?_, ?_, ?_, ?_, ?_⟩
    <;> norm_num [abs_le]

/-- and the theorems apply to EVERY float evaluation of that tree: `64·3/1000 ≤ 1`,
    `64·2/1000 ≤ 1`, `|x| ≤ 6` -/
example (a va : ℚ)
    (h : FlVarTree (1 / 1000) (.node (.node (.leaf [1, 2, 3]) (.leaf [4, 6])) (.leaf [5])) a va) :
    |va - 35 / 12| ≤ 9 / 2 * (2 + 1) * (1 / 1000) * (35 / 12)
        + (62 * 3 + 16 * 2 * (3 + 2)) * (1 / 1000) * 6 ^ 2 := by
  have := var_tree_float_error_lin (u := (1 / 1000 : ℚ)) (M := 6) (by norm_num) (by norm_num) h
    (by simp [MTree.flatten])
    (by
      intro x hx
      simp [MTree.flatten] at hx
      rcases hx with rfl | rfl | rfl | rfl | rfl | rfl <;> norm_num [abs_le])
    (by simp [MTree.maxLeaf]; norm_num) (by simp [MTree.depth]; norm_num)
  have hS : sumSqDev ([1, 2, 3, 4, 6, 5] : List ℚ) = 35 / 2 := by norm_num [sumSqDev, batchMean]
  simp only [MTree.flatten, MTree.maxLeaf, MTree.depth, List.cons_append, List.nil_append,
    List.length_cons, List.length_nil, hS] at this
  norm_num at this ⊢
  exact this

/-- the closed form (no linearisation) on the same tree, division-free -/
example (a va : ℚ)
    (h : FlVarTree (1 / 1000) (.node (.node (.leaf [1, 2, 3]) (.leaf [4, 6])) (.leaf [5])) a va) :
    |6 * va - 35 / 2| ≤ ((1 + 1 / 1000) ^ 12 - 1) * (35 / 2) + 6 * varTreeT (1 / 1000) 3 2 * 6 ^ 2 := by
  have := (var_tree_float_defect (u := (1 / 1000 : ℚ)) (M := 6) (by norm_num) (by norm_num) h
    (by
      intro x hx
      simp [MTree.flatten] at hx
      rcases hx with rfl | rfl | rfl | rfl | rfl | rfl <;> norm_num [abs_le])
    (by simp [MTree.maxLeaf]; norm_num)).1
  have hS : sumSqDev ([1, 2, 3, 4, 6, 5] : List ℚ) = 35 / 2 := by norm_num [sumSqDev, batchMean]
  simp only [MTree.flatten, MTree.maxLeaf, MTree.depth, List.cons_append, List.nil_append,
    List.length_cons, List.length_nil, hS] at this
  norm_num at this ⊢
  exact this

end Gpv.C06FloatVarTree

#print axioms Gpv.C06FloatVarTree.flVarTree_leaf_iff
#print axioms Gpv.C06FloatVarTree.flVarTree_node_iff
#print axioms Gpv.C06FloatVarTree.exact_tree_possible
#print axioms Gpv.C06FloatVarTree.exact_is_the_float_tree
#print axioms Gpv.C06FloatVarTree.float_tree_mono
#print axioms Gpv.C06FloatVarTree.var_tree_mean_is_float_tree
#print axioms Gpv.C06FloatVarTree.empty_tree_float
#print axioms Gpv.C06FloatVarTree.abs_coeff_zero
#print axioms Gpv.C06FloatVarTree.abs_coeff_succ
#print axioms Gpv.C06FloatVarTree.abs_coeff_le_closed
#print axioms Gpv.C06FloatVarTree.abs_coeff_lin
#print axioms Gpv.C06FloatVarTree.rel_coeff_lin
#print axioms Gpv.C06FloatVarTree.abs_coeff_nonneg
#print axioms Gpv.C06FloatVarTree.abs_coeff_mono
#print axioms Gpv.C06FloatVarTree.var_tree_float_defect
#print axioms Gpv.C06FloatVarTree.u64_of_tree_small
#print axioms Gpv.C06FloatVarTree.var_tree_float_defect_lin
#print axioms Gpv.C06FloatVarTree.var_tree_float_error
#print axioms Gpv.C06FloatVarTree.var_tree_float_error_lin
#print axioms Gpv.C06FloatVarTree.model_tree_var
#print axioms Gpv.C06FloatVarTree.var_tree_float_vs_model
#print axioms Gpv.C06FloatVarTree.var_tree_float_vs_model_closed
#print axioms Gpv.C06FloatVarTree.var_tree_mean_float_error_lin
#print axioms Gpv.C06FloatVarTree.var_tree_mean_float_vs_model
#print axioms Gpv.C06FloatVarTree.four_chunks_var_float_error
#print axioms Gpv.C06FloatVarTree.ex_leaf1
#print axioms Gpv.C06FloatVarTree.ex_leaf2
#print axioms Gpv.C06FloatVarTree.ex_leaf3
#print axioms Gpv.C06FloatVarTree.ex_inner
