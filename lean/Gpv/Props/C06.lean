/-
  C06 — merging partial accumulators = accumulating everything; an empty operand
  is neutral on either side; non-mergeable kinds refuse with NotImplementedError.
  States are compared as states (`=`), for every field of characteristic 0.
-/
import Gpv.Proofs.MergeAlg
import Gpv.Props.C05
set_option linter.unusedSectionVars false

namespace Gpv.C06
open Gpv
variable {K : Type} [Field K] [CharZero K]

/-! ### one merge = concatenation -/
def counterRun {α : Type} (xs : List α) : Counter := xs.foldl (fun s _ => s.push) Counter.init

theorem counter_merge_eq {α : Type} (xs ys : List α) :
    (counterRun xs).merge (counterRun ys) = counterRun (xs ++ ys) := by
  have h := fun (l : List α) => C05.counter_eq l
  simp only [counterRun] at *
  cases h1 : List.foldl (fun s (_ : α) => s.push) Counter.init xs
  cases h2 : List.foldl (fun s (_ : α) => s.push) Counter.init ys
  cases h3 : List.foldl (fun s (_ : α) => s.push) Counter.init (xs ++ ys)
  have a := h xs; have b := h ys; have c := h (xs ++ ys)
  rw [h1] at a; rw [h2] at b; rw [h3] at c
  simp_all [Counter.merge]

theorem mean_merge_eq (xs ys : List K) : (Mean.run xs).merge (Mean.run ys) = Mean.run (xs ++ ys) :=
  Mean.merge_run xs ys
theorem variance_merge_eq (xs ys : List K) :
    (Variance.run xs).merge (Variance.run ys) = Variance.run (xs ++ ys) := Variance.merge_run xs ys
theorem cov_merge_eq (ps qs : List (K × K)) :
    (Cov2.run ps).merge (Cov2.run qs) = Cov2.run (ps ++ qs) := Cov2.merge_run ps qs

/-! ### the empty accumulator is neutral on either side -/
theorem mean_merge_empty_left (ys : List K) : (Mean.init : Mean K).merge (Mean.run ys) = Mean.run ys := by
  simpa using Mean.merge_run ([] : List K) ys
theorem mean_merge_empty_right (xs : List K) : (Mean.run xs).merge Mean.init = Mean.run xs := by
  simpa using Mean.merge_run xs ([] : List K)
theorem variance_merge_empty_left (ys : List K) :
    (Variance.init : Variance K).merge (Variance.run ys) = Variance.run ys := by
  simpa using Variance.merge_run ([] : List K) ys
theorem variance_merge_empty_right (xs : List K) :
    (Variance.run xs).merge Variance.init = Variance.run xs := by
  simpa using Variance.merge_run xs ([] : List K)

section order
variable {L : Type} [LinearOrder L]

theorem ext_merge_aux (op : L → L → L) (hop : ∀ a b c, op (op a b) c = op a (op b c))
    (xs ys : List L) :
    Extremum.merge op (xs.foldl (Extremum.push op) Extremum.init)
        (ys.foldl (Extremum.push op) Extremum.init)
      = (xs ++ ys).foldl (Extremum.push op) Extremum.init := by
  have hx := C05.ext_run_aux op xs Extremum.init
  have hy := C05.ext_run_aux op ys Extremum.init
  have hxy := C05.ext_run_aux op (xs ++ ys) Extremum.init
  have assoc : ∀ (l : List L) (a b : L), op a (l.foldl op b) = l.foldl op (op a b) := by
    intro l; induction l with
    | nil => intro a b; rfl
    | cons c l ih => intro a b; simp only [List.foldl_cons]; rw [ih, hop]
  cases h1 : xs.foldl (Extremum.push op) Extremum.init with | mk a1 n1 =>
  cases h2 : ys.foldl (Extremum.push op) Extremum.init with | mk a2 n2 =>
  cases h3 : (xs ++ ys).foldl (Extremum.push op) Extremum.init with | mk a3 n3 =>
  rw [h1] at hx; rw [h2] at hy; rw [h3] at hxy
  simp only [Extremum.init, Nat.zero_add] at hx hy hxy
  obtain ⟨hx1, hx2⟩ := hx; obtain ⟨hy1, hy2⟩ := hy; obtain ⟨hz1, hz2⟩ := hxy
  subst hx1 hy1 hz1 hx2 hy2 hz2
  rcases xs with _ | ⟨x, t⟩ <;> rcases ys with _ | ⟨y, u⟩
  · simp [Extremum.merge]
  · simp [Extremum.merge]
  · simp [Extremum.merge]
  · simp only [Extremum.merge, List.length_cons, List.cons_append, List.length_append, List.foldl_append,
      List.foldl_cons]
    rw [assoc]
    congr 1; omega

theorem kmin_assoc (a b c : L) : kmin (kmin a b) c = kmin a (kmin b c) := by
  simp only [C05.kmin_eq, min_assoc]
theorem kmax_assoc (a b c : L) : kmax (kmax a b) c = kmax a (kmax b c) := by
  simp only [C05.kmax_eq, max_assoc]

theorem min_merge_eq (xs ys : List L) :
    Extremum.merge kmin (C05.minRun xs) (C05.minRun ys) = C05.minRun (xs ++ ys) :=
  ext_merge_aux kmin kmin_assoc xs ys
theorem max_merge_eq (xs ys : List L) :
    Extremum.merge kmax (C05.maxRun xs) (C05.maxRun ys) = C05.maxRun (xs ++ ys) :=
  ext_merge_aux kmax kmax_assoc xs ys
end order

/-! ### every binary merge tree over every partition -/
inductive MTree (α : Type) where
  | leaf (xs : List α)
  | node (l r : MTree α)

def MTree.flatten {α : Type} : MTree α → List α
  | .leaf xs => xs
  | .node l r => l.flatten ++ r.flatten

def MTree.eval {α σ : Type} (run : List α → σ) (merge : σ → σ → σ) : MTree α → σ
  | .leaf xs => run xs
  | .node l r => merge (l.eval run merge) (r.eval run merge)

theorem tree_eq_generic {α σ : Type} (run : List α → σ) (merge : σ → σ → σ)
    (h : ∀ xs ys, merge (run xs) (run ys) = run (xs ++ ys)) (t : MTree α) :
    t.eval run merge = run t.flatten := by
  induction t with
  | leaf xs => rfl
  | node l r ihl ihr => simp only [MTree.eval, MTree.flatten, ihl, ihr, h]

theorem mean_tree_eq (t : MTree K) : t.eval Mean.run Mean.merge = Mean.run t.flatten :=
  tree_eq_generic _ _ Mean.merge_run t
theorem variance_tree_eq (t : MTree K) : t.eval Variance.run Variance.merge = Variance.run t.flatten :=
  tree_eq_generic _ _ Variance.merge_run t
theorem cov_tree_eq (t : MTree (K × K)) : t.eval Cov2.run Cov2.merge = Cov2.run t.flatten :=
  tree_eq_generic _ _ Cov2.merge_run t
theorem counter_tree_eq {α : Type} (t : MTree α) : t.eval counterRun Counter.merge = counterRun t.flatten :=
  tree_eq_generic _ _ counter_merge_eq t
theorem min_tree_eq {L : Type} [LinearOrder L] (t : MTree L) :
    t.eval C05.minRun (Extremum.merge kmin) = C05.minRun t.flatten :=
  tree_eq_generic _ _ min_merge_eq t
theorem max_tree_eq {L : Type} [LinearOrder L] (t : MTree L) :
    t.eval C05.maxRun (Extremum.merge kmax) = C05.maxRun t.flatten :=
  tree_eq_generic _ _ max_merge_eq t

/-! ### refusal -/
theorem refuse {σ : Type} (k : AccKind) (hk : k.mergeable = false) (merge : σ → σ → σ) (s o : σ) :
    k.mergeOutcome merge s o = (.error .notImplemented, s) := by
  simp [AccKind.mergeOutcome, hk]

theorem refuse_kinds :
    ∀ k : AccKind, k ∈ [AccKind.runningMean, .runningVariance, .runningCovariance, .reservoirSampling,
      .cdfEstimator, .quantileEstimator, .medianEstimator, .binSorter, .dynamicBinSorter] →
      k.mergeable = false := by decide

theorem mergeable_kinds :
    ∀ k : AccKind, k ∈ [AccKind.counter, .minimum, .maximum, .mean, .variance, .covariance] →
      k.mergeable = true := by decide

/-! ### the pinned tree (before the `fix:` commits) raised on empty operands:
    these are the counterexamples that were replayed on the real code (DESIGN §7). -/
theorem pinned_mean_merge_empty_raises :
    (Mean.init : Mean K).mergeRaw Mean.init = .error .zeroDiv := by
  simp [Mean.mergeRaw, Mean.init]

theorem pinned_extremum_merge_empty_raises {L : Type} [LT L] [DecidableLT L] (op : L → L → L) (s : Extremum L) :
    Extremum.mergePinned op s Extremum.init = .error .typeErr
      ∧ Extremum.mergePinned op Extremum.init s = .error .typeErr := by
  cases s with | mk a n => cases a <;> simp [Extremum.mergePinned, Extremum.init]

/-! ### non-vacuity -/
example : (MTree.node (.leaf [1, 2]) (.node (.leaf []) (.leaf [(4 : ℚ)]))).eval Variance.run Variance.merge
    = Variance.run [1, 2, 4] := variance_tree_eq _

end Gpv.C06
