/-
  C17, floating-point clause for the RUNNING COVARIANCE — machine-checked rounding-error bounds
  for ONE ENTRY `(i, j)` of `RunningCovariance` (Python: `Covariance._accumulate_obj` acting on
  two `RunningMean`s — the vector `mean` and the matrix `_cov` — with the same lifetime):

      delta1 = obj - mean.acc                          -- OLD mean; component i is used
      mean.acc = mean.acc*(1 - a) + obj*a              -- a = max(alpha, 1/n'); components i and j
      delta2 = obj - mean.acc                          -- NEW mean; component j is used
      q        = delta1[i] * delta2[j]                 -- entry (i, j) of np.outer(delta1, delta2)
      _cov.acc[i,j] = _cov.acc[i,j]*(1 - a) + q*a      -- same a (same alpha, same count)

  EXACT REFERENCE: the model's `RunningCovariance` is array valued (`RCovarianceV`, over `Val K`);
  the statements here are tied to its two-component scalar instance `RCov2` (Gpv/Model/Running.lean,
  `RCov2.push s x y` with `x = obj[i]`, `y = obj[j]`; `C17.rcrun`), i.e. to the entry `(i, j)`
  computed from the components `i` and `j` alone — the entries of the matrix do not interact.
  They are NOT tied to `RCovarianceV` itself.

  Model (Gpv/Proofs/FloatRunningCov.lean, on top of FloatRunningVar / FloatRunning / FloatMean):
  every floating-point operation returns its exact result times `1 + δ`, `|δ| ≤ u` (`u` unit
  roundoff), δ's arbitrary and independent — fifteen roundings per observation and entry:
  `d1 = fl(xi − mi)`, the four of each of the two mean steps (`FlRStep`), `d2 = fl(xj − mj')`,
  `q = fl(d1·d2)`, the four of the `_cov` step (`FlRStep`).  Counts are exact.
  CHOICE (as in C17Float, C17FloatVar): the weight `a` of each step is GIVEN — the float the
  program holds after `max(alpha, 1/n')`, a number in `[0, 1]`, used as is by all accumulators —
  and the exact reference recursion uses the SAME weights; with the ideal weights `effA (1/l) n`
  the reference is literally `RCov2.push` folded (`exact_is_the_float_run`).  So the error of
  computing `alpha = 1/lifetime` and `1/n'` themselves, and overflow/underflow, are not part of
  these statements.
  `FlRCRun u mi₀ mj₀ c₀ ps mi mj c` : `(mi, mj, c)` is a possible state
       `(mean.acc[i], mean.acc[j], _cov.acc[i,j])` after the steps `ps = [(a₁,x₁,y₁), …]`;
  `FlRCov u l ps mi mj c`  : the same with the weights of `RunningCovariance(lifetime = l)` over
       the observation pairs `ps = [(x₁,y₁), …]` from `(0, 0, 0)`.

  Proved, for EVERY possible float run (`|xi|, |xj| ≤ M`), with bounds that do NOT depend on the
  number of observations (warm-up and decay phase alike — the running weights are a contraction):

  * `flRCStep_def`, `flRCRun_nil`, `flRCRun_cons`, `wcstep_def`, `wcrun_nil_def`, `wcrun_cons_def`
    unfolding lemmas; `exact_increment` (`= (1 − a)(xi − μi)(xj − μj)`, symmetric in `i, j`);
    `exact_run_possible` (the exact model run is a possible float run for every `u ≥ 0`),
    `exact_is_the_float_run` (`u = 0`: the only one), `float_run_mono` (monotone in `u`),
    `float_run_append`, `rcov_run_means` (both mean components are float running-mean runs).
  * `exact_rcov_bounds`     the exact model: `|mean_i|, |mean_j| ≤ M`, `|cov_ij| ≤ 4M²`.
  * `rcov_float_error_model`   lifetime `l ≥ 1`, `8·l·u ≤ 1`:
        `|mi − mean_i|, |mj − mean_j| ≤ 8·l·u·M`   and   `|c − cov_ij| ≤ 244·l·u·M²`
    for ANY number of observations — the constants of the running variance (`C17FloatVar`): the
    bound `(1+u)³(2M + Em)²` of the rounded increment and the bound of its error do not use the
    sign of the product.
    `rcov_float_error_model_tight`  the same under `64·l·u ≤ 1` with constants `5` and `52`.
    `rcov_float_error` / `rcov_float_error_tight`  natural lifetime `L`, against `C17.rcrun L ps`.
    `rcov_float_error_sharp`  weights in `[amin, 1]`, `4u < amin`, common start: the explicit steady
        states `Em = 4uM/(amin − 4u)`, `E = (4u·Mq + amin·G)/(amin − 4u)` with
        `Mq = rvMq u M Em = (1+u)³(2M + Em)²`, `G = rvG u M Em = ((1+u)³ − 1)·4M² + (1+u)³(4M·Em + Em²)`.
    `rcov_float_error_model_gen`  the same with the numerical bounds as parameters.
  * `rcov_float_bounded_model`   `|c| ≤ 4M²·(1 + 61·l·u)`, `|mi|, |mj| ≤ M·(1 + 8·l·u)` for ever
    (`_tight`: `13` and `5`).
  * the diagonal `xi = xj`: `rcov_diag_step` (with EQUAL mean components before and after, the
    covariance step IS the variance step `FlRVStep`), `rcov_diag` (every float `RunningVariance`
    run over `xs` is a float `RunningCovariance` run over `[(x, x), …]` with `mi = mj`),
    `rcov_diag_exact` (the exact entry on diagonal data is the exact running variance),
    `rcov_diag_means` (both mean components of ANY diagonal run are float running-mean runs over
    `xs`), `rcov_diag_var_bound` (hence the diagonal entry of any diagonal run — equal means or
    not — is within `244·l·u·M²` of the exact running VARIANCE).
    NOT true, hence not proved: that a diagonal covariance step literally is a variance step —
    the two mean steps of `RCov2.push` are separate operations with independent roundings, so
    `mi' ≠ mj'` is possible from `mi = mj`, `xi = xj` (`rcov_diag_strict`, an explicit step over ℚ).
    (In the array program the entry `(i, i)` reads ONE stored float `mean.acc[i]`; the
    two-component relation does not know that the components coincide.)
  * `rcov_float_warmup`     natural lifetime `L`, `n ≤ L`: the float `_cov.acc[i,j]` is within
        `244·L·u·M²` of the population covariance `Σ(x − x̄)(y − ȳ)/n` (what `Covariance` holds,
        C17), the float means within `8·L·u·M` of the batch means.
  * `rcov_float_value_error`   the read-out `_cov.acc * (n / (n − 1))` (`n ≥ 2`, two more
        roundings): `|r − value| ≤ n/(n−1) · 318·l·u·M²`.
  * `example`s over ℚ: `RunningCovariance(lifetime = 2)`, `ps = [(4,1), (2,5), (8,7)]`, `u = 1/1000`.

  NOT proved here: bounds with separate magnitudes `|xi| ≤ Mi`, `|xj| ≤ Mj` (take `M = max`);
  exact symmetry of the float matrix (false: entry `(i, j)` rounds `fl(xi − mi_old)·fl(xj − mj_new)`,
  entry `(j, i)` rounds `fl(xj − mj_old)·fl(xi − mi_new)`; both satisfy the bounds above against
  the same exact value, `exact_increment`); optimality of the order `O(l)` of the constants.
-/
import Gpv.Proofs.FloatRunningCov
import Gpv.Props.C17FloatVar
import Gpv.Props.C05FloatCov
set_option linter.unusedSectionVars false

namespace Gpv.C17FloatCov
open Gpv
variable {K : Type} [Field K] [LinearOrder K] [IsStrictOrderedRing K]

/-! ### 1. the model -/

theorem flRCStep_def (u a mi mj c xi xj mi' mj' c' : K) :
    FlRCStep u a mi mj c xi xj mi' mj' c' ↔ ∃ d1 d2 q : K, Rnd u (xi - mi) d1
      ∧ FlRStep u a mi xi mi' ∧ FlRStep u a mj xj mj' ∧ Rnd u (xj - mj') d2 ∧ Rnd u (d1 * d2) q
      ∧ FlRStep u a c q c' := Iff.rfl

theorem flRCRun_nil (u mi mj c mi' mj' c' : K) :
    FlRCRun u mi mj c [] mi' mj' c' ↔ mi' = mi ∧ mj' = mj ∧ c' = c := Iff.rfl

theorem flRCRun_cons (u mi mj c a xi xj : K) (ps : List (K × K × K)) (mi' mj' c' : K) :
    FlRCRun u mi mj c ((a, xi, xj) :: ps) mi' mj' c'
      ↔ ∃ mi1 mj1 c1, FlRCStep u a mi mj c xi xj mi1 mj1 c1
          ∧ FlRCRun u mi1 mj1 c1 ps mi' mj' c' := Iff.rfl

/-- the exact step: `μi' = μi(1−a) + xi·a`, `μj' = μj(1−a) + xj·a`,
    `w' = w(1−a) + (xi − μi)(xj − μj')·a` — the product uses the OLD mean of component `i` in the
    first factor and the NEW mean of component `j` in the second -/
theorem wcstep_def (a μi μj w xi xj : K) :
    wcstep a μi μj w xi xj = (μi * (1 - a) + xi * a, μj * (1 - a) + xj * a,
      w * (1 - a) + (xi - μi) * (xj - (μj * (1 - a) + xj * a)) * a) := rfl

theorem wcrun_nil_def (μi μj w : K) : wcrun μi μj w [] = (μi, μj, w) := rfl

theorem wcrun_cons_def (μi μj w a xi xj : K) (ps : List (K × K × K)) :
    wcrun μi μj w ((a, xi, xj) :: ps)
      = wcrun (wcstep a μi μj w xi xj).1 (wcstep a μi μj w xi xj).2.1
          (wcstep a μi μj w xi xj).2.2 ps := rfl

/-- the exact increment is `(1 − a)(xi − μi)(xj − μj)` — symmetric in the two components -/
theorem exact_increment (a μi μj xi xj : K) :
    (xi - μi) * (xj - (μj * (1 - a) + xj * a)) = (1 - a) * ((xi - μi) * (xj - μj)) := by ring

/-- float runs of entry `(i, j)` of `RunningCovariance(lifetime = l)` over the pairs
    `ps = [(obj₁[i], obj₁[j]), …]`: weights `max(1/l, 1/k)` for all accumulators, start `(0, 0, 0)` -/
def FlRCov (u l : K) (ps : List (K × K)) (mi mj c : K) : Prop :=
  FlRCRun u 0 0 0 (modelTriples (1 / l) 0 ps) mi mj c

/-- `RunningCovariance(lifetime = l)` on one pair of components fed `ps` (exact model),
    arbitrary lifetime `l` -/
def rcrunK (l : K) (ps : List (K × K)) : RCov2 K :=
  ps.foldl (fun s p => s.push p.1 p.2) (RCov2.init l)

theorem rcrun_eq_rcrunK (L : Nat) (ps : List (K × K)) : C17.rcrun L ps = rcrunK (L : K) ps := rfl

theorem rcrunK_eq_wcrun (l : K) (ps : List (K × K)) :
    ((rcrunK l ps).mx.acc, (rcrunK l ps).my.acc, (rcrunK l ps).c.acc)
      = wcrun 0 0 0 (modelTriples (1 / l) 0 ps) := RCov2.run_eq_wcrun l ps

theorem rcrunK_mx (l : K) (ps : List (K × K)) :
    (rcrunK l ps).mx.acc = (wcrun 0 0 0 (modelTriples (1 / l) 0 ps)).1 := by
  rw [← rcrunK_eq_wcrun]

theorem rcrunK_my (l : K) (ps : List (K × K)) :
    (rcrunK l ps).my.acc = (wcrun 0 0 0 (modelTriples (1 / l) 0 ps)).2.1 := by
  rw [← rcrunK_eq_wcrun]

theorem rcrunK_c (l : K) (ps : List (K × K)) :
    (rcrunK l ps).c.acc = (wcrun 0 0 0 (modelTriples (1 / l) 0 ps)).2.2 := by
  rw [← rcrunK_eq_wcrun]

/-- the exact run of the model (`RCov2.push` folded) is a possible float run -/
theorem exact_run_possible {u : K} (hu : 0 ≤ u) (l : K) (ps : List (K × K)) :
    FlRCov u l ps (rcrunK l ps).mx.acc (rcrunK l ps).my.acc (rcrunK l ps).c.acc := by
  rw [rcrunK_mx, rcrunK_my, rcrunK_c]; exact FlRCRun.of_exact hu 0 0 0 _

/-- with `u = 0` the only possible run is the model's -/
theorem exact_is_the_float_run (l : K) (ps : List (K × K)) (mi mj c : K) :
    FlRCov 0 l ps mi mj c
      ↔ mi = (rcrunK l ps).mx.acc ∧ mj = (rcrunK l ps).my.acc ∧ c = (rcrunK l ps).c.acc := by
  rw [rcrunK_mx, rcrunK_my, rcrunK_c]; exact flRCRun_zero_iff 0 0 0 _ mi mj c

/-- generally: `u = 0` ↔ the exact recursion with the same weights -/
theorem exact_is_the_float_run_general (mi mj c : K) (ps : List (K × K × K)) (mi' mj' c' : K) :
    FlRCRun 0 mi mj c ps mi' mj' c'
      ↔ mi' = (wcrun mi mj c ps).1 ∧ mj' = (wcrun mi mj c ps).2.1 ∧ c' = (wcrun mi mj c ps).2.2 :=
  flRCRun_zero_iff mi mj c ps mi' mj' c'

theorem exact_run_possible_general {u : K} (hu : 0 ≤ u) (mi mj c : K) (ps : List (K × K × K)) :
    FlRCRun u mi mj c ps (wcrun mi mj c ps).1 (wcrun mi mj c ps).2.1 (wcrun mi mj c ps).2.2 :=
  FlRCRun.of_exact hu mi mj c ps

/-- a larger unit roundoff allows more runs -/
theorem float_run_mono {u u' : K} (h : u ≤ u') {ps : List (K × K × K)} {mi mj c mi' mj' c' : K}
    (hr : FlRCRun u mi mj c ps mi' mj' c') : FlRCRun u' mi mj c ps mi' mj' c' := hr.mono h

theorem float_run_mono_model {u u' : K} (h : u ≤ u') {l : K} {ps : List (K × K)} {mi mj c : K}
    (hr : FlRCov u l ps mi mj c) : FlRCov u' l ps mi mj c := FlRCRun.mono h hr

theorem flRCRun_nil_intro (u mi mj c : K) : FlRCRun u mi mj c [] mi mj c := ⟨rfl, rfl, rfl⟩

theorem flRCRun_cons_intro {u a xi xj mi mj c mi1 mj1 c1 mi' mj' c' : K} {ps : List (K × K × K)}
    (hs : FlRCStep u a mi mj c xi xj mi1 mj1 c1) (hr : FlRCRun u mi1 mj1 c1 ps mi' mj' c') :
    FlRCRun u mi mj c ((a, xi, xj) :: ps) mi' mj' c' := ⟨mi1, mj1, c1, hs, hr⟩

/-- runs compose (warm-up phase, then decay phase) -/
theorem float_run_append {u : K} {ps qs : List (K × K × K)} {mi mj c mi1 mj1 c1 mi2 mj2 c2 : K}
    (h1 : FlRCRun u mi mj c ps mi1 mj1 c1) (h2 : FlRCRun u mi1 mj1 c1 qs mi2 mj2 c2) :
    FlRCRun u mi mj c (ps ++ qs) mi2 mj2 c2 := h1.append h2

/-- the two means inside a running-covariance run are float running-mean runs over the two
    coordinate sequences, so C17Float applies to each -/
theorem rcov_run_means {u l : K} {ps : List (K × K)} {mi mj c : K} (h : FlRCov u l ps mi mj c) :
    C17Float.FlRMean u l (ps.map Prod.fst) mi ∧ C17Float.FlRMean u l (ps.map Prod.snd) mj := by
  have h1 := FlRCRun.mean_run_i h
  have h2 := FlRCRun.mean_run_j h
  rw [stepsI_modelTriples] at h1
  rw [stepsJ_modelTriples] at h2
  exact ⟨h1, h2⟩

/-! ### 2. the exact reference -/

/-- the exact model: both means stay within `M`, the covariance entry within `[−4M², 4M²]` -/
theorem exact_rcov_bounds {l M : K} (hM : 0 ≤ M) (hl : 1 ≤ l) {ps : List (K × K)}
    (hx : ∀ p ∈ ps, |p.1| ≤ M ∧ |p.2| ≤ M) :
    |(rcrunK l ps).mx.acc| ≤ M ∧ |(rcrunK l ps).my.acc| ≤ M
      ∧ |(rcrunK l ps).c.acc| ≤ 4 * M ^ 2 := by
  have hok := modelTriples_ok (one_div_le_one_of_one_le hl) 0 hx
  have hl0 : 0 < l := by linarith
  rw [rcrunK_mx, rcrunK_my, rcrunK_c]
  exact wcrun_bounds (by positivity) hM hok (by simpa using hM) (by simpa using hM)
    (by rw [abs_zero]; positivity)

/-! ### 3. the error against the exact recursion, uniformly in the number of observations -/

/-- **one step**: the ball `|mi − μi|, |mj − μj| ≤ Em`, `|c − w| ≤ E` around a reference with
    `|μi|, |μj| ≤ M`, `|w| ≤ 4M²` is mapped into the ball around the stepped reference -/
theorem rcov_step_invariant {u a amin M Em E mi mj c xi xj mi' mj' c' μi μj w : K} (hu : 0 ≤ u)
    (hM : 0 ≤ M) (h : FlRCStep u a mi mj c xi xj mi' mj' c') (hamin : 0 ≤ amin) (ha : amin ≤ a)
    (ha1 : a ≤ 1) (hxi : |xi| ≤ M) (hxj : |xj| ≤ M) (hEm0 : 0 ≤ Em)
    (hEm : (1 - amin) * (1 + u) ^ 3 * Em + ((1 + u) ^ 3 - 1) * M ≤ Em)
    (hGE : rvG u M Em ≤ E)
    (hE : (1 - amin) * (1 + u) ^ 3 * E + ((1 + u) ^ 3 - 1) * rvMq u M Em + amin * rvG u M Em ≤ E)
    (hμi : |μi| ≤ M) (hμj : |μj| ≤ M) (hw : |w| ≤ 4 * M ^ 2)
    (hmi : |mi - μi| ≤ Em) (hmj : |mj - μj| ≤ Em) (hc : |c - w| ≤ E) :
    |(wcstep a μi μj w xi xj).1| ≤ M ∧ |(wcstep a μi μj w xi xj).2.1| ≤ M
      ∧ |(wcstep a μi μj w xi xj).2.2| ≤ 4 * M ^ 2
      ∧ |mi' - (wcstep a μi μj w xi xj).1| ≤ Em ∧ |mj' - (wcstep a μi μj w xi xj).2.1| ≤ Em
      ∧ |c' - (wcstep a μi μj w xi xj).2.2| ≤ E :=
  h.inv hu hM hamin ha ha1 hxi hxj hEm0 hEm hGE hE hμi hμj hw hmi hmj hc

/-- **error of a run, sharp form.**  Weights in `[amin, 1]`, `|xi|, |xj| ≤ M`, `4u < amin`; float
    and exact run start from the same state `(mi₀, mj₀, c₀)` with `|mi₀|, |mj₀| ≤ M`, `|c₀| ≤ 4M²`.
    After ANY number of steps: `|mi − μi|, |mj − μj| ≤ Em = 4uM/(amin − 4u)` and
    `|c − w| ≤ (4u·Mq + amin·G)/(amin − 4u)`, `Mq = rvMq u M Em`, `G = rvG u M Em`. -/
theorem rcov_float_error_sharp {u amin M : K} (hu : 0 ≤ u) (hu4 : u ≤ 1 / 4) (hM : 0 ≤ M)
    (ha : 4 * u < amin) {ps : List (K × K × K)} (hok : CStepsOK amin M ps)
    {mi0 mj0 c0 mi mj c : K} (h : FlRCRun u mi0 mj0 c0 ps mi mj c) (hmi0 : |mi0| ≤ M)
    (hmj0 : |mj0| ≤ M) (hc0 : |c0| ≤ 4 * M ^ 2) :
    |mi - (wcrun mi0 mj0 c0 ps).1| ≤ 4 * u * M / (amin - 4 * u)
      ∧ |mj - (wcrun mi0 mj0 c0 ps).2.1| ≤ 4 * u * M / (amin - 4 * u)
      ∧ |c - (wcrun mi0 mj0 c0 ps).2.2|
          ≤ (4 * u * rvMq u M (4 * u * M / (amin - 4 * u))
              + amin * rvG u M (4 * u * M / (amin - 4 * u))) / (amin - 4 * u) := by
  obtain ⟨hEm0, hEm⟩ := steady_four hu hu4 hM ha
  have hG0 := rvG_nonneg hu hM hEm0
  obtain ⟨hGE, hE⟩ := steady_var hu hu4 (rvMq_nonneg (M := M)
    (Em := 4 * u * M / (amin - 4 * u)) hu) hG0 ha
  have := FlRCRun.inv hu hM (by linarith) hEm0 hEm hGE hE hok h hmi0 hmj0 hc0
    (by rw [sub_self, abs_zero]; exact hEm0) (by rw [sub_self, abs_zero]; exact hEm0)
    (by rw [sub_self, abs_zero]; exact hG0.trans hGE)
  exact ⟨this.2.2.2.1, this.2.2.2.2.1, this.2.2.2.2.2⟩

/-- **the model, numerical bounds as parameters.**  `RunningCovariance(lifetime = l)`, `l ≥ 1`,
    `4 u l < 1`; given `(1+u)³ ≤ g`, `(1+u)³ − 1 ≤ c u`, `1/(1 − 4ul) ≤ d`, `4 d l u ≤ e₀` and
    `C ≥ d (4 g (2+e₀)² + 4 c + 4 d g (4+e₀))`:  `|mi − mean_i|, |mj − mean_j| ≤ 4 d·l·u·M`,
    `|c − cov_ij| ≤ C·l·u·M²` after any number of observations; also the bounds of the exact state. -/
theorem rcov_float_error_model_gen {u l M g cc d e0 C : K} (hu : 0 ≤ u) (hM : 0 ≤ M) (hl : 1 ≤ l)
    (hul : 4 * u * l < 1) (hg : (1 + u) ^ 3 ≤ g) (hc0 : 0 ≤ cc) (hc : (1 + u) ^ 3 - 1 ≤ cc * u)
    (hd : 1 ≤ d * (1 - 4 * u * l)) (he0 : 4 * d * (l * u) ≤ e0)
    (hC : d * (4 * g * (2 + e0) ^ 2 + 4 * cc + g * (4 * d) * (4 + e0)) ≤ C)
    {ps : List (K × K)} (hx : ∀ p ∈ ps, |p.1| ≤ M ∧ |p.2| ≤ M) {mi mj c : K}
    (h : FlRCov u l ps mi mj c) :
    |mi - (rcrunK l ps).mx.acc| ≤ 4 * d * (l * u) * M
      ∧ |mj - (rcrunK l ps).my.acc| ≤ 4 * d * (l * u) * M
      ∧ |c - (rcrunK l ps).c.acc| ≤ C * (l * u) * M ^ 2
      ∧ |(rcrunK l ps).mx.acc| ≤ M ∧ |(rcrunK l ps).my.acc| ≤ M
      ∧ |(rcrunK l ps).c.acc| ≤ 4 * M ^ 2 := by
  have hl0 : 0 < l := by linarith
  have hu4 : u ≤ 1 / 4 := by nlinarith
  have ha : 4 * u < 1 / l := by rw [lt_div_iff₀ hl0]; exact hul
  have hok := modelTriples_ok (one_div_le_one_of_one_le hl) 0 hx
  obtain ⟨e1, e2, e3⟩ := rcov_float_error_sharp hu hu4 hM ha hok h (by simpa using hM)
    (by simpa using hM) (by rw [abs_zero]; positivity)
  obtain ⟨_, k2, k3⟩ := rvE_le hu hM hl hul hg hc0 hc hd he0 hC rfl
  obtain ⟨b1, b2, b3⟩ := exact_rcov_bounds hM hl hx
  refine ⟨?_, ?_, ?_, b1, b2, b3⟩
  · rw [rcrunK_mx]; exact e1.trans k2
  · rw [rcrunK_my]; exact e2.trans k2
  · rw [rcrunK_c]; exact e3.trans k3

/-- **the error of the float running covariance entry**, `RunningCovariance(lifetime = l)`,
    `l ≥ 1`, `8·l·u ≤ 1`, `|xi|, |xj| ≤ M`: for EVERY possible float run and ANY number of
    observations both float means are within `8·l·u·M` of the exact running means and
    `|_cov.acc[i,j] − exact| ≤ 244·l·u·M²`. -/
theorem rcov_float_error_model {u l M : K} (hu : 0 ≤ u) (hM : 0 ≤ M) (hl : 1 ≤ l)
    (hsmall : 8 * l * u ≤ 1) {ps : List (K × K)} (hx : ∀ p ∈ ps, |p.1| ≤ M ∧ |p.2| ≤ M)
    {mi mj c : K} (h : FlRCov u l ps mi mj c) :
    |mi - (rcrunK l ps).mx.acc| ≤ 8 * l * u * M
      ∧ |mj - (rcrunK l ps).my.acc| ≤ 8 * l * u * M
      ∧ |c - (rcrunK l ps).c.acc| ≤ 244 * l * u * M ^ 2 := by
  have hu8 : u ≤ 1 / 8 := by nlinarith
  have hg8 := gam3_le_eighth hu hu8
  have := rcov_float_error_model_gen (g := 729 / 512) (cc := 217 / 64) (d := 2) (e0 := 1)
    (C := 244) hu hM hl (by linarith) (by linarith) (by norm_num) hg8 (by linarith)
    (by linarith) (by norm_num) hx h
  exact ⟨this.1.trans (le_of_eq (by ring)), this.2.1.trans (le_of_eq (by ring)),
    this.2.2.1.trans (le_of_eq (by ring))⟩

/-- the same under the stronger smallness `64·l·u ≤ 1` (as for the Welford covariance, C05):
    means within `5·l·u·M`, `|_cov.acc[i,j] − exact| ≤ 52·l·u·M²` -/
theorem rcov_float_error_model_tight {u l M : K} (hu : 0 ≤ u) (hM : 0 ≤ M) (hl : 1 ≤ l)
    (hsmall : 64 * l * u ≤ 1) {ps : List (K × K)} (hx : ∀ p ∈ ps, |p.1| ≤ M ∧ |p.2| ≤ M)
    {mi mj c : K} (h : FlRCov u l ps mi mj c) :
    |mi - (rcrunK l ps).mx.acc| ≤ 5 * l * u * M
      ∧ |mj - (rcrunK l ps).my.acc| ≤ 5 * l * u * M
      ∧ |c - (rcrunK l ps).c.acc| ≤ 52 * l * u * M ^ 2 := by
  have hu64 : u ≤ 1 / 64 := by nlinarith
  have hγ : (1 + u) ^ 3 - 1 ≤ 25 / 8 * u := by
    have e : (1 + u) ^ 3 - 1 = u * (3 + 3 * u + u * u) := by ring
    have h2 : u * u ≤ 1 / 4096 := by nlinarith
    rw [e]
    calc u * (3 + 3 * u + u * u) ≤ u * (25 / 8) := mul_le_mul_of_nonneg_left (by linarith) hu
      _ = 25 / 8 * u := by ring
  have hlu : 0 ≤ l * u := mul_nonneg (by linarith) hu
  have := rcov_float_error_model_gen (g := 537 / 512) (cc := 25 / 8) (d := 16 / 15) (e0 := 1 / 15)
    (C := 52) hu hM hl (by linarith) (by linarith) (by norm_num) hγ (by linarith)
    (by linarith) (by norm_num) hx h
  have hluM : 0 ≤ l * u * M := mul_nonneg hlu hM
  refine ⟨this.1.trans ?_, this.2.1.trans ?_, this.2.2.1.trans (le_of_eq (by ring))⟩ <;> linarith

/-- natural lifetime `L`, against `C17.rcrun L ps` -/
theorem rcov_float_error {u M : K} (hu : 0 ≤ u) (hM : 0 ≤ M) {L : ℕ} (hL : 1 ≤ L)
    (hsmall : 8 * (L : K) * u ≤ 1) {ps : List (K × K)} (hx : ∀ p ∈ ps, |p.1| ≤ M ∧ |p.2| ≤ M)
    {mi mj c : K} (h : FlRCov u (L : K) ps mi mj c) :
    |mi - (C17.rcrun L ps).mx.acc| ≤ 8 * (L : K) * u * M
      ∧ |mj - (C17.rcrun L ps).my.acc| ≤ 8 * (L : K) * u * M
      ∧ |c - (C17.rcrun L ps).c.acc| ≤ 244 * (L : K) * u * M ^ 2 :=
  rcov_float_error_model hu hM (by exact_mod_cast hL) hsmall hx h

theorem rcov_float_error_tight {u M : K} (hu : 0 ≤ u) (hM : 0 ≤ M) {L : ℕ} (hL : 1 ≤ L)
    (hsmall : 64 * (L : K) * u ≤ 1) {ps : List (K × K)} (hx : ∀ p ∈ ps, |p.1| ≤ M ∧ |p.2| ≤ M)
    {mi mj c : K} (h : FlRCov u (L : K) ps mi mj c) :
    |mi - (C17.rcrun L ps).mx.acc| ≤ 5 * (L : K) * u * M
      ∧ |mj - (C17.rcrun L ps).my.acc| ≤ 5 * (L : K) * u * M
      ∧ |c - (C17.rcrun L ps).c.acc| ≤ 52 * (L : K) * u * M ^ 2 :=
  rcov_float_error_model_tight hu hM (by exact_mod_cast hL) hsmall hx h

/-! ### 4. boundedness, uniformly in the number of observations -/

theorem abs_le_of_near {x y B M : K} (h : |x - y| ≤ B) (hy : |y| ≤ M) : |x| ≤ M + B := by
  calc |x| = |(x - y) + y| := by ring_nf
    _ ≤ |x - y| + |y| := abs_add_le _ _
    _ ≤ B + M := add_le_add h hy
    _ = M + B := add_comm _ _

/-- **boundedness.**  `l ≥ 1`, `8·l·u ≤ 1`, `|xi|, |xj| ≤ M`: every float value of the covariance
    entry satisfies `|c| ≤ 4M²·(1 + 61·l·u)` and every float value of the two mean components
    is within `M·(1 + 8·l·u)`, whatever the number of observations.  (In exact arithmetic:
    `4M²` and `M`.) -/
theorem rcov_float_bounded_model {u l M : K} (hu : 0 ≤ u) (hM : 0 ≤ M) (hl : 1 ≤ l)
    (hsmall : 8 * l * u ≤ 1) {ps : List (K × K)} (hx : ∀ p ∈ ps, |p.1| ≤ M ∧ |p.2| ≤ M)
    {mi mj c : K} (h : FlRCov u l ps mi mj c) :
    |c| ≤ 4 * M ^ 2 * (1 + 61 * l * u) ∧ |mi| ≤ M * (1 + 8 * l * u)
      ∧ |mj| ≤ M * (1 + 8 * l * u) := by
  obtain ⟨e1, e2, e3⟩ := rcov_float_error_model hu hM hl hsmall hx h
  obtain ⟨b1, b2, b3⟩ := exact_rcov_bounds hM hl hx
  exact ⟨(abs_le_of_near e3 b3).trans (le_of_eq (by ring)),
    (abs_le_of_near e1 b1).trans (le_of_eq (by ring)),
    (abs_le_of_near e2 b2).trans (le_of_eq (by ring))⟩

/-- the same under `64·l·u ≤ 1`: `|c| ≤ 4M²·(1 + 13·l·u)`, `|mi|, |mj| ≤ M·(1 + 5·l·u)` -/
theorem rcov_float_bounded_model_tight {u l M : K} (hu : 0 ≤ u) (hM : 0 ≤ M) (hl : 1 ≤ l)
    (hsmall : 64 * l * u ≤ 1) {ps : List (K × K)} (hx : ∀ p ∈ ps, |p.1| ≤ M ∧ |p.2| ≤ M)
    {mi mj c : K} (h : FlRCov u l ps mi mj c) :
    |c| ≤ 4 * M ^ 2 * (1 + 13 * l * u) ∧ |mi| ≤ M * (1 + 5 * l * u)
      ∧ |mj| ≤ M * (1 + 5 * l * u) := by
  obtain ⟨e1, e2, e3⟩ := rcov_float_error_model_tight hu hM hl hsmall hx h
  obtain ⟨b1, b2, b3⟩ := exact_rcov_bounds hM hl hx
  exact ⟨(abs_le_of_near e3 b3).trans (le_of_eq (by ring)),
    (abs_le_of_near e1 b1).trans (le_of_eq (by ring)),
    (abs_le_of_near e2 b2).trans (le_of_eq (by ring))⟩

/-! ### 5. the diagonal `xi = xj`: the running variance -/

/-- on the diagonal, with EQUAL mean components before and after, the covariance step *is* the
    variance step of `C17FloatVar` -/
theorem rcov_diag_step (u a m v x m' v' : K) :
    FlRCStep u a m m v x x m' m' v' ↔ FlRVStep u a m v x m' v' := flRCStep_diag_iff u a m v x m' v'

/-- every float `RunningVariance(lifetime = l)` run over `xs` is a float run of the diagonal entry
    of `RunningCovariance(lifetime = l)` over `[(x, x), …]`, with both mean components equal.
    (The inclusion is strict: `rcov_diag_strict`.) -/
theorem rcov_diag {u l : K} {xs : List K} {m v : K} (h : C17FloatVar.FlRVar u l xs m v) :
    FlRCov u l (xs.map fun x => (x, x)) m m v := by
  have := FlRVRun.to_cov h
  rwa [← modelTriples_diag] at this

/-- general weights: every `FlRVRun` yields an `FlRCRun` on the steps `(a, x, x)` with `mi = mj` -/
theorem rcov_diag_general {u : K} {ps : List (K × K)} {m v m' v' : K}
    (h : FlRVRun u m v ps m' v') : FlRCRun u m m v (diagSteps ps) m' m' v' := h.to_cov

/-- in exact arithmetic the diagonal entry IS the running variance (and both means the mean) -/
theorem rcov_diag_exact (l : K) (xs : List K) :
    (rcrunK l (xs.map fun x => (x, x))).mx.acc = (C17FloatVar.rvrunK l xs).mean.acc
      ∧ (rcrunK l (xs.map fun x => (x, x))).my.acc = (C17FloatVar.rvrunK l xs).mean.acc
      ∧ (rcrunK l (xs.map fun x => (x, x))).c.acc = (C17FloatVar.rvrunK l xs).var.acc := by
  have h := C17FloatVar.rvrunK_eq_wvrun l xs
  have h1 : (C17FloatVar.rvrunK l xs).mean.acc = (wvrun 0 0 (modelPairs (1 / l) 0 xs)).1 := by
    rw [← h]
  have h2 : (C17FloatVar.rvrunK l xs).var.acc = (wvrun 0 0 (modelPairs (1 / l) 0 xs)).2 := by
    rw [← h]
  rw [rcrunK_mx, rcrunK_my, rcrunK_c, modelTriples_diag, wcrun_diag, h1, h2]
  exact ⟨rfl, rfl, rfl⟩

/-- both mean components of ANY diagonal covariance run are float running-mean runs over `xs` -/
theorem rcov_diag_means {u l : K} {xs : List K} {mi mj c : K}
    (h : FlRCov u l (xs.map fun x => (x, x)) mi mj c) :
    C17Float.FlRMean u l xs mi ∧ C17Float.FlRMean u l xs mj := by
  have := rcov_run_means h
  simpa only [List.map_map, Function.comp_def, List.map_id'] using this

/-- hence ANY float run of the diagonal entry — equal mean components or not — obeys the bound of
    the running variance against the exact running variance -/
theorem rcov_diag_var_bound {u l M : K} (hu : 0 ≤ u) (hM : 0 ≤ M) (hl : 1 ≤ l)
    (hsmall : 8 * l * u ≤ 1) {xs : List K} (hx : ∀ x ∈ xs, |x| ≤ M) {mi mj c : K}
    (h : FlRCov u l (xs.map fun x => (x, x)) mi mj c) :
    |mi - (C17FloatVar.rvrunK l xs).mean.acc| ≤ 8 * l * u * M
      ∧ |mj - (C17FloatVar.rvrunK l xs).mean.acc| ≤ 8 * l * u * M
      ∧ |c - (C17FloatVar.rvrunK l xs).var.acc| ≤ 244 * l * u * M ^ 2 := by
  have hx' : ∀ p ∈ xs.map (fun x => (x, x)), |p.1| ≤ M ∧ |p.2| ≤ M := by
    intro p hp
    obtain ⟨x, hxm, rfl⟩ := List.mem_map.mp hp
    exact ⟨hx x hxm, hx x hxm⟩
  obtain ⟨e1, e2, e3⟩ := rcov_float_error_model hu hM hl hsmall hx' h
  obtain ⟨d1, d2, d3⟩ := rcov_diag_exact l xs
  rw [d1] at e1; rw [d2] at e2; rw [d3] at e3
  exact ⟨e1, e2, e3⟩

/-- the diagonal step does NOT reduce to the variance step: from `mi = mj = 1`, `xi = xj = 3`,
    weight `1/2`, the two mean steps may round differently (`u = 1/1000`) -/
theorem rcov_diag_strict :
    ∃ mi' mj' c' : ℚ, FlRCStep (1 / 1000) (1 / 2) 1 1 0 3 3 mi' mj' c' ∧ mi' ≠ mj' := by
  have s := flRCStep_of_deltas (u := (1 / 1000 : ℚ)) (1 / 2) 1 1 0 3 3
    0 0 0 0 0 0 (1 / 1000) 0 0 0 0 0 0 0 0
    (by norm_num [abs_le]) (by norm_num [abs_le]) (by norm_num [abs_le]) (by norm_num [abs_le])
    (by norm_num [abs_le]) (by norm_num [abs_le]) (by norm_num [abs_le]) (by norm_num [abs_le])
    (by norm_num [abs_le]) (by norm_num [abs_le]) (by norm_num [abs_le]) (by norm_num [abs_le])
    (by norm_num [abs_le]) (by norm_num [abs_le]) (by norm_num [abs_le])
  exact ⟨_, _, _, s, by norm_num⟩

/-! ### 6. warm-up: at most `L` observations — the population covariance -/

/-- natural lifetime `L`, `n ≤ L` observations: `RunningCovariance` is `Covariance` (C17), so the
    float `_cov.acc[i,j]` is within `244·L·u·M²` of `Σ(x − x̄)(y − ȳ)/n`, and the float means
    within `8·L·u·M` of the batch means -/
theorem rcov_float_warmup {u M : K} (hu : 0 ≤ u) (hM : 0 ≤ M) {L : ℕ} (hL : 1 ≤ L)
    (hsmall : 8 * (L : K) * u ≤ 1) {ps : List (K × K)} (hne : ps ≠ []) (hlen : ps.length ≤ L)
    (hx : ∀ p ∈ ps, |p.1| ≤ M ∧ |p.2| ≤ M) {mi mj c : K} (h : FlRCov u (L : K) ps mi mj c) :
    |mi - batchMean (ps.map Prod.fst)| ≤ 8 * (L : K) * u * M
      ∧ |mj - batchMean (ps.map Prod.snd)| ≤ 8 * (L : K) * u * M
      ∧ |c - sumProdDev ps / (ps.length : K)| ≤ 244 * (L : K) * u * M ^ 2 := by
  obtain ⟨e1, e2, e3⟩ := rcov_float_error hu hM hL hsmall hx h
  obtain ⟨w1, w2, w3, _⟩ := C17.running_eq_plain_cov hL ps hlen
  have hn : ((ps.length : ℕ) : K) ≠ 0 := Nat.cast_ne_zero.mpr (by
    intro h0; exact hne (List.length_eq_zero_iff.mp h0))
  have hc : (Cov2.run ps).c.val = sumProdDev ps / (ps.length : K) := by
    rw [eq_div_iff hn, mul_comm]; exact C05FloatCov.exact_C_eq ps
  have hmx : (Cov2.run ps).mx.val = batchMean (ps.map Prod.fst) := by
    rw [Cov2.run_mx, Mean.run_val _ (by simpa using hne)]; rfl
  have hmy : (Cov2.run ps).my.val = batchMean (ps.map Prod.snd) := by
    rw [Cov2.run_my, Mean.run_val _ (by simpa using hne)]; rfl
  rw [w1, hmx] at e1
  rw [w2, hmy] at e2
  rw [w3, hc] at e3
  exact ⟨e1, e2, e3⟩

/-! ### 7. the read-out `.value = _cov.acc * (n / (n − 1))` -/

/-- the exact read-out of the model (Python raises `ZeroDivisionError` at `n = 1`) -/
theorem exact_value (l : K) (ps : List (K × K)) (h1 : ps.length ≠ 1) :
    (rcrunK l ps).value
      = .ok ((rcrunK l ps).c.acc * ((ps.length : K) / ((ps.length : K) - 1))) := by
  have hn : (rcrunK l ps).mx.n = ps.length := (RCov2.run_n l ps).1
  simp [RCov2.value, hn, h1]

/-- from a bound `|v − w| ≤ B`, `|w| ≤ W` (no sign) to the rounded read-out (`FlCovValue`,
    C05FloatCov: the quotient `n/(n−1)` and the product are rounded once each) -/
theorem value_error_of_bound {u B W : K} {n : ℕ} (hn : 2 ≤ n) {v w r : K}
    (hB : |v - w| ≤ B) (hw : |w| ≤ W) (hr : C05FloatCov.FlCovValue u n v r) :
    |r - w * ((n : K) / ((n : K) - 1))|
      ≤ (n : K) / ((n : K) - 1) * ((1 + u) ^ 2 * B + ((1 + u) ^ 2 - 1) * W) := by
  obtain ⟨ρ, ⟨δa, ha, rfl⟩, ⟨δb, hb, rfl⟩⟩ := hr
  have hn1 : (0 : K) < (n : K) - 1 := by
    have : (2 : K) ≤ (n : K) := by exact_mod_cast hn
    linarith
  have hρ : 0 ≤ (n : K) / ((n : K) - 1) := div_nonneg (Nat.cast_nonneg n) hn1.le
  have hB0 : 0 ≤ B := (abs_nonneg _).trans hB
  have hπ1 : |(1 + δa) * (1 + δb) - 1| ≤ (1 + u) ^ 2 - 1 := abs_prod2_sub_one ha hb
  have hπ : |(1 + δa) * (1 + δb)| ≤ (1 + u) ^ 2 := by
    have := abs_le_of_sub_one hπ1; linarith
  have e : v * ((n : K) / ((n : K) - 1) * (1 + δa)) * (1 + δb) - w * ((n : K) / ((n : K) - 1))
      = (n : K) / ((n : K) - 1)
        * ((v - w) * ((1 + δa) * (1 + δb)) + w * ((1 + δa) * (1 + δb) - 1)) := by ring
  rw [e, abs_mul, abs_of_nonneg hρ]
  apply mul_le_mul_of_nonneg_left _ hρ
  calc |(v - w) * ((1 + δa) * (1 + δb)) + w * ((1 + δa) * (1 + δb) - 1)|
      ≤ |(v - w) * ((1 + δa) * (1 + δb))| + |w * ((1 + δa) * (1 + δb) - 1)| := abs_add_le _ _
    _ = |v - w| * |(1 + δa) * (1 + δb)| + |w| * |(1 + δa) * (1 + δb) - 1| := by
        rw [abs_mul (v - w), abs_mul w]
    _ ≤ B * (1 + u) ^ 2 + W * ((1 + u) ^ 2 - 1) :=
        add_le_add (mul_le_mul hB hπ (abs_nonneg _) hB0)
          (mul_le_mul hw hπ1 (abs_nonneg _) ((abs_nonneg _).trans hw))
    _ = (1 + u) ^ 2 * B + ((1 + u) ^ 2 - 1) * W := by ring

/-- **the read-out.**  `n ≥ 2` observations, `l ≥ 1`, `8·l·u ≤ 1`: every float value `r` of
    `_cov.acc[i,j] * (n / (n − 1))` is within `n/(n−1)·318·l·u·M²` of the exact `.value` -/
theorem rcov_float_value_error {u l M : K} (hu : 0 ≤ u) (hM : 0 ≤ M) (hl : 1 ≤ l)
    (hsmall : 8 * l * u ≤ 1) {ps : List (K × K)} (h2 : 2 ≤ ps.length)
    (hx : ∀ p ∈ ps, |p.1| ≤ M ∧ |p.2| ≤ M) {mi mj c r : K} (h : FlRCov u l ps mi mj c)
    (hr : C05FloatCov.FlCovValue u ps.length c r) :
    (rcrunK l ps).value
        = .ok ((rcrunK l ps).c.acc * ((ps.length : K) / ((ps.length : K) - 1)))
      ∧ |r - (rcrunK l ps).c.acc * ((ps.length : K) / ((ps.length : K) - 1))|
          ≤ (ps.length : K) / ((ps.length : K) - 1) * (318 * l * u * M ^ 2) := by
  refine ⟨exact_value l ps (by omega), ?_⟩
  obtain ⟨_, _, e3⟩ := rcov_float_error_model hu hM hl hsmall hx h
  obtain ⟨_, _, b3⟩ := exact_rcov_bounds hM hl hx
  have hv := value_error_of_bound h2 e3 b3 hr
  refine hv.trans ?_
  have hn1 : (0 : K) < (ps.length : K) - 1 := by
    have : (2 : K) ≤ (ps.length : K) := by exact_mod_cast h2
    linarith
  have hρ : 0 ≤ (ps.length : K) / ((ps.length : K) - 1) := div_nonneg (Nat.cast_nonneg _) hn1.le
  apply mul_le_mul_of_nonneg_left _ hρ
  -- (1+u)² ≤ 81/64, (1+u)² − 1 ≤ 17/8·u ≤ 17/8·l·u
  have hu8 : u ≤ 1 / 8 := by nlinarith
  have hlu : 0 ≤ l * u := mul_nonneg (by linarith) hu
  have hul : u ≤ l * u := by nlinarith
  have k1 : (1 + u) ^ 2 ≤ 81 / 64 := by nlinarith
  have k2 : (1 + u) ^ 2 - 1 ≤ 17 / 8 * (l * u) := by nlinarith
  have hluM : 0 ≤ l * u * M ^ 2 := by positivity
  have hM2 : 0 ≤ M ^ 2 := by positivity
  have t1 : (1 + u) ^ 2 * (244 * l * u * M ^ 2) ≤ 81 / 64 * (244 * l * u * M ^ 2) :=
    mul_le_mul_of_nonneg_right k1 (by nlinarith)
  have t2 : ((1 + u) ^ 2 - 1) * (4 * M ^ 2) ≤ 17 / 8 * (l * u) * (4 * M ^ 2) :=
    mul_le_mul_of_nonneg_right k2 (by positivity)
  nlinarith

/-! ### 8. non-vacuity over ℚ: `RunningCovariance(lifetime = 2)`, `ps = [(4,1), (2,5), (8,7)]`,
    `u = 1/1000`; weights `1, 1/2, 1/2`; exact means `4, 3, 11/2` and `1, 3, 5`;
    exact increments `0, −4, 10`; exact `_cov.acc` `0, −2, 4` -/

example : modelTriples (1 / (2 : ℚ)) 0 [(4, 1), (2, 5), (8, 7)]
    = [(1, 4, 1), (1 / 2, 2, 5), (1 / 2, 8, 7)] := by
  norm_num [modelTriples, effA, pymax]

example : (C17.rcrun 2 ([(4, 1), (2, 5)] : List (ℚ × ℚ))).c.acc = -2 := by
  norm_num [C17.rcrun, RCov2.push, RCov2.init, RMean.push, RMean.pushWith, RMean.init, pymax]

example : (C17.rcrun 2 ([(4, 1), (2, 5), (8, 7)] : List (ℚ × ℚ))).mx.acc = 11 / 2
    ∧ (C17.rcrun 2 ([(4, 1), (2, 5), (8, 7)] : List (ℚ × ℚ))).my.acc = 5
    ∧ (C17.rcrun 2 ([(4, 1), (2, 5), (8, 7)] : List (ℚ × ℚ))).c.acc = 4 := by
  norm_num [C17.rcrun, RCov2.push, RCov2.init, RMean.push, RMean.pushWith, RMean.init, pymax]

example : (rcrunK (2 : ℚ) [(4, 1), (2, 5), (8, 7)]).value = .ok 6 := by
  norm_num [rcrunK, RCov2.value, RCov2.push, RCov2.init, RMean.push, RMean.pushWith, RMean.init,
    pymax]

/-- a genuinely perturbed run -/
example : ∃ mi mj c : ℚ, FlRCov (1 / 1000) 2 [(4, 1), (2, 5), (8, 7)] mi mj c
    ∧ mi ≠ 11 / 2 ∧ mj ≠ 5 ∧ c ≠ 4
    ∧ |mi - 11 / 2| ≤ 5 * 2 * (1 / 1000) * 8 ∧ |mj - 5| ≤ 5 * 2 * (1 / 1000) * 8
    ∧ |c - 4| ≤ 52 * 2 * (1 / 1000) * 8 ^ 2 := by
  have hp : modelTriples (1 / (2 : ℚ)) 0 [(4, 1), (2, 5), (8, 7)]
      = [(1, 4, 1), (1 / 2, 2, 5), (1 / 2, 8, 7)] := by
    norm_num [modelTriples, effA, pymax]
  have s1 := flRCStep_of_deltas (u := (1 / 1000 : ℚ)) 1 0 0 0 4 1
    (1 / 1000) 0 (-1 / 1000) (1 / 1000) 0 (1 / 1000) (1 / 1000) 0 (-1 / 1000) (1 / 1000) 0
    0 (1 / 1000) 0 (-1 / 1000)
    (by norm_num [abs_le]) (by norm_num [abs_le]) (by norm_num [abs_le]) (by norm_num [abs_le])
    (by norm_num [abs_le]) (by norm_num [abs_le]) (by norm_num [abs_le]) (by norm_num [abs_le])
    (by norm_num [abs_le]) (by norm_num [abs_le]) (by norm_num [abs_le]) (by norm_num [abs_le])
    (by norm_num [abs_le]) (by norm_num [abs_le]) (by norm_num [abs_le])
  have s2 := fun mi mj c : ℚ => flRCStep_of_deltas (u := (1 / 1000 : ℚ)) (1 / 2) mi mj c 2 5
    0 (1 / 1000) (1 / 1000) (-1 / 1000) (1 / 1000) 0 (-1 / 1000) (1 / 1000) (1 / 1000) 0
    (-1 / 1000) (1 / 1000) 0 (1 / 1000) (1 / 1000)
    (by norm_num [abs_le]) (by norm_num [abs_le]) (by norm_num [abs_le]) (by norm_num [abs_le])
    (by norm_num [abs_le]) (by norm_num [abs_le]) (by norm_num [abs_le]) (by norm_num [abs_le])
    (by norm_num [abs_le]) (by norm_num [abs_le]) (by norm_num [abs_le]) (by norm_num [abs_le])
    (by norm_num [abs_le]) (by norm_num [abs_le]) (by norm_num [abs_le])
  have s3 := fun mi mj c : ℚ => flRCStep_of_deltas (u := (1 / 1000 : ℚ)) (1 / 2) mi mj c 8 7
    (-1 / 1000) (1 / 1000) 0 (1 / 1000) (1 / 1000) (-1 / 1000) 0 0 (1 / 1000) (1 / 1000)
    (1 / 1000) (1 / 1000) (-1 / 1000) (1 / 1000) 0
    (by norm_num [abs_le]) (by norm_num [abs_le]) (by norm_num [abs_le]) (by norm_num [abs_le])
    (by norm_num [abs_le]) (by norm_num [abs_le]) (by norm_num [abs_le]) (by norm_num [abs_le])
    (by norm_num [abs_le]) (by norm_num [abs_le]) (by norm_num [abs_le]) (by norm_num [abs_le])
    (by norm_num [abs_le]) (by norm_num [abs_le]) (by norm_num [abs_le])
  have r := flRCRun_cons_intro s1 (flRCRun_cons_intro (s2 _ _ _) (flRCRun_cons_intro (s3 _ _ _)
    (flRCRun_nil_intro _ _ _ _)))
  rw [← hp] at r
  refine ⟨_, _, _, r, ?_, ?_, ?_, ?_, ?_, ?_⟩ <;> norm_num [abs_le]

/-- and the theorems apply to every such run: `8·2/1000 ≤ 1`, `64·2/1000 ≤ 1`, `|x|, |y| ≤ 8` -/
example (mi mj c : ℚ) (h : FlRCov (1 / 1000) 2 [(4, 1), (2, 5), (8, 7)] mi mj c) :
    |mi - 11 / 2| ≤ 5 * 2 * (1 / 1000) * 8 ∧ |mj - 5| ≤ 5 * 2 * (1 / 1000) * 8
      ∧ |c - 4| ≤ 52 * 2 * (1 / 1000) * 8 ^ 2
      ∧ |c| ≤ 4 * 8 ^ 2 * (1 + 13 * 2 * (1 / 1000)) := by
  have hx : ∀ p ∈ ([(4, 1), (2, 5), (8, 7)] : List (ℚ × ℚ)), |p.1| ≤ 8 ∧ |p.2| ≤ 8 := by
    intro p hp; simp at hp; rcases hp with rfl | rfl | rfl <;> norm_num [abs_le]
  have h1 := rcov_float_error_model_tight (u := (1 / 1000 : ℚ)) (l := 2) (M := 8) (by norm_num)
    (by norm_num) (by norm_num) (by norm_num) hx h
  have h2 := rcov_float_bounded_model_tight (u := (1 / 1000 : ℚ)) (l := 2) (M := 8) (by norm_num)
    (by norm_num) (by norm_num) (by norm_num) hx h
  have e : (rcrunK (2 : ℚ) [(4, 1), (2, 5), (8, 7)]).mx.acc = 11 / 2
      ∧ (rcrunK (2 : ℚ) [(4, 1), (2, 5), (8, 7)]).my.acc = 5
      ∧ (rcrunK (2 : ℚ) [(4, 1), (2, 5), (8, 7)]).c.acc = 4 := by
    norm_num [rcrunK, RCov2.push, RCov2.init, RMean.push, RMean.pushWith, RMean.init, pymax]
  rw [e.1, e.2.1, e.2.2] at h1
  exact ⟨h1.1, h1.2.1, h1.2.2, h2.1⟩

/-- the hypotheses of the `8·l·u ≤ 1` form hold as well -/
example (mi mj c : ℚ) (h : FlRCov (1 / 1000) 2 [(4, 1), (2, 5), (8, 7)] mi mj c) :
    |c - 4| ≤ 244 * 2 * (1 / 1000) * 8 ^ 2 := by
  have hx : ∀ p ∈ ([(4, 1), (2, 5), (8, 7)] : List (ℚ × ℚ)), |p.1| ≤ 8 ∧ |p.2| ≤ 8 := by
    intro p hp; simp at hp; rcases hp with rfl | rfl | rfl <;> norm_num [abs_le]
  have h1 := rcov_float_error_model (u := (1 / 1000 : ℚ)) (l := 2) (M := 8) (by norm_num)
    (by norm_num) (by norm_num) (by norm_num) hx h
  have e : (rcrunK (2 : ℚ) [(4, 1), (2, 5), (8, 7)]).c.acc = 4 := by
    norm_num [rcrunK, RCov2.push, RCov2.init, RMean.push, RMean.pushWith, RMean.init, pymax]
  rw [e] at h1
  exact h1.2.2

end Gpv.C17FloatCov

#print axioms Gpv.C17FloatCov.flRCStep_def
#print axioms Gpv.C17FloatCov.flRCRun_nil
#print axioms Gpv.C17FloatCov.flRCRun_cons
#print axioms Gpv.C17FloatCov.wcstep_def
#print axioms Gpv.C17FloatCov.wcrun_nil_def
#print axioms Gpv.C17FloatCov.wcrun_cons_def
#print axioms Gpv.C17FloatCov.exact_increment
#print axioms Gpv.C17FloatCov.rcrun_eq_rcrunK
#print axioms Gpv.C17FloatCov.rcrunK_eq_wcrun
#print axioms Gpv.C17FloatCov.rcrunK_mx
#print axioms Gpv.C17FloatCov.rcrunK_my
#print axioms Gpv.C17FloatCov.rcrunK_c
#print axioms Gpv.C17FloatCov.exact_run_possible
#print axioms Gpv.C17FloatCov.exact_is_the_float_run
#print axioms Gpv.C17FloatCov.exact_is_the_float_run_general
#print axioms Gpv.C17FloatCov.exact_run_possible_general
#print axioms Gpv.C17FloatCov.float_run_mono
#print axioms Gpv.C17FloatCov.float_run_mono_model
#print axioms Gpv.C17FloatCov.flRCRun_nil_intro
#print axioms Gpv.C17FloatCov.flRCRun_cons_intro
#print axioms Gpv.C17FloatCov.float_run_append
#print axioms Gpv.C17FloatCov.rcov_run_means
#print axioms Gpv.C17FloatCov.exact_rcov_bounds
#print axioms Gpv.C17FloatCov.rcov_step_invariant
#print axioms Gpv.C17FloatCov.rcov_float_error_sharp
#print axioms Gpv.C17FloatCov.rcov_float_error_model_gen
#print axioms Gpv.C17FloatCov.rcov_float_error_model
#print axioms Gpv.C17FloatCov.rcov_float_error_model_tight
#print axioms Gpv.C17FloatCov.rcov_float_error
#print axioms Gpv.C17FloatCov.rcov_float_error_tight
#print axioms Gpv.C17FloatCov.abs_le_of_near
#print axioms Gpv.C17FloatCov.rcov_float_bounded_model
#print axioms Gpv.C17FloatCov.rcov_float_bounded_model_tight
#print axioms Gpv.C17FloatCov.rcov_diag_step
#print axioms Gpv.C17FloatCov.rcov_diag
#print axioms Gpv.C17FloatCov.rcov_diag_general
#print axioms Gpv.C17FloatCov.rcov_diag_exact
#print axioms Gpv.C17FloatCov.rcov_diag_means
#print axioms Gpv.C17FloatCov.rcov_diag_var_bound
#print axioms Gpv.C17FloatCov.rcov_diag_strict
#print axioms Gpv.C17FloatCov.rcov_float_warmup
#print axioms Gpv.C17FloatCov.exact_value
#print axioms Gpv.C17FloatCov.value_error_of_bound
#print axioms Gpv.C17FloatCov.rcov_float_value_error
