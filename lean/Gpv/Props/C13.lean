/-
  C13 — `pipe_info`: `el_processed` counts the results taken out of the window (in-process:
  the calls that returned), `el_yielded` counts the values delivered to the consumer, in
  every reachable state — whatever the consumer and the schedule do — and the counts of
  successive streams through the same stage add up (the counters of a run started at
  `(p0, y0)` are those of the run started at `(0, 0)` shifted by `(p0, y0)`; nothing else differs).
-/
import Gpv.Proofs.PipelineInv
import Gpv.Proofs.PipelineRun

namespace Gpv.C13
open Gpv Gpv.Pipe
variable {α β ε : Type}
variable {c : Cfg} {xs : List α} {tail : Option ε} {f : α → Outcome β ε} {p0 y0 : Nat} {s s' : PS β ε}

theorem counters (h : Reach c xs tail f p0 y0 s) :
    s.processed = p0 + s.taken ∧
    s.yielded = y0 + (s.out.filter fun o => match o with | .value _ => true | _ => false).length ∧
    s.yielded - y0 ≤ s.processed - p0 := by
  have g := h.ginv
  have h1 := g.proc
  have h2 := g.yld
  have h3 := g.nv
  exact ⟨h1, h2, by omega⟩

/-- under a consumer that only calls `next`: the counts in terms of the source alone -/
theorem counters_of_prefix (h : ReachN c xs tail f p0 y0 s) :
    s.processed = p0 + s.taken ∧ s.yielded = y0 + nvals (emit c f (xs.take s.taken)) := by
  have hp := h.pinv
  refine ⟨hp.g.proc, ?_⟩
  rw [hp.g.yld]
  by_cases hd : s.pc = .done
  · rw [hp.out_done hd]; simp
  · by_cases hf : s.pc = .failed
    · obtain ⟨e, he⟩ := hp.out_failed hf
      rw [he]; simp
    · rw [hp.out_run hd hf]

/-- a stream that ended normally has processed every element -/
theorem counters_done (h : Reach c xs tail f p0 y0 s) (hd : s.pc = .done) :
    s.processed = p0 + xs.length := by
  have g := h.ginv
  obtain ⟨hc, hl, -⟩ := g.done_ hd
  have := g.win_eq (by simp [hd])
  rw [g.proc]; simp [hc] at this; omega

theorem counters_serial {g : α → SOutcome β ε} {s : SS β ε} (h : SReach c xs tail g p0 y0 s) :
    s.processed = p0 + ((xs.take s.drawn).filter fun x => (g x).returned).length ∧
    s.yielded = y0 + (s.out.filter fun o => match o with | .value _ => true | _ => false).length := by
  have i := h.sinv
  exact ⟨i.proc, i.yld⟩

/-- the counters of a run started at `(p0, y0)` are those of the same run started at `(0, 0)`
    plus `(p0, y0)`; every other component of the state is the same; one run is enabled iff
    the other is -/
theorem counters_additive (c : Cfg) (xs : List α) (tail : Option ε) (f : α → Outcome β ε) (p0 y0 : Nat)
    (ls : List (Label ε)) :
    runLabels c xs tail f (PS.init p0 y0) ls
      = (runLabels c xs tail f (PS.init 0 0) ls).map fun s =>
          { s with processed := p0 + s.processed, yielded := y0 + s.yielded } :=
  runLabels_shift c xs tail f p0 y0 (PS.init 0 0) ls

/-- consequence in the form "the second stream through the stage continues where the first one
    stopped": started at the counts `(p, y)` left by an earlier stream, it ends with `p +` / `y +` its own -/
theorem counters_two_streams (c : Cfg) (ys : List α) (tail : Option ε) (f : α → Outcome β ε)
    (p y : Nat) (ls : List (Label ε)) (s₂ s₂' : PS β ε)
    (h2 : runLabels c ys tail f (PS.init 0 0) ls = some s₂)
    (h2' : runLabels c ys tail f (PS.init p y) ls = some s₂') :
    s₂'.processed = p + s₂.processed ∧ s₂'.yielded = y + s₂.yielded := by
  rw [counters_additive, h2] at h2'
  cases h2'; exact ⟨rfl, rfl⟩

/-! ### non-vacuity: three elements, one `None` skipped, counters started at (7, 5) -/

def exCfg : Cfg := ⟨2, 0, true⟩
def exF (x : Nat) : Outcome Nat String := if x = 2 then .val none else .val (some (10 * x))
def exRun : List (Label String) :=
  [.next, .draw, .draw, .start 1, .start 0, .finish 1, .finish 0, .get, .next, .draw, .get, .draw,
   .flush, .start 2, .finish 2, .get, .next, .flush]

example : (runLabels exCfg [1, 2, 3] none exF (PS.init 7 5) exRun).map
      (fun s => (s.pc, s.processed, s.yielded, s.out))
    = some (.done, 10, 7, [.value (some 10), .value (some 30), .stop]) := by decide

/-- in-process, flat-map: one element expanding to three items (one of them `None`) counts
    once as processed and twice as yielded -/
example : (let s := sdrive exCfg [1] none (fun _ => SOutcome.iter [some 1, none, some 3]) 20
              (SS.init 0 0 : SS Nat String);
           (s.pc, s.processed, s.yielded, s.out))
    = (.done, 1, 2, [.value (some 1), .value (some 3), .stop]) := by decide

end Gpv.C13

#print axioms Gpv.C13.counters
#print axioms Gpv.C13.counters_of_prefix
#print axioms Gpv.C13.counters_done
#print axioms Gpv.C13.counters_serial
#print axioms Gpv.C13.counters_additive
#print axioms Gpv.C13.counters_two_streams
