/-
  C01 — the decorator is an ordered, None-filtered map: under EVERY schedule of the pool
  (labels `start i` / `finish i` are the adversary) a consumer that keeps calling `next`
  receives exactly `spec c f tail xs`; the in-process mode delivers the same sequence;
  no schedule deadlocks and every run is finite.  `spec` does not mention
  `nworkers` / `extracache`, so the result is the same for every pool geometry.

  All statements are about the executable model `Gpv.Model.Pipeline`
  (`step?`, `runLabels`, `sstep?`, `sdrive`, `spec`, `sspec`).
-/
import Gpv.Proofs.PipelineInv
import Gpv.Proofs.PipelineRun

namespace Gpv.C01
open Gpv Gpv.Pipe
variable {α β γ ε : Type}
variable {c : Cfg} {xs : List α} {tail : Option ε} {f : α → Outcome β ε} {p0 y0 : Nat} {s s' : PS β ε}

/-! ### safety: the window is the contiguous range `[taken, drawn)`, the output is the spec of the taken prefix -/

theorem par_safety (h : ReachN c xs tail f p0 y0 s) :
    s.taken ≤ s.drawn ∧ s.drawn ≤ xs.length ∧ NoErr f (xs.take s.taken) ∧
    (s.pc ≠ .failed → s.cache.map Prod.fst = List.range' s.taken (s.drawn - s.taken)) ∧
    ∃ term, s.out = emit c f (xs.take s.taken) ++ term ∧
      (term = [] ∨ (s.pc = .done ∧ term = [.stop]) ∨ (s.pc = .failed ∧ ∃ e, term = [.raised e])) := by
  have hp := h.pinv
  have g := hp.g
  refine ⟨by have := g.win_le; omega, g.drawn_le, hp.noerr, ?_, ?_⟩
  · intro hnf
    have h1 := g.win_eq hnf
    have h2 := g.idx
    rw [h2]; congr 1 <;> omega
  · by_cases hd : s.pc = .done
    · exact ⟨[.stop], hp.out_done hd, .inr (.inl ⟨hd, rfl⟩)⟩
    · by_cases hf : s.pc = .failed
      · obtain ⟨e, he⟩ := hp.out_failed hf
        exact ⟨[.raised e], he, .inr (.inr ⟨hf, e, rfl⟩)⟩
      · exact ⟨[], by simpa using hp.out_run hd hf, .inl rfl⟩

/-- a `next`-only consumer never sees the stream closed -/
theorem par_not_closed (h : ReachN c xs tail f p0 y0 s) : s.pc ≠ .closed := h.pinv.not_closed

/-- whatever the schedule, a finished stream has delivered exactly the specification -/
theorem par_final (h : ReachN c xs tail f p0 y0 s) (hfin : s.pc = .done ∨ s.pc = .failed) :
    s.out = spec c f tail xs := h.pinv.fin hfin

/-! ### liveness: no deadlock, every run is finite -/

theorem par_progress (hw : 1 ≤ c.nworkers) (h : ReachN c xs tail f p0 y0 s) (hnf : s.isFinal = false) :
    ∃ l : Label ε, l.isConsumerAbort = false ∧ (step? c xs tail f s l).isSome = true :=
  h.pinv.g.progress hw hnf

/-- the termination measure (it needs `xs` only): see `Gpv.Pipe.mu` -/
abbrev mu (xs : List α) (s : PS β ε) : Nat := Gpv.Pipe.mu xs s

theorem par_measure (h : ReachN c xs tail f p0 y0 s) (hnf : s.isFinal = false) {l : Label ε}
    (hl : l.isConsumerAbort = false) (hs : step? c xs tail f s l = some s') : mu xs s' < mu xs s :=
  h.pinv.g.measure hnf hl hs

/-- every run of non-abort labels through non-final states has at most `mu s` steps -/
theorem par_terminates (h : ReachN c xs tail f p0 y0 s) (ls : List (Label ε))
    (hl : ∀ l ∈ ls, l.isConsumerAbort = false)
    (hnf : ∀ k, k < ls.length → ∀ sk, runLabels c xs tail f s (ls.take k) = some sk → sk.isFinal = false)
    (hr : (runLabels c xs tail f s ls).isSome = true) : ls.length ≤ mu xs s :=
  h.pinv.g.run_length_le ls hl hnf hr

/-- an explicit bound for whole runs from the start -/
theorem par_run_bound (ls : List (Label ε)) (hl : ∀ l ∈ ls, l.isConsumerAbort = false)
    (hnf : ∀ k, k < ls.length → ∀ sk,
      runLabels c xs tail f (PS.init p0 y0) (ls.take k) = some sk → sk.isFinal = false)
    (hr : (runLabels c xs tail f (PS.init p0 y0) ls).isSome = true) : ls.length ≤ 6 * xs.length + 5 :=
  par_terminates (f := f) .init ls hl hnf hr

/-- every run of non-abort labels stays inside `ReachN`; with `par_progress` (it can be extended
    while not final), `par_terminates` (not for ever) and `par_final` this says: every maximal
    run under every schedule ends, and ends having delivered `spec`. -/
theorem par_run_delivers (ls : List (Label ε)) (hl : ∀ l ∈ ls, l.isConsumerAbort = false)
    (hr : runLabels c xs tail f (PS.init p0 y0) ls = some s) (hfin : s.isFinal = true) :
    s.out = spec c f tail xs := by
  have h : ReachN c xs tail f p0 y0 s := ReachN.run .init hl hr
  have hc := par_not_closed h
  apply par_final h
  cases hpc : s.pc <;> simp_all [PS.isFinal]

/-! ### the specification without failures -/

theorem spec_no_failure (c : Cfg) (f : α → Outcome β ε) (xs : List α) (h : NoErr f xs) :
    spec c f none xs
      = (xs.filterMap fun x => match f x with
          | .val v => if keep c v then some (Obs.value v) else none
          | .err _ => none) ++ [Obs.stop] := by
  induction xs with
  | nil => rfl
  | cons x xs ih =>
    obtain ⟨⟨v, hv⟩, h'⟩ := NoErr.cons_iff.1 h
    by_cases hk : keep c v = true <;> simp [spec, hv, hk, ih h']

/-! ### in-process execution -/

/-- the serial machine driven to the end delivers its specification, for every fuel `≥ sfuel g xs`
    `= 2 + Σ (2 + 2·items)` -/
theorem serial_final (c : Cfg) (xs : List α) (tail : Option ε) (g : α → SOutcome β ε) (p0 y0 : Nat) :
    ∃ bound, ∀ fuel, bound ≤ fuel → (sdrive c xs tail g fuel (SS.init p0 y0)).out = sspec c g tail xs :=
  ⟨sfuel g xs, fun fuel hf => sdrive_init p0 y0 fuel hf⟩

theorem serial_final_explicit (c : Cfg) (xs : List α) (tail : Option ε) (g : α → SOutcome β ε) (p0 y0 fuel : Nat)
    (hf : 2 + (xs.map fun x => 2 + 2 * (g x).items).sum ≤ fuel) :
    (sdrive c xs tail g fuel (SS.init p0 y0)).out = sspec c g tail xs :=
  sdrive_init p0 y0 fuel (by simp only [sfuel, sfuelFrom]; omega)

/-- a worker-style outcome seen by the in-process machine -/
def lift : Outcome β ε → SOutcome β ε
  | .val v => .plain v
  | .err e => .err e

theorem serial_eq_parallel (c : Cfg) (f : α → Outcome β ε) (tail : Option ε) (xs : List α) :
    sspec c (lift ∘ f) tail xs = spec c f tail xs := by
  induction xs with
  | nil => rfl
  | cons x xs ih =>
    cases hv : f x with
    | val v => simp [sspec, spec, lift, hv, expand, ih]
    | err e => simp [sspec, spec, lift, hv]

/-- both modes deliver the same sequence, for every `nworkers`, `extracache` and schedule -/
theorem serial_run_eq_parallel_run (h : ReachN c xs tail f p0 y0 s) (hfin : s.pc = .done ∨ s.pc = .failed)
    (c' : Cfg) (hc : c'.skipNone = c.skipNone) (p0' y0' fuel : Nat) (hf : sfuel (lift ∘ f) xs ≤ fuel) :
    (sdrive c' xs tail (lift ∘ f) fuel (SS.init p0' y0')).out = s.out := by
  rw [sdrive_init p0' y0' fuel hf, serial_eq_parallel, par_final h hfin]
  have hk : ∀ v : Option β, keep c' v = keep c v := by intro v; simp [keep, hc]
  clear h hfin hf
  induction xs with
  | nil => rfl
  | cons x xs ih => cases hv : f x <;> simp [spec, hv, hk, ih]

/-! ### chaining two stages -/

/-- the payloads of the delivered values -/
def delivered (o : List (Obs β ε)) : List (Option β) :=
  o.filterMap fun o => match o with
    | .value v => some v
    | _ => none

/-- per-element behaviour of stage 1 followed by stage 2: stage 1's result `v` is dropped
    (an empty expansion) if stage 1 does not keep it, otherwise it is what stage 2 makes of `v` -/
def compose (c₁ : Cfg) (f₁ : α → Outcome β ε) (f₂ : Option β → Outcome γ ε) (x : α) : SOutcome γ ε :=
  match f₁ x with
  | .val v => if keep c₁ v then lift (f₂ v) else .iter []
  | .err e => .err e

theorem chain (c₁ c₂ : Cfg) (f₁ : α → Outcome β ε) (f₂ : Option β → Outcome γ ε) (xs : List α)
    (h : NoErr f₁ xs) :
    spec c₂ f₂ none (delivered (spec c₁ f₁ none xs)) = sspec c₂ (compose c₁ f₁ f₂) none xs := by
  induction xs with
  | nil => rfl
  | cons x xs ih =>
    obtain ⟨⟨v, hv⟩, h'⟩ := NoErr.cons_iff.1 h
    have ih := ih h'
    by_cases hk : keep c₁ v = true
    · have hd : delivered (spec c₁ f₁ none (x :: xs)) = v :: delivered (spec c₁ f₁ none xs) := by
        simp [spec, hv, hk, delivered]
      rw [hd]
      cases hw : f₂ v with
      | val w => simp [spec, sspec, compose, hv, hk, hw, lift, expand, ih]
      | err e => simp [spec, sspec, compose, hv, hk, hw, lift]
    · have hd : delivered (spec c₁ f₁ none (x :: xs)) = delivered (spec c₁ f₁ none xs) := by
        simp [spec, hv, hk]
      rw [hd, ih]
      simp [sspec, compose, hv, hk, expand]

/-- with both stages failure-free: `f₂ (f₁ x)` for the kept `f₁ x`, in order, filtered again -/
theorem chain_values (c₁ c₂ : Cfg) (f₁ : α → Outcome β ε) (f₂ : Option β → Outcome γ ε) (xs : List α)
    (h₁ : NoErr f₁ xs) (h₂ : NoErr f₂ (delivered (spec c₁ f₁ none xs))) :
    sspec c₂ (compose c₁ f₁ f₂) none xs
      = ((delivered (spec c₁ f₁ none xs)).filterMap fun v => match f₂ v with
          | .val w => if keep c₂ w then some (Obs.value w) else none
          | .err _ => none) ++ [Obs.stop] := by
  rw [← chain c₁ c₂ f₁ f₂ xs h₁, spec_no_failure c₂ f₂ _ h₂]

/-! ### non-vacuity: two tasks finishing out of order, a `None` skipped, one task left to the flush -/

def exCfg : Cfg := ⟨2, 0, true⟩
def exF (x : Nat) : Outcome Nat String := if x = 2 then .val none else .val (some (10 * x))
def exRun : List (Label String) :=
  [.next, .draw, .draw, .start 1, .start 0, .finish 1, .finish 0, .get, .next, .draw, .get, .draw,
   .flush, .start 2, .finish 2, .get, .next, .flush]

example : (runLabels exCfg [1, 2, 3] none exF (PS.init 0 0) exRun).map (fun s => (s.pc, s.out))
    = some (.done, [.value (some 10), .value (some 30), .stop]) := by decide

example : spec exCfg exF none [1, 2, 3] = [.value (some 10), .value (some 30), .stop] := by decide

/-- the same stream with a failing call: prefix, then the exception, nothing after it -/
def exG (x : Nat) : Outcome Nat String := if x = 2 then .err "boom" else .val (some (10 * x))

example : (runLabels exCfg [1, 2, 3] none exG (PS.init 0 0)
      [.next, .draw, .draw, .finish 1, .start 0, .finish 0, .get, .next, .draw, .get]).map
        (fun s => (s.pc, s.out, s.pool))
    = some (.failed, [.value (some 10), .raised "boom"], .terminated) := by decide

example : (sdrive exCfg [1, 2, 3] none (lift ∘ exF) 20 (SS.init 0 0)).out
    = [.value (some 10), .value (some 30), .stop] := by decide

end Gpv.C01

#print axioms Gpv.C01.par_safety
#print axioms Gpv.C01.par_not_closed
#print axioms Gpv.C01.par_final
#print axioms Gpv.C01.par_progress
#print axioms Gpv.C01.par_measure
#print axioms Gpv.C01.par_terminates
#print axioms Gpv.C01.par_run_bound
#print axioms Gpv.C01.par_run_delivers
#print axioms Gpv.C01.spec_no_failure
#print axioms Gpv.C01.serial_final
#print axioms Gpv.C01.serial_final_explicit
#print axioms Gpv.C01.serial_eq_parallel
#print axioms Gpv.C01.serial_run_eq_parallel_run
#print axioms Gpv.C01.chain
#print axioms Gpv.C01.chain_values
