/-
  C17, floating-point clause — machine-checked rounding-error bounds for the exponential
  running mean `a = max(alpha, 1/n'); acc = acc*(1 - a) + obj*a` (`RMean.push`).

  Model (Gpv/Proofs/FloatRunning.lean, on top of Gpv/Proofs/FloatMean.lean): every operation
  that touches the data returns its exact result times `1 + δ`, `|δ| ≤ u` (`u` unit roundoff),
  δ's arbitrary and independent:  `c = fl(1 - a)`, `p = fl(acc*c)`, `q = fl(obj*a)`,
  `acc' = fl(p + q)`.
  CHOICE: the weight `a` of each step is GIVEN — the floating-point number the program holds
  after `max(alpha, 1/n')`, a number in `[0, 1]` used as is — and the exact reference recursion
  uses the SAME weights.  (So the error of computing `alpha = 1/lifetime` and `1/n'` themselves
  is not part of these statements; with the ideal weights `effA (1/l) n` the reference is
  literally `RMean.push`, see `exact_is_the_float_run`.)
  `FlRRun u v₀ ps v` : `v` is a possible value after the steps `ps = [(a₁,x₁), …]` from `v₀`;
  `FlRMean u l xs v`  : the same with the weights of `RunningMean(lifetime = l)` from `0`.

  Proved, for EVERY possible float run (weights in `[amin, 1]`, `|x| ≤ M`, `u ≤ 1/4`, `4u < amin`):

  * `rmean_float_bounded`   |acc| ≤ M·amin/(amin − 4u) = M·(1 + c·u), `c = 4/(amin − 4u)`,
        for ANY number of steps.  `c` is independent of `n` but NOT of the weight: it is
        ≈ 4·lifetime.  This dependence is real in the standard model
        (`rmean_float_stationary`: a float state `F ≥ M (1 + 2u/(a (1+u)³))` that reproduces
        itself for ever) — a bound `M (1 + c u)` with `c` independent of `a` is FALSE.
  * `rmean_float_error`     |acc − exact| ≤ ρ^k·|acc₀ − exact₀| + (1 − ρ^k)·E,
        `ρ = (1 − amin)(1+u)³`, `E = 4uM/(amin − 4u)`: an initial error is forgotten
        geometrically; from a common start `|acc − exact| ≤ 4uM/(amin − 4u)` for ever
        (`rmean_float_error_const`, `rmean_float_error_model` with `amin = 1/lifetime`).
        The recursion is `e' ≤ (1−a)(1+u)³ e + ((1+u)³ − 1) M` — THREE roundings act on the old
        value (`1 − a`, the product, the sum), so the informal `(1−a)(1+2u) e + 3uM` and its
        fixed point `3uM/(a − 2u)` are slightly too small; the corrected steady state is
        `((1+u)³ − 1) M / (a (1+u)³ − ((1+u)³ − 1)) ≈ 3uM/(a − 3u)` (`rmean_float_error_sharp`).
  * `rmean_float_warmup`    weights `1/k` (the plain mean): `|acc − mean| ≤ 3 (n+1) u M`
        for `8 n u ≤ 1` (`rmean_float_warmup_model`: natural lifetime `L`, `n ≤ L`).
-/
import Gpv.Proofs.FloatRunning
import Gpv.Props.C17
import Gpv.Props.C05Float
set_option linter.unusedSectionVars false

namespace Gpv.C17Float
open Gpv
variable {K : Type} [Field K] [LinearOrder K] [IsStrictOrderedRing K]

/-! ### 1. the model -/

theorem flRStep_def (u a v x v' : K) :
    FlRStep u a v x v' ↔ ∃ c p q : K, Rnd u (1 - a) c ∧ Rnd u (v * c) p ∧ Rnd u (x * a) q
      ∧ Rnd u (p + q) v' := Iff.rfl

theorem flRRun_nil (u v v' : K) : FlRRun u v [] v' ↔ v' = v := Iff.rfl

theorem flRRun_cons (u v a x : K) (ps : List (K × K)) (v' : K) :
    FlRRun u v ((a, x) :: ps) v' ↔ ∃ v1, FlRStep u a v x v1 ∧ FlRRun u v1 ps v' := Iff.rfl

/-- float runs of `RunningMean(lifetime = l)` over `xs`: weights `max(1/l, 1/k)`, start `0` -/
def FlRMean (u l : K) (xs : List K) (v : K) : Prop := FlRRun u 0 (modelPairs (1 / l) 0 xs) v

/-- the weights used: step `k` (0-based) has weight `effA (1/l) k = max(1/l, 1/(k+1))` -/
theorem modelPairs_def (alpha : K) (j : ℕ) (x : K) (xs : List K) :
    modelPairs alpha j (x :: xs) = (effA alpha j, x) :: modelPairs alpha (j + 1) xs := rfl

/-- the exact run of the model (`RMean.push` folded, `C17.runK`) is a possible float run -/
theorem exact_run_possible {u : K} (hu : 0 ≤ u) (l : K) (xs : List K) :
    FlRMean u l xs (C17.runK l xs).acc := by
  have : (C17.runK l xs).acc = wrun 0 (modelPairs (1 / l) 0 xs) := RMean.run_acc_eq_wrun l xs
  rw [this]; exact FlRRun.of_exact hu 0 _

/-- with `u = 0` the only possible run is the model's -/
theorem exact_is_the_float_run (l : K) (xs : List K) (v : K) :
    FlRMean 0 l xs v ↔ v = (C17.runK l xs).acc := by
  have : (C17.runK l xs).acc = wrun 0 (modelPairs (1 / l) 0 xs) := RMean.run_acc_eq_wrun l xs
  rw [this]; exact flRRun_zero_iff 0 _ v

/-- generally: `u = 0` ↔ the exact recursion with the same weights -/
theorem exact_is_the_float_run_general (v : K) (ps : List (K × K)) (v' : K) :
    FlRRun 0 v ps v' ↔ v' = wrun v ps := flRRun_zero_iff v ps v'

theorem exact_run_possible_general {u : K} (hu : 0 ≤ u) (v : K) (ps : List (K × K)) :
    FlRRun u v ps (wrun v ps) := FlRRun.of_exact hu v ps

/-- a larger unit roundoff allows more runs -/
theorem float_run_mono {u u' : K} (h : u ≤ u') {ps : List (K × K)} {v v' : K}
    (hr : FlRRun u v ps v') : FlRRun u' v ps v' := hr.mono h

theorem flRRun_nil_intro (u v : K) : FlRRun u v [] v := rfl

theorem flRRun_cons_intro {u a x v v1 v' : K} {ps : List (K × K)} (hs : FlRStep u a v x v1)
    (hr : FlRRun u v1 ps v') : FlRRun u v ((a, x) :: ps) v' := ⟨v1, hs, hr⟩

/-- runs compose (warm-up phase, then decay phase) -/
theorem float_run_append {u : K} {ps qs : List (K × K)} {v v1 v2 : K}
    (h1 : FlRRun u v ps v1) (h2 : FlRRun u v1 qs v2) : FlRRun u v (ps ++ qs) v2 := h1.append h2

/-! ### 2. boundedness, uniformly in the number of observations -/

/-- one step: `|acc'| ≤ (1+u)³ ((1 − a)|acc| + a|x|)` — a convex combination, inflated by
    three roundings -/
theorem rmean_step_magnitude {u a v x v' : K} (h : FlRStep u a v x v') (ha0 : 0 ≤ a) (ha1 : a ≤ 1) :
    |v'| ≤ (1 + u) ^ 3 * ((1 - a) * |v| + a * |x|) := h.magnitude ha0 ha1

/-- **boundedness.**  Weights in `[amin, 1]`, `|x| ≤ M`, `4u < amin`: every float value of the
    accumulator stays within `M·amin/(amin − 4u)`, whatever the number of steps. -/
theorem rmean_float_bounded {u amin M : K} (hu : 0 ≤ u) (hu4 : u ≤ 1 / 4) (hM : 0 ≤ M)
    (ha : 4 * u < amin) {ps : List (K × K)} (hok : StepsOK amin M ps) {v v' : K}
    (h : FlRRun u v ps v') (hv : |v| ≤ M * amin / (amin - 4 * u)) :
    |v'| ≤ M * amin / (amin - 4 * u) := by
  obtain ⟨h1, h2⟩ := ball_four hu hu4 hM ha
  exact FlRRun.bounded (by linarith) h1 h2 h hok hv

/-- the same in the form `M (1 + c u)`, `c = 4/(amin − 4u)`, for a run started at `0` -/
theorem rmean_float_bounded_zero {u amin M : K} (hu : 0 ≤ u) (hu4 : u ≤ 1 / 4) (hM : 0 ≤ M)
    (ha : 4 * u < amin) {ps : List (K × K)} (hok : StepsOK amin M ps) {v' : K}
    (h : FlRRun u 0 ps v') : |v'| ≤ M * (1 + 4 / (amin - 4 * u) * u) := by
  have hd : amin - 4 * u ≠ 0 := by linarith
  have hd0 : 0 < amin - 4 * u := by linarith
  have e : M * (1 + 4 / (amin - 4 * u) * u) = M * amin / (amin - 4 * u) := by
    field_simp; ring
  rw [e]
  refine rmean_float_bounded hu hu4 hM ha hok h ?_
  rw [abs_zero]
  have : 0 ≤ M * amin := mul_nonneg hM (by linarith)
  positivity

/-- for the model's weights: `RunningMean(lifetime = l)`, `l ≥ 1`, `4 u l < 1`:
    `|acc| ≤ M/(1 − 4 u l)` for ever -/
theorem rmean_float_bounded_model {u l M : K} (hu : 0 ≤ u) (hM : 0 ≤ M) (hl : 1 ≤ l)
    (hul : 4 * u * l < 1) {xs : List K} (hx : ∀ x ∈ xs, |x| ≤ M) {v : K} (h : FlRMean u l xs v) :
    |v| ≤ M / (1 - 4 * u * l) := by
  have hl0 : 0 < l := by linarith
  have hu4 : u ≤ 1 / 4 := by nlinarith
  have ha : 4 * u < 1 / l := by rw [lt_div_iff₀ hl0]; exact hul
  have hok := modelPairs_ok (one_div_le_one_of_one_le hl) 0 hx
  have hb := rmean_float_bounded hu hu4 hM ha hok h (by
    rw [abs_zero]
    have h1 : 0 < 1 / l - 4 * u := by linarith
    have h2 : 0 ≤ M * (1 / l) := by positivity
    positivity)
  have e : M * (1 / l) / (1 / l - 4 * u) = M / (1 - 4 * u * l) := by
    have h1 : 1 / l - 4 * u ≠ 0 := by linarith
    have h2 : 1 - 4 * u * l ≠ 0 := by linarith
    field_simp
  rwa [e] at hb

/-- **the dependence on the weight is real.**  For `0 < a ≤ 1` with `(1+u)³ − 1 < a` the value
    `F = M a (1+u)² / (1 − (1−a)(1+u)³)` is a float fixed point of the step with the constant
    observation `M` (all roundings upwards), and `F − M ≥ 2 u M / (a (1+u)³)`.  So no bound
    of the form `M (1 + c u)` with `c` independent of the weight can hold. -/
theorem rmean_float_stationary {u a M : K} (hu : 0 ≤ u) (hM : 0 ≤ M) (ha0 : 0 < a) (ha1 : a ≤ 1)
    (ha : (1 + u) ^ 3 - 1 < a) (n : ℕ) :
    FlRRun u (M * a * (1 + u) ^ 2 / (1 - (1 - a) * (1 + u) ^ 3)) (List.replicate n (a, M))
        (M * a * (1 + u) ^ 2 / (1 - (1 - a) * (1 + u) ^ 3))
      ∧ 2 * u * M / (a * (1 + u) ^ 3)
          ≤ M * a * (1 + u) ^ 2 / (1 - (1 - a) * (1 + u) ^ 3) - M := by
  have hγ := gam3_nonneg hu
  have hden : 0 < 1 - (1 - a) * (1 + u) ^ 3 := by nlinarith
  have hden' : 1 - (1 - a) * (1 + u) ^ 3 ≠ 0 := hden.ne'
  set F : K := M * a * (1 + u) ^ 2 / (1 - (1 - a) * (1 + u) ^ 3) with hF
  have habs : |u| ≤ u := by rw [abs_of_nonneg hu]
  have hstep : FlRStep u a F M F := by
    have := flRStep_of_deltas (u := u) a F M u u u u habs habs habs habs
    have hFd : F * (1 - (1 - a) * (1 + u) ^ 3) = M * a * (1 + u) ^ 2 := by
      rw [hF]; exact div_mul_cancel₀ _ hden'
    convert this using 1
    linear_combination hFd
  constructor
  · induction n with
    | zero => exact rfl
    | succ n ih => exact ⟨F, hstep, ih⟩
  · have hg3 : 0 < a * (1 + u) ^ 3 := by positivity
    have hFd : F * (1 - (1 - a) * (1 + u) ^ 3) = M * a * (1 + u) ^ 2 := by
      rw [hF]; exact div_mul_cancel₀ _ hden'
    have e : F - M = M * (a * (1 + u) ^ 2 + (1 - a) * (1 + u) ^ 3 - 1) / (1 - (1 - a) * (1 + u) ^ 3) := by
      rw [eq_div_iff hden']
      linear_combination hFd
    rw [e, div_le_div_iff₀ hg3 hden]
    -- numerator ≥ 2u, denominator ≤ a (1+u)³
    have hnum : 2 * u ≤ a * (1 + u) ^ 2 + (1 - a) * (1 + u) ^ 3 - 1 := by
      have e2 : a * (1 + u) ^ 2 + (1 - a) * (1 + u) ^ 3 - 1
          = 2 * u + (1 - a) * u + u ^ 2 * (a + (1 - a) * (3 + u)) := by ring
      rw [e2]
      have : 0 ≤ 1 - a := by linarith
      have h3 : 0 ≤ (1 - a) * u := by positivity
      have h4 : 0 ≤ u ^ 2 * (a + (1 - a) * (3 + u)) := by positivity
      linarith
    have hdle : 1 - (1 - a) * (1 + u) ^ 3 ≤ a * (1 + u) ^ 3 := by linarith
    have huM : 0 ≤ 2 * u * M := by positivity
    calc 2 * u * M * (1 - (1 - a) * (1 + u) ^ 3) ≤ 2 * u * M * (a * (1 + u) ^ 3) :=
          mul_le_mul_of_nonneg_left hdle huM
      _ = M * (2 * u) * (a * (1 + u) ^ 3) := by ring
      _ ≤ M * (a * (1 + u) ^ 2 + (1 - a) * (1 + u) ^ 3 - 1) * (a * (1 + u) ^ 3) :=
          mul_le_mul_of_nonneg_right (mul_le_mul_of_nonneg_left hnum hM) hg3.le

/-! ### 3. the error against the exact recursion -/

/-- one step of the error recursion (any weight in `[0,1]`, any reference `ex`) -/
theorem rmean_step_error {u a v x v' : K} (h : FlRStep u a v x v') (ha0 : 0 ≤ a) (ha1 : a ≤ 1) (ex : K) :
    |v' - (ex * (1 - a) + x * a)|
      ≤ (1 - a) * (1 + u) ^ 3 * |v - ex| + ((1 + u) ^ 3 - 1) * ((1 - a) * |ex| + a * |x|) :=
  h.err ha0 ha1 ex

/-- **error of a run, sharp form.**  `ρ = (1 − amin)(1+u)³`; `E` any solution of
    `ρ E + ((1+u)³ − 1) M ≤ E` (the best one is `((1+u)³ − 1) M / (1 − ρ)`) -/
theorem rmean_float_error_sharp {u amin M E : K} (hu : 0 ≤ u) (hamin : 0 ≤ amin) (hamin1 : amin ≤ 1)
    (hE : (1 - amin) * (1 + u) ^ 3 * E + ((1 + u) ^ 3 - 1) * M ≤ E)
    {ps : List (K × K)} (hok : StepsOK amin M ps) {v v' ex : K} (h : FlRRun u v ps v')
    (hex : |ex| ≤ M) :
    |v' - wrun ex ps| ≤ ((1 - amin) * (1 + u) ^ 3) ^ ps.length * |v - ex|
        + (1 - ((1 - amin) * (1 + u) ^ 3) ^ ps.length) * E :=
  FlRRun.err hu hamin hamin1 hE h hok hex

/-- **error of a run.**  Weights in `[amin, 1]`, `|x| ≤ M`, `4u < amin ≤ 1`; the float run
    starts at `v`, the exact one at `ex` (`|ex| ≤ M`): after `k` steps
    `|acc − exact| ≤ ρ^k |v − ex| + (1 − ρ^k)·4uM/(amin − 4u)` -/
theorem rmean_float_error {u amin M : K} (hu : 0 ≤ u) (hu4 : u ≤ 1 / 4) (hM : 0 ≤ M)
    (ha : 4 * u < amin) (ha1 : amin ≤ 1) {ps : List (K × K)} (hok : StepsOK amin M ps)
    {v v' ex : K} (h : FlRRun u v ps v') (hex : |ex| ≤ M) :
    |v' - wrun ex ps| ≤ ((1 - amin) * (1 + u) ^ 3) ^ ps.length * |v - ex|
        + (1 - ((1 - amin) * (1 + u) ^ 3) ^ ps.length) * (4 * u * M / (amin - 4 * u)) :=
  FlRRun.err hu (by linarith) ha1 (steady_four hu hu4 hM ha).2 h hok hex

/-- **decay phase / constant weight, common start**: `|acc − exact| ≤ 4uM/(amin − 4u)` for ever -/
theorem rmean_float_error_const {u amin M : K} (hu : 0 ≤ u) (hu4 : u ≤ 1 / 4) (hM : 0 ≤ M)
    (ha : 4 * u < amin) (ha1 : amin ≤ 1) {ps : List (K × K)} (hok : StepsOK amin M ps)
    {v v' : K} (h : FlRRun u v ps v') (hv : |v| ≤ M) :
    |v' - wrun v ps| ≤ 4 * u * M / (amin - 4 * u) := by
  have hE := (steady_four hu hu4 hM ha).1
  have := rmean_float_error hu hu4 hM ha ha1 hok h hv
  rw [sub_self, abs_zero, mul_zero, zero_add] at this
  refine this.trans ?_
  have hρ : 0 ≤ ((1 - amin) * (1 + u) ^ 3) ^ ps.length :=
    pow_nonneg (mul_nonneg (by linarith) (by positivity)) _
  nlinarith

/-- the constant-weight case spelled out: `ps = [(a, x₁), (a, x₂), …]` -/
theorem rmean_float_error_constant_weight {u a M : K} (hu : 0 ≤ u) (hu4 : u ≤ 1 / 4) (hM : 0 ≤ M)
    (ha : 4 * u < a) (ha1 : a ≤ 1) {xs : List K} (hx : ∀ x ∈ xs, |x| ≤ M)
    {v v' : K} (h : FlRRun u v (xs.map fun x => (a, x)) v') (hv : |v| ≤ M) :
    |v' - wrun v (xs.map fun x => (a, x))| ≤ 4 * u * M / (a - 4 * u) := by
  refine rmean_float_error_const hu hu4 hM ha ha1 ?_ h hv
  intro p hp
  obtain ⟨x, hxm, rfl⟩ := List.mem_map.mp hp
  exact ⟨le_rfl, ha1, hx x hxm⟩

/-- for the model: `RunningMean(lifetime = l)`, `l ≥ 1`, `4 u l < 1`, over ALL phases:
    `|float acc − RMean acc| ≤ 4 u M/(1/l − 4u) = 4 u l M/(1 − 4 u l)` -/
theorem rmean_float_error_model {u l M : K} (hu : 0 ≤ u) (hM : 0 ≤ M) (hl : 1 ≤ l)
    (hul : 4 * u * l < 1) {xs : List K} (hx : ∀ x ∈ xs, |x| ≤ M) {v : K} (h : FlRMean u l xs v) :
    |v - (C17.runK l xs).acc| ≤ 4 * u * l * M / (1 - 4 * u * l) := by
  have hl0 : 0 < l := by linarith
  have hu4 : u ≤ 1 / 4 := by nlinarith
  have ha : 4 * u < 1 / l := by rw [lt_div_iff₀ hl0]; exact hul
  have hok := modelPairs_ok (one_div_le_one_of_one_le hl) 0 hx
  have hb := rmean_float_error_const hu hu4 hM ha (one_div_le_one_of_one_le hl) hok h
    (by rw [abs_zero]; exact hM)
  have hr : (C17.runK l xs).acc = wrun 0 (modelPairs (1 / l) 0 xs) := RMean.run_acc_eq_wrun l xs
  rw [hr]
  have e : 4 * u * M / (1 / l - 4 * u) = 4 * u * l * M / (1 - 4 * u * l) := by
    have h1 : 1 / l - 4 * u ≠ 0 := by linarith
    have h2 : 1 - 4 * u * l ≠ 0 := by linarith
    field_simp
  rwa [e] at hb

/-! ### 4. the warm-up phase: weights `1/k`, the plain mean -/

/-- division-free invariant of the warm-up phase -/
theorem rmean_float_warmup_defect {u M : K} (hu : 0 ≤ u) (hM : 0 ≤ M) {xs : List K}
    (hx : ∀ x ∈ xs, |x| ≤ M) (hsmall : 8 * (xs.length : K) * u ≤ 1) {v : K}
    (h : FlRRun u 0 (warmPairs 0 xs) v) :
    |(xs.length : K) * v - xs.sum| ≤ 3 * (xs.length : K) * ((xs.length : K) + 1) * u * M := by
  have := FlRRun.warm_inv hu hM xs 0 0 v 0 h hx (by simp) (by simp)
    (by rw [Nat.zero_add]; linarith)
  simpa using this

/-- **warm-up.**  With the weights `1, 1/2, …, 1/n` the float value is within
    `3 (n + 1) u M` of the mean (`8 n u ≤ 1`) -/
theorem rmean_float_warmup {u M : K} (hu : 0 ≤ u) {xs : List K} (hne : xs ≠ [])
    (hx : ∀ x ∈ xs, |x| ≤ M) (hsmall : 8 * (xs.length : K) * u ≤ 1) {v : K}
    (h : FlRRun u 0 (warmPairs 0 xs) v) :
    |v - xs.sum / (xs.length : K)| ≤ 3 * ((xs.length : K) + 1) * u * M := by
  have hM := C05Float.bound_nonneg hne hx
  have hn : (0 : K) < (xs.length : K) := Nat.cast_pos.mpr (List.length_pos_iff.mpr hne)
  have hd := rmean_float_warmup_defect hu hM hx hsmall h
  have e : v - xs.sum / (xs.length : K) = ((xs.length : K) * v - xs.sum) / (xs.length : K) := by
    field_simp
  rw [e, abs_div, abs_of_pos hn, div_le_iff₀ hn]
  refine hd.trans (le_of_eq ?_)
  ring

/-- for the model: natural lifetime `L`, at most `L` observations — the float running mean is
    within `3 (n + 1) u M` of what `RunningMean` (= the plain mean, C17) reports -/
theorem rmean_float_warmup_model {u M : K} (hu : 0 ≤ u) {L : ℕ} (hL : 1 ≤ L) {xs : List K}
    (hne : xs ≠ []) (hlen : xs.length ≤ L) (hx : ∀ x ∈ xs, |x| ≤ M)
    (hsmall : 8 * (xs.length : K) * u ≤ 1) {v : K} (h : FlRMean u (L : K) xs v) :
    |v - (C17.run L xs).acc| ≤ 3 * ((xs.length : K) + 1) * u * M
      ∧ |v - batchMean xs| ≤ 3 * ((xs.length : K) + 1) * u * M := by
  unfold FlRMean at h
  rw [modelPairs_warm hL 0 xs (by omega)] at h
  have := rmean_float_warmup hu hne hx hsmall h
  rw [C17.rmean_warmup_eq_mean hL xs hlen hne]
  exact ⟨this, this⟩

/-! ### 5. non-vacuity over ℚ: `RunningMean(lifetime = 2)`, `xs = [4, 2, 8]`, `u = 1/1000`;
    weights `1, 1/2, 1/2`; exact values `4, 3, 11/2` -/

example : modelPairs (1 / (2 : ℚ)) 0 [4, 2, 8] = [(1, 4), (1 / 2, 2), (1 / 2, 8)] := by
  norm_num [modelPairs, effA, pymax]

example : (C17.runK (2 : ℚ) [4, 2, 8]).acc = 11 / 2 := by
  norm_num [C17.runK, RMean.push, RMean.pushWith, RMean.init, pymax]

/-- a genuinely perturbed run -/
example : ∃ v : ℚ, FlRMean (1 / 1000) 2 [4, 2, 8] v ∧ v ≠ 11 / 2
    ∧ v = 5505500994988495504004001 / 1000000000000000000000000
    ∧ |v - 11 / 2| ≤ 4 * (1 / 1000) * 2 * 8 / (1 - 4 * (1 / 1000) * 2) := by
  have hp : modelPairs (1 / (2 : ℚ)) 0 [4, 2, 8] = [(1, 4), (1 / 2, 2), (1 / 2, 8)] := by
    norm_num [modelPairs, effA, pymax]
  have s1 := flRStep_of_deltas (u := (1 / 1000 : ℚ)) 1 0 4 (1 / 1000) (-1 / 1000) (1 / 1000) (1 / 1000)
    (by norm_num [abs_le]) (by norm_num [abs_le]) (by norm_num [abs_le]) (by norm_num [abs_le])
  have s2 := fun w : ℚ => flRStep_of_deltas (u := (1 / 1000 : ℚ)) (1 / 2) w 2 (-1 / 1000) (1 / 1000)
    (1 / 1000) (-1 / 1000) (by norm_num [abs_le]) (by norm_num [abs_le]) (by norm_num [abs_le])
    (by norm_num [abs_le])
  have s3 := fun w : ℚ => flRStep_of_deltas (u := (1 / 1000 : ℚ)) (1 / 2) w 8 (1 / 1000) (1 / 1000)
    (-1 / 1000) (1 / 1000) (by norm_num [abs_le]) (by norm_num [abs_le]) (by norm_num [abs_le])
    (by norm_num [abs_le])
  have r := flRRun_cons_intro s1 (flRRun_cons_intro (s2 _) (flRRun_cons_intro (s3 _)
    (flRRun_nil_intro _ _)))
  rw [← hp] at r
  refine ⟨_, r, ?_, ?_, ?_⟩ <;> norm_num [abs_le]

/-- and the theorems apply to every such run -/
example (v : ℚ) (h : FlRMean (1 / 1000) 2 [4, 2, 8] v) :
    |v - 11 / 2| ≤ 4 * (1 / 1000) * 2 * 8 / (1 - 4 * (1 / 1000) * 2) ∧ |v| ≤ 8 / (1 - 4 * (1 / 1000) * 2) := by
  have hx : ∀ x ∈ ([4, 2, 8] : List ℚ), |x| ≤ 8 := by
    intro x hx; simp at hx; rcases hx with rfl | rfl | rfl <;> norm_num [abs_le]
  have h1 := rmean_float_error_model (u := (1 / 1000 : ℚ)) (l := 2) (M := 8) (by norm_num)
    (by norm_num) (by norm_num) (by norm_num) hx h
  have h2 := rmean_float_bounded_model (u := (1 / 1000 : ℚ)) (l := 2) (M := 8) (by norm_num)
    (by norm_num) (by norm_num) (by norm_num) hx h
  have e : (C17.runK (2 : ℚ) [4, 2, 8]).acc = 11 / 2 := by
    norm_num [C17.runK, RMean.push, RMean.pushWith, RMean.init, pymax]
  rw [e] at h1
  exact ⟨h1, h2⟩

end Gpv.C17Float

#print axioms Gpv.C17Float.flRStep_def
#print axioms Gpv.C17Float.flRRun_nil
#print axioms Gpv.C17Float.flRRun_cons
#print axioms Gpv.C17Float.modelPairs_def
#print axioms Gpv.C17Float.exact_run_possible
#print axioms Gpv.C17Float.exact_is_the_float_run
#print axioms Gpv.C17Float.exact_is_the_float_run_general
#print axioms Gpv.C17Float.exact_run_possible_general
#print axioms Gpv.C17Float.float_run_mono
#print axioms Gpv.C17Float.flRRun_cons_intro
#print axioms Gpv.C17Float.float_run_append
#print axioms Gpv.C17Float.rmean_step_magnitude
#print axioms Gpv.C17Float.rmean_float_bounded
#print axioms Gpv.C17Float.rmean_float_bounded_zero
#print axioms Gpv.C17Float.rmean_float_bounded_model
#print axioms Gpv.C17Float.rmean_float_stationary
#print axioms Gpv.C17Float.rmean_step_error
#print axioms Gpv.C17Float.rmean_float_error_sharp
#print axioms Gpv.C17Float.rmean_float_error
#print axioms Gpv.C17Float.rmean_float_error_const
#print axioms Gpv.C17Float.rmean_float_error_constant_weight
#print axioms Gpv.C17Float.rmean_float_error_model
#print axioms Gpv.C17Float.rmean_float_warmup_defect
#print axioms Gpv.C17Float.rmean_float_warmup
#print axioms Gpv.C17Float.rmean_float_warmup_model
