/-
  C11 — who owns which numpy buffer.  In the ownership model `Gpv.Model.Store`:
  no accumulator update ever writes into a buffer of the caller, every reference an
  accumulator keeps points to a buffer the accumulator allocated itself (so it never
  aliases an argument, and a later in-place change of a passed array cannot reach it),
  merges allocate their result and write nowhere, and reading changes nothing.
  The pinned `Minimum`/`Maximum` (before the repair) is the counterexample: it keeps
  the caller's array and later writes into it.

  Values are abstracted away in the model; the statements are about allocation,
  aliasing and the write log only.
-/
import Gpv.Model.Store

namespace Gpv.C11
open Gpv Gpv.Store

/-! ### well-formedness -/

/-- the reference points into the heap -/
def Ref.Valid (h : Heap) : Ref → Prop
  | .arr l => l < h.owners.length
  | _ => True

/-- the reference is `None`, a number, or an array allocated by the accumulator -/
def AccOwned (h : Heap) : Ref → Prop
  | .arr l => h.ownerOf l = some .acc
  | _ => True

/-- every logged write went to a buffer of the accumulator -/
def Good (h : Heap) : Prop := ∀ l ∈ h.writes, h.ownerOf l = some .acc

/-- `h'` is `h` after some accumulator activity: existing locations keep their owner, and
    everything written in between is owned by the accumulator -/
structure Step (h h' : Heap) : Prop where
  ext : ∃ e, h'.owners = h.owners ++ e
  wr : ∃ ws, h'.writes = h.writes ++ ws ∧ ∀ l ∈ ws, h'.ownerOf l = some .acc

theorem AccOwned.valid {h : Heap} {r : Ref} (a : AccOwned h r) : Ref.Valid h r := by
  cases r with
  | arr l =>
    simp only [AccOwned, Heap.ownerOf] at a
    simp only [Ref.Valid]
    rcases Nat.lt_or_ge l h.owners.length with h1 | h1
    · exact h1
    · rw [List.getElem?_eq_none h1] at a; cases a
  | _ => trivial

theorem ownerOf_ext {h h' : Heap} (e : ∃ e, h'.owners = h.owners ++ e) {l : Loc} {o : Owner}
    (ho : h.ownerOf l = some o) : h'.ownerOf l = some o := by
  obtain ⟨e, he⟩ := e
  simp only [Heap.ownerOf] at ho ⊢
  have hl : l < h.owners.length := by
    rcases Nat.lt_or_ge l h.owners.length with h1 | h1
    · exact h1
    · rw [List.getElem?_eq_none h1] at ho; cases ho
  rw [he, List.getElem?_append_left hl]; exact ho

theorem Step.refl (h : Heap) : Step h h := ⟨⟨[], by simp⟩, ⟨[], by simp⟩⟩

theorem Step.trans {h₁ h₂ h₃ : Heap} (a : Step h₁ h₂) (b : Step h₂ h₃) : Step h₁ h₃ := by
  obtain ⟨⟨e1, he1⟩, ⟨w1, hw1, ho1⟩⟩ := a
  have bext := b.ext
  obtain ⟨⟨e2, he2⟩, ⟨w2, hw2, ho2⟩⟩ := b
  refine ⟨⟨e1 ++ e2, by rw [he2, he1, List.append_assoc]⟩, ⟨w1 ++ w2, by rw [hw2, hw1, List.append_assoc], ?_⟩⟩
  intro l hl
  rcases List.mem_append.1 hl with h | h
  · exact ownerOf_ext bext (ho1 l h)
  · exact ho2 l h

theorem Step.ownerOf {h h' : Heap} (s : Step h h') {l : Loc} {o : Owner} (ho : h.ownerOf l = some o) :
    h'.ownerOf l = some o := ownerOf_ext s.ext ho

theorem Step.accOwned {h h' : Heap} (s : Step h h') {r : Ref} (a : AccOwned h r) : AccOwned h' r := by
  cases r with
  | arr l => exact s.ownerOf a
  | _ => trivial

theorem Step.good {h h' : Heap} (s : Step h h') (g : Good h) : Good h' := by
  obtain ⟨w, hw, ho⟩ := s.wr
  intro l hl
  rw [hw] at hl
  rcases List.mem_append.1 hl with h1 | h1
  · exact s.ownerOf (g l h1)
  · exact ho l h1

theorem Good.empty : Good Heap.empty := by intro l hl; cases hl

theorem Good.not_callerWritten {h : Heap} (g : Good h) : h.callerWritten = false := by
  simp only [Heap.callerWritten, List.any_eq_false]
  intro l hl
  rw [g l hl]; simp

theorem AccOwned.not_callerOwned {h : Heap} {r : Ref} (a : AccOwned h r) : r.callerOwned h = false := by
  cases r with
  | arr l => simp only [AccOwned] at a; simp [Ref.callerOwned, a]
  | _ => rfl

/-- allocation only: owners extended, nothing written -/
theorem Step.of_alloc {h h' : Heap} (e : ∃ e, h'.owners = h.owners ++ e) (w : h'.writes = h.writes) :
    Step h h' := ⟨e, ⟨[], by simp [w], by simp⟩⟩

/-! ### the primitives -/

theorem fresh_spec (h : Heap) :
    h.fresh.1.owners = h.owners ++ [.acc] ∧ h.fresh.1.writes = h.writes ∧ AccOwned h.fresh.1 h.fresh.2 := by
  simp [Heap.fresh, AccOwned, Heap.ownerOf]

/-- `a ∘ b`: nothing is written, existing buffers keep their owner, the result is a number or a
    new buffer of the accumulator -/
theorem binop_fresh (h : Heap) (a b : Ref) :
    (∃ e, (binop h a b).1.owners = h.owners ++ e) ∧ (binop h a b).1.writes = h.writes ∧
    AccOwned (binop h a b).1 (binop h a b).2 := by
  cases a <;> cases b <;> simp [binop, Heap.fresh, AccOwned, Heap.ownerOf]

theorem binop_step (h : Heap) (a b : Ref) : Step h (binop h a b).1 :=
  .of_alloc (binop_fresh h a b).1 (binop_fresh h a b).2.1

/-- `np.array(x)`: always a new buffer of the accumulator, nothing written -/
theorem arrayCopy_fresh (h : Heap) (r : Ref) :
    (∃ e, (arrayCopy h r).1.owners = h.owners ++ e) ∧ (arrayCopy h r).1.writes = h.writes ∧
    AccOwned (arrayCopy h r).1 (arrayCopy h r).2 ∧
    (Ref.Valid h r → (arrayCopy h r).2 ≠ r) := by
  refine ⟨⟨[.acc], rfl⟩, rfl, (fresh_spec h).2.2, ?_⟩
  cases r with
  | arr l =>
    intro hv e
    have hv' : (l : Nat) < h.owners.length := hv
    have e' : h.owners.length = (l : Nat) := by simpa [arrayCopy, Heap.fresh] using e
    rw [← e'] at hv'; exact Nat.lt_irrefl _ hv'
  | none => intro _ e; cases e
  | num => intro _ e; cases e

theorem arrayCopy_step (h : Heap) (r : Ref) : Step h (arrayCopy h r).1 :=
  .of_alloc (arrayCopy_fresh h r).1 (arrayCopy_fresh h r).2.1

/-- `np.asarray` of an ndarray IS that ndarray -/
theorem asarray_alias (h : Heap) (l : Loc) : asarray h (.arr l) = (h, .arr l) := rfl

theorem asarray_step (h : Heap) (r : Ref) : Step h (asarray h r).1 := by
  cases r
  case arr l => exact Step.refl h
  all_goals exact .of_alloc ⟨[.acc], rfl⟩ rfl

/-- `a += b`: the only buffer that can be written is the one `a` points to -/
theorem iadd_writes_only_lhs (h : Heap) (a b : Ref) :
    (∃ e, (iadd h a b).1.owners = h.owners ++ e) ∧
    ((iadd h a b).1.writes = h.writes ∨ ∃ l, a = .arr l ∧ (iadd h a b).1.writes = h.writes ++ [l]) := by
  cases a <;> cases b <;> simp [iadd, binop, Heap.fresh]

theorem iadd_spec {h : Heap} {a : Ref} (b : Ref) (ha : AccOwned h a) :
    Step h (iadd h a b).1 ∧ AccOwned (iadd h a b).1 (iadd h a b).2 := by
  cases a with
  | arr l =>
    refine ⟨⟨⟨[], by simp [iadd]⟩, ⟨[l], rfl, ?_⟩⟩, ha⟩
    intro l' hl'
    rw [List.mem_singleton.1 hl']; exact ha
  | none => exact ⟨binop_step h _ b, (binop_fresh h _ b).2.2⟩
  | num => exact ⟨binop_step h _ b, (binop_fresh h _ b).2.2⟩

/-- `target[k] = v`: the only buffer that can be written is the target's -/
theorem setItem_writes_only_target (h : Heap) (t : Ref) :
    (setItem h t).owners = h.owners ∧
    ((setItem h t).writes = h.writes ∨ ∃ l, t = .arr l ∧ (setItem h t).writes = h.writes ++ [l]) := by
  cases t <;> simp [setItem]

theorem setItem_step {h : Heap} {t : Ref} (ht : AccOwned h t) : Step h (setItem h t) := by
  cases t with
  | arr l =>
    refine ⟨⟨[], by simp [setItem]⟩, ⟨[l], rfl, ?_⟩⟩
    intro l' hl'
    rw [List.mem_singleton.1 hl']; exact ht
  | none => exact Step.refl h
  | num => exact Step.refl h

theorem binopOut_writes_out (h : Heap) (a b : Ref) (l : Loc) :
    binopOut h a b (.arr l) = (⟨h.owners, h.writes ++ [l]⟩, .arr l) := rfl

theorem newArg_step (h : Heap) (i : Nat) (b : Bool) : Step h (h.newArg i b).1 := by
  cases b
  · exact Step.refl h
  · exact .of_alloc ⟨[.caller i], rfl⟩ rfl

/-- the argument the caller creates is a number or a buffer of the caller -/
theorem newArg_callerOwned (h : Heap) (i : Nat) :
    (h.newArg i true).2 = .arr h.owners.length ∧
    (h.newArg i true).1.ownerOf h.owners.length = some (.caller i) ∧ (h.newArg i false) = (h, .num) := by
  simp [Heap.newArg, Heap.ownerOf]

/-! ### one update of each accumulator

  `Post h p` : the update that produced `p = (heap, ref)` from `h` wrote only into buffers of the
  accumulator, kept all owners, and returns a reference the accumulator owns.  No hypothesis on the
  observation `obj` is ever needed: it is only read. -/

def Post (h : Heap) (p : Heap × Ref) : Prop := Step h p.1 ∧ AccOwned p.1 p.2

theorem post_fresh (h : Heap) : Post h h.fresh ∧ h.fresh.1.writes = h.writes :=
  ⟨⟨.of_alloc ⟨[.acc], rfl⟩ rfl, (fresh_spec h).2.2⟩, rfl⟩

theorem post_num (h : Heap) : Post h (h, .num) ∧ (h, Ref.num).1.writes = h.writes :=
  ⟨⟨Step.refl h, trivial⟩, rfl⟩

theorem fresh_ne_valid {h : Heap} {l : Loc} (hv : Ref.Valid h (.arr l)) : h.fresh.2 ≠ .arr l := by
  intro e
  have hv' : (l : Nat) < h.owners.length := hv
  have e' : h.owners.length = (l : Nat) := by simpa [Heap.fresh] using e
  rw [← e'] at hv'; exact Nat.lt_irrefl _ hv'

theorem minmaxPush_post {h : Heap} {acc : Ref} (obj : Ref) (_ : AccOwned h acc) :
    Post h (minmaxPush h acc obj) ∧ (minmaxPush h acc obj).1.writes = h.writes := by
  cases acc with
  | none => exact post_fresh h
  | num => cases obj <;> first | exact post_fresh h | exact post_num h
  | arr l => exact post_fresh h

/-- merging two Minimum/Maximum accumulators: nothing at all is written (so the other accumulator is
    unchanged), the result is owned by the receiving accumulator and is not the other's buffer -/
theorem minmax_merge_separate {h : Heap} {acc other : Ref} (ha : AccOwned h acc) (ho : AccOwned h other) :
    Post h (minmaxMerge h acc other) ∧ (minmaxMerge h acc other).1.writes = h.writes ∧
    (∀ l, other = .arr l → (minmaxMerge h acc other).2 ≠ .arr l) := by
  have hv := ho.valid
  cases other with
  | none => exact ⟨⟨Step.refl h, ha⟩, rfl, by intro l hl; cases hl⟩
  | num =>
    cases acc with
    | none => exact ⟨(post_fresh h).1, rfl, by intro l hl; cases hl⟩
    | num => exact ⟨(post_num h).1, rfl, by intro l hl; cases hl⟩
    | arr k => exact ⟨(post_fresh h).1, rfl, by intro l hl; cases hl⟩
  | arr m =>
    have hne : ∀ l, Ref.arr m = Ref.arr l → h.fresh.2 ≠ Ref.arr l := by
      intro l hl; cases hl; exact fresh_ne_valid hv
    cases acc with
    | none => exact ⟨(post_fresh h).1, rfl, hne⟩
    | num => exact ⟨(post_fresh h).1, rfl, hne⟩
    | arr k => exact ⟨(post_fresh h).1, rfl, hne⟩

/-- `_val += obj / n - _val / n`: the in-place `+=` hits `_val`'s buffer, which the accumulator owns -/
theorem meanPush_post {h : Heap} {val : Ref} (obj : Ref) (hv : AccOwned h val) : Post h (meanPush h val obj) := by
  have s1 := binop_step h obj .num
  rcases hb1 : binop h obj .num with ⟨h1, t1⟩
  rw [hb1] at s1
  have s2 := binop_step h1 val .num
  rcases hb2 : binop h1 val .num with ⟨h2, t2⟩
  rw [hb2] at s2
  have s3 := binop_step h2 t1 t2
  rcases hb3 : binop h2 t1 t2 with ⟨h3, t3⟩
  rw [hb3] at s3
  have s123 := (s1.trans s2).trans s3
  have s4 := iadd_spec t3 (s123.accOwned hv)
  simp only [meanPush, hb1, hb2, hb3]
  exact ⟨s123.trans s4.1, s4.2⟩

theorem Step.valid {h h' : Heap} (s : Step h h') {r : Ref} (v : Ref.Valid h r) : Ref.Valid h' r := by
  cases r with
  | arr l =>
    obtain ⟨e, he⟩ := s.ext
    have v' : (l : Nat) < h.owners.length := v
    show (l : Nat) < h'.owners.length
    rw [he, List.length_append]; exact Nat.lt_of_lt_of_le v' (Nat.le_add_right _ _)
  | none => trivial
  | num => trivial

/-- the result of `a ∘ b` is not an array that existed before -/
theorem binop_ne_valid {h : Heap} (a b : Ref) {l : Loc} (hv : Ref.Valid h (.arr l)) : (binop h a b).2 ≠ .arr l := by
  cases a <;> cases b <;> first | exact fresh_ne_valid hv | (intro e; cases e)

/-- `_val = _val * w + other._val * w'`: a new buffer, nothing written, neither operand aliased -/
theorem mean_merge_separate (h : Heap) (val oval : Ref) :
    Post h (meanMerge h val oval) ∧ (meanMerge h val oval).1.writes = h.writes ∧
    (∀ l, Ref.Valid h (.arr l) → (meanMerge h val oval).2 ≠ .arr l) := by
  have s1 := binop_step h val .num
  have w1 := (binop_fresh h val .num).2.1
  rcases hb1 : binop h val .num with ⟨h1, t1⟩
  rw [hb1] at s1 w1
  have s2 := binop_step h1 oval .num
  have w2 := (binop_fresh h1 oval .num).2.1
  rcases hb2 : binop h1 oval .num with ⟨h2, t2⟩
  rw [hb2] at s2 w2
  have s3 := binop_step h2 t1 t2
  have f3 := binop_fresh h2 t1 t2
  have n3 := fun l (hv : Ref.Valid h (.arr l)) => binop_ne_valid t1 t2 ((s1.trans s2).valid hv)
  simp only [meanMerge, hb1, hb2]
  simp only at w1 w2
  exact ⟨⟨(s1.trans s2).trans s3, f3.2.2⟩, by rw [f3.2.1, w2, w1], n3⟩

/-- `acc = acc * (1 - alpha) + obj * alpha`: rebinding to a new buffer, nothing written -/
theorem rmeanPush_post (h : Heap) (acc obj : Ref) :
    Post h (rmeanPush h acc obj) ∧ (rmeanPush h acc obj).1.writes = h.writes := by
  have s1 := binop_step h acc .num
  have w1 := (binop_fresh h acc .num).2.1
  rcases hb1 : binop h acc .num with ⟨h1, t1⟩
  rw [hb1] at s1 w1
  have s2 := binop_step h1 obj .num
  have w2 := (binop_fresh h1 obj .num).2.1
  rcases hb2 : binop h1 obj .num with ⟨h2, t2⟩
  rw [hb2] at s2 w2
  have s3 := binop_step h2 t1 t2
  have f3 := binop_fresh h2 t1 t2
  simp only [rmeanPush, hb1, hb2]
  simp only at w1 w2
  exact ⟨⟨(s1.trans s2).trans s3, f3.2.2⟩, by rw [f3.2.1, w2, w1]⟩

/-- what `variancePush` needs of the way its two inner means are updated -/
def StepSpec (f : Heap → Ref → Ref → Heap × Ref) : Prop :=
  ∀ h a o, AccOwned h a → Post h (f h a o)

theorem meanPush_stepSpec : StepSpec meanPush := fun _ _ o ha => meanPush_post o ha
theorem rmeanPush_stepSpec : StepSpec rmeanPush := fun h a o _ => (rmeanPush_post h a o).1

theorem variancePush_post {f : Heap → Ref → Ref → Heap × Ref} (hf : StepSpec f) {h : Heap} {mean var : Ref}
    (obj : Ref) (hm : AccOwned h mean) (hv : AccOwned h var) :
    Step h (variancePush f h mean var obj).1 ∧
    AccOwned (variancePush f h mean var obj).1 (variancePush f h mean var obj).2.1 ∧
    AccOwned (variancePush f h mean var obj).1 (variancePush f h mean var obj).2.2 := by
  have s1 := binop_step h obj mean
  rcases hb1 : binop h obj mean with ⟨h1, d1⟩
  rw [hb1] at s1
  have p2 := hf h1 mean obj (s1.accOwned hm)
  rcases hb2 : f h1 mean obj with ⟨h2, mean'⟩
  rw [hb2] at p2
  have s3 := binop_step h2 obj mean'
  rcases hb3 : binop h2 obj mean' with ⟨h3, d2⟩
  rw [hb3] at s3
  have s4 := binop_step h3 d1 d2
  rcases hb4 : binop h3 d1 d2 with ⟨h4, prod⟩
  rw [hb4] at s4
  have s14 := ((s1.trans p2.1).trans s3).trans s4
  have p5 := hf h4 var prod (s14.accOwned hv)
  rcases hb5 : f h4 var prod with ⟨h5, var'⟩
  rw [hb5] at p5
  simp only [variancePush, hb1, hb2, hb3, hb4, hb5]
  exact ⟨s14.trans p5.1, ((s3.trans s4).trans p5.1).accOwned p2.2, p5.2⟩

/-- `_init_m_height` / `_init_m_pos`: allocate the marker array on first use -/
def initOr (h : Heap) : Ref → Heap × Ref
  | .none => h.fresh
  | r => (h, r)

theorem initOr_post {h : Heap} {r : Ref} (a : AccOwned h r) : Post h (initOr h r) := by
  cases r with
  | none => exact (post_fresh h).1
  | num => exact ⟨Step.refl h, trivial⟩
  | arr l => exact ⟨Step.refl h, a⟩

theorem p2Push_eq (h : Heap) (heights pos obj : Ref) :
    p2Push h heights pos obj =
      (setItem (setItem (binop (initOr (initOr (asarray h obj).1 heights).1 pos).1 (asarray h obj).2
          (initOr (asarray h obj).1 heights).2).1 (initOr (asarray h obj).1 heights).2)
          (initOr (initOr (asarray h obj).1 heights).1 pos).2,
        (initOr (asarray h obj).1 heights).2, (initOr (initOr (asarray h obj).1 heights).1 pos).2) := by
  cases heights <;> cases pos <;> rfl

/-- P²: the observation is only read (`asarray` may alias it, but nothing is done with the alias but
    reading); the marker arrays are the estimator's own, and only they are written -/
theorem p2Push_post {h : Heap} {heights pos : Ref} (obj : Ref) (hh : AccOwned h heights) (hp : AccOwned h pos) :
    Step h (p2Push h heights pos obj).1 ∧
    AccOwned (p2Push h heights pos obj).1 (p2Push h heights pos obj).2.1 ∧
    AccOwned (p2Push h heights pos obj).1 (p2Push h heights pos obj).2.2 := by
  rw [p2Push_eq]
  have s1 := asarray_step h obj
  generalize asarray h obj = p1 at s1 ⊢
  have p2 := initOr_post (s1.accOwned hh)
  generalize initOr p1.1 heights = q2 at p2 ⊢
  have p3 := initOr_post ((s1.trans p2.1).accOwned hp)
  generalize initOr q2.1 pos = q3 at p3 ⊢
  have s4 := binop_step q3.1 p1.2 q2.2
  generalize binop q3.1 p1.2 q2.2 = q4 at s4 ⊢
  have s5 := setItem_step (s4.accOwned (p3.1.accOwned p2.2))
  have s6 := setItem_step (s5.accOwned (s4.accOwned p3.2))
  exact ⟨((((s1.trans p2.1).trans p3.1).trans s4).trans s5).trans s6,
    s6.accOwned (s5.accOwned (s4.accOwned (p3.1.accOwned p2.2))), s6.accOwned (s5.accOwned (s4.accOwned p3.2))⟩

/-! ### histories

  A history is the list of argument kinds (`true` = ndarray, `false` = number).  The caller creates
  the `i`-th argument with `Heap.newArg h i isArray` and passes it to the update. -/

def runHist {σ : Type} (push : Heap → σ → Ref → Heap × σ) : Heap × σ → Nat → List Bool → Heap × σ
  | st, _, [] => st
  | st, i, b :: bs => runHist push (push (st.1.newArg i b).1 st.2 (st.1.newArg i b).2) (i + 1) bs

theorem runHist_inv {σ : Type} {push : Heap → σ → Ref → Heap × σ} (P : Heap → σ → Prop)
    (mono : ∀ {h h' a}, Step h h' → P h a → P h' a)
    (hpush : ∀ h a obj, P h a → Step h (push h a obj).1 ∧ P (push h a obj).1 (push h a obj).2)
    (bs : List Bool) : ∀ (i : Nat) (st : Heap × σ), P st.1 st.2 →
      Step st.1 (runHist push st i bs).1 ∧ P (runHist push st i bs).1 (runHist push st i bs).2 := by
  induction bs with
  | nil => intro i st hp; exact ⟨Step.refl _, hp⟩
  | cons b bs ih =>
    intro i st hp
    have s0 := newArg_step st.1 i b
    have p1 := hpush (st.1.newArg i b).1 st.2 (st.1.newArg i b).2 (mono s0 hp)
    have p2 := ih (i + 1) _ p1.2
    exact ⟨(s0.trans p1.1).trans p2.1, p2.2⟩

/-- two references, both owned by the accumulator -/
def AccOwned₂ (h : Heap) (p : Ref × Ref) : Prop := AccOwned h p.1 ∧ AccOwned h p.2

theorem AccOwned₂.mono {h h' : Heap} {p : Ref × Ref} (s : Step h h') (a : AccOwned₂ h p) : AccOwned₂ h' p :=
  ⟨s.accOwned a.1, s.accOwned a.2⟩

def varianceStep (f : Heap → Ref → Ref → Heap × Ref) (h : Heap) (st : Ref × Ref) (obj : Ref) :
    Heap × (Ref × Ref) := variancePush f h st.1 st.2 obj

def p2Step (h : Heap) (st : Ref × Ref) (obj : Ref) : Heap × (Ref × Ref) := p2Push h st.1 st.2 obj

/-- general form: from any heap whose log is clean and any accumulator-owned state -/
theorem minmax_no_caller_write_from {h0 : Heap} {a0 : Ref} (g : Good h0) (a : AccOwned h0 a0)
    (hist : List Bool) (i : Nat) :
    (runHist minmaxPush (h0, a0) i hist).1.callerWritten = false ∧
    AccOwned (runHist minmaxPush (h0, a0) i hist).1 (runHist minmaxPush (h0, a0) i hist).2 := by
  have := runHist_inv (push := minmaxPush) AccOwned (fun s a => s.accOwned a)
    (fun h a obj ha => (minmaxPush_post obj ha).1) hist i (h0, a0) a
  exact ⟨(this.1.good g).not_callerWritten, this.2⟩

/-- Minimum/Maximum (after the repair): over every history no write hits a caller buffer and the
    accumulator's reference is its own buffer - it never aliases an argument -/
theorem minmax_no_caller_write (hist : List Bool) :
    (runHist minmaxPush (Heap.empty, .none) 0 hist).1.callerWritten = false ∧
    AccOwned (runHist minmaxPush (Heap.empty, .none) 0 hist).1 (runHist minmaxPush (Heap.empty, .none) 0 hist).2 ∧
    (runHist minmaxPush (Heap.empty, .none) 0 hist).2.callerOwned (runHist minmaxPush (Heap.empty, .none) 0 hist).1
      = false := by
  have := minmax_no_caller_write_from Good.empty (a0 := .none) trivial hist 0
  exact ⟨this.1, this.2, this.2.not_callerOwned⟩

/-- Minimum/Maximum never write anything at all: every update rebinds to a new buffer -/
theorem minmax_never_writes (hist : List Bool) (i : Nat) (st : Heap × Ref) :
    (runHist minmaxPush st i hist).1.writes = st.1.writes := by
  induction hist generalizing i st with
  | nil => rfl
  | cons b bs ih =>
    show (runHist minmaxPush _ (i + 1) bs).1.writes = _
    rw [ih]
    cases b <;> cases st.2 <;> rfl

theorem mean_no_caller_write_from {h0 : Heap} {a0 : Ref} (g : Good h0) (a : AccOwned h0 a0)
    (hist : List Bool) (i : Nat) :
    (runHist meanPush (h0, a0) i hist).1.callerWritten = false ∧
    AccOwned (runHist meanPush (h0, a0) i hist).1 (runHist meanPush (h0, a0) i hist).2 := by
  have := runHist_inv (push := meanPush) AccOwned (fun s a => s.accOwned a)
    (fun h a obj ha => meanPush_post obj ha) hist i (h0, a0) a
  exact ⟨(this.1.good g).not_callerWritten, this.2⟩

/-- Mean (`_val` starts as the int 0): the in-place `+=` only ever hits the buffer the first update
    allocated -/
theorem mean_no_caller_write (hist : List Bool) :
    (runHist meanPush (Heap.empty, .num) 0 hist).1.callerWritten = false ∧
    AccOwned (runHist meanPush (Heap.empty, .num) 0 hist).1 (runHist meanPush (Heap.empty, .num) 0 hist).2 :=
  mean_no_caller_write_from Good.empty (a0 := .num) trivial hist 0

theorem rmean_no_caller_write_from {h0 : Heap} {a0 : Ref} (g : Good h0) (a : AccOwned h0 a0)
    (hist : List Bool) (i : Nat) :
    (runHist rmeanPush (h0, a0) i hist).1.callerWritten = false ∧
    AccOwned (runHist rmeanPush (h0, a0) i hist).1 (runHist rmeanPush (h0, a0) i hist).2 := by
  have := runHist_inv (push := rmeanPush) AccOwned (fun s a => s.accOwned a)
    (fun h a obj _ => (rmeanPush_post h a obj).1) hist i (h0, a0) a
  exact ⟨(this.1.good g).not_callerWritten, this.2⟩

/-- RunningMean, from `None` as well as from a number -/
theorem rmean_no_caller_write (hist : List Bool) (a0 : Ref) (ha : a0 = .none ∨ a0 = .num) :
    (runHist rmeanPush (Heap.empty, a0) 0 hist).1.callerWritten = false ∧
    AccOwned (runHist rmeanPush (Heap.empty, a0) 0 hist).1 (runHist rmeanPush (Heap.empty, a0) 0 hist).2 :=
  rmean_no_caller_write_from Good.empty (by rcases ha with h | h <;> subst h <;> trivial) hist 0

theorem variance_no_caller_write_from {f : Heap → Ref → Ref → Heap × Ref} (hf : StepSpec f)
    {h0 : Heap} {st0 : Ref × Ref} (g : Good h0) (a : AccOwned₂ h0 st0) (hist : List Bool) (i : Nat) :
    (runHist (varianceStep f) (h0, st0) i hist).1.callerWritten = false ∧
    AccOwned₂ (runHist (varianceStep f) (h0, st0) i hist).1 (runHist (varianceStep f) (h0, st0) i hist).2 := by
  have := runHist_inv (push := varianceStep f) AccOwned₂ (fun s a => a.mono s)
    (fun h st obj ha => variancePush_post hf obj ha.1 ha.2) hist i (h0, st0) a
  exact ⟨(this.1.good g).not_callerWritten, this.2⟩

/-- Variance/Covariance (inner means updated with `meanPush`) and the Running* variants (`rmeanPush`) -/
theorem variance_no_caller_write (hist : List Bool) :
    ((runHist (varianceStep meanPush) (Heap.empty, (.num, .num)) 0 hist).1.callerWritten = false ∧
     AccOwned₂ (runHist (varianceStep meanPush) (Heap.empty, (.num, .num)) 0 hist).1
       (runHist (varianceStep meanPush) (Heap.empty, (.num, .num)) 0 hist).2) ∧
    ((runHist (varianceStep rmeanPush) (Heap.empty, (.num, .num)) 0 hist).1.callerWritten = false ∧
     AccOwned₂ (runHist (varianceStep rmeanPush) (Heap.empty, (.num, .num)) 0 hist).1
       (runHist (varianceStep rmeanPush) (Heap.empty, (.num, .num)) 0 hist).2) :=
  ⟨variance_no_caller_write_from meanPush_stepSpec Good.empty (st0 := (.num, .num)) ⟨trivial, trivial⟩ hist 0,
   variance_no_caller_write_from rmeanPush_stepSpec Good.empty (st0 := (.num, .num)) ⟨trivial, trivial⟩ hist 0⟩

theorem p2_no_caller_write_from {h0 : Heap} {st0 : Ref × Ref} (g : Good h0) (a : AccOwned₂ h0 st0)
    (hist : List Bool) (i : Nat) :
    (runHist p2Step (h0, st0) i hist).1.callerWritten = false ∧
    AccOwned₂ (runHist p2Step (h0, st0) i hist).1 (runHist p2Step (h0, st0) i hist).2 := by
  have := runHist_inv (push := p2Step) AccOwned₂ (fun s a => a.mono s)
    (fun h st obj ha => p2Push_post obj ha.1 ha.2) hist i (h0, st0) a
  exact ⟨(this.1.good g).not_callerWritten, this.2⟩

/-- P² (marker arrays start as `None`): only the estimator's own arrays are ever written -/
theorem p2_no_caller_write (hist : List Bool) :
    (runHist p2Step (Heap.empty, (.none, .none)) 0 hist).1.callerWritten = false ∧
    AccOwned₂ (runHist p2Step (Heap.empty, (.none, .none)) 0 hist).1
      (runHist p2Step (Heap.empty, (.none, .none)) 0 hist).2 :=
  p2_no_caller_write_from Good.empty (st0 := (.none, .none)) ⟨trivial, trivial⟩ hist 0

/-! ### changing a passed array afterwards -/

/-- the caller writes in place into one of its arrays -/
def callerMutate (h : Heap) (l : Loc) : Heap := ⟨h.owners, h.writes ++ [l]⟩

/-- a later in-place write of the caller to any of its buffers `l` is a write to a location different
    from every location the accumulator holds; the accumulator's references stay its own -/
theorem caller_mutation_invisible {h : Heap} {r : Ref} (a : AccOwned h r) {l : Loc} {i : Nat}
    (hl : h.ownerOf l = some (.caller i)) :
    r ≠ .arr l ∧ AccOwned (callerMutate h l) r ∧ (callerMutate h l).owners = h.owners := by
  refine ⟨?_, ?_, rfl⟩
  · intro e; subst e
    simp only [AccOwned] at a
    rw [a] at hl; cases hl
  · cases r with
    | arr k => exact a
    | none => trivial
    | num => trivial

/-- for the accumulators above, after every history: no caller-owned location is held -/
theorem caller_mutation_invisible_runs (hist : List Bool) (l : Loc) (i : Nat) :
    ((runHist minmaxPush (Heap.empty, .none) 0 hist).1.ownerOf l = some (.caller i) →
      (runHist minmaxPush (Heap.empty, .none) 0 hist).2 ≠ .arr l) ∧
    ((runHist meanPush (Heap.empty, .num) 0 hist).1.ownerOf l = some (.caller i) →
      (runHist meanPush (Heap.empty, .num) 0 hist).2 ≠ .arr l) ∧
    ((runHist rmeanPush (Heap.empty, .none) 0 hist).1.ownerOf l = some (.caller i) →
      (runHist rmeanPush (Heap.empty, .none) 0 hist).2 ≠ .arr l) ∧
    (∀ f, StepSpec f → (runHist (varianceStep f) (Heap.empty, (.num, .num)) 0 hist).1.ownerOf l = some (.caller i) →
      (runHist (varianceStep f) (Heap.empty, (.num, .num)) 0 hist).2.1 ≠ .arr l ∧
      (runHist (varianceStep f) (Heap.empty, (.num, .num)) 0 hist).2.2 ≠ .arr l) ∧
    ((runHist p2Step (Heap.empty, (.none, .none)) 0 hist).1.ownerOf l = some (.caller i) →
      (runHist p2Step (Heap.empty, (.none, .none)) 0 hist).2.1 ≠ .arr l ∧
      (runHist p2Step (Heap.empty, (.none, .none)) 0 hist).2.2 ≠ .arr l) := by
  refine ⟨fun hl => ?_, fun hl => ?_, fun hl => ?_, fun f hf hl => ?_, fun hl => ?_⟩
  · exact (caller_mutation_invisible (minmax_no_caller_write hist).2.1 hl).1
  · exact (caller_mutation_invisible (mean_no_caller_write hist).2 hl).1
  · exact (caller_mutation_invisible (rmean_no_caller_write hist .none (.inl rfl)).2 hl).1
  · have := (variance_no_caller_write_from hf Good.empty (st0 := (.num, .num)) ⟨trivial, trivial⟩ hist 0).2
    exact ⟨(caller_mutation_invisible this.1 hl).1, (caller_mutation_invisible this.2 hl).1⟩
  · have := (p2_no_caller_write hist).2
    exact ⟨(caller_mutation_invisible this.1 hl).1, (caller_mutation_invisible this.2 hl).1⟩

/-- the update specifications need no clean log: also after caller mutations every update writes
    only into accumulator buffers (`Step` = owners kept, new writes all accumulator-owned) -/
theorem updates_after_mutation {h : Heap} {acc : Ref} (a : AccOwned h acc) (l : Loc) (obj : Ref) :
    Post (callerMutate h l) (minmaxPush (callerMutate h l) acc obj) ∧
    Post (callerMutate h l) (meanPush (callerMutate h l) acc obj) ∧
    Post (callerMutate h l) (rmeanPush (callerMutate h l) acc obj) :=
  have a' : AccOwned (callerMutate h l) acc := by cases acc <;> exact a
  ⟨(minmaxPush_post obj a').1, meanPush_post obj a', (rmeanPush_post _ acc obj).1⟩

/-! ### reading -/

/-- reading a result (`.value`, `.n`, …) in this model: heap and references are returned as they are.
    The model has no operation for reads, so this is true by definition (vacuous); what carries the
    content is that no update above depends on the write log or on anything but the references. -/
def read {σ : Type} (st : Heap × σ) : Heap × σ := st

theorem reads_pure {σ : Type} (push : Heap → σ → Ref → Heap × σ) (st : Heap × σ) (i : Nat) (hist : List Bool) :
    read st = st ∧ runHist push (read st) i hist = runHist push st i hist := ⟨rfl, rfl⟩

/-! ### the pinned tree: `np.asarray(obj)` keeps the caller's array, `out=acc` writes into it -/

theorem pinned_minmax_aliases :
    runHist minmaxPushPinned (Heap.empty, .none) 0 [true] = (⟨[.caller 0], []⟩, .arr 0) ∧
    (runHist minmaxPushPinned (Heap.empty, .none) 0 [true]).2.callerOwned
      (runHist minmaxPushPinned (Heap.empty, .none) 0 [true]).1 = true ∧
    (runHist minmaxPushPinned (Heap.empty, .none) 0 [true, true]).1.callerWritten = true ∧
    (runHist minmaxPushPinned (Heap.empty, .none) 0 [true, true]).1.writes = [0] := by decide

/-- the repaired code on the same history -/
example : runHist minmaxPush (Heap.empty, .none) 0 [true, true]
    = (⟨[.caller 0, .acc, .caller 1, .acc], []⟩, .arr 3) := by decide

/-- Mean on arrays: the single buffer allocated by the first update is written by the later ones -/
example : (runHist meanPush (Heap.empty, .num) 0 [true, true, true]).2 = .arr 3 ∧
    (runHist meanPush (Heap.empty, .num) 0 [true, true, true]).1.writes = [3, 3] ∧
    (runHist meanPush (Heap.empty, .num) 0 [true, true, true]).1.ownerOf 3 = some .acc := by decide

end Gpv.C11

#print axioms Gpv.C11.binop_fresh
#print axioms Gpv.C11.arrayCopy_fresh
#print axioms Gpv.C11.asarray_alias
#print axioms Gpv.C11.iadd_writes_only_lhs
#print axioms Gpv.C11.setItem_writes_only_target
#print axioms Gpv.C11.minmax_no_caller_write
#print axioms Gpv.C11.minmax_no_caller_write_from
#print axioms Gpv.C11.minmax_never_writes
#print axioms Gpv.C11.minmax_merge_separate
#print axioms Gpv.C11.mean_no_caller_write
#print axioms Gpv.C11.mean_no_caller_write_from
#print axioms Gpv.C11.mean_merge_separate
#print axioms Gpv.C11.rmean_no_caller_write
#print axioms Gpv.C11.rmean_no_caller_write_from
#print axioms Gpv.C11.variance_no_caller_write
#print axioms Gpv.C11.variance_no_caller_write_from
#print axioms Gpv.C11.p2_no_caller_write
#print axioms Gpv.C11.p2_no_caller_write_from
#print axioms Gpv.C11.caller_mutation_invisible
#print axioms Gpv.C11.caller_mutation_invisible_runs
#print axioms Gpv.C11.updates_after_mutation
#print axioms Gpv.C11.reads_pure
#print axioms Gpv.C11.pinned_minmax_aliases
