/-
  C01 / C10, the process boundary: a stage that went through `__getstate__` / `__setstate__`
  (pickle, dill, copy, deepcopy, or being sent to a worker inside another stage's function) is a
  stage with the same function, the same None rule, the same verbosity and the same counters that
  runs in-process; hence its stream is the in-process stream of the original configuration —
  in particular `skipNone=False` survives the trip.
-/
import Gpv.Model.Ship
import Gpv.Proofs.FlatMapInv

namespace Gpv.C01Ship
open Gpv Gpv.Pipe Gpv.Ship
variable {F α β ε : Type}

theorem ship_keeps (s : Stage F) :
    (ship s).func = s.func ∧ (ship s).skipNone = s.skipNone ∧ (ship s).verbose = s.verbose ∧
    (ship s).processed = s.processed ∧ (ship s).yielded = s.yielded := ⟨rfl, rfl, rfl, rfl, rfl⟩

theorem ship_serial (s : Stage F) : (ship s).nworkers = 0 ∧ (ship s).cachelen = none ∧ (ship s).maxtasksperchild = none :=
  ⟨rfl, rfl, rfl⟩

theorem ship_idem (s : Stage F) : ship (ship s) = ship s := rfl

/-- the None rule of the shipped stage is the original's -/
theorem ship_keep (s : Stage F) (v : Option β) : keep (ship s).cfg v = keep s.cfg v := rfl

/-- whatever depends on the configuration only through the None rule is unchanged by shipping -/
theorem keep_congr {c c' : Cfg} (h : c'.skipNone = c.skipNone) (v : Option β) : keep c' v = keep c v := by
  simp [keep, h]

theorem expand_congr {c c' : Cfg} (h : c'.skipNone = c.skipNone) (r : SOutcome β ε) :
    (expand c' r : List (Obs β ε)) = expand c r := by
  cases r with
  | plain v => simp [expand, keep_congr h]
  | iter l =>
    have : (keep c' : Option β → Bool) = keep c := funext (keep_congr h)
    simp [expand, this]
  | err e => rfl

/-- the in-process specification of the shipped stage equals that of the original configuration, for
    every function (plain results, iterator results, failures), every source and every source failure -/
theorem sspec_congr {c c' : Cfg} (h : c'.skipNone = c.skipNone) (g : α → SOutcome β ε) (tail : Option ε) (xs : List α) :
    sspec c' g tail xs = sspec c g tail xs := by
  induction xs with
  | nil => rfl
  | cons x xs ih =>
    simp only [sspec]
    cases hg : g x with
    | err e => rfl
    | plain v => simp [ih, expand_congr h]
    | iter l => simp [ih, expand_congr h]

theorem shipped_stream_eq (s : Stage F) (g : α → SOutcome β ε) (tail : Option ε) (xs : List α) :
    sspec (ship s).cfg g tail xs = sspec s.cfg g tail xs :=
  sspec_congr (c := s.cfg) (c' := (ship s).cfg) rfl g tail xs

/-- and the parallel specification of a stage depends on its configuration only through the None rule too:
    what a worker-side copy would deliver in-process is what the parallel original delivers -/
theorem spec_congr {c c' : Cfg} (h : c'.skipNone = c.skipNone) (f : α → Outcome β ε) (tail : Option ε) (xs : List α) :
    spec c' f tail xs = spec c f tail xs := by
  induction xs with
  | nil => rfl
  | cons x xs ih =>
    simp only [spec]
    cases hf : f x with
    | err e => rfl
    | val v => simp [ih, keep_congr h]

example : (ship (Stage.make (F := Nat) 7 3 2 false true (some 1))).skipNone = false ∧
    (ship (Stage.make (F := Nat) 7 3 2 false true (some 1))).nworkers = 0 := by decide

end Gpv.C01Ship

#print axioms Gpv.C01Ship.ship_keeps
#print axioms Gpv.C01Ship.ship_serial
#print axioms Gpv.C01Ship.ship_idem
#print axioms Gpv.C01Ship.ship_keep
#print axioms Gpv.C01Ship.keep_congr
#print axioms Gpv.C01Ship.expand_congr
#print axioms Gpv.C01Ship.sspec_congr
#print axioms Gpv.C01Ship.shipped_stream_eq
#print axioms Gpv.C01Ship.spec_congr
