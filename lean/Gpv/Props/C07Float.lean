/-
  C07Float — the structural invariants of the P² estimator in ROUNDED arithmetic.

  `Gpv.Model.P2` is generic over the number type `K`.  Here it is instantiated at
  `K := Fl R`, the representable numbers of an abstract rounding `R : Rounding F`
  (`Gpv.Proofs.Rounded`): every `+ - * /` of `parabolic`, `linear`, `adjustOne`, `placeObs`
  rounds its exact result, `NatCast` rounds the integer, comparisons are those of `F`.
  `P2.run q xs : P2 (Fl R)` is therefore the floating-point algorithm in the standard
  model (no overflow / underflow), and it is the UNCHANGED definition `P2.push` folded
  over the observations.

  Hypotheses of the theorems: a grid `q` of at least two (arbitrary representable) entries,
  at least as many observations as markers, and `xs.length ≤ R.N`, so that all counts and
  ranks are exactly representable integers (binary64: `N = 2^53`).

  Proved: heights non-decreasing (NON-strict: rounding may create ties), marker 0 / m-1 are
  the exact minimum / maximum of the data, all markers inside the data range, ranks are exactly
  represented naturals, strictly increasing, from 0 to n-1; lengths.
  Also: with the identity rounding the run is the exact-field run (conservative extension).

  Laws of `Rounding` used: `before_full_fl` none; `exact_at_m_fl` only `int_exact`; everything
  from `inv_run` on uses all of them — `mono`, `idem`, `neg`, `int_exact` directly, and
  `rel`, `u_nonneg`, `u_small` through `Rounding.key` only (the linear formula).  That `rel`
  cannot simply be dropped is shown in `Gpv.Proofs.RoundedNecessity` (`rel_is_needed`).
  Not modelled: overflow, underflow (subnormals), NaN/inf.
-/
import Gpv.Proofs.P2Rounded
import Gpv.Proofs.P2Hom
import Gpv.Proofs.RoundedQ
import Gpv.Proofs.RoundedNecessity
set_option linter.unusedSectionVars false

namespace Gpv.C07Float
open Gpv Gpv.Rnd
variable {F : Type} [Field F] [LinearOrder F] [IsStrictOrderedRing F] {R : Rounding F}

/-! ### the invariant -/

/-- Invariant of the rounded P² state once at least as many observations as markers have
    arrived (`xs` = the observations so far). -/
structure InvFl (s : P2 (Fl R)) (xs : List (Fl R)) : Prop where
  n_eq : s.n = xs.length
  hlen : s.h.length = s.q.length
  plen : s.pos.length = s.q.length
  sorted : List.Pairwise (· ≤ ·) s.h
  min_mem : nth s.h 0 ∈ xs
  min_le : ∀ y ∈ xs, nth s.h 0 ≤ y
  max_mem : nth s.h (s.q.length - 1) ∈ xs
  le_max : ∀ y ∈ xs, y ≤ nth s.h (s.q.length - 1)
  between : ∀ j, j < s.q.length → nth s.h 0 ≤ nth s.h j ∧ nth s.h j ≤ nth s.h (s.q.length - 1)
  pint : ∀ j, j < s.q.length → ∃ z : ℕ, (nth s.pos j).val = (z : F)
  pstrict : List.Pairwise (· < ·) s.pos
  pos_first : (nth s.pos 0).val = 0
  pos_last : (nth s.pos (s.q.length - 1)).val = ((xs.length - 1 : ℕ) : F)

theorem InvFl.marks {s : P2 (Fl R)} {xs : List (Fl R)} (inv : InvFl s xs) :
    Marks R s.q.length (xs.length - 1) s.h s.pos where
  hlen := inv.hlen
  plen := inv.plen
  hmono i hi := pairwise_nth.mp inv.sorted i (i + 1) (by omega) (by rw [inv.hlen]; exact hi)
  pint j hj := by
    obtain ⟨z, hz⟩ := inv.pint j hj
    refine ⟨z, ?_, hz⟩
    have hle : nth s.pos j ≤ nth s.pos (s.q.length - 1) := by
      rcases Nat.lt_or_ge j (s.q.length - 1) with h | h
      · exact (pairwise_nth.mp inv.pstrict j _ h (by rw [inv.plen]; omega)).le
      · have : j = s.q.length - 1 := by omega
        rw [this]
    have := Fl.le_iff.mp hle
    rw [hz, inv.pos_last] at this
    exact_mod_cast this
  pmono i hi := pairwise_nth.mp inv.pstrict i (i + 1) (by omega) (by rw [inv.plen]; exact hi)

theorem InvFl.of_marks {s : P2 (Fl R)} {xs : List (Fl R)} {B : ℕ}
    (ok : Marks R s.q.length B s.h s.pos)
    (n_eq : s.n = xs.length)
    (min_mem : nth s.h 0 ∈ xs) (min_le : ∀ y ∈ xs, nth s.h 0 ≤ y)
    (max_mem : nth s.h (s.q.length - 1) ∈ xs) (le_max : ∀ y ∈ xs, y ≤ nth s.h (s.q.length - 1))
    (pos_first : (nth s.pos 0).val = 0)
    (pos_last : (nth s.pos (s.q.length - 1)).val = ((xs.length - 1 : ℕ) : F)) : InvFl s xs where
  n_eq := n_eq
  hlen := ok.hlen
  plen := ok.plen
  sorted := pairwise_nth.mpr fun i j hij hj => ok.h_le hij.le (by rw [← ok.hlen]; exact hj)
  min_mem := min_mem
  min_le := min_le
  max_mem := max_mem
  le_max := le_max
  between j hj := ⟨ok.h_le (Nat.zero_le j) hj, ok.h_le (by omega) (by omega)⟩
  pint j hj := by obtain ⟨z, _, hz⟩ := ok.pint j hj; exact ⟨z, hz⟩
  pstrict := pairwise_nth.mpr fun i j hij hj => ok.p_lt hij (by rw [← ok.plen]; exact hj)
  pos_first := pos_first
  pos_last := pos_last

/-! ### before the marker array is full, and the moment it becomes full -/

/-- while fewer observations than markers have arrived, the "markers" are exactly the
    observations so far in arrival order, and the ranks are still the initial `0, 1, …, m-1`
    (no hypothesis on the rounding at all) -/
theorem before_full_fl (q xs : List (Fl R)) (hx : xs.length < q.length) :
    (P2.run q xs).h = xs ∧ (P2.run q xs).n = xs.length ∧ (P2.run q xs).pos = (P2.init q).pos :=
  ⟨(run_before_full q xs hx).1, run_n q xs, (run_before_full q xs hx).2⟩

/-- at the `m`-th observation the markers are the sorted observations and no adjustment fires
    (all rank gaps are exactly 1; uses `int_exact` only) -/
theorem exact_at_m_fl (q xs : List (Fl R)) (hm : 2 ≤ q.length) (hx : xs.length = q.length)
    (hN : xs.length ≤ R.N) :
    (P2.run q xs).h = sortK xs ∧ (P2.run q xs).pos = (P2.init q).pos := by
  rcases List.eq_nil_or_concat' xs with rfl | ⟨ys, x, rfl⟩
  · simp at hx; omega
  · have hy : ys.length + 1 = q.length := by simpa using hx
    obtain ⟨e1, e2⟩ := run_before_full q ys (by omega)
    rw [run_snoc, push_sort _ _ (by rw [run_n, run_q]; exact hy)]
    simp only [run_q, e1, e2, adjustAll_initPos q _ _ (by rw [← hx]; exact hN)]
    exact ⟨trivial, rfl⟩

theorem inv_at_full (q xs : List (Fl R)) (hm : 2 ≤ q.length) (hx : xs.length = q.length)
    (hN : xs.length ≤ R.N) : InvFl (P2.run q xs) xs := by
  obtain ⟨e1, e2⟩ := exact_at_m_fl q xs hm hx hN
  have ok : Marks R q.length (xs.length - 1) (sortK xs) (initPos (Fl R) q.length) :=
    hx ▸ marks_sorted_init xs hN
  obtain ⟨m1, m2, m3, m4⟩ := ok.extremes (by omega)
  have hp := sortK_perm xs
  apply InvFl.of_marks (B := xs.length - 1)
  · rw [run_q, e1, e2]; exact ok
  · exact run_n q xs
  · rw [e1]; exact hp.mem_iff.mp m1
  · rw [e1]; exact fun y hy => m2 y (hp.mem_iff.mpr hy)
  · rw [run_q, e1]; exact hp.mem_iff.mp m3
  · rw [run_q, e1]; exact fun y hy => m4 y (hp.mem_iff.mpr hy)
  · rw [e2, init_pos, nth_initPos (by omega), Fl.val_zero]
  · rw [run_q, e2, init_pos, nth_initPos (by omega), hx, Fl.val_nat (by omega)]

/-! ### one more observation -/

theorem inv_step (q : List (Fl R)) (s : P2 (Fl R)) (xs : List (Fl R)) (x : Fl R)
    (hm : 2 ≤ q.length) (hx : q.length ≤ xs.length) (hN : xs.length + 1 ≤ R.N)
    (inv : InvFl s xs) (hq : s.q = q) :
    InvFl (s.push x) (xs ++ [x]) := by
  subst hq
  have hB : xs.length - 1 + 1 ≤ R.N := by omega
  obtain ⟨ok1, a0, al, b0, bl⟩ := inv.marks.placeObs hm hB x
  obtain ⟨ok2, a0', al', b0', bl'⟩ := ok1.adjustAll s.q s.n hB
  rw [push_place s x (by rw [inv.n_eq]; omega)]
  apply InvFl.of_marks (B := xs.length - 1 + 1)
  · exact ok2
  · simp [inv.n_eq]
  · show nth _ 0 ∈ xs ++ [x]
    rw [a0', a0]
    rcases min_choice x (nth s.h 0) with e | e <;> rw [e]
    · simp
    · exact List.mem_append_left _ inv.min_mem
  · intro y hy
    show nth _ 0 ≤ y
    rw [a0', a0]
    rcases List.mem_append.mp hy with hy | hy
    · exact (min_le_right _ _).trans (inv.min_le y hy)
    · rw [List.mem_singleton.mp hy]; exact min_le_left _ _
  · show nth _ (s.q.length - 1) ∈ xs ++ [x]
    rw [al', al]
    rcases max_choice x (nth s.h (s.q.length - 1)) with e | e <;> rw [e]
    · simp
    · exact List.mem_append_left _ inv.max_mem
  · intro y hy
    show y ≤ nth _ (s.q.length - 1)
    rw [al', al]
    rcases List.mem_append.mp hy with hy | hy
    · exact (inv.le_max y hy).trans (le_max_right _ _)
    · rw [List.mem_singleton.mp hy]; exact le_max_left _ _
  · show Fl.val (nth _ 0) = 0
    rw [b0', b0, inv.pos_first]
  · show Fl.val (nth _ (s.q.length - 1)) = _
    rw [bl', bl, Fl.val_add, inv.pos_last, Fl.val_one (by omega)]
    have e : (xs ++ [x]).length - 1 = (xs.length - 1) + 1 := by simp; omega
    have e' : ((xs.length - 1 : ℕ) : F) + 1 = (((xs.length - 1) + 1 : ℕ) : F) := by
      push_cast; rfl
    rw [e, e', R.fl_nat hB]

theorem inv_run (q xs : List (Fl R)) (hm : 2 ≤ q.length) (hx : q.length ≤ xs.length)
    (hN : xs.length ≤ R.N) : InvFl (P2.run q xs) xs := by
  induction xs using List.reverseRec with
  | nil => have : q.length ≤ 0 := hx; omega
  | append_singleton xs x ih =>
    have hN' : xs.length + 1 ≤ R.N := by simpa using hN
    rcases Nat.lt_or_ge xs.length q.length with h | h
    · exact inv_at_full q _ hm (by simp at hx ⊢; omega) hN
    · rw [run_snoc]
      exact inv_step q _ xs x hm h hN' (ih h (by omega)) (run_q q xs)

/-! ### the property, in its own words -/

/-- (a) the marker values are non-decreasing — in rounded arithmetic.
    Uses every law of `Rounding` (`rel`/`u_small` only through `Rounding.key`). -/
theorem heights_sorted_fl (q xs : List (Fl R)) (hm : 2 ≤ q.length) (hx : q.length ≤ xs.length)
    (hN : xs.length ≤ R.N) : List.Pairwise (· ≤ ·) (P2.run q xs).h :=
  (inv_run q xs hm hx hN).sorted

/-- (b) the lowest marker is the exact minimum seen -/
theorem min_exact_fl (q xs : List (Fl R)) (hm : 2 ≤ q.length) (hx : q.length ≤ xs.length)
    (hN : xs.length ≤ R.N) :
    nth (P2.run q xs).h 0 ∈ xs ∧ ∀ y ∈ xs, nth (P2.run q xs).h 0 ≤ y :=
  ⟨(inv_run q xs hm hx hN).min_mem, (inv_run q xs hm hx hN).min_le⟩

/-- (b) the highest marker is the exact maximum seen -/
theorem max_exact_fl (q xs : List (Fl R)) (hm : 2 ≤ q.length) (hx : q.length ≤ xs.length)
    (hN : xs.length ≤ R.N) :
    nth (P2.run q xs).h (q.length - 1) ∈ xs ∧
      ∀ y ∈ xs, y ≤ nth (P2.run q xs).h (q.length - 1) := by
  have inv := inv_run q xs hm hx hN
  have a := inv.max_mem; have b := inv.le_max
  rw [run_q] at a b
  exact ⟨a, b⟩

/-- (c) + (e) every marker lies inside the observed data range -/
theorem heights_in_range_fl (q xs : List (Fl R)) (hm : 2 ≤ q.length) (hx : q.length ≤ xs.length)
    (hN : xs.length ≤ R.N) :
    (P2.run q xs).h.length = q.length ∧
    ∀ j, j < q.length → nth (P2.run q xs).h 0 ≤ nth (P2.run q xs).h j ∧
      nth (P2.run q xs).h j ≤ nth (P2.run q xs).h (q.length - 1) := by
  have inv := inv_run q xs hm hx hN
  have a := inv.hlen; have b := inv.between
  rw [run_q] at a b
  exact ⟨a, b⟩

/-- (c) in terms of the data: every marker is between two observations -/
theorem heights_between_data_fl (q xs : List (Fl R)) (hm : 2 ≤ q.length)
    (hx : q.length ≤ xs.length) (hN : xs.length ≤ R.N) (j : ℕ) (hj : j < q.length) :
    ∃ lo ∈ xs, ∃ hi ∈ xs, lo ≤ nth (P2.run q xs).h j ∧ nth (P2.run q xs).h j ≤ hi :=
  ⟨_, (min_exact_fl q xs hm hx hN).1, _, (max_exact_fl q xs hm hx hN).1,
    ((heights_in_range_fl q xs hm hx hN).2 j hj).1, ((heights_in_range_fl q xs hm hx hN).2 j hj).2⟩

/-- (d) + (e) the marker ranks are exactly represented naturals `≤ n-1`, strictly increasing,
    from `0` to `n-1` -/
theorem ranks_integers_strict_fl (q xs : List (Fl R)) (hm : 2 ≤ q.length)
    (hx : q.length ≤ xs.length) (hN : xs.length ≤ R.N) :
    (P2.run q xs).pos.length = q.length ∧
    (∀ j, j < q.length → ∃ z : ℕ, z ≤ xs.length - 1 ∧
      (nth (P2.run q xs).pos j).val = (z : F) ∧ nth (P2.run q xs).pos j = ((z : ℕ) : Fl R)) ∧
    List.Pairwise (· < ·) (P2.run q xs).pos ∧
    nth (P2.run q xs).pos 0 = ((0 : ℕ) : Fl R) ∧
    nth (P2.run q xs).pos (q.length - 1) = ((xs.length - 1 : ℕ) : Fl R) := by
  have inv := inv_run q xs hm hx hN
  have a := inv.plen; have b := inv.marks.pint; have c := inv.pos_last
  rw [run_q] at a b c
  refine ⟨a, fun j hj => ?_, inv.pstrict, ?_, ?_⟩
  · obtain ⟨z, hz, e⟩ := b j hj
    exact ⟨z, hz, e, Fl.ext (by rw [e, Fl.val_nat (by omega)])⟩
  · exact Fl.ext (by rw [inv.pos_first, Fl.val_zero])
  · exact Fl.ext (by rw [c, Fl.val_nat (by omega)])

/-- (e) lengths -/
theorem lengths_fl (q xs : List (Fl R)) (hm : 2 ≤ q.length) (hx : q.length ≤ xs.length)
    (hN : xs.length ≤ R.N) :
    (P2.run q xs).h.length = q.length ∧ (P2.run q xs).pos.length = q.length ∧
      (P2.run q xs).n = xs.length ∧ (P2.run q xs).q = q :=
  ⟨(heights_in_range_fl q xs hm hx hN).1, (ranks_integers_strict_fl q xs hm hx hN).1,
    run_n q xs, run_q q xs⟩

/-! ### (f) conservative extension: the identity rounding gives back the exact-field run -/

/-- for the identity rounding, `Fl.val` preserves every primitive of the model (all by `rfl`) -/
theorem val_opHom (N : ℕ) : OpHom (Fl.val : Fl (Rounding.id F N) → F) where
  add _ _ := rfl
  sub _ _ := rfl
  mul _ _ := rfl
  div _ _ := rfl
  neg _ := rfl
  nat _ := rfl
  lt _ _ := Iff.rfl
  le _ _ := Iff.rfl

/-- the rounded run with the identity rounding, read through `Fl.val`, IS the exact-field run
    of the same generic `P2.run` on the underlying numbers -/
theorem run_id_val (N : ℕ) (q xs : List (Fl (Rounding.id F N))) :
    P2.run (q.map Fl.val) (xs.map Fl.val) = mapP2 Fl.val (P2.run q xs) :=
  run_hom (val_opHom N) q xs

/-- every field element is representable for the identity rounding -/
def ofId (N : ℕ) (x : F) : Fl (Rounding.id F N) := ⟨x, rfl⟩

theorem map_val_ofId (N : ℕ) (l : List F) : (l.map (ofId N)).map Fl.val = l := by
  rw [List.map_map]
  exact List.map_id'' (fun _ => rfl) l

/-- conversely every exact-field run is (the image of) a rounded run with the identity rounding -/
theorem exact_run_eq (N : ℕ) (q xs : List F) :
    P2.run q xs = mapP2 Fl.val (P2.run (q.map (ofId N)) (xs.map (ofId N))) := by
  rw [← run_id_val, map_val_ofId, map_val_ofId]

/-- hence the exact-field theorem of C07 is the special case `R := Rounding.id F xs.length`
    of the rounded one (shown for `heights_sorted`) -/
theorem exact_heights_sorted (q xs : List F) (hm : 2 ≤ q.length) (hx : q.length ≤ xs.length) :
    List.Pairwise (· ≤ ·) (P2.run q xs).h := by
  rw [exact_run_eq xs.length q xs]
  have := heights_sorted_fl (R := Rounding.id F xs.length) (q.map (ofId _)) (xs.map (ofId _))
    (by simpa using hm) (by simpa using hx) (by rw [List.length_map]; exact le_rfl)
  exact this.map Fl.val (fun _ _ h => h)

/-! ### non-vacuity: the theorems apply to a genuinely rounding arithmetic -/

/-- 4-significant-bit binary floating point over ℚ, round toward zero (`N = 8`) -/
abbrev R3 : Rounding ℚ := Rounding.trunc 3 (by norm_num)

/-- `R3` really rounds: `17/16` is not representable -/
example : R3.fl (17 / 16) = 1 := Rounding.trunc_3_fl_17_16

/-- the sortedness theorem at `R3`, for every grid of ≥ 2 points and up to 8 observations -/
example (q xs : List (Fl R3)) (hm : 2 ≤ q.length) (hx : q.length ≤ xs.length)
    (h8 : xs.length ≤ 8) : List.Pairwise (· ≤ ·) (P2.run q xs).h :=
  heights_sorted_fl q xs hm hx h8

end Gpv.C07Float

#print axioms Gpv.C07Float.before_full_fl
#print axioms Gpv.C07Float.exact_at_m_fl
#print axioms Gpv.C07Float.inv_at_full
#print axioms Gpv.C07Float.inv_step
#print axioms Gpv.C07Float.inv_run
#print axioms Gpv.C07Float.heights_sorted_fl
#print axioms Gpv.C07Float.min_exact_fl
#print axioms Gpv.C07Float.max_exact_fl
#print axioms Gpv.C07Float.heights_in_range_fl
#print axioms Gpv.C07Float.heights_between_data_fl
#print axioms Gpv.C07Float.ranks_integers_strict_fl
#print axioms Gpv.C07Float.lengths_fl
#print axioms Gpv.C07Float.val_opHom
#print axioms Gpv.C07Float.run_id_val
#print axioms Gpv.C07Float.exact_run_eq
#print axioms Gpv.C07Float.exact_heights_sorted
