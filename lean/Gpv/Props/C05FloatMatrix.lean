/-
  C05 / C06 / C17, floating-point clauses for the WHOLE COVARIANCE MATRIX — the per-entry
  rounding-error theorems of C05FloatCov (streaming `Covariance`), C06FloatCov (merge),
  C06FloatCovTree (merge trees) and C17FloatCov (`RunningCovariance`) lifted to statements
  quantified over ALL entries `(i, j)` of the `d × d` matrix at once, in the max-norm
      ∀ i j,  |C i j − Cexact i j| ≤ bound .
  These are corollaries; the point is that the matrix-level claim is machine-checked.

  Setting.  Observations are vectors `v : Fin d → K`, `vs : List (Fin d → K)`; entry `(i, j)`
  sees the pairs `pairsAt i j vs = [(v i, v j) | v ∈ vs]`.  A float matrix state is a mean
  vector `m : Fin d → K` and a matrix `C : Fin d → Fin d → K`.  Every component bounded by one
  `M`: `∀ v ∈ vs, ∀ k, |v k| ≤ M`.

  HOW THE ENTRIES ARE COUPLED.  In numpy the entries of `np.outer(delta1, delta2)` and of the
  elementwise updates are independent float computations that share only the mean vector (and
  the difference vectors formed from it).  Two levels are given for each operation:
    * ENTRYWISE hypotheses `∀ i j, Rel … (m i) (m j) (C i j)` — every entry is related by the
      per-entry relation to its own rounding choices, sharing the FINAL mean components `m i`,
      `m j` only (`…_entrywise`).  This is the weaker hypothesis, hence the stronger theorem.
    * FAITHFUL matrix relations that share what the program shares at EVERY step:
      `FlCovMatRun` (streaming: one float mean vector per step, common to all entries),
      `FlCovMatMerge` (merge: ONE rounded difference vector `dmean`, used by all entries — so its
      diagonal is literally the float VARIANCE merge, `matrix_merge_diag_is_var_merge`),
      `FlCovMatTree` (trees of those), `FlRCMatRun` / `FlRCovMat` (running: one float mean
      vector per step).  Each projects onto the per-entry relation (`….entry`), the exact
      matrix is a possible result (`exact_matrix_possible`, `exact_merge_possible`,
      `exact_rmatrix_possible`), and the
      bounds follow.  Within one step the relations still let `delta1[i]` be rounded
      separately for every entry of row `i` (the per-entry step relations of FloatCov /
      FloatRunningCov quantify it existentially); that is a SUPERSET of what numpy does, so
      the bounds apply to the program.

  Proved (every possible float result; `n` observations, `N` in total for merges):

  1. streaming (`C05FloatCov.cov_float_error_abs`), `64·n·u ≤ 1`:
     `cov_matrix_float_error_entrywise`, `cov_matrix_float_error`
         ∀ i j, |C i j − Sxy(i,j)/n| ≤ 62·n·u·M²   and   ∀ k, |m k − mean_k| ≤ 6·n·u·M;
     `cov_matrix_float_vs_model`  against `(Cov2.run (pairsAt i j vs)).c.val` — entry `(i, j)`
     of the matrix model `Covariance` (`Covariance.foldl_entry`, Gpv/Proofs/ValHom.lean);
     `cov_matrix_float_symm`  entries `(i, j)` and `(j, i)` obey the same bound against the
     SAME exact value, hence `|C i j − C j i| ≤ 2·62·n·u·M²` (the float matrix need not be
     symmetric, C05FloatCov).
  2. merge (`C06FloatCov.cov_merge_float_error_bounded_sq`), `u ≤ 1/64`, means bounded by
     `M`, operand entries by `M²`:
     `cov_matrix_merge_float_error_entrywise`, `cov_matrix_merge_float_error`
         ∀ i j, |R i j − mergeExact i j| ≤ 13·u·M²   (independent of the counts);
     `cov_matrix_merge_float_symm` (symmetric operands: `(i, j)` and `(j, i)` against the same
     exact value), `matrix_merge_transpose` (the transpose of a possible result is possible),
     `matrix_merge_diag_is_var_merge`;
     `merged_cov_matrix_streams_float_error`  two float streaming matrix runs, merged:
         ∀ i j, |R i j − Sxy(i,j)/N| ≤ 13·u·M² + 74·N·u·M².
  3. merge trees (`C06FloatCovTree.cov_tree_float_error_lin`), `64·L·u ≤ 1`, `64·depth·u ≤ 1`:
     `cov_matrix_tree_float_error`
         ∀ i j, |C i j − Sxy(i,j)/N| ≤ (67·L + 30·depth·(L+depth))·u·M².
  4. running (`C17FloatCov.rcov_float_error_model`), lifetime `l ≥ 1`, `8·l·u ≤ 1`:
     `rcov_matrix_float_error_entrywise`, `rcov_matrix_float_error`
         ∀ i j, |C i j − exact i j| ≤ 244·l·u·M²   and   ∀ k, |m k − exact mean_k| ≤ 8·l·u·M
     for ANY number of observations; `exact_rcov_symm` (the exact running covariance is
     symmetric), `rcov_matrix_float_symm` (`(i, j)` and `(j, i)` against the same exact value).
  * `example`s over ℚ (`d = 2`).

  Not proved here: norms other than the max-norm (a Frobenius or spectral bound follows from
  the entrywise one with a factor `d`; not stated); separate magnitudes per component (the
  per-entry theorems have `Mx`, `My`; take `M = max`); that the shared-step relations are
  EXACTLY numpy's set of results (they are supersets, see above); positive semi-definiteness
  of the float matrix (false in general).
-/
import Gpv.Props.C06FloatCovTree
import Gpv.Props.C17FloatCov
set_option linter.unusedSectionVars false

namespace Gpv.C05FloatMatrix
open Gpv Gpv.C06
variable {K : Type} [Field K] [LinearOrder K] [IsStrictOrderedRing K]
variable {d : ℕ}

/-! ### 0. the pairs seen by entry `(i, j)` -/

/-- the pairs `(v i, v j)` entry `(i, j)` of the matrix accumulates -/
def pairsAt (i j : Fin d) (vs : List (Fin d → K)) : List (K × K) := vs.map fun v => (v i, v j)

theorem pairsAt_length (i j : Fin d) (vs : List (Fin d → K)) :
    (pairsAt i j vs).length = vs.length := by simp [pairsAt]

theorem pairsAt_append (i j : Fin d) (vs ws : List (Fin d → K)) :
    pairsAt i j (vs ++ ws) = pairsAt i j vs ++ pairsAt i j ws := by simp [pairsAt]

theorem pairsAt_snoc (i j : Fin d) (vs : List (Fin d → K)) (v : Fin d → K) :
    pairsAt i j (vs ++ [v]) = pairsAt i j vs ++ [(v i, v j)] := by simp [pairsAt]

theorem pairsAt_swap (i j : Fin d) (vs : List (Fin d → K)) :
    (pairsAt i j vs).map Prod.swap = pairsAt j i vs := by
  simp [pairsAt, List.map_map, Function.comp_def]

theorem pairsAt_ne_nil (i j : Fin d) {vs : List (Fin d → K)} (h : vs ≠ []) :
    pairsAt i j vs ≠ [] := by simpa [pairsAt] using h

theorem pairsAt_fst (i j : Fin d) (vs : List (Fin d → K)) :
    (pairsAt i j vs).map Prod.fst = vs.map fun v => v i := by
  simp [pairsAt, List.map_map, Function.comp_def]

theorem pairsAt_snd (i j : Fin d) (vs : List (Fin d → K)) :
    (pairsAt i j vs).map Prod.snd = vs.map fun v => v j := by
  simp [pairsAt, List.map_map, Function.comp_def]

theorem pairsAt_fst_le {M : K} {vs : List (Fin d → K)} (h : ∀ v ∈ vs, ∀ k, |v k| ≤ M)
    (i j : Fin d) : ∀ p ∈ pairsAt i j vs, |p.1| ≤ M := by
  intro p hp
  obtain ⟨v, hv, rfl⟩ := List.mem_map.mp hp
  exact h v hv i

theorem pairsAt_snd_le {M : K} {vs : List (Fin d → K)} (h : ∀ v ∈ vs, ∀ k, |v k| ≤ M)
    (i j : Fin d) : ∀ p ∈ pairsAt i j vs, |p.2| ≤ M := by
  intro p hp
  obtain ⟨v, hv, rfl⟩ := List.mem_map.mp hp
  exact h v hv j

theorem pairsAt_both_le {M : K} {vs : List (Fin d → K)} (h : ∀ v ∈ vs, ∀ k, |v k| ≤ M)
    (i j : Fin d) : ∀ p ∈ pairsAt i j vs, |p.1| ≤ M ∧ |p.2| ≤ M :=
  fun p hp => ⟨pairsAt_fst_le h i j p hp, pairsAt_snd_le h i j p hp⟩

/-- the exact mean of component `k` -/
def exactMean (vs : List (Fin d → K)) (k : Fin d) : K := (Mean.run (vs.map fun v => v k)).val

/-- the exact population covariance entry `(i, j)`: the `c.val` of the two-component model
    `Cov2` fed the pairs of components `i`, `j` (= entry `(i, j)` of the matrix model
    `Covariance`, `Covariance.foldl_entry`) -/
def exactCov (vs : List (Fin d → K)) (i j : Fin d) : K := (Cov2.run (pairsAt i j vs)).c.val

theorem run_mx_pairsAt (i j : Fin d) (vs : List (Fin d → K)) :
    (Cov2.run (pairsAt i j vs)).mx.val = exactMean vs i := by
  rw [Cov2.run_mx, pairsAt_fst]; rfl

theorem run_my_pairsAt (i j : Fin d) (vs : List (Fin d → K)) :
    (Cov2.run (pairsAt i j vs)).my.val = exactMean vs j := by
  rw [Cov2.run_my, pairsAt_snd]; rfl

/-- the exact matrix is symmetric -/
theorem exactCov_symm (vs : List (Fin d → K)) (i j : Fin d) : exactCov vs j i = exactCov vs i j := by
  unfold exactCov
  rw [← pairsAt_swap i j vs]
  exact (C05.cov_symm _).1

/-- `Sxy(j, i) = Sxy(i, j)` -/
theorem sumProdDev_pairsAt_symm (vs : List (Fin d → K)) (i j : Fin d) :
    sumProdDev (pairsAt j i vs) = sumProdDev (pairsAt i j vs) := by
  rw [← pairsAt_swap i j vs]
  exact C05FloatCov.sumProdDev_swap _

/-- `exactCov = Sxy/n` -/
theorem exactCov_eq (vs : List (Fin d → K)) (hne : vs ≠ []) (i j : Fin d) :
    exactCov vs i j = sumProdDev (pairsAt i j vs) / (vs.length : K) := by
  have hN : (vs.length : K) ≠ 0 :=
    Nat.cast_ne_zero.mpr (Nat.pos_iff_ne_zero.mp (List.length_pos_iff.mpr hne))
  have := C05FloatCov.exact_C_eq (pairsAt i j vs)
  rw [pairsAt_length] at this
  unfold exactCov
  rw [← this]
  field_simp

/-! ### 1. the streaming covariance matrix -/

/-- **faithful matrix relation, streaming.**  `(m, C)` is a possible float state (mean vector,
    population covariance matrix) after the observation vectors `vs`: at every step ONE float
    mean vector `m'` is produced and every entry `(i, j)` performs its own float
    `Cov2.push` step (`FlCovStep`) from the shared old means `m i`, `m j` to the shared new
    means `m' i`, `m' j` -/
inductive FlCovMatRun (u : K) : List (Fin d → K) → (Fin d → K) → (Fin d → Fin d → K) → Prop
  | nil : FlCovMatRun u [] (fun _ => 0) (fun _ _ => 0)
  | snoc {vs : List (Fin d → K)} {m : Fin d → K} {C : Fin d → Fin d → K} (v : Fin d → K)
      (m' : Fin d → K) (C' : Fin d → Fin d → K) :
      FlCovMatRun u vs m C →
      (∀ i j, FlCovStep u (vs.length + 1) (m i) (m j) (C i j) (v i) (v j) (m' i) (m' j) (C' i j)) →
      FlCovMatRun u (vs ++ [v]) m' C'

/-- every entry of a matrix run is a per-entry run (`FlCovRun`, C05FloatCov) -/
theorem FlCovMatRun.entry {u : K} {vs : List (Fin d → K)} {m : Fin d → K}
    {C : Fin d → Fin d → K} (h : FlCovMatRun u vs m C) (i j : Fin d) :
    FlCovRun u (pairsAt i j vs) (m i) (m j) (C i j) := by
  induction h with
  | nil => exact FlCovRun.nil
  | @snoc vs m C v m' C' _ hs ih =>
    rw [pairsAt_snoc]
    refine FlCovRun.snoc (v i, v j) _ _ _ ih ?_
    rw [pairsAt_length]
    exact hs i j

theorem FlCovMatRun.mono {u u' : K} (hu : u ≤ u') {vs : List (Fin d → K)} {m : Fin d → K}
    {C : Fin d → Fin d → K} (h : FlCovMatRun u vs m C) : FlCovMatRun u' vs m C := by
  induction h with
  | nil => exact FlCovMatRun.nil
  | snoc v m' C' _ hs ih => exact FlCovMatRun.snoc v m' C' ih (fun i j => (hs i j).mono hu)

/-- the exact matrix state is a possible float state, for every `u ≥ 0` -/
theorem exact_matrix_possible {u : K} (hu : 0 ≤ u) (vs : List (Fin d → K)) :
    FlCovMatRun u vs (exactMean vs) (exactCov vs) := by
  induction vs using List.reverseRec with
  | nil =>
    have e1 : exactMean ([] : List (Fin d → K)) = fun _ => 0 := by
      funext k; simp [exactMean, Mean.run, Mean.init]
    have e2 : exactCov ([] : List (Fin d → K)) = fun _ _ => 0 := by
      funext i j; simp [exactCov, pairsAt, Cov2.init, Mean.init]
    rw [e1, e2]; exact FlCovMatRun.nil
  | append_singleton vs v ih =>
    refine FlCovMatRun.snoc v _ _ ih ?_
    intro i j
    obtain ⟨e1, e2, e3⟩ := Cov2.run_snoc_vals (pairsAt i j vs) (v i, v j)
    rw [← pairsAt_snoc i j vs v, pairsAt_length] at e1 e2 e3
    rw [run_mx_pairsAt, run_mx_pairsAt] at e1
    rw [run_my_pairsAt, run_my_pairsAt] at e2
    rw [run_mx_pairsAt, run_my_pairsAt] at e3
    have hs := FlCovStep.exact (K := K) hu (vs.length + 1) (exactMean vs i) (exactMean vs j)
      (exactCov vs i j) (v i) (v j)
    have hc : ∀ ws : List (Fin d → K), exactCov ws i j = (Cov2.run (pairsAt i j ws)).c.val :=
      fun _ => rfl
    rw [← e2] at hs
    rw [hc vs, ← e3, ← e1, ← hc] at hs
    exact hs

/-- **streaming matrix, entrywise hypotheses.**  Every entry `(i, j)` is some float streaming
    run over its pairs ending in the shared means `m i`, `m j`; `n` observations, every
    component bounded by `M`, `64·n·u ≤ 1`:
    `∀ i j, |C i j − Sxy(i,j)/n| ≤ 62·n·u·M²`, `∀ k, |m k − mean_k| ≤ 6·n·u·M` -/
theorem cov_matrix_float_error_entrywise {u M : K} (hu : 0 ≤ u) (hM : 0 ≤ M)
    {vs : List (Fin d → K)} (hne : vs ≠ []) (hx : ∀ v ∈ vs, ∀ k, |v k| ≤ M)
    (hsmall : 64 * (vs.length : K) * u ≤ 1) {m : Fin d → K} {C : Fin d → Fin d → K}
    (h : ∀ i j, FlCovRun u (pairsAt i j vs) (m i) (m j) (C i j)) :
    (∀ i j, |C i j - sumProdDev (pairsAt i j vs) / (vs.length : K)|
        ≤ 62 * (vs.length : K) * u * M ^ 2)
      ∧ ∀ k, |m k - exactMean vs k| ≤ 6 * (vs.length : K) * u * M := by
  constructor
  · intro i j
    have := C05FloatCov.cov_float_error_abs hu (pairsAt_ne_nil i j hne) (pairsAt_fst_le hx i j)
      (pairsAt_snd_le hx i j) (by rw [pairsAt_length]; exact hsmall) (h i j)
    rw [pairsAt_length] at this
    rw [pow_two]; exact this
  · intro k
    have := (FlCovRun.mean_errors hu hM hM (h k k) (pairsAt_fst_le hx k k) (pairsAt_snd_le hx k k)
      (by rw [pairsAt_length]; linarith)).1
    rw [pairsAt_length, run_mx_pairsAt] at this
    exact this

/-- **streaming matrix**, from the faithful matrix relation -/
theorem cov_matrix_float_error {u M : K} (hu : 0 ≤ u) (hM : 0 ≤ M)
    {vs : List (Fin d → K)} (hne : vs ≠ []) (hx : ∀ v ∈ vs, ∀ k, |v k| ≤ M)
    (hsmall : 64 * (vs.length : K) * u ≤ 1) {m : Fin d → K} {C : Fin d → Fin d → K}
    (h : FlCovMatRun u vs m C) :
    (∀ i j, |C i j - sumProdDev (pairsAt i j vs) / (vs.length : K)|
        ≤ 62 * (vs.length : K) * u * M ^ 2)
      ∧ ∀ k, |m k - exactMean vs k| ≤ 6 * (vs.length : K) * u * M :=
  cov_matrix_float_error_entrywise hu hM hne hx hsmall h.entry

/-- the same against the exact matrix of the model -/
theorem cov_matrix_float_vs_model {u M : K} (hu : 0 ≤ u) (hM : 0 ≤ M)
    {vs : List (Fin d → K)} (hne : vs ≠ []) (hx : ∀ v ∈ vs, ∀ k, |v k| ≤ M)
    (hsmall : 64 * (vs.length : K) * u ≤ 1) {m : Fin d → K} {C : Fin d → Fin d → K}
    (h : ∀ i j, FlCovRun u (pairsAt i j vs) (m i) (m j) (C i j)) :
    ∀ i j, |C i j - exactCov vs i j| ≤ 62 * (vs.length : K) * u * M ^ 2 := by
  intro i j
  rw [exactCov_eq vs hne]
  exact (cov_matrix_float_error_entrywise hu hM hne hx hsmall h).1 i j

/-- **the symmetric part.**  The float matrix need not be symmetric (entry `(i, j)` rounds
    `fl(x_i − m_i,old)·fl(x_j − m_j,new)`, entry `(j, i)` the other way round), but both entries
    obey the same bound against the SAME exact value, so the asymmetry is at most twice it -/
theorem cov_matrix_float_symm {u M : K} (hu : 0 ≤ u) (hM : 0 ≤ M)
    {vs : List (Fin d → K)} (hne : vs ≠ []) (hx : ∀ v ∈ vs, ∀ k, |v k| ≤ M)
    (hsmall : 64 * (vs.length : K) * u ≤ 1) {m : Fin d → K} {C : Fin d → Fin d → K}
    (h : ∀ i j, FlCovRun u (pairsAt i j vs) (m i) (m j) (C i j)) :
    ∀ i j, |C i j - exactCov vs i j| ≤ 62 * (vs.length : K) * u * M ^ 2
      ∧ |C j i - exactCov vs i j| ≤ 62 * (vs.length : K) * u * M ^ 2
      ∧ |C i j - C j i| ≤ 2 * (62 * (vs.length : K) * u * M ^ 2) := by
  intro i j
  have h1 := cov_matrix_float_vs_model hu hM hne hx hsmall h i j
  have h2 := cov_matrix_float_vs_model hu hM hne hx hsmall h j i
  rw [exactCov_symm vs i j] at h2
  refine ⟨h1, h2, ?_⟩
  have e : C i j - C j i = (C i j - exactCov vs i j) - (C j i - exactCov vs i j) := by ring
  rw [e]
  exact (abs_sub _ _).trans (by linarith)

/-! ### 2. the covariance-matrix merge -/

/-- **faithful matrix relation, merge.**  `R` is a possible float merged population covariance
    matrix of (mean vector `a`, matrix `Ca`, count `n`) and (`b`, `Cb`, `m`): ONE rounded
    difference vector `dmean = fl(a − b)` shared by all entries, then for every entry `(i, j)`
    its own nine remaining operations of `FlCovMerge` (the `.sum` products, the outer-product
    entry `dmean[i]·dmean[j]`, `·n`, `·m`, `/N`, the two additions, the final `/N`) -/
def FlCovMatMerge (u : K) (a : Fin d → K) (Ca : Fin d → Fin d → K) (n : ℕ) (b : Fin d → K)
    (Cb : Fin d → Fin d → K) (m : ℕ) (R : Fin d → Fin d → K) : Prop :=
  ∃ dm : Fin d → K, (∀ k, Rnd u (a k - b k) (dm k)) ∧ ∀ i j, ∃ sa sb q q1 q2 q3 s1 s2 : K,
    Rnd u (Ca i j * (n : K)) sa ∧ Rnd u (Cb i j * (m : K)) sb
      ∧ Rnd u (dm i * dm j) q ∧ Rnd u (q * (n : K)) q1 ∧ Rnd u (q1 * (m : K)) q2
      ∧ Rnd u (q2 / ((n + m : ℕ) : K)) q3
      ∧ Rnd u (sa + sb) s1 ∧ Rnd u (s1 + q3) s2 ∧ Rnd u (s2 / ((n + m : ℕ) : K)) (R i j)

/-- every entry of a matrix merge is a per-entry merge (`FlCovMerge`, C06FloatCov) -/
theorem FlCovMatMerge.entry {u : K} {a b : Fin d → K} {Ca Cb R : Fin d → Fin d → K} {n m : ℕ}
    (h : FlCovMatMerge u a Ca n b Cb m R) (i j : Fin d) :
    FlCovMerge u (a i) (a j) (Ca i j) n (b i) (b j) (Cb i j) m (R i j) := by
  obtain ⟨dm, hd, he⟩ := h
  obtain ⟨sa, sb, q, q1, q2, q3, s1, s2, h3, h4, h5, h6, h7, h8, h9, h10, h11⟩ := he i j
  exact ⟨dm i, dm j, sa, sb, q, q1, q2, q3, s1, s2, hd i, hd j, h3, h4, h5, h6, h7, h8, h9, h10,
    h11⟩

/-- **the diagonal of a matrix merge is a float VARIANCE merge** (`FlVarMerge`, C06FloatVar):
    the shared `dmean[i]` is multiplied with itself, so the relative bound
    `|R i i − V| ≤ ((1+u)⁸ − 1)·V` of C06FloatVar applies to the diagonal -/
theorem matrix_merge_diag_is_var_merge {u : K} {a b : Fin d → K} {Ca Cb R : Fin d → Fin d → K}
    {n m : ℕ} (h : FlCovMatMerge u a Ca n b Cb m R) (i : Fin d) :
    FlVarMerge u (a i) (Ca i i) n (b i) (Cb i i) m (R i i) := by
  obtain ⟨dm, hd, he⟩ := h
  obtain ⟨sa, sb, q, q1, q2, q3, s1, s2, h3, h4, h5, h6, h7, h8, h9, h10, h11⟩ := he i i
  exact ⟨dm i, sa, sb, q, q1, q2, q3, s1, s2, hd i, h3, h4, h5, h6, h7, h8, h9, h10, h11⟩

theorem FlCovMatMerge.mono {u u' : K} (hu : u ≤ u') {a b : Fin d → K}
    {Ca Cb R : Fin d → Fin d → K} {n m : ℕ} (h : FlCovMatMerge u a Ca n b Cb m R) :
    FlCovMatMerge u' a Ca n b Cb m R := by
  obtain ⟨dm, hd, he⟩ := h
  refine ⟨dm, fun k => (hd k).mono hu, fun i j => ?_⟩
  obtain ⟨sa, sb, q, q1, q2, q3, s1, s2, h3, h4, h5, h6, h7, h8, h9, h10, h11⟩ := he i j
  exact ⟨sa, sb, q, q1, q2, q3, s1, s2, h3.mono hu, h4.mono hu, h5.mono hu, h6.mono hu,
    h7.mono hu, h8.mono hu, h9.mono hu, h10.mono hu, h11.mono hu⟩

/-- the exact merged matrix, entry by entry (the source formula) -/
def mergeExact (a : Fin d → K) (Ca : Fin d → Fin d → K) (n : ℕ) (b : Fin d → K)
    (Cb : Fin d → Fin d → K) (m : ℕ) (i j : Fin d) : K :=
  ((n : K) * Ca i j + (m : K) * Cb i j
      + (a i - b i) * (a j - b j) * (n : K) * (m : K) / ((n + m : ℕ) : K)) / ((n + m : ℕ) : K)

theorem mergeExact_eq (a : Fin d → K) (Ca : Fin d → Fin d → K) (n : ℕ) (b : Fin d → K)
    (Cb : Fin d → Fin d → K) (m : ℕ) (i j : Fin d) :
    mergeExact a Ca n b Cb m i j = covMergeVal (a i) (a j) (Ca i j) n (b i) (b j) (Cb i j) m := by
  unfold mergeExact; rw [covMergeVal_eq]

/-- symmetric operands give a symmetric exact merged matrix -/
theorem mergeExact_symm {a b : Fin d → K} {Ca Cb : Fin d → Fin d → K} (n m : ℕ)
    (hCa : ∀ i j, Ca j i = Ca i j) (hCb : ∀ i j, Cb j i = Cb i j) (i j : Fin d) :
    mergeExact a Ca n b Cb m j i = mergeExact a Ca n b Cb m i j := by
  unfold mergeExact
  rw [hCa i j, hCb i j]
  ring

/-- the exact merged matrix is a possible float result, for every `u ≥ 0` -/
theorem exact_merge_possible {u : K} (hu : 0 ≤ u) (a : Fin d → K) (Ca : Fin d → Fin d → K) (n : ℕ)
    (b : Fin d → K) (Cb : Fin d → Fin d → K) (m : ℕ) :
    FlCovMatMerge u a Ca n b Cb m (mergeExact a Ca n b Cb m) := by
  refine ⟨fun k => a k - b k, fun k => Rnd.exact hu _, fun i j => ?_⟩
  rw [mergeExact_eq]
  exact ⟨_, _, _, _, _, _, _, _, Rnd.exact hu _, Rnd.exact hu _, Rnd.exact hu _, Rnd.exact hu _,
    Rnd.exact hu _, Rnd.exact hu _, Rnd.exact hu _, Rnd.exact hu _, Rnd.exact hu _⟩

/-- with symmetric operands the transpose of a possible float merged matrix is possible (the
    product `dmean[i]·dmean[j]` commutes exactly) — the float merge, unlike the float streaming
    update, does not prefer a triangle -/
theorem matrix_merge_transpose {u : K} {a b : Fin d → K} {Ca Cb R : Fin d → Fin d → K} {n m : ℕ}
    (hCa : ∀ i j, Ca j i = Ca i j) (hCb : ∀ i j, Cb j i = Cb i j)
    (h : FlCovMatMerge u a Ca n b Cb m R) : FlCovMatMerge u a Ca n b Cb m (fun i j => R j i) := by
  obtain ⟨dm, hd, he⟩ := h
  refine ⟨dm, hd, fun i j => ?_⟩
  obtain ⟨sa, sb, q, q1, q2, q3, s1, s2, h3, h4, h5, h6, h7, h8, h9, h10, h11⟩ := he j i
  rw [hCa i j] at h3
  rw [hCb i j] at h4
  exact ⟨sa, sb, q, q1, q2, q3, s1, s2, h3, h4, h5.mul_comm', h6, h7, h8, h9, h10, h11⟩

/-- **matrix merge, entrywise hypotheses.**  Means bounded by `M`, operand entries by `M²`
    (true for exact population covariances of data bounded by `M`,
    `C06FloatCov.exact_cov_abs_le`), `u ≤ 1/64`:
    `∀ i j, |R i j − mergeExact i j| ≤ 13·u·M²` — independent of the counts -/
theorem cov_matrix_merge_float_error_entrywise {u M : K} (hu64 : u ≤ 1 / 64) {n m : ℕ}
    (hnm : n + m ≠ 0) {a b : Fin d → K} {Ca Cb R : Fin d → Fin d → K}
    (ha : ∀ k, |a k| ≤ M) (hb : ∀ k, |b k| ≤ M)
    (hCa : ∀ i j, |Ca i j| ≤ M ^ 2) (hCb : ∀ i j, |Cb i j| ≤ M ^ 2)
    (h : ∀ i j, FlCovMerge u (a i) (a j) (Ca i j) n (b i) (b j) (Cb i j) m (R i j)) :
    ∀ i j, |R i j - mergeExact a Ca n b Cb m i j| ≤ 13 * u * M ^ 2 := fun i j =>
  C06FloatCov.cov_merge_float_error_bounded_sq hu64 hnm (ha i) (hb i) (ha j) (hb j) (hCa i j)
    (hCb i j) (h i j)

/-- **matrix merge**, from the faithful matrix relation (shared `dmean`) -/
theorem cov_matrix_merge_float_error {u M : K} (hu64 : u ≤ 1 / 64) {n m : ℕ}
    (hnm : n + m ≠ 0) {a b : Fin d → K} {Ca Cb R : Fin d → Fin d → K}
    (ha : ∀ k, |a k| ≤ M) (hb : ∀ k, |b k| ≤ M)
    (hCa : ∀ i j, |Ca i j| ≤ M ^ 2) (hCb : ∀ i j, |Cb i j| ≤ M ^ 2)
    (h : FlCovMatMerge u a Ca n b Cb m R) :
    ∀ i j, |R i j - mergeExact a Ca n b Cb m i j| ≤ 13 * u * M ^ 2 :=
  cov_matrix_merge_float_error_entrywise hu64 hnm ha hb hCa hCb h.entry

/-- **the symmetric part of the merge.**  Symmetric operands: entries `(i, j)` and `(j, i)` of
    any float merged matrix are within the same bound of the same exact value -/
theorem cov_matrix_merge_float_symm {u M : K} (hu64 : u ≤ 1 / 64) {n m : ℕ}
    (hnm : n + m ≠ 0) {a b : Fin d → K} {Ca Cb R : Fin d → Fin d → K}
    (ha : ∀ k, |a k| ≤ M) (hb : ∀ k, |b k| ≤ M)
    (hCa : ∀ i j, |Ca i j| ≤ M ^ 2) (hCb : ∀ i j, |Cb i j| ≤ M ^ 2)
    (hsa : ∀ i j, Ca j i = Ca i j) (hsb : ∀ i j, Cb j i = Cb i j)
    (h : ∀ i j, FlCovMerge u (a i) (a j) (Ca i j) n (b i) (b j) (Cb i j) m (R i j)) :
    ∀ i j, |R i j - mergeExact a Ca n b Cb m i j| ≤ 13 * u * M ^ 2
      ∧ |R j i - mergeExact a Ca n b Cb m i j| ≤ 13 * u * M ^ 2
      ∧ |R i j - R j i| ≤ 2 * (13 * u * M ^ 2) := by
  intro i j
  have h1 := cov_matrix_merge_float_error_entrywise hu64 hnm ha hb hCa hCb h i j
  have h2 := cov_matrix_merge_float_error_entrywise hu64 hnm ha hb hCa hCb h j i
  rw [mergeExact_symm n m hsa hsb i j] at h2
  refine ⟨h1, h2, ?_⟩
  have e : R i j - R j i = (R i j - mergeExact a Ca n b Cb m i j)
      - (R j i - mergeExact a Ca n b Cb m i j) := by ring
  rw [e]
  exact (abs_sub _ _).trans (by linarith)

/-- **two float streaming matrix runs, merged** (`C06FloatCov.merged_cov_streams_float_error`):
    `∀ i j, |R i j − Sxy(i,j)/N| ≤ 13·u·M² + 74·N·u·M²`, `N = |vs| + |ws|` -/
theorem merged_cov_matrix_streams_float_error {u M : K} (hu : 0 ≤ u) (hM : 0 ≤ M)
    {vs ws : List (Fin d → K)} (hne : vs.length + ws.length ≠ 0)
    (hv : ∀ v ∈ vs, ∀ k, |v k| ≤ M) (hw : ∀ v ∈ ws, ∀ k, |v k| ≤ M)
    (hsv : 64 * (vs.length : K) * u ≤ 1) (hsw : 64 * (ws.length : K) * u ≤ 1)
    {a b : Fin d → K} {Ca Cb R : Fin d → Fin d → K}
    (hA : ∀ i j, FlCovRun u (pairsAt i j vs) (a i) (a j) (Ca i j))
    (hB : ∀ i j, FlCovRun u (pairsAt i j ws) (b i) (b j) (Cb i j))
    (hR : ∀ i j, FlCovMerge u (a i) (a j) (Ca i j) vs.length (b i) (b j) (Cb i j) ws.length
      (R i j)) :
    ∀ i j, |R i j - sumProdDev (pairsAt i j (vs ++ ws)) / ((vs ++ ws).length : K)|
      ≤ 13 * u * M ^ 2 + 74 * ((vs ++ ws).length : K) * u * M ^ 2 := by
  intro i j
  have hm := hR i j
  rw [← pairsAt_length i j vs, ← pairsAt_length i j ws] at hm
  have := C06FloatCov.merged_cov_streams_float_error hu hM hM
    (ps := pairsAt i j vs) (qs := pairsAt i j ws)
    (by rw [pairsAt_length, pairsAt_length]; exact hne)
    (pairsAt_fst_le hv i j) (pairsAt_snd_le hv i j) (pairsAt_fst_le hw i j) (pairsAt_snd_le hw i j)
    (by rw [pairsAt_length]; exact hsv) (by rw [pairsAt_length]; exact hsw) (hA i j) (hB i j) hm
  rw [← pairsAt_append, pairsAt_length] at this
  rw [pow_two]; exact this

/-! ### 3. merge trees of covariance matrices -/

/-- **faithful matrix relation, merge trees.**  Leaves are float streaming matrix runs
    (`FlCovMatRun`), a node merges the mean vectors componentwise (`FlMerge`) and the matrices
    with the shared-`dmean` matrix merge (`FlCovMatMerge`) -/
inductive FlCovMatTree (u : K) : MTree (Fin d → K) → (Fin d → K) → (Fin d → Fin d → K) → Prop
  | leaf {vs : List (Fin d → K)} {m : Fin d → K} {C : Fin d → Fin d → K} :
      FlCovMatRun u vs m C → FlCovMatTree u (.leaf vs) m C
  | node {l r : MTree (Fin d → K)} {a b c : Fin d → K} {Ca Cb R : Fin d → Fin d → K} :
      FlCovMatTree u l a Ca → FlCovMatTree u r b Cb →
      (∀ k, FlMerge u (a k) l.flatten.length (b k) r.flatten.length (c k)) →
      FlCovMatMerge u a Ca l.flatten.length b Cb r.flatten.length R →
      FlCovMatTree u (.node l r) c R

/-- every entry of a matrix tree is a per-entry tree (`FlCovTree`, C06FloatCovTree) over the
    tree of pairs `(v i, v j)` -/
theorem FlCovMatTree.entry {u : K} {t : MTree (Fin d → K)} {m : Fin d → K}
    {C : Fin d → Fin d → K} (h : FlCovMatTree u t m C) (i j : Fin d) :
    FlCovTree u (t.map fun v => (v i, v j)) (m i) (m j) (C i j) := by
  induction h with
  | leaf hr => exact FlCovTree.leaf (hr.entry i j)
  | @node l r a b c Ca Cb R _ _ hm hc ihl ihr =>
    refine FlCovTree.node ihl ihr ?_ ?_ ?_
    · rw [MTree.length_flatten_map, MTree.length_flatten_map]; exact hm i
    · rw [MTree.length_flatten_map, MTree.length_flatten_map]; exact hm j
    · rw [MTree.length_flatten_map, MTree.length_flatten_map]; exact hc.entry i j

/-- **merge trees of covariance matrices.**  `N` observation vectors in the tree, every
    component bounded by `M`, longest chunk `L` with `64·L·u ≤ 1`, `64·depth·u ≤ 1`:
    `∀ i j, |C i j − Sxy(i,j)/N| ≤ (67·L + 30·depth·(L+depth))·u·M²` -/
theorem cov_matrix_tree_float_error {u M : K} (hu : 0 ≤ u) (hM : 0 ≤ M)
    {t : MTree (Fin d → K)} (hne : t.flatten ≠ []) (hx : ∀ v ∈ t.flatten, ∀ k, |v k| ≤ M)
    (hsmall : 64 * (t.maxLeaf : K) * u ≤ 1) (hdepth : 64 * (t.depth : K) * u ≤ 1)
    {m : Fin d → K} {C : Fin d → Fin d → K} (h : FlCovMatTree u t m C) :
    ∀ i j, |C i j - sumProdDev (pairsAt i j t.flatten) / (t.flatten.length : K)|
      ≤ (67 * (t.maxLeaf : K) + 30 * (t.depth : K) * ((t.maxLeaf : K) + (t.depth : K))) * u
        * M ^ 2 := by
  intro i j
  have hfl : (t.map fun v => (v i, v j)).flatten = pairsAt i j t.flatten :=
    MTree.flatten_map _ t
  have := C06FloatCovTree.cov_tree_float_error_lin hu hM hM (h.entry i j)
    (by rw [hfl]; exact pairsAt_ne_nil i j hne)
    (by rw [hfl]; exact pairsAt_fst_le hx i j) (by rw [hfl]; exact pairsAt_snd_le hx i j)
    (by rw [MTree.maxLeaf_map]; exact hsmall) (by rw [MTree.depth_map]; exact hdepth)
  rw [hfl, MTree.maxLeaf_map, MTree.depth_map, pairsAt_length] at this
  rw [pow_two]; exact this

/-! ### 4. the running covariance matrix -/

/-- the exact running covariance is symmetric, step by step: exchanging the two components
    exchanges the two means and leaves the entry unchanged (`C17FloatCov.exact_increment`) -/
theorem wcrun_swap (μi μj w : K) (ps : List (K × K × K)) :
    wcrun μj μi w (ps.map fun t => (t.1, t.2.2, t.2.1))
      = ((wcrun μi μj w ps).2.1, (wcrun μi μj w ps).1, (wcrun μi μj w ps).2.2) := by
  induction ps generalizing μi μj w with
  | nil => rfl
  | cons p ps ih =>
    simp only [List.map_cons, wcrun_cons]
    have e : wstep p.1 w ((p.2.2 - μj) * (p.2.1 - wstep p.1 μi p.2.1))
        = wstep p.1 w ((p.2.1 - μi) * (p.2.2 - wstep p.1 μj p.2.2)) := by
      unfold wstep; ring
    simp only [wcstep, e]
    exact ih _ _ _

theorem modelTriples_swap (alpha : K) (k : ℕ) (ps : List (K × K)) :
    modelTriples alpha k (ps.map Prod.swap)
      = (modelTriples alpha k ps).map fun t => (t.1, t.2.2, t.2.1) := by
  induction ps generalizing k with
  | nil => rfl
  | cons p ps ih => simp only [List.map_cons, modelTriples, ih, Prod.fst_swap, Prod.snd_swap]

/-- the exact `RunningCovariance` entry of the swapped pairs is the same number -/
theorem exact_rcov_symm (l : K) (ps : List (K × K)) :
    (C17FloatCov.rcrunK l (ps.map Prod.swap)).c.acc = (C17FloatCov.rcrunK l ps).c.acc := by
  rw [C17FloatCov.rcrunK_c, C17FloatCov.rcrunK_c, modelTriples_swap, wcrun_swap]

/-- **faithful matrix relation, running.**  `(m', C')` is a possible float state after the
    steps `ps = [(a₁, v₁), …]` (weight, observation vector) started at `(m, C)`: at every step
    ONE float mean vector is produced and every entry performs its own float `RCov2.push` step
    (`FlRCStep`) between the shared old and new means -/
def FlRCMatRun (u : K) : (Fin d → K) → (Fin d → Fin d → K) → List (K × (Fin d → K))
    → (Fin d → K) → (Fin d → Fin d → K) → Prop
  | m, C, [], m', C' => m' = m ∧ C' = C
  | m, C, p :: ps, m', C' => ∃ (m1 : Fin d → K) (C1 : Fin d → Fin d → K),
      (∀ i j, FlRCStep u p.1 (m i) (m j) (C i j) (p.2 i) (p.2 j) (m1 i) (m1 j) (C1 i j))
        ∧ FlRCMatRun u m1 C1 ps m' C'

/-- the `(weight, x_i, x_j)` steps entry `(i, j)` sees -/
def triplesAt (i j : Fin d) (ps : List (K × (Fin d → K))) : List (K × K × K) :=
  ps.map fun p => (p.1, p.2 i, p.2 j)

/-- every entry of a running matrix run is a per-entry run (`FlRCRun`, C17FloatCov) -/
theorem FlRCMatRun.entry {u : K} {ps : List (K × (Fin d → K))} {m m' : Fin d → K}
    {C C' : Fin d → Fin d → K} (h : FlRCMatRun u m C ps m' C') (i j : Fin d) :
    FlRCRun u (m i) (m j) (C i j) (triplesAt i j ps) (m' i) (m' j) (C' i j) := by
  induction ps generalizing m C with
  | nil =>
    obtain ⟨h1, h2⟩ := h
    subst h1 h2
    exact ⟨rfl, rfl, rfl⟩
  | cons p ps ih =>
    obtain ⟨m1, C1, hs, hr⟩ := h
    exact ⟨m1 i, m1 j, C1 i j, hs i j, ih hr⟩

/-- the exact matrix step: every mean component by `wstep`, every entry by the exact
    `RCov2.push` recursion (`wcstep`) -/
def exactRStep (a : K) (m : Fin d → K) (C : Fin d → Fin d → K) (v : Fin d → K) :
    (Fin d → K) × (Fin d → Fin d → K) :=
  (fun k => wstep a (m k) (v k),
    fun i j => wstep a (C i j) ((v i - m i) * (v j - wstep a (m j) (v j))))

/-- the exact matrix recursion over a list of `(weight, vector)` steps -/
def exactRMat (m : Fin d → K) (C : Fin d → Fin d → K) :
    List (K × (Fin d → K)) → (Fin d → K) × (Fin d → Fin d → K)
  | [] => (m, C)
  | p :: ps => exactRMat (exactRStep p.1 m C p.2).1 (exactRStep p.1 m C p.2).2 ps

/-- the exact matrix recursion is a possible float matrix run, for every `u ≥ 0` -/
theorem exact_rmatrix_possible {u : K} (hu : 0 ≤ u) (m : Fin d → K) (C : Fin d → Fin d → K)
    (ps : List (K × (Fin d → K))) :
    FlRCMatRun u m C ps (exactRMat m C ps).1 (exactRMat m C ps).2 := by
  induction ps generalizing m C with
  | nil => exact ⟨rfl, rfl⟩
  | cons p ps ih =>
    exact ⟨(exactRStep p.1 m C p.2).1, (exactRStep p.1 m C p.2).2,
      fun i j => FlRCStep.exact hu p.1 (m i) (m j) (C i j) (p.2 i) (p.2 j), ih _ _⟩

/-- the steps `RunningCovariance(lifetime = 1/alpha)` performs on the vectors `vs` when `k`
    observations have been seen: weights `max(alpha, 1/(k+1)), …` (`effA`), as `modelTriples` -/
def modelVecSteps (alpha : K) (k : ℕ) : List (Fin d → K) → List (K × (Fin d → K))
  | [] => []
  | v :: vs => (effA alpha k, v) :: modelVecSteps alpha (k + 1) vs

theorem triplesAt_modelVecSteps (alpha : K) (k : ℕ) (i j : Fin d) (vs : List (Fin d → K)) :
    triplesAt i j (modelVecSteps alpha k vs) = modelTriples alpha k (pairsAt i j vs) := by
  induction vs generalizing k with
  | nil => rfl
  | cons v vs ih =>
    have := ih (k + 1)
    simp only [triplesAt, pairsAt] at this
    simp only [triplesAt, pairsAt, modelVecSteps, List.map_cons, modelTriples, this]

/-- float runs of the whole matrix of `RunningCovariance(lifetime = l)` from the zero state -/
def FlRCovMat (u l : K) (vs : List (Fin d → K)) (m : Fin d → K) (C : Fin d → Fin d → K) : Prop :=
  FlRCMatRun u (fun _ => 0) (fun _ _ => 0) (modelVecSteps (1 / l) 0 vs) m C

/-- every entry of it is a per-entry `FlRCov` run -/
theorem FlRCovMat.entry {u l : K} {vs : List (Fin d → K)} {m : Fin d → K}
    {C : Fin d → Fin d → K} (h : FlRCovMat u l vs m C) (i j : Fin d) :
    C17FloatCov.FlRCov u l (pairsAt i j vs) (m i) (m j) (C i j) := by
  have := FlRCMatRun.entry h i j
  rw [triplesAt_modelVecSteps] at this
  exact this

/-- **running covariance matrix, entrywise hypotheses.**  `RunningCovariance(lifetime = l)`,
    `l ≥ 1`, `8·l·u ≤ 1`, every component bounded by `M`, ANY number of observations:
    `∀ i j, |C i j − exact i j| ≤ 244·l·u·M²` and `∀ k, |m k − exact mean_k| ≤ 8·l·u·M` -/
theorem rcov_matrix_float_error_entrywise {u l M : K} (hu : 0 ≤ u) (hM : 0 ≤ M) (hl : 1 ≤ l)
    (hsmall : 8 * l * u ≤ 1) {vs : List (Fin d → K)} (hx : ∀ v ∈ vs, ∀ k, |v k| ≤ M)
    {m : Fin d → K} {C : Fin d → Fin d → K}
    (h : ∀ i j, C17FloatCov.FlRCov u l (pairsAt i j vs) (m i) (m j) (C i j)) :
    (∀ i j, |C i j - (C17FloatCov.rcrunK l (pairsAt i j vs)).c.acc| ≤ 244 * l * u * M ^ 2)
      ∧ ∀ k, |m k - (C17FloatCov.rcrunK l (pairsAt k k vs)).mx.acc| ≤ 8 * l * u * M :=
  ⟨fun i j => (C17FloatCov.rcov_float_error_model hu hM hl hsmall (pairsAt_both_le hx i j)
      (h i j)).2.2,
    fun k => (C17FloatCov.rcov_float_error_model hu hM hl hsmall (pairsAt_both_le hx k k)
      (h k k)).1⟩

/-- **running covariance matrix**, from the faithful matrix relation -/
theorem rcov_matrix_float_error {u l M : K} (hu : 0 ≤ u) (hM : 0 ≤ M) (hl : 1 ≤ l)
    (hsmall : 8 * l * u ≤ 1) {vs : List (Fin d → K)} (hx : ∀ v ∈ vs, ∀ k, |v k| ≤ M)
    {m : Fin d → K} {C : Fin d → Fin d → K} (h : FlRCovMat u l vs m C) :
    (∀ i j, |C i j - (C17FloatCov.rcrunK l (pairsAt i j vs)).c.acc| ≤ 244 * l * u * M ^ 2)
      ∧ ∀ k, |m k - (C17FloatCov.rcrunK l (pairsAt k k vs)).mx.acc| ≤ 8 * l * u * M :=
  rcov_matrix_float_error_entrywise hu hM hl hsmall hx h.entry

/-- **the symmetric part of the running matrix.**  Entries `(i, j)` and `(j, i)` of any float
    run are within the same bound of the SAME exact value (the remark of C17FloatCov, stated) -/
theorem rcov_matrix_float_symm {u l M : K} (hu : 0 ≤ u) (hM : 0 ≤ M) (hl : 1 ≤ l)
    (hsmall : 8 * l * u ≤ 1) {vs : List (Fin d → K)} (hx : ∀ v ∈ vs, ∀ k, |v k| ≤ M)
    {m : Fin d → K} {C : Fin d → Fin d → K}
    (h : ∀ i j, C17FloatCov.FlRCov u l (pairsAt i j vs) (m i) (m j) (C i j)) :
    ∀ i j, |C i j - (C17FloatCov.rcrunK l (pairsAt i j vs)).c.acc| ≤ 244 * l * u * M ^ 2
      ∧ |C j i - (C17FloatCov.rcrunK l (pairsAt i j vs)).c.acc| ≤ 244 * l * u * M ^ 2
      ∧ |C i j - C j i| ≤ 2 * (244 * l * u * M ^ 2) := by
  intro i j
  have h1 := (rcov_matrix_float_error_entrywise hu hM hl hsmall hx h).1 i j
  have h2 := (rcov_matrix_float_error_entrywise hu hM hl hsmall hx h).1 j i
  rw [← pairsAt_swap i j vs, exact_rcov_symm] at h2
  refine ⟨h1, h2, ?_⟩
  have e : C i j - C j i = (C i j - (C17FloatCov.rcrunK l (pairsAt i j vs)).c.acc)
      - (C j i - (C17FloatCov.rcrunK l (pairsAt i j vs)).c.acc) := by ring
  rw [e]
  exact (abs_sub _ _).trans (by linarith)

/-! ### 5. non-vacuity over ℚ, `d = 2`, `u = 1/1000`:
    observation vectors `(1,2), (2,1), (3,3)` (as functions `Fin 2 → ℚ`) -/

/-- the vector `(x, y)` as a function on `Fin 2` -/
def vec2 (x y : ℚ) : Fin 2 → ℚ := fun k => if k = 0 then x else y

/-- the bound applies to EVERY float streaming matrix run over the three vectors
    (`64·3/1000 ≤ 1`, all components `≤ 3`): all four entries within `62·3·(1/1000)·9` of the
    exact matrix -/
example (m : Fin 2 → ℚ) (C : Fin 2 → Fin 2 → ℚ)
    (h : FlCovMatRun (1 / 1000) [vec2 1 2, vec2 2 1, vec2 3 3] m C) :
    ∀ i j, |C i j - exactCov [vec2 1 2, vec2 2 1, vec2 3 3] i j| ≤ 62 * 3 * (1 / 1000) * 3 ^ 2 := by
  have hx : ∀ v ∈ [vec2 1 2, vec2 2 1, vec2 3 3], ∀ k, |v k| ≤ (3 : ℚ) := by
    intro v hv k
    simp only [List.mem_cons, List.not_mem_nil, or_false] at hv
    rcases hv with rfl | rfl | rfl <;> (unfold vec2; split_ifs <;> norm_num [abs_le])
  have := cov_matrix_float_vs_model (u := (1 / 1000 : ℚ)) (M := 3) (by norm_num) (by norm_num)
    (vs := [vec2 1 2, vec2 2 1, vec2 3 3]) (by simp) hx (by norm_num) h.entry
  simpa using this

/-- the relation is inhabited: the exact matrix, for every `u ≥ 0` -/
example : FlCovMatRun (1 / 1000 : ℚ) [vec2 1 2, vec2 2 1, vec2 3 3]
    (exactMean [vec2 1 2, vec2 2 1, vec2 3 3]) (exactCov [vec2 1 2, vec2 2 1, vec2 3 3]) :=
  exact_matrix_possible (by norm_num) _

/-- the off-diagonal exact entry of that matrix is `1/3`, on both sides of the diagonal -/
example : exactCov [vec2 1 2, vec2 2 1, vec2 3 3] 0 1 = 1 / 3
    ∧ exactCov [vec2 1 2, vec2 2 1, vec2 3 3] 1 0 = 1 / 3 := by
  have e : exactCov [vec2 1 2, vec2 2 1, vec2 3 3] 0 1 = 1 / 3 := by
    norm_num [exactCov, pairsAt, vec2, Cov2.run, Cov2.push, Mean.push, Cov2.init, Mean.init]
  exact ⟨e, by rw [exactCov_symm]; exact e⟩

/-- a matrix merge with a genuinely rounded shared `dmean` is a possible merge, its diagonal
    is a float variance merge and every entry is within `13·u·M²` (`M = 6`, entries `≤ 36`) -/
example (R : Fin 2 → Fin 2 → ℚ)
    (h : FlCovMatMerge (1 / 1000) (vec2 2 2) (fun i j => if i = j then 2 / 3 else 1 / 3) 3
      (vec2 5 3) (fun i j => if i = j then (if i = 0 then 1 else 4) else 2) 2 R) :
    (∀ i j, |R i j - mergeExact (vec2 2 2) (fun i j => if i = j then 2 / 3 else 1 / 3) 3
        (vec2 5 3) (fun i j => if i = j then (if i = 0 then 1 else 4) else 2) 2 i j|
        ≤ 13 * (1 / 1000) * 6 ^ 2)
      ∧ ∀ i, FlVarMerge (1 / 1000) (vec2 2 2 i) (if i = i then 2 / 3 else 1 / 3) 3 (vec2 5 3 i)
          (if i = i then (if i = 0 then 1 else 4) else 2) 2 (R i i) := by
  refine ⟨?_, fun i => matrix_merge_diag_is_var_merge h i⟩
  refine cov_matrix_merge_float_error (M := 6) (by norm_num) (by norm_num) ?_ ?_ ?_ ?_ h
  · intro k; unfold vec2; split_ifs <;> norm_num [abs_le]
  · intro k; unfold vec2; split_ifs <;> norm_num [abs_le]
  · intro i j; split_ifs <;> norm_num [abs_le]
  · intro i j; split_ifs <;> norm_num [abs_le]

/-- the running matrix relation is inhabited (the exact recursion), and the bound applies to
    EVERY float run of `RunningCovariance(lifetime = 2)` over the three vectors
    (`8·2/1000 ≤ 1`): all four entries within `244·2·(1/1000)·9` of the exact running matrix -/
example : ∃ (m : Fin 2 → ℚ) (C : Fin 2 → Fin 2 → ℚ),
    FlRCovMat (1 / 1000) 2 [vec2 1 2, vec2 2 1, vec2 3 3] m C :=
  ⟨_, _, exact_rmatrix_possible (by norm_num) _ _ _⟩

example (m : Fin 2 → ℚ) (C : Fin 2 → Fin 2 → ℚ)
    (h : FlRCovMat (1 / 1000) 2 [vec2 1 2, vec2 2 1, vec2 3 3] m C) :
    ∀ i j, |C i j - (C17FloatCov.rcrunK 2 (pairsAt i j [vec2 1 2, vec2 2 1, vec2 3 3])).c.acc|
      ≤ 244 * 2 * (1 / 1000) * 3 ^ 2 := by
  have hx : ∀ v ∈ [vec2 1 2, vec2 2 1, vec2 3 3], ∀ k, |v k| ≤ (3 : ℚ) := by
    intro v hv k
    simp only [List.mem_cons, List.not_mem_nil, or_false] at hv
    rcases hv with rfl | rfl | rfl <;> (unfold vec2; split_ifs <;> norm_num [abs_le])
  exact (rcov_matrix_float_error (u := (1 / 1000 : ℚ)) (l := 2) (M := 3) (by norm_num)
    (by norm_num) (by norm_num) (by norm_num) hx h).1

end Gpv.C05FloatMatrix

#print axioms Gpv.C05FloatMatrix.pairsAt_swap
#print axioms Gpv.C05FloatMatrix.exactCov_symm
#print axioms Gpv.C05FloatMatrix.sumProdDev_pairsAt_symm
#print axioms Gpv.C05FloatMatrix.exactCov_eq
#print axioms Gpv.C05FloatMatrix.FlCovMatRun.entry
#print axioms Gpv.C05FloatMatrix.FlCovMatRun.mono
#print axioms Gpv.C05FloatMatrix.exact_matrix_possible
#print axioms Gpv.C05FloatMatrix.cov_matrix_float_error_entrywise
#print axioms Gpv.C05FloatMatrix.cov_matrix_float_error
#print axioms Gpv.C05FloatMatrix.cov_matrix_float_vs_model
#print axioms Gpv.C05FloatMatrix.cov_matrix_float_symm
#print axioms Gpv.C05FloatMatrix.FlCovMatMerge.entry
#print axioms Gpv.C05FloatMatrix.matrix_merge_diag_is_var_merge
#print axioms Gpv.C05FloatMatrix.FlCovMatMerge.mono
#print axioms Gpv.C05FloatMatrix.mergeExact_eq
#print axioms Gpv.C05FloatMatrix.mergeExact_symm
#print axioms Gpv.C05FloatMatrix.exact_merge_possible
#print axioms Gpv.C05FloatMatrix.matrix_merge_transpose
#print axioms Gpv.C05FloatMatrix.cov_matrix_merge_float_error_entrywise
#print axioms Gpv.C05FloatMatrix.cov_matrix_merge_float_error
#print axioms Gpv.C05FloatMatrix.cov_matrix_merge_float_symm
#print axioms Gpv.C05FloatMatrix.merged_cov_matrix_streams_float_error
#print axioms Gpv.C05FloatMatrix.FlCovMatTree.entry
#print axioms Gpv.C05FloatMatrix.cov_matrix_tree_float_error
#print axioms Gpv.C05FloatMatrix.wcrun_swap
#print axioms Gpv.C05FloatMatrix.modelTriples_swap
#print axioms Gpv.C05FloatMatrix.exact_rcov_symm
#print axioms Gpv.C05FloatMatrix.FlRCMatRun.entry
#print axioms Gpv.C05FloatMatrix.exact_rmatrix_possible
#print axioms Gpv.C05FloatMatrix.triplesAt_modelVecSteps
#print axioms Gpv.C05FloatMatrix.FlRCovMat.entry
#print axioms Gpv.C05FloatMatrix.rcov_matrix_float_error_entrywise
#print axioms Gpv.C05FloatMatrix.rcov_matrix_float_error
#print axioms Gpv.C05FloatMatrix.rcov_matrix_float_symm
