/-
  C08 — the estimator is the published algorithm: the numpy-style model `P2.push`
  (`Gpv.Model.P2`, the definition the driver executes against the real code) computes,
  observation by observation, exactly Box 1 of Jain & Chlamtac (CACM 1985) as transcribed in
  `Gpv.Spec.P2Paper` (`Gpv.Ref`), in every linearly ordered field.

  The correspondence is the relation `Abs s r`: same wanted quantiles, same count, same marker
  heights, and paper position n_i = model rank + 1 (the paper counts from 1, the code from 0).
  `Abs` is functional (`abs_unique`).  The tie convention is the one of the property text
  (an observation equal to a marker counts as below it).
  The convergence clause of C08 is empirical and is not a theorem here.
-/
import Gpv.Proofs.P2Refine
import Gpv.Props.C07
set_option linter.unusedSectionVars false

namespace Gpv.C08
open Gpv
variable {K : Type} [Field K] [LinearOrder K] [IsStrictOrderedRing K]

/-- one further observation: model step = paper step (B1, B2, B3) -/
theorem refines_paper (q : List K) (s : P2 K) (r : Ref.State K) (xs : List K) (x : K)
    (hm : 2 ≤ q.length) (hx : q.length ≤ xs.length) (inv : P2.Inv s xs) (hq : s.q = q)
    (a : Abs s r) : Abs (s.push x) (Ref.push r x) := by
  subst hq; exact a.push inv hm hx x

/-- the paper state is determined by the model state (so `Abs` is the graph of a function) -/
theorem abs_unique {s : P2 K} {r r' : Ref.State K} (a : Abs s r) (a' : Abs s r') : r = r' :=
  a.unique a'

/-- A. initialisation: after exactly m observations both hold the sorted observations, n_i = i -/
theorem refines_paper_start (q xs : List K) (hm : 2 ≤ q.length) (hx : xs.length = q.length) :
    Abs (P2.run q xs) (Ref.start q xs) := by
  obtain ⟨e1, e2⟩ := C07.exact_at_m q xs hm hx
  refine ⟨(P2.run_q q xs).symm, by simp [Ref.start, hx], ?_, ?_, ?_⟩
  · rw [e1, Ref.start, ← hx, List.take_length]
    exact (List.mergeSort_eq_insertionSort (r := (· ≤ ·)) xs).symm
  · rw [e2]; simp [Ref.start, P2.init]
  · intro j hj
    rw [e2, P2.init_pos] at hj ⊢
    have hj' : j < q.length := by simpa [initPos] using hj
    rw [nth_initPos hj']
    simp only [Ref.start]
    rw [List.getD_eq_getElem?_getD, List.getElem?_map, List.getElem?_range hj']
    simp

theorem Ref.run_snoc (q xs : List K) (x : K) (hx : q.length ≤ xs.length) :
    Ref.run q (xs ++ [x]) = Ref.push (Ref.run q xs) x := by
  have e1 : Ref.start q (xs ++ [x]) = Ref.start q xs := by
    simp only [Ref.start, List.take_append_of_le_length hx]
  simp only [Ref.run, e1, List.drop_append_of_le_length hx, List.foldl_append, List.foldl_cons,
    List.foldl_nil]

/-- the whole run: for every sequence of at least m observations the model state is the
    paper's state -/
theorem refines_paper_run (q xs : List K) (hm : 2 ≤ q.length) (hx : q.length ≤ xs.length) :
    Abs (P2.run q xs) (Ref.run q xs) := by
  induction xs using List.reverseRec with
  | nil => have : q.length ≤ 0 := hx; omega
  | append_singleton xs x ih =>
    rcases Nat.lt_or_ge xs.length q.length with h | h
    · have hlen : (xs ++ [x]).length = q.length := by simp at hx ⊢; omega
      have : Ref.run q (xs ++ [x]) = Ref.start q (xs ++ [x]) := by
        simp only [Ref.run]; rw [List.drop_of_length_le (by omega)]; rfl
      rw [this]; exact refines_paper_start q _ hm hlen
    · rw [P2.run_snoc, Ref.run_snoc q xs x h]
      exact refines_paper q _ _ xs x hm h (C07.inv_run q xs hm h) (P2.run_q q xs) (ih h)

/-- read-out form: heights coincide and paper positions are the model ranks plus one -/
theorem refines_paper_readout (q xs : List K) (hm : 2 ≤ q.length) (hx : q.length ≤ xs.length) :
    (Ref.run q xs).q = (P2.run q xs).h ∧ (Ref.run q xs).N = xs.length ∧ (Ref.run q xs).p = q ∧
    ∀ j, j < q.length → (((Ref.run q xs).n.getD j 0 : ℤ) : K) = nth (P2.run q xs).pos j + 1 := by
  have a := refines_paper_run q xs hm hx
  have inv := C07.inv_run q xs hm hx
  refine ⟨a.arr.heq, by rw [a.N, P2.run_n], by rw [a.p, P2.run_q], fun j hj => ?_⟩
  exact a.arr.pos j (by rw [inv.plen, P2.run_q]; exact hj)

/-- the markers the paper prescribes for the p-quantile: 0, p/2, p, (1+p)/2, 1 -/
theorem quantile_grid (p : K) : quantileGrid p = [0, p / 2, p, (1 + p) / 2, 1] := by
  simp only [quantileGrid, Nat.cast_zero, Nat.cast_one, Nat.cast_ofNat]
  congr 1; congr 1
  · ring
  · congr 1; congr 1; ring

/-- with exactly m observations the markers are the sorted observations: every estimate is an
    exact order statistic (for the 5-marker quantile grid, `h[2]` is the sample median of 5) -/
theorem exact_order_statistic (q xs : List K) (hm : 2 ≤ q.length) (hx : xs.length = q.length) :
    (P2.run q xs).h = sortK xs ∧ (P2.run q xs).pos = (P2.init q).pos :=
  C07.exact_at_m q xs hm hx

/-! ### non-vacuity: the concrete run of C07 in ℚ, now as the paper's state -/

/-- the paper's algorithm on the example of `C07.example_run`: same heights, positions
    `1, 4, 7, 10, 13` = the model's ranks `0, 3, 6, 9, 12` plus one -/
example :
    Ref.run (K := ℚ) [0, 1/4, 1/2, 3/4, 1] [1, 2, 3, 4, 5, 6, 7, 8, 9, 10, 3, 3, 3] =
      ⟨[0, 1/4, 1/2, 3/4, 1], 13, [1, 9/4, 133/32, 7, 10], [1, 4, 7, 10, 13]⟩ := by
  have e : P2.run (K := ℚ) [0, 1/4, 1/2, 3/4, 1] [1, 2, 3, 4, 5, 6, 7, 8, 9, 10, 3, 3, 3] =
      ⟨[0, 1/4, 1/2, 3/4, 1], 13, [1, 9/4, 133/32, 7, 10], [0, 3, 6, 9, 12]⟩ := C07.example_run
  have a := refines_paper_run (K := ℚ) [0, 1/4, 1/2, 3/4, 1]
    [1, 2, 3, 4, 5, 6, 7, 8, 9, 10, 3, 3, 3] (by decide) (by decide)
  rw [e] at a
  refine abs_unique a ⟨rfl, rfl, rfl, rfl, fun j hj => ?_⟩
  have hj5 : j < 5 := hj
  have : j = 0 ∨ j = 1 ∨ j = 2 ∨ j = 3 ∨ j = 4 := by omega
  rcases this with rfl | rfl | rfl | rfl | rfl <;> norm_num [nth]

end Gpv.C08

#print axioms Gpv.C08.refines_paper
#print axioms Gpv.C08.abs_unique
#print axioms Gpv.C08.refines_paper_start
#print axioms Gpv.C08.refines_paper_run
#print axioms Gpv.C08.refines_paper_readout
#print axioms Gpv.C08.quantile_grid
#print axioms Gpv.C08.exact_order_statistic
