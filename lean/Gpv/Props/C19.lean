/-
  C19 — `observe` / `observe_time` are transparent, lazy taps that call the observer functions on
  exactly the advertised elements, in order, before the element is handed on; `simplecache` yields
  the sliding windows of the stream; `from generatorpipeline import *` works iff every name of
  `__all__` is bound.

  Model: `Gpv.Model.Stream`.  `Obsv.nexts`, `Obsv.nextsT`, `SCache.nexts` are the states after `k`
  consumer `next()` calls on a fresh generator (closed forms in `Gpv.Proofs.StreamAlg`).
  The hypothesis `1 ≤ interval` of the `observe` theorems is the domain of the model, not a proof
  ingredient: Python's `i % 0` raises, the model's `i % 0 = i` does not (the statements happen to
  hold for the model at `interval = 0` too).
-/
import Gpv.Proofs.StreamAlg

namespace Gpv.C19
open Gpv Gpv.Stream
variable {α ε : Type}

/-! ### observe -/

theorem observe_transparent (nfuncs interval : Nat) (xs : List α) (tail : Option ε) (k : Nat)
    (_hi : 1 ≤ interval) :
    (Obsv.nexts nfuncs interval xs tail k).out = xs.take k ∧
    (Obsv.nexts nfuncs interval xs tail k).drawn = min k xs.length ∧
    (k ≤ xs.length → (Obsv.nexts nfuncs interval xs tail k).raised = none ∧
      (Obsv.nexts nfuncs interval xs tail k).pc = (if k = 0 then .notStarted else .atYield)) ∧
    (xs.length < k → (Obsv.nexts nfuncs interval xs tail k).raised = tail ∧
      (Obsv.nexts nfuncs interval xs tail k).pc = (if tail = none then .done else .failed)) := by
  by_cases hk : k ≤ xs.length
  · rw [Obsv.nexts_le nfuncs interval xs tail hk]
    refine ⟨rfl, by simp [Nat.min_eq_left hk], fun _ => ⟨rfl, ?_⟩, fun h => by omega⟩
    cases k <;> simp [runPc]
  · have hk' : xs.length < k := by omega
    rw [Obsv.nexts_gt nfuncs interval xs tail hk']
    refine ⟨by simp [List.take_of_length_le (Nat.le_of_lt hk')], by simp; omega,
      fun h => absurd h hk, fun _ => ⟨rfl, ?_⟩⟩
    cases tail <;> simp [endPc]

/-- exactly every `interval`-th element starting with the first, each to every function in the
    given order (`xs[i]?` is `some` for all `i` in range; see `observe_calls_mem`) -/
theorem observe_calls (nfuncs interval : Nat) (xs : List α) (tail : Option ε) (k : Nat)
    (_hi : 1 ≤ interval) :
    (Obsv.nexts nfuncs interval xs tail k).calls
      = ((List.range (min k xs.length)).filter (fun i => i % interval = 0)).flatMap fun i =>
          match xs[i]? with
          | some a => (List.range nfuncs).map fun j => (j, a)
          | none => [] := by
  by_cases hk : k ≤ xs.length
  · rw [Obsv.nexts_le nfuncs interval xs tail hk, Nat.min_eq_left hk]
    exact selCalls_take_eq_rangeCalls nfuncs (everyNth interval) xs hk
  · have hk' : xs.length < k := by omega
    rw [Obsv.nexts_gt nfuncs interval xs tail hk', Nat.min_eq_right (Nat.le_of_lt hk')]
    have := selCalls_take_eq_rangeCalls nfuncs (everyNth interval) xs (Nat.le_refl xs.length)
    rw [List.take_length] at this
    exact this

theorem observe_calls_mem (nfuncs interval : Nat) (xs : List α) (tail : Option ε) (k : Nat)
    (hi : 1 ≤ interval) (j : Nat) (a : α) :
    (j, a) ∈ (Obsv.nexts nfuncs interval xs tail k).calls ↔
      j < nfuncs ∧ ∃ i, i < k ∧ i % interval = 0 ∧ xs[i]? = some a := by
  rw [observe_calls nfuncs interval xs tail k hi]
  simp only [List.mem_flatMap, List.mem_filter, List.mem_range, decide_eq_true_eq]
  constructor
  · rintro ⟨i, ⟨hik, him⟩, hm⟩
    cases hx : xs[i]? with
    | none => simp [hx] at hm
    | some b =>
      simp only [hx, List.mem_map, List.mem_range, Prod.mk.injEq] at hm
      obtain ⟨j', hj', rfl, rfl⟩ := hm
      exact ⟨hj', i, by omega, him, hx⟩
  · rintro ⟨hj, i, hik, him, hx⟩
    have hil : i < xs.length := (List.getElem?_eq_some_iff.mp hx).1
    refine ⟨i, ⟨by omega, him⟩, ?_⟩
    simpa [hx] using hj

/-- the calls for an element are made before it is handed on, and never ahead: in every state
    the call list is a function of the elements handed over so far (it mentions only those, and
    already those of the element just handed over); one `next()` appends the calls for the one
    element it yields -/
theorem calls_before_yield (nfuncs interval : Nat) (xs : List α) (tail : Option ε) (k : Nat)
    (_hi : 1 ≤ interval) :
    (Obsv.nexts nfuncs interval xs tail k).calls
      = (((Obsv.nexts nfuncs interval xs tail k).out.zipIdx.filter fun p => p.2 % interval = 0).flatMap
          fun p => (List.range nfuncs).map fun j => (j, p.1)) ∧
    (∀ hk : k < xs.length,
      (Obsv.nexts nfuncs interval xs tail (k + 1)).out
        = (Obsv.nexts nfuncs interval xs tail k).out ++ [xs[k]] ∧
      (Obsv.nexts nfuncs interval xs tail (k + 1)).calls
        = (Obsv.nexts nfuncs interval xs tail k).calls ++
            (if k % interval = 0 then (List.range nfuncs).map fun j => (j, xs[k]) else [])) := by
  constructor
  · by_cases hk : k ≤ xs.length
    · rw [Obsv.nexts_le nfuncs interval xs tail hk]; rfl
    · rw [Obsv.nexts_gt nfuncs interval xs tail (by omega)]; rfl
  · intro hk
    rw [Obsv.nexts_le nfuncs interval xs tail (show k + 1 ≤ xs.length by omega),
      Obsv.nexts_le nfuncs interval xs tail (show k ≤ xs.length by omega)]
    refine ⟨take_succ_getElem hk, ?_⟩
    show selCalls nfuncs (everyNth interval) (xs.take (k + 1)) = _
    rw [take_succ_getElem hk, selCalls_snoc, List.length_take, Nat.min_eq_left (Nat.le_of_lt hk)]
    simp [everyNth, callsFor]

/-! ### observe_time -/

theorem observe_time_transparent (nfuncs : Nat) (intervalNs : Int) (clock : Nat → Int) (xs : List α)
    (tail : Option ε) (k : Nat) :
    (Obsv.nextsT nfuncs intervalNs clock xs tail k).out = xs.take k ∧
    (Obsv.nextsT nfuncs intervalNs clock xs tail k).drawn = min k xs.length ∧
    (k ≤ xs.length → (Obsv.nextsT nfuncs intervalNs clock xs tail k).raised = none ∧
      (Obsv.nextsT nfuncs intervalNs clock xs tail k).pc = (if k = 0 then .notStarted else .atYield)) ∧
    (xs.length < k → (Obsv.nextsT nfuncs intervalNs clock xs tail k).raised = tail ∧
      (Obsv.nextsT nfuncs intervalNs clock xs tail k).pc = (if tail = none then .done else .failed)) := by
  by_cases hk : k ≤ xs.length
  · rw [Obsv.nextsT_le nfuncs intervalNs clock xs tail hk]
    refine ⟨rfl, by simp [Nat.min_eq_left hk], fun _ => ⟨rfl, ?_⟩, fun h => by omega⟩
    cases k <;> simp [runPc]
  · have hk' : xs.length < k := by omega
    rw [Obsv.nextsT_gt nfuncs intervalNs clock xs tail hk']
    refine ⟨by simp [List.take_of_length_le (Nat.le_of_lt hk')], by simp; omega,
      fun h => absurd h hk, fun _ => ⟨rfl, ?_⟩⟩
    cases tail <;> simp [endPc]

/-- `tlastAt i` is the reading of the last element observed before element `i` (0 initially);
    element `i` is observed iff `clock i - tlastAt i > intervalNs`; after `k` nexts `tlast` and the
    call list are the ones this recursion gives for the `min k |xs|` elements drawn -/
theorem observe_time_spec (nfuncs : Nat) (intervalNs : Int) (clock : Nat → Int) (xs : List α)
    (tail : Option ε) (k : Nat) :
    tlastAt intervalNs clock 0 = 0 ∧
    (∀ i, tlastAt intervalNs clock (i + 1)
        = if clock i - tlastAt intervalNs clock i > intervalNs then clock i
          else tlastAt intervalNs clock i) ∧
    (Obsv.nextsT nfuncs intervalNs clock xs tail k).tlast = tlastAt intervalNs clock (min k xs.length) ∧
    (Obsv.nextsT nfuncs intervalNs clock xs tail k).calls
      = ((List.range (min k xs.length)).filter
            (fun i => clock i - tlastAt intervalNs clock i > intervalNs)).flatMap fun i =>
          match xs[i]? with
          | some a => (List.range nfuncs).map fun j => (j, a)
          | none => [] := by
  refine ⟨rfl, fun _ => rfl, ?_⟩
  by_cases hk : k ≤ xs.length
  · rw [Obsv.nextsT_le nfuncs intervalNs clock xs tail hk, Nat.min_eq_left hk]
    exact ⟨rfl, selCalls_take_eq_rangeCalls nfuncs (observedAt intervalNs clock) xs hk⟩
  · have hk' : xs.length < k := by omega
    rw [Obsv.nextsT_gt nfuncs intervalNs clock xs tail hk', Nat.min_eq_right (Nat.le_of_lt hk')]
    have := selCalls_take_eq_rangeCalls nfuncs (observedAt intervalNs clock) xs (Nat.le_refl xs.length)
    rw [List.take_length] at this
    exact ⟨rfl, this⟩

/-- one `next()` of `observe_time`: the element is handed on, and observed iff its reading is more
    than `intervalNs` after the reading of the previously observed element -/
theorem observe_time_step (nfuncs : Nat) (intervalNs : Int) (clock : Nat → Int) (xs : List α)
    (tail : Option ε) (k : Nat) (hk : k < xs.length) :
    let s := Obsv.nextsT nfuncs intervalNs clock xs tail k
    let s' := Obsv.nextsT nfuncs intervalNs clock xs tail (k + 1)
    s'.out = s.out ++ [xs[k]] ∧
    (clock k - s.tlast > intervalNs →
      s'.tlast = clock k ∧ s'.calls = s.calls ++ (List.range nfuncs).map fun j => (j, xs[k])) ∧
    (¬ clock k - s.tlast > intervalNs → s'.tlast = s.tlast ∧ s'.calls = s.calls) := by
  intro s s'
  have hs : s = _ := Obsv.nextsT_le nfuncs intervalNs clock xs tail (show k ≤ xs.length by omega)
  have hs' : s' = Obsv.nextTime nfuncs intervalNs clock xs tail s := rfl
  rw [hs', hs]
  simp only [Obsv.nextTime, runPc_finished, srcAt_lt hk]
  by_cases h : clock k - tlastAt intervalNs clock k > intervalNs <;> simp [h]

theorem first_always_observed (nfuncs : Nat) (intervalNs : Int) (clock : Nat → Int) (xs : List α)
    (tail : Option ε) (k : Nat) (hclock : clock 0 > intervalNs) (hne : xs ≠ []) (hk : 1 ≤ k) :
    (Obsv.nextsT nfuncs intervalNs clock xs tail 1).tlast = clock 0 ∧
    (Obsv.nextsT nfuncs intervalNs clock xs tail 1).calls
      = (List.range nfuncs).map (fun j => (j, xs.head hne)) ∧
    ∃ rest, (Obsv.nextsT nfuncs intervalNs clock xs tail k).calls
      = (List.range nfuncs).map (fun j => (j, xs.head hne)) ++ rest := by
  obtain ⟨a, l, rfl⟩ := List.exists_cons_of_ne_nil hne
  have h0 : clock 0 - tlastAt intervalNs clock 0 > intervalNs := by
    simp only [tlastAt]; omega
  have hstep := observe_time_step nfuncs intervalNs clock (a :: l) tail 0 (by simp)
  simp only [Obsv.nextsT, Obsv.init] at hstep
  have h1 := hstep.2.1 (by simpa [tlastAt] using h0)
  refine ⟨h1.1, by simpa [Obsv.nextsT, Obsv.init] using h1.2, ?_⟩
  obtain ⟨m, hm, hm'⟩ : ∃ m, min k (a :: l).length = m + 1 ∧ m + 1 ≤ (a :: l).length :=
    ⟨min k (a :: l).length - 1, by simp; omega, by simp; omega⟩
  rw [(observe_time_spec nfuncs intervalNs clock (a :: l) tail k).2.2.2, hm,
    List.range_succ_eq_map, List.filter_cons, if_pos (by simpa using h0), List.flatMap_cons]
  exact ⟨_, rfl⟩

/-! ### simplecache -/

/-- after `k` nexts the consumer holds the first `k` complete windows (there are `|xs| + 1 - L`),
    window `j` being `xs[j .. j+L-1]`; asking beyond the last window ends the generator (with the
    source's exception if it had one) -/
theorem simplecache_spec (L : Nat) (xs : List α) (tail : Option ε) (k : Nat) (hL : 1 ≤ L) :
    (SCache.nexts true L xs tail k).out
      = (List.range (min k (xs.length + 1 - L))).map (fun j => (xs.drop j).take L) ∧
    (SCache.nexts true L xs tail k).err = none ∧
    (k ≤ xs.length + 1 - L → (SCache.nexts true L xs tail k).raised = none ∧
      (SCache.nexts true L xs tail k).pc = (if k = 0 then .notStarted else .atYield)) ∧
    (xs.length + 1 - L < k → (SCache.nexts true L xs tail k).raised = tail ∧
      (SCache.nexts true L xs tail k).drawn = xs.length ∧
      (SCache.nexts true L xs tail k).pc = (if tail = none then .done else .failed)) := by
  by_cases hk : k ≤ xs.length + 1 - L
  · rw [SCache.nexts_le L xs tail hL hk, Nat.min_eq_left hk]
    refine ⟨rfl, rfl, fun _ => ⟨rfl, ?_⟩, fun h => by omega⟩
    cases k <;> simp [runPc]
  · have hk' : xs.length + 1 - L < k := by omega
    rw [SCache.nexts_gt L xs tail hL hk', Nat.min_eq_right (Nat.le_of_lt hk')]
    refine ⟨rfl, rfl, fun h => absurd h hk, fun _ => ⟨rfl, rfl, ?_⟩⟩
    cases tail <;> simp [endPc]

/-- window `j` is the elements at positions `j, …, j+L-1` -/
theorem window_getElem (L : Nat) (xs : List α) (j t : Nat) (ht : t < L) :
    ((xs.drop j).take L)[t]? = xs[j + t]? := by
  simp [ht]

/-- nothing is yielded for a stream shorter than the window -/
theorem simplecache_short (L : Nat) (xs : List α) (tail : Option ε) (k : Nat) (hL : 1 ≤ L)
    (hs : xs.length < L) : (SCache.nexts true L xs tail k).out = [] := by
  rw [(simplecache_spec L xs tail k hL).1]
  have : xs.length + 1 - L = 0 := by omega
  simp [this]

/-- at the yield of window `j` exactly `j + L` elements were drawn (no look-ahead), the deque
    holds that window, and it is the last list handed over -/
theorem simplecache_draws (L : Nat) (xs : List α) (tail : Option ε) (j : Nat) (hL : 1 ≤ L)
    (hj : j + L ≤ xs.length) :
    (SCache.nexts true L xs tail (j + 1)).pc = .atYield ∧
    (SCache.nexts true L xs tail (j + 1)).drawn = j + L ∧
    (SCache.nexts true L xs tail (j + 1)).cache = (xs.drop j).take L ∧
    (SCache.nexts true L xs tail (j + 1)).out.getLast? = some ((xs.drop j).take L) := by
  rw [SCache.nexts_le L xs tail hL (show j + 1 ≤ xs.length + 1 - L by omega)]
  refine ⟨rfl, rfl, lastN_take_add L xs j hj, ?_⟩
  simp [windows_succ]

theorem simplecache_rejects_non_iterator (L : Nat) (xs : List α) (tail : Option ε) :
    (SCache.next false L xs tail SCache.init).pc = .failed ∧
    (SCache.next false L xs tail SCache.init).err = some .valueError ∧
    (SCache.next false L xs tail SCache.init).drawn = 0 ∧
    (SCache.next false L xs tail SCache.init).out = [] := by
  simp [SCache.next, SCache.init, GPC.finished]

/-! ### star import -/

theorem star_import_spec (all bound : List String) :
    starImport all bound = .ok all ↔ ∀ n ∈ all, n ∈ bound := by
  unfold starImport
  cases h : all.find? (fun n => !bound.contains n) with
  | none =>
    simp only [true_iff]
    intro n hn
    have := List.find?_eq_none.mp h n hn
    simpa using this
  | some m =>
    simp only [reduceCtorEq, false_iff]
    intro hall
    have hm := List.find?_some h
    have := hall m (List.mem_of_find?_eq_some h)
    simp [this] at hm

/-- otherwise: `AttributeError` for the first name of `__all__` that is not bound -/
theorem star_import_missing (all bound : List String) (h : ¬ ∀ n ∈ all, n ∈ bound) :
    ∃ pre m post, all = pre ++ m :: post ∧ (∀ n ∈ pre, n ∈ bound) ∧ m ∉ bound ∧
      starImport all bound = .attributeError m := by
  unfold starImport
  cases hf : all.find? (fun n => !bound.contains n) with
  | none =>
    exfalso; apply h
    intro n hn
    have := List.find?_eq_none.mp hf n hn
    simpa using this
  | some m =>
    obtain ⟨hm, pre, post, hall, hpre⟩ := List.find?_eq_some_iff_append.mp hf
    refine ⟨pre, m, post, hall, ?_, by simpa using hm, rfl⟩
    intro n hn
    simpa using hpre n hn

theorem advertised_reachable (all bound : List String) (hadv : advertisedHelpers ⊆ all)
    (h : starImport all bound = .ok all) : ∀ n ∈ advertisedHelpers, n ∈ bound :=
  fun n hn => (star_import_spec all bound).mp h n (hadv hn)

/-! ### non-vacuity -/

/-- observe, two functions, every second element; one `next()` beyond the end -/
example : (let s := Obsv.nexts 2 2 ["a", "b", "c"] (none : Option String) 4
           (s.pc, s.drawn, s.out, s.calls))
    = (.done, 3, ["a", "b", "c"], [(0, "a"), (1, "a"), (0, "c"), (1, "c")]) := by decide

/-- lazily: after two nexts only two elements were drawn, and "c" has not been observed -/
example : (let s := Obsv.nexts 2 2 ["a", "b", "c"] (none : Option String) 2
           (s.pc, s.drawn, s.out, s.calls)) = (.atYield, 2, ["a", "b"], [(0, "a"), (1, "a")]) := by decide

/-- observe_time, interval 10, readings 100, 105, 111, 112, 130: elements 0, 2, 4 are observed -/
def exClock (i : Nat) : Int := [100, 105, 111, 112, 130].getD i 0
example : (let s := Obsv.nextsT 1 10 exClock [0, 1, 2, 3, 4] (none : Option String) 6
           (s.pc, s.drawn, s.out, s.calls, s.tlast))
    = (.done, 5, [0, 1, 2, 3, 4], [(0, 0), (0, 2), (0, 4)], 130) := by decide

/-- a clock whose first reading does not exceed the interval: the first element is NOT observed
    (why `first_always_observed` needs its clock assumption) -/
example : (Obsv.nextsT 1 10 (fun i => 3 * (i : Int)) [0, 1, 2, 3, 4] (none : Option String) 5).calls
    = [(0, 4)] := by decide

/-- simplecache, windows of 3 over 5 elements, then exhaustion; a source that fails -/
example : (let s := SCache.nexts true 3 [1, 2, 3, 4, 5] (none : Option String) 4
           (s.pc, s.drawn, s.out)) = (.done, 5, [[1, 2, 3], [2, 3, 4], [3, 4, 5]]) := by decide
example : (let s := SCache.nexts true 3 [1, 2, 3, 4, 5] (none : Option String) 2
           (s.pc, s.drawn, s.cache, s.out)) = (.atYield, 4, [2, 3, 4], [[1, 2, 3], [2, 3, 4]]) := by decide
example : (let s := SCache.nexts true 3 [1, 2] (some "boom") 1
           (s.pc, s.drawn, s.out, s.raised)) = (.failed, 2, [], some "boom") := by decide
example : (let s := SCache.next false 3 [1, 2, 3] (none : Option String) SCache.init
           (s.pc, s.err, s.drawn)) = (.failed, some .valueError, 0) := by decide

/-- why `simplecache_spec` needs `1 ≤ L`: `deque(maxlen=0)` yields one empty list per element,
    2 here, not the `|xs| + 1 - 0 = 3` of the window formula -/
example : (let s := SCache.nexts true 0 [1, 2] (none : Option String) 3
           (s.pc, s.out)) = (.done, [[], []]) := by decide

/-- the pinned tree: `__all__` lists savestream/loadstream, the package does not bind them -/
example : starImport
      ["pipeline", "isiterator", "simplecache", "observe", "observe_time", "savestream", "loadstream"]
      ["pipeline", "isiterator", "simplecache", "observe", "observe_time"]
    = .attributeError "savestream" := by decide

/-- with the two names bound the star import succeeds and the advertised helpers are all there -/
example : starImport
      ["pipeline", "isiterator", "simplecache", "observe", "observe_time", "savestream", "loadstream"]
      ["pipeline", "isiterator", "simplecache", "observe", "observe_time", "savestream", "loadstream"]
    = .ok ["pipeline", "isiterator", "simplecache", "observe", "observe_time", "savestream", "loadstream"] := by
  decide

end Gpv.C19

#print axioms Gpv.C19.observe_transparent
#print axioms Gpv.C19.observe_calls
#print axioms Gpv.C19.observe_calls_mem
#print axioms Gpv.C19.calls_before_yield
#print axioms Gpv.C19.observe_time_transparent
#print axioms Gpv.C19.observe_time_spec
#print axioms Gpv.C19.observe_time_step
#print axioms Gpv.C19.first_always_observed
#print axioms Gpv.C19.simplecache_spec
#print axioms Gpv.C19.window_getElem
#print axioms Gpv.C19.simplecache_short
#print axioms Gpv.C19.simplecache_draws
#print axioms Gpv.C19.simplecache_rejects_non_iterator
#print axioms Gpv.C19.star_import_spec
#print axioms Gpv.C19.star_import_missing
#print axioms Gpv.C19.advertised_reachable
