/-
  C13Stage — several streams of ONE decorated stage alive at the same time (interleaved consumers,
  `f(f(src))`, a stream abandoned and another started): only the two counters are shared.
  Every stream behaves exactly as if it were the only one — its window, pending exception, pool,
  numbering and output are those of the single-stream machine run on its own labels — so C01, C02,
  C03, C04 hold per stream in every interleaving; the counters add up over all streams (C13); and
  interleaving introduces no deadlock.

  All statements are about `Gpv.Model.Stage` (`Stage.step`, `Stage.run`, `opsOf`) on top of
  `Gpv.Model.Pipeline` (`step?`, `runLabels`).  `PS.core`, `step?_core` and the simulation are in
  `Gpv.Proofs.StageInv`.
-/
import Gpv.Proofs.StageInv
import Gpv.Props.C01
import Gpv.Props.C02
import Gpv.Props.C04
import Gpv.Props.C13

namespace Gpv.C13Stage
open Gpv Gpv.Pipe
variable {α β ε : Type}
variable {c : Cfg} {srcs : List (List α × Option ε)} {f : α → Outcome β ε} {p0 y0 : Nat}
  {st : Stage β ε} {ops : List (StageOp ε)} {i : Nat} {s : PS β ε} {src : List α × Option ε}

/-! ### `step?` does not look at the counters -/

/-- re-export: `step?` commutes with changing the counters (see `Gpv.Pipe.step?_core`) -/
theorem step_core (c : Cfg) (xs : List α) (tail : Option ε) (f : α → Outcome β ε) (s : PS β ε) (l : Label ε)
    (p y p' y' : Nat) {s1 : PS β ε}
    (h : step? c xs tail f { s with processed := p, yielded := y } l = some s1) :
    ∃ s2, step? c xs tail f { s with processed := p', yielded := y' } l = some s2 ∧
      s2.core = s1.core ∧ s2.processed - p' = s1.processed - p ∧ s2.yielded - y' = s1.yielded - y := by
  obtain ⟨s2, h1, h2, h3, h4, -⟩ := step?_core c xs tail f s l p y p' y' h
  exact ⟨s2, h1, h2, h3, h4⟩

/-! ### every stream behaves as if it were alone -/

theorem stage_stream_independent (hr : Stage.run c srcs f (Stage.init p0 y0) ops = some st)
    (hs : st.streams[i]? = some s) (hsrc : srcs[i]? = some src) :
    ∃ s_i, runLabels c src.1 src.2 f (PS.init 0 0) (opsOf i ops) = some s_i ∧ s.core = s_i.core := by
  obtain ⟨ss', hsim, hrun, -⟩ := Sim.run ops (Sim.init p0 y0) hr
  obtain ⟨t, ht, hc⟩ := hsim.core_at hs
  have := hrun i src hsrc
  simp only [List.getElem?_nil, Option.getD_none, ht, Option.getD_some] at this
  exact ⟨t, this, hc⟩

/-- the same with the solo stream's reachability: for every consumer, and for a `next`-only consumer -/
theorem stage_stream_reach (hr : Stage.run c srcs f (Stage.init p0 y0) ops = some st)
    (hs : st.streams[i]? = some s) (hsrc : srcs[i]? = some src) :
    ∃ s_i, s = s_i.withCounters s.processed s.yielded ∧ Reach c src.1 src.2 f 0 0 s_i ∧
      ((∀ l ∈ opsOf i ops, l.isConsumerAbort = false) → ReachN c src.1 src.2 f 0 0 s_i) := by
  obtain ⟨s_i, hrun, hc⟩ := stage_stream_independent hr hs hsrc
  exact ⟨s_i, PS.eq_of_core hc, Reach.run .init hrun, fun hl => ReachN.run .init hl hrun⟩

/-- a stream that was created but has no source entry was never advanced -/
theorem stage_stream_without_source (hr : Stage.run c srcs f (Stage.init p0 y0) ops = some st)
    (hs : st.streams[i]? = some s) (hsrc : srcs[i]? = none) : s.core = (PS.init 0 0 : PS β ε).core := by
  obtain ⟨ss', hsim, -, hnone⟩ := Sim.run ops (Sim.init p0 y0) hr
  obtain ⟨t, ht, hc⟩ := hsim.core_at hs
  have := hnone i hsrc
  simp only [List.getElem?_nil, Option.getD_none, ht, Option.getD_some] at this
  rw [hc, this]

/-- a step of stream `j` leaves every other stream untouched -/
theorem stage_step_other {st' : Stage β ε} {j : Nat} {l : Label ε}
    (hs : Stage.step c srcs f st j l = some st') (hij : i ≠ j) : st'.streams[i]? = st.streams[i]? :=
  Stage.step_other hs hij

/-! ### C01 per stream -/

/-- the safety statement of `C01.par_safety`, for stream `i` of an interleaved stage -/
theorem stage_stream_safety (hr : Stage.run c srcs f (Stage.init p0 y0) ops = some st)
    (hs : st.streams[i]? = some s) (hsrc : srcs[i]? = some src)
    (hl : ∀ l ∈ opsOf i ops, l.isConsumerAbort = false) :
    s.taken ≤ s.drawn ∧ s.drawn ≤ src.1.length ∧ NoErr f (src.1.take s.taken) ∧
    (s.pc ≠ .failed → s.cache.map Prod.fst = List.range' s.taken (s.drawn - s.taken)) ∧
    ∃ term, s.out = emit c f (src.1.take s.taken) ++ term ∧
      (term = [] ∨ (s.pc = .done ∧ term = [.stop]) ∨ (s.pc = .failed ∧ ∃ e, term = [.raised e])) := by
  obtain ⟨s_i, he, -, hn⟩ := stage_stream_reach hr hs hsrc
  have := C01.par_safety (hn hl)
  rw [he]; exact this

theorem stage_stream_final (hr : Stage.run c srcs f (Stage.init p0 y0) ops = some st)
    (hs : st.streams[i]? = some s) (hsrc : srcs[i]? = some src)
    (hl : ∀ l ∈ opsOf i ops, l.isConsumerAbort = false) (hfin : s.pc = .done ∨ s.pc = .failed) :
    s.out = spec c f src.2 src.1 := by
  obtain ⟨s_i, he, -, hn⟩ := stage_stream_reach hr hs hsrc
  have hfin' : s_i.pc = .done ∨ s_i.pc = .failed := by rw [he] at hfin; exact hfin
  have := C01.par_final (hn hl) hfin'
  rw [he]; exact this

/-! ### C02 / C04 per stream -/

theorem stage_window_bound (hw : 1 ≤ c.nworkers) (hr : Stage.run c srcs f (Stage.init p0 y0) ops = some st)
    (hs : st.streams[i]? = some s) (hsrc : srcs[i]? = some src) :
    s.cache.length ≤ c.cachelen ∧ s.drawn - s.taken ≤ c.cachelen ∧ running s.cache ≤ c.nworkers := by
  obtain ⟨s_i, he, hreach, -⟩ := stage_stream_reach hr hs hsrc
  have h1 := C02.window_bound hw hreach
  have h2 := C02.running_le hreach
  rw [he]
  exact ⟨h1.1, h1.2, h2⟩

theorem stage_pool_scoped (hr : Stage.run c srcs f (Stage.init p0 y0) ops = some st)
    (hs : st.streams[i]? = some s) :
    s.pool = .alive ↔ s.pc ∈ [PC.loopHead, .waitLoop, .yieldLoop, .flushHead, .waitFlush, .yieldFlush] := by
  cases hsrc : srcs[i]? with
  | some src =>
    obtain ⟨s_i, he, hreach, -⟩ := stage_stream_reach hr hs hsrc
    have := C04.pool_scoped hreach
    rw [he]; exact this
  | none =>
    have hc := stage_stream_without_source hr hs hsrc
    have h1 : s.pool = .notCreated := congrArg Core.pool hc
    have h2 : s.pc = .notStarted := congrArg Core.pc hc
    simp [h1, h2]

/-- a stream that was never advanced has no pool, whatever the other streams did -/
theorem stage_never_advanced_no_pool (hr : Stage.run c srcs f (Stage.init p0 y0) ops = some st)
    (hs : st.streams[i]? = some s) (hn : Label.next ∉ opsOf i ops) :
    s.pool = .notCreated ∧ s.drawn = 0 ∧ s.cache = [] := by
  cases hsrc : srcs[i]? with
  | some src =>
    obtain ⟨s_i, hrun, hc⟩ := stage_stream_independent hr hs hsrc
    obtain ⟨h1, h2, h3, -⟩ := C04.never_advanced_no_pool (opsOf i ops) hn hrun
    rw [PS.eq_of_core hc]; exact ⟨h1, h2, h3⟩
  | none =>
    have hc := stage_stream_without_source hr hs hsrc
    exact ⟨congrArg Core.pool hc, congrArg Core.drawn hc, congrArg Core.cache hc⟩

/-- closing, finishing or failing stream `j` never changes the pool (or anything) of stream `i ≠ j` -/
theorem stage_pool_not_shared {st' : Stage β ε} {j : Nat} {l : Label ε} {s' : PS β ε}
    (hstep : Stage.step c srcs f st j l = some st') (hij : i ≠ j)
    (hs : st.streams[i]? = some s) (hs' : st'.streams[i]? = some s') : s' = s := by
  rw [stage_step_other hstep hij, hs] at hs'
  exact (Option.some.inj hs').symm

/-! ### C13: the counters add up over all streams of the stage -/

theorem stage_counters (hr : Stage.run c srcs f (Stage.init p0 y0) ops = some st) :
    st.processed = p0 + (st.streams.map fun s => s.taken).sum ∧
    st.yielded = y0 + (st.streams.map fun s =>
      (s.out.filter fun o => match o with | .value _ => true | _ => false).length).sum := by
  obtain ⟨ss', hsim, hrun, hnone⟩ := Sim.run ops (Sim.init p0 y0) hr
  have hsolo : ∀ t ∈ ss', t.processed = t.taken ∧ t.yielded = nvals t.out := by
    intro t ht
    obtain ⟨i, hi⟩ := List.mem_iff_getElem?.1 ht
    cases hsrc : srcs[i]? with
    | some src =>
      have := hrun i src hsrc
      simp only [List.getElem?_nil, Option.getD_none, hi, Option.getD_some] at this
      have g := (Reach.run (p0 := 0) (y0 := 0) .init this).ginv
      exact ⟨by simpa using g.proc, by simpa using g.yld⟩
    | none =>
      have := hnone i hsrc
      simp only [List.getElem?_nil, Option.getD_none, hi, Option.getD_some] at this
      subst this; exact ⟨rfl, rfl⟩
  have e1 : (st.streams.map fun s => s.taken) = ss'.map fun s => s.processed := by
    have : (st.streams.map fun s => s.taken) = (st.streams.map PS.core).map Core.taken := by
      rw [List.map_map]; rfl
    rw [this, hsim.cores, List.map_map]
    exact List.map_congr_left fun t ht => (hsolo t ht).1.symm
  have e2 : (st.streams.map fun s => nvals s.out) = ss'.map fun s => s.yielded := by
    have : (st.streams.map fun s => nvals s.out) = (st.streams.map PS.core).map (fun k => nvals k.out) := by
      rw [List.map_map]; rfl
    rw [this, hsim.cores, List.map_map]
    exact List.map_congr_left fun t ht => (hsolo t ht).2.symm
  exact ⟨by rw [e1]; exact hsim.proc, by
    show st.yielded = y0 + (st.streams.map fun s => nvals s.out).sum
    rw [e2]; exact hsim.yld⟩

/-! ### enabledness is local: interleaving cannot introduce a deadlock -/

/-- whether stream `i` can perform `l` depends on its own core state and its own source only:
    the stage step is enabled iff the single-stream step is, for ANY state `t` with the same core
    (any counters), whatever the other streams of the stage are doing -/
theorem stage_enabled_independent (hs : st.streams[i]? = some s) (hsrc : srcs[i]? = some src)
    (t : PS β ε) (ht : t.core = s.core) (l : Label ε) :
    (Stage.step c srcs f st i l).isSome = (step? c src.1 src.2 f t l).isSome := by
  unfold Stage.step
  simp only [hs, hsrc, Option.isSome_map]
  exact step?_isSome_core c src.1 src.2 f (by rw [ht]; rfl) l

/-- two stages (other streams, other counters, other positions) agree on what stream `i` may do
    as soon as stream `i`'s core and source agree -/
theorem stage_enabled_same {st₂ : Stage β ε} {srcs₂ : List (List α × Option ε)} {i₂ : Nat} {s₂ : PS β ε}
    (hs : st.streams[i]? = some s) (hsrc : srcs[i]? = some src)
    (hs₂ : st₂.streams[i₂]? = some s₂) (hsrc₂ : srcs₂[i₂]? = some src) (hc : s₂.core = s.core) (l : Label ε) :
    (Stage.step c srcs f st i l).isSome = (Stage.step c srcs₂ f st₂ i₂ l).isSome := by
  rw [stage_enabled_independent hs hsrc s rfl l, stage_enabled_independent hs₂ hsrc₂ s hc.symm l]

/-- no deadlock under any interleaving: a stream that is not finished can always take a step
    that is not a consumer abort (`C01.par_progress`, per stream) -/
theorem stage_progress (hw : 1 ≤ c.nworkers) (hr : Stage.run c srcs f (Stage.init p0 y0) ops = some st)
    (hs : st.streams[i]? = some s) (hsrc : srcs[i]? = some src) (hnf : s.isFinal = false) :
    ∃ l : Label ε, l.isConsumerAbort = false ∧ (Stage.step c srcs f st i l).isSome = true := by
  obtain ⟨s_i, hrun, hc⟩ := stage_stream_independent hr hs hsrc
  have hreach : Reach c src.1 src.2 f 0 0 s_i := Reach.run .init hrun
  have hnf' : s_i.isFinal = false := by
    have : s.pc = s_i.pc := congrArg Core.pc hc
    simpa [PS.isFinal, this] using hnf
  obtain ⟨l, hl, hen⟩ := hreach.ginv.progress (f := f) hw hnf'
  exact ⟨l, hl, by rw [stage_enabled_independent hs hsrc s_i hc.symm l]; exact hen⟩

/-! ### non-vacuity: two interleaved streams of one stage (one worker, window 2), counters from (7, 5);
    task 1 finishes before task 0 in both; stream 0 is closed midway; stream 1 drops a `None` -/

def exCfg : Cfg := ⟨1, 1, true⟩
def exF (x : Nat) : Outcome Nat String := if x = 4 then .val none else .val (some (10 * x))
def exSrcs : List (List Nat × Option String) := [([1, 2], none), ([3, 4, 5], none)]
def exOps : List (StageOp String) :=
  [.create, .create, .act 0 .next, .act 1 .next,
   .act 0 .draw, .act 1 .draw, .act 0 .draw, .act 1 .draw,
   .act 1 (.start 1), .act 0 (.start 1), .act 1 (.finish 1), .act 0 (.finish 1),
   .act 0 (.start 0), .act 1 (.start 0), .act 0 (.finish 0), .act 1 (.finish 0),
   .act 0 .get, .act 1 .get,
   .act 0 .close,
   .act 1 .next, .act 1 .draw, .act 1 .get, .act 1 .draw, .act 1 .flush,
   .act 1 (.start 2), .act 1 (.finish 2), .act 1 .get, .act 1 .next, .act 1 .flush]

example : (Stage.run exCfg exSrcs exF (Stage.init 7 5) exOps).map (fun st => (st.processed, st.yielded))
    = some (11, 8) := by decide

example : (Stage.run exCfg exSrcs exF (Stage.init 7 5) exOps).map
      (fun st => st.streams.map fun s => (s.pc, s.taken, s.pool))
    = some [(.closed, 1, .terminated), (.done, 3, .terminated)] := by decide

example : (Stage.run exCfg exSrcs exF (Stage.init 7 5) exOps).map (fun st => st.streams.map fun s => s.out)
    = some [[.value (some 10)], [.value (some 30), .value (some 50), .stop]] := by decide

/-- stream 1 alone, on its own labels, from counters (0, 0): the same core -/
example : (runLabels exCfg [3, 4, 5] none exF (PS.init 0 0) (opsOf 1 exOps)).map
      (fun s => (s.pc, s.taken, s.out, s.pool))
    = some (.done, 3, [.value (some 30), .value (some 50), .stop], .terminated) := by decide
example : (runLabels exCfg [3, 4, 5] none exF (PS.init 0 0) (opsOf 1 exOps)).map
      (fun s => (s.processed, s.yielded)) = some (3, 2) := by decide

/-- just after stream 0 was closed, stream 1's pool is still alive and its window intact;
    a third stream created meanwhile and never advanced has no pool -/
example : (Stage.run exCfg exSrcs exF (Stage.init 7 5) (exOps.take 19 ++ [.create])).map
      (fun st => st.streams.map fun s => (s.pc, s.pool, s.cache.length))
    = some [(.closed, .terminated, 1), (.yieldLoop, .alive, 1), (.notStarted, .notCreated, 0)] := by decide

/-- a label of a stream that does not exist (yet) is not enabled -/
example : Stage.run exCfg exSrcs exF (Stage.init 7 5) [.create, .act 1 .next] = none := by decide

end Gpv.C13Stage

#print axioms Gpv.Pipe.step?_core
#print axioms Gpv.C13Stage.step_core
#print axioms Gpv.C13Stage.stage_stream_independent
#print axioms Gpv.C13Stage.stage_stream_reach
#print axioms Gpv.C13Stage.stage_stream_without_source
#print axioms Gpv.C13Stage.stage_step_other
#print axioms Gpv.C13Stage.stage_stream_safety
#print axioms Gpv.C13Stage.stage_stream_final
#print axioms Gpv.C13Stage.stage_window_bound
#print axioms Gpv.C13Stage.stage_pool_scoped
#print axioms Gpv.C13Stage.stage_never_advanced_no_pool
#print axioms Gpv.C13Stage.stage_pool_not_shared
#print axioms Gpv.C13Stage.stage_counters
#print axioms Gpv.C13Stage.stage_enabled_independent
#print axioms Gpv.C13Stage.stage_enabled_same
#print axioms Gpv.C13Stage.stage_progress
