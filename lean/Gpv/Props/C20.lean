/-
  C20 — the network sender/receiver pair (`zmqgeneratorsend` on a REP socket,
  `zmqgeneratorrecv` on a REQ socket): under EVERY interleaving of the two parties'
  operations (labels `sDraw/sRecv/sSend` and `rNext/rSend/rRecv` are the adversary)
  the receiver yields an in-order, unaltered prefix of the stream, neither socket ever
  breaks its send/recv alternation, the sender is at most one element ahead of the
  requests, no interleaving deadlocks, every run is finite, and every run that cannot
  be extended ends with the whole stream delivered, the receiver's stream ended and
  the sender returned.  Payloads are an arbitrary type `α`: an element that is `None`
  or that looks like the end marker is just a value of `α`; the end marker is the
  separate constructor `Msg.fin`.

  All statements are about the executable model `Gpv.Model.Net` (`step?`, `runLabels`).
-/
import Gpv.Proofs.NetInv

namespace Gpv.C20
open Gpv Gpv.Net
variable {α : Type} {xs : List α} {s s' : NS α}

/-- reachable from `NS.init` by `step? xs` -/
abbrev Reach (xs : List α) (s : NS α) : Prop := Gpv.Net.Reach xs s

theorem reach_of_run {ls : List Label} (hr : runLabels xs NS.init ls = some s) : Reach xs s :=
  Net.Reach.init.run hr

/-! ### safety -/

/-- neither socket ever breaks the REQ/REP alternation, and no message overwrites another -/
theorem alternation_never_violated (h : Reach xs s) : s.violated = false := h.inv.viol

/-- each socket's alternation state is a function of its owner's program point -/
theorem alternation_state (h : Reach xs s) :
    s.repExpect = sExp s.spc ∧ s.reqExpect = rExp s.rpc := ⟨h.inv.repE, h.inv.reqE⟩

/-- what the receiver has yielded is always an in-order, unaltered prefix of the stream -/
theorem received_prefix (h : Reach xs s) : s.received = xs.take s.received.length := h.inv.pref.symm

theorem received_le (h : Reach xs s) : s.received.length ≤ xs.length := h.inv.recv_le

/-- the counters: requests sent = seen + in flight; seen = replies consumed + in flight + pending;
    elements drawn versus requests seen; the element held / in flight is the right one -/
theorem bookkeeping (h : Reach xs s) :
    s.requestsSeen + b2n s.reqSlot = s.received.length + rAsked s.rpc ∧
    s.requestsSeen = s.received.length + rDone s.rpc + b2n s.repSlot.isSome + sPend s.spc ∧
    s.drawn + sFinRound s.spc = s.requestsSeen + sAhead s.spc ∧
    s.drawn ≤ xs.length ∧
    (sExhausted s.spc = true → s.drawn = xs.length) ∧
    (∀ a, sHolds s.spc = some a → 0 < s.drawn ∧ xs[s.drawn - 1]? = some a) ∧
    (∀ a, s.repSlot = some (.data a) → xs[s.received.length]? = some a) ∧
    (s.repSlot = some .fin → s.spc = .done) ∧
    (s.rpc = .done → s.spc = .done) :=
  have i := h.inv
  ⟨i.req_cnt, i.rep_cnt, i.drawn_cnt, i.drawn_le, i.exhausted, i.holds, i.slot_data, i.slot_fin, i.rdone⟩

/-- a request and a reply are never in flight together, and only while the receiver waits -/
theorem slots_exclusive (h : Reach xs s) :
    (s.reqSlot = true → s.repSlot = none ∧ s.rpc = .waitRep) ∧
    (s.repSlot.isSome = true → s.reqSlot = false ∧ s.rpc = .waitRep) := by
  have i := h.inv
  have h1 := i.req_cnt
  have h2 := i.rep_cnt
  obtain ⟨spc, rpc, drawn, req, rep, re, qe, seen, recvd, viol⟩ := s
  simp only at h1 h2 ⊢
  cases req <;> cases rep <;> cases rpc <;> cases spc <;>
    simp [b2n, rAsked, rDone, sPend] at h1 h2 ⊢ <;> omega

/-- the end of the receiver's stream is reached only with the whole stream delivered -/
theorem receiver_done_implies_all (h : Reach xs s) (hd : s.rpc = .done) : s.received = xs := by
  have i := h.inv
  have hs := i.rdone hd
  have h1 := i.req_cnt
  have h2 := i.rep_cnt
  have h3 := i.drawn_cnt
  have h4 := i.exhausted
  have hp := i.pref
  rw [hd] at h1 h2
  rw [hs] at h2 h3 h4
  simp only [rAsked, rDone, sPend, sFinRound, sAhead, sExhausted, forall_const] at h1 h2 h3 h4
  have hl : s.received.length = xs.length := by omega
  rw [hl, List.take_length] at hp
  exact hp.symm

/-- in a final state: the stream arrived complete, unchanged and in order, every element was drawn
    exactly once, the receiver's stream has ended, the sender has returned, nothing is in flight -/
theorem final_complete (h : Reach xs s) (hf : s.isFinal = true) :
    s.received = xs ∧ s.drawn = xs.length ∧ s.rpc = .done ∧ s.spc = .done ∧
    s.reqSlot = false ∧ s.repSlot = none ∧ s.requestsSeen = xs.length + 1 ∧ s.violated = false := by
  have hr : s.rpc = .done := by
    simp only [NS.isFinal, Bool.and_eq_true, beq_iff_eq] at hf; exact hf.2
  have hs := h.inv.rdone hr
  have hx := receiver_done_implies_all h hr
  have i := h.inv
  have h1 := i.req_cnt
  have h2 := i.rep_cnt
  have h3 := i.exhausted
  have hl : s.received.length = xs.length := by rw [hx]
  rw [hr] at h1 h2
  rw [hs] at h2 h3
  simp only [rAsked, rDone, sPend, sExhausted, forall_const] at h1 h2 h3
  refine ⟨hx, h3, hr, hs, ?_, ?_, by omega, i.viol⟩
  · cases hq : s.reqSlot
    · rfl
    · rw [hq] at h1; simp only [b2n] at h1; omega
  · cases hq : s.repSlot
    · rfl
    · rw [hq] at h2; simp only [Option.isSome_some, b2n] at h2; omega

/-- the sender has drawn at most one element beyond the requests it has seen; the requests it has
    seen are at most the `next()` calls of the consumer (= yielded elements + the outstanding call) -/
theorem sender_lookahead (h : Reach xs s) :
    s.drawn ≤ s.requestsSeen + 1 ∧ s.requestsSeen ≤ s.received.length + rOutstanding s.rpc := by
  have i := h.inv
  have h1 := i.req_cnt
  have h3 := i.drawn_cnt
  constructor
  · cases hs : s.spc <;> rw [hs] at h3 <;> simp only [sFinRound, sAhead] at h3 <;> omega
  · cases hr : s.rpc <;> rw [hr] at h1 <;> simp only [rAsked, rOutstanding] at h1 ⊢ <;> omega

/-- `next()` calls made so far, read off the state -/
def nextCalls (s : NS α) : Nat := s.received.length + rOutstanding s.rpc

theorem nextCalls_step {l : Label} (hs : step? xs s l = some s') :
    nextCalls s' = nextCalls s + (if l = .rNext then 1 else 0) := by
  obtain ⟨spc, rpc, drawn, req, rep, re, qe, seen, recvd, viol⟩ := s
  cases l
  case sDraw =>
    cases spc <;> simp only [step?, reduceCtorEq] at hs
    cases hx : xs[drawn]? <;> simp only [hx, Option.some.injEq] at hs <;> subst hs <;> simp [nextCalls]
  case sRecv =>
    cases req <;> cases spc <;>
      simp only [step?, reduceCtorEq, if_true, if_false, Bool.false_eq_true, Option.some.injEq] at hs
    all_goals subst hs
    all_goals simp [nextCalls]
  case sSend =>
    cases spc <;> simp only [step?, reduceCtorEq, Option.some.injEq] at hs
    all_goals subst hs
    all_goals simp [nextCalls]
  case rNext =>
    cases rpc <;> simp only [step?, reduceCtorEq, Option.some.injEq] at hs
    subst hs; simp [nextCalls, rOutstanding]
  case rSend =>
    cases rpc <;> simp only [step?, reduceCtorEq, Option.some.injEq] at hs
    subst hs; simp [nextCalls, rOutstanding]
  case rRecv =>
    cases rpc <;> simp only [step?, reduceCtorEq] at hs
    rcases rep with _ | ⟨a | _⟩ <;> simp only [reduceCtorEq, Option.some.injEq] at hs
    all_goals subst hs
    all_goals simp [nextCalls, rOutstanding]

theorem nextCalls_run {ls : List Label} (hr : runLabels xs s ls = some s') :
    nextCalls s' = nextCalls s + ls.count .rNext := by
  induction ls generalizing s with
  | nil => simp only [runLabels, Option.some.injEq] at hr; subst hr; simp
  | cons l ls ih =>
    simp only [runLabels] at hr
    cases hs : step? xs s l with
    | none => simp [hs] at hr
    | some s1 =>
      simp only [hs, Option.bind_some] at hr
      rw [ih hr, nextCalls_step hs, List.count_cons]
      cases l <;> simp <;> omega

/-- along every run: elements drawn ≤ `next()` calls of the consumer + 1 -/
theorem drawn_le_next_calls {ls : List Label} (hr : runLabels xs NS.init ls = some s) :
    s.drawn ≤ ls.count .rNext + 1 := by
  have h := sender_lookahead (reach_of_run hr)
  have hn := nextCalls_run hr
  have h0 : nextCalls (NS.init : NS α) = 0 := rfl
  rw [h0] at hn
  unfold nextCalls at hn
  omega

/-! ### liveness: no deadlock, every run is finite, every maximal run delivers -/

/-- under a consumer that keeps asking (`rNext` is a step it will take) some operation is enabled
    in every reachable state that is not final -/
theorem deadlock_free (h : Reach xs s) (hnf : s.isFinal = false) : ∃ l, (step? xs s l).isSome = true :=
  h.inv.progress hnf

/-- remaining operations: see `Gpv.Net.mu` (`6 * xs.length + 6` at the start) -/
abbrev mu (xs : List α) (s : NS α) : Nat := Gpv.Net.mu xs s

theorem measure {l : Label} (hs : step? xs s l = some s') (h : Reach xs s) : mu xs s' < mu xs s :=
  h.inv.measure hs

theorem terminates (h : Reach xs s) {ls : List Label} (hr : (runLabels xs s ls).isSome = true) :
    ls.length ≤ mu xs s := by
  obtain ⟨s', hs'⟩ := Option.isSome_iff_exists.1 hr
  have := h.run_length hs'
  show ls.length ≤ Net.mu xs s
  omega

/-- whichever interleaving: no run has more than `6 * (xs.length + 1)` steps -/
theorem run_bound {ls : List Label} (hr : (runLabels xs (NS.init : NS α) ls).isSome = true) :
    ls.length ≤ 6 * xs.length + 6 := by
  have := terminates (xs := xs) Net.Reach.init hr
  rwa [mu, mu_init] at this

/-- a final state has no successor -/
theorem final_stuck (hf : s.isFinal = true) (l : Label) : step? xs s l = none := by
  obtain ⟨spc, rpc, drawn, req, rep, re, qe, seen, recvd, viol⟩ := s
  cases spc <;> cases rpc <;> simp [NS.isFinal, SPC.isDone] at hf
  cases l <;> simp [step?]

/-- a run that cannot be extended has delivered everything: the state is final, the stream arrived
    complete, unchanged and in order, and no alternation was violated -/
theorem every_maximal_run_delivers {ls : List Label} (hr : runLabels xs NS.init ls = some s)
    (hmax : ∀ l, step? xs s l = none) :
    s.isFinal = true ∧ s.received = xs ∧ s.drawn = xs.length ∧ s.violated = false := by
  have h := reach_of_run hr
  have hf : s.isFinal = true := by
    cases hq : s.isFinal
    · obtain ⟨l, hl⟩ := deadlock_free h hq
      rw [hmax l] at hl; cases hl
    · rfl
  have := final_complete h hf
  exact ⟨hf, this.1, this.2.1, this.2.2.2.2.2.2.2⟩

theorem runLabels_append {ls₁ ls₂ : List Label} {s₁ : NS α} (h₁ : runLabels xs s ls₁ = some s₁) :
    runLabels xs s (ls₁ ++ ls₂) = runLabels xs s₁ ls₂ := by
  induction ls₁ generalizing s with
  | nil => simp only [runLabels, Option.some.injEq] at h₁; subst h₁; rfl
  | cons l ls ih =>
    simp only [runLabels, List.cons_append] at h₁ ⊢
    cases hs : step? xs s l with
    | none => simp [hs] at h₁
    | some s2 =>
      simp only [hs, Option.bind_some] at h₁ ⊢
      exact ih h₁

/-- every reachable state can be driven to a final state, and every way of continuing gets there:
    (this one: existence) -/
theorem final_reachable (h : Reach xs s) :
    ∃ ls s', runLabels xs s ls = some s' ∧ s'.isFinal = true ∧ s'.received = xs := by
  generalize hn : mu xs s = n
  induction n using Nat.strongRecOn generalizing s with
  | _ n ih =>
    cases hf : s.isFinal
    · obtain ⟨l, hl⟩ := deadlock_free h hf
      obtain ⟨s1, hs1⟩ := Option.isSome_iff_exists.1 hl
      have hm := measure hs1 h
      obtain ⟨ls, s2, hr, hf2, hx⟩ := ih (mu xs s1) (by omega) (h.step hs1) rfl
      exact ⟨l :: ls, s2, by simp [runLabels, hs1, hr], hf2, hx⟩
    · exact ⟨[], s, rfl, hf, (final_complete h hf).1⟩

/-! ### whichever side starts first -/

theorem either_side_first :
    (step? xs (NS.init : NS α) .sDraw).isSome = true ∧ (step? xs (NS.init : NS α) .rNext).isSome = true := by
  constructor
  · cases hx : xs[0]? <;> simp [step?, NS.init, hx]
  · rfl

/-- the receiver may ask and send its request before the sender has drawn anything … -/
theorem receiver_first : (runLabels xs (NS.init : NS α) [.rNext, .rSend, .sDraw]).isSome = true := by
  cases hx : xs[0]? <;> simp [runLabels, step?, NS.init, hx]

/-- … and the sender may draw (and block in `recv`) before the receiver has done anything -/
theorem sender_first : (runLabels xs (NS.init : NS α) [.sDraw, .rNext, .rSend]).isSome = true := by
  cases hx : xs[0]? <;> simp [runLabels, step?, NS.init, hx]

/-- a blocking `recv` is not enabled before its message is there -/
theorem recv_blocks : step? xs (NS.init : NS α) .sRecv = none ∧ step? xs (NS.init : NS α) .rRecv = none := by
  constructor <;> rfl

/-! ### non-vacuity: an element that is `None`, two interleavings -/

def exXs : List (Option Nat) := [none, some 7]

/-- receiver first, strictly alternating -/
def exRun₁ : List Label :=
  [.rNext, .rSend, .sDraw, .sRecv, .sSend, .rRecv,
   .rNext, .rSend, .sDraw, .sRecv, .sSend, .rRecv,
   .rNext, .rSend, .sDraw, .sRecv, .sSend, .rRecv]

/-- sender first and always as far ahead as it can get -/
def exRun₂ : List Label :=
  [.sDraw, .rNext, .rSend, .sRecv, .sSend, .sDraw, .rRecv,
   .rNext, .rSend, .sRecv, .sSend, .sDraw, .rRecv,
   .rNext, .rSend, .sRecv, .sSend, .rRecv]

example : (runLabels exXs NS.init exRun₁).map (fun s => (s.isFinal, s.received, s.drawn, s.violated))
    = some (true, [none, some 7], 2, false) := by decide

example : (runLabels exXs NS.init exRun₂).map (fun s => (s.isFinal, s.received, s.drawn, s.violated))
    = some (true, [none, some 7], 2, false) := by decide

/-- the bound of `run_bound` is attained: `6 * 2 + 6` steps -/
example : exRun₁.length = 6 * exXs.length + 6 := by decide

/-- the empty stream: one request, answered by the end marker -/
example : (runLabels ([] : List (Option Nat)) NS.init [.sDraw, .rNext, .rSend, .sRecv, .sSend, .rRecv]).map
    (fun s => (s.isFinal, s.received, s.violated)) = some (true, [], false) := by decide

end Gpv.C20

#print axioms Gpv.C20.alternation_never_violated
#print axioms Gpv.C20.alternation_state
#print axioms Gpv.C20.received_prefix
#print axioms Gpv.C20.received_le
#print axioms Gpv.C20.bookkeeping
#print axioms Gpv.C20.slots_exclusive
#print axioms Gpv.C20.receiver_done_implies_all
#print axioms Gpv.C20.final_complete
#print axioms Gpv.C20.sender_lookahead
#print axioms Gpv.C20.drawn_le_next_calls
#print axioms Gpv.C20.deadlock_free
#print axioms Gpv.C20.measure
#print axioms Gpv.C20.terminates
#print axioms Gpv.C20.run_bound
#print axioms Gpv.C20.final_stuck
#print axioms Gpv.C20.every_maximal_run_delivers
#print axioms Gpv.C20.final_reachable
#print axioms Gpv.C20.either_side_first
#print axioms Gpv.C20.receiver_first
#print axioms Gpv.C20.sender_first
#print axioms Gpv.C20.recv_blocks
