/-
  C13 (failures) — the stage counters of a stream that ended by a failure.

  `C13.counters` only says `processed = p0 + taken`; here `taken` is pinned at a failure.
  What the model does (`getStep`, `.err` branch): the `get` that finds the failing result removes
  it from the window and raises, WITHOUT incrementing `taken` / `processed` — the failing element
  is not counted, and neither are the later elements that were already drawn (or even run) and
  are still in the window.  In-process (`sstep?`, `.draw` on an `.err`) `drawn` is incremented
  and `processed` is not: the same count.

  * parallel, consumer only calls `next` (`ReachN`), any schedule:
      function failure at `xs = pre ++ x :: post`:  processed = p0 + |pre|, yielded = y0 + #kept(pre)
      source failure:                              processed = p0 + |xs|,  yielded = y0 + #kept(xs)
  * serial: the same (`SReachN`; for every consumer `processed = p0 + min drawn |pre|`), and for
    functions without iterator results the two modes agree at the failure;
  * after the failure nothing changes any more, whatever labels follow.
-/
import Gpv.Proofs.FailInv
import Gpv.Props.C01
import Gpv.Props.C03
import Gpv.Props.C13

namespace Gpv.C13Fail
open Gpv Gpv.Pipe
variable {α β ε : Type}
variable {c : Cfg} {xs : List α} {tail : Option ε} {f : α → Outcome β ε} {p0 y0 : Nat} {s s' : PS β ε}

/-! ### 1. parallel machine, function failure -/

/-- the central fact: when the stream has failed by the failure of `x`, exactly the elements
    before `x` have been taken — the failing one is not counted -/
theorem parallel_function_failure_taken (h : ReachN c xs tail f p0 y0 s) (hf : s.pc = .failed)
    {pre post : List α} {x : α} {e : ε} (hxs : xs = pre ++ x :: post) (hpre : NoErr f pre)
    (hx : f x = .err e) : s.taken = pre.length :=
  h.taken_at_function_failure hf hxs hpre hx

/-- the counters (and the output, and what was drawn in vain) at a function failure -/
theorem parallel_function_failure_counters (h : ReachN c xs tail f p0 y0 s) (hf : s.pc = .failed)
    {pre post : List α} {x : α} {e : ε} (hxs : xs = pre ++ x :: post) (hpre : NoErr f pre)
    (hx : f x = .err e) :
    s.taken = pre.length ∧
    s.processed = p0 + pre.length ∧
    s.yielded = y0 + nvals (emit c f pre) ∧
    s.out = emit c f pre ++ [.raised e] ∧
    s.drawn = pre.length + 1 + s.cache.length := by
  have ht := h.taken_at_function_failure hf hxs hpre hx
  have hc := C13.counters_of_prefix h
  have htk : xs.take s.taken = pre := by rw [ht, hxs]; simp
  rw [htk, ht] at hc
  exact ⟨ht, hc.1, hc.2, C03.parallel_function_failure h (.inr hf) hxs hpre hx,
    h.drawn_at_function_failure hf hxs hpre hx⟩

/-- in particular the failing element and everything drawn after it is not counted:
    `processed - p0 < drawn` -/
theorem parallel_function_failure_not_counted (h : ReachN c xs tail f p0 y0 s) (hf : s.pc = .failed)
    {pre post : List α} {x : α} {e : ε} (hxs : xs = pre ++ x :: post) (hpre : NoErr f pre)
    (hx : f x = .err e) : s.processed + 1 + s.cache.length = p0 + s.drawn := by
  obtain ⟨-, h2, -, -, h5⟩ := parallel_function_failure_counters h hf hxs hpre hx
  omega

/-! ### 2. parallel machine, source failure -/

/-- no call fails and the stream is in `failed`: it is the source that failed, after every
    element was taken (the window is flushed first) -/
theorem parallel_source_failure_counters (h : ReachN c xs tail f p0 y0 s) (hf : s.pc = .failed)
    (hall : NoErr f xs) :
    s.taken = xs.length ∧
    s.processed = p0 + xs.length ∧
    s.yielded = y0 + nvals (emit c f xs) ∧
    ∃ e, tail = some e ∧ s.out = emit c f xs ++ [.raised e] := by
  obtain ⟨ht, hsome⟩ := h.taken_at_source_failure hf hall
  have hc := C13.counters_of_prefix h
  rw [ht, List.take_length] at hc
  obtain ⟨e, he⟩ := Option.isSome_iff_exists.1 hsome
  exact ⟨ht, hc.1, hc.2, e, he, C03.parallel_source_failure h (.inr hf) hall he⟩

/-- the form with the source's exception given -/
theorem parallel_source_failure_counters' (h : ReachN c xs tail f p0 y0 s) (hf : s.pc = .failed)
    {e : ε} (hall : NoErr f xs) (_ht : tail = some e) :
    s.processed = p0 + xs.length ∧ s.yielded = y0 + nvals (emit c f xs) := by
  obtain ⟨-, h2, h3, -⟩ := parallel_source_failure_counters h hf hall
  exact ⟨h2, h3⟩

/-! ### 3. serial machine -/
section serial
variable {g : α → SOutcome β ε} {t t' : SS β ε}

/-- every consumer (next / close / throw), every reachable state: at most the failing element is
    drawn, and `processed` counts the drawn elements except the failing one -/
theorem serial_counters_any_consumer (h : SReach c xs tail g p0 y0 t)
    {pre post : List α} {x : α} {e : ε} (hxs : xs = pre ++ x :: post)
    (hpre : ∀ y ∈ pre, ∀ e, g y ≠ .err e) (hx : g x = .err e) :
    t.drawn ≤ pre.length + 1 ∧ t.processed = p0 + min t.drawn pre.length :=
  ⟨h.drawn_le_failure hxs hx,
   h.processed_min hxs (fun y hy => (returned_iff _).2 (hpre y hy)) hx⟩

/-- every consumer: the failure is that of the function — the failing element has been drawn —
    iff `drawn = |pre| + 1`; then the stream is in `failed` with these counters and this output.
    (A `throw` of the consumer also leads to `failed`, but with `drawn ≤ |pre|`.) -/
theorem serial_function_failure_any_consumer (h : SReach c xs tail g p0 y0 t)
    {pre post : List α} {x : α} {e : ε} (hxs : xs = pre ++ x :: post)
    (hpre : ∀ y ∈ pre, ∀ e, g y ≠ .err e) (hx : g x = .err e) (hd : t.drawn = pre.length + 1) :
    t.pc = .failed ∧
    t.processed = p0 + pre.length ∧
    t.yielded = y0 + nvals (flatOut c g pre) ∧
    t.out = flatOut c g pre ++ [.raised e] := by
  have hout := h.out_at_function_failure hxs hx hd
  have hp := (serial_counters_any_consumer h hxs hpre hx).2
  rw [hd] at hp
  refine ⟨h.failed_of_drawn_failing hxs hx hd, by rw [hp]; congr 1; omega, ?_, hout⟩
  rw [h.sinv.yld, hout]; simp

/-- consumer only calls `next`: a stream with a failing call that is in `failed` has failed by that
    call; the failing element is drawn and not counted -/
theorem serial_function_failure_counters (h : SReachN c xs tail g p0 y0 t) (hf : t.pc = .failed)
    {pre post : List α} {x : α} {e : ε} (hxs : xs = pre ++ x :: post)
    (hpre : ∀ y ∈ pre, ∀ e, g y ≠ .err e) (hx : g x = .err e) :
    t.drawn = pre.length + 1 ∧
    t.processed = p0 + pre.length ∧
    t.yielded = y0 + nvals (flatOut c g pre) ∧
    t.out = flatOut c g pre ++ [.raised e] := by
  have hd := h.drawn_at_function_failure hf hxs (fun y hy => (returned_iff _).2 (hpre y hy)) hx
  obtain ⟨-, h2, h3, h4⟩ := serial_function_failure_any_consumer h.sreach hxs hpre hx hd
  exact ⟨hd, h2, h3, h4⟩

/-- consumer only calls `next`, no call fails: `failed` is the source's failure, every element counted -/
theorem serial_source_failure_counters (h : SReachN c xs tail g p0 y0 t) (hf : t.pc = .failed)
    (hall : ∀ y ∈ xs, ∀ e, g y ≠ .err e) :
    t.drawn = xs.length ∧ t.processed = p0 + xs.length ∧ tail.isSome = true := by
  rcases h.sfailCause hf with ⟨hpos, y, e', hy, he'⟩ | ⟨hd, hsome, -⟩
  · exact absurd he' (hall y (List.mem_of_getElem? hy) e')
  · refine ⟨hd, ?_, hsome⟩
    rw [h.sreach.sinv.proc, hd, List.take_length]
    congr 1
    rw [List.filter_eq_self.2 fun y hy => (returned_iff _).2 (hall y hy)]

/-- a function without iterator results, seen by the in-process machine, expands a failure-free
    prefix to what the parallel specification emits -/
theorem flatOut_lift (c c' : Cfg) (hc : c'.skipNone = c.skipNone) (f : α → Outcome β ε) (pre : List α)
    (hpre : NoErr f pre) : flatOut c' (C01.lift ∘ f) pre = emit c f pre := by
  have hk : ∀ v : Option β, keep c' v = keep c v := by intro v; simp [keep, hc]
  induction pre with
  | nil => rfl
  | cons x pre ih =>
    obtain ⟨⟨v, hv⟩, h'⟩ := NoErr.cons_iff.1 hpre
    rw [flatOut_cons, ih h']
    simp [emit, hv, C01.lift, expand, hk]

/-- functions without iterator results: at the failure of the same call, the in-process stream and
    the parallel stream (any `nworkers` / `extracache` / schedule; same None rule; same initial
    counters) show the same counters and have delivered the same sequence -/
theorem serial_eq_parallel_counters_at_failure {c' : Cfg} {tail' : Option ε}
    (hp : ReachN c xs tail f p0 y0 s) (hpf : s.pc = .failed)
    (hs : SReachN c' xs tail' (C01.lift ∘ f) p0 y0 t) (hsf : t.pc = .failed)
    (hc : c'.skipNone = c.skipNone)
    {pre post : List α} {x : α} {e : ε} (hxs : xs = pre ++ x :: post) (hpre : NoErr f pre)
    (hx : f x = .err e) :
    t.processed = s.processed ∧ t.yielded = s.yielded ∧ t.out = s.out ∧
    s.processed = p0 + pre.length := by
  obtain ⟨-, p2, p3, p4, -⟩ := parallel_function_failure_counters hp hpf hxs hpre hx
  have hpre' : ∀ y ∈ pre, ∀ e, (C01.lift ∘ f) y ≠ .err e := by
    intro y hy e' he'
    obtain ⟨v, hv⟩ := hpre y hy
    simp [C01.lift, hv] at he'
  have hx' : (C01.lift ∘ f) x = .err e := by simp [C01.lift, hx]
  obtain ⟨-, s2, s3, s4⟩ := serial_function_failure_counters hs hsf hxs hpre' hx'
  rw [flatOut_lift c c' hc f pre hpre] at s3 s4
  exact ⟨by rw [s2, p2], by rw [s3, p3], by rw [s4, p4], p2⟩

end serial

/-! ### 4. after the failure the counters never change again -/

/-- parallel, every consumer and schedule: whatever labels follow a failure, the state — in
    particular both counters — stays as it was -/
theorem parallel_counters_frozen (h : Reach c xs tail f p0 y0 s) (hf : s.pc = .failed)
    (ls : List (Label ε)) (hr : runLabels c xs tail f s ls = some s') :
    s' = s ∧ s'.processed = s.processed ∧ s'.yielded = s.yielded ∧ s'.pc = .failed := by
  have := C03.no_later_output_run h (by simp [PS.isFinal, hf]) ls hr
  subst this
  exact ⟨rfl, rfl, rfl, hf⟩

/-- one step -/
theorem parallel_counters_frozen_step (h : Reach c xs tail f p0 y0 s) (hf : s.pc = .failed)
    {l : Label ε} (hs : step? c xs tail f s l = some s') :
    s'.processed = s.processed ∧ s'.yielded = s.yielded := by
  rw [C03.final_step_eq h (by simp [PS.isFinal, hf]) hs]; exact ⟨rfl, rfl⟩

/-- so the counts of statement 1 are final: they hold for every continuation (with arbitrary
    labels, `close` and `throw` included) of a `next`-only run that has failed -/
theorem parallel_function_failure_counters_final (h : ReachN c xs tail f p0 y0 s) (hf : s.pc = .failed)
    {pre post : List α} {x : α} {e : ε} (hxs : xs = pre ++ x :: post) (hpre : NoErr f pre)
    (hx : f x = .err e) (ls : List (Label ε)) (hr : runLabels c xs tail f s ls = some s') :
    s'.processed = p0 + pre.length ∧ s'.yielded = y0 + nvals (emit c f pre) := by
  obtain ⟨e1, -⟩ := parallel_counters_frozen h.reach hf ls hr
  obtain ⟨-, h2, h3, -⟩ := parallel_function_failure_counters h hf hxs hpre hx
  rw [e1]; exact ⟨h2, h3⟩

theorem parallel_source_failure_counters_final (h : ReachN c xs tail f p0 y0 s) (hf : s.pc = .failed)
    (hall : NoErr f xs) (ls : List (Label ε)) (hr : runLabels c xs tail f s ls = some s') :
    s'.processed = p0 + xs.length ∧ s'.yielded = y0 + nvals (emit c f xs) := by
  obtain ⟨e1, -⟩ := parallel_counters_frozen h.reach hf ls hr
  obtain ⟨-, h2, h3, -⟩ := parallel_source_failure_counters h hf hall
  rw [e1]; exact ⟨h2, h3⟩

section serial
variable {g : α → SOutcome β ε} {t t' : SS β ε}

/-- serial: a failed stream is inert (no reachability hypothesis needed) -/
theorem serial_counters_frozen_step (hf : t.pc = .failed) {l : SLabel ε}
    (hs : sstep? c xs tail g t l = some t') :
    t' = t ∧ t'.processed = t.processed ∧ t'.yielded = t.yielded := by
  rw [sfinal_step_eq (by simp [SS.isFinal, hf]) hs]; exact ⟨rfl, rfl, rfl⟩

theorem serial_counters_frozen (hf : t.pc = .failed) (ls : List (SLabel ε))
    (hr : srun c xs tail g t ls = some t') :
    t' = t ∧ t'.processed = t.processed ∧ t'.yielded = t.yielded ∧ t'.pc = .failed := by
  have := sfinal_run_eq (by simp [SS.isFinal, hf]) ls hr
  subst this
  exact ⟨rfl, rfl, rfl, hf⟩

theorem serial_function_failure_counters_final (h : SReachN c xs tail g p0 y0 t) (hf : t.pc = .failed)
    {pre post : List α} {x : α} {e : ε} (hxs : xs = pre ++ x :: post)
    (hpre : ∀ y ∈ pre, ∀ e, g y ≠ .err e) (hx : g x = .err e)
    (ls : List (SLabel ε)) (hr : srun c xs tail g t ls = some t') :
    t'.processed = p0 + pre.length ∧ t'.yielded = y0 + nvals (flatOut c g pre) := by
  obtain ⟨e1, -⟩ := serial_counters_frozen hf ls hr
  obtain ⟨-, h2, h3, -⟩ := serial_function_failure_counters h hf hxs hpre hx
  rw [e1]; exact ⟨h2, h3⟩

end serial

/-! ### 5. non-vacuity: 2 workers, window 2, `[0, 1, 2, 3]`, the call for element 2 fails
    (while element 3 is already running); counters started at (7, 5) -/

def exCfg : Cfg := ⟨2, 0, false⟩
def exF (x : Nat) : Outcome Nat String := if x = 2 then .err "boom" else .val (some (10 * x))
def exRun : List (Label String) :=
  [.next, .draw, .draw, .start 0, .start 1, .finish 0, .finish 1, .get, .next, .draw, .get, .next,
   .draw, .start 3, .finish 2, .get]

/-- `failed` is reached: 4 drawn, 2 taken, element 3 still running in the window; `processed`
    went from 7 to 9 = 7 + 2 and `yielded` from 5 to 7 -/
example : runLabels exCfg [0, 1, 2, 3] none exF (PS.init 7 5) exRun
    = some ⟨.failed, 4, 2, [(3, .running)], [.value (some 0), .value (some 10), .raised "boom"],
            .terminated, none, 9, 7⟩ := by decide

/-- started at (0, 0): processed = 2 -/
example : (runLabels exCfg [0, 1, 2, 3] none exF (PS.init 0 0) exRun).map
      (fun s => (s.pc, s.taken, s.processed, s.yielded))
    = some (.failed, 2, 2, 2) := by decide

/-- the run uses no `close` / `throw`, so its end state is one of the states the theorems speak about -/
theorem exReachN : ∃ s, runLabels exCfg [0, 1, 2, 3] none exF (PS.init 0 0) exRun = some s ∧
    ReachN exCfg [0, 1, 2, 3] none exF 0 0 s ∧ s.pc = .failed ∧ s.processed = 2 := by
  refine ⟨⟨.failed, 4, 2, [(3, .running)], [.value (some 0), .value (some 10), .raised "boom"],
            .terminated, none, 2, 2⟩, by decide, ?_, rfl, rfl⟩
  exact ReachN.run (ls := exRun) .init (by decide) (by decide)

/-- the hypotheses of statement 1 hold for this instance (`pre = [0, 1]`, `x = 2`, `post = [3]`) -/
example : ([0, 1, 2, 3] : List Nat) = [0, 1] ++ 2 :: [3] ∧ NoErr exF [0, 1] ∧ exF 2 = .err "boom" := by
  refine ⟨rfl, ?_, rfl⟩
  intro x hx
  simp only [List.mem_cons, List.not_mem_nil, or_false] at hx
  rcases hx with rfl | rfl
  · exact ⟨_, rfl⟩
  · exact ⟨_, rfl⟩

/-- afterwards nothing moves: `next` is answered with the end of the stream, the running task
    cannot finish (the pool is terminated), the counters stay -/
example : (runLabels exCfg [0, 1, 2, 3] none exF (PS.init 0 0) (exRun ++ [.next, .close, .next])).map
      (fun s => (s.pc, s.processed, s.yielded))
    = some (.failed, 2, 2) := by decide
example : runLabels exCfg [0, 1, 2, 3] none exF (PS.init 0 0) (exRun ++ [.finish 3]) = none := by decide

/-- a failing source: everything is counted -/
example : (runLabels exCfg [0, 1] (some "src") exF (PS.init 0 0)
      [.next, .draw, .draw, .start 0, .start 1, .finish 0, .finish 1, .get, .next, .draw, .flush, .get,
       .next, .flush]).map (fun s => (s.pc, s.processed, s.yielded, s.out))
    = some (.failed, 2, 2, [.value (some 0), .value (some 10), .raised "src"]) := by decide

/-- in-process, same function: the failing element is drawn (3 drawn) and not counted (2 processed) -/
def exSRun : List (SLabel String) :=
  [.next, .draw, .pull, .next, .pull, .draw, .pull, .next, .pull, .draw]

example : srun exCfg [0, 1, 2, 3] none (C01.lift ∘ exF) (SS.init 0 0) exSRun
    = some ⟨.failed, 3, [], 1, [.value (some 0), .value (some 10), .raised "boom"], 2, 2⟩ := by decide

example : (srun exCfg [0, 1, 2, 3] none (C01.lift ∘ exF) (SS.init 0 0) (exSRun ++ [.next, .close])).map
      (fun s => (s.pc, s.processed, s.yielded))
    = some (.failed, 2, 2) := by decide

end Gpv.C13Fail

#print axioms Gpv.C13Fail.parallel_function_failure_taken
#print axioms Gpv.C13Fail.parallel_function_failure_counters
#print axioms Gpv.C13Fail.parallel_function_failure_not_counted
#print axioms Gpv.C13Fail.parallel_source_failure_counters
#print axioms Gpv.C13Fail.parallel_source_failure_counters'
#print axioms Gpv.C13Fail.serial_counters_any_consumer
#print axioms Gpv.C13Fail.serial_function_failure_any_consumer
#print axioms Gpv.C13Fail.serial_function_failure_counters
#print axioms Gpv.C13Fail.serial_source_failure_counters
#print axioms Gpv.C13Fail.flatOut_lift
#print axioms Gpv.C13Fail.serial_eq_parallel_counters_at_failure
#print axioms Gpv.C13Fail.parallel_counters_frozen
#print axioms Gpv.C13Fail.parallel_counters_frozen_step
#print axioms Gpv.C13Fail.parallel_function_failure_counters_final
#print axioms Gpv.C13Fail.parallel_source_failure_counters_final
#print axioms Gpv.C13Fail.serial_counters_frozen_step
#print axioms Gpv.C13Fail.serial_counters_frozen
#print axioms Gpv.C13Fail.serial_function_failure_counters_final
#print axioms Gpv.C13Fail.exReachN
