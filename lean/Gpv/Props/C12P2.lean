/-
  C12 (P² part) — the array-valued quantile/CDF estimator is, in every component and after
  every observation, exactly the scalar estimator fed that component's sequence; components
  never influence each other — also when different components take different branches of the
  P² update (which the code vectorises with `np.where`).

  `P2V.run` is `List.foldl` of the executable row-wise update `P2V.push` of `Gpv.Model.P2Vec`
  (whole-row numpy operations, both candidates computed, `np.where` selection); `P2.run` is the
  scalar estimator of `Gpv.Model.P2`, about which C07/C08 speak.
-/
import Gpv.Proofs.P2VecAlg
import Gpv.Props.C07
import Mathlib.Algebra.Order.Ring.Rat
import Mathlib.Algebra.Order.Field.Rat
import Mathlib.Algebra.Field.Rat
import Mathlib.Tactic.NormNum
set_option linter.unusedSectionVars false

namespace Gpv.C12P2
open Gpv
variable {K : Type} [Field K] [LinearOrder K] [IsStrictOrderedRing K]

/-- column `c` of a table of rows -/
abbrev col (c : ℕ) (t : List (Row K)) : List K := colOf c t

theorem col_def (c : ℕ) (t : List (Row K)) : col c t = t.map fun r => r.getD c 0 := rfl

/-- `P2V.col` is made of the columns of the two tables -/
theorem P2V_col_eq (s : P2V K) (c : ℕ) : s.col c = ⟨s.q, s.n, col c s.h, col c s.pos⟩ :=
  P2V.col_eq s c

/-- the heart: for tables whose rows all have `d` components, column `c` of one row-wise step
    B3 (marker `i`, with its neighbours inside the tables) is the scalar step on column `c` —
    per component the `np.where` selections are the scalar `if`s, whatever branches the other
    components take; the result is again well-shaped -/
theorem adjustOneV_col (q : List K) (d n : ℕ) (h pos : List (Row K)) (i c : ℕ)
    (hh : RowsOK d h) (hp : RowsOK d pos) (hih : i + 1 < h.length) (hip : i + 1 < pos.length)
    (hc : c < d) :
    (col c (adjustOneV q d n (h, pos) i).1, col c (adjustOneV q d n (h, pos) i).2) =
      adjustOne q n (col c h, col c pos) i ∧
    RowsOK d (adjustOneV q d n (h, pos) i).1 ∧ RowsOK d (adjustOneV q d n (h, pos) i).2 ∧
    (adjustOneV q d n (h, pos) i).1.length = h.length ∧
    (adjustOneV q d n (h, pos) i).2.length = pos.length :=
  Gpv.adjustOneV_col q d n h pos i c hh hp hih hip hc

theorem adjustAllV_col (q : List K) (d n : ℕ) (h pos : List (Row K)) (c : ℕ)
    (hh : RowsOK d h) (hp : RowsOK d pos) (hlh : h.length = q.length)
    (hlp : pos.length = q.length) (hc : c < d) :
    (col c (adjustAllV q d n h pos).1, col c (adjustAllV q d n h pos).2) =
      adjustAll q n (col c h) (col c pos) ∧
    RowsOK d (adjustAllV q d n h pos).1 ∧ RowsOK d (adjustAllV q d n h pos).2 ∧
    (adjustAllV q d n h pos).1.length = q.length ∧ (adjustAllV q d n h pos).2.length = q.length :=
  Gpv.adjustAllV_col q d n h pos c hh hp hlh hlp hc

theorem placeObsV_col (d : ℕ) (h pos : List (Row K)) (x : Row K) (c : ℕ)
    (hh : RowsOK d h) (hp : RowsOK d pos) (hx : x.length = d) (hlen : pos.length ≤ h.length)
    (hc : c < d) :
    (col c (placeObsV h pos x).1, col c (placeObsV h pos x).2) =
      placeObs (col c h) (col c pos) (x.getD c 0) ∧
    RowsOK d (placeObsV h pos x).1 ∧ RowsOK d (placeObsV h pos x).2 ∧
    (placeObsV h pos x).1.length = h.length ∧ (placeObsV h pos x).2.length = pos.length :=
  Gpv.placeObsV_col d h pos x c hh hp hx hlen hc

/-- `np.sort(axis=0)`: column `c` of the column-wise sorted table is the sorted column `c`
    (no shape hypothesis needed) and the result is well-shaped -/
theorem sortColumns_col (d : ℕ) (rows : List (Row K)) (c : ℕ) (hc : c < d) :
    col c (sortColumns d rows) = sortK (col c rows) ∧
    RowsOK d (sortColumns d rows) ∧ (sortColumns d rows).length = rows.length :=
  ⟨Gpv.sortColumns_col d rows c hc, sortColumns_ok d rows⟩

/-- one observation -/
theorem push_col (s : P2V K) (x : Row K) (c : ℕ) (wf : s.WF) (hx : x.length = s.d) (hc : c < s.d) :
    (s.push x).col c = (s.col c).push (x.getD c 0) ∧ (s.push x).WF :=
  P2V.push_col s x c wf hx hc

/-- after every observation, for every grid: the array estimator IS the grid of scalar
    estimators -/
theorem run_col (q : List K) (d : ℕ) (xs : List (Row K)) (hxs : ∀ x ∈ xs, x.length = d)
    (c : ℕ) (hc : c < d) :
    (P2V.run q d xs).col c = P2.run q (xs.map fun x => x.getD c 0) :=
  (P2V.run_col_wf q d xs hxs c hc).1

theorem run_wf (q : List K) (d : ℕ) (xs : List (Row K)) (hxs : ∀ x ∈ xs, x.length = d)
    (c : ℕ) (hc : c < d) : (P2V.run q d xs).WF :=
  (P2V.run_col_wf q d xs hxs c hc).2

/-- components never influence each other: two observation sequences that agree on component
    `c` give the same component `c` of the estimator, whatever the other components are -/
theorem no_crosstalk_p2 (q : List K) (d : ℕ) (xs ys : List (Row K))
    (hxs : ∀ x ∈ xs, x.length = d) (hys : ∀ y ∈ ys, y.length = d) (c : ℕ) (hc : c < d)
    (hagree : (xs.map fun x => x.getD c 0) = ys.map fun y => y.getD c 0) :
    (P2V.run q d xs).col c = (P2V.run q d ys).col c := by
  rw [run_col q d xs hxs c hc, run_col q d ys hys c hc, hagree]

/-- every component of the array estimator satisfies the C07 invariant: sorted markers, exact
    minimum and maximum, integer strictly increasing ranks from 0 to n-1 — per component -/
theorem vec_inv (q : List K) (d : ℕ) (xs : List (Row K)) (hxs : ∀ x ∈ xs, x.length = d)
    (c : ℕ) (hc : c < d) (hm : 2 ≤ q.length) (hx : q.length ≤ xs.length) :
    P2.Inv ((P2V.run q d xs).col c) (xs.map fun x => x.getD c 0) := by
  rw [run_col q d xs hxs c hc]
  exact C07.inv_run q _ hm (by simpa using hx)

/-! ### non-vacuity: two components taking different branches

  grid `[0, 1/2, 1]` (min, median, max), d = 2; component 0 sees 1,2,…,7, component 1 sees
  1,1,1,1,5,1,1.  At the 5th observation component 0 moves its middle marker with the parabolic
  formula while component 1 does not move it; at the 7th component 0 moves it to the right with
  the parabolic formula while component 1 moves it to the left with the linear formula. -/

/-- the grid of the example: minimum, median, maximum -/
private abbrev exQ : List ℚ := [0, 1/2, 1]

set_option maxRecDepth 10000 in
private theorem ex_step1 :
    (⟨exQ, 2, 0, [], [[0, 0], [1, 1], [2, 2]]⟩ : P2V ℚ).push [1, 1] =
      ⟨exQ, 2, 1, [[1, 1]], [[0, 0], [1, 1], [2, 2]]⟩ := by
  rw [P2V.push_fill _ _ _ _ _ _ (by decide)]; rfl

set_option maxRecDepth 10000 in
private theorem ex_step2 :
    (⟨exQ, 2, 1, [[1, 1]], [[0, 0], [1, 1], [2, 2]]⟩ : P2V ℚ).push [2, 1] =
      ⟨exQ, 2, 2, [[1, 1], [2, 1]], [[0, 0], [1, 1], [2, 2]]⟩ := by
  rw [P2V.push_fill _ _ _ _ _ _ (by decide)]; rfl

set_option maxRecDepth 10000 in
private theorem ex_step3 :
    (⟨exQ, 2, 2, [[1, 1], [2, 1]], [[0, 0], [1, 1], [2, 2]]⟩ : P2V ℚ).push [3, 1] =
      ⟨exQ, 2, 3, [[1, 1], [2, 1], [3, 1]], [[0, 0], [1, 1], [2, 2]]⟩ := by
  have hs1 : sortK ([1, 2, 3] : List ℚ) = [1, 2, 3] := sortK_of_sorted (by norm_num)
  have hs2 : sortK ([1, 1, 1] : List ℚ) = [1, 1, 1] := sortK_of_sorted (by norm_num)
  rw [P2V.push_sort _ _ _ _ _ _ (by decide)]
  norm_num [sortColumns, hs1, hs2, List.range, List.range.loop, adjustAllV, adjustOneV, placeObsV, rmap₂, rwhere, rbc, rowAt, nth, sign, parabolic, linear,
    List.range', List.mapIdx_cons, List.ofFn_succ, List.replicate_succ]

set_option maxRecDepth 10000 in
private theorem ex_step4 :
    (⟨exQ, 2, 3, [[1, 1], [2, 1], [3, 1]], [[0, 0], [1, 1], [2, 2]]⟩ : P2V ℚ).push [4, 1] =
      ⟨exQ, 2, 4, [[1, 1], [2, 1], [4, 1]], [[0, 0], [1, 2], [3, 3]]⟩ := by
  rw [P2V.push_place _ _ _ _ _ _ (by decide)]
  norm_num [adjustAllV, adjustOneV, placeObsV, rmap₂, rwhere, rbc, rowAt, nth, sign, parabolic, linear,
    List.range', List.mapIdx_cons, List.ofFn_succ, List.replicate_succ]

set_option maxRecDepth 10000 in
private theorem ex_step5 :
    (⟨exQ, 2, 4, [[1, 1], [2, 1], [4, 1]], [[0, 0], [1, 2], [3, 3]]⟩ : P2V ℚ).push [5, 5] =
      ⟨exQ, 2, 5, [[1, 1], [3, 1], [5, 5]], [[0, 0], [2, 2], [4, 4]]⟩ := by
  rw [P2V.push_place _ _ _ _ _ _ (by decide)]
  norm_num [adjustAllV, adjustOneV, placeObsV, rmap₂, rwhere, rbc, rowAt, nth, sign, parabolic, linear,
    List.range', List.mapIdx_cons, List.ofFn_succ, List.replicate_succ]

set_option maxRecDepth 10000 in
private theorem ex_step6 :
    (⟨exQ, 2, 5, [[1, 1], [3, 1], [5, 5]], [[0, 0], [2, 2], [4, 4]]⟩ : P2V ℚ).push [6, 1] =
      ⟨exQ, 2, 6, [[1, 1], [3, 1], [6, 5]], [[0, 0], [2, 3], [5, 5]]⟩ := by
  rw [P2V.push_place _ _ _ _ _ _ (by decide)]
  norm_num [adjustAllV, adjustOneV, placeObsV, rmap₂, rwhere, rbc, rowAt, nth, sign, parabolic, linear,
    List.range', List.mapIdx_cons, List.ofFn_succ, List.replicate_succ]

set_option maxRecDepth 10000 in
private theorem ex_step7 :
    (⟨exQ, 2, 6, [[1, 1], [3, 1], [6, 5]], [[0, 0], [2, 3], [5, 5]]⟩ : P2V ℚ).push [7, 1] =
      ⟨exQ, 2, 7, [[1, 1], [4, 1], [7, 5]], [[0, 0], [3, 3], [6, 6]]⟩ := by
  rw [P2V.push_place _ _ _ _ _ _ (by decide)]
  norm_num [adjustAllV, adjustOneV, placeObsV, rmap₂, rwhere, rbc, rowAt, nth, sign, parabolic, linear,
    List.range', List.mapIdx_cons, List.ofFn_succ, List.replicate_succ]


/-- the array run, observation by observation (row-wise model) -/
theorem example_run_vec :
    P2V.run exQ 2 [[1, 1], [2, 1], [3, 1], [4, 1], [5, 5], [6, 1], [7, 1]] =
      ⟨exQ, 2, 7, [[1, 1], [4, 1], [7, 5]], [[0, 0], [3, 3], [6, 6]]⟩ := by
  have e0 : P2V.init exQ 2 = ⟨exQ, 2, 0, [], [[0, 0], [1, 1], [2, 2]]⟩ := by
    simp [P2V.init, rbc, List.range, List.range.loop, List.replicate_succ]
  simp only [P2V.run, List.foldl_cons, List.foldl_nil, e0, ex_step1, ex_step2, ex_step3, ex_step4,
    ex_step5, ex_step6, ex_step7]

set_option maxRecDepth 10000 in
/-- the scalar estimator on component 0, evaluated independently -/
theorem example_run_c0 : P2.run exQ [1, 2, 3, 4, 5, 6, 7] = ⟨exQ, 7, [1, 4, 7], [0, 3, 6]⟩ := by
  have hs : sortK ([1, 2, 3] : List ℚ) = [1, 2, 3] := sortK_of_sorted (by norm_num)
  norm_num [P2.run, P2.push, P2.init, P2.m, hs, adjustAll, adjustOne, placeObs, nth, sign,
    parabolic, linear, List.range', List.mapIdx_cons, List.range, List.range.loop]

set_option maxRecDepth 10000 in
/-- the scalar estimator on component 1, evaluated independently -/
theorem example_run_c1 : P2.run exQ [1, 1, 1, 1, 5, 1, 1] = ⟨exQ, 7, [1, 1, 5], [0, 3, 6]⟩ := by
  have hs : sortK ([1, 1, 1] : List ℚ) = [1, 1, 1] := sortK_of_sorted (by norm_num)
  norm_num [P2.run, P2.push, P2.init, P2.m, hs, adjustAll, adjustOne, placeObs, nth, sign,
    parabolic, linear, List.range', List.mapIdx_cons, List.range, List.range.loop]

/-- both sides of `run_col`, computed independently, agree -/
example :
    (P2V.run exQ 2 [[1, 1], [2, 1], [3, 1], [4, 1], [5, 5], [6, 1], [7, 1]]).col 0 =
      P2.run exQ [1, 2, 3, 4, 5, 6, 7] ∧
    (P2V.run exQ 2 [[1, 1], [2, 1], [3, 1], [4, 1], [5, 5], [6, 1], [7, 1]]).col 1 =
      P2.run exQ [1, 1, 1, 1, 5, 1, 1] := by
  rw [example_run_vec, example_run_c0, example_run_c1]
  constructor <;> simp [P2V.col]

/-- the 7th observation: component 0 (heights 1,3,7, ranks 0,2,6, direction +1) accepts the
    parabolic prediction 4; component 1 (heights 1,1,5, ranks 0,4,6, direction −1) gets a
    parabolic prediction that is not strictly above its left neighbour and uses the linear one -/
example :
    (parabolic (1 : ℚ) 3 7 0 2 6 1 = 4 ∧ (1 : ℚ) < 4 ∧ (4 : ℚ) < 7) ∧
    (¬ ((1 : ℚ) < parabolic (1 : ℚ) 1 5 0 4 6 (-1)) ∧ linear (1 : ℚ) 1 4 0 (-1) = 1) := by
  norm_num [parabolic, linear]

end Gpv.C12P2

#print axioms Gpv.C12P2.adjustOneV_col
#print axioms Gpv.C12P2.adjustAllV_col
#print axioms Gpv.C12P2.placeObsV_col
#print axioms Gpv.C12P2.sortColumns_col
#print axioms Gpv.C12P2.push_col
#print axioms Gpv.C12P2.run_col
#print axioms Gpv.C12P2.run_wf
#print axioms Gpv.C12P2.no_crosstalk_p2
#print axioms Gpv.C12P2.vec_inv
#print axioms Gpv.C12P2.example_run_vec
#print axioms Gpv.C12P2.example_run_c0
#print axioms Gpv.C12P2.example_run_c1
