/-
  C05, floating-point clause — a machine-checked rounding-error bound for the
  incremental mean `_val += obj / _n - _val / _n` (`Mean.push`).

  Model (Gpv/Proofs/FloatMean.lean): every one of the four operations of the source
  line returns its exact result times `1 + δ` with an arbitrary `|δ| ≤ u`
  (`u` = unit roundoff, `2^-53` for binary64; `eps = 2u`); the integer count is
  converted exactly.  `FlRun u xs v` : `v` is a possible accumulator value after `xs`.

  Result: if `|x| ≤ M` for all observations and `8·n·u ≤ 1` then EVERY possible
  floating-point result is within `6·n·u·M = 3·n·eps·M` of the true mean — inside
  the harness tolerance `4·n·eps·max|x|`.  Overflow, underflow (subnormals) and
  non-finite inputs are outside the model.
-/
import Gpv.Proofs.FloatMean
import Gpv.Spec.Stats
import Mathlib.Algebra.Order.Field.Rat
import Mathlib.Tactic.NormNum
set_option linter.unusedSectionVars false

namespace Gpv.C05Float
open Gpv
variable {K : Type} [Field K] [LinearOrder K] [IsStrictOrderedRing K]

/-! ### 1. the model (definitions are in `Gpv.Proofs.FloatMean`; restated for reference) -/

theorem rnd_def (u e r : K) : Rnd u e r ↔ ∃ δ : K, |δ| ≤ u ∧ r = e * (1 + δ) := Iff.rfl

theorem flStep_def (u : K) (k : ℕ) (v x v' : K) :
    FlStep u k v x v' ↔ ∃ a b c : K, Rnd u (x / (k : K)) a ∧ Rnd u (v / (k : K)) b
      ∧ Rnd u (a - b) c ∧ Rnd u (v + c) v' := Iff.rfl

/-- the run relation: start at 0, step `k = 1, 2, …` -/
theorem flRun_nil_iff (u v : K) : FlRun u [] v ↔ v = 0 := by
  constructor
  · intro h
    generalize hl : ([] : List K) = l at h
    cases h with
    | nil => rfl
    | snoc x v' _ _ => simp at hl
  · rintro rfl; exact FlRun.nil

theorem flRun_snoc_iff (u : K) (xs : List K) (x v' : K) :
    FlRun u (xs ++ [x]) v' ↔ ∃ v, FlRun u xs v ∧ FlStep u (xs.length + 1) v x v' := by
  constructor
  · intro h
    generalize hl : xs ++ [x] = l at h
    cases h with
    | nil => simp at hl
    | @snoc ys v y v' hr hs =>
      obtain ⟨rfl, h2⟩ := List.append_inj' hl rfl
      simp only [List.cons.injEq, and_true] at h2
      subst h2
      exact ⟨v, hr, hs⟩
  · rintro ⟨v, hr, hs⟩; exact FlRun.snoc x v' hr hs

/-! ### 2. the error bound -/

/-- the invariant behind the bound, division-free: `|n·v − Σx| ≤ 6 n² u M`, and the
    magnitude bound `|v| ≤ (1 + 6 n u) M` -/
theorem mean_float_defect {u M : K} (hu : 0 ≤ u) (hM : 0 ≤ M) {xs : List K} {v : K}
    (h : FlRun u xs v) (hx : ∀ x ∈ xs, |x| ≤ M) (hsmall : 8 * (xs.length : K) * u ≤ 1) :
    |(xs.length : K) * v - xs.sum| ≤ 6 * (xs.length : K) ^ 2 * u * M
      ∧ |v| ≤ M * (1 + 6 * (xs.length : K) * u) :=
  FlRun.inv hu hM h hx (by linarith)

theorem bound_nonneg {M : K} {xs : List K} (hne : xs ≠ []) (hx : ∀ x ∈ xs, |x| ≤ M) : 0 ≤ M := by
  obtain ⟨x, t, rfl⟩ := List.exists_cons_of_ne_nil hne
  exact (abs_nonneg x).trans (hx x (by simp))

/-- **Main theorem.**  Every possible floating-point value `v` of the incremental mean
    after `n ≥ 1` observations bounded by `M`, with `8 n u ≤ 1`, satisfies
    `|v − mean| ≤ 6 · n · u · M`. -/
theorem mean_float_error {u M : K} (hu : 0 ≤ u) {xs : List K} (hne : xs ≠ [])
    (hx : ∀ x ∈ xs, |x| ≤ M) (hsmall : 8 * (xs.length : K) * u ≤ 1) {v : K} (h : FlRun u xs v) :
    |v - xs.sum / (xs.length : K)| ≤ 6 * (xs.length : K) * u * M := by
  have hM := bound_nonneg hne hx
  have hn : (0 : K) < (xs.length : K) := Nat.cast_pos.mpr (List.length_pos_iff.mpr hne)
  have hd := (mean_float_defect hu hM h hx hsmall).1
  have e : v - xs.sum / (xs.length : K) = ((xs.length : K) * v - xs.sum) / (xs.length : K) := by
    field_simp
  rw [e, abs_div, abs_of_pos hn, div_le_iff₀ hn]
  calc |(xs.length : K) * v - xs.sum| ≤ 6 * (xs.length : K) ^ 2 * u * M := hd
    _ = 6 * (xs.length : K) * u * M * (xs.length : K) := by ring

/-- the computed value itself stays within `(1 + 6nu)·M ≤ (7/4)·M` -/
theorem mean_float_magnitude {u M : K} (hu : 0 ≤ u) {xs : List K} (hne : xs ≠ [])
    (hx : ∀ x ∈ xs, |x| ≤ M) (hsmall : 8 * (xs.length : K) * u ≤ 1) {v : K} (h : FlRun u xs v) :
    |v| ≤ M * (1 + 6 * (xs.length : K) * u) ∧ |v| ≤ 7 / 4 * M := by
  have hM := bound_nonneg hne hx
  have hb := (mean_float_defect hu hM h hx hsmall).2
  refine ⟨hb, hb.trans ?_⟩
  have : 1 + 6 * (xs.length : K) * u ≤ 7 / 4 := by linarith
  calc M * (1 + 6 * (xs.length : K) * u) ≤ M * (7 / 4) := mul_le_mul_of_nonneg_left this hM
    _ = 7 / 4 * M := by ring

/-- distance to the exact run of the model (`Mean.run`, i.e. `Mean.push` folded) -/
theorem mean_float_vs_exact_run {u M : K} (hu : 0 ≤ u) {xs : List K} (hne : xs ≠ [])
    (hx : ∀ x ∈ xs, |x| ≤ M) (hsmall : 8 * (xs.length : K) * u ≤ 1) {v : K} (h : FlRun u xs v) :
    |v - (Mean.run xs).val| ≤ 6 * (xs.length : K) * u * M := by
  rw [Mean.run_val xs hne]; exact mean_float_error hu hne hx hsmall h

/-! ### 3. in the shape of the property: `eps = 2u`, data magnitude `max |x|` -/

/-- `max |x|` over the list (0 for the empty list) -/
def maxAbs (xs : List K) : K := xs.foldr (fun x m => max |x| m) 0

theorem le_maxAbs (xs : List K) : ∀ x ∈ xs, |x| ≤ maxAbs xs := by
  induction xs with
  | nil => intro x hx; simp at hx
  | cons y ys ih =>
    intro x hx
    simp only [maxAbs, List.foldr_cons]
    rcases List.mem_cons.mp hx with rfl | hx
    · exact le_max_left _ _
    · exact (ih x hx).trans (le_max_right _ _)

theorem maxAbs_nonneg (xs : List K) : 0 ≤ maxAbs xs := by
  cases xs with
  | nil => simp [maxAbs]
  | cons y ys => exact (abs_nonneg y).trans (le_maxAbs _ y (by simp))

/-- the maximum is attained (so `maxAbs` really is `max |x|`) -/
theorem maxAbs_mem (xs : List K) (hne : xs ≠ []) : ∃ x ∈ xs, |x| = maxAbs xs := by
  induction xs with
  | nil => exact absurd rfl hne
  | cons y ys ih =>
    rcases ys with _ | ⟨z, zs⟩
    · exact ⟨y, by simp, by simp [maxAbs]⟩
    · obtain ⟨x, hx, he⟩ := ih (by simp)
      simp only [maxAbs, List.foldr_cons] at he ⊢
      rcases max_choice |y| (max |z| (List.foldr (fun x m => max |x| m) 0 zs)) with h | h
      · exact ⟨y, by simp, h.symm⟩
      · exact ⟨x, List.mem_cons_of_mem _ hx, by rw [h]; exact he⟩

/-- error ≤ `3 · n · eps · max|x|` with the machine epsilon `eps = 2u` -/
theorem mean_float_error_rel {eps : K} (heps : 0 ≤ eps) {xs : List K} (hne : xs ≠ [])
    (hsmall : 4 * (xs.length : K) * eps ≤ 1) {v : K} (h : FlRun (eps / 2) xs v) :
    |v - batchMean xs| ≤ 3 * (xs.length : K) * eps * maxAbs xs := by
  have := mean_float_error (u := eps / 2) (by positivity) hne (le_maxAbs xs) (by linarith) h
  calc |v - batchMean xs| ≤ 6 * (xs.length : K) * (eps / 2) * maxAbs xs := this
    _ = 3 * (xs.length : K) * eps * maxAbs xs := by ring

/-- hence inside the tolerance the harness uses, `4 · n · eps · max|x|` -/
theorem mean_float_error_harness {eps : K} (heps : 0 ≤ eps) {xs : List K} (hne : xs ≠ [])
    (hsmall : 4 * (xs.length : K) * eps ≤ 1) {v : K} (h : FlRun (eps / 2) xs v) :
    |v - batchMean xs| ≤ 4 * (xs.length : K) * eps * maxAbs xs := by
  refine (mean_float_error_rel heps hne hsmall h).trans ?_
  have hn : (0 : K) ≤ (xs.length : K) := Nat.cast_nonneg _
  have hm := maxAbs_nonneg xs
  have : 0 ≤ (xs.length : K) * eps * maxAbs xs := by positivity
  linarith

/-! ### 4. the perturbed recurrence contains, and at `u = 0` is, the model's recurrence -/

theorem exact_is_a_float_run (xs : List K) (v : K) : FlRun 0 xs v ↔ v = (Mean.run xs).val :=
  flRun_zero_iff xs v

theorem exact_run_possible {u : K} (hu : 0 ≤ u) (xs : List K) : FlRun u xs (Mean.run xs).val :=
  FlRun.of_exact hu xs

/-- a larger unit roundoff allows more runs -/
theorem float_run_mono {u u' : K} (h : u ≤ u') {xs : List K} {v : K} (hr : FlRun u xs v) :
    FlRun u' xs v := hr.mono h

/-! ### 5. non-vacuity: a genuinely perturbed run over ℚ, `u = 1/1000`, `xs = [1, 2, 3]` -/

/-- step `k` with explicit relative errors `δ₁ … δ₄` -/
theorem flStep_of_deltas {u : K} (k : ℕ) (v x δ1 δ2 δ3 δ4 : K)
    (h1 : |δ1| ≤ u) (h2 : |δ2| ≤ u) (h3 : |δ3| ≤ u) (h4 : |δ4| ≤ u) :
    FlStep u k v x ((v + (x / (k : K) * (1 + δ1) - v / (k : K) * (1 + δ2)) * (1 + δ3)) * (1 + δ4)) :=
  ⟨_, _, _, ⟨δ1, h1, rfl⟩, ⟨δ2, h2, rfl⟩, ⟨δ3, h3, rfl⟩, ⟨δ4, h4, rfl⟩⟩

example : ∃ v : ℚ, FlRun (1 / 1000) [1, 2, 3] v ∧ v ≠ 2
    ∧ v = 4005334335669667667666332333 / 2000000000000000000000000000
    ∧ |v - 2| ≤ 6 * 3 * (1 / 1000) * 3 := by
  have r0 : FlRun (1 / 1000 : ℚ) [] 0 := FlRun.nil
  have r1 := FlRun.snoc 1 _ r0 (flStep_of_deltas (u := (1 / 1000 : ℚ)) _ 0 1
    (1 / 1000) 0 (-1 / 1000) (1 / 1000) (by norm_num [abs_le]) (by norm_num [abs_le])
    (by norm_num [abs_le]) (by norm_num [abs_le]))
  have r2 := FlRun.snoc 2 _ r1 (flStep_of_deltas (u := (1 / 1000 : ℚ)) _ _ 2
    (-1 / 1000) (1 / 1000) (1 / 1000) (-1 / 1000) (by norm_num [abs_le]) (by norm_num [abs_le])
    (by norm_num [abs_le]) (by norm_num [abs_le]))
  have r3 := FlRun.snoc 3 _ r2 (flStep_of_deltas (u := (1 / 1000 : ℚ)) _ _ 3
    (1 / 1000) (-1 / 1000) (1 / 1000) (1 / 1000) (by norm_num [abs_le]) (by norm_num [abs_le])
    (by norm_num [abs_le]) (by norm_num [abs_le]))
  refine ⟨_, r3, ?_, ?_, ?_⟩ <;> norm_num [abs_le]

/-- and the theorem applies to it: `8·3·(1/1000) ≤ 1`, `|x| ≤ 3` -/
example (v : ℚ) (h : FlRun (1 / 1000) [1, 2, 3] v) : |v - 2| ≤ 6 * 3 * (1 / 1000) * 3 := by
  have := mean_float_error (u := (1 / 1000 : ℚ)) (M := 3) (by norm_num) (xs := [1, 2, 3]) (by simp)
    (by intro x hx; simp at hx; rcases hx with rfl | rfl | rfl <;> norm_num [abs_le])
    (by norm_num) h
  norm_num at this ⊢
  exact this

end Gpv.C05Float

#print axioms Gpv.C05Float.flRun_nil_iff
#print axioms Gpv.C05Float.flRun_snoc_iff
#print axioms Gpv.C05Float.mean_float_defect
#print axioms Gpv.C05Float.mean_float_error
#print axioms Gpv.C05Float.mean_float_magnitude
#print axioms Gpv.C05Float.mean_float_vs_exact_run
#print axioms Gpv.C05Float.le_maxAbs
#print axioms Gpv.C05Float.maxAbs_mem
#print axioms Gpv.C05Float.mean_float_error_rel
#print axioms Gpv.C05Float.mean_float_error_harness
#print axioms Gpv.C05Float.exact_is_a_float_run
#print axioms Gpv.C05Float.exact_run_possible
#print axioms Gpv.C05Float.float_run_mono
#print axioms Gpv.C05Float.flStep_of_deltas
