/-
  C04 — no worker outlives its stream: the pool is alive exactly while the generator body
  is between its first `next` and its exit (normal end, exception, close, throw); it is
  terminated on every exit; a stream that is never advanced never creates a pool; and the
  scheduler / workers can move only while the pool is alive.
-/
import Gpv.Proofs.PipelineInv
import Gpv.Proofs.PipelineRun

namespace Gpv.C04
open Gpv Gpv.Pipe
variable {α β ε : Type}
variable {c : Cfg} {xs : List α} {tail : Option ε} {f : α → Outcome β ε} {p0 y0 : Nat} {s s' : PS β ε}

theorem pool_scoped (h : Reach c xs tail f p0 y0 s) :
    s.pool = .alive ↔ s.pc ∈ [PC.loopHead, .waitLoop, .yieldLoop, .flushHead, .waitFlush, .yieldFlush] := by
  rw [h.ginv.pool_alive]
  cases s.pc <;> simp [PC.inBody]

theorem terminated_on_every_exit (h : Reach c xs tail f p0 y0 s) (hfin : s.isFinal = true) :
    s.pool ≠ .alive := by
  intro hp
  have := (pool_scoped h).1 hp
  cases hpc : s.pc <;> simp_all [PS.isFinal]

/-- more precisely: at an exit the pool is terminated, or it was never created -/
theorem exit_pool (h : Reach c xs tail f p0 y0 s) (hfin : s.isFinal = true) :
    s.pool = .terminated ∨ (s.pool = .notCreated ∧ s.drawn = 0 ∧ s.cache = []) := by
  have hna := terminated_on_every_exit h hfin
  cases hp : s.pool with
  | alive => exact absurd hp hna
  | terminated => exact .inl rfl
  | notCreated =>
    obtain ⟨h1, h2, -⟩ := h.ginv.pool_nc hp
    exact .inr ⟨rfl, h1, h2⟩

/-- a normal end always went through a live pool and terminated it -/
theorem done_pool_terminated (h : Reach c xs tail f p0 y0 s) (hd : s.pc = .done) : s.pool = .terminated := by
  rcases exit_pool h (by simp [PS.isFinal, hd]) with h1 | ⟨h1, -⟩
  · exact h1
  · obtain ⟨-, -, h3⟩ := h.ginv.pool_nc h1
    simp [hd] at h3

/-- what holds exactly of the state: an unstarted stream has no pool, and a stream without a
    pool has drawn nothing, holds nothing and was ended (if at all) by close/throw only.
    The converse of the second part is false — see the counterexample below. -/
theorem never_started_no_pool_partial (h : Reach c xs tail f p0 y0 s) :
    (s.pc = .notStarted → s.pool = .notCreated) ∧
    (s.pool = .notCreated →
      s.drawn = 0 ∧ s.cache = [] ∧ (s.pc = .notStarted ∨ s.pc = .closed ∨ s.pc = .failed)) :=
  ⟨fun hp => (h.ginv.ns hp).1, h.ginv.pool_nc⟩

/-- the intent, stated on runs: whatever the consumer (close, throw), the scheduler or the workers
    try, a stream that is never advanced by `next` never creates a pool -/
theorem never_advanced_no_pool (ls : List (Label ε)) (hn : Label.next ∉ ls)
    (hr : runLabels c xs tail f (PS.init p0 y0) ls = some s) :
    s.pool = .notCreated ∧ s.drawn = 0 ∧ s.cache = [] ∧
      (s.pc = .notStarted ∨ s.pc = .closed ∨ s.pc = .failed) := by
  have key : ∀ (ls : List (Label ε)) (s0 : PS β ε), Label.next ∉ ls →
      (s0.pool = .notCreated ∧ s0.drawn = 0 ∧ s0.cache = [] ∧
        (s0.pc = .notStarted ∨ s0.pc = .closed ∨ s0.pc = .failed)) →
      runLabels c xs tail f s0 ls = some s →
      s.pool = .notCreated ∧ s.drawn = 0 ∧ s.cache = [] ∧
        (s.pc = .notStarted ∨ s.pc = .closed ∨ s.pc = .failed) := by
    intro ls
    induction ls with
    | nil => intro s0 _ h0 hr; cases hr; exact h0
    | cons l ls ih =>
      intro s0 hn h0 hr
      simp only [runLabels] at hr
      cases h1 : step? c xs tail f s0 l with
      | none => rw [h1] at hr; cases hr
      | some s1 =>
        rw [h1] at hr
        refine ih s1 (fun h => hn (List.mem_cons_of_mem _ h)) ?_ hr
        obtain ⟨hp, hd, hc, hpc⟩ := h0
        cases l with
        | next => exact absurd List.mem_cons_self hn
        | close => rcases hpc with h | h | h <;> simp [step?, h] at h1 <;> subst h1 <;> simp [hp, hd, hc, h]
        | throw e => rcases hpc with h | h | h <;> simp [step?, h] at h1 <;> subst h1 <;> simp [hp, hd, hc]
        | draw => rcases hpc with h | h | h <;> simp [step?, h] at h1
        | get => rcases hpc with h | h | h <;> simp [step?, h] at h1
        | flush => rcases hpc with h | h | h <;> simp [step?, h] at h1
        | start i => simp [step?, hp] at h1
        | finish i => simp [step?, hp] at h1
  exact key ls (PS.init p0 y0) hn ⟨rfl, rfl, rfl, .inl rfl⟩ hr

theorem workers_only_with_pool {i : Nat}
    (h : step? c xs tail f s (.start i) = some s' ∨ step? c xs tail f s (.finish i) = some s') :
    s.pool = .alive := by
  rcases h with h | h <;> simp only [step?] at h <;> split at h
  · rename_i hc; exact hc.1
  · cases h
  · rename_i hc; exact hc.1
  · cases h

/-- and they never change the pool, the program point or anything delivered -/
theorem workers_touch_only_the_window {i : Nat}
    (h : step? c xs tail f s (.start i) = some s' ∨ step? c xs tail f s (.finish i) = some s') :
    s'.pool = s.pool ∧ s'.pc = s.pc ∧ s'.out = s.out ∧ s'.drawn = s.drawn ∧ s'.taken = s.taken := by
  rcases h with h | h <;> simp only [step?] at h <;> split at h <;> cases h <;> simp

/-! ### non-vacuity -/

def exCfg : Cfg := ⟨2, 0, true⟩
def exF (x : Nat) : Outcome Nat String := .val (some x)

/-- close while two tasks are running: the pool is terminated -/
example : (runLabels exCfg [1, 2, 3, 4] none exF (PS.init 0 0)
      [.next, .draw, .draw, .start 0, .start 1, .finish 0, .get, .close]).map
        (fun s => (s.pc, s.pool, s.cache))
    = some (.closed, .terminated, [(1, .running)]) := by decide

/-- close / throw on a fresh stream: no pool at all -/
example : (runLabels exCfg [1, 2] none exF (PS.init 0 0) [.close, .next]).map (fun s => (s.pc, s.pool))
    = some (.closed, .notCreated) := by decide
example : (runLabels exCfg [1, 2] none exF (PS.init 0 0) [.throw "x", .next]).map (fun s => (s.pc, s.pool, s.out))
    = some (.failed, .notCreated, [.raised "x"]) := by decide

/-- counterexample to the converse of `never_started_no_pool_partial`: an empty source that raises.
    The final state has `drawn = 0`, an empty window and `pc = failed`, yet a pool had been created;
    `throw "src"` on the fresh stream gives the same state except for `pool`. -/
example : runLabels exCfg ([] : List Nat) (some "src") exF (PS.init 0 0) [.next, .draw, .flush]
    = some ⟨.failed, 0, 0, [], [.raised "src"], .terminated, some "src", 0, 0⟩ := by decide
example : runLabels exCfg ([] : List Nat) (some "src") exF (PS.init 0 0) [.throw "src"]
    = some ⟨.failed, 0, 0, [], [.raised "src"], .notCreated, none, 0, 0⟩ := by decide

end Gpv.C04

#print axioms Gpv.C04.pool_scoped
#print axioms Gpv.C04.terminated_on_every_exit
#print axioms Gpv.C04.exit_pool
#print axioms Gpv.C04.done_pool_terminated
#print axioms Gpv.C04.never_started_no_pool_partial
#print axioms Gpv.C04.never_advanced_no_pool
#print axioms Gpv.C04.workers_only_with_pool
#print axioms Gpv.C04.workers_touch_only_the_window
