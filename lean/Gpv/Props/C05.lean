/-
  C05 — streaming accumulators equal the batch statistic (exact in any field of
  characteristic 0, hence in ℝ and executable in ℚ).

  Every `run` below is `List.foldl` of the executable one-observation update of
  `Gpv.Model.Accum` — the definitions the driver executes against the real code.
  The floating-point clause of C05 is NOT covered by these theorems (DESIGN §8).
-/
import Gpv.Spec.Stats
import Mathlib.Order.Defs.LinearOrder
import Mathlib.Algebra.Order.Field.Basic
import Mathlib.Data.List.Perm.Basic
import Mathlib.Algebra.BigOperators.Group.List.Lemmas
set_option linter.unusedSectionVars false

namespace Gpv.C05
open Gpv
variable {K : Type} [Field K] [CharZero K]

/-! ### Counter -/
theorem counter_eq {α : Type} (xs : List α) :
    (xs.foldl (fun s _ => s.push) Counter.init).n = xs.length := by
  suffices h : ∀ s : Counter, (xs.foldl (fun s _ => s.push) s).n = s.n + xs.length by
    simpa [Counter.init] using h Counter.init
  induction xs with
  | nil => simp
  | cons x xs ih =>
    intro s
    simp only [List.foldl_cons, List.length_cons]
    rw [ih]; simp only [Counter.push]; omega

/-! ### Mean -/
theorem mean_eq (xs : List K) (h : xs ≠ []) :
    (Mean.run xs).val = batchMean xs ∧ (Mean.run xs).n = xs.length :=
  ⟨Mean.run_val xs h, (Mean.run_inv xs).1⟩

/-- `.sum` read-out (holds for the empty accumulator too) -/
theorem mean_sum_eq (xs : List K) : (Mean.run xs).sum = xs.sum := by
  have := Mean.run_inv xs
  simp [Mean.sum, this.1, this.2]

/-! ### Variance (Welford) -/
theorem variance_inv (xs : List K) : (Variance.run xs).Inv xs := Variance.run_inv xs

theorem variance_mean_readout (xs : List K) (h : xs ≠ []) :
    (Variance.run xs).mean.val = batchMean xs ∧ (Variance.run xs).n = xs.length := by
  have hi := Variance.run_inv xs
  have hl : (xs.length : K) ≠ 0 := Nat.cast_ne_zero.mpr (by simpa using h)
  refine ⟨?_, hi.mean_n⟩
  rw [batchMean, eq_div_iff hl]; exact hi.mean_val

/-- `.rms` = Σ(x − x̄)² / n -/
theorem rms_eq (xs : List K) (h : xs ≠ []) :
    (Variance.run xs).rms = sumSqDev xs / (xs.length : K) := by
  have hi := Variance.run_inv xs
  have hl : (xs.length : K) ≠ 0 := Nat.cast_ne_zero.mpr (by simpa using h)
  rw [sumSqDev_eq xs h, Variance.rms, eq_div_iff hl]
  have := hi.var_val
  field_simp at this ⊢
  linear_combination this

/-- `.value` = sample variance with n−1 normalisation, for n ≥ 2 -/
theorem variance_eq (xs : List K) (h : 2 ≤ xs.length) :
    (Variance.run xs).value = .ok (batchVar xs) := by
  have hne : xs ≠ [] := by intro e; simp [e] at h
  have hi := Variance.run_inv xs
  have hl : (xs.length : K) ≠ 0 := Nat.cast_ne_zero.mpr (by omega)
  have hl1 : (xs.length : K) - 1 ≠ 0 := by
    have : ((xs.length - 1 : Nat) : K) ≠ 0 := Nat.cast_ne_zero.mpr (by omega)
    rwa [Nat.cast_sub (by omega), Nat.cast_one] at this
  have hn : xs.length ≠ 1 := by omega
  simp only [Variance.value, Variance.n, hi.mean_n, Nat.cast_one]
  rw [if_neg hn]
  congr 1
  rw [batchVar, sumSqDev_eq xs hne]
  have := hi.var_val
  field_simp at this ⊢
  linear_combination this

/-- the error branch: with exactly one observation the read-out divides by zero
    (`n / (n - 1)` on Python ints) -/
theorem variance_n1_error (x : K) : (Variance.run [x]).value = .error .zeroDiv := by
  simp [Variance.run, Variance.value, Variance.n, Variance.push, Variance.init, Mean.push, Mean.init]

/-! ### Covariance, entry (i,j) = the pair accumulator on components i and j -/
theorem cov_eq (ps : List (K × K)) (h : 2 ≤ ps.length) :
    (Cov2.run ps).value = .ok (batchCov ps) := by
  have hne : ps ≠ [] := by intro e; simp [e] at h
  have hi := Cov2.run_inv ps
  have hl : (ps.length : K) ≠ 0 := Nat.cast_ne_zero.mpr (by omega)
  have hl1 : (ps.length : K) - 1 ≠ 0 := by
    have : ((ps.length - 1 : Nat) : K) ≠ 0 := Nat.cast_ne_zero.mpr (by omega)
    rwa [Nat.cast_sub (by omega), Nat.cast_one] at this
  have hn : ps.length ≠ 1 := by omega
  simp only [Cov2.value, hi.mx_n, Nat.cast_one]
  rw [if_neg hn]
  congr 1
  rw [batchCov, sumProdDev_eq ps hne]
  have := hi.c_val
  field_simp at this ⊢
  linear_combination this

/-- the accumulated co-moment of (x,y) equals that of (y,x): the matrix is symmetric -/
theorem cov_symm (ps : List (K × K)) :
    (Cov2.run (ps.map Prod.swap)).c.val = (Cov2.run ps).c.val
      ∧ (Cov2.run (ps.map Prod.swap)).value = (Cov2.run ps).value := by
  have h1 := Cov2.run_inv ps
  have h2 := Cov2.run_inv (ps.map Prod.swap)
  have hval : (Cov2.run (ps.map Prod.swap)).c.val = (Cov2.run ps).c.val := by
    rcases Nat.eq_zero_or_pos ps.length with h0 | hpos
    · have : ps = [] := List.length_eq_zero_iff.mp h0
      subst this; rfl
    · have hl : (ps.length : K) ≠ 0 := Nat.cast_ne_zero.mpr (by omega)
      have a := h1.c_val
      have b := h2.c_val
      simp only [List.length_map, List.map_map] at b
      have e1 : (ps.map (Prod.fst ∘ Prod.swap)) = ps.map Prod.snd := by simp [Function.comp_def]
      have e2 : (ps.map (Prod.snd ∘ Prod.swap)) = ps.map Prod.fst := by simp [Function.comp_def]
      have e3 : sumProd (ps.map Prod.swap) = sumProd ps := by
        simp [sumProd, List.map_map, Function.comp_def, mul_comm]
      rw [e1, e2, e3] at b
      have : (Cov2.run (ps.map Prod.swap)).c.val * (ps.length : K) * (ps.length : K)
          = (Cov2.run ps).c.val * (ps.length : K) * (ps.length : K) := by rw [a, b]; ring
      exact mul_right_cancel₀ hl (mul_right_cancel₀ hl this)
  refine ⟨hval, ?_⟩
  simp only [Cov2.value, h1.mx_n, h2.mx_n, List.length_map, hval]

/-- the diagonal of the covariance is the variance: the pair accumulator fed (x,x)
    is, state for state, the Variance accumulator fed x -/
theorem cov_diag_eq_variance (xs : List K) :
    (Cov2.run (xs.map fun x => (x, x))).mx = (Variance.run xs).mean
      ∧ (Cov2.run (xs.map fun x => (x, x))).my = (Variance.run xs).mean
      ∧ (Cov2.run (xs.map fun x => (x, x))).c = (Variance.run xs).var
      ∧ (Cov2.run (xs.map fun x => (x, x))).value = (Variance.run xs).value := by
  have key : (Cov2.run (xs.map fun x => (x, x))).mx = (Variance.run xs).mean
      ∧ (Cov2.run (xs.map fun x => (x, x))).my = (Variance.run xs).mean
      ∧ (Cov2.run (xs.map fun x => (x, x))).c = (Variance.run xs).var := by
    induction xs using List.reverseRec with
    | nil => exact ⟨rfl, rfl, rfl⟩
    | append_singleton xs x ih =>
      obtain ⟨a, b, c⟩ := ih
      rw [List.map_append, List.map_singleton, Cov2.run_snoc, Variance.run_snoc]
      simp only [Cov2.push, Variance.push, a, b, c, and_self]
  obtain ⟨a, b, c⟩ := key
  refine ⟨a, b, c, ?_⟩
  simp only [Cov2.value, Variance.value, Variance.n, a, c]
  rfl

/-! ### Minimum / Maximum -/
section order
variable {L : Type} [LinearOrder L]

def minRun (xs : List L) : Extremum L := xs.foldl (Extremum.push kmin) Extremum.init
def maxRun (xs : List L) : Extremum L := xs.foldl (Extremum.push kmax) Extremum.init

theorem kmin_eq (a b : L) : kmin a b = min a b := by
  unfold kmin; split <;> rename_i h
  · exact (min_eq_right (le_of_lt h)).symm
  · exact (min_eq_left (not_lt.mp h)).symm
theorem kmax_eq (a b : L) : kmax a b = max a b := by
  unfold kmax; split <;> rename_i h
  · exact (max_eq_right (le_of_lt h)).symm
  · exact (max_eq_left (not_lt.mp h)).symm

theorem ext_run_aux (op : L → L → L) (xs : List L) (s : Extremum L) :
    (xs.foldl (Extremum.push op) s).n = s.n + xs.length ∧
    (xs.foldl (Extremum.push op) s).acc =
      match s.acc, xs with
      | none, [] => none
      | none, x :: t => some (t.foldl op x)
      | some a, l => some (l.foldl op a) := by
  induction xs generalizing s with
  | nil => cases h : s.acc <;> simp [h]
  | cons x xs ih =>
    simp only [List.foldl_cons, List.length_cons]
    obtain ⟨h1, h2⟩ := ih (Extremum.push op s x)
    refine ⟨by rw [h1]; cases h : s.acc <;> simp [Extremum.push, h] <;> omega, ?_⟩
    rw [h2]
    cases h : s.acc <;> simp [Extremum.push, h]

/-- the reported minimum is an element of the sequence and a lower bound of it
    (so it is *the* minimum), and `n` is the length -/
theorem min_eq (xs : List L) (h : xs ≠ []) :
    ∃ m, (minRun xs).acc = some m ∧ m ∈ xs ∧ (∀ x ∈ xs, m ≤ x) ∧ (minRun xs).n = xs.length := by
  obtain ⟨x, t, rfl⟩ := List.exists_cons_of_ne_nil h
  have := ext_run_aux kmin (x :: t) Extremum.init
  simp only [Extremum.init] at this
  refine ⟨t.foldl kmin x, by simpa [minRun, Extremum.init] using this.2, ?_, ?_, by
    simpa [minRun, Extremum.init] using this.1⟩
  · clear this h
    induction t generalizing x with
    | nil => simp
    | cons y t ih =>
      simp only [List.foldl_cons]
      rcases List.mem_cons.mp (ih (kmin x y)) with e | e
      · rw [e, kmin_eq]; rcases min_choice x y with c | c <;> simp [c]
      · simp [e]
  · clear this h
    induction t generalizing x with
    | nil => simp
    | cons y t ih =>
      intro z hz
      simp only [List.foldl_cons]
      have hk := ih (kmin x y)
      have hle : t.foldl kmin (kmin x y) ≤ kmin x y := hk _ (by simp)
      rw [kmin_eq] at hle hk
      rcases List.mem_cons.mp hz with e | e
      · rw [e, kmin_eq]; exact le_trans hle (min_le_left _ _)
      · rcases List.mem_cons.mp e with e | e
        · rw [e, kmin_eq]; exact le_trans hle (min_le_right _ _)
        · rw [kmin_eq]; exact hk z (by simp [e])

theorem max_eq (xs : List L) (h : xs ≠ []) :
    ∃ m, (maxRun xs).acc = some m ∧ m ∈ xs ∧ (∀ x ∈ xs, x ≤ m) ∧ (maxRun xs).n = xs.length := by
  obtain ⟨x, t, rfl⟩ := List.exists_cons_of_ne_nil h
  have := ext_run_aux kmax (x :: t) Extremum.init
  simp only [Extremum.init] at this
  refine ⟨t.foldl kmax x, by simpa [maxRun, Extremum.init] using this.2, ?_, ?_, by
    simpa [maxRun, Extremum.init] using this.1⟩
  · clear this h
    induction t generalizing x with
    | nil => simp
    | cons y t ih =>
      simp only [List.foldl_cons]
      rcases List.mem_cons.mp (ih (kmax x y)) with e | e
      · rw [e, kmax_eq]; rcases max_choice x y with c | c <;> simp [c]
      · simp [e]
  · clear this h
    induction t generalizing x with
    | nil => simp
    | cons y t ih =>
      intro z hz
      simp only [List.foldl_cons]
      have hk := ih (kmax x y)
      have hle : kmax x y ≤ t.foldl kmax (kmax x y) := hk _ (by simp)
      rw [kmax_eq] at hle hk
      rcases List.mem_cons.mp hz with e | e
      · rw [e, kmax_eq]; exact le_trans (le_max_left _ _) hle
      · rcases List.mem_cons.mp e with e | e
        · rw [e, kmax_eq]; exact le_trans (le_max_right _ _) hle
        · rw [kmax_eq]; exact hk z (by simp [e])

/-- all orders of arrival give the same minimum and count -/
theorem min_perm (xs ys : List L) (hp : xs.Perm ys) : minRun xs = minRun ys := by
  rcases xs with _ | ⟨x, t⟩
  · rw [List.nil_perm.mp hp]
  · have hy : ys ≠ [] := by intro e; rw [e] at hp; exact absurd (List.perm_nil.mp hp) (by simp)
    obtain ⟨m, hm, hmem, hle, hn⟩ := min_eq (x :: t) (by simp)
    obtain ⟨m', hm', hmem', hle', hn'⟩ := min_eq ys hy
    have : m = m' := le_antisymm (hle _ (hp.mem_iff.mpr hmem')) (hle' _ (hp.mem_iff.mp hmem))
    cases h1 : minRun (x :: t); cases h2 : minRun ys
    simp_all [hp.length_eq]

theorem max_perm (xs ys : List L) (hp : xs.Perm ys) : maxRun xs = maxRun ys := by
  rcases xs with _ | ⟨x, t⟩
  · rw [List.nil_perm.mp hp]
  · have hy : ys ≠ [] := by intro e; rw [e] at hp; exact absurd (List.perm_nil.mp hp) (by simp)
    obtain ⟨m, hm, hmem, hle, hn⟩ := max_eq (x :: t) (by simp)
    obtain ⟨m', hm', hmem', hle', hn'⟩ := max_eq ys hy
    have : m = m' := le_antisymm (hle' _ (hp.mem_iff.mp hmem)) (hle _ (hp.mem_iff.mpr hmem'))
    cases h1 : maxRun (x :: t); cases h2 : maxRun ys
    simp_all [hp.length_eq]
end order

/-! ### all orders of arrival -/
theorem mean_perm (xs ys : List K) (hp : xs.Perm ys) : Mean.run xs = Mean.run ys := by
  rcases xs with _ | ⟨x, t⟩
  · rw [List.nil_perm.mp hp]
  · have hy : ys ≠ [] := by intro e; rw [e] at hp; exact absurd (List.perm_nil.mp hp) (by simp)
    have a := mean_eq (x :: t) (by simp)
    have b := mean_eq ys hy
    cases h1 : Mean.run (x :: t); cases h2 : Mean.run ys
    simp only [h1, h2, batchMean] at a b
    simp only [Mean.mk.injEq]
    exact ⟨by rw [a.1, b.1, hp.sum_eq, hp.length_eq], by rw [a.2, b.2, hp.length_eq]⟩

theorem variance_perm (xs ys : List K) (hp : xs.Perm ys) : Variance.run xs = Variance.run ys := by
  rcases xs with _ | ⟨x, t⟩
  · rw [List.nil_perm.mp hp]
  · have hy : ys ≠ [] := by intro e; rw [e] at hp; exact absurd (List.perm_nil.mp hp) (by simp)
    have a := Variance.run_inv (x :: t)
    have b := Variance.run_inv ys
    have hl : (((x :: t).length : Nat) : K) ≠ 0 := Nat.cast_ne_zero.mpr (by simp)
    have hsq : sumSq (x :: t) = sumSq ys := by
      unfold sumSq; exact (hp.map _).sum_eq
    have e1 : (Variance.run (x :: t)).mean.val = (Variance.run ys).mean.val := by
      have := a.mean_val; have := b.mean_val
      rw [← hp.length_eq, ← hp.sum_eq] at this
      exact mul_right_cancel₀ hl (by rw [a.mean_val, this])
    have e2 : (Variance.run (x :: t)).var.val = (Variance.run ys).var.val := by
      have h2 := b.var_val
      rw [← hp.length_eq, ← hp.sum_eq, ← hsq] at h2
      exact mul_right_cancel₀ hl (mul_right_cancel₀ hl (by rw [a.var_val, h2]))
    cases h1 : Variance.run (x :: t) with | mk m1 v1 => 
    cases h2 : Variance.run ys with | mk m2 v2 =>
    cases m1; cases v1; cases m2; cases v2
    have an := a.mean_n; have av := a.var_n; have bn := b.mean_n; have bv := b.var_n
    simp_all [hp.length_eq]

/-! ### non-vacuity: concrete runs in ℚ -/
example : (Variance.run ([1, 2, 4] : List ℚ)).value = .ok (7 / 3) := by
  rw [variance_eq _ (by simp)]; norm_num [batchVar, sumSqDev, batchMean]
example : (Cov2.run ([(1, 2), (3, 5/2), (0, 1)] : List (ℚ × ℚ))).value = .ok (13 / 12) := by
  rw [cov_eq _ (by simp)]; norm_num [batchCov, sumProdDev, batchMean]

end Gpv.C05
