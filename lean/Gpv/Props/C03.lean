/-
  C03 — failure transparency: a failing call (or a failing source) surfaces as exactly
  that exception, after exactly the results of the elements before it, and the stream
  is finished afterwards: `next` keeps answering "finished", nothing is delivered later.
  The failure clause is part of `spec`, so for the parallel mode this is `C01.par_final`
  specialised; the shapes of `spec` at a failure are proved here.
-/
import Gpv.Proofs.PipelineInv
import Gpv.Proofs.PipelineRun

namespace Gpv.C03
open Gpv Gpv.Pipe
variable {α β ε : Type}
variable {c : Cfg} {xs : List α} {tail : Option ε} {f : α → Outcome β ε} {p0 y0 : Nat} {s s' : PS β ε}

/-! ### the shape of the specification at a failure -/

theorem failure_prefix_then_exception (c : Cfg) (f : α → Outcome β ε) (tail : Option ε) :
    (∀ (pre post : List α) (x : α) (e : ε), NoErr f pre → f x = .err e →
        spec c f tail (pre ++ x :: post) = emit c f pre ++ [.raised e]) ∧
    (∀ (xs : List α) (e : ε), NoErr f xs → tail = some e →
        spec c f tail xs = emit c f xs ++ [.raised e]) := by
  refine ⟨fun pre post x e hpre hx => spec_err c f tail pre post x e hpre hx, ?_⟩
  intro xs e h ht
  subst ht
  exact spec_noerr c f (some e) xs h

/-- on a failure-free prefix `emit` is the ordered, None-filtered list of the results -/
theorem emit_eq_filterMap (c : Cfg) (f : α → Outcome β ε) (pre : List α) (h : NoErr f pre) :
    emit c f pre = pre.filterMap fun x => match f x with
      | .val v => if keep c v then some (Obs.value v) else none
      | .err _ => none := by
  induction pre with
  | nil => rfl
  | cons x pre ih =>
    obtain ⟨⟨v, hv⟩, h'⟩ := NoErr.cons_iff.1 h
    by_cases hk : keep c v = true <;> simp [emit, hv, hk, ih h']

/-- parallel mode, any schedule: the consumer that keeps calling `next` ends with the prefix
    and then exactly the failing call's exception -/
theorem parallel_function_failure (h : ReachN c xs tail f p0 y0 s) (hfin : s.pc = .done ∨ s.pc = .failed)
    {pre post : List α} {x : α} {e : ε} (hxs : xs = pre ++ x :: post) (hpre : NoErr f pre) (hx : f x = .err e) :
    s.out = emit c f pre ++ [.raised e] := by
  rw [h.pinv.fin hfin, hxs]; exact spec_err c f tail pre post x e hpre hx

/-- the same for an exception of the source itself: every result first (the window is flushed) -/
theorem parallel_source_failure (h : ReachN c xs tail f p0 y0 s) (hfin : s.pc = .done ∨ s.pc = .failed)
    {e : ε} (hall : NoErr f xs) (ht : tail = some e) : s.out = emit c f xs ++ [.raised e] := by
  rw [h.pinv.fin hfin]; subst ht; exact spec_noerr c f (some e) xs hall

/-- and it can only have ended in `failed` then: a stream with a failure never reports a normal end -/
theorem parallel_failure_not_done (h : ReachN c xs tail f p0 y0 s)
    {pre post : List α} {x : α} {e : ε} (hxs : xs = pre ++ x :: post) (hpre : NoErr f pre) (hx : f x = .err e) :
    s.pc ≠ .done := by
  intro hd
  have h1 := parallel_function_failure h (.inl hd) hxs hpre hx
  have h2 := h.pinv.out_done hd
  rw [h1] at h2
  have := congrArg List.getLast? h2
  simp at this

/-! ### the source is never asked again -/

/-- the part of the generator after the source has ended or failed (flush phase) and the final states -/
def afterSource (s : PS β ε) : Prop := s.pc.inFlush = true ∨ s.isFinal = true

/-- once the source has ended or raised, no step leads back into the loop and `draw` is never enabled again:
    a source that could go on after its exception (a reader that skips a bad record) is never asked a second time -/
theorem source_never_asked_again {l : Label ε} (ha : afterSource s) (hs : step? c xs tail f s l = some s') :
    afterSource s' ∧ l ≠ .draw := by
  unfold afterSource at *
  have hfin : ∀ t : PS β ε, t.isFinal = true ↔ (t.pc = .done ∨ t.pc = .failed ∨ t.pc = .closed) := by
    intro t; cases h : t.pc <;> simp [PS.isFinal, h]
  rw [hfin] at ha ⊢
  cases l with
  | next =>
    cases hpc : s.pc <;> simp [step?, hpc, PC.inFlush] at hs ha <;> subst hs <;> simp [PC.inFlush, hpc]
  | close =>
    cases hpc : s.pc <;> simp [step?, hpc, PC.inFlush] at hs ha <;> subst hs <;> simp [PC.inFlush, hpc]
  | throw e =>
    cases hpc : s.pc <;> simp [step?, hpc, PC.inFlush] at hs ha <;> subst hs <;> simp [PC.inFlush, hpc]
  | draw =>
    cases hpc : s.pc <;> simp [step?, hpc, PC.inFlush] at hs ha
  | get =>
    cases hpc : s.pc <;> simp [step?, hpc, PC.inFlush] at hs ha
    obtain ⟨i, rest, x, -, -, h | h | h⟩ := getStep_some hs
    · obtain ⟨v, -, -, rfl⟩ := h; simp [PC.inFlush]
    · obtain ⟨v, -, -, rfl⟩ := h; simp [PC.inFlush]
    · obtain ⟨e, -, rfl⟩ := h; simp [PC.inFlush]
  | flush =>
    cases hpc : s.pc <;> simp [step?, hpc, PC.inFlush] at hs ha
    split at hs
    · split at hs <;> (cases hs; simp [PC.inFlush])
    · cases hs; simp [PC.inFlush]
  | start i =>
    simp only [step?] at hs
    split at hs
    · cases hs; exact ⟨ha, by simp⟩
    · cases hs
  | finish i =>
    simp only [step?] at hs
    split at hs
    · cases hs; exact ⟨ha, by simp⟩
    · cases hs

/-- the draw that finds the source ended or failed leads into that part -/
theorem end_of_source_enters_flush (hs : step? c xs tail f s .draw = some s') (hend : ¬ s.drawn < xs.length) :
    afterSource s' ∧ s'.pending = tail ∧ s'.drawn = s.drawn := by
  simp only [step?, if_neg hend] at hs
  split at hs
  · cases hs; simp [afterSource, PC.inFlush]
  · cases hs

/-- no step after the end of the source changes the number of elements drawn -/
theorem drawn_unchanged_after_source {l : Label ε} (ha : afterSource s) (hs : step? c xs tail f s l = some s') :
    s'.drawn = s.drawn := by
  have hnd := (source_never_asked_again ha hs).2
  cases l with
  | draw => exact absurd rfl hnd
  | next => cases hpc : s.pc <;> simp [step?, hpc] at hs <;> (try subst hs) <;> rfl
  | close => cases hpc : s.pc <;> simp [step?, hpc] at hs <;> (try subst hs) <;> rfl
  | throw e => cases hpc : s.pc <;> simp [step?, hpc] at hs <;> (try subst hs) <;> rfl
  | get =>
    cases hpc : s.pc <;> simp [step?, hpc] at hs
    all_goals (obtain ⟨i, rest, x, -, -, h | h | h⟩ := getStep_some hs)
    all_goals first
      | (obtain ⟨v, -, -, rfl⟩ := h; rfl)
      | (obtain ⟨e, -, rfl⟩ := h; rfl)
  | flush =>
    simp only [step?] at hs
    split at hs
    · split at hs
      · split at hs <;> (cases hs; rfl)
      · cases hs; rfl
    · cases hs
  | start i =>
    simp only [step?] at hs
    split at hs
    · cases hs; rfl
    · cases hs
  | finish i =>
    simp only [step?] at hs
    split at hs
    · cases hs; rfl
    · cases hs

/-- hence over any continuation: the number of elements drawn never changes again -/
theorem drawn_frozen_after_source (ha : afterSource s) (ls : List (Label ε))
    (hr : runLabels c xs tail f s ls = some s') : s'.drawn = s.drawn ∧ afterSource s' := by
  induction ls generalizing s with
  | nil => cases hr; exact ⟨rfl, ha⟩
  | cons l ls ih =>
    simp only [runLabels] at hr
    cases h1 : step? c xs tail f s l with
    | none => rw [h1] at hr; cases hr
    | some s1 =>
      rw [h1] at hr
      have ha1 := (source_never_asked_again ha h1).1
      have hd1 := drawn_unchanged_after_source ha h1
      obtain ⟨e2, ha2⟩ := ih ha1 hr
      exact ⟨e2.trans hd1, ha2⟩

/-! ### after the end -/

theorem finished_after_failure (hfin : s.isFinal = true) : step? c xs tail f s .next = some s := by
  cases hpc : s.pc <;> simp_all [PS.isFinal, step?]

theorem final_step_eq (h : Reach c xs tail f p0 y0 s) (hfin : s.isFinal = true) {l : Label ε}
    (hs : step? c xs tail f s l = some s') : s' = s := by
  have g := h.ginv
  have hnb : s.pc.inBody = false := by cases hpc : s.pc <;> simp_all [PS.isFinal, PC.inBody]
  have hpool : s.pool ≠ .alive := by
    intro hp; have := g.pool_alive.1 hp; rw [hnb] at this; cases this
  cases l with
  | next => rw [finished_after_failure hfin] at hs; exact (Option.some.inj hs).symm
  | close => cases hpc : s.pc <;> simp_all [PS.isFinal, step?]
  | throw e => cases hpc : s.pc <;> simp_all [PS.isFinal, step?]
  | draw => cases hpc : s.pc <;> simp_all [PS.isFinal, step?]
  | get => cases hpc : s.pc <;> simp_all [PS.isFinal, step?]
  | flush => cases hpc : s.pc <;> simp_all [PS.isFinal, step?]
  | start i => simp [step?, hpool] at hs
  | finish i => simp [step?, hpool] at hs

/-- whatever the consumer, the workers or the scheduler do after the end: nothing is delivered -/
theorem no_later_output (h : Reach c xs tail f p0 y0 s) (hfin : s.isFinal = true) {l : Label ε}
    (hs : step? c xs tail f s l = some s') : s'.out = s.out ∧ s'.isFinal = true := by
  rw [final_step_eq h hfin hs]; exact ⟨rfl, hfin⟩

theorem no_later_output_run (h : Reach c xs tail f p0 y0 s) (hfin : s.isFinal = true) (ls : List (Label ε))
    (hr : runLabels c xs tail f s ls = some s') : s' = s := by
  induction ls with
  | nil => exact (Option.some.inj hr).symm
  | cons l ls ih =>
    simp only [runLabels] at hr
    cases h1 : step? c xs tail f s l with
    | none => rw [h1] at hr; cases hr
    | some s1 =>
      rw [h1] at hr
      have := final_step_eq h hfin h1
      subst this
      exact ih hr

/-! ### non-vacuity: window of 3, the second call fails while two later tasks are already running -/

def exCfg : Cfg := ⟨2, 1, false⟩
def exF (x : Nat) : Outcome Nat String := if x = 2 then .err "boom" else .val (some (10 * x))
def exRun : List (Label String) :=
  [.next, .draw, .draw, .draw, .start 2, .start 0, .finish 1, .finish 0, .get, .next, .draw, .get]

example : runLabels exCfg [1, 2, 3, 4, 5] none exF (PS.init 0 0) exRun
    = some ⟨.failed, 4, 1, [(2, .running), (3, .queued)], [.value (some 10), .raised "boom"],
            .terminated, none, 1, 1⟩ := by decide

example : spec exCfg exF none [1, 2, 3, 4, 5] = [.value (some 10), .raised "boom"] := by decide

/-- afterwards: `next` is answered with the end of the stream, the workers cannot move -/
example : (runLabels exCfg [1, 2, 3, 4, 5] none exF (PS.init 0 0) (exRun ++ [.next, .next])).map (·.out)
    = some [.value (some 10), .raised "boom"] := by decide
example : (runLabels exCfg [1, 2, 3, 4, 5] none exF (PS.init 0 0) (exRun ++ [.finish 2])) = none := by decide

/-- a failing source: the window is flushed first -/
example : (runLabels exCfg [1] (some "src") exF (PS.init 0 0)
      [.next, .draw, .draw, .flush, .start 0, .finish 0, .get, .next, .flush]).map (fun s => (s.pc, s.out))
    = some (.failed, [.value (some 10), .raised "src"]) := by decide

end Gpv.C03

#print axioms Gpv.C03.failure_prefix_then_exception
#print axioms Gpv.C03.emit_eq_filterMap
#print axioms Gpv.C03.parallel_function_failure
#print axioms Gpv.C03.parallel_source_failure
#print axioms Gpv.C03.parallel_failure_not_done
#print axioms Gpv.C03.finished_after_failure
#print axioms Gpv.C03.final_step_eq
#print axioms Gpv.C03.no_later_output
#print axioms Gpv.C03.no_later_output_run
#print axioms Gpv.C03.source_never_asked_again
#print axioms Gpv.C03.end_of_source_enters_flush
#print axioms Gpv.C03.drawn_unchanged_after_source
#print axioms Gpv.C03.drawn_frozen_after_source
