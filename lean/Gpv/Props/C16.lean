/-
  C16 — CacheAccumulator / CacheMaximum (accumulators.py:344-473).

  `CacheAcc.run L ps` / `CacheMax.run L timeout es` are `List.foldl` of the executable
  one-observation updates `CacheAcc.push` / `CacheMax.push` of `Gpv.Model.Cache`, started from
  `init` — the definitions the driver executes against the real code.  Time stamps are explicit
  inputs (the code reads a clock / calls `time_key`).

  * CacheAccumulator: the read-out is the last `min n L` observations in arrival order; merging
    two caches that saw time-ordered streams is *equal* to one cache that saw the stable
    time-ordered interleaving `mergeByTime` of both streams (no hypothesis on `L` is needed).
  * CacheMaximum: size `min n L`, count `n`, retained ⊆ seen for every timeout; without timeout
    the retained entries dominate all dropped ones in the `(key, time)` order, hence the retained
    keys are the `min n L` largest keys (ties included, no distinctness needed at key level);
    they do not depend on the arrival order; the repaired `merge` retains the keys one cache
    would retain after seeing both streams, the pinned `mergePinned` does not.
-/
import Gpv.Proofs.CacheAlg
set_option linter.unusedSectionVars false

namespace Gpv.C16
open Gpv List

/-! ## CacheAccumulator -/
section Acc
variable {α : Type}

/-- (1) after the observations `ps` the cache reports the last `min n L` objects in arrival
    order, `n` counts all of them, and the deque content is the last `L` `(time, obj)` pairs.
    (Holds for every `L`, also `L = 0`; the hypothesis `1 ≤ L` of the plan is not needed.) -/
theorem cacheacc_value (L : Nat) (ps : List (Nat × α)) :
    (CacheAcc.run L ps).value = takeLast (min ps.length L) (ps.map Prod.snd) ∧
    (CacheAcc.run L ps).n = ps.length ∧
    (CacheAcc.run L ps).items = takeLast L ps := by
  obtain ⟨_, hn, hi⟩ := CacheAcc.run_spec L ps
  refine ⟨?_, hn, hi⟩
  rw [CacheAcc.value, hi, ← takeLast_map, ← length_map (as := ps) Prod.snd, takeLast_min]

/-- the number of reported observations is `min n L` -/
theorem cacheacc_value_length (L : Nat) (ps : List (Nat × α)) :
    (CacheAcc.run L ps).value.length = min ps.length L := by
  rw [CacheAcc.value, length_map, (cacheacc_value L ps).2.2, length_takeLast]

/-- `mergeByTime` (= `heapq.merge(…, key=time)`) of two time-sorted streams is time-sorted, a
    permutation of both streams, and stable: among equal time stamps the receiver's elements come
    first and each side keeps its order. -/
theorem mergeByTime_sorted (as bs : List (Nat × α))
    (ha : as.Pairwise (fun a b => a.1 ≤ b.1)) (hb : bs.Pairwise (fun a b => a.1 ≤ b.1)) :
    (mergeByTime as bs).Pairwise (fun a b => a.1 ≤ b.1) ∧
    (mergeByTime as bs).Perm (as ++ bs) ∧
    ∀ t, (mergeByTime as bs).filter (fun p => p.1 = t)
          = as.filter (fun p => p.1 = t) ++ bs.filter (fun p => p.1 = t) :=
  ⟨mergeByTime_timeSorted as bs ha hb, mergeByTime_perm as bs, mergeByTime_stable as bs ha⟩

/-- both streams survive the merge in their own order (no sortedness needed) -/
theorem mergeByTime_sublists (as bs : List (Nat × α)) :
    as.Sublist (mergeByTime as bs) ∧ bs.Sublist (mergeByTime as bs) :=
  ⟨mergeByTime_sublist_left as bs, mergeByTime_sublist_right as bs⟩

/-- key lemma: the last `L` of the merge only depend on the last `L` of each stream -/
theorem takeLast_mergeByTime (L : Nat) (as bs : List (Nat × α))
    (ha : as.Pairwise (fun a b => a.1 ≤ b.1)) (hb : bs.Pairwise (fun a b => a.1 ≤ b.1)) :
    takeLast L (mergeByTime (takeLast L as) (takeLast L bs)) = takeLast L (mergeByTime as bs) :=
  takeLast_mergeByTime_takeLast L as bs ha hb

/-- (2) merging two caches of the same length that saw time-ordered streams gives exactly the
    cache that saw the time-ordered interleaving of both streams; the counts add.
    (Again no hypothesis on `L`.) -/
theorem cacheacc_merge (L : Nat) (as bs : List (Nat × α))
    (ha : as.Pairwise (fun a b => a.1 ≤ b.1)) (hb : bs.Pairwise (fun a b => a.1 ≤ b.1)) :
    let m := (CacheAcc.run L as).merge (CacheAcc.run L bs)
    m.items = takeLast L (mergeByTime as bs) ∧ m.n = as.length + bs.length ∧
    m.items = (CacheAcc.run L (mergeByTime as bs)).items ∧
    m.n = (CacheAcc.run L (mergeByTime as bs)).n ∧
    m = CacheAcc.run L (mergeByTime as bs) := by
  obtain ⟨la, na, ia⟩ := CacheAcc.run_spec L as
  obtain ⟨lb, nb, ib⟩ := CacheAcc.run_spec L bs
  obtain ⟨lm, nm, im⟩ := CacheAcc.run_spec L (mergeByTime as bs)
  have hlen : (mergeByTime as bs).length = as.length + bs.length := by
    rw [(mergeByTime_perm as bs).length_eq, length_append]
  have hi : ((CacheAcc.run L as).merge (CacheAcc.run L bs)).items
      = takeLast L (mergeByTime as bs) := by
    simp only [CacheAcc.merge, la, ia, ib]
    exact takeLast_mergeByTime L as bs ha hb
  have hn : ((CacheAcc.run L as).merge (CacheAcc.run L bs)).n = as.length + bs.length := by
    simp only [CacheAcc.merge, na, nb]
  have hl : ((CacheAcc.run L as).merge (CacheAcc.run L bs)).length = L := by
    simp only [CacheAcc.merge, la]
  refine ⟨hi, hn, by rw [hi, im], by rw [hn, nm, hlen], ?_⟩
  rcases hm : (CacheAcc.run L as).merge (CacheAcc.run L bs) with ⟨l1, i1, n1⟩
  rcases hr : CacheAcc.run L (mergeByTime as bs) with ⟨l2, i2, n2⟩
  rw [hm] at hi hn hl; rw [hr] at lm nm im
  simp only at hi hn hl lm nm im
  rw [hi, hn, hl, lm, nm, im, hlen]

/-- the merged read-out: the last `min (n₁+n₂) L` objects of the interleaved stream -/
theorem cacheacc_merge_value (L : Nat) (as bs : List (Nat × α))
    (ha : as.Pairwise (fun a b => a.1 ≤ b.1)) (hb : bs.Pairwise (fun a b => a.1 ≤ b.1)) :
    ((CacheAcc.run L as).merge (CacheAcc.run L bs)).value
      = takeLast (min (as.length + bs.length) L) ((mergeByTime as bs).map Prod.snd) := by
  have h : (CacheAcc.run L as).merge (CacheAcc.run L bs) = CacheAcc.run L (mergeByTime as bs) :=
    (cacheacc_merge L as bs ha hb).2.2.2.2
  rw [h, (cacheacc_value L _).1, (mergeByTime_perm as bs).length_eq, length_append]

end Acc

/-! ## CacheMaximum -/
section Max
variable {α : Type} [DecidableEq α]

/-- (3) for every timeout setting (and every `L`, also `L = 0`): exactly `min n L` entries are
    retained and `n` counts all observations -/
theorem cachemax_size (L : Nat) (tmo : Option Nat) (es : List (CMEntry α)) :
    (CacheMax.run L tmo es).items.length = min es.length L ∧ (CacheMax.run L tmo es).n = es.length :=
  ⟨(CacheMax.run_inv L tmo es).size, (CacheMax.run_inv L tmo es).n⟩

/-- (3) every retained entry was seen (any timeout) -/
theorem cachemax_subset (L : Nat) (tmo : Option Nat) (es : List (CMEntry α)) :
    ∀ r ∈ (CacheMax.run L tmo es).items, r ∈ es :=
  (CacheMax.run_inv L tmo es).sub

/-- `length` and `timeout` are never changed -/
theorem cachemax_params (L : Nat) (tmo : Option Nat) (es : List (CMEntry α)) :
    (CacheMax.run L tmo es).length = L ∧ (CacheMax.run L tmo es).timeout = tmo :=
  ⟨(CacheMax.run_inv L tmo es).len, (CacheMax.run_inv L tmo es).tmo⟩

/-- (4, general form — no distinctness needed) without timeout the observations split, as a
    multiset, into the retained entries and dropped entries, and no dropped entry is above a
    retained one in the lexicographic `(key, time)` order; in particular its key is `≤`. -/
theorem cachemax_split (L : Nat) (es : List (CMEntry α)) :
    ∃ dropped, es.Perm ((CacheMax.run L none es).items ++ dropped) ∧
      (CacheMax.run L none es).items.length = min es.length L ∧
      (∀ r ∈ (CacheMax.run L none es).items, ∀ d ∈ dropped, ¬ r.lt d = true) ∧
      (∀ r ∈ (CacheMax.run L none es).items, ∀ d ∈ dropped, d.key ≤ r.key) := by
  obtain ⟨dropped, hp, hc⟩ := CacheMax.run_split L es
  exact ⟨dropped, hp, (cachemax_size L none es).1, hc,
    fun r hr d hd => CMEntry.key_le_of_not_lt (hc r hr d hd)⟩

private theorem pairwise_forall_ne {β : Type} {R : β → β → Prop} (hsym : ∀ a b, R a b → R b a) :
    ∀ {l : List β}, l.Pairwise R → ∀ a ∈ l, ∀ b ∈ l, a ≠ b → R a b
  | [], _, a, ha, _, _, _ => by simp at ha
  | x :: xs, h, a, ha, b, hb, hne => by
    rcases mem_cons.1 ha with ea | ha' <;> rcases mem_cons.1 hb with eb | hb'
    · exact absurd (ea.trans eb.symm) hne
    · exact ea ▸ rel_of_pairwise_cons h hb'
    · exact eb ▸ hsym _ _ (rel_of_pairwise_cons h ha')
    · exact pairwise_forall_ne hsym h.tail a ha' b hb' hne

/-- (4) without timeout, if the `(key, time)` pairs of the observations are pairwise distinct
    (the input restriction of the harness; needed for the *strict* statement only), exactly
    `min n L` entries are retained and every observation that is not retained is strictly below
    every retained one in the `(key, time)` order: the retained entries are the `min n L`
    largest. -/
theorem cachemax_topk (L : Nat) (es : List (CMEntry α))
    (hd : es.Pairwise (fun a b => ¬ (a.key = b.key ∧ a.time = b.time))) :
    (CacheMax.run L none es).items.length = min es.length L ∧
    ∀ r ∈ (CacheMax.run L none es).items, ∀ e ∈ es, e ∉ (CacheMax.run L none es).items →
      e.lt r = true := by
  refine ⟨(cachemax_size L none es).1, ?_⟩
  obtain ⟨dropped, hp, _, hc, _⟩ := cachemax_split L es
  intro r hr e he hne
  have hed : e ∈ dropped := by
    rcases mem_append.1 (hp.subset he) with h | h
    · exact absurd h hne
    · exact h
  have hrs : r ∈ es := cachemax_subset L none es r hr
  have hner : e ≠ r := fun h => hne (h ▸ hr)
  have hdist := pairwise_forall_ne (R := fun a b : CMEntry α => ¬ (a.key = b.key ∧ a.time = b.time))
    (fun a b h h' => h ⟨h'.1.symm, h'.2.symm⟩) hd e he r hrs hner
  have hle := hc r hr e hed
  rw [CMEntry.not_lt_iff] at hle
  rw [CMEntry.lt_iff]
  omega

/-- (4) "listed monotonically by key": the read-out of *any* cache state is non-decreasing -/
theorem keys_sorted (s : CacheMax α) : s.keys.Pairwise (· ≤ ·) := s.keys_sorted'

/-- the read-out lists exactly the keys of the retained entries -/
theorem keys_perm (s : CacheMax α) : s.keys.Perm (s.items.map (·.key)) := s.keys_perm

/-- (4) the retained keys are the last (= largest) `min n L` elements of the ascending sort of all
    keys seen.  No distinctness hypothesis: ties in the key are counted with multiplicity. -/
theorem cachemax_keys (L : Nat) (es : List (CMEntry α)) :
    (CacheMax.run L none es).keys = takeLast (min es.length L) (sortAsc (es.map (·.key))) := by
  obtain ⟨dropped, hp, hsz, _, hk⟩ := cachemax_split L es
  rw [CacheMax.keys_eq_sortAsc]
  have := topK_of_split (L := L) (A := es.map (·.key))
    (I := (CacheMax.run L none es).items.map (·.key)) (D := dropped.map (·.key))
    (by simpa using hp.map (·.key))
    (by
      intro i hi d hd
      obtain ⟨r, hr, rfl⟩ := mem_map.1 hi
      obtain ⟨d', hd', rfl⟩ := mem_map.1 hd
      exact hk r hr d' hd')
    (by simpa using hsz)
  rw [this, topK, ← takeLast_min L, length_sortAsc, length_map]

/-- the same with `topK L ks := takeLast L (sortAsc ks)` -/
theorem cachemax_keys_topK (L : Nat) (es : List (CMEntry α)) :
    (CacheMax.run L none es).keys = topK L (es.map (·.key)) := by
  rw [cachemax_keys, topK, ← takeLast_min L, length_sortAsc, length_map]

/-- (5) the retained keys do not depend on the order of arrival -/
theorem cachemax_keys_perm (L : Nat) (es es' : List (CMEntry α)) (h : es.Perm es') :
    (CacheMax.run L none es).keys = (CacheMax.run L none es').keys := by
  rw [cachemax_keys_topK, cachemax_keys_topK, topK_congr L (h.map _)]

/-- (5) the identity behind the merge: top-`L` of (top-`L` of `A` ∪ top-`L` of `B`) is the
    top-`L` of `A ∪ B` -/
theorem topK_union (L : Nat) (A B : List Int) :
    topK L (topK L A ++ topK L B) = topK L (A ++ B) := topK_append_topK L A B

/-- (5) the repaired merge of two timeout-free caches of the same length retains the `L` largest
    keys of the union of both streams — the keys one cache retains after seeing both streams in
    any interleaving `cs` — and the counts add.  (No distinctness hypothesis needed.) -/
theorem cachemax_merge (L : Nat) (as bs cs : List (CMEntry α)) (hcs : cs.Perm (as ++ bs)) :
    let m := (CacheMax.run L none as).merge (CacheMax.run L none bs)
    m.keys = topK L (as.map (·.key) ++ bs.map (·.key)) ∧
    m.keys = (CacheMax.run L none cs).keys ∧
    m.n = as.length + bs.length ∧
    m.n = (CacheMax.run L none cs).n ∧
    m.items.length = min (as.length + bs.length) L := by
  have hk : ((CacheMax.run L none as).merge (CacheMax.run L none bs)).keys
      = topK L (as.map (·.key) ++ bs.map (·.key)) := by
    rw [CacheMax.keys_merge, (cachemax_params L none as).1,
      topK_congr L ((keys_perm (CacheMax.run L none as)).symm.append
        (keys_perm (CacheMax.run L none bs)).symm),
      cachemax_keys_topK, cachemax_keys_topK, topK_union]
  have hn : ((CacheMax.run L none as).merge (CacheMax.run L none bs)).n
      = as.length + bs.length := by
    simp only [CacheMax.merge, (cachemax_size L none as).2, (cachemax_size L none bs).2]
  refine ⟨hk, ?_, hn, ?_, ?_⟩
  · rw [hk, cachemax_keys_perm L cs (as ++ bs) hcs, cachemax_keys_topK, map_append]
  · rw [hn, (cachemax_size L none cs).2, hcs.length_eq, length_append]
  · simp only [CacheMax.merge, length_take, (sortByKeyDesc_perm _).length_eq, length_append,
      (cachemax_size L none as).1, (cachemax_size L none bs).1, (cachemax_params L none as).1]
    omega

/-- every entry retained by the merge comes from one of the two caches, hence from the streams -/
theorem cachemax_merge_subset (L : Nat) (as bs : List (CMEntry α)) :
    ∀ r ∈ ((CacheMax.run L none as).merge (CacheMax.run L none bs)).items, r ∈ as ++ bs := by
  intro r hr
  simp only [CacheMax.merge] at hr
  rcases mem_append.1 ((sortByKeyDesc_perm _).subset (mem_of_mem_take hr)) with h | h
  · exact mem_append_left _ (cachemax_subset L none as r h)
  · exact mem_append_right _ (cachemax_subset L none bs r h)

end Max

/-! ## the defect of the pinned `merge`, and non-vacuity (all by `decide`) -/
section Examples

private def ent (k : Int) (t : Nat) : CMEntry Nat := ⟨k, t, t⟩

/-- (6) two caches of length 3 fed keys 1,2,3 and 10,20,30: the pinned merge drops the other
    cache (keys stay `[1,2,3]`) although it counts its observations (`n = 6`); the repaired merge
    keeps `[10,20,30]`. -/
theorem cachemax_merge_pinned_counterexample :
    let a := CacheMax.run 3 none [ent 1 0, ent 2 1, ent 3 2]
    let b := CacheMax.run 3 none [ent 10 3, ent 20 4, ent 30 5]
    (a.mergePinned b).keys = [1, 2, 3] ∧ (a.mergePinned b).n = 6 ∧
    (a.merge b).keys = [10, 20, 30] ∧ (a.merge b).n = 6 ∧
    (CacheMax.run 3 none [ent 1 0, ent 2 1, ent 3 2, ent 10 3, ent 20 4, ent 30 5]).keys
      = [10, 20, 30] := by
  decide

/-- CacheMaximum, no timeout: 5 observations into a cache of length 3 -/
example :
    (CacheMax.run 3 none [ent 5 0, ent 1 1, ent 9 2, ent 3 3, ent 7 4]).keys = [5, 7, 9] ∧
    (CacheMax.run 3 none [ent 5 0, ent 1 1, ent 9 2, ent 3 3, ent 7 4]).n = 5 ∧
    (CacheMax.run 3 none [ent 5 0, ent 1 1, ent 9 2, ent 3 3, ent 7 4]).items
      = [ent 5 0, ent 9 2, ent 7 4] := by decide

/-- fewer observations than the length: everything is kept -/
example : (CacheMax.run 3 none [ent 5 0, ent 1 1]).keys = [1, 5] := by decide

/-- with a timeout: the window is full and the time span exceeds the timeout, so the `length`
    newest are kept (here the largest key, which is old, is lost), otherwise the minimum goes -/
example :
    (CacheMax.run 2 (some 10) [ent 100 0, ent 1 5, ent 2 20]).items = [ent 2 20, ent 1 5] ∧
    (CacheMax.run 2 (some 10) [ent 100 0, ent 1 5, ent 2 20]).n = 3 ∧
    (CacheMax.run 2 (some 100) [ent 100 0, ent 1 5, ent 2 20]).items = [ent 100 0, ent 2 20] := by
  decide

/-- the hypotheses of `cachemax_topk` are satisfiable and its conclusion is not vacuous -/
example : [ent 5 0, ent 1 1, ent 9 2, ent 3 3, ent 7 4].Pairwise
    (fun a b => ¬ (a.key = b.key ∧ a.time = b.time)) := by decide

/-- CacheAccumulator: 5 observations into a deque of length 3 -/
example :
    (CacheAcc.run 3 [(1, 10), (2, 20), (3, 30), (4, 40), (5, 50)]).value = [30, 40, 50] ∧
    (CacheAcc.run 3 [(1, 10), (2, 20), (3, 30), (4, 40), (5, 50)]).n = 5 := by decide

example : (CacheAcc.run 3 [(1, 10)]).value = [10] := by decide

/-- `mergeByTime`: ties go to the receiver -/
example : mergeByTime [(1, 10), (3, 30)] [(2, 20), (3, 31)] = [(1, 10), (2, 20), (3, 30), (3, 31)] := by
  simp [mergeByTime]

/-- merging two caches of length 3 = one cache over the interleaved stream -/
example :
    ((CacheAcc.run 3 [(1, 10), (3, 30), (5, 50), (7, 70)]).merge
      (CacheAcc.run 3 [(2, 20), (3, 31), (6, 60)])).value = [50, 60, 70] ∧
    ((CacheAcc.run 3 [(1, 10), (3, 30), (5, 50), (7, 70)]).merge
      (CacheAcc.run 3 [(2, 20), (3, 31), (6, 60)])).n = 7 := by
  simp [CacheAcc.run, CacheAcc.init, CacheAcc.push, CacheAcc.merge, CacheAcc.value, takeLast,
    mergeByTime]

/-- the time-sortedness hypothesis of `cacheacc_merge` is necessary: with an out-of-order stream
    the merged cache and the single cache over `mergeByTime` differ -/
example :
    ((CacheAcc.run 1 [(5, 0), (1, 1)]).merge (CacheAcc.run 1 [(3, 2)])).items = [(3, 2)] ∧
    (CacheAcc.run 1 (mergeByTime [(5, 0), (1, 1)] [(3, 2)])).items = [(1, 1)] := by
  simp [CacheAcc.run, CacheAcc.init, CacheAcc.push, CacheAcc.merge, takeLast, mergeByTime]

/-- the distinctness hypothesis of `cachemax_topk` is necessary for the strict statement: two
    observations with the same `(key, time)`; one is dropped but is not below the retained one -/
example :
    (CacheMax.run 1 none [(⟨1, 0, 0⟩ : CMEntry Nat), ⟨1, 0, 1⟩]).items = [⟨1, 0, 1⟩] ∧
    (⟨1, 0, 0⟩ : CMEntry Nat).lt ⟨1, 0, 1⟩ = false := by decide

end Examples

end Gpv.C16

#print axioms Gpv.C16.cacheacc_value
#print axioms Gpv.C16.cacheacc_value_length
#print axioms Gpv.C16.mergeByTime_sorted
#print axioms Gpv.C16.mergeByTime_sublists
#print axioms Gpv.C16.takeLast_mergeByTime
#print axioms Gpv.C16.cacheacc_merge
#print axioms Gpv.C16.cacheacc_merge_value
#print axioms Gpv.C16.cachemax_size
#print axioms Gpv.C16.cachemax_subset
#print axioms Gpv.C16.cachemax_params
#print axioms Gpv.C16.cachemax_split
#print axioms Gpv.C16.cachemax_topk
#print axioms Gpv.C16.keys_sorted
#print axioms Gpv.C16.keys_perm
#print axioms Gpv.C16.cachemax_keys
#print axioms Gpv.C16.cachemax_keys_topK
#print axioms Gpv.C16.cachemax_keys_perm
#print axioms Gpv.C16.topK_union
#print axioms Gpv.C16.cachemax_merge
#print axioms Gpv.C16.cachemax_merge_subset
#print axioms Gpv.C16.cachemax_merge_pinned_counterexample
