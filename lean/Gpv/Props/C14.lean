/-
  C14 — bin sorters put every observation into exactly one, and the right, bin.

  `BinSorter.run` / `DynBinSorter.run` are `List.foldl` of the executable one-observation
  updates of `Gpv.Model.Bins` — the definitions the driver executes against the real code.
  The per-bin accumulator is arbitrary (`σ`, `accPush`, `acc0`).
-/
import Gpv.Proofs.BinsAlg
import Mathlib.Algebra.Order.Ring.Rat
import Mathlib.Algebra.Order.Field.Rat
import Mathlib.Algebra.Field.Rat
import Mathlib.Tactic.NormNum
set_option linter.unusedSectionVars false

namespace Gpv.C14
open Gpv

/-! ### `digitize` -/
section
variable {K : Type} [LinearOrder K]

/-- `digitize s e` is, by definition, the number of edges `≤ s` -/
theorem digitize_def (s : K) (e : List K) :
    digitize s e = (e.filter fun x => decide (x ≤ s)).length := rfl

/-- characterisation for strictly increasing edges: all edges before `i` are `≤ s`, all edges
    from `i` on are `> s`  (non-decreasing edges suffice: `Gpv.digitize_spec_le`) -/
theorem digitize_spec (s : K) (e : List K) (he : e.Pairwise (· < ·)) (i : ℕ) :
    i = digitize s e ↔ i ≤ e.length ∧ (∀ j (hj : j < e.length), j < i → e[j] ≤ s) ∧
      (∀ j (hj : j < e.length), i ≤ j → s < e[j]) :=
  digitize_spec_le s e (he.imp le_of_lt) i

/-- inner bins: `digitize s e = i+1` iff `e[i] ≤ s < e[i+1]` -/
theorem digitize_eq_succ_iff (s : K) (e : List K) (he : e.Pairwise (· < ·)) (i : ℕ)
    (hi : i + 1 < e.length) : digitize s e = i + 1 ↔ e[i] ≤ s ∧ s < e[i + 1] := by
  have h1 := digitize_lt_iff s e (he.imp le_of_lt) i (by omega)
  have h2 := digitize_lt_iff s e (he.imp le_of_lt) (i + 1) hi
  have h3 : s < e[i + 1] ↔ ¬ (i + 1 < digitize s e) := by rw [← h2, not_le]
  rw [h1, h3]; omega

/-- the bin `i` with `e[i-1] ≤ s < e[i]` (`0` = underflow: `s < e[0]`; `e.length` = overflow:
    `e[last] ≤ s`) exists, is unique, and is `digitize s e` -/
theorem unique_bin (s : K) (e : List K) (he : e.Pairwise (· < ·)) :
    ∃! i, i ≤ e.length ∧ (∀ (_ : 0 < i) (hi : i - 1 < e.length), e[i - 1] ≤ s) ∧
      (∀ hi : i < e.length, s < e[i]) := by
  have hle := he.imp (fun {a b} (h : a < b) => le_of_lt h)
  have hc := digitize_le_length s e
  refine ⟨digitize s e, ⟨hc, fun h0 hi => (digitize_lt_iff s e hle _ hi).mpr (by omega),
    fun hi => ?_⟩, ?_⟩
  · exact not_le.mp fun hle' => absurd ((digitize_lt_iff s e hle _ hi).mp hle') (lt_irrefl _)
  · rintro i ⟨h1, h2, h3⟩
    have a : i ≤ digitize s e := by
      rcases Nat.eq_zero_or_pos i with h0 | h0
      · omega
      · have := (digitize_lt_iff s e hle (i - 1) (by omega)).mp (h2 h0 (by omega)); omega
    have b : digitize s e ≤ i := by
      rcases Nat.lt_or_ge i e.length with hi | hi
      · by_contra hlt
        have := (digitize_lt_iff s e hle i hi).mpr (by omega)
        exact absurd (h3 hi) (not_lt.mpr this)
      · omega
    omega

/-! ### `BinSorter` -/
variable {σ δ : Type}

/-- each bin (incl. underflow `0` and overflow `edges.length`) holds exactly what a stand-alone
    accumulator fed that bin's data in arrival order would hold -/
theorem bin_state (accPush : σ → δ → σ) (edges : List K) (acc0 : σ) (obs : List (K × δ)) (i : ℕ)
    (hi : i < edges.length - 1 + 2) :
    (BinSorter.run accPush edges acc0 obs).bins[i]? =
      some (((obs.filter fun o => decide (digitize o.1 edges = i)).map Prod.snd).foldl accPush acc0) :=
  (BinSorter.run_inv accPush edges acc0 obs).2.2.2 i hi

theorem bins_length (accPush : σ → δ → σ) (edges : List K) (acc0 : σ) (obs : List (K × δ)) :
    (BinSorter.run accPush edges acc0 obs).bins.length = edges.length - 1 + 2 :=
  (BinSorter.run_inv accPush edges acc0 obs).2.2.1

theorem n_eq (accPush : σ → δ → σ) (edges : List K) (acc0 : σ) (obs : List (K × δ)) :
    (BinSorter.run accPush edges acc0 obs).n = obs.length :=
  (BinSorter.run_inv accPush edges acc0 obs).2.1

/-- nothing is lost: with the counting accumulator all bins together hold every observation -/
theorem conservation (edges : List K) (obs : List (K × δ)) :
    (BinSorter.run (fun (a : ℕ) (_ : δ) => a + 1) edges 0 obs).bins.sum = obs.length := by
  induction obs using List.reverseRec with
  | nil => simp [BinSorter.run, BinSorter.init]
  | append_singleton obs o ih =>
    obtain ⟨h1, _, h3, _⟩ := BinSorter.run_inv (fun (a : ℕ) (_ : δ) => a + 1) edges 0 obs
    rw [BinSorter.run_snoc]
    simp only [BinSorter.push, h1]
    have := digitize_le_length o.1 edges
    rw [sum_modify_succ _ _ (by rw [h3]; omega), ih]; simp

/-- `.value` / `.histogram`: inner bin `i` accumulates exactly the data whose key lies in
    `[e[i], e[i+1])`, in arrival order -/
theorem histogram_groupby (accPush : σ → δ → σ) (edges : List K) (he : edges.Pairwise (· < ·))
    (acc0 : σ) (obs : List (K × δ)) (i : ℕ) (hi : i + 1 < edges.length) :
    (BinSorter.run accPush edges acc0 obs).inner[i]? =
      some (((obs.filter fun o => decide (edges[i] ≤ o.1 ∧ o.1 < edges[i + 1])).map Prod.snd).foldl
        accPush acc0) := by
  have hb := bin_state accPush edges acc0 obs (i + 1) (by omega)
  have hl := bins_length accPush edges acc0 obs
  have e : (BinSorter.run accPush edges acc0 obs).inner[i]? =
      (BinSorter.run accPush edges acc0 obs).bins[i + 1]? := by
    simp only [BinSorter.inner, List.getElem?_dropLast, List.length_drop, List.getElem?_drop, hl]
    rw [if_pos (by omega), Nat.add_comm]
  rw [e, hb]
  congr 3
  apply List.filter_congr
  intro o _
  rw [decide_eq_decide]
  exact digitize_eq_succ_iff o.1 edges he i hi

/-- the histogram of counts -/
theorem histogram_counts (edges : List K) (he : edges.Pairwise (· < ·)) (obs : List (K × δ))
    (i : ℕ) (hi : i + 1 < edges.length) :
    (BinSorter.run (fun (a : ℕ) (_ : δ) => a + 1) edges 0 obs).inner[i]? =
      some (obs.filter fun o => decide (edges[i] ≤ o.1 ∧ o.1 < edges[i + 1])).length := by
  rw [histogram_groupby _ edges he 0 obs i hi]
  congr 1
  generalize (obs.filter fun o => decide (edges[i] ≤ o.1 ∧ o.1 < edges[i + 1])) = l
  suffices h : ∀ (l : List (K × δ)) (a : ℕ),
      (l.map Prod.snd).foldl (fun (a : ℕ) (_ : δ) => a + 1) a = a + l.length by
    simp [h l 0]
  intro l
  induction l with
  | nil => intro a; rfl
  | cons x t ih => intro a; simp only [List.map_cons, List.foldl_cons, ih, List.length_cons]; omega
end

/-! ### `DynBinSorter` (edges = the markers of a P² CDF estimator) -/
section
variable {K : Type} [Field K] [LinearOrder K] [IsStrictOrderedRing K] {σ δ : Type}

/-- bookkeeping: the embedded estimator is the P² run over the keys -/
theorem dyn_est (accPush : σ → δ → σ) (nbins : ℕ) (grid : List K) (acc0 : σ) (obs : List (K × δ)) :
    (DynBinSorter.run accPush nbins grid acc0 obs).est = P2.run grid (obs.map Prod.fst) ∧
    (DynBinSorter.run accPush nbins grid acc0 obs).n = obs.length ∧
    (DynBinSorter.run accPush nbins grid acc0 obs).bins.length = nbins :=
  let h := DynBinSorter.run_basic accPush nbins grid acc0 obs
  ⟨h.2.2.1, h.2.1, h.2.2.2⟩

/-- the first `nbins` observations only train the estimator: no bin is touched -/
theorem dyn_training (accPush : σ → δ → σ) (nbins : ℕ) (grid : List K) (acc0 : σ)
    (obs : List (K × δ)) (hn : obs.length ≤ nbins) :
    (DynBinSorter.run accPush nbins grid acc0 obs).bins = List.replicate nbins acc0 :=
  DynBinSorter.run_training accPush nbins grid acc0 obs hn

/-- an observation arriving when `n ≥ nbins`: the estimator (which now has ≥ nbins+1 = m
    observations) satisfies the C07 invariant, exactly one bin `idx < nbins` is updated, and the
    key lies in that bin w.r.t. the updated edges: `h[idx] ≤ key < h[idx+1]`, or it is the
    maximum seen and goes to the last bin -/
theorem dyn_index_ok (accPush : σ → δ → σ) (nbins : ℕ) (grid : List K) (acc0 : σ)
    (obs : List (K × δ)) (o : K × δ) (hg : grid.length = nbins + 1) (hnb : 1 ≤ nbins)
    (hn : nbins ≤ obs.length) :
    let st := DynBinSorter.run accPush nbins grid acc0 obs
    let est' := st.est.push o.1
    let idx0 := digitize o.1 est'.h - 1
    let idx := if idx0 = nbins then idx0 - 1 else idx0
    (st.push accPush o.1 o.2).est = est' ∧
    (st.push accPush o.1 o.2).bins = st.bins.modify idx (fun a => accPush a o.2) ∧
    P2.Inv est' (obs.map Prod.fst ++ [o.1]) ∧
    idx < nbins ∧ nth est'.h idx ≤ o.1 ∧
    (o.1 < nth est'.h (idx + 1) ∨ (idx = nbins - 1 ∧ nth est'.h nbins ≤ o.1)) := by
  intro st est' idx0 idx
  obtain ⟨h1, h2, h3, h4⟩ := DynBinSorter.run_basic accPush nbins grid acc0 obs
  have c : ¬ (st.n + 1 ≤ st.nbins) := by rw [h1, h2]; omega
  have e' : est' = P2.run grid (obs.map Prod.fst ++ [o.1]) := by
    rw [P2.run_snoc, ← h3]
  have inv : P2.Inv est' (obs.map Prod.fst ++ [o.1]) := by
    rw [e']; exact C07.inv_run grid _ (by omega) (by simp; omega)
  have hq : est'.q = grid := by rw [e', P2.run_q]
  have hidx := dyn_index est'.h nbins hnb (by rw [inv.hlen, hq, hg]) inv.sorted o.1
    (inv.min_le _ (by simp))
  refine ⟨?_, ?_, inv, hidx⟩
  · simp only [DynBinSorter.push]; rw [if_neg c]
  · have h1' : st.nbins = nbins := h1
    simp only [DynBinSorter.push]; rw [if_neg c, h1']

/-- the edges are the estimator's markers: sorted, and spanning exactly [min, max] of the keys -/
theorem dyn_edges (accPush : σ → δ → σ) (nbins : ℕ) (grid : List K) (acc0 : σ)
    (obs : List (K × δ)) (hg : grid.length = nbins + 1) (hnb : 1 ≤ nbins)
    (hn : nbins + 1 ≤ obs.length) :
    let h := (DynBinSorter.run accPush nbins grid acc0 obs).est.h
    h.Pairwise (· ≤ ·) ∧ h.length = nbins + 1 ∧
    nth h 0 ∈ obs.map Prod.fst ∧ (∀ y ∈ obs.map Prod.fst, nth h 0 ≤ y) ∧
    nth h nbins ∈ obs.map Prod.fst ∧ (∀ y ∈ obs.map Prod.fst, y ≤ nth h nbins) := by
  intro h
  have inv := DynBinSorter.run_est_inv accPush nbins grid acc0 obs hg hnb hn
  have hq : (DynBinSorter.run accPush nbins grid acc0 obs).est.q = grid := by
    rw [(DynBinSorter.run_basic accPush nbins grid acc0 obs).2.2.1, P2.run_q]
  have a := inv.max_mem; have b := inv.le_max; have l := inv.hlen
  rw [hq, hg, Nat.add_sub_cancel] at a b
  rw [hq, hg] at l
  exact ⟨inv.sorted, l, inv.min_mem, inv.min_le, a, b⟩

/-- every observation after the first `nbins` is added to exactly one bin -/
theorem dyn_conservation (nbins : ℕ) (grid : List K) (obs : List (K × δ))
    (hg : grid.length = nbins + 1) (hnb : 1 ≤ nbins) :
    (DynBinSorter.run (fun (a : ℕ) (_ : δ) => a + 1) nbins grid 0 obs).bins.sum
      = obs.length - nbins :=
  DynBinSorter.run_count nbins grid obs hg hnb
end

/-! ### non-vacuity -/

/-- static sorter on ℤ: underflow, two inner bins, overflow; a key on an edge goes right -/
example : (BinSorter.run (K := ℤ) (fun (a : ℕ) (_ : Unit) => a + 1) [0, 10, 20] 0
    [(-1, ()), (0, ()), (5, ()), (10, ()), (25, ()), (20, ())]).bins = [1, 2, 1, 2] := by decide

example : (BinSorter.run (K := ℤ) (fun (a : ℕ) (_ : Unit) => a + 1) [0, 10, 20] 0
    [(-1, ()), (0, ()), (5, ()), (10, ()), (25, ()), (20, ())]).inner = [2, 1] := by decide

example : List.Pairwise (· < ·) ([0, 10, 20] : List ℤ) := by decide

set_option maxRecDepth 10000 in
/-- dynamic sorter in ℚ with 2 bins (3 markers): two training observations, then four binned
    ones (a tie with a marker, a new maximum, a new minimum) -/
example : DynBinSorter.run (K := ℚ) (fun (a : ℕ) (_ : Unit) => a + 1) 2 [0, 1/2, 1] 0
      [(1, ()), (2, ()), (3, ()), (5, ()), (2, ()), (0, ())] =
    ⟨2, ⟨[0, 1/2, 1], 6, [0, 2, 5], [0, 3, 5]⟩, [1, 3], 6⟩ := by
  have hs : sortK ([1, 2, 3] : List ℚ) = [1, 2, 3] := sortK_of_sorted (by norm_num)
  norm_num [DynBinSorter.run, DynBinSorter.push, DynBinSorter.init, P2.push, P2.init, P2.m, hs,
    adjustAll, adjustOne, placeObs, digitize, nth, sign, parabolic, linear, List.range',
    List.mapIdx_cons, List.range, List.range.loop, List.filter_cons, List.modify_cons]
  rfl

end Gpv.C14

#print axioms Gpv.C14.digitize_spec
#print axioms Gpv.C14.digitize_eq_succ_iff
#print axioms Gpv.C14.unique_bin
#print axioms Gpv.C14.bin_state
#print axioms Gpv.C14.bins_length
#print axioms Gpv.C14.n_eq
#print axioms Gpv.C14.conservation
#print axioms Gpv.C14.histogram_groupby
#print axioms Gpv.C14.histogram_counts
#print axioms Gpv.C14.dyn_est
#print axioms Gpv.C14.dyn_training
#print axioms Gpv.C14.dyn_index_ok
#print axioms Gpv.C14.dyn_edges
#print axioms Gpv.C14.dyn_conservation
