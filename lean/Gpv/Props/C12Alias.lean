/-
  C12 (aliasing) — an observation that is a VIEW of the accumulator's own running mean.

  Model: `Gpv.Model.Alias` (`Obs`, `St`, `readObs`, `stepRaw` = `Variance._accumulate_obj`
  before commit b618a08, `stepFixed` = after it, `stepPure` = the scalar Welford push
  `Gpv.Variance.push` in every component; `covStepRaw/Fixed/Pure` for `Covariance`).

  Proved here (K = any carrier with `+ - * /` and a cast from ℕ unless a field is named;
  no field axiom is used for the statements about the repaired code, so they hold for
  floats as well):

  relation of the pure step to the existing models
    * `stepPure_mean_getElem?`, `stepPure_var_getElem?`, `stepPure_n`
                                   component i of `stepPure` is the scalar `Variance.push`
                                   of component i (no shape hypothesis);
    * `stepPure_mean_getElem`, `stepPure_var_getElem`   the same for `i < d` in range;
    * `raw_fresh_toVal`, `fixed_toVal`, `stepPure_toVal`
                                   the steps as `Variance.push` of the array model
                                   `Variance (Val K)` of `Gpv.Model.Accum` (to which all of
                                   `Gpv.Props.C12` applies).
  the repair
    * `fixed_eq_pure`              for every well-formed state and EVERY observation
                                   (fresh, or any view σ — permutation or not)
                                   `stepFixed st o = stepPure st (readObs st o)`;
    * `fixed_eq_raw_copy`          `stepFixed st o = stepRaw st (fresh (readObs st o))`.
  the defect needs aliasing
    * `raw_fresh_eq_pure`          `stepRaw st (fresh xs) = stepPure st xs`;
    * `raw_eq_pure_of_stable`      `stepRaw` is right whenever the view shows the same
                                   values after the in-place update of the mean;
    * `raw_identity_view_eq_pure`  (any field, ALL d) the identity view
                                   `acc += acc.mean.value` is such a case.
  the defect
    * `exSt_reached`               the state after [10.25,10.75], [-10.75,-9.125],
                                   [11.375,12.875] (d = 2, exact rationals);
    * `raw_view_value`, `pure_view_value`, `fixed_view_value`   the three results for the
                                   reversed view `acc.mean.value[::-1]`;
    * `raw_view_counterexample`    `stepRaw ≠ stepPure` there; `raw_ne_fixed_counterexample`.
  components never influence each other
    * `Independent d step`         the clause, as a predicate on a step function;
    * `components_independent_fixed` / `fixed_independent`   `stepFixed` satisfies it;
    * `raw_not_independent`        `stepRaw` violates it (d = 2: same state, same read
                                   values, view against copy);
    * `raw_not_independent_other_component`   (d = 3, cyclic view) changing ONLY component 2
                                   of the mean changes component 0 of the result although
                                   component 0 of the state and the value read for component 0
                                   are the same.
  Covariance (`np.outer` update)
    * `cov_raw_fresh_eq_pure`, `cov_fixed_eq_pure`, `cov_fixed_eq_raw_copy`,
      `cov_raw_view_value`, `cov_pure_view_value`, `cov_raw_view_counterexample`.
    Omitted for Covariance: the identity-view theorem and the entry-wise independence
    statement (for the repaired code the latter follows from `cov_fixed_eq_pure`, which
    identifies the step with `Gpv.Covariance.push`, and `Gpv.C12.cov_entry`).
  ADDED (section 7) — the plain `Mean`, whose read-out `acc.value` IS its state array, so
  `acc += acc.value[::-1]` passes a view of the state.  `meanStepOne` = the code as it is
  (`_val += obj/_n - _val/_n`, everything read before the write), `meanStepTwo` = the
  two-statement rewrite `_val -= _val/_n ; _val += obj/_n` (a view is read after step 1
  changed it), `meanStepPure` = the scalar `Gpv.Mean.push` in every component.
    * `meanStepPure_val_getElem?`, `meanStepPure_val_getElem`, `meanStepPure_n`,
      `meanStepPure_toVal`, `mean_one_toVal`   relation to `Gpv.Mean.push`, scalar and
                                   array model (`Mean (Val K)`);
    * `mean_one_eq_pure`           the code as it is: for every well-formed state and EVERY
                                   observation (fresh or any view σ)
                                   `meanStepOne st o = meanStepPure st (mReadObs st o)`
                                   (`mean_one_eq_pure_any`: even without the shape hypothesis);
                                   no field axiom, holds for floats;
    * `stepRaw_mean_eq_meanStepOne`   it is the mean update inside `Variance`;
    * `mean_two_fresh_eq_one`, `mean_two_fresh_eq_pure`   (any field) on the caller's own
                                   array the rewrite is the same real-number function
                                   (in floats: equal up to rounding only, not covered);
    * `mean_one_identity_view`     (any field) `acc += acc.value` leaves the array unchanged;
    * `mean_two_identity_view`     (any field, all d) the rewrite gives `v·(1 − 1/n'²)` in
                                   every component there; `mean_two_identity_view_ne_one`;
    * `exM_reached`, `mean_one_view_value`, `mean_pure_view_value`, `mean_two_view_value`,
      `mean_two_view_counterexample`, `mean_two_ne_one_counterexample`,
      `mean_two_identity_counterexample`   d = 2, n = 3 → 4, exact rationals, reversed view;
    * `MIndependent d step`, `mean_components_independent_one` / `mean_one_independent`,
      `mean_one_component`         the code as it is satisfies the C12 clause;
    * `mean_two_not_independent`   the rewrite violates it (view against copy).
-/
import Gpv.Model.Alias
import Mathlib.Algebra.Order.Field.Rat
import Mathlib.Tactic.NormNum
import Mathlib.Tactic.Ring
set_option linter.unusedSectionVars false

namespace Gpv.C12Alias
open Gpv Gpv.Alias

/-! ### 0. reading -/
section read
variable {K : Type} [Inhabited K]

theorem gather_length (a : List K) (σ : List Nat) : (gather a σ).length = σ.length := by
  simp [gather]

/-- a well-shaped observation shows `d` values -/
theorem readObs_length {d : Nat} {st : St K} {o : Obs K} (h : o.Shaped d) :
    (readObs st o).length = d := by
  cases o with
  | fresh xs => exact h
  | view σ => simpa [readObs, gather] using h.1

/-- the copy taken by the fix is the observation's present values -/
theorem copyIfView_eq (st : St K) (o : Obs K) : copyIfView st o = .fresh (readObs st o) := by
  cases o <;> rfl

/-- a copy shows the same values whatever happens to the state afterwards -/
theorem readObs_copyIfView (st st' : St K) (o : Obs K) :
    readObs st' (copyIfView st o) = readObs st o := by
  cases o <;> rfl

theorem copyIfView_shaped {d : Nat} {st : St K} {o : Obs K} (h : o.Shaped d) :
    (copyIfView st o).Shaped d := by
  rw [copyIfView_eq]; exact readObs_length h

/-- the identity view shows the running mean itself -/
theorem gather_range (a : List K) : gather a (List.range a.length) = a := by
  apply List.ext_getElem
  · simp [gather]
  · intro i h1 h2
    simp [gather, h2]
end read

/-! ### 1. the pure step, component by component -/
section pure
variable {K : Type} [Add K] [Sub K] [Mul K] [Div K] [NatCast K]

/-- the scalar push of component `i`, when all three arrays have a component `i` -/
def compPush (n : Nat) (m v x : Option K) : Option (Variance K) :=
  match m, v, x with
  | some m, some v, some x => some ((comp m v n).push x)
  | _, _, _ => none

theorem stepPure_n (st : St K) (xs : List K) : (stepPure st xs).n = st.n + 1 := rfl

/-- component `i` of the new mean is the scalar model's new mean of component `i` -/
theorem stepPure_mean_getElem? (st : St K) (xs : List K) (i : Nat) :
    (stepPure st xs).mean[i]? =
      (compPush st.n st.mean[i]? st.var[i]? xs[i]?).map (·.mean.val) := by
  simp only [stepPure, List.getElem?_map, List.getElem?_zipWith, compPush, List.zip]
  cases hm : st.mean[i]? <;> cases hv : st.var[i]? <;> cases hx : xs[i]? <;> simp

/-- component `i` of the new variance is the scalar model's new variance of component `i` -/
theorem stepPure_var_getElem? (st : St K) (xs : List K) (i : Nat) :
    (stepPure st xs).var[i]? =
      (compPush st.n st.mean[i]? st.var[i]? xs[i]?).map (·.var.val) := by
  simp only [stepPure, List.getElem?_map, List.getElem?_zipWith, compPush, List.zip]
  cases hm : st.mean[i]? <;> cases hv : st.var[i]? <;> cases hx : xs[i]? <;> simp

theorem stepPure_mean_length {d : Nat} {st : St K} {xs : List K} (hs : st.Shaped d)
    (hx : xs.length = d) : (stepPure st xs).mean.length = d := by
  simp [stepPure, hs.1, hs.2, hx]

theorem stepPure_var_length {d : Nat} {st : St K} {xs : List K} (hs : st.Shaped d)
    (hx : xs.length = d) : (stepPure st xs).var.length = d := by
  simp [stepPure, hs.1, hs.2, hx]

/-- the pure step keeps the shape -/
theorem stepPure_shaped {d : Nat} {st : St K} {xs : List K} (hs : st.Shaped d)
    (hx : xs.length = d) : (stepPure st xs).Shaped d :=
  ⟨stepPure_mean_length hs hx, stepPure_var_length hs hx⟩

/-- in range: `stepPure` IS `Gpv.Variance.push` of the scalar model on component `i` -/
theorem stepPure_mean_getElem {d : Nat} {st : St K} {xs : List K} (hs : st.Shaped d)
    (hx : xs.length = d) {i : Nat} (hi : i < d) :
    (stepPure st xs).mean[i]'(by rw [stepPure_mean_length hs hx]; exact hi) =
      ((comp (st.mean[i]'(by rw [hs.1]; exact hi)) (st.var[i]'(by rw [hs.2]; exact hi)) st.n).push
        (xs[i]'(by rw [hx]; exact hi))).mean.val := by
  have h := stepPure_mean_getElem? st xs i
  rw [List.getElem?_eq_getElem (by rw [stepPure_mean_length hs hx]; exact hi),
    List.getElem?_eq_getElem (by rw [hs.1]; exact hi),
    List.getElem?_eq_getElem (by rw [hs.2]; exact hi),
    List.getElem?_eq_getElem (by rw [hx]; exact hi)] at h
  simpa [compPush] using h

theorem stepPure_var_getElem {d : Nat} {st : St K} {xs : List K} (hs : st.Shaped d)
    (hx : xs.length = d) {i : Nat} (hi : i < d) :
    (stepPure st xs).var[i]'(by rw [stepPure_var_length hs hx]; exact hi) =
      ((comp (st.mean[i]'(by rw [hs.1]; exact hi)) (st.var[i]'(by rw [hs.2]; exact hi)) st.n).push
        (xs[i]'(by rw [hx]; exact hi))).var.val := by
  have h := stepPure_var_getElem? st xs i
  rw [List.getElem?_eq_getElem (by rw [stepPure_var_length hs hx]; exact hi),
    List.getElem?_eq_getElem (by rw [hs.1]; exact hi),
    List.getElem?_eq_getElem (by rw [hs.2]; exact hi),
    List.getElem?_eq_getElem (by rw [hx]; exact hi)] at h
  simpa [compPush] using h
end pure

/-! ### 2. without aliasing the old code is the pure step; the repaired code always is -/
section steps
variable {K : Type} [Add K] [Sub K] [Mul K] [Div K] [NatCast K] [Inhabited K]

/-- **the defect needs aliasing**: on the caller's own array the code before the fix is the
    component-wise Welford push. -/
theorem raw_fresh_eq_pure {d : Nat} {st : St K} {xs : List K} (hs : st.Shaped d)
    (hx : xs.length = d) : stepRaw st (.fresh xs) = stepPure st xs := by
  obtain ⟨hm, hv⟩ := hs
  simp only [stepRaw, stepPure, readObs, St.mk.injEq, and_true]
  constructor
  · apply List.ext_getElem
    · simp [meanUpd, hm, hv, hx]
    · intro i h1 h2
      simp [meanUpd, comp, Variance.push, Mean.push]
  · apply List.ext_getElem
    · simp [meanUpd, vmul, vsub, hm, hv, hx]
    · intro i h1 h2
      simp [meanUpd, vmul, vsub, comp, Variance.push, Mean.push]

/-- the code after the fix is the code before it run on a copy of the present values -/
theorem fixed_eq_raw_copy (st : St K) (o : Obs K) :
    stepFixed st o = stepRaw st (.fresh (readObs st o)) := by
  unfold stepFixed; rw [copyIfView_eq]

/-- **the repair**: for every well-formed state and every observation — fresh or ANY view of
    the running mean — the code after the fix treats the observation exactly like a copy of
    the values it shows at the moment of the call. -/
theorem fixed_eq_pure {d : Nat} {st : St K} {o : Obs K} (h : WF d st o) :
    stepFixed st o = stepPure st (readObs st o) := by
  rw [fixed_eq_raw_copy]
  exact raw_fresh_eq_pure h.1 (readObs_length h.2)

/-- the repaired step keeps the shape -/
theorem fixed_shaped {d : Nat} {st : St K} {o : Obs K} (h : WF d st o) :
    (stepFixed st o).Shaped d := by
  rw [fixed_eq_pure h]; exact stepPure_shaped h.1 (readObs_length h.2)

/-- the old code on a fresh array, as the array model of `Gpv.Model.Accum`
    (`Variance` instantiated at numpy operands): no hypothesis, by unfolding. -/
theorem raw_fresh_toVal (st : St K) (xs : List K) :
    (stepRaw st (.fresh xs)).toVal = st.toVal.push (.arr xs) := rfl

/-- the repaired code, as the array model of `Gpv.Model.Accum`: every theorem of
    `Gpv.Props.C12` about `Variance (Val K)` applies to it, with the observation replaced
    by the values it shows. -/
theorem fixed_toVal (st : St K) (o : Obs K) :
    (stepFixed st o).toVal = st.toVal.push (.arr (readObs st o)) := by
  rw [fixed_eq_raw_copy]; rfl

/-- the component-wise step and the array model agree on well-shaped input -/
theorem stepPure_toVal {d : Nat} {st : St K} {xs : List K} (hs : st.Shaped d)
    (hx : xs.length = d) : (stepPure st xs).toVal = st.toVal.push (.arr xs) := by
  rw [← raw_fresh_eq_pure hs hx]; rfl

/-- the old code is right whenever the observation shows the same values after the
    in-place update of the mean as before it. -/
theorem raw_eq_pure_of_stable {d : Nat} {st : St K} {o : Obs K} (h : WF d st o)
    (hst : readObs { st with mean := meanUpd st.mean (readObs st o) (st.n + 1) } o
        = readObs st o) :
    stepRaw st o = stepPure st (readObs st o) := by
  rw [← raw_fresh_eq_pure h.1 (readObs_length h.2)]
  unfold stepRaw
  simp only [hst]
  rfl
end steps

/-! ### 3. the identity view (`acc += acc.mean.value`) always worked -/
section identity
variable {K : Type} [Field K] [Inhabited K]

/-- feeding the mean to itself leaves it where it is -/
theorem meanUpd_self (a : List K) (n' : Nat) : meanUpd a a n' = a := by
  apply List.ext_getElem
  · simp [meanUpd]
  · intro i h1 h2
    simp [meanUpd]

/-- **identity view, all d, any field**: for `σ = [0, 1, …, d-1]` the code before the fix
    equals the pure step on the values read — the mean does not move, so the view shows
    the same numbers at the second read. -/
theorem raw_identity_view_eq_pure {d : Nat} {st : St K} (hs : st.Shaped d) :
    stepRaw st (.view (List.range d)) = stepPure st (readObs st (.view (List.range d))) := by
  have hwf : WF d st (.view (List.range d)) :=
    ⟨hs, by simp [Obs.Shaped]⟩
  apply raw_eq_pure_of_stable hwf
  obtain ⟨hm, _⟩ := hs
  subst hm
  simp only [readObs, gather_range, meanUpd_self]

/-- …and what is read is the mean itself, which stays unchanged -/
theorem raw_identity_view_mean {d : Nat} {st : St K} (hs : st.Shaped d) :
    (stepRaw st (.view (List.range d))).mean = st.mean := by
  obtain ⟨hm, _⟩ := hs
  subst hm
  simp only [stepRaw, readObs, gather_range, meanUpd_self]
end identity

/-! ### 4. the defect: a reversed view, d = 2, exact rationals -/
section counterexample

/-- `Variance` after `[10.25, 10.75]`, `[-10.75, -9.125]`, `[11.375, 12.875]` -/
def exSt : St Rat := ⟨[29/8, 29/6], [3313/32, 28273/288], 3⟩

/-- `acc.mean.value[::-1]` -/
def exView : Obs Rat := .view [1, 0]

theorem exSt_wf : WF 2 exSt exView := by
  refine ⟨⟨rfl, rfl⟩, rfl, ?_⟩
  decide

/-- `exSt` is the state the three observations lead to (from the empty accumulator) -/
theorem exSt_reached :
    [[41/4, 43/4], [-43/4, -73/8], [91/8, 103/8]].foldl stepPure (⟨[0, 0], [0, 0], 0⟩ : St Rat)
      = exSt := by
  simp [stepPure, comp, Variance.push, Mean.push, exSt]
  norm_num

/-- the reversed view shows the mean, reversed -/
theorem exView_read : readObs exSt exView = [29/6, 29/8] := by
  simp [readObs, gather, exSt, exView]

/-- the code before the fix -/
theorem raw_view_value :
    stepRaw exSt exView = ⟨[377/96, 145/32], [358645/4608, 340117/4608], 4⟩ := by
  simp [stepRaw, exSt, exView, readObs, gather, vsub, vmul, meanUpd]
  norm_num

/-- the pure step on the values read -/
theorem pure_view_value :
    stepPure exSt (readObs exSt exView) = ⟨[377/96, 145/32], [239377/3072, 75675/1024], 4⟩ := by
  rw [exView_read]
  simp [stepPure, comp, Variance.push, Mean.push, exSt]
  norm_num

/-- the code after the fix -/
theorem fixed_view_value :
    stepFixed exSt exView = ⟨[377/96, 145/32], [239377/3072, 75675/1024], 4⟩ := by
  rw [fixed_eq_pure exSt_wf, pure_view_value]

/-- **the defect**: on the reversed view the code before the fix is NOT the pure step on the
    values read (the new means agree, both variances are wrong). -/
theorem raw_view_counterexample :
    stepRaw exSt exView ≠ stepPure exSt (readObs exSt exView) := by
  rw [raw_view_value, pure_view_value]
  intro h
  have h0 := congrArg (fun s : St Rat => s.var.head?) h
  norm_num at h0

theorem raw_ne_fixed_counterexample : stepRaw exSt exView ≠ stepFixed exSt exView := by
  rw [fixed_eq_pure exSt_wf]; exact raw_view_counterexample
end counterexample

/-! ### 5. components never influence each other -/
section independence
variable {K : Type} [Add K] [Sub K] [Mul K] [Div K] [NatCast K] [Inhabited K]

/-- The C12 clause for one step on arrays of `d` components: component `i` of the result
    depends only on component `i` of the state (and the count) and on the `i`-th value the
    observation shows.  Two situations that agree in these — whatever the other components
    of `mean`/`var` are, and whether the observations are fresh arrays or views — give the
    same component `i`. -/
def Independent (d : Nat) (step : St K → Obs K → St K) : Prop :=
  ∀ (st st' : St K) (o o' : Obs K) (i : Nat), WF d st o → WF d st' o' → st.n = st'.n →
    st.mean[i]? = st'.mean[i]? → st.var[i]? = st'.var[i]? →
    (readObs st o)[i]? = (readObs st' o')[i]? →
    (step st o).mean[i]? = (step st' o').mean[i]? ∧ (step st o).var[i]? = (step st' o').var[i]?

/-- **components never influence each other (repaired code)**: changing the other components
    of `st.mean` / `st.var` (and the kind of observation) while keeping component `i` of the
    state and the `i`-th read value leaves component `i` of the result unchanged. -/
theorem components_independent_fixed {d : Nat} {st st' : St K} {o o' : Obs K} {i : Nat}
    (h : WF d st o) (h' : WF d st' o') (hn : st.n = st'.n)
    (hm : st.mean[i]? = st'.mean[i]?) (hv : st.var[i]? = st'.var[i]?)
    (hx : (readObs st o)[i]? = (readObs st' o')[i]?) :
    (stepFixed st o).mean[i]? = (stepFixed st' o').mean[i]? ∧
    (stepFixed st o).var[i]? = (stepFixed st' o').var[i]? := by
  rw [fixed_eq_pure h, fixed_eq_pure h']
  simp only [stepPure_mean_getElem?, stepPure_var_getElem?, hn, hm, hv, hx, and_self]

theorem fixed_independent (d : Nat) : Independent d (stepFixed (K := K)) :=
  fun _ _ _ _ _ h h' hn hm hv hx => components_independent_fixed h h' hn hm hv hx

/-- explicit form: component `i` of the repaired step is the scalar Welford push of
    component `i` of the state with the `i`-th read value -/
theorem fixed_component {d : Nat} {st : St K} {o : Obs K} (h : WF d st o) (i : Nat) :
    (stepFixed st o).mean[i]? =
        (compPush st.n st.mean[i]? st.var[i]? (readObs st o)[i]?).map (·.mean.val) ∧
    (stepFixed st o).var[i]? =
        (compPush st.n st.mean[i]? st.var[i]? (readObs st o)[i]?).map (·.var.val) := by
  rw [fixed_eq_pure h]
  exact ⟨stepPure_mean_getElem? _ _ _, stepPure_var_getElem? _ _ _⟩
end independence

section violation
/-- **the code before the fix violates independence** (d = 2): same state, same values
    read — once through the reversed view, once as a copy — different component 0. -/
theorem raw_not_independent : ¬ Independent 2 (stepRaw (K := Rat)) := by
  intro hind
  have hwf' : WF 2 exSt (.fresh [29/6, 29/8]) := ⟨⟨rfl, rfl⟩, rfl⟩
  have h := (hind exSt exSt exView (.fresh [29/6, 29/8]) 0 exSt_wf hwf' rfl rfl rfl
    (by rw [exView_read]; rfl)).2
  rw [raw_view_value, raw_fresh_eq_pure (d := 2) (st := exSt) (xs := [29/6, 29/8]) ⟨rfl, rfl⟩ rfl,
    ← exView_read, pure_view_value] at h
  norm_num at h

/-- two states that differ ONLY in component 2 of the mean -/
def exA : St Rat := ⟨[1, 2, 3], [0, 0, 0], 1⟩
def exB : St Rat := ⟨[1, 2, 5], [0, 0, 0], 1⟩
/-- a cyclic view, `np.roll(acc.mean.value, -1)` as a view: component i shows component i+1 -/
def exCyc : Obs Rat := .view [1, 2, 0]

theorem exA_raw_value : stepRaw exA exCyc = ⟨[3/2, 5/2, 2], [1/2, -1/4, 1/2], 2⟩ := by
  simp [stepRaw, exA, exCyc, readObs, gather, vsub, vmul, meanUpd]
  norm_num

theorem exB_raw_value : stepRaw exB exCyc = ⟨[3/2, 7/2, 3], [1, -3/4, 3], 2⟩ := by
  simp [stepRaw, exB, exCyc, readObs, gather, vsub, vmul, meanUpd]
  norm_num

/-- **cross-talk from another component** (d = 3, cyclic view): `exA` and `exB` agree in
    component 0 of the state, and the view shows the same value for component 0 (it is
    component 1 of the mean, also equal); they differ only in component 2 of the mean.
    Component 0 of the variance after the old code differs: 1/2 against 1. -/
theorem raw_not_independent_other_component :
    exA.n = exB.n ∧ exA.mean[0]? = exB.mean[0]? ∧ exA.var[0]? = exB.var[0]? ∧
    exA.mean[1]? = exB.mean[1]? ∧ exA.var = exB.var ∧
    (readObs exA exCyc)[0]? = (readObs exB exCyc)[0]? ∧
    (stepRaw exA exCyc).var[0]? = some (1/2) ∧ (stepRaw exB exCyc).var[0]? = some 1 ∧
    (stepRaw exA exCyc).var[0]? ≠ (stepRaw exB exCyc).var[0]? := by
  rw [exA_raw_value, exB_raw_value]
  refine ⟨rfl, rfl, rfl, rfl, rfl, rfl, rfl, rfl, ?_⟩
  norm_num

/-- the same as a violation of `Independent 3` -/
theorem raw_not_independent_3 : ¬ Independent 3 (stepRaw (K := Rat)) := by
  intro hind
  have hA : WF 3 exA exCyc := by refine ⟨⟨rfl, rfl⟩, rfl, ?_⟩; decide
  have hB : WF 3 exB exCyc := by refine ⟨⟨rfl, rfl⟩, rfl, ?_⟩; decide
  have h := (hind exA exB exCyc exCyc 0 hA hB rfl rfl rfl rfl).2
  rw [exA_raw_value, exB_raw_value] at h
  norm_num at h
end violation

/-! ### 6. Covariance: the same two steps with the `np.outer` update -/
section cov
variable {K : Type} [Add K] [Sub K] [Mul K] [Div K] [NatCast K] [Inhabited K]

/-- on the caller's own array the code before the fix IS the functional model
    `Gpv.Covariance.push` (no hypothesis: the two are the same expression) -/
theorem cov_raw_fresh_eq_pure (st : CSt K) (xs : List K) :
    covStepRaw st (.fresh xs) = covStepPure st xs := rfl

theorem cov_fixed_eq_raw_copy (st : CSt K) (o : Obs K) :
    covStepFixed st o = covStepRaw st (.fresh (covReadObs st o)) := by
  unfold covStepFixed covReadObs; rw [copyIfView_eq]

/-- **the repair, Covariance**: for every state and every observation, fresh or any view,
    the code after the fix is `Gpv.Covariance.push` on the values the observation shows. -/
theorem cov_fixed_eq_pure (st : CSt K) (o : Obs K) :
    covStepFixed st o = covStepPure st (covReadObs st o) := by
  rw [cov_fixed_eq_raw_copy]; rfl
end cov

section covex
/-- `Covariance` after the same three observations (matrix row-major) -/
def exC : CSt Rat := ⟨[29/8, 29/6], [3313/32, 19339/192, 19339/192, 28273/288], 3⟩

theorem exC_wf : CWF 2 exC exView := by
  refine ⟨⟨rfl, rfl⟩, rfl, ?_⟩
  decide

theorem exC_read : covReadObs exC exView = [29/6, 29/8] := by
  simp [covReadObs, CSt.asSt, readObs, gather, exC, exView]

theorem cov_raw_view_value :
    covStepRaw exC exView =
      ⟨[377/96, 145/32], [358645/4608, 347261/4608, 347261/4608, 340117/4608], 4⟩ := by
  simp [covStepRaw, covReadObs, CSt.asSt, exC, exView, readObs, gather, vsub, vouter, meanUpd]
  norm_num

theorem cov_pure_view_value :
    covStepPure exC (covReadObs exC exView) =
      ⟨[377/96, 145/32], [239377/3072, 231227/3072, 231227/3072, 75675/1024], 4⟩ := by
  rw [exC_read, ← cov_raw_fresh_eq_pure]
  simp [covStepRaw, covReadObs, exC, readObs, vsub, vouter, meanUpd]
  norm_num

/-- **the defect, Covariance**: all four entries of the matrix are wrong on the reversed view -/
theorem cov_raw_view_counterexample :
    covStepRaw exC exView ≠ covStepPure exC (covReadObs exC exView) := by
  rw [cov_raw_view_value, cov_pure_view_value]
  intro h
  have h0 := congrArg (fun s : CSt Rat => s.cov.head?) h
  norm_num at h0

theorem cov_raw_ne_fixed_counterexample : covStepRaw exC exView ≠ covStepFixed exC exView := by
  rw [cov_fixed_eq_pure]; exact cov_raw_view_counterexample
end covex


/-! ### 7. ADDED: the plain `Mean`, whose read-out `value` IS its state array

    `acc += acc.value[::-1]` passes a view of `_val` as the observation.  `meanStepOne` is
    the code as it is (one statement, everything read before the write), `meanStepTwo` the
    two-statement rewrite `_val -= _val/_n ; _val += obj/_n`. -/
section meanPure
variable {K : Type} [Add K] [Sub K] [Mul K] [Div K] [NatCast K]

/-- the scalar `Mean.push` of component `i`, when both arrays have a component `i` -/
def mCompPush (n : Nat) (v x : Option K) : Option (Mean K) :=
  match v, x with
  | some v, some x => some ((⟨v, n⟩ : Mean K).push x)
  | _, _ => none

theorem meanStepPure_n (st : MSt K) (xs : List K) : (meanStepPure st xs).n = st.n + 1 := rfl

/-- **relation to the scalar model**: component `i` of `meanStepPure` is `Gpv.Mean.push` of
    component `i` of the state with the `i`-th value (no shape hypothesis) -/
theorem meanStepPure_val_getElem? (st : MSt K) (xs : List K) (i : Nat) :
    (meanStepPure st xs).val[i]? = (mCompPush st.n st.val[i]? xs[i]?).map (·.val) := by
  simp only [meanStepPure, List.getElem?_map, List.getElem?_zipWith, mCompPush]
  cases hv : st.val[i]? <;> cases hx : xs[i]? <;> simp

theorem meanStepPure_val_length {d : Nat} {st : MSt K} {xs : List K} (hs : st.Shaped d)
    (hx : xs.length = d) : (meanStepPure st xs).val.length = d := by
  have hs' : st.val.length = d := hs
  simp [meanStepPure, hs', hx]

/-- the pure step keeps the shape -/
theorem meanStepPure_shaped {d : Nat} {st : MSt K} {xs : List K} (hs : st.Shaped d)
    (hx : xs.length = d) : (meanStepPure st xs).Shaped d := meanStepPure_val_length hs hx

/-- in range: `meanStepPure` IS `Gpv.Mean.push` of the scalar model on component `i` -/
theorem meanStepPure_val_getElem {d : Nat} {st : MSt K} {xs : List K} (hs : st.Shaped d)
    (hx : xs.length = d) {i : Nat} (hi : i < d) :
    (meanStepPure st xs).val[i]'(by rw [meanStepPure_val_length hs hx]; exact hi) =
      ((⟨st.val[i]'(by rw [show st.val.length = d from hs]; exact hi), st.n⟩ : Mean K).push
        (xs[i]'(by rw [hx]; exact hi))).val := by
  have h := meanStepPure_val_getElem? st xs i
  rw [List.getElem?_eq_getElem (by rw [meanStepPure_val_length hs hx]; exact hi),
    List.getElem?_eq_getElem (by rw [show st.val.length = d from hs]; exact hi),
    List.getElem?_eq_getElem (by rw [hx]; exact hi)] at h
  simpa [mCompPush] using h
end meanPure

section meanSteps
variable {K : Type} [Add K] [Sub K] [Mul K] [Div K] [NatCast K] [Inhabited K]

/-- a well-shaped observation shows `d` values -/
theorem mReadObs_length {d : Nat} {st : MSt K} {o : Obs K} (h : o.Shaped d) :
    (mReadObs st o).length = d := readObs_length h

/-- a fresh array shows its own values in every state -/
theorem mReadObs_fresh (st : MSt K) (xs : List K) : mReadObs st (.fresh xs) = xs := rfl

/-- the one-statement code is the pure step on the values the observation shows — for ANY
    lists, shaped or not (both sides truncate alike) -/
theorem mean_one_eq_pure_any (st : MSt K) (o : Obs K) :
    meanStepOne st o = meanStepPure st (mReadObs st o) := by
  simp only [meanStepOne, meanStepPure, MSt.mk.injEq, and_true]
  apply List.ext_getElem
  · simp [meanUpd]; omega
  · intro i h1 h2
    simp [meanUpd, Mean.push]

/-- **the code as it is, is right for every view**: for every well-formed state and EVERY
    observation — the caller's own array, or any view σ of the state array `acc.value`
    (reversal, transposition, any permutation, repeated indices) — `Mean._accumulate_obj`
    treats the observation exactly like a copy of the values it shows at the moment of the
    call: it is the scalar `Gpv.Mean.push` in every component.  No field axiom is used, so the
    statement holds for floats as well. -/
theorem mean_one_eq_pure {d : Nat} {st : MSt K} {o : Obs K} (_h : MWF d st o) :
    meanStepOne st o = meanStepPure st (mReadObs st o) := mean_one_eq_pure_any st o

/-- the code as it is keeps the shape -/
theorem mean_one_shaped {d : Nat} {st : MSt K} {o : Obs K} (h : MWF d st o) :
    (meanStepOne st o).Shaped d := by
  rw [mean_one_eq_pure h]; exact meanStepPure_shaped h.1 (mReadObs_length h.2)

/-- the code as it is, as the array model of `Gpv.Model.Accum` (`Mean` instantiated at numpy
    operands): `Gpv.Mean.push` on the values the observation shows; no hypothesis, by
    unfolding. -/
theorem mean_one_toVal (st : MSt K) (o : Obs K) :
    (meanStepOne st o).toVal = st.toVal.push (.arr (mReadObs st o)) := rfl

/-- the component-wise step and the array model agree -/
theorem meanStepPure_toVal (st : MSt K) (xs : List K) :
    (meanStepPure st xs).toVal = st.toVal.push (.arr xs) := by
  rw [← mReadObs_fresh st xs, ← mean_one_eq_pure_any]; rfl

/-- the mean update `self.mean += obj` inside `Variance._accumulate_obj` (before or after the
    fix) is this very step: the `mean` array of `stepRaw` is the `val` array of `meanStepOne` -/
theorem stepRaw_mean_eq_meanStepOne (st : St K) (o : Obs K) :
    (stepRaw st o).mean = (meanStepOne ⟨st.mean, st.n⟩ o).val := rfl
end meanSteps

section meanField
variable {K : Type} [Field K] [Inhabited K]

/-- **without aliasing the rewrite is harmless**: on the caller's own array the two-statement
    version equals the one-statement version, as an identity of real numbers (any field):
    `v - v/n + x/n = v + (x/n - v/n)` in every component.  In floating point the two differ
    by rounding only (three roundings `fl(fl(v - fl(v/n)) + fl(x/n))` against
    `fl(v + fl(fl(x/n) - fl(v/n)))`); this theorem says nothing about floats. -/
theorem mean_two_fresh_eq_one (st : MSt K) (xs : List K) :
    meanStepTwo st (.fresh xs) = meanStepOne st (.fresh xs) := by
  simp only [meanStepTwo, meanStepOne, mReadObs_fresh, MSt.mk.injEq, and_true]
  apply List.ext_getElem
  · simp [meanUpd, vadd, vsub, vdivn]; omega
  · intro i h1 h2
    simp only [meanUpd, vadd, vsub, vdivn, List.getElem_zipWith, List.getElem_map]
    ring

/-- hence on fresh observations the rewrite is the pure step as well -/
theorem mean_two_fresh_eq_pure (st : MSt K) (xs : List K) :
    meanStepTwo st (.fresh xs) = meanStepPure st xs := by
  rw [mean_two_fresh_eq_one, mean_one_eq_pure_any, mReadObs_fresh]

/-- the code as it is, on the identity view `acc += acc.value`: the mean of the values plus
    their mean again is the same mean — the array does not move, only the count does -/
theorem mean_one_identity_view {d : Nat} {st : MSt K} (hs : st.Shaped d) :
    meanStepOne st (.view (List.range d)) = ⟨st.val, st.n + 1⟩ := by
  have hs' : st.val.length = d := hs
  subst hs'
  simp only [meanStepOne, mReadObs, MSt.asSt, readObs, gather_range, meanUpd_self]

/-- **the rewrite goes wrong even for `acc += acc.value`** (identity view, all d, any field):
    step 1 turns every component `v` into `v - v/n'`, step 2 reads THAT and adds its `n'`-th
    part, so the result is `v·(1 − 1/n'²)` in every component, `n' = n + 1` being the new
    count — not `v`, which is what the code as it is gives (`mean_one_identity_view`). -/
theorem mean_two_identity_view {d : Nat} {st : MSt K} (hs : st.Shaped d) :
    meanStepTwo st (.view (List.range d)) =
      ⟨st.val.map fun v => v * (1 - 1 / (((st.n + 1 : Nat) : K)) ^ 2), st.n + 1⟩ := by
  have hs' : st.val.length = d := hs
  subst hs'
  have hlen : (vsub st.val (vdivn st.val (st.n + 1))).length = st.val.length := by
    simp [vsub, vdivn]
  simp only [meanStepTwo, mReadObs, MSt.asSt, readObs, MSt.mk.injEq, and_true]
  rw [← hlen, gather_range]
  apply List.ext_getElem
  · simp [vadd, vsub, vdivn]
  · intro i h1 h2
    simp only [vadd, vsub, vdivn, List.getElem_zipWith, List.getElem_map]
    ring

/-- so on the identity view the rewrite differs from the code as it is in every component
    that is not zero, as soon as the new count is not zero in `K` (always, in ℚ or ℝ) -/
theorem mean_two_identity_view_ne_one {d : Nat} {st : MSt K} (hs : st.Shaped d)
    (hn : ((st.n + 1 : Nat) : K) ≠ 0) {i : Nat} (hi : i < d)
    (hv : st.val[i]'(by rw [show st.val.length = d from hs]; exact hi) ≠ 0) :
    (meanStepTwo st (.view (List.range d))).val[i]? ≠
      (meanStepOne st (.view (List.range d))).val[i]? := by
  have hi' : i < st.val.length := by rw [show st.val.length = d from hs]; exact hi
  rw [mean_two_identity_view hs, mean_one_identity_view hs]
  simp only [List.getElem?_map, List.getElem?_eq_getElem hi', Option.map_some, ne_eq,
    Option.some.injEq]
  intro h
  have h2 : st.val[i] * (1 / ((st.n + 1 : Nat) : K) ^ 2) = 0 := by
    have : st.val[i] * (1 - 1 / ((st.n + 1 : Nat) : K) ^ 2)
        = st.val[i] - st.val[i] * (1 / ((st.n + 1 : Nat) : K) ^ 2) := by ring
    rw [this] at h
    exact sub_eq_self.mp h
  rcases mul_eq_zero.mp h2 with h3 | h3
  · exact hv h3
  · exact (one_div_ne_zero (pow_ne_zero 2 hn)) h3
end meanField

section meanCounterexample

/-- `Mean` after `[10.25, 10.75]`, `[-10.75, -9.125]`, `[11.375, 12.875]` (the `mean` part of
    `exSt`), d = 2, n = 3 -/
def exM : MSt Rat := ⟨[29/8, 29/6], 3⟩

theorem exM_wf : MWF 2 exM exView := by
  refine ⟨rfl, rfl, ?_⟩
  decide

/-- `exM` is the state the three observations lead to (from the empty accumulator) -/
theorem exM_reached :
    [[41/4, 43/4], [-43/4, -73/8], [91/8, 103/8]].foldl meanStepPure (⟨[0, 0], 0⟩ : MSt Rat)
      = exM := by
  simp [meanStepPure, Mean.push, exM]
  norm_num

/-- the reversed view `acc.value[::-1]` shows the state array, reversed -/
theorem exM_read : mReadObs exM exView = [29/6, 29/8] := by
  simp [mReadObs, MSt.asSt, readObs, gather, exM, exView]

/-- the code as it is -/
theorem mean_one_view_value : meanStepOne exM exView = ⟨[377/96, 145/32], 4⟩ := by
  simp [meanStepOne, mReadObs, MSt.asSt, exM, exView, readObs, gather, meanUpd]
  norm_num

/-- the pure step on the values read -/
theorem mean_pure_view_value : meanStepPure exM (mReadObs exM exView) = ⟨[377/96, 145/32], 4⟩ := by
  rw [← mean_one_eq_pure exM_wf, mean_one_view_value]

/-- the two-statement rewrite: step 1 leaves `[87/32, 29/8]`, which the view shows reversed -/
theorem mean_two_view_value : meanStepTwo exM exView = ⟨[29/8, 551/128], 4⟩ := by
  simp [meanStepTwo, mReadObs, MSt.asSt, exM, exView, readObs, gather, vadd, vsub, vdivn]
  norm_num

/-- **the rewrite is wrong on a view** (d = 2, n = 3 → 4, exact rationals): for the state
    `[29/8, 29/6]` and the reversed view `acc.value[::-1]` the two-statement version gives
    `[29/8, 551/128]`, the pure step on the values read — and the code as it is — gives
    `[377/96, 145/32]`. -/
theorem mean_two_view_counterexample :
    meanStepTwo exM exView ≠ meanStepPure exM (mReadObs exM exView) := by
  rw [mean_two_view_value, mean_pure_view_value]
  intro h
  have h0 := congrArg (fun s : MSt Rat => s.val.head?) h
  norm_num at h0

theorem mean_two_ne_one_counterexample : meanStepTwo exM exView ≠ meanStepOne exM exView := by
  rw [mean_one_eq_pure exM_wf]; exact mean_two_view_counterexample

/-- even `acc += acc.value` goes wrong with the rewrite: `[29/8, 29/6]·(1 − 1/16)` instead of
    `[29/8, 29/6]` (instance of `mean_two_identity_view`) -/
theorem mean_two_identity_counterexample :
    meanStepTwo exM (.view [0, 1]) = ⟨[435/128, 145/32], 4⟩ ∧
    meanStepOne exM (.view [0, 1]) = ⟨[29/8, 29/6], 4⟩ := by
  have h2 := mean_two_identity_view (K := Rat) (d := 2) (st := exM) rfl
  have h1 := mean_one_identity_view (K := Rat) (d := 2) (st := exM) rfl
  have hr : List.range 2 = [0, 1] := rfl
  rw [hr] at h1 h2
  refine ⟨?_, h1⟩
  rw [h2]
  simp [exM]
  norm_num
end meanCounterexample

section meanIndependence
variable {K : Type} [Add K] [Sub K] [Mul K] [Div K] [NatCast K] [Inhabited K]

/-- The C12 clause for one step of an array `Mean` of `d` components: component `i` of the
    result depends only on component `i` of the state (and the count) and on the `i`-th value
    the observation shows — whatever the other components are, and whether the observations
    are fresh arrays or views. -/
def MIndependent (d : Nat) (step : MSt K → Obs K → MSt K) : Prop :=
  ∀ (st st' : MSt K) (o o' : Obs K) (i : Nat), MWF d st o → MWF d st' o' → st.n = st'.n →
    st.val[i]? = st'.val[i]? →
    (mReadObs st o)[i]? = (mReadObs st' o')[i]? →
    (step st o).val[i]? = (step st' o').val[i]?

/-- **components never influence each other (the code as it is)**: changing the other
    components of `st.val` (and the kind of observation) while keeping component `i` of the
    state and the `i`-th read value leaves component `i` of the result unchanged. -/
theorem mean_components_independent_one {d : Nat} {st st' : MSt K} {o o' : Obs K} {i : Nat}
    (h : MWF d st o) (h' : MWF d st' o') (hn : st.n = st'.n)
    (hv : st.val[i]? = st'.val[i]?)
    (hx : (mReadObs st o)[i]? = (mReadObs st' o')[i]?) :
    (meanStepOne st o).val[i]? = (meanStepOne st' o').val[i]? := by
  rw [mean_one_eq_pure h, mean_one_eq_pure h']
  simp only [meanStepPure_val_getElem?, hn, hv, hx]

theorem mean_one_independent (d : Nat) : MIndependent d (meanStepOne (K := K)) :=
  fun _ _ _ _ _ h h' hn hv hx => mean_components_independent_one h h' hn hv hx

/-- explicit form: component `i` of the code as it is, is the scalar `Mean.push` of component
    `i` of the state with the `i`-th read value -/
theorem mean_one_component (st : MSt K) (o : Obs K) (i : Nat) :
    (meanStepOne st o).val[i]? =
      (mCompPush st.n st.val[i]? (mReadObs st o)[i]?).map (·.val) := by
  rw [mean_one_eq_pure_any]; exact meanStepPure_val_getElem? _ _ _
end meanIndependence

section meanViolation
/-- **the two-statement rewrite violates independence** (d = 2): same state, same values
    read — once through the reversed view, once as a copy — different component 0
    (`29/8` against `377/96`).  The cross-talk is between a view and a copy only: for a view σ
    component `i` of the rewrite is `(v_i − v_i/n') + (v_σi − v_σi/n')/n'`, a function of
    `v_i` and the read value `v_σi` alone, but not the function used for a copy. -/
theorem mean_two_not_independent : ¬ MIndependent 2 (meanStepTwo (K := Rat)) := by
  intro hind
  have hwf' : MWF 2 exM (.fresh [29/6, 29/8]) := ⟨rfl, rfl⟩
  have h := hind exM exM exView (.fresh [29/6, 29/8]) 0 exM_wf hwf' rfl rfl
    (by rw [exM_read]; rfl)
  rw [mean_two_view_value, mean_two_fresh_eq_pure, ← exM_read, mean_pure_view_value] at h
  norm_num at h
end meanViolation

end Gpv.C12Alias

#print axioms Gpv.C12Alias.gather_length
#print axioms Gpv.C12Alias.readObs_length
#print axioms Gpv.C12Alias.copyIfView_eq
#print axioms Gpv.C12Alias.readObs_copyIfView
#print axioms Gpv.C12Alias.copyIfView_shaped
#print axioms Gpv.C12Alias.gather_range
#print axioms Gpv.C12Alias.stepPure_n
#print axioms Gpv.C12Alias.stepPure_mean_getElem?
#print axioms Gpv.C12Alias.stepPure_var_getElem?
#print axioms Gpv.C12Alias.stepPure_mean_length
#print axioms Gpv.C12Alias.stepPure_var_length
#print axioms Gpv.C12Alias.stepPure_shaped
#print axioms Gpv.C12Alias.stepPure_mean_getElem
#print axioms Gpv.C12Alias.stepPure_var_getElem
#print axioms Gpv.C12Alias.raw_fresh_eq_pure
#print axioms Gpv.C12Alias.fixed_eq_raw_copy
#print axioms Gpv.C12Alias.fixed_eq_pure
#print axioms Gpv.C12Alias.fixed_shaped
#print axioms Gpv.C12Alias.raw_fresh_toVal
#print axioms Gpv.C12Alias.fixed_toVal
#print axioms Gpv.C12Alias.stepPure_toVal
#print axioms Gpv.C12Alias.raw_eq_pure_of_stable
#print axioms Gpv.C12Alias.meanUpd_self
#print axioms Gpv.C12Alias.raw_identity_view_eq_pure
#print axioms Gpv.C12Alias.raw_identity_view_mean
#print axioms Gpv.C12Alias.exSt_wf
#print axioms Gpv.C12Alias.exSt_reached
#print axioms Gpv.C12Alias.exView_read
#print axioms Gpv.C12Alias.raw_view_value
#print axioms Gpv.C12Alias.pure_view_value
#print axioms Gpv.C12Alias.fixed_view_value
#print axioms Gpv.C12Alias.raw_view_counterexample
#print axioms Gpv.C12Alias.raw_ne_fixed_counterexample
#print axioms Gpv.C12Alias.components_independent_fixed
#print axioms Gpv.C12Alias.fixed_independent
#print axioms Gpv.C12Alias.fixed_component
#print axioms Gpv.C12Alias.raw_not_independent
#print axioms Gpv.C12Alias.exA_raw_value
#print axioms Gpv.C12Alias.exB_raw_value
#print axioms Gpv.C12Alias.raw_not_independent_other_component
#print axioms Gpv.C12Alias.raw_not_independent_3
#print axioms Gpv.C12Alias.cov_raw_fresh_eq_pure
#print axioms Gpv.C12Alias.cov_fixed_eq_raw_copy
#print axioms Gpv.C12Alias.cov_fixed_eq_pure
#print axioms Gpv.C12Alias.exC_wf
#print axioms Gpv.C12Alias.exC_read
#print axioms Gpv.C12Alias.cov_raw_view_value
#print axioms Gpv.C12Alias.cov_pure_view_value
#print axioms Gpv.C12Alias.cov_raw_view_counterexample
#print axioms Gpv.C12Alias.cov_raw_ne_fixed_counterexample
-- ADDED (section 7, plain Mean)
#print axioms Gpv.C12Alias.meanStepPure_n
#print axioms Gpv.C12Alias.meanStepPure_val_getElem?
#print axioms Gpv.C12Alias.meanStepPure_val_length
#print axioms Gpv.C12Alias.meanStepPure_shaped
#print axioms Gpv.C12Alias.meanStepPure_val_getElem
#print axioms Gpv.C12Alias.mReadObs_length
#print axioms Gpv.C12Alias.mReadObs_fresh
#print axioms Gpv.C12Alias.mean_one_eq_pure_any
#print axioms Gpv.C12Alias.mean_one_eq_pure
#print axioms Gpv.C12Alias.mean_one_shaped
#print axioms Gpv.C12Alias.mean_one_toVal
#print axioms Gpv.C12Alias.meanStepPure_toVal
#print axioms Gpv.C12Alias.stepRaw_mean_eq_meanStepOne
#print axioms Gpv.C12Alias.mean_two_fresh_eq_one
#print axioms Gpv.C12Alias.mean_two_fresh_eq_pure
#print axioms Gpv.C12Alias.mean_one_identity_view
#print axioms Gpv.C12Alias.mean_two_identity_view
#print axioms Gpv.C12Alias.mean_two_identity_view_ne_one
#print axioms Gpv.C12Alias.exM_wf
#print axioms Gpv.C12Alias.exM_reached
#print axioms Gpv.C12Alias.exM_read
#print axioms Gpv.C12Alias.mean_one_view_value
#print axioms Gpv.C12Alias.mean_pure_view_value
#print axioms Gpv.C12Alias.mean_two_view_value
#print axioms Gpv.C12Alias.mean_two_view_counterexample
#print axioms Gpv.C12Alias.mean_two_ne_one_counterexample
#print axioms Gpv.C12Alias.mean_two_identity_counterexample
#print axioms Gpv.C12Alias.mean_components_independent_one
#print axioms Gpv.C12Alias.mean_one_independent
#print axioms Gpv.C12Alias.mean_one_component
#print axioms Gpv.C12Alias.mean_two_not_independent
