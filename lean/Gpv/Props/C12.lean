/-
  C12 — array observations are handled component by component.

  The accumulators of `Gpv.Model.Accum` / `Gpv.Model.Running` are ONE generic
  definition each; here they are instantiated at `Val K` (numpy operands with
  broadcasting) and compared with the same definitions instantiated at `K`
  fed the component sequence `vs.map (Val.proj c)`.

  "Well-shaped": every observation is a scalar or an array with exactly `d`
  components (`Val.Shaped d`), `c < d`.  This covers "all arrays of one shape",
  "all scalars" and numpy's scalar/array broadcasting mix.  For Covariance the
  observations must be genuine arrays (`Val.IsArr d`).

  The projection theorems of `Gpv.Proofs.ValHom` use no field axiom at all (they
  hold for any `+ - * /`, so also for floats); the field / order is only needed
  to name the scalar runs `Mean.run`, `C05.minRun`, … and the batch statistics.
-/
import Gpv.Proofs.ValHom
import Gpv.Props.C06
import Mathlib.Algebra.Order.Field.Rat
import Mathlib.Tactic.NormNum
set_option linter.unusedSectionVars false

namespace Gpv.C12
open Gpv

/-! ### the array runs -/
section defs
variable {K : Type} [Add K] [Sub K] [Mul K] [Div K] [NatCast K]

def meanRunV (vs : List (Val K)) : Mean (Val K) := vs.foldl Mean.push Mean.init
def varRunV (vs : List (Val K)) : Variance (Val K) := vs.foldl Variance.push Variance.init
def covRunV (vs : List (Val K)) : Covariance K := vs.foldl Covariance.push Covariance.init
def minRunV [LT K] [DecidableLT K] (vs : List (Val K)) : Extremum (Val K) :=
  vs.foldl (Extremum.push (Val.map₂ kmin)) Extremum.init
def maxRunV [LT K] [DecidableLT K] (vs : List (Val K)) : Extremum (Val K) :=
  vs.foldl (Extremum.push (Val.map₂ kmax)) Extremum.init
def rmeanRunV [LT K] [DecidableLT K] (l : K) (vs : List (Val K)) : RMeanV K :=
  vs.foldl RMeanV.push (RMeanV.init l)
def rvarRunV [LT K] [DecidableLT K] (l : K) (vs : List (Val K)) : RVarianceV K :=
  vs.foldl RVarianceV.push (RVarianceV.init l)
/-- the scalar running accumulators (same `push`, at `K`) -/
def rmeanRun [LT K] [DecidableLT K] (l : K) (xs : List K) : RMean K := xs.foldl RMean.push (RMean.init l)
def rvarRun [LT K] [DecidableLT K] (l : K) (xs : List K) : RVariance K :=
  xs.foldl RVariance.push (RVariance.init l)

/-- every observation is a scalar or an array of `d` components -/
def WellShaped (d : Nat) (vs : List (Val K)) : Prop := ∀ v ∈ vs, v.Shaped d
/-- every observation is an array of `d` components -/
def AllArr (d : Nat) (vs : List (Val K)) : Prop := ∀ v ∈ vs, v.IsArr d

theorem AllArr.wellShaped {d : Nat} {vs : List (Val K)} (h : AllArr d vs) : WellShaped d vs :=
  fun v hv => (h v hv).shaped

variable [Inhabited K]
/-- the scalar sequence seen by component `c` -/
def comp (c : Nat) (vs : List (Val K)) : List K := vs.map (Val.proj c)
/-- the sequence of pairs seen by entry `(i, j)` of the covariance matrix -/
def pairs (i j : Nat) (vs : List (Val K)) : List (K × K) := vs.map fun v => (v.proj i, v.proj j)
end defs

/-! ### 1. `proj` is a homomorphism on well-shaped operands (any carrier, any operations) -/
section hom
variable {K : Type} [Inhabited K] {d c : Nat} {a b : Val K}

theorem proj_add [Add K] (ha : a.Shaped d) (hb : b.Shaped d) (hc : c < d) :
    (a + b).proj c = a.proj c + b.proj c := Val.proj_add d ha hb hc
theorem proj_sub [Sub K] (ha : a.Shaped d) (hb : b.Shaped d) (hc : c < d) :
    (a - b).proj c = a.proj c - b.proj c := Val.proj_sub d ha hb hc
theorem proj_mul [Mul K] (ha : a.Shaped d) (hb : b.Shaped d) (hc : c < d) :
    (a * b).proj c = a.proj c * b.proj c := Val.proj_mul d ha hb hc
theorem proj_div [Div K] (ha : a.Shaped d) (hb : b.Shaped d) (hc : c < d) :
    (a / b).proj c = a.proj c / b.proj c := Val.proj_div d ha hb hc
theorem proj_natCast [NatCast K] (n : Nat) : ((n : Nat) : Val K).proj c = (n : K) := rfl
theorem proj_kmin [LT K] [DecidableLT K] (ha : a.Shaped d) (hb : b.Shaped d) (hc : c < d) :
    (Val.map₂ kmin a b).proj c = kmin (a.proj c) (b.proj c) := Val.proj_map₂ d _ ha hb hc
theorem proj_kmax [LT K] [DecidableLT K] (ha : a.Shaped d) (hb : b.Shaped d) (hc : c < d) :
    (Val.map₂ kmax a b).proj c = kmax (a.proj c) (b.proj c) := Val.proj_map₂ d _ ha hb hc
/-- the general form: every broadcast binary ufunc -/
theorem proj_ufunc (f : K → K → K) (ha : a.Shaped d) (hb : b.Shaped d) (hc : c < d) :
    (Val.map₂ f a b).proj c = f (a.proj c) (b.proj c) := Val.proj_map₂ d f ha hb hc

/-- size bookkeeping -/
theorem shaped_ufunc (f : K → K → K) (ha : a.Shaped d) (hb : b.Shaped d) :
    (Val.map₂ f a b).Shaped d := Val.shaped_map₂ d f ha hb
theorem shaped_add [Add K] (ha : a.Shaped d) (hb : b.Shaped d) : (a + b).Shaped d := Val.shaped_add d ha hb
theorem shaped_sub [Sub K] (ha : a.Shaped d) (hb : b.Shaped d) : (a - b).Shaped d := Val.shaped_sub d ha hb
theorem shaped_mul [Mul K] (ha : a.Shaped d) (hb : b.Shaped d) : (a * b).Shaped d := Val.shaped_mul d ha hb
theorem shaped_div [Div K] (ha : a.Shaped d) (hb : b.Shaped d) : (a / b).Shaped d := Val.shaped_div d ha hb
theorem shaped_natCast [NatCast K] (n : Nat) : ((n : Nat) : Val K).Shaped d := trivial
/-- an array operand forces an array result (first observation: `scalar 0` becomes an array) -/
theorem isArr_ufunc_left (f : K → K → K) (ha : a.IsArr d) (hb : b.Shaped d) :
    (Val.map₂ f a b).IsArr d := Val.isArr_map₂_left d f ha hb
theorem isArr_ufunc_right (f : K → K → K) (ha : a.Shaped d) (hb : b.IsArr d) :
    (Val.map₂ f a b).IsArr d := Val.isArr_map₂_right d f ha hb
/-- `np.outer`, flattened row-major -/
theorem proj_outer [Mul K] {i j : Nat} (ha : a.IsArr d) (hb : b.IsArr d) (hi : i < d) (hj : j < d) :
    (Val.outer a b).proj (i * d + j) = a.proj i * b.proj j := Val.proj_outer d ha hb hi hj
theorem isArr_outer [Mul K] (ha : a.IsArr d) (hb : b.IsArr d) : (Val.outer a b).IsArr (d * d) :=
  Val.isArr_outer d ha hb
end hom

/-! ### 2.–3. Mean and Variance, after every observation -/
section field
variable {K : Type} [Field K] [CharZero K] [Inhabited K] {d c : Nat}

/-- component `c` of the array `Mean` state is the scalar `Mean` state of component `c` -/
theorem mean_proj_state (hc : c < d) (vs : List (Val K)) (h : WellShaped d vs) :
    (meanRunV vs).proj c = Mean.run (comp c vs) ∧ (meanRunV vs).val.Shaped d := by
  have := Mean.foldl_proj d hc vs h Mean.init (Mean.init_shaped d)
  exact ⟨this.2, this.1⟩

theorem mean_proj (hc : c < d) (vs : List (Val K)) (h : WellShaped d vs) :
    (meanRunV vs).val.proj c = (Mean.run (comp c vs)).val
      ∧ (meanRunV vs).n = (Mean.run (comp c vs)).n := by
  have := (mean_proj_state hc vs h).1
  exact ⟨congrArg Mean.val this, congrArg Mean.n this⟩

/-- so it is the arithmetic mean of that component, and `n` the number of observations -/
theorem mean_proj_batch (hc : c < d) (vs : List (Val K)) (h : WellShaped d vs) (hne : vs ≠ []) :
    (meanRunV vs).val.proj c = batchMean (comp c vs) ∧ (meanRunV vs).n = vs.length := by
  have hne' : comp c vs ≠ [] := by simpa [comp] using hne
  obtain ⟨h1, h2⟩ := mean_proj hc vs h
  have := C05.mean_eq (comp c vs) hne'
  exact ⟨h1.trans this.1, by rw [h2, this.2]; simp [comp]⟩

theorem variance_proj_state (hc : c < d) (vs : List (Val K)) (h : WellShaped d vs) :
    (varRunV vs).proj c = Variance.run (comp c vs) ∧ (varRunV vs).Shaped d := by
  have := Variance.foldl_proj d hc vs h Variance.init (Variance.init_shaped d)
  exact ⟨this.2, this.1⟩

theorem variance_proj (hc : c < d) (vs : List (Val K)) (h : WellShaped d vs) :
    (varRunV vs).mean.val.proj c = (Variance.run (comp c vs)).mean.val
      ∧ (varRunV vs).var.val.proj c = (Variance.run (comp c vs)).var.val
      ∧ (varRunV vs).n = (Variance.run (comp c vs)).n
      ∧ (varRunV vs).var.n = (Variance.run (comp c vs)).var.n
      ∧ (varRunV vs).value.map (Val.proj c) = (Variance.run (comp c vs)).value := by
  obtain ⟨h1, h2⟩ := variance_proj_state hc vs h
  refine ⟨congrArg (fun s => s.mean.val) h1, congrArg (fun s => s.var.val) h1,
    congrArg (fun s => s.mean.n) h1, congrArg (fun s => s.var.n) h1, ?_⟩
  rw [Variance.value_proj d hc h2, h1]

/-- `n = 1`: the array read-out raises exactly when the scalar one does -/
theorem variance_proj_n1 (hc : c < d) (v : Val K) (h : v.Shaped d) :
    (varRunV [v]).value.map (Val.proj c) = .error .zeroDiv := by
  have := (variance_proj hc [v] (by intro w hw; simp at hw; subst hw; exact h)).2.2.2.2
  rw [this]
  exact C05.variance_n1_error _

/-- for `n ≥ 2` component `c` of the read-out is the sample variance of component `c` -/
theorem variance_proj_batch (hc : c < d) (vs : List (Val K)) (h : WellShaped d vs) (h2 : 2 ≤ vs.length) :
    (varRunV vs).value.map (Val.proj c) = .ok (batchVar (comp c vs)) := by
  rw [(variance_proj hc vs h).2.2.2.2, C05.variance_eq _ (by simpa [comp] using h2)]

/-! ### 5a. merges of Mean / Variance -/

/-- one merge of two array states, projected = merge of the projected states -/
theorem mean_merge_proj (hc : c < d) (s o : Mean (Val K)) (hs : s.val.Shaped d) (ho : o.val.Shaped d) :
    (s.merge o).proj c = (s.proj c).merge (o.proj c) ∧ (s.merge o).val.Shaped d :=
  ⟨Mean.merge_proj d hc hs ho, Mean.merge_shaped d hs ho⟩

theorem variance_merge_proj (hc : c < d) (s o : Variance (Val K)) (hs : s.Shaped d) (ho : o.Shaped d) :
    (s.merge o).proj c = (s.proj c).merge (o.proj c) ∧ (s.merge o).Shaped d :=
  ⟨Variance.merge_proj d hc hs ho, Variance.merge_shaped d hs ho⟩

/-- merging two array runs = the scalar run over both parts, in every component -/
theorem mean_merge_run_proj (hc : c < d) (vs ws : List (Val K)) (hv : WellShaped d vs)
    (hw : WellShaped d ws) :
    ((meanRunV vs).merge (meanRunV ws)).proj c = Mean.run (comp c (vs ++ ws)) := by
  obtain ⟨a1, a2⟩ := mean_proj_state hc vs hv
  obtain ⟨b1, b2⟩ := mean_proj_state hc ws hw
  rw [Mean.merge_proj d hc a2 b2, a1, b1, C06.mean_merge_eq]
  simp [comp]

theorem variance_merge_run_proj (hc : c < d) (vs ws : List (Val K)) (hv : WellShaped d vs)
    (hw : WellShaped d ws) :
    ((varRunV vs).merge (varRunV ws)).proj c = Variance.run (comp c (vs ++ ws)) := by
  obtain ⟨a1, a2⟩ := variance_proj_state hc vs hv
  obtain ⟨b1, b2⟩ := variance_proj_state hc ws hw
  rw [Variance.merge_proj d hc a2 b2, a1, b1, C06.variance_merge_eq]
  simp [comp]

/-- every binary merge tree of array accumulators, in every component, is the scalar
    accumulator fed that component of all observations -/
theorem mean_tree_proj (hc : c < d) (t : C06.MTree (Val K)) (h : WellShaped d t.flatten) :
    (t.eval meanRunV Mean.merge).proj c = Mean.run (comp c t.flatten)
      ∧ (t.eval meanRunV Mean.merge).val.Shaped d := by
  induction t with
  | leaf vs => exact mean_proj_state hc vs h
  | node l r ihl ihr =>
    have hl : WellShaped d l.flatten := fun v hv => h v (by simp [C06.MTree.flatten, hv])
    have hr : WellShaped d r.flatten := fun v hv => h v (by simp [C06.MTree.flatten, hv])
    obtain ⟨a1, a2⟩ := ihl hl
    obtain ⟨b1, b2⟩ := ihr hr
    refine ⟨?_, Mean.merge_shaped d a2 b2⟩
    simp only [C06.MTree.eval, C06.MTree.flatten]
    rw [Mean.merge_proj d hc a2 b2, a1, b1, C06.mean_merge_eq]
    simp [comp]

theorem variance_tree_proj (hc : c < d) (t : C06.MTree (Val K)) (h : WellShaped d t.flatten) :
    (t.eval varRunV Variance.merge).proj c = Variance.run (comp c t.flatten)
      ∧ (t.eval varRunV Variance.merge).Shaped d := by
  induction t with
  | leaf vs => exact variance_proj_state hc vs h
  | node l r ihl ihr =>
    have hl : WellShaped d l.flatten := fun v hv => h v (by simp [C06.MTree.flatten, hv])
    have hr : WellShaped d r.flatten := fun v hv => h v (by simp [C06.MTree.flatten, hv])
    obtain ⟨a1, a2⟩ := ihl hl
    obtain ⟨b1, b2⟩ := ihr hr
    refine ⟨?_, Variance.merge_shaped d a2 b2⟩
    simp only [C06.MTree.eval, C06.MTree.flatten]
    rw [Variance.merge_proj d hc a2 b2, a1, b1, C06.variance_merge_eq]
    simp [comp]

/-! ### 7. Covariance: entry (i, j) -/

theorem cov_entry_state {i j : Nat} (hi : i < d) (hj : j < d) (vs : List (Val K)) (h : AllArr d vs) :
    (covRunV vs).entry d i j = Cov2.run (pairs i j vs) ∧ (covRunV vs).Shaped d := by
  have := Covariance.foldl_entry d hi hj vs h Covariance.init (Covariance.init_shaped d)
  exact ⟨this.2, this.1⟩

theorem cov_entry {i j : Nat} (hi : i < d) (hj : j < d) (vs : List (Val K)) (h : AllArr d vs) :
    (covRunV vs).cov.val.proj (i * d + j) = (Cov2.run (pairs i j vs)).c.val
      ∧ (covRunV vs).mean.val.proj i = (Cov2.run (pairs i j vs)).mx.val
      ∧ (covRunV vs).mean.val.proj j = (Cov2.run (pairs i j vs)).my.val
      ∧ (covRunV vs).n = vs.length
      ∧ (covRunV vs).cov.n = vs.length
      ∧ (covRunV vs).value.map (Val.proj (i * d + j)) = (Cov2.run (pairs i j vs)).value := by
  obtain ⟨h1, h2⟩ := cov_entry_state hi hj vs h
  have hi' := Cov2.run_inv (pairs i j vs)
  have hlen : (pairs i j vs).length = vs.length := by simp [pairs]
  refine ⟨congrArg (fun s => s.c.val) h1, congrArg (fun s => s.mx.val) h1,
    congrArg (fun s => s.my.val) h1, ?_, ?_, ?_⟩
  · have := congrArg (fun s => s.mx.n) h1
    simp only [Covariance.entry, Mean.proj_n] at this
    rw [Covariance.n, this, hi'.mx_n, hlen]
  · have := congrArg (fun s => s.c.n) h1
    simp only [Covariance.entry, Mean.proj_n] at this
    rw [this, hi'.c_n, hlen]
  · rw [Covariance.value_entry d hi hj h2, h1]

/-- the mean vector of the covariance accumulator is the vector of component means -/
theorem cov_mean_proj (hc : c < d) (vs : List (Val K)) (h : AllArr d vs) :
    (covRunV vs).mean.proj c = Mean.run (comp c vs) := by
  have h1 := (cov_entry_state hc hc vs h).1
  have h2 := (Cov2.mean_eq_run (pairs c c vs)).1
  have : (covRunV vs).mean.proj c = (Cov2.run (pairs c c vs)).mx := congrArg (fun s => s.mx) h1
  rw [this, h2]
  simp [pairs, comp, List.map_map, Function.comp_def]

/-- entry (i, j) of the read-out is the sample covariance of components i and j -/
theorem cov_entry_batch {i j : Nat} (hi : i < d) (hj : j < d) (vs : List (Val K)) (h : AllArr d vs)
    (h2 : 2 ≤ vs.length) :
    (covRunV vs).value.map (Val.proj (i * d + j)) = .ok (batchCov (pairs i j vs)) := by
  rw [(cov_entry hi hj vs h).2.2.2.2.2, C05.cov_eq _ (by simpa [pairs] using h2)]

theorem pairs_swap (i j : Nat) (vs : List (Val K)) : pairs j i vs = (pairs i j vs).map Prod.swap := by
  simp [pairs, List.map_map, Function.comp_def]

/-- the matrix is symmetric -/
theorem cov_entry_symm {i j : Nat} (hi : i < d) (hj : j < d) (vs : List (Val K)) (h : AllArr d vs) :
    (covRunV vs).cov.val.proj (i * d + j) = (covRunV vs).cov.val.proj (j * d + i)
      ∧ (covRunV vs).value.map (Val.proj (i * d + j)) = (covRunV vs).value.map (Val.proj (j * d + i)) := by
  have a := cov_entry hi hj vs h
  have b := cov_entry hj hi vs h
  have s := C05.cov_symm (pairs i j vs)
  rw [← pairs_swap] at s
  exact ⟨by rw [a.1, b.1, s.1], by rw [a.2.2.2.2.2, b.2.2.2.2.2, s.2]⟩

theorem pairs_diag (i : Nat) (vs : List (Val K)) : pairs i i vs = (comp i vs).map fun x => (x, x) := by
  simp [pairs, comp, List.map_map, Function.comp_def]

/-- the diagonal is the Variance accumulator of that component -/
theorem cov_diag {i : Nat} (hi : i < d) (vs : List (Val K)) (h : AllArr d vs) :
    (covRunV vs).cov.val.proj (i * d + i) = (Variance.run (comp i vs)).var.val
      ∧ (covRunV vs).value.map (Val.proj (i * d + i)) = (Variance.run (comp i vs)).value
      ∧ (covRunV vs).cov.val.proj (i * d + i) = (varRunV vs).var.val.proj i
      ∧ (covRunV vs).value.map (Val.proj (i * d + i)) = (varRunV vs).value.map (Val.proj i) := by
  have a := cov_entry hi hi vs h
  have v := variance_proj hi vs h.wellShaped
  have s := C05.cov_diag_eq_variance (comp i vs)
  rw [← pairs_diag] at s
  have e1 : (covRunV vs).cov.val.proj (i * d + i) = (Variance.run (comp i vs)).var.val := by
    rw [a.1, s.2.2.1]
  have e2 : (covRunV vs).value.map (Val.proj (i * d + i)) = (Variance.run (comp i vs)).value := by
    rw [a.2.2.2.2.2, s.2.2.2]
  exact ⟨e1, e2, by rw [e1, v.2.1], by rw [e2, v.2.2.2.2]⟩

/-- one merge of two covariance states, entry by entry (state level; see
    `Covariance.merge_entry` for the hypothesis on the mean vectors) -/
theorem cov_merge_entry {i j : Nat} (hi : i < d) (hj : j < d) (vs ws : List (Val K))
    (hv : AllArr d vs) (hw : AllArr d ws) :
    ((covRunV vs).merge (covRunV ws)).entry d i j = Cov2.run (pairs i j (vs ++ ws)) := by
  obtain ⟨a1, a2⟩ := cov_entry_state hi hj vs hv
  obtain ⟨b1, b2⟩ := cov_entry_state hi hj ws hw
  have harr : ((covRunV vs).mean.val.IsArr d ∨ (covRunV ws).mean.val.IsArr d)
      ∨ (covRunV vs).n + (covRunV ws).n = 0 := by
    rcases vs with _ | ⟨v, vs⟩
    · rcases ws with _ | ⟨w, ws⟩
      · exact Or.inr rfl
      · exact Or.inl (Or.inr (Covariance.foldl_mean_isArr d _ hw _ (Covariance.init_shaped d)
          (Or.inl (by simp))))
    · exact Or.inl (Or.inl (Covariance.foldl_mean_isArr d _ hv _ (Covariance.init_shaped d)
        (Or.inl (by simp))))
  rw [Covariance.merge_entry d hi hj a2 b2 harr, a1, b1, C06.cov_merge_eq]
  simp [pairs]

end field

/-! ### 4. / 5b. Minimum and Maximum -/
section order
variable {K : Type} [LinearOrder K] [Inhabited K] {d c : Nat}

theorem min_proj (hc : c < d) (vs : List (Val K)) (h : WellShaped d vs) :
    (minRunV vs).proj c = C05.minRun (comp c vs) ∧ (minRunV vs).Shaped d := by
  have := Extremum.foldl_proj d hc kmin vs h Extremum.init (Extremum.init_shaped d)
  exact ⟨this.2, this.1⟩

theorem max_proj (hc : c < d) (vs : List (Val K)) (h : WellShaped d vs) :
    (maxRunV vs).proj c = C05.maxRun (comp c vs) ∧ (maxRunV vs).Shaped d := by
  have := Extremum.foldl_proj d hc kmax vs h Extremum.init (Extremum.init_shaped d)
  exact ⟨this.2, this.1⟩

/-- read-out form: component `c` of the stored array is the least element of component `c` -/
theorem min_proj_value (hc : c < d) (vs : List (Val K)) (h : WellShaped d vs) (hne : vs ≠ []) :
    ∃ a, (minRunV vs).acc = some a ∧ a.proj c ∈ comp c vs ∧ (∀ x ∈ comp c vs, a.proj c ≤ x)
      ∧ (minRunV vs).n = vs.length := by
  obtain ⟨m, hm, hmem, hle, hn⟩ := C05.min_eq (comp c vs) (by simpa [comp] using hne)
  have hp := (min_proj hc vs h).1
  rw [← hp] at hm hn
  simp only [Extremum.proj] at hm hn
  cases hacc : (minRunV vs).acc with
  | none => rw [hacc] at hm; simp at hm
  | some a =>
    rw [hacc] at hm
    simp only [Option.map_some, Option.some.injEq] at hm
    exact ⟨a, rfl, by rw [hm]; exact hmem, by rw [hm]; exact hle, by rw [hn]; simp [comp]⟩

theorem max_proj_value (hc : c < d) (vs : List (Val K)) (h : WellShaped d vs) (hne : vs ≠ []) :
    ∃ a, (maxRunV vs).acc = some a ∧ a.proj c ∈ comp c vs ∧ (∀ x ∈ comp c vs, x ≤ a.proj c)
      ∧ (maxRunV vs).n = vs.length := by
  obtain ⟨m, hm, hmem, hle, hn⟩ := C05.max_eq (comp c vs) (by simpa [comp] using hne)
  have hp := (max_proj hc vs h).1
  rw [← hp] at hm hn
  simp only [Extremum.proj] at hm hn
  cases hacc : (maxRunV vs).acc with
  | none => rw [hacc] at hm; simp at hm
  | some a =>
    rw [hacc] at hm
    simp only [Option.map_some, Option.some.injEq] at hm
    exact ⟨a, rfl, by rw [hm]; exact hmem, by rw [hm]; exact hle, by rw [hn]; simp [comp]⟩

theorem min_merge_proj (hc : c < d) (s o : Extremum (Val K)) (hs : s.Shaped d) (ho : o.Shaped d) :
    (Extremum.merge (Val.map₂ kmin) s o).proj c = Extremum.merge kmin (s.proj c) (o.proj c)
      ∧ (Extremum.merge (Val.map₂ kmin) s o).Shaped d :=
  ⟨Extremum.merge_proj d hc kmin hs ho, Extremum.merge_shaped d kmin hs ho⟩

theorem max_merge_proj (hc : c < d) (s o : Extremum (Val K)) (hs : s.Shaped d) (ho : o.Shaped d) :
    (Extremum.merge (Val.map₂ kmax) s o).proj c = Extremum.merge kmax (s.proj c) (o.proj c)
      ∧ (Extremum.merge (Val.map₂ kmax) s o).Shaped d :=
  ⟨Extremum.merge_proj d hc kmax hs ho, Extremum.merge_shaped d kmax hs ho⟩

theorem min_tree_proj (hc : c < d) (t : C06.MTree (Val K)) (h : WellShaped d t.flatten) :
    (t.eval minRunV (Extremum.merge (Val.map₂ kmin))).proj c = C05.minRun (comp c t.flatten)
      ∧ (t.eval minRunV (Extremum.merge (Val.map₂ kmin))).Shaped d := by
  induction t with
  | leaf vs => exact min_proj hc vs h
  | node l r ihl ihr =>
    have hl : WellShaped d l.flatten := fun v hv => h v (by simp [C06.MTree.flatten, hv])
    have hr : WellShaped d r.flatten := fun v hv => h v (by simp [C06.MTree.flatten, hv])
    obtain ⟨a1, a2⟩ := ihl hl
    obtain ⟨b1, b2⟩ := ihr hr
    refine ⟨?_, Extremum.merge_shaped d kmin a2 b2⟩
    simp only [C06.MTree.eval, C06.MTree.flatten]
    rw [Extremum.merge_proj d hc kmin a2 b2, a1, b1, C06.min_merge_eq]
    simp [comp]

theorem max_tree_proj (hc : c < d) (t : C06.MTree (Val K)) (h : WellShaped d t.flatten) :
    (t.eval maxRunV (Extremum.merge (Val.map₂ kmax))).proj c = C05.maxRun (comp c t.flatten)
      ∧ (t.eval maxRunV (Extremum.merge (Val.map₂ kmax))).Shaped d := by
  induction t with
  | leaf vs => exact max_proj hc vs h
  | node l r ihl ihr =>
    have hl : WellShaped d l.flatten := fun v hv => h v (by simp [C06.MTree.flatten, hv])
    have hr : WellShaped d r.flatten := fun v hv => h v (by simp [C06.MTree.flatten, hv])
    obtain ⟨a1, a2⟩ := ihl hl
    obtain ⟨b1, b2⟩ := ihr hr
    refine ⟨?_, Extremum.merge_shaped d kmax a2 b2⟩
    simp only [C06.MTree.eval, C06.MTree.flatten]
    rw [Extremum.merge_proj d hc kmax a2 b2, a1, b1, C06.max_merge_eq]
    simp [comp]

end order

/-! ### 6. RunningMean / RunningVariance (any lifetime `l`; no field axiom needed) -/
section running
variable {K : Type} [Add K] [Sub K] [Mul K] [Div K] [NatCast K] [LT K] [DecidableLT K] [Inhabited K]
  {d c : Nat}

theorem rmean_proj (hc : c < d) (l : K) (vs : List (Val K)) (h : WellShaped d vs) :
    (rmeanRunV l vs).proj c = rmeanRun l (comp c vs) ∧ (rmeanRunV l vs).acc.Shaped d := by
  have := RMeanV.foldl_proj d hc vs h (RMeanV.init l) (RMeanV.init_shaped d l)
  exact ⟨this.2, this.1⟩

/-- field by field -/
theorem rmean_proj_fields (hc : c < d) (l : K) (vs : List (Val K)) (h : WellShaped d vs) :
    (rmeanRunV l vs).acc.proj c = (rmeanRun l (comp c vs)).acc
      ∧ (rmeanRunV l vs).n = (rmeanRun l (comp c vs)).n
      ∧ (rmeanRunV l vs).alpha = (rmeanRun l (comp c vs)).alpha := by
  have := (rmean_proj hc l vs h).1
  exact ⟨congrArg RMean.acc this, congrArg RMean.n this, congrArg RMean.alpha this⟩

theorem rvariance_proj (hc : c < d) (l : K) (vs : List (Val K)) (h : WellShaped d vs) :
    (rvarRunV l vs).proj c = rvarRun l (comp c vs)
      ∧ (rvarRunV l vs).value.map (Val.proj c) = (rvarRun l (comp c vs)).value
      ∧ (rvarRunV l vs).Shaped d := by
  have this : (rvarRunV l vs).Shaped d ∧ (rvarRunV l vs).proj c = rvarRun l (comp c vs) :=
    RVarianceV.foldl_proj d hc vs h (RVarianceV.init l) (RVarianceV.init_shaped d l)
  refine ⟨this.2, ?_, this.1⟩
  rw [RVarianceV.value_proj d hc this.1, this.2]

end running

/-! ### 8. no cross-talk: component `c` of the result depends on component `c` of the
    observations only -/
section crosstalk
variable {K : Type} [Field K] [CharZero K] [Inhabited K] {d c : Nat}

theorem no_crosstalk (hc : c < d) (vs ws : List (Val K)) (hv : WellShaped d vs) (hw : WellShaped d ws)
    (h : comp c vs = comp c ws) :
    (meanRunV vs).proj c = (meanRunV ws).proj c
      ∧ (varRunV vs).proj c = (varRunV ws).proj c
      ∧ (varRunV vs).value.map (Val.proj c) = (varRunV ws).value.map (Val.proj c) := by
  refine ⟨?_, ?_, ?_⟩
  · rw [(mean_proj_state hc vs hv).1, (mean_proj_state hc ws hw).1, h]
  · rw [(variance_proj_state hc vs hv).1, (variance_proj_state hc ws hw).1, h]
  · rw [(variance_proj hc vs hv).2.2.2.2, (variance_proj hc ws hw).2.2.2.2, h]

theorem no_crosstalk_minmax {L : Type} [LinearOrder L] [Inhabited L] (hc : c < d)
    (vs ws : List (Val L)) (hv : WellShaped d vs) (hw : WellShaped d ws) (h : comp c vs = comp c ws) :
    (minRunV vs).proj c = (minRunV ws).proj c ∧ (maxRunV vs).proj c = (maxRunV ws).proj c := by
  refine ⟨?_, ?_⟩
  · rw [(min_proj hc vs hv).1, (min_proj hc ws hw).1, h]
  · rw [(max_proj hc vs hv).1, (max_proj hc ws hw).1, h]

/-- overwriting another component `c' ≠ c`, by any values `ys k`, in every observation -/
def perturb {K : Type} (c' : Nat) (ys : Nat → K) (vs : List (Val K)) : List (Val K) :=
  vs.mapIdx fun k v => Val.setComp c' (ys k) v

theorem comp_perturb {K : Type} [Inhabited K] {c c' : Nat} (hne : c' ≠ c) (ys : Nat → K)
    (vs : List (Val K)) : comp c (perturb c' ys vs) = comp c vs := by
  apply List.ext_getElem
  · simp [comp, perturb]
  · intro k h1 h2
    simp [comp, perturb, Val.proj_setComp_ne hne]

theorem wellShaped_perturb {K : Type} {d : Nat} (c' : Nat) (ys : Nat → K) (vs : List (Val K))
    (h : WellShaped d vs) : WellShaped d (perturb c' ys vs) := by
  intro v hv
  obtain ⟨k, hk, rfl⟩ := List.mem_mapIdx.mp hv
  exact Val.shaped_setComp d c' _ (h _ (List.getElem_mem _))

/-- changing component `c' ≠ c` of the observations leaves component `c` of Mean / Variance alone -/
theorem no_crosstalk_perturb {c' : Nat} (hc : c < d) (hne : c' ≠ c) (ys : Nat → K) (vs : List (Val K))
    (hv : WellShaped d vs) :
    (meanRunV (perturb c' ys vs)).proj c = (meanRunV vs).proj c
      ∧ (varRunV (perturb c' ys vs)).proj c = (varRunV vs).proj c
      ∧ (varRunV (perturb c' ys vs)).value.map (Val.proj c) = (varRunV vs).value.map (Val.proj c) :=
  no_crosstalk hc _ _ (wellShaped_perturb c' ys vs hv) hv (comp_perturb hne ys vs)

theorem no_crosstalk_perturb_minmax {L : Type} [LinearOrder L] [Inhabited L] {c' : Nat} (hc : c < d)
    (hne : c' ≠ c) (ys : Nat → L) (vs : List (Val L)) (hv : WellShaped d vs) :
    (minRunV (perturb c' ys vs)).proj c = (minRunV vs).proj c
      ∧ (maxRunV (perturb c' ys vs)).proj c = (maxRunV vs).proj c :=
  no_crosstalk_minmax hc _ _ (wellShaped_perturb c' ys vs hv) hv (comp_perturb hne ys vs)

end crosstalk

/-! ### 9. non-vacuity: ℚ, d = 2, three observations -/
section examples
local instance : Inhabited ℚ := ⟨0⟩

def exVs : List (Val ℚ) := [.arr [1, 10], .arr [2, 20], .arr [6, 0]]

example : AllArr 2 exVs := by
  intro v hv
  simp only [exVs, List.mem_cons, List.not_mem_nil, or_false] at hv
  rcases hv with rfl | rfl | rfl <;> rfl

example : comp 0 exVs = [1, 2, 6] ∧ comp 1 exVs = [10, 20, 0] := ⟨rfl, rfl⟩


example : (meanRunV exVs).val = .arr [3, 10] ∧ (meanRunV exVs).n = 3 := by
  norm_num [meanRunV, exVs, Mean.push, Mean.init, Val.add_def, Val.sub_def, Val.div_def,
    Val.natCast_def, Val.map₂]

example : (Mean.run (comp 0 exVs)).val = 3 ∧ (Mean.run (comp 1 exVs)).val = 10 := by
  norm_num [Mean.run, comp, exVs, Val.proj, Mean.push, Mean.init]

example : (varRunV exVs).value = .ok (.arr [7, 100]) := by
  norm_num [varRunV, exVs, Variance.value, Variance.n, Variance.push, Variance.init, Mean.push, Mean.init, Val.add_def, Val.sub_def,
    Val.mul_def, Val.div_def, Val.natCast_def, Val.map₂]

example : (varRunV [Val.arr [(1:ℚ), 10]]).value = .error .zeroDiv := by
  norm_num [varRunV, Variance.value, Variance.n, Variance.push, Variance.init, Mean.push, Mean.init]

example : (minRunV exVs).acc = some (.arr [1, 0]) ∧ (maxRunV exVs).acc = some (.arr [6, 20]) := by
  norm_num [minRunV, maxRunV, exVs, Extremum.push, Extremum.init, Val.map₂, kmin, kmax]

example : (covRunV exVs).value = .ok (.arr [7, -20, -20, 100]) := by
  norm_num [covRunV, exVs, Covariance.value, Covariance.n, Covariance.push, Covariance.init, Mean.push, Mean.init,
    Val.add_def, Val.sub_def, Val.mul_def, Val.div_def, Val.natCast_def, Val.map₂, Val.outer, Val.toList]

example : ((meanRunV [Val.arr [(1:ℚ), 10]]).merge (meanRunV [.arr [2, 20], .arr [6, 0]])).val = .arr [3, 10] := by
  norm_num [meanRunV, Mean.merge, Mean.push, Mean.init, Val.add_def, Val.sub_def, Val.mul_def, Val.div_def,
    Val.natCast_def, Val.map₂]

example : (rmeanRunV 2 exVs).acc = .arr [15/4, 15/2] := by
  norm_num [rmeanRunV, exVs, RMeanV.push, RMeanV.init, RMean.pushWith, pymax, Val.add_def, Val.mul_def, Val.map₂]

end examples

end Gpv.C12

#print axioms Gpv.C12.AllArr.wellShaped
#print axioms Gpv.C12.proj_add
#print axioms Gpv.C12.proj_sub
#print axioms Gpv.C12.proj_mul
#print axioms Gpv.C12.proj_div
#print axioms Gpv.C12.proj_natCast
#print axioms Gpv.C12.proj_kmin
#print axioms Gpv.C12.proj_kmax
#print axioms Gpv.C12.proj_ufunc
#print axioms Gpv.C12.shaped_ufunc
#print axioms Gpv.C12.shaped_add
#print axioms Gpv.C12.shaped_sub
#print axioms Gpv.C12.shaped_mul
#print axioms Gpv.C12.shaped_div
#print axioms Gpv.C12.shaped_natCast
#print axioms Gpv.C12.isArr_ufunc_left
#print axioms Gpv.C12.isArr_ufunc_right
#print axioms Gpv.C12.proj_outer
#print axioms Gpv.C12.isArr_outer
#print axioms Gpv.C12.mean_proj_state
#print axioms Gpv.C12.mean_proj
#print axioms Gpv.C12.mean_proj_batch
#print axioms Gpv.C12.variance_proj_state
#print axioms Gpv.C12.variance_proj
#print axioms Gpv.C12.variance_proj_n1
#print axioms Gpv.C12.variance_proj_batch
#print axioms Gpv.C12.mean_merge_proj
#print axioms Gpv.C12.variance_merge_proj
#print axioms Gpv.C12.mean_merge_run_proj
#print axioms Gpv.C12.variance_merge_run_proj
#print axioms Gpv.C12.mean_tree_proj
#print axioms Gpv.C12.variance_tree_proj
#print axioms Gpv.C12.cov_entry_state
#print axioms Gpv.C12.cov_entry
#print axioms Gpv.C12.cov_mean_proj
#print axioms Gpv.C12.cov_entry_batch
#print axioms Gpv.C12.pairs_swap
#print axioms Gpv.C12.cov_entry_symm
#print axioms Gpv.C12.pairs_diag
#print axioms Gpv.C12.cov_diag
#print axioms Gpv.C12.cov_merge_entry
#print axioms Gpv.C12.min_proj
#print axioms Gpv.C12.max_proj
#print axioms Gpv.C12.min_proj_value
#print axioms Gpv.C12.max_proj_value
#print axioms Gpv.C12.min_merge_proj
#print axioms Gpv.C12.max_merge_proj
#print axioms Gpv.C12.min_tree_proj
#print axioms Gpv.C12.max_tree_proj
#print axioms Gpv.C12.rmean_proj
#print axioms Gpv.C12.rmean_proj_fields
#print axioms Gpv.C12.rvariance_proj
#print axioms Gpv.C12.no_crosstalk
#print axioms Gpv.C12.no_crosstalk_minmax
#print axioms Gpv.C12.comp_perturb
#print axioms Gpv.C12.wellShaped_perturb
#print axioms Gpv.C12.no_crosstalk_perturb
#print axioms Gpv.C12.no_crosstalk_perturb_minmax
