/-
  C15 — reservoir sampling (Algorithm R) keeps a uniformly random k-subset.

  `Gpv.Model.Reservoir` models `ReservoirSampling.push` with the value returned by
  `random.randint(1, n)` made an explicit argument `j` (ignored while `n ≤ k`):

      push(x): n += 1; if n <= k: res.append(x)
               else: j = randint(1, n); if j <= k: res[j-1] = x

  Structural part (any stream, any draws): size, first-k-verbatim, the retained
  items are distinct positions of the input, the result does not depend on the values.

  Probabilistic part, stated as exact counting over the finite space `choiceSeqs k n`
  of all draw sequences the code can receive for a stream of length `n` (for every
  observation `t > k` an independent `j ∈ 1..t`; the unused draws for `t ≤ k` are
  pinned to `1` so that each sequence is listed once).  The stream fed is the list of
  positions `0,…,n-1`, so the final reservoir is a set of positions:
    * `total_count` : there are `n!/k!` draw sequences;
    * `uniform`     : every k-subset of positions is produced by exactly `(n-k)!` of them
                      (hence with probability `1/C(n,k)` under a uniform independent source);
    * `inclusion_count` : position `i` is retained by a fraction `k/n` of them.
  What is NOT covered: that Python's `random.randint` is uniform/independent.
-/
import Gpv.Proofs.ReservoirAlg

namespace Gpv.C15
open Gpv Gpv.Reservoir

/-! ### structure: size, count, verbatim prefix -/

/-- after `n` observations the reservoir holds `min n k` items and `n` is the number seen -/
theorem size {α : Type} (k : Nat) (xs : List α) (js : List Nat) (hjs : js.length = xs.length) :
    (Reservoir.run k xs js).res.length = min xs.length k ∧
    (Reservoir.run k xs js).n = xs.length :=
  ⟨run_length k xs js hjs, run_n k xs js hjs⟩

/-- while `n ≤ k` the reservoir is the input verbatim -/
theorem first_k_verbatim {α : Type} (k : Nat) (xs : List α) (js : List Nat)
    (hjs : js.length = xs.length) (hk : xs.length ≤ k) :
    (Reservoir.run k xs js).res = xs :=
  run_fill k xs js hjs hk

/-- fed the positions `0..n-1`, the reservoir holds distinct positions `< n` — for arbitrary
draws (an out-of-range `j > k` does not replace; `j = 0`, which `randint(1, n)` never returns,
would overwrite slot 0 in the model, which still keeps the entries distinct) -/
theorem positions_distinct (k n : Nat) (js : List Nat) :
    (Reservoir.run k (List.range n) js).res.Nodup ∧
    ∀ p ∈ (Reservoir.run k (List.range n) js).res, p < n := by
  obtain ⟨h1, h2⟩ := run_nodup k (List.range n) js List.nodup_range
  exact ⟨h1, fun p hp => by simpa using h2 p hp⟩

/-- more generally: distinct inputs give distinct retained items, all taken from the input -/
theorem items_distinct {α : Type} [DecidableEq α] (k : Nat) (xs : List α) (js : List Nat)
    (hx : xs.Nodup) :
    (Reservoir.run k xs js).res.Nodup ∧ ∀ y ∈ (Reservoir.run k xs js).res, y ∈ xs :=
  run_nodup k xs js hx

/-- the retained values are the values at the retained positions: which positions are kept
depends on the draws only, never on the values -/
theorem values_at_positions {α : Type} (k : Nat) (xs : List α) (js : List Nat) (d : α) :
    (Reservoir.run k xs js).res =
      (Reservoir.run k (List.range xs.length) js).res.map (fun i => xs.getD i d) :=
  run_eq_map_positions k xs js d

/-- relabelling the input relabels the output -/
theorem value_independent {α β : Type} (f : α → β) (k : Nat) (xs : List α) (js : List Nat) :
    (Reservoir.run k (xs.map f) js).res = (Reservoir.run k xs js).res.map f :=
  run_map f k xs js

/-- the range asked of the random source at the `t`-th observation -/
theorem requested_range (k t : Nat) :
    (t ≤ k → Reservoir.requestedRange k t = none) ∧
    (k < t → Reservoir.requestedRange k t = some (1, t)) := by
  unfold Reservoir.requestedRange
  constructor
  · intro h; rw [if_pos h]
  · intro h; rw [if_neg (by omega)]

/-! ### the space of draw sequences -/

theorem choiceSeqs_zero (k : Nat) : choiceSeqs k 0 = [[]] := rfl

theorem choiceSeqs_succ (k n : Nat) :
    choiceSeqs k (n+1) = (choiceSeqs k n).flatMap fun js =>
      if n+1 ≤ k then [js ++ [1]] else (List.range (n+1)).map fun j => js ++ [j+1] := rfl

/-- `choiceSeqs k n` is exactly: length `n`, the `t`-th draw (1-based) is `1` for `t ≤ k`
(unused) and lies in the requested range `1..t` for `t > k` -/
theorem mem_choiceSeqs_iff (k n : Nat) (js : List Nat) :
    js ∈ choiceSeqs k n ↔ js.length = n ∧
      ∀ t j, js[t]? = some j → (if t + 1 ≤ k then j = 1 else 1 ≤ j ∧ j ≤ t + 1) :=
  mem_choiceSeqs

/-- … each listed once -/
theorem choiceSeqs_nodup (k n : Nat) : (choiceSeqs k n).Nodup := Reservoir.choiceSeqs_nodup k n

/-- there are `n!/k!` draw sequences -/
theorem total_count (k n : Nat) (h : k ≤ n) :
    (choiceSeqs k n).length * k.factorial = n.factorial := choiceSeqs_total h

/-! ### uniformity -/

/-- every `k`-subset `S` of the `n` positions is the final reservoir for exactly `(n-k)!`
of the `n!/k!` draw sequences -/
theorem uniform (k n : Nat) (h : k ≤ n) (S : Finset ℕ) (hS : S ⊆ Finset.range n)
    (hc : S.card = k) :
    ((choiceSeqs k n).filter fun js =>
      (Reservoir.run k (List.range n) js).res.toFinset = S).length = (n - k).factorial := by
  rw [← List.countP_eq_length_filter]
  exact cnt_eq h S hS hc

/-- the same as a probability `1 / C(n,k)`: count · C(n,k) = total -/
theorem uniform_choose (k n : Nat) (h : k ≤ n) (S : Finset ℕ) (hS : S ⊆ Finset.range n)
    (hc : S.card = k) :
    ((choiceSeqs k n).filter fun js =>
      (Reservoir.run k (List.range n) js).res.toFinset = S).length * n.choose k =
      (choiceSeqs k n).length := by
  rw [uniform k n h S hS hc]
  apply Nat.eq_of_mul_eq_mul_right (Nat.factorial_pos k)
  rw [total_count k n h, ← Nat.choose_mul_factorial_mul_factorial h]
  ring

/-- position `i` is retained with probability `k/n`: (#sequences keeping `i`) · n = k · total -/
theorem inclusion_count (k n i : Nat) (h : k ≤ n) (hi : i < n) :
    ((choiceSeqs k n).filter fun js =>
      i ∈ (Reservoir.run k (List.range n) js).res).length * n =
      k * (choiceSeqs k n).length := by
  rw [← List.countP_eq_length_filter, ← incl_count h hi]
  congr 1
  apply List.countP_congr
  intro js _
  simp [finalSet]

/-! ### non-vacuity -/
example : (choiceSeqs 2 4).length = 12 := by decide
example : ((choiceSeqs 2 4).filter fun js =>
    (Reservoir.run 2 (List.range 4) js).res.toFinset = {1, 3}).length = 2 := by decide
example : ((choiceSeqs 2 4).filter fun js =>
    1 ∈ (Reservoir.run 2 (List.range 4) js).res).length = 6 := by decide
example : (Reservoir.run 2 (List.range 4) [1, 1, 2, 5]).res = [0, 2] := by decide

end Gpv.C15

#print axioms Gpv.C15.size
#print axioms Gpv.C15.first_k_verbatim
#print axioms Gpv.C15.positions_distinct
#print axioms Gpv.C15.items_distinct
#print axioms Gpv.C15.values_at_positions
#print axioms Gpv.C15.value_independent
#print axioms Gpv.C15.requested_range
#print axioms Gpv.C15.mem_choiceSeqs_iff
#print axioms Gpv.C15.choiceSeqs_nodup
#print axioms Gpv.C15.total_count
#print axioms Gpv.C15.uniform
#print axioms Gpv.C15.uniform_choose
#print axioms Gpv.C15.inclusion_count
