/-
  Gpv.Spec.P2Paper — the P² algorithm as published: Box 1 of R. Jain & I. Chlamtac,
  "The P² algorithm for dynamic calculation of quantiles and histograms without storing
  observations", CACM 28(10), 1985, generalised from 5 to m markers with wanted quantiles
  p_1 = 0, …, p_m = 1 (the paper's histogram variant, §"P² algorithm for histograms").

  This file is written from the paper, not from the numpy code:
    * markers are numbered 1..m (`qAt`, `nAt` are 1-based),
    * marker positions n_i are integers, n_i = i after the first m observations,
    * every decision is an `if … then … else` (nothing is "computed then selected"),
    * the formulas P² and linear are written out again from the paper.
  Tie convention (as in the property text): an observation equal to a marker counts as
  below it, i.e. the cell index k is the number of markers strictly below x, clamped to
  1..m-1, so that the incremented positions are those of the markers i ≥ 2 with x ≤ q_i.
-/
import Mathlib.Algebra.Order.Field.Basic
import Mathlib.Data.List.Sort
import Mathlib.Order.Defs.LinearOrder

namespace Gpv.Ref
variable {K : Type} [Field K] [LinearOrder K]

/-- the state of Box 1: wanted quantiles p_i, count N, marker heights q_i, marker positions n_i -/
structure State (K : Type) where
  p : List K
  N : ℕ
  q : List K
  n : List ℤ

/-- q_i (1-based) -/
def qAt (q : List K) (i : ℕ) : K := q.getD (i - 1) 0
/-- n_i (1-based) -/
def nAt (n : List ℤ) (i : ℕ) : ℤ := n.getD (i - 1) 0
/-- q_i := v -/
def qSet (q : List K) (i : ℕ) (v : K) : List K := q.set (i - 1) v
/-- n_i := v -/
def nSet (n : List ℤ) (i : ℕ) (v : ℤ) : List ℤ := n.set (i - 1) v

/-- sign of a desired-minus-actual position difference -/
def sgn (a : K) : ℤ := if 0 < a then 1 else if a < 0 then -1 else 0

/-- A. Initialisation: the first m observations, sorted; n_i = i -/
def start (p xs : List K) : State K :=
  ⟨p, p.length, List.insertionSort (· ≤ ·) (xs.take p.length),
    (List.range p.length).map fun (i : ℕ) => (i : ℤ) + 1⟩

/-- B1. the cell k with q_k ≤ x < q_{k+1} (ties: `x = q_i` counts as below q_i), 1 ≤ k ≤ m-1 -/
def cell (q : List K) (x : K) : ℕ :=
  max 1 (min (q.length - 1) (q.filter fun qi => decide (qi < x)).length)

/-- B1. find the cell and adjust the extreme markers -/
def b1 (q : List K) (x : K) : List K × ℕ :=
  let m := q.length
  if x < qAt q 1 then (qSet q 1 x, 1)
  else if qAt q m < x then (qSet q m x, m - 1)
  else (q, cell q x)

/-- B2. n_i := n_i + 1 for i = k+1, …, m -/
def b2 (n : List ℤ) (k : ℕ) : List ℤ :=
  n.mapIdx fun j ni => if k + 1 ≤ j + 1 then ni + 1 else ni

/-- B2. desired position n'_i = 1 + (N - 1) p_i  (N = number of observations so far) -/
def desired (p : List K) (N : ℕ) (i : ℕ) : K := 1 + ((N : K) - 1) * qAt p i

/-- the piecewise-parabolic (P²) prediction -/
def parabolic (q : List K) (n : List ℤ) (i : ℕ) (d : ℤ) : K :=
  let qm := qAt q (i - 1); let qi := qAt q i; let qp := qAt q (i + 1)
  let nm : K := nAt n (i - 1); let ni : K := nAt n i; let np : K := nAt n (i + 1)
  qi + (d : K) / (np - nm) *
    ((ni - nm + d) * (qp - qi) / (np - ni) + (np - ni - d) * (qi - qm) / (ni - nm))

/-- the linear prediction towards marker i + d -/
def linear (q : List K) (n : List ℤ) (i : ℕ) (d : ℤ) : K :=
  let id := ((i : ℤ) + d).toNat
  qAt q i + (d : K) * (qAt q id - qAt q i) / ((nAt n id : K) - (nAt n i : K))

/-- B3. adjust marker i (2 ≤ i ≤ m-1) if necessary -/
def b3 (p : List K) (N : ℕ) (st : List K × List ℤ) (i : ℕ) : List K × List ℤ :=
  let q := st.1
  let n := st.2
  let di : K := desired p N i - (nAt n i : K)
  if (1 ≤ di ∧ nAt n (i + 1) - nAt n i > 1) ∨ (di ≤ -1 ∧ nAt n (i - 1) - nAt n i < -1) then
    let d := sgn di
    let q' := parabolic q n i d
    if qAt q (i - 1) < q' ∧ q' < qAt q (i + 1) then
      (qSet q i q', nSet n i (nAt n i + d))
    else
      (qSet q i (linear q n i d), nSet n i (nAt n i + d))
  else (q, n)

/-- B. one further observation -/
def push (r : State K) (x : K) : State K :=
  let N := r.N + 1
  let qk := b1 r.q x
  let n := b2 r.n qk.2
  let qn := (List.range' 2 (r.p.length - 2)).foldl (b3 r.p N) (qk.1, n)
  ⟨r.p, N, qn.1, qn.2⟩

/-- the algorithm on a sequence of at least m observations -/
def run (p xs : List K) : State K := (xs.drop p.length).foldl push (start p xs)

end Gpv.Ref
