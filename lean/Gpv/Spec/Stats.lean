/-
  The textbook batch statistics the properties refer to, over any field.
-/
import Gpv.Proofs.AccumAlg
set_option linter.unusedSectionVars false
namespace Gpv
variable {K : Type} [Field K] [CharZero K]

/-- arithmetic mean of the whole sequence -/
def batchMean (xs : List K) : K := xs.sum / (xs.length : K)
/-- Σ (x − x̄)² -/
def sumSqDev (xs : List K) : K := (xs.map fun x => (x - batchMean xs) * (x - batchMean xs)).sum
/-- sample variance, n − 1 normalisation -/
def batchVar (xs : List K) : K := sumSqDev xs / ((xs.length : K) - 1)
/-- Σ (x − x̄)(y − ȳ) -/
def sumProdDev (ps : List (K × K)) : K :=
  (ps.map fun p => (p.1 - batchMean (ps.map Prod.fst)) * (p.2 - batchMean (ps.map Prod.snd))).sum
/-- sample covariance, n − 1 normalisation -/
def batchCov (ps : List (K × K)) : K := sumProdDev ps / ((ps.length : K) - 1)

theorem sum_map_dev (ps : List (K × K)) (a b : K) :
    (ps.map fun p => (p.1 - a) * (p.2 - b)).sum
      = sumProd ps - b * (ps.map Prod.fst).sum - a * (ps.map Prod.snd).sum + (ps.length : K) * a * b := by
  induction ps with
  | nil => simp [sumProd]
  | cons p ps ih =>
    simp only [List.map_cons, List.sum_cons, ih, sumProd, List.length_cons]
    push_cast; ring

theorem sumProdDev_eq (ps : List (K × K)) (h : ps ≠ []) :
    sumProdDev ps = sumProd ps - (ps.map Prod.fst).sum * (ps.map Prod.snd).sum / (ps.length : K) := by
  have hl : (ps.length : K) ≠ 0 := Nat.cast_ne_zero.mpr (by simpa using h)
  rw [sumProdDev, sum_map_dev]
  simp only [batchMean, List.length_map]
  field_simp
  ring

theorem sumSqDev_eq_sumProdDev (xs : List K) : sumSqDev xs = sumProdDev (xs.map fun x => (x, x)) := by
  simp [sumSqDev, sumProdDev, List.map_map, Function.comp_def]

theorem sumSqDev_eq (xs : List K) (h : xs ≠ []) :
    sumSqDev xs = sumSq xs - xs.sum ^ 2 / (xs.length : K) := by
  rw [sumSqDev_eq_sumProdDev, sumProdDev_eq _ (by simpa using h)]
  simp [sumProd, sumSq, List.map_map, Function.comp_def, pow_two]

end Gpv
