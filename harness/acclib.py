"""
acclib.py — run accumulator "programs" on the real classes and on the Lean model.

A program is a list of ops (JSON-able):
   ["new", reg, kind, *params]      kind in counter|min|max|mean|var|cov|rmean|rvar|rcov
   ["push", reg, value]             value: number or (nested) list  -> np.array if list
   ["merge", reg, reg2]
   ["lifetime", reg, L]
   ["read", reg]
Outputs: one entry per merge ("ok" / "!Err") and per read (dict of read-outs).
"""
from fractions import Fraction
import math
import sys
import numpy as np

KINDS = {
    'counter': 'Counter', 'min': 'Minimum', 'max': 'Maximum', 'mean': 'Mean', 'var': 'Variance',
    'cov': 'Covariance', 'rmean': 'RunningMean', 'rvar': 'RunningVariance', 'rcov': 'RunningCovariance',
}


def accmod():
    import generatorpipeline.accumulators as A
    return A


def to_obj(v):
    """JSON value -> the Python object handed to the accumulator"""
    if isinstance(v, dict):
        if 'arr' in v:
            return np.array(v['arr'], dtype=v.get('dtype', None))
        if 'frac' in v:
            return Fraction(v['frac'])
    if isinstance(v, list):
        return np.array(v, dtype=float)
    return v


def frac(x):
    if isinstance(x, (int, np.integer)):
        return Fraction(int(x))
    if isinstance(x, Fraction):
        return x
    x = float(x)
    if math.isnan(x) or math.isinf(x):
        raise ValueError('non-finite')
    return Fraction(x)


def fmt_frac(q):
    return str(q.numerator) if q.denominator == 1 else '%d/%d' % (q.numerator, q.denominator)


def flat(v):
    """flatten a JSON value into (is_scalar, [Fractions])"""
    o = to_obj(v)
    if o is None:
        return True, [Fraction(0)]
    if isinstance(o, np.ndarray):
        return False, [frac(x) for x in o.ravel().tolist()]
    return True, [frac(o)]


def enc_val(v):
    s, xs = flat(v)
    if s:
        return 's:' + fmt_frac(xs[0])
    return 'a:' + ','.join(fmt_frac(x) for x in xs)


def dec_val(s):
    """model value -> (is_scalar, [Fraction]) | 'none' | '!Err'"""
    if s == 'none' or s.startswith('!'):
        return s
    if s.startswith('s:'):
        return True, [Fraction(s[2:])]
    body = s[2:]
    return False, ([Fraction(t) for t in body.split(',')] if body else [])


# ---------------------------------------------------------------------------
# implementation side
# ---------------------------------------------------------------------------

def _canon(x):
    """implementation read-out -> (is_scalar, [float]) or 'none'"""
    if x is None:
        return 'none'
    a = np.asarray(x)
    if a.dtype == object:
        a = a.astype(float)
    return (a.ndim == 0, [float(t) for t in a.ravel().tolist()], list(a.shape))


def _get(thunk):
    try:
        return _canon(thunk())
    except Exception as e:  # noqa
        return '!' + type(e).__name__


def read_impl(kind, acc):
    out = {'n': _get(lambda: acc.n)}
    out['value'] = _get(lambda: acc.value)
    if kind in ('min', 'max'):
        # an extremum of integers is one of those integers, exactly (also beyond 2**53, where a float cannot say which)
        try:
            a = np.asarray(acc.value)
            out['exact_int'] = [int(t) for t in a.ravel().tolist()] if a.dtype.kind in 'iu' else None
            out['dtype_kind'] = a.dtype.kind
        except Exception:  # noqa
            out['exact_int'] = None
    if kind == 'mean':
        out['sum'] = _get(lambda: acc.sum)
    if kind in ('var', 'rvar'):
        out['rms'] = _get(lambda: acc.rms)
        out['mean'] = _get(lambda: acc.mean.value)
        out['std'] = _get(lambda: acc.std)
    if kind in ('cov', 'rcov'):
        out['rms'] = _get(lambda: acc.rms)
        out['mean'] = _get(lambda: acc.mean.value)
    if kind in ('rmean', 'rvar', 'rcov'):
        out['lifetime'] = _get(lambda: acc.lifetime)
    return out


def _feed(regs, r, operand, k):
    """both public spellings, alternating: `acc.accumulate(x)` (which returns the accumulator, so calls can be chained) and `acc += x`
    (which must leave the name bound to the same accumulator). Returns a complaint or None."""
    acc = regs[r]
    if k % 2:
        ret = acc.accumulate(operand)
        if ret is not acc:
            return 'accumulate-returns-%s' % type(ret).__name__
    else:
        x = acc
        x += operand
        if x is not acc:
            regs[r] = acc
            return 'iadd-rebinds-to-%s' % type(x).__name__
    return None


def run_impl(program, on_push=None):
    """execute on the real classes; returns (outputs, regs)"""
    A = accmod()
    regs, kinds, outs = {}, {}, []
    reuse, bufs = False, {}
    rows = False
    nspell = 0
    for op in program:
        t = op[0]
        if t == 'mode':
            if op[1] == 'rows':
                rows = True
            else:
                reuse = op[1] == 'reuse'
        elif t == 'trip':
            regs[op[1]] = roundtrip(regs[op[1]], op[2])
        elif t == 'push' and reuse and isinstance(to_obj(op[2]), np.ndarray) and to_obj(op[2]).ndim >= 1:
            # the producer refills ONE preallocated buffer per shape/dtype and hands the same object over every time
            obj = to_obj(op[2])
            key = (obj.shape, obj.dtype.str)
            if key in bufs:
                bufs[key][...] = obj
            else:
                bufs[key] = obj
            nspell += 1
            try:
                bad = _feed(regs, op[1], bufs[key], nspell)
            except Exception as e:  # noqa
                outs.append('!push:' + type(e).__name__)
                break
            if bad:
                outs.append('!push:' + bad)
                break
            if on_push:
                on_push(op, bufs[key])
        elif t == 'new':
            _, r, kind, *params = op
            regs[r] = getattr(A, KINDS[kind])(*params)
            kinds[r] = kind
        elif t == 'push':
            obj = to_obj(op[2])
            if rows and isinstance(obj, np.ndarray) and obj.ndim == 1:
                obj = obj.reshape((1,) + obj.shape)     # the same observation as a one-row block (data[i:i+1], np.atleast_2d)
            nspell += 1
            try:
                bad = _feed(regs, op[1], obj, nspell)
            except Exception as e:  # noqa
                outs.append('!push:' + type(e).__name__)
                break
            if bad:
                outs.append('!push:' + bad)
                break
            if on_push:
                on_push(op, obj)
        elif t == 'merge':
            nspell += 1
            try:
                bad = _feed(regs, op[1], regs[op[2]], nspell)
                outs.append('!' + bad if bad else 'ok')
            except Exception as e:  # noqa
                outs.append('!' + type(e).__name__)
        elif t == 'lifetime':
            regs[op[1]].lifetime = op[2]
        elif t == 'read':
            outs.append(read_impl(kinds[op[1]], regs[op[1]]))
        else:
            raise ValueError(op)
    return outs, regs


def roundtrip(acc, kind):
    """the accumulator after a trip through a serialiser (shipped between processes, checkpointed, copied)"""
    import copy
    import pickle
    if kind == 'pickle':
        return pickle.loads(pickle.dumps(acc))
    if kind == 'dill':
        import dill
        return dill.loads(dill.dumps(acc))
    if kind == 'deepcopy':
        return copy.deepcopy(acc)
    if kind == 'copy':
        # a shallow copy that carries on ALONE (the original is dropped here): must behave like the original would have
        return copy.copy(acc)
    raise ValueError(kind)


def gen_history_ops(rng, program, p_reuse=0.25, p_trip=0.25):
    """things the caller may do that are no part of the statistics: reuse one buffer for all array observations, send an
    accumulator through a serialiser between two operations. Returns a JSON-able description for apply_history_ops."""
    meta = {}
    if rng.random() < p_reuse:
        meta['reuse_buffer'] = True
    elif program and program[0][0] == 'new' and program[0][2] == 'cov' and rng.random() < 0.35:
        meta['row_vectors'] = True
    if rng.random() < p_trip:
        pushes = [i for i, op in enumerate(program) if op[0] in ('push', 'merge') and i > 1]
        if pushes:
            meta['trips'] = sorted([rng.choice(pushes), rng.choice(['pickle', 'dill', 'deepcopy', 'copy'])] for _ in range(rng.choice([1, 1, 2])))
    return meta


def apply_history_ops(program, meta):
    if not meta:
        return program
    prog = list(program)
    for i, kind in sorted(meta.get('trips') or [], reverse=True):
        if i < len(prog) and prog[i][0] in ('push', 'merge'):
            prog.insert(i, ['trip', prog[i][1], kind])
    if meta.get('reuse_buffer'):
        prog.insert(0, ['mode', 'reuse'])
    if meta.get('row_vectors'):
        prog.insert(0, ['mode', 'rows'])
    return prog


# ---------------------------------------------------------------------------
# model side
# ---------------------------------------------------------------------------

def model_lines(program):
    lines = ['acc.reset']
    for op in program:
        t = op[0]
        if t == 'new':
            lines.append('acc.new %s %s %s' % (op[1], op[2], ' '.join(fmt_frac(frac(p)) for p in op[3:])))
        elif t == 'push':
            lines.append('acc.push %s %s' % (op[1], enc_val(op[2])))
        elif t == 'merge':
            lines.append('acc.merge %s %s' % (op[1], op[2]))
        elif t == 'lifetime':
            lines.append('acc.lifetime %s %s' % (op[1], fmt_frac(frac(op[2]))))
        elif t == 'read':
            lines.append('acc.read %s' % op[1])
    return lines


def n_outputs(program):
    return sum(1 for op in program if op[0] in ('merge', 'read'))


def parse_model(outlines):
    res = []
    for ln in outlines:
        if ln == 'ok' or ln.startswith('!') or ln == 'bad-op':
            res.append(ln)
            continue
        kind, *kv = ln.split(' ')
        d = {}
        for item in kv:
            k, v = item.split('=', 1)
            d[k] = int(v) if k == 'n' else (dec_val(v) if k != 'lifetime' else (True, [Fraction(v)]))
        res.append(d)
    return res


# ---------------------------------------------------------------------------
# comparison: float read-out vs exact rational, with tolerance
# ---------------------------------------------------------------------------

FLOAT_MAX = Fraction(sys.float_info.max)


def close_num(f, q, scale, rtol=1e-9):
    if abs(q) > FLOAT_MAX:
        return True          # the exact value is no binary64 number (e.g. the sum of huge observations): nothing is claimed about it
    if math.isnan(f) or math.isinf(f):
        return False
    return abs(Fraction(f) - q) <= Fraction(rtol) * max(Fraction(1), abs(q), scale)


def show(q):
    """a Fraction for a message"""
    try:
        return float(q)
    except OverflowError:
        return str(q)[:30] + '...'


def close_val(impl, model, scale, rtol=1e-9, check_scalar=True):
    """impl: canon tuple / 'none' / '!Err' ; model: (is_scalar, [Fraction]) / 'none' / '!Err'"""
    if isinstance(impl, str) or isinstance(model, str):
        return impl == model
    if len(impl[1]) != len(model[1]):
        # a scalar on the model side broadcasts (e.g. initial 0 of Mean)
        if model[0] and len(model[1]) == 1:
            return all(close_num(f, model[1][0], scale, rtol) for f in impl[1])
        return False
    return all(close_num(f, q, scale, rtol) for f, q in zip(impl[1], model[1]))


def compare_read(impl, model, scale, rtol=1e-9):
    """returns list of differing keys"""
    bad = []
    if isinstance(impl, str) or isinstance(model, str):
        return [] if impl == model else ['<op>']
    for k, mv in model.items():
        iv = impl.get(k)
        if k == 'n':
            if not (isinstance(iv, tuple) and iv[1] == [float(mv)]):
                bad.append(k)
            continue
        if iv is None:
            continue
        if not close_val(iv, mv, scale, rtol):
            bad.append(k)
    if 'std' in impl and 'value' in model and not isinstance(model['value'], str) and not isinstance(impl['std'], str):
        # std^2 = value
        for f, q in zip(impl['std'][1], model['value'][1]):
            if q >= 0 and not close_num(f * f, q, scale, 1e-8):
                bad.append('std')
                break
    return bad
