"""
formulas.py — a second, translation-based tie for the arithmetic core.

On every run the arithmetic expressions of selected methods are read from /repo's current source (Python `ast`),
translated by symbolic execution of the straight-line method body into Lean terms over an arbitrary field, and Lean is
asked to prove (by `ring`) that each translated term equals the corresponding model definition — for ALL arguments, not for
sampled ones.  This complements the behavioural correspondence:
  * translated and proved            -> recorded as 'equivalent'
  * the source no longer has a shape the translator understands (a refactoring) -> 'skipped', NOT an alarm
  * translated but Lean cannot prove the equality -> a broken obligation: reported as a correspondence break
    (the behavioural lock-step of the same check searches for the concrete failing input).
"""
import ast
import os
import re
import subprocess
import tempfile

from harness import core


class Untranslatable(Exception):
    pass


def _find_method(tree, cls, name):
    for node in tree.body:
        if isinstance(node, ast.ClassDef) and node.name == cls:
            for f in node.body:
                if isinstance(f, ast.FunctionDef) and f.name == name:
                    return f
    raise Untranslatable('no method %s.%s' % (cls, name))


OPS = {ast.Add: '+', ast.Sub: '-', ast.Mult: '*', ast.Div: '/'}


def _bin(op, a, b):
    """a, b: Lean expression strings, or {'x': .., 'y': ..} for a two-component vector (componentwise, scalars broadcast)"""
    if isinstance(a, dict) or isinstance(b, dict):
        ax = a if isinstance(a, dict) else {'x': a, 'y': a}
        bx = b if isinstance(b, dict) else {'x': b, 'y': b}
        return {c: '(%s %s %s)' % (ax[c], op, bx[c]) for c in ('x', 'y')}
    return '(%s %s %s)' % (a, op, b)


class MeanObj:
    """a symbolic `Mean` instance: value expression (scalar or vector pair) and count expression; what `accumulate(x)` does to
    it is taken from the translated body of the source's own Mean._accumulate_obj"""
    def __init__(self, val, n, nat):
        self.val, self.n, self.nat = val, n, nat      # nat: the Lean Nat term of the count (for the statement)


class Sym:
    """symbolic execution of a straight-line body: names/attributes -> Lean expression strings"""
    def __init__(self, env, objs=None, tree=None):
        self.env = dict(env)
        self.objs = dict(objs or {})
        self.tree = tree

    def mean_push(self, o, x):
        """the new (val, n) of symbolic Mean `o` after accumulate(x), by running Mean._accumulate_obj of the source"""
        f = _find_method(self.tree, 'Mean', '_accumulate_obj')
        comps = ('x', 'y') if isinstance(o.val, dict) or isinstance(x, dict) else (None,)
        res = {}
        for c in comps:
            pick = lambda v: v[c] if isinstance(v, dict) else v     # noqa
            s = Sym({'self._n': o.n, 'self._val': pick(o.val), 'obj': pick(x)})
            s.run(f.body)
            res[c] = (s.env['self._val'], s.env['self._n'])
        n_new = res[comps[0]][1]
        val = res[None][0] if comps == (None,) else {c: res[c][0] for c in comps}
        return MeanObj(val, n_new, o.nat)

    def key(self, node):
        if isinstance(node, ast.Name):
            return node.id
        if isinstance(node, ast.Attribute):
            return self.key(node.value) + '.' + node.attr
        raise Untranslatable('unsupported target %s' % ast.dump(node)[:60])

    def expr(self, node):
        if isinstance(node, ast.BinOp):
            if isinstance(node.op, ast.Pow):
                if isinstance(node.right, ast.Constant) and node.right.value == 2:
                    a = self.expr(node.left)
                    return '(%s * %s)' % (a, a)
                raise Untranslatable('power')
            if type(node.op) not in OPS:
                raise Untranslatable('operator %s' % type(node.op).__name__)
            return _bin(OPS[type(node.op)], self.expr(node.left), self.expr(node.right))
        if isinstance(node, ast.UnaryOp) and isinstance(node.op, ast.USub):
            v = self.expr(node.operand)
            if isinstance(v, dict):
                raise Untranslatable('negated vector')
            return '(-%s)' % v
        if isinstance(node, ast.Call) and isinstance(node.func, ast.Attribute) and node.func.attr == 'outer' and len(node.args) == 2:
            a, b = self.expr(node.args[0]), self.expr(node.args[1])
            if not (isinstance(a, dict) and isinstance(b, dict)):
                raise Untranslatable('outer of non-vectors')
            return '(%s * %s)' % (a['x'], b['y'])           # the (x, y) entry of the outer product
        if isinstance(node, ast.Attribute) and isinstance(node.value, (ast.Name, ast.Attribute)):
            try:
                ok = self.key(node.value)
            except Untranslatable:
                ok = None
            if ok in self.objs:
                o = self.objs[ok]
                if node.attr in ('value', '_val'):
                    return o.val
                if node.attr in ('n', '_n'):
                    return o.n
                if node.attr == 'sum':
                    f = _find_method(self.tree, 'Mean', 'sum')
                    if isinstance(o.val, dict):
                        raise Untranslatable('sum of a vector mean')
                    return Sym({'self._val': o.val, 'self.n': o.n, 'self._n': o.n}).run(f.body)
                raise Untranslatable('attribute %s of a Mean' % node.attr)
        if isinstance(node, ast.Constant) and isinstance(node.value, (int, float)) and not isinstance(node.value, bool):
            v = node.value
            if float(v) == int(v):
                return '(%d : K)' % int(v)
            fr = __import__('fractions').Fraction(v)
            return '((%d : K) / (%d : K))' % (fr.numerator, fr.denominator)
        if isinstance(node, (ast.Name, ast.Attribute)):
            k = self.key(node)
            if k in self.env:
                return self.env[k]
            raise Untranslatable('unknown name %s' % k)
        if isinstance(node, ast.Subscript) and isinstance(node.slice, ast.Constant):
            k = self.key(node.value) + '[%r]' % node.slice.value
            if k in self.env:
                return self.env[k]
            raise Untranslatable('unknown subscript %s' % k)
        raise Untranslatable('unsupported expression %s' % ast.dump(node)[:80])

    def run(self, body):
        for st in body:
            if isinstance(st, ast.Expr) and isinstance(st.value, ast.Constant):
                continue            # docstring
            if isinstance(st, ast.Assign) and len(st.targets) == 1:
                t = st.targets[0]
                if isinstance(t, ast.Tuple):
                    if isinstance(st.value, ast.Tuple) and len(st.value.elts) == len(t.elts):
                        vals = [self.expr(v) for v in st.value.elts]
                    else:
                        base = self.key(st.value)
                        vals = []
                        for i in range(len(t.elts)):
                            k = '%s[%d]' % (base, i)
                            if k not in self.env:
                                raise Untranslatable('cannot unpack %s' % base)
                            vals.append(self.env[k])
                    for e, v in zip(t.elts, vals):
                        self.env[self.key(e)] = v
                else:
                    self.env[self.key(t)] = self.expr(st.value)
            elif isinstance(st, ast.AugAssign):
                k = self.key(st.target)
                if type(st.op) not in OPS:
                    raise Untranslatable('augmented operator')
                if k in self.objs:
                    if not isinstance(st.op, ast.Add):
                        raise Untranslatable('augmented operator on an accumulator')
                    self.objs[k] = self.mean_push(self.objs[k], self.expr(st.value))      # acc += obj  is  acc.accumulate(obj)
                else:
                    self.env[k] = _bin(OPS[type(st.op)], self.expr(st.target), self.expr(st.value))
            elif isinstance(st, ast.Expr) and isinstance(st.value, ast.Call) and isinstance(st.value.func, ast.Attribute) \
                    and st.value.func.attr == 'accumulate' and len(st.value.args) == 1 and self.key(st.value.func.value) in self.objs:
                k = self.key(st.value.func.value)
                self.objs[k] = self.mean_push(self.objs[k], self.expr(st.value.args[0]))
            elif isinstance(st, ast.Return):
                return self.expr(st.value) if st.value is not None else None
            elif isinstance(st, ast.If):
                raise Untranslatable('branch')
            else:
                raise Untranslatable('statement %s' % type(st).__name__)
        return None


def translate(tree):
    """returns {name: (lean statement text | Untranslatable message)}"""
    out = {}

    def attempt(name, fn):
        try:
            out[name] = ('ok', fn())
        except Untranslatable as e:
            out[name] = ('skipped', str(e))
        except Exception as e:  # noqa
            out[name] = ('skipped', 'translator error: %r' % (e,))

    def lin():
        f = _find_method(tree, 'CDFEstimator', '_linear')
        s = Sym({'q[0]': 'q_i', 'q[1]': 'q_d', 'n[0]': 'n_i', 'n[1]': 'n_d', 'd': 'd'})
        e = s.run(f.body)
        return ('theorem src_linear (q_i q_d n_i n_d d : K) :\n    %s = linear q_i q_d n_i n_d d := by\n  unfold linear; ring' % e)
    attempt('CDFEstimator._linear', lin)

    def par():
        f = _find_method(tree, 'CDFEstimator', '_parabolic')
        s = Sym({'heights[0]': 'q1', 'heights[1]': 'q2', 'heights[2]': 'q3', 'positions[0]': 'n1', 'positions[1]': 'n2',
                 'positions[2]': 'n3', 'd': 'd'})
        e = s.run(f.body)
        return ('theorem src_parabolic (q1 q2 q3 n1 n2 n3 d : K) :\n    %s = parabolic q1 q2 q3 n1 n2 n3 d := by\n  unfold parabolic; ring' % e)
    attempt('CDFEstimator._parabolic', par)

    def meanpush():
        f = _find_method(tree, 'Mean', '_accumulate_obj')
        s = Sym({'self._n': '(n : K)', 'self._val': 'val', 'obj': 'x'})
        s.run(f.body)
        n_new, v_new = s.env['self._n'], s.env['self._val']
        if n_new.replace(' ', '') != '((n:K)+(1:K))':
            raise Untranslatable('count update %s' % n_new)
        return ('theorem src_mean_push (val x : K) (n : Nat) :\n    %s = (Mean.push ⟨val, n⟩ x).val := by\n'
                '  simp only [Mean.push]; push_cast; ring' % v_new)
    attempt('Mean._accumulate_obj', meanpush)

    def meanmerge():
        f = _find_method(tree, 'Mean', '_accumulate_other')
        body = [st for st in f.body if not isinstance(st, ast.If)]      # the guard `if ntot == 0: return` is a branch of the model too
        s = Sym({'self.n': '(n : K)', 'other.n': '(m : K)', 'self._n': '(n : K)', 'other._n': '(m : K)', 'self._val': 'a', 'other._val': 'b'})
        s.run(body)
        return ('theorem src_mean_merge (a b : K) (n m : Nat) (h : n + m ≠ 0) :\n    %s = (Mean.merge ⟨a, n⟩ ⟨b, m⟩).val := by\n'
                '  simp only [Mean.merge, if_neg h]; push_cast; ring' % s.env['self._val'])
    attempt('Mean._accumulate_other', meanmerge)

    def rmean():
        f = _find_method(tree, 'RunningMean', '_accumulate_obj')
        # alpha = max(self.alpha, 1/self._n) is a comparison: keep it symbolic as `a`
        body = []
        for st in f.body:
            if isinstance(st, ast.Assign) and isinstance(st.value, ast.Call) and getattr(st.value.func, 'id', '') == 'max':
                continue
            body.append(st)
        s = Sym({'self._n': '(n : K)', 'self.acc': 'acc', 'obj': 'x', 'alpha': 'a'})
        s.run(body)
        return ('theorem src_rmean_push (acc x a : K) :\n    %s = acc * ((1 : K) - a) + x * a := by\n  ring' % s.env['self.acc'])
    attempt('RunningMean._accumulate_obj', rmean)

    def qgrid():
        f = _find_method(tree, 'QuantileEstimator', '__init__')
        for node in ast.walk(f):
            if isinstance(node, ast.List) and len(node.elts) == 5:
                s = Sym({'p': 'p'})
                es = [s.expr(e) for e in node.elts]
                return ('theorem src_quantile_grid (p : K) :\n    [%s] = quantileGrid p := by\n'
                        '  simp only [quantileGrid, Nat.cast_ofNat, Nat.cast_zero, Nat.cast_one]' % ', '.join(es))
        raise Untranslatable('no 5-element grid literal')
    attempt('QuantileEstimator.grid', qgrid)

    def varmerge():
        f = _find_method(tree, 'Variance', '_accumulate_other')
        body = [st for st in f.body if not isinstance(st, ast.If)]
        s = Sym({'self.mean.value': 'ma', 'other.mean.value': 'mb', 'self.n': '(n : K)', 'other.n': '(m : K)',
                 'self.var.sum': '(va * (n : K))', 'other.var.sum': '(vb * (m : K))'})
        for st in body:
            if isinstance(st, ast.Assign) and isinstance(st.targets[0], ast.Name) and st.targets[0].id in ('dmean', 'newn', 'newvar'):
                s.run([st])
        nv = s.env.get('newvar')
        if nv is None:
            raise Untranslatable('no newvar')
        return ('theorem src_variance_merge (ma mb va vb : K) (n m : Nat) (h : n + m ≠ 0) :\n'
                '    %s / ((n : K) + (m : K)) = (Variance.merge ⟨⟨ma, n⟩, ⟨va, n⟩⟩ ⟨⟨mb, m⟩, ⟨vb, m⟩⟩).var.val := by\n'
                '  have e : (Variance.merge ⟨⟨ma, n⟩, ⟨va, n⟩⟩ ⟨⟨mb, m⟩, ⟨vb, m⟩⟩ : Variance K).var.val\n'
                '      = (va * (n : K) + vb * (m : K) + (ma - mb) * (ma - mb) * (n : K) * (m : K) / ((n + m : Nat) : K)) / ((n + m : Nat) : K) := by\n'
                '    unfold Variance.merge\n'
                '    show (if n + m = 0 then _ else _ : Variance K).var.val = _\n'
                '    rw [if_neg h]; rfl\n'
                '  rw [e]; push_cast; ring' % nv)
    attempt('Variance._accumulate_other', varmerge)

    def varpush():
        f = _find_method(tree, 'Variance', '_accumulate_obj')
        s = Sym({'obj': 'x'}, {'self.mean': MeanObj('mv', '(n : K)', 'n'), 'self.var': MeanObj('vv', '(n : K)', 'n')}, tree)
        s.run(f.body)
        m, v = s.objs['self.mean'], s.objs['self.var']
        return ('theorem src_variance_push (mv vv x : K) (n : Nat) :\n'
                '    %s = (Variance.push ⟨⟨mv, n⟩, ⟨vv, n⟩⟩ x).mean.val ∧\n    %s = (Variance.push ⟨⟨mv, n⟩, ⟨vv, n⟩⟩ x).var.val := by\n'
                '  simp only [Variance.push, Mean.push]; push_cast; constructor <;> ring' % (m.val, v.val))
    attempt('Variance._accumulate_obj', varpush)

    def varvalue():
        f = _find_method(tree, 'Variance', 'value')
        s = Sym({'self.n': '(n : K)'}, {'self.var': MeanObj('vv', '(n : K)', 'n')}, tree)
        e = s.run(f.body)
        return ('theorem src_variance_value (mv vv : K) (n : Nat) (h : n ≠ 1) :\n'
                '    Variance.value ⟨⟨mv, n⟩, ⟨vv, n⟩⟩ = .ok %s := by\n'
                '  simp only [Variance.value, Variance.n, if_neg h, Nat.cast_one]' % e)
    attempt('Variance.value', varvalue)

    def meansum():
        f = _find_method(tree, 'Mean', 'sum')
        e = Sym({'self._val': 'v', 'self.n': '(n : K)', 'self._n': '(n : K)'}).run(f.body)
        return ('theorem src_mean_sum (v : K) (n : Nat) :\n    %s = Mean.sum ⟨v, n⟩ := by\n  simp only [Mean.sum]' % e)
    attempt('Mean.sum', meansum)

    def covpush():
        f = _find_method(tree, 'Covariance', '_accumulate_obj')
        s = Sym({'obj': {'x': 'x', 'y': 'y'}},
                {'self.mean': MeanObj({'x': 'mx', 'y': 'my'}, '(n : K)', 'n'), 'self._cov': MeanObj('cv', '(n : K)', 'n')}, tree)
        s.run(f.body)
        m, cv = s.objs['self.mean'], s.objs['self._cov']
        return ('theorem src_covariance_push (mx my cv x y : K) (n : Nat) :\n'
                '    %s = (Cov2.push ⟨⟨mx, n⟩, ⟨my, n⟩, ⟨cv, n⟩⟩ x y).mx.val ∧\n    %s = (Cov2.push ⟨⟨mx, n⟩, ⟨my, n⟩, ⟨cv, n⟩⟩ x y).my.val ∧\n'
                '    %s = (Cov2.push ⟨⟨mx, n⟩, ⟨my, n⟩, ⟨cv, n⟩⟩ x y).c.val := by\n'
                '  simp only [Cov2.push, Mean.push]; push_cast; refine ⟨?_, ?_, ?_⟩ <;> ring' % (m.val['x'], m.val['y'], cv.val))
    attempt('Covariance._accumulate_obj', covpush)

    def covmerge():
        f = _find_method(tree, 'Covariance', '_accumulate_other')
        s = Sym({'self.n': '(n : K)', 'other.n': '(m : K)'},
                {'self.mean': MeanObj({'x': 'a1', 'y': 'a2'}, '(n : K)', 'n'), 'other.mean': MeanObj({'x': 'b1', 'y': 'b2'}, '(m : K)', 'm'),
                 'self._cov': MeanObj('ca', '(n : K)', 'n'), 'other._cov': MeanObj('cb', '(m : K)', 'm')}, tree)
        for st in f.body:
            if isinstance(st, ast.Assign) and isinstance(st.targets[0], ast.Name) and st.targets[0].id in ('dmean', 'newn', 'newvar'):
                s.run([st])
        nv = s.env.get('newvar')
        if nv is None or isinstance(nv, dict):
            raise Untranslatable('no newvar')
        return ('theorem src_covariance_merge (a1 a2 b1 b2 ca cb : K) (n m : Nat) (h : n + m ≠ 0) :\n'
                '    %s / ((n : K) + (m : K)) = (Cov2.merge ⟨⟨a1, n⟩, ⟨a2, n⟩, ⟨ca, n⟩⟩ ⟨⟨b1, m⟩, ⟨b2, m⟩, ⟨cb, m⟩⟩).c.val := by\n'
                '  have e : (Cov2.merge ⟨⟨a1, n⟩, ⟨a2, n⟩, ⟨ca, n⟩⟩ ⟨⟨b1, m⟩, ⟨b2, m⟩, ⟨cb, m⟩⟩ : Cov2 K).c.val\n'
                '      = (ca * (n : K) + cb * (m : K) + (a1 - b1) * (a2 - b2) * (n : K) * (m : K) / ((n + m : Nat) : K)) / ((n + m : Nat) : K) := by\n'
                '    unfold Cov2.merge\n'
                '    show (if n + m = 0 then _ else _ : Cov2 K).c.val = _\n'
                '    rw [if_neg h]; rfl\n'
                '  rw [e]; push_cast; ring' % nv)
    attempt('Covariance._accumulate_other', covmerge)

    def covvalue():
        f = _find_method(tree, 'Covariance', 'value')
        s = Sym({'self.n': '(n : K)'}, {'self._cov': MeanObj('cv', '(n : K)', 'n')}, tree)
        e = s.run(f.body)
        return ('theorem src_covariance_value (mx my cv : K) (n : Nat) (h : n ≠ 1) :\n'
                '    Cov2.value ⟨⟨mx, n⟩, ⟨my, n⟩, ⟨cv, n⟩⟩ = .ok %s := by\n'
                '  simp only [Cov2.value, if_neg h, Nat.cast_one]' % e)
    attempt('Covariance.value', covvalue)
    return out


HEADER = '''import Gpv.Model.Accum
import Gpv.Model.Running
import Gpv.Model.P2
import Mathlib.Tactic.Ring
import Mathlib.Tactic.FieldSimp
import Mathlib.Algebra.Field.Basic
open Gpv
variable {K : Type} [Field K]
'''


def check_formulas(ctx, names):
    """translate the named formulas from the current source and let Lean prove them equal to the model"""
    if os.environ.get('VERIF_NO_FORMULAS'):
        ctx.extra.setdefault('translated_formulas', {})['(skipped)'] = 'development run without Lean'
        return {}
    src = os.path.join(core.REPO, 'generatorpipeline', 'accumulators.py')
    try:
        tree = ast.parse(open(src).read())
    except SyntaxError as e:
        raise core.InfraError('cannot parse %s: %s' % (src, e))
    tr = translate(tree)
    report = {}
    text = HEADER
    spans = []          # (name, first line, last line, statement)
    line = text.count('\n') + 1
    for name in names:
        st, val = tr.get(name, ('skipped', 'not a known formula'))
        if st != 'ok':
            report[name] = 'skipped: ' + val
            continue
        block = '\n' + val + '\n'
        spans.append((name, line + 1, line + block.count('\n') - 1, val))
        text += block
        line += block.count('\n')
    if spans:
        tmp = os.path.join(core.LEAN_DIR, '.lake', 'formulas_%d.lean' % os.getpid())
        open(tmp, 'w').write(text)
        try:
            r = subprocess.run(['lake', 'env', 'lean', tmp], cwd=core.LEAN_DIR, capture_output=True, text=True, timeout=900)
        finally:
            os.unlink(tmp)
        out = r.stdout + r.stderr
        bad_lines = [int(m.group(1)) for m in re.finditer(r'formulas_\d+\.lean:(\d+):\d+: error', out)]
        if r.returncode != 0 and not bad_lines:
            raise core.InfraError('formula file failed without a located error:\n' + out[-1500:])
        for name, lo, hi, val in spans:
            if any(lo <= b <= hi for b in bad_lines):
                report[name] = 'NOT PROVED EQUAL'
                ctx.disagree('translated-formula-equals-model:' + name, dict(formula=name, translated=val.split(':=')[0][-400:]),
                             'source expression', out[-800:])
            else:
                report[name] = 'equivalent (translated from source, proved by ring for all arguments)'
    ctx.extra.setdefault('translated_formulas', {}).update(report)
    return report
