"""
pipelib.py — run one pipeline scenario on the real `generatorpipeline.pipeline` with an
instrumented source, an instrumented user function and (optionally) a forced worker
schedule, and return the observable event trace.

No hook in /repo: the user function lives in this importable module, logs through a pipe
inherited by fork and blocks on inherited semaphores; a separate controller *process*
reads the pipe and releases the semaphores in the order the scenario prescribes.

Event records (16 bytes, written atomically): tag(1) index(7) pid(7) '\n'
  consumer / generator side (main process): N next(), C close/del, T throw, D source.__next__,
      Y value delivered (index = value id), y None delivered, R exception delivered (index = exception id),
      E StopIteration delivered, P pool created, X pool terminated, I pipe_info read, Z end of scenario
  worker side: S function entered for element i, F function about to return for element i, K kwargs mismatch
  controller: Q quiescence snapshot
"""
import gc
import os
import pickle
import select
import signal
import sys
import threading
import time
import multiprocessing as mp
import multiprocessing.pool

import numpy as np

FOREIGN = 9999999      # an exception that is not one of the scenario's own (transfer failures)
UNKNOWN = 8888888      # a value the harness cannot identify
ZBASE = 1000000
GBASE = 2000000      # an item that is itself an iterator (over one unique value): must be handed on as ONE item

LOGW = None
SEMS = None
TABLE = None
KW_EXPECT = None
MAINPID = None


def log(tag, i=0):
    os.write(LOGW, b'%s%07d%07d\n' % (tag.encode(), i, os.getpid()))


# ---------------------------------------------------------------------------
# values and exceptions
# ---------------------------------------------------------------------------

class Hostile:
    """comparisons and truth tests blow up: only identity tests are safe on it"""
    def __init__(self, tag):
        self.tag = tag

    def __eq__(self, other):
        raise RuntimeError('hostile __eq__')

    def __ne__(self, other):
        raise RuntimeError('hostile __ne__')

    def __bool__(self):
        raise RuntimeError('hostile __bool__')

    __hash__ = None


class CustomExc(Exception):
    pass


class Unpick:
    """an element that cannot be sent to a worker"""
    def __init__(self, i):
        self.i = i

    def __reduce__(self):
        raise TypeError('element %d cannot be pickled' % self.i)


class Sulky:
    """a perfectly good (picklable) stream element that cannot be printed: nothing but a debugger has a reason to call repr() on it"""
    def __init__(self, i):
        self.i = i

    def __repr__(self):
        raise RuntimeError('repr() of a stream element was called')

    __str__ = __repr__


EXC_TYPES = [ValueError, KeyError, RuntimeError, ZeroDivisionError, CustomExc]
# raised by the wrapped FUNCTION only (a source that raises StopIteration simply ends): inside the stream generator
# PEP 479 turns a StopIteration that reaches the generator body into RuntimeError with the original as __cause__
import multiprocessing as _mp_for_exc
# … and multiprocessing.TimeoutError, which a function may raise itself (it waits on something with a time limit): it is the
# function's failure like any other, not "result not ready yet"
FUNC_EXC_TYPES = EXC_TYPES + [StopIteration, _mp_for_exc.TimeoutError]


class PickyExc(Exception):
    """an exception of a SOURCE (raised in the consumer's process, so it need not survive pickling) that cannot be rebuilt as
    type(e)(*e.args) — like json.JSONDecodeError(msg, doc, pos): the consumer gets the source's own exception object or nothing"""
    def __init__(self, k, text):
        super().__init__('%s at record %d' % (text, k))
        self.k = k


class FalsyExc(Exception):
    """a source's exception that is FALSY (an error collection that happens to be empty defines __len__): still an exception"""
    def __init__(self, k, text):
        super().__init__(k, text)
        self.k = k

    def __len__(self):
        return 0


class FrozenExc(Exception):
    """a source's exception that refuses new attributes (frozen dataclass style): the stage hands it on, it does not decorate it"""
    def __init__(self, k, text):
        super().__init__(k, text)
        object.__setattr__(self, 'k', k)

    def __setattr__(self, name, value):
        if name in ('__traceback__', '__context__', '__cause__', '__suppress_context__', '__notes__'):
            return super().__setattr__(name, value)
        raise TypeError('cannot assign to field %r' % name)


SOURCE_EXC_KINDS = {'picky': PickyExc, 'falsy': FalsyExc, 'frozen': FrozenExc}


def make_exc(k, func=False):
    types = FUNC_EXC_TYPES if func else EXC_TYPES
    return types[k % len(types)](k, 'payload-%d' % k)


def identify_exc(e):
    if type(e) is PickyExc and e.args == ('payload at record %d' % e.k,):
        return e.k
    if type(e) in (FalsyExc, FrozenExc) and e.args == (e.k, 'payload'):
        return e.k
    if type(e) is RuntimeError and isinstance(e.__cause__, StopIteration) and 'StopIteration' in str(e):
        e = e.__cause__
    if len(e.args) == 2 and isinstance(e.args[0], int) and e.args[1] == 'payload-%d' % e.args[0]:
        k = e.args[0]
        if type(e) is EXC_TYPES[k % len(EXC_TYPES)] or type(e) is FUNC_EXC_TYPES[k % len(FUNC_EXC_TYPES)]:
            return k
    return FOREIGN


def zoo():
    return [0, '', [], False, float('nan'), np.array([0]), np.array([]), Hostile('h'), 0.0, (), {}, b'',
            np.float64(0.0), np.bool_(False), np.array([[0.0, 1.0], [2.0, 3.0]]), 'None', [None], 1, -1, 'x']


ZOO = zoo()


def same_value(a, b):
    if type(a) is not type(b):
        return False
    if isinstance(a, Hostile):
        return a.tag == b.tag
    if isinstance(a, np.ndarray):
        return a.dtype == b.dtype and a.shape == b.shape and a.tobytes() == b.tobytes()
    if isinstance(a, float) and a != a:
        return b != b
    try:
        return pickle.dumps(a) == pickle.dumps(b)
    except Exception:  # noqa
        return False


def identify(v, kw):
    """value received by the consumer -> id (unique value i -> i, zoo item k -> ZBASE+k)"""
    if isinstance(v, tuple) and len(v) == 3 and v[0] == 'u':
        if v[2] != tuple(sorted((kw or {}).items())):
            return UNKNOWN
        return v[1]
    import collections.abc
    if isinstance(v, collections.abc.Iterator):
        global LOOKING
        LOOKING = True
        try:
            got = list(v)       # (the consumer looks inside only now, after it has received the item)
        finally:
            LOOKING = False
        if len(got) == 1 and isinstance(got[0], tuple) and len(got[0]) == 3 and got[0][0] == 'u' \
                and got[0][2] == tuple(sorted((kw or {}).items())):
            return GBASE + got[0][1]
        return UNKNOWN
    for k, z in enumerate(ZOO):
        if same_value(v, z):
            return ZBASE + k
    return UNKNOWN


ELEMENT_KINDS = ['plain', 'sulky', 'range', 'twins']

# scenario dimensions a case may carry besides its core description: they belong into every replay file
SCENARIO_FLAGS = ('hint', 'unprintable_elements', 'library_warnings_are_errors', 'element_kind', 'closable_source', 'resume', 'timeout',
                  'tracer_active', 'source_exception', 'held_iterators', 'kind', 'k')


def carry_flags(small, case):
    for key in SCENARIO_FLAGS:
        if key in case and key not in small:
            small[key] = case[key]
    return small



def wrap_element(kind, i):
    """the stream element that stands for source position i. 'range': a range object (a picklable non-iterator like any other element);
    'twins': positions 2j and 2j+1 carry the equal-but-different numbers -(j+1) and -(j+1.0) (equal, same hash, different type — the
    function tells them apart, so must the stage)"""
    if kind == 'sulky':
        return Sulky(i)
    if kind == 'range':
        return range(i, i + 2 + i % 3)
    if kind == 'twins':
        return -(i // 2 + 1) if i % 2 == 0 else -float(i // 2 + 1)
    return i


def index_of(x):
    if isinstance(x, (Unpick, Sulky)):
        return x.i
    if isinstance(x, range):
        return x.start
    if isinstance(x, float):
        return 2 * (int(-x) - 1) + 1
    if isinstance(x, int) and not isinstance(x, bool) and x < 0:
        return 2 * (-x - 1)
    return x


def _apply(x, kw, table=None):
    i = index_of(x)
    t = (table if table is not None else TABLE)[i]
    log('S', i)
    if SEMS is not None and i < len(SEMS):
        SEMS[i].acquire()
    if KW_EXPECT is not None and (kw != KW_EXPECT or list(kw) != list(KW_EXPECT)):
        log('K', i)                      # the keyword arguments of the stream call, in the caller's order (PEP 468)
    log('F', i)
    if t[0] == 'u':
        return ('u', i, tuple(sorted(kw.items())))
    if t[0] == 'z':
        return ZOO[t[1]]
    if t[0] == 'n':
        return None
    if t[0] == 'e':
        raise make_exc(t[1], func=True)
    if t[0] == 'pr':
        return threading.Lock() if os.getpid() != MAINPID else ('u', i, tuple(sorted(kw.items())))
    if t[0] == 'pe':
        return ('u', i, tuple(sorted(kw.items())))
    if t[0] == 'it':
        style = t[2] if len(t) > 2 else 'gen'
        if style == 'gen':
            return _inner_iter(i, t[1], kw)
        if style == 'cls':
            return InnerIter(i, t[1], kw)
        import itertools
        return itertools.chain(map(lambda ji: _inner_item(i, ji[0], ji[1], kw), enumerate(t[1])), _inner_end(i))
    raise AssertionError(t)


def _inner_iter(i, items, kw):
    """generator result for serial flat-map scenarios; logs each pull"""
    for j, it in enumerate(items):
        log('L', i * 1000 + j)
        yield _inner_value(it, kw)
    log('M', i)


LOOKING = False
INFOS = []          # every pipe_info() read-out with what it showed when it was taken: it must keep showing that


def _info(P):
    info = P.pipe_info()
    INFOS.append((info, (info.processed, info.yielded, str(info))))
    return info


def infos_changed():
    return sum(1 for info, was in INFOS if (info.processed, info.yielded, str(info)) != was)


KEPT = []           # exceptions the consumer received, kept alive until the scenario is over


def _nested(uid, kw):
    # 'W': somebody other than the consumer advanced an iterator that was only an ITEM of a result
    log('w' if LOOKING else 'W', uid)
    yield ('u', uid, tuple(sorted(kw.items())))


def _inner_value(it, kw):
    if it == 'n':
        return None
    if isinstance(it, list):
        if it[0] == 'g':
            return _nested(it[1], kw)       # an item that is an iterator itself
        return ZOO[it[1]]
    return ('u', it, tuple(sorted(kw.items())))


def item_token(it):
    """id of an inner item as the model and the oracles name it"""
    if it == 'n':
        return 'n'
    if isinstance(it, list):
        return str((GBASE if it[0] == 'g' else ZBASE) + it[1])
    return str(it)


def _inner_item(i, j, it, kw):
    log('L', i * 1000 + j)
    return _inner_value(it, kw)


def _inner_end(i):
    log('M', i)
    return
    yield


class InnerIter:
    """a hand-written iterator (not a generator) whose every advance is logged"""
    def __init__(self, i, items, kw):
        self.i, self.items, self.kw, self.j = i, items, kw, 0

    def __iter__(self):
        return self

    def __next__(self):
        if self.j >= len(self.items):
            if self.j == len(self.items):
                log('M', self.i)
                self.j += 1
            raise StopIteration
        log('L', self.i * 1000 + self.j)
        self.j += 1
        return _inner_value(self.items[self.j - 1], self.kw)


def f_mod(x, **kw):
    return _apply(x, kw)


F_LAMBDA = lambda x, **kw: _apply(x, kw)  # noqa: E731


def make_closure(table):
    def g(x, **kw):
        return _apply(x, kw, table)
    return g


class Src:
    """instrumented source iterator. `resume` > 0: a reader-like source that raises ONCE at position n (a corrupt record) and would
    deliver `resume` further elements n, n+1, … if it were asked again — which nobody may do: the stream ended with the exception"""
    def __init__(self, n, tail, pe, resume=0):
        self.n, self.tail, self.pe, self.i = n, tail, pe, 0
        self.calls = 0
        self.resume = resume
        self.raised = False
        self.sulky = False
        self.element_kind = 'plain'
        self.picky = False

    def __iter__(self):
        return self

    def __next__(self):
        log('D', self.i)
        self.calls += 1
        if self.i >= self.n:
            if self.tail is not None and not (self.resume and self.raised):
                self.raised = True
                raise (SOURCE_EXC_KINDS[self.picky](self.tail, 'payload') if self.picky else make_exc(self.tail))
            if self.resume and self.i < self.n + self.resume:
                self.i += 1
                return self.i - 1
            raise StopIteration
        i = self.i
        self.i += 1
        if i in self.pe:
            return Unpick(i)
        return wrap_element('sulky' if self.sulky else self.element_kind, i)


class SrcHint(Src):
    """a source that also announces how much is left (PEP 424), truthfully or not: a hint is advice, never part of the stream"""
    hint = 'exact'

    def __length_hint__(self):
        left = max(self.n - self.i, 0)
        return {'exact': left, 'zero': 0, 'one': 1, 'huge': 10 ** 9, 'short': left // 2}[self.hint]


HINTS = ['exact', 'exact', 'zero', 'one', 'huge', 'short']


def make_src(case, n, tail, pe):
    if case.get('hint'):
        src = SrcHint(n, tail, pe, case.get('resume', 0))
        src.hint = case['hint']
    else:
        src = Src(n, tail, pe, case.get('resume', 0))
    src.sulky = bool(case.get('unprintable_elements'))
    src.element_kind = case.get('element_kind') or 'plain'
    src.picky = case.get('source_exception') if case.get('source_exception') in SOURCE_EXC_KINDS else False
    if case.get('closable_source'):
        # a source that is also a resource (a reader with close()): whether and when it is closed is the caller's business;
        # if somebody does call close() here, it complains the way a generator with a failing `finally` does
        cls = type('Closable' + type(src).__name__, (type(src),), {'close': _complaining_close})
        src.__class__ = cls
    return src


def _complaining_close(self):
    log('Q', self.i)
    raise CustomExc(424242, 'the source was closed by the stage')


class NotAnIterator:
    """iterable but not an iterator: must be treated as a single element"""
    def __init__(self):
        self.iters = 0

    def __iter__(self):
        self.iters += 1
        return iter([1, 2, 3])


# ---------------------------------------------------------------------------
# process table
# ---------------------------------------------------------------------------

def children(exclude=()):
    me = os.getpid()
    res = []
    for d in os.listdir('/proc'):
        if not d.isdigit():
            continue
        try:
            with open('/proc/%s/stat' % d) as f:
                s = f.read()
        except OSError:
            continue
        rp = s.rfind(')')
        fields = s[rp + 2:].split()
        if int(fields[1]) == me and int(d) not in exclude:
            res.append((int(d), fields[0]))
    return res


def wait_no_children(exclude, timeout=3.0):
    t0 = time.time()
    while True:
        ch = children(exclude)
        if not ch or time.time() - t0 > timeout:
            return ch, time.time() - t0
        time.sleep(0.01)


# ---------------------------------------------------------------------------
# the controller process
# ---------------------------------------------------------------------------

def controller(rfd, sems, sched, ctl_w):
    events = []
    started, released = [], set()
    buf = b''
    quiet = (sched or {}).get('quiet_ms', 25) / 1000.0
    prio = list((sched or {}).get('priority', []))
    hold = bool((sched or {}).get('hold'))
    burst = list((sched or {}).get('burst', []))
    hold_done = False
    pool_gone = False
    armed = False
    hold_quiet = (sched or {}).get('hold_ms', 250) / 1000.0
    end = False
    expect_draws = (sched or {}).get('expect_draws')
    expect_busy = (sched or {}).get('expect_busy')
    hold_max = (sched or {}).get('hold_max_ms', 10000) / 1000.0
    t_hold0 = None
    while not end:
        tmo = hold_quiet if (hold and not hold_done) else quiet
        r, _, _ = select.select([rfd], [], [], tmo)
        if r:
            data = os.read(rfd, 1 << 16)
            if not data:
                break
            buf += data
            while len(buf) >= 16:
                rec, buf = buf[:16], buf[16:]
                tag, i, pid = chr(rec[0]), int(rec[1:8]), int(rec[8:15])
                events.append((tag, i, pid))
                if tag == 'N':
                    armed = True          # the instrumented stream starts with the consumer's first next()
                if tag == 'X' and armed:
                    pool_gone = True
                if tag in ('C', 'R') and armed:
                    pool_gone = True      # the consumer has ended the stream: what is still inside an element stays there (see below)
                if tag == 'S' and armed and not pool_gone and sems is not None and i < len(sems):
                    started.append(i)
                if tag == 'Z':
                    end = True
            continue
        # quiescent
        if hold and not hold_done:
            if not armed:
                continue                      # the instrumented stream has not even been asked for its first output
            if t_hold0 is None:
                t_hold0 = time.time()
            if expect_draws is not None and time.time() - t_hold0 < hold_max:
                draws = sum(1 for e in events if e[0] == 'D')
                inside = {}
                for tg, ii, pp in events:
                    if tg == 'S':
                        inside[ii] = pp
                    elif tg == 'F':
                        inside.pop(ii, None)
                if draws < expect_draws or len(inside) < (expect_busy or 0):
                    continue                  # a loaded machine is slow, not wrong: keep waiting (up to hold_max)
            events.append(('Q', 0, 0))
            hold_done = True
        if sems is None:
            continue
        if pool_gone:
            # the stream has ended and its pool is being terminated: whatever is still inside an element stays there —
            # terminate() has to cope with busy workers (everything is released when the scenario is over)
            continue
        cand = [i for i in started if i not in released]
        if not cand:
            continue
        k = burst.pop(0) if burst else 1
        for _ in range(max(1, k)):
            cand = [i for i in started if i not in released]
            if not cand:
                break
            pick = next((i for i in prio if i in cand), cand[0])
            sems[pick].release()
            released.add(pick)
    if sems is not None:
        for i, s in enumerate(sems):
            if i not in released:
                s.release()
    data = pickle.dumps(events)
    os.write(ctl_w, len(data).to_bytes(8, 'big'))
    off = 0
    while off < len(data):
        off += os.write(ctl_w, data[off:off + 65536])


class CaseTimeout(Exception):
    pass


ALARM_FIRED = False


def _alarm(signum, frame):
    # the exception may land inside a generator finaliser (del / gc), where Python swallows it ("Exception ignored in"):
    # the flag lets the scenario notice that its time limit went off all the same
    global ALARM_FIRED
    ALARM_FIRED = True
    raise CaseTimeout()


# ---------------------------------------------------------------------------
# one scenario
# ---------------------------------------------------------------------------

def run_case(case):
    """
    case keys: cfg{nworkers,extracache,skipNone,maxtasksperchild}, n, tail, table, fkind, kwargs,
               schedule (None = free running | dict(priority, burst, hold, quiet_ms)),
               demand: list of actions 'N' | 'C' | 'G' | ['T', id] | 'I'   ('N*' = next until finished)
    returns dict(events, reads, infos, children_*, ...)
    """
    global LOGW, SEMS, TABLE, KW_EXPECT, MAINPID
    import generatorpipeline.generatorpipeline as G
    from generatorpipeline import pipeline
    cfg = case['cfg']
    n = case['n']
    table = [list(t) for t in case['table']]
    kwargs = dict(case.get('kwargs') or {})
    MAINPID = os.getpid()
    TABLE = table + [['u'] for _ in range(case.get('resume', 0))]      # what a source that should not be asked again would deliver
    KW_EXPECT = kwargs
    rfd, LOGW = os.pipe()
    ctl_r, ctl_w = os.pipe()
    sched = case.get('schedule')
    SEMS = [mp.Semaphore(0) for _ in range(n)] if (sched and cfg['nworkers'] > 0 and not sched.get('free')) else None
    cpid = os.fork()
    if cpid == 0:
        code = 0
        try:
            os.close(ctl_r)
            controller(rfd, SEMS, sched, ctl_w)
        except BaseException:  # noqa
            import traceback
            traceback.print_exc()
            code = 3
        finally:
            os._exit(code)
    os.close(ctl_w)

    # pool creation / termination events, from outside the source
    orig_pool = G.Pool

    class LoggedPool(multiprocessing.pool.Pool):
        def __init__(self, *a, **k):
            super().__init__(*a, **k)
            self._verif_term = False
            log('P')

        def terminate(self):
            if not getattr(self, '_verif_term', True):
                self._verif_term = True
                log('X')
            return super().terminate()

    def pool_factory(processes=None, initializer=None, initargs=(), maxtasksperchild=None):
        return LoggedPool(processes, initializer, initargs, maxtasksperchild, context=mp.get_context())

    G.Pool = pool_factory
    res = dict(reads=[], infos=[], notes=[], timeout=False)
    old = signal.signal(signal.SIGALRM, _alarm)
    signal.alarm(int(case.get('timeout', 15)))
    stream = None
    try:
        fk = case.get('fkind', 'module')
        func = f_mod if fk == 'module' else (F_LAMBDA if fk == 'lambda' else make_closure(table))
        P = pipeline(cfg['nworkers'], skipNone=cfg['skipNone'], extracache=cfg['extracache'],
                     maxtasksperchild=cfg.get('maxtasksperchild'), verbose=bool(cfg.get('verbose')))(func)
        # earlier streams of the same stage (for the additivity of pipe_info)
        pre = case.get('pre_counts')
        if pre:
            P.el_processed, P.el_yielded = pre
        prior = case.get('prior_n')
        if prior:
            # an earlier, completely consumed stream of the same stage (uninstrumented source)
            saved = SEMS
            SEMS = None
            for _ in P(iter(range(prior)), **kwargs):
                pass
            SEMS = saved
            res['prior_info'] = (P.pipe_info().processed, P.pipe_info().yielded)
        pe = {i for i, t in enumerate(table) if t[0] == 'pe'}
        src = make_src(case, n, case.get('tail'), pe)
        ch0 = children((cpid,))
        stream = P(src, **kwargs)
        res['created'] = dict(draws=src.i, src_calls=src.calls, new_children=len(children((cpid,))) - len(ch0),
                              is_generator=hasattr(stream, '__next__'))
        finished = False
        demand = list(case.get('demand') or ['N*'])
        guard = 0
        while demand and guard < 100000:
            guard += 1
            act = demand.pop(0)
            if act == 'N*':
                if not finished:
                    demand[0:0] = ['N', 'N*']
                continue
            if act == 'N' or (isinstance(act, list) and act[0] == 'T'):
                try:
                    if act == 'N':
                        log('N')
                        v = next(stream)
                    else:
                        log('T', act[1])
                        v = stream.throw(make_exc(act[1]))
                    vid = None if v is None else identify(v, kwargs)
                    if v is None:
                        log('y')
                    else:
                        log('Y', vid)
                    info = _info(P)
                    res['reads'].append(dict(kind='value', id=('n' if v is None else vid), draws=src.i,
                                             processed=info.processed, yielded=info.yielded, info_str=str(info),
                                             repr=(repr(v)[:80] if vid == UNKNOWN else None)))
                except StopIteration:
                    log('E')
                    finished = True
                    info = _info(P)
                    res['reads'].append(dict(kind='stop', draws=src.i, processed=info.processed, yielded=info.yielded,
                                             info_str=str(info)))
                except CaseTimeout:
                    raise
                except Exception as e:  # noqa
                    KEPT.append(e)       # a consumer may keep the exception (a log, pytest's excinfo): its traceback holds the stream's frame
                    eid = identify_exc(e)
                    if isinstance(act, list) and eid == act[1]:
                        pass   # the thrown exception came straight back: recorded by the T event
                    else:
                        log('R', eid)
                    finished = True
                    info = _info(P)
                    res['reads'].append(dict(kind='raised', id=eid, exc=repr(e)[:200], draws=src.i, thrown=isinstance(act, list),
                                             processed=info.processed, yielded=info.yielded, info_str=str(info)))
            elif act == 'A':
                # next() on a stream that has already finished: must be StopIteration, nothing else
                try:
                    v = next(stream)
                    res.setdefault('after_final', []).append('value')
                except StopIteration:
                    res.setdefault('after_final', []).append('stop')
                except CaseTimeout:
                    raise
                except Exception as e:  # noqa
                    res.setdefault('after_final', []).append('raised %r' % (e,))
            elif act == 'C':
                log('C')
                stream.close()
                finished = True
            elif act == 'G':
                log('C')
                stream = None
                gc.collect()
                if ALARM_FIRED:
                    raise CaseTimeout()
                finished = True
            elif act == 'I':
                info = _info(P)
                res['infos'].append(dict(processed=info.processed, yielded=info.yielded, s=str(info)))
            else:
                raise ValueError(act)
        res['final_draws'] = src.i
        res['src_calls'] = src.calls
        info = _info(P)
        res['final_info'] = dict(processed=info.processed, yielded=info.yielded, s=str(info))
        res['infos_changed_later'] = infos_changed()
        if finished:
            left, waited = wait_no_children((cpid,), 3.0)
            res['children_after'] = [(p, st) for p, st in left]
            res['children_wait_s'] = round(waited, 3)
        else:
            res['children_after'] = None     # stream still suspended: workers may legitimately live
        # a second pipeline in the same process must still work
        if case.get('second', True) and finished:
            SEMS_saved = SEMS
            SEMS = None
            try:
                Q2 = pipeline(1)(f_mod)
                TABLE2 = TABLE
                TABLE = [['u']] * 3
                out2 = list(Q2(iter(range(3)), **kwargs))
                TABLE = TABLE2
                res['second_ok'] = [identify(v, kwargs) for v in out2] == [0, 1, 2]
            except CaseTimeout:
                raise
            except Exception as e:  # noqa
                res['second_ok'] = False
                res['notes'].append('second pipeline failed: %r' % (e,))
            SEMS = SEMS_saved
            left, _ = wait_no_children((cpid,), 3.0)
            res['children_after_second'] = [(p, st) for p, st in left]
    except CaseTimeout:
        res['timeout'] = True
    finally:
        signal.alarm(0)
        signal.signal(signal.SIGALRM, old)
        G.Pool = orig_pool
    # end of scenario: stop the controller, fetch the trace
    try:
        log('Z')
    except OSError:
        pass
    hdr = b''
    while len(hdr) < 8:
        chunk = os.read(ctl_r, 8 - len(hdr))
        if not chunk:
            break
        hdr += chunk
    events = []
    if len(hdr) == 8:
        size = int.from_bytes(hdr, 'big')
        data = b''
        while len(data) < size:
            chunk = os.read(ctl_r, size - len(data))
            if not chunk:
                break
            data += chunk
        events = pickle.loads(data)
    _, cstatus = os.waitpid(cpid, 0)
    if len(hdr) != 8 or cstatus != 0:
        res['notes'].append('controller process ended abnormally: status=%r header=%d bytes' % (cstatus, len(hdr)))
    if res['timeout'] and stream is not None:
        try:
            stream.close()
        except Exception:  # noqa
            pass
    # reap anything left so that later scenarios in this runner start clean
    for p, st in children():
        try:
            os.kill(p, signal.SIGKILL)
        except OSError:
            pass
    try:
        while True:
            pid, _ = os.waitpid(-1, os.WNOHANG)
            if pid == 0:
                break
    except ChildProcessError:
        pass
    for fd in (rfd, LOGW, ctl_r):
        try:
            os.close(fd)
        except OSError:
            pass
    res['events'] = events
    return res


# ---------------------------------------------------------------------------
# trace -> model protocol
# ---------------------------------------------------------------------------

def outcome_token(t):
    if t[0] == 'u':
        return None   # filled with index by caller
    raise ValueError


def model_outcomes(case, parallel=True):
    toks = []
    for i, t in enumerate(case['table']):
        if t[0] == 'u':
            toks.append('v%d' % i)
        elif t[0] == 'z':
            toks.append('v%d' % (ZBASE + t[1]))
        elif t[0] == 'n':
            toks.append('n')
        elif t[0] == 'e':
            toks.append('e%d' % t[1])
        elif t[0] in ('pe', 'pr'):
            toks.append('e%d' % FOREIGN if parallel else 'v%d' % i)
        elif t[0] == 'it':
            toks.append('i:' + ','.join(item_token(it) for it in t[1]))
        else:
            raise ValueError(t)
    return toks


def event_tokens(events, with_workers=True):
    toks = []
    for tag, i, pid in events:
        if tag in ('N', 'D', 'C', 'E'):
            toks.append(tag)
        elif tag == 'T':
            toks.append('T%d' % i)
        elif tag == 'Y':
            toks.append('Y%d' % i)
        elif tag == 'y':
            toks.append('Yn')
        elif tag == 'R':
            toks.append('R%d' % i)
        elif tag in ('S', 'F') and with_workers:
            toks.append('%s%d' % (tag, i))
    return toks


def trace_line(case, events, pre=(0, 0)):
    cfg = case['cfg']
    tail = '-' if case.get('tail') is None else 'e%d' % case['tail']
    return 'pipe.trace %d %d %d %d %d | %s | %s | %s' % (
        cfg['nworkers'], cfg['extracache'], 1 if cfg['skipNone'] else 0, pre[0], pre[1], tail,
        ' '.join(model_outcomes(case)), ' '.join(event_tokens(events)))


def spec_line(case, parallel=True):
    tail = '-' if case.get('tail') is None else 'e%d' % case['tail']
    fam = 'pipe.spec' if not any(t[0] == 'it' for t in case['table']) else 'pipe.sspec'
    return '%s %d | %s | %s' % (fam, 1 if case['cfg']['skipNone'] else 0, tail, ' '.join(model_outcomes(case, parallel)))


def parse_state(line):
    """'accept delivered=3 pc=done pool=terminated drawn=..' -> dict"""
    parts = line.split(' ')
    d = {'verdict': parts[0]}
    for p in parts[1:]:
        if '=' in p:
            k, v = p.split('=', 1)
            d[k] = v
    return d


def expected_obs(case, parallel=True):
    """the property's own statement of what the consumer must see (independent of the Lean model)"""
    skip = case['cfg']['skipNone']
    out = []
    for i, t in enumerate(case['table']):
        if t[0] == 'e':
            return out + ['r%d' % t[1]]
        if t[0] in ('pe', 'pr') and parallel:
            return out + ['r%d' % FOREIGN]
        if t[0] == 'n':
            if not skip:
                out.append('n')
        elif t[0] == 'z':
            out.append('v%d' % (ZBASE + t[1]))
        elif t[0] == 'it':
            for it in t[1]:
                if it == 'n':
                    if not skip:
                        out.append('n')
                else:
                    out.append('v' + item_token(it))
        else:
            out.append('v%d' % i)
    if case.get('tail') is not None:
        return out + ['r%d' % case['tail']]
    return out + ['stop']


def observed_obs(res):
    out = []
    for r in res['reads']:
        if r['kind'] == 'value':
            out.append('n' if r['id'] == 'n' else 'v%d' % r['id'])
        elif r['kind'] == 'raised':
            out.append('r%d' % r['id'])
        else:
            out.append('stop')
    return out


# ---------------------------------------------------------------------------
# running many scenarios in parallel, each in its own runner process
# ---------------------------------------------------------------------------

def _warning_policy(case):
    import warnings
    warnings.filterwarnings('ignore')
    if case.get('library_warnings_are_errors'):
        # as under `python -W error` / pytest's filterwarnings=error (deprecation notices of the interpreter and of third
        # parties stay silent: fork() in a threaded process, numpy's shape setter, …)
        warnings.simplefilter('error')
        for cat in (DeprecationWarning, PendingDeprecationWarning, ImportWarning):
            warnings.filterwarnings('ignore', category=cat)
    if case.get('tracer_active'):
        # the program runs under a debugger / coverage tool / profiler: a trace function is installed in the consumer's thread.
        # It observes, it does not change what a stage does
        import sys
        import threading
        sys.settrace(_idle_tracer)
        threading.settrace(_idle_tracer)


def _idle_tracer(frame, event, arg):
    return None


def _runner(case):
    sys.dont_write_bytecode = True
    _warning_policy(case)
    try:
        return run_case(case)
    except Exception as e:  # noqa
        import traceback
        return dict(harness_error=traceback.format_exc(), events=[], reads=[], infos=[], timeout=False)


def run_cases(cases, workers=16, hard_timeout=40):
    """every scenario runs in its own forked process and process group; the group is killed as soon as
    the result is in (or after `hard_timeout`), so nothing a scenario leaks can outlive it or block the check"""
    results = [None] * len(cases)
    pending = list(range(len(cases)))[::-1]
    live = {}   # fd -> (index, pid, t0, buffer)

    def reap(fd, why=None):
        idx, pid, t0, buf = live.pop(fd)
        try:
            os.killpg(pid, signal.SIGKILL)
        except OSError:
            pass
        try:
            os.waitpid(pid, 0)
        except OSError:
            pass
        os.close(fd)
        data = b''.join(buf)
        if why is None and data:
            try:
                results[idx] = pickle.loads(data)
                return
            except Exception:  # noqa
                why = 'undecodable result'
        results[idx] = dict(events=[], reads=[], infos=[], notes=[why or 'no result'], timeout=True, runner_killed=why or 'no result')

    while pending or live:
        while pending and len(live) < workers:
            idx = pending.pop()
            r, w = os.pipe()
            pid = os.fork()
            if pid == 0:
                code = 0
                try:
                    os.setpgid(0, 0)
                    os.close(r)
                    # whatever the scenario prints (verbose=True stages, also from the workers) goes nowhere
                    dn = os.open(os.devnull, os.O_WRONLY)
                    os.dup2(dn, 1)
                    for fd in list(live):
                        try:
                            os.close(fd)
                        except OSError:
                            pass
                    data = pickle.dumps((_runner_multi if cases[idx].get('streams') else _runner)(cases[idx]))
                    off = 0
                    while off < len(data):
                        off += os.write(w, data[off:off + 65536])
                except BaseException:  # noqa
                    code = 1
                finally:
                    os._exit(code)
            os.close(w)
            try:
                os.setpgid(pid, pid)
            except OSError:
                pass
            live[r] = (idx, pid, time.time(), [])
        rl, _, _ = select.select(list(live), [], [], 0.5)
        for fd in rl:
            chunk = os.read(fd, 1 << 16)
            if chunk:
                live[fd][3].append(chunk)
            else:
                reap(fd)
        now = time.time()
        for fd in list(live):
            idx = live[fd][0]
            if now - live[fd][2] > max(hard_timeout, cases[idx].get('timeout', 15) + 15):
                reap(fd, 'scenario exceeded the hard time limit')
    return results


ISOLATED_RERUNS = [0]


def isolated(fn, args=(), timeout=60, attempts=2):
    """run fn(*args) in a forked child in its own process group; returns ('ok', result) | ('timeout', None) | ('error', text).
    A run that times out is repeated once (CPython's Pool.terminate() hangs once in several thousand closes with work in flight — see
    c01.execute): only a REPEATABLE timeout is reported. Nothing of a run survives it, so repeating is free of side effects."""
    res = ('timeout', None)
    for attempt in range(max(1, attempts)):
        res = _isolated_once(fn, args, timeout)
        if res[0] != 'timeout':
            break
        if attempt + 1 < attempts:
            ISOLATED_RERUNS[0] += 1
    return res


def _isolated_once(fn, args=(), timeout=60):
    r, w = os.pipe()
    pid = os.fork()
    if pid == 0:
        code = 0
        try:
            os.setpgid(0, 0)
            os.close(r)
            os.dup2(os.open(os.devnull, os.O_WRONLY), 1)
            try:
                data = pickle.dumps(('ok', fn(*args)))
            except BaseException:  # noqa
                import traceback
                data = pickle.dumps(('error', traceback.format_exc()))
            off = 0
            while off < len(data):
                off += os.write(w, data[off:off + 65536])
        finally:
            os._exit(code)
    os.close(w)
    try:
        os.setpgid(pid, pid)
    except OSError:
        pass
    buf, t0 = [], time.time()
    res = None
    while True:
        rl, _, _ = select.select([r], [], [], 0.5)
        if rl:
            chunk = os.read(r, 1 << 16)
            if not chunk:
                break
            buf.append(chunk)
        if time.time() - t0 > timeout:
            res = ('timeout', None)
            break
    try:
        os.killpg(pid, signal.SIGKILL)
    except OSError:
        pass
    try:
        os.waitpid(pid, 0)
    except OSError:
        pass
    os.close(r)
    if res is None:
        try:
            res = pickle.loads(b''.join(buf))
        except Exception:  # noqa
            res = ('error', 'no result from the isolated run')
    return res



class HarnessTimeout(Exception):
    """raised in the main thread by time_limit()"""


class time_limit:
    """with time_limit(s): ... — a SIGALRM-based wall-clock limit for a piece of in-process work on the implementation
    (main thread only). On expiry HarnessTimeout is raised inside the block."""

    def __init__(self, seconds):
        self.seconds = seconds

    def _fire(self, signum, frame):
        raise HarnessTimeout('no answer within %s s' % self.seconds)

    def __enter__(self):
        self.old = signal.signal(signal.SIGALRM, self._fire)
        signal.setitimer(signal.ITIMER_REAL, self.seconds)
        return self

    def __exit__(self, *exc):
        signal.setitimer(signal.ITIMER_REAL, 0)
        signal.signal(signal.SIGALRM, self.old)
        return False


def kill_children():
    """SIGKILL every direct child process (used after an in-process call of the implementation ran into time_limit)"""
    for pid, _state in children():
        try:
            os.kill(pid, signal.SIGKILL)
        except OSError:
            pass

# ---------------------------------------------------------------------------
# several streams of ONE stage object, created / advanced / dropped in an interleaved plan
# ---------------------------------------------------------------------------

SBASE = 10000     # element id = SBASE * stream + local index


class MSrc:
    def __init__(self, s, n, tail):
        self.s, self.n, self.tail, self.i = s, n, tail, 0

    def __iter__(self):
        return self

    def __next__(self):
        log('D', SBASE * self.s + self.i)
        if self.i >= self.n:
            if self.tail is not None:
                raise make_exc(self.tail)
            raise StopIteration
        self.i += 1
        return SBASE * self.s + self.i - 1


def run_multi(case):
    """case: cfg, streams=[{n, table, tail, kwargs}], plan=[[s, act], …] with act in K(create) N C G, fkind
    returns dict(events, reads=[{stream, kind, id, draws, processed, yielded}], children_after, final_info …)"""
    global LOGW, SEMS, TABLE, KW_EXPECT, MAINPID
    import generatorpipeline.generatorpipeline as G
    from generatorpipeline import pipeline
    cfg = case['cfg']
    MAINPID = os.getpid()
    TABLE = {}
    for s, st in enumerate(case['streams']):
        for i, t in enumerate(st['table']):
            TABLE[SBASE * s + i] = list(t)
    KW_EXPECT = None
    SEMS = None
    rfd, LOGW = os.pipe()
    ctl_r, ctl_w = os.pipe()
    cpid = os.fork()
    if cpid == 0:
        code = 0
        try:
            os.close(ctl_r)
            controller(rfd, None, None, ctl_w)
        except BaseException:  # noqa
            code = 3
        finally:
            os._exit(code)
    os.close(ctl_w)
    orig_pool = G.Pool

    class LoggedPool(multiprocessing.pool.Pool):
        def __init__(self, *a, **k):
            super().__init__(*a, **k)
            self._verif_term = False
            log('P')

        def terminate(self):
            if not getattr(self, '_verif_term', True):
                self._verif_term = True
                log('X')
            return super().terminate()

    G.Pool = lambda processes=None, initializer=None, initargs=(), maxtasksperchild=None: LoggedPool(
        processes, initializer, initargs, maxtasksperchild, context=mp.get_context())
    res = dict(reads=[], notes=[], timeout=False, created={})
    old = signal.signal(signal.SIGALRM, _alarm)
    signal.alarm(int(case.get('timeout', 15)))
    streams, srcs, state = {}, {}, {}
    try:
        fk = case.get('fkind', 'module')
        func = f_mod if fk == 'module' else (F_LAMBDA if fk == 'lambda' else make_closure(TABLE))
        P = pipeline(cfg['nworkers'], skipNone=cfg['skipNone'], extracache=cfg['extracache'],
                     maxtasksperchild=cfg.get('maxtasksperchild'), verbose=bool(cfg.get('verbose')))(func)
        for s, act in case['plan']:
            st = case['streams'][s]
            kw = dict(st.get('kwargs') or {})
            if act == 'K':
                ch0 = len(children((cpid,)))
                srcs[s] = MSrc(s, st['n'], st.get('tail'))
                streams[s] = P(srcs[s], **kw)
                state[s] = 'created'
                res['created'][s] = dict(draws=srcs[s].i, new_children=len(children((cpid,))) - ch0)
            elif act == 'N':
                if s not in streams or state[s] in ('closed',):
                    continue
                log('N', s)
                try:
                    v = next(streams[s])
                    log('M', s)
                    if v is None:
                        log('y')
                        vid = 'n'
                    else:
                        vid = identify(v, kw)
                        log('Y', vid)
                    info = _info(P)
                    res['reads'].append(dict(stream=s, kind='value', id=vid, draws=srcs[s].i, processed=info.processed,
                                             yielded=info.yielded, info_str=str(info)))
                    state[s] = 'open'
                except StopIteration:
                    log('M', s)
                    log('E')
                    info = _info(P)
                    res['reads'].append(dict(stream=s, kind='stop', draws=srcs[s].i, processed=info.processed, yielded=info.yielded))
                    state[s] = 'finished'
                except CaseTimeout:
                    raise
                except Exception as e:  # noqa
                    KEPT.append(e)
                    log('M', s)
                    eid = identify_exc(e)
                    log('R', eid)
                    info = _info(P)
                    res['reads'].append(dict(stream=s, kind='raised', id=eid, exc=repr(e)[:200], draws=srcs[s].i,
                                             processed=info.processed, yielded=info.yielded))
                    state[s] = 'finished'
            elif act == 'C':
                if s in streams:
                    log('C', s)
                    streams[s].close()
                    state[s] = 'closed'
            elif act == 'G':
                if s in streams:
                    log('C', s)
                    del streams[s]
                    gc.collect()
                    if ALARM_FIRED:
                        raise CaseTimeout()
                    state[s] = 'closed'
        # end of the plan: whatever is still suspended is closed now (recorded), then the process table is inspected
        res['left_open'] = sorted(s for s in streams if state.get(s) in ('open', 'created'))
        for s in res['left_open']:
            log('C', s)
            streams[s].close()
        left, waited = wait_no_children((cpid,), 3.0)
        res['children_after'] = [(p, stt) for p, stt in left]
        res['children_wait_s'] = round(waited, 3)
        info = _info(P)
        res['final_info'] = dict(processed=info.processed, yielded=info.yielded, s=str(info))
        res['final_draws'] = {s: srcs[s].i for s in srcs}
    except CaseTimeout:
        res['timeout'] = True
    finally:
        signal.alarm(0)
        signal.signal(signal.SIGALRM, old)
        G.Pool = orig_pool
    try:
        log('Z')
    except OSError:
        pass
    hdr = b''
    while len(hdr) < 8:
        chunk = os.read(ctl_r, 8 - len(hdr))
        if not chunk:
            break
        hdr += chunk
    events = []
    if len(hdr) == 8:
        size = int.from_bytes(hdr, 'big')
        data = b''
        while len(data) < size:
            chunk = os.read(ctl_r, size - len(data))
            if not chunk:
                break
            data += chunk
        events = pickle.loads(data)
    os.waitpid(cpid, 0)
    res['events'] = events
    return res


def stream_events(events, s):
    """the events of stream s of a multi-stream run, as tokens for the single-stream acceptor"""
    toks = []
    cur = None
    for tag, i, pid in events:
        if tag == 'N':
            if i == s:
                toks.append('N')
        elif tag == 'C':
            if i == s:
                toks.append('C')
        elif tag == 'D':
            if i // SBASE == s:
                toks.append('D')
        elif tag in ('S', 'F'):
            if i // SBASE == s:
                toks.append('%s%d' % (tag, i % SBASE))
        elif tag == 'M':
            cur = i
        elif tag in ('Y', 'y', 'R', 'E') and cur == s:
            if tag == 'Y':
                toks.append('Y%d' % (i % SBASE))
            elif tag == 'y':
                toks.append('Yn')
            elif tag == 'R':
                toks.append('R%d' % i)
            else:
                toks.append('E')
            cur = None
    return toks


def _runner_multi(case):
    sys.dont_write_bytecode = True
    _warning_policy(case)
    try:
        return run_multi(case)
    except Exception:  # noqa
        import traceback
        return dict(harness_error=traceback.format_exc(), events=[], reads=[], timeout=False)


def stage_events(events):
    """all events of a multi-stream run as tokens `<stream>:<event>` (and K for stream creation is added by the caller)"""
    toks = []
    cur = None
    for tag, i, pid in events:
        if tag == 'N':
            toks.append('%d:N' % i)
        elif tag == 'C':
            toks.append('%d:C' % i)
        elif tag == 'D':
            toks.append('%d:D' % (i // SBASE))
        elif tag in ('S', 'F'):
            toks.append('%d:%s%d' % (i // SBASE, tag, i % SBASE))
        elif tag == 'M':
            cur = i
        elif tag in ('Y', 'y', 'R', 'E') and cur is not None:
            if tag == 'Y':
                toks.append('%d:Y%d' % (cur, i % SBASE))
            elif tag == 'y':
                toks.append('%d:Yn' % cur)
            elif tag == 'R':
                toks.append('%d:R%d' % (cur, i))
            else:
                toks.append('%d:E' % cur)
            cur = None
    return toks


# ---------------------------------------------------------------------------
# start methods other than fork (nothing is inherited: workers import what they run)
# ---------------------------------------------------------------------------

def sm_func(x, **kw):
    return ('sm', x, tuple(sorted(kw.items())))


class _CountingIter:
    def __init__(self, n):
        self.n, self.i = n, 0

    def __iter__(self):
        return self

    def __next__(self):
        if self.i >= self.n:
            raise StopIteration
        self.i += 1
        return self.i - 1


def startmethod_probe(method, nworkers, extracache, kw, n):
    """runs inside isolated(): the program has selected `method` as its multiprocessing start method"""
    import multiprocessing as mp
    mp.set_start_method(method, force=True)
    from generatorpipeline import pipeline
    P = pipeline(nworkers, extracache=extracache)(sm_func)
    src = _CountingIter(n)
    before = sorted(p for p, st in children())
    stream = P(src, **kw)
    time.sleep(0.4)                      # a pool that is created with the stream has shown up by now
    early = sorted(p for p, st in children() if p not in before)
    draws0 = src.i
    first = next(stream, 'empty')
    draws1 = src.i
    rest = list(stream)
    return dict(early_children=len(early), draws_before_first_next=draws0, draws_at_first_output=draws1,
                outputs=([first] if first != 'empty' else []) + rest)
