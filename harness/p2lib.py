"""p2lib.py — drive CDFEstimator/QuantileEstimator and the Lean P² model in lock-step (binary64 words)."""
import math
import struct
import numpy as np


def hexf(x):
    return '%x' % struct.unpack('>Q', struct.pack('>d', float(x)))[0]


def unhex(s):
    return struct.unpack('>d', struct.pack('>Q', int(s, 16)))[0]


def make(spec):
    """spec: ['cdf', k] | ['grid', [..]] | ['quantile', p] | ['median']"""
    import generatorpipeline.accumulators as A
    if spec[0] == 'cdf':
        return A.CDFEstimator(spec[1])
    if spec[0] == 'grid':
        if len(spec[1]) % 2:
            return A.CDFEstimator(list(spec[1]))
        # the grid comes as one row of the caller's table of grids, and the caller goes on using that table
        table = np.array([sorted(spec[1]), sorted(spec[1])], dtype=float)
        est = A.CDFEstimator(table[0])
        table *= 7.0
        table[:, 1:] += 3.0
        return est
    if spec[0] == 'quantile':
        return A.QuantileEstimator(spec[1])
    if spec[0] == 'median':
        return A.MedianEstimator()
    raise ValueError(spec)


def state(est, comp=None):
    """(n, heights(list, filled part only), ranks(list)) of one component"""
    n, pos, h = est._debug_info
    m = len(est.q_desired)
    if pos is None:
        return 0, [], [float(i) for i in range(m)]
    if comp is not None:
        pos = pos.reshape(m, -1)[:, comp]
        h = h.reshape(m, -1)[:, comp]
    k = min(n, m)
    return int(n), [float(t) for t in h[:k]], [float(t) for t in pos]


def step_line(q, st, x, fam='p2f'):
    n, h, pos = st
    f = hexf
    return '%s.step %d | %s | %s | %s | %s' % (fam, n, ' '.join(f(t) for t in q), ' '.join(f(t) for t in h),
                                              ' '.join(f(t) for t in pos), f(x))


def parse_state(line):
    a, b, c = line.split('|')
    return int(a), [unhex(t) for t in b.split()], [unhex(t) for t in c.split()]


def same_float(a, b):
    return a == b or (math.isnan(a) and math.isnan(b)) or struct.pack('>d', a) == struct.pack('>d', b)


def gen_grid(rng):
    t = rng.random()
    if t < 0.35:
        return ['cdf', rng.choice([2, 3, 4, 5, 6, 7, 9, 12, 33, 41])]      # (dense grids too: more markers than any small-grid shortcut expects)
    if t < 0.6:
        k = rng.randint(0, 6)
        inner = sorted(round(rng.uniform(0.01, 0.99), rng.choice([1, 2, 3])) for _ in range(k))
        if inner and rng.random() < 0.3:
            # a grid may name the same quantile twice (or three times): two markers then compete for one rank
            inner = sorted(inner + [rng.choice(inner)] * rng.choice([1, 1, 2]))
        return ['grid', [0.0] + inner + [1.0]]
    if t < 0.9:
        return ['quantile', rng.choice([0.01, 0.05, 0.1, 0.25, 0.3, 0.5, 0.7, 0.75, 0.9, 0.95, 0.99, round(rng.uniform(0.02, 0.98), 3)])]
    return ['median']


def gen_seq(rng, n, family):
    if family == 'uniform':
        return [rng.uniform(-10, 10) for _ in range(n)]
    if family == 'tied':
        alpha = [float(rng.randint(-3, 3)) for _ in range(rng.randint(2, 5))]
        return [rng.choice(alpha) for _ in range(n)]
    if family == 'constant':
        c = rng.choice([0.0, 1.5, -7.0, 1e300, -1e-300, 0.1, 0.7, -0.3, 1e300 / 3, 1.1e-300])
        return [c] * n
    if family == 'sorted':
        return sorted(rng.gauss(0, 1) for _ in range(n))
    if family == 'reversed':
        return sorted((rng.gauss(0, 1) for _ in range(n)), reverse=True)
    if family == 'extreme':
        return [rng.choice([-1, 1]) * 10.0 ** rng.uniform(-300, 300) for _ in range(n)]
    if family == 'huge':
        return [rng.choice([-1, 1]) * rng.uniform(0.5, 1.0) * 1e300 for _ in range(n)]
    if family == 'ints':
        return [float(rng.randint(-50, 50)) for _ in range(n)]
    if family == 'gauss':
        return [rng.gauss(3, 2) for _ in range(n)]
    if family == 'tinyscale':
        sc = 10.0 ** -rng.choice([165, 180, 200, 250, 300])
        return [abs(rng.gauss(5, 3)) * sc + sc for _ in range(n)]
    if family == 'hugescale':
        sc = 10.0 ** rng.choice([150, 200, 290])
        return [rng.gauss(0, 1) * sc for _ in range(n)]
    if family == 'repeating':
        c = rng.choice([0.1, 0.7, -0.3, 1e300 / 3, 1.1e-300, 2.0 / 3])
        return [c if rng.random() < 0.85 else c * rng.choice([0.5, 2.0]) for _ in range(n)]
    if family == 'plateau':
        # the stream opens with more identical observations than any grid has markers (dark frames, a run of zeros), and the
        # smallest value keeps coming back (zero-inflated counts): markers sit on a plateau while their ranks must still move
        c = rng.choice([0.0, 0.0, -8.0, 3.5])
        k = min(n, rng.randint(6, 16))
        return [c] * k + [c if rng.random() < 0.3 else c + rng.randint(1, 64) / 4.0 for _ in range(n - k)]
    if family == 'mixedties':
        base = [rng.gauss(0, 1) for _ in range(max(2, n // 4))]
        return [rng.choice(base) for _ in range(n)]
    raise ValueError(family)


FAMILIES = ['uniform', 'tied', 'constant', 'sorted', 'reversed', 'extreme', 'huge', 'ints', 'gauss', 'mixedties', 'tinyscale', 'hugescale', 'repeating', 'plateau']


# ---------------------------------------------------------------------------
# independent implementation written from Box 1 of Jain & Chlamtac (1985), m markers,
# generic over the number type (float or Fraction).  1-based marker positions.
# Tie convention of the property: an observation equal to a marker counts as below it.
# ---------------------------------------------------------------------------

def paper_init(p, first):
    """after the first m observations: heights = sorted observations, n_i = i"""
    return dict(p=list(p), N=len(first), q=sorted(first), n=list(range(1, len(first) + 1)))


def paper_step(st, x, num=float, margins=None, rank_margins=None):
    p, q, n = st['p'], list(st['q']), list(st['n'])
    m = len(q)
    N = st['N'] + 1
    # B1: find cell k, adjust extreme values
    if x < q[0]:
        q[0] = x
        k = 1
    elif q[m - 1] < x:
        q[m - 1] = x
        k = m - 1
    else:
        k = sum(1 for i in range(m) if q[i] < x)      # markers strictly below x
        k = min(max(k, 1), m - 1)
    # B2: increment positions of markers k+1..m ; desired positions
    for i in range(k, m):
        n[i] += 1
    desired = [1 + (N - 1) * p[i] for i in range(m)]
    # B3: adjust heights of markers 2..m-1
    for i in range(1, m - 1):
        d = desired[i] - n[i]
        if margins is not None:
            margins.append(abs(abs(float(d)) - 1.0))
        if rank_margins is not None:
            rank_margins.append(abs(abs(float(d)) - 1.0))      # only THIS decision can move a rank
        if (d >= 1 and n[i + 1] - n[i] > 1) or (d <= -1 and n[i - 1] - n[i] < -1):
            s = 1 if d > 0 else -1
            qp = q[i] + num(s) / (n[i + 1] - n[i - 1]) * (
                (n[i] - n[i - 1] + s) * (q[i + 1] - q[i]) / (n[i + 1] - n[i])
                + (n[i + 1] - n[i] - s) * (q[i] - q[i - 1]) / (n[i] - n[i - 1]))
            if margins is not None:
                scale = max(abs(float(q[i - 1])), abs(float(q[i + 1])), 1e-300)
                margins.append(min(abs(float(qp - q[i - 1])), abs(float(q[i + 1] - qp))) / scale)
            if q[i - 1] < qp < q[i + 1]:
                q[i] = qp
            else:
                q[i] = q[i] + s * (q[i + s] - q[i]) / (n[i + s] - n[i])
            n[i] += s
    return dict(p=p, N=N, q=q, n=n)


def close_rel(a, b, rtol=1e-9):
    if a == b:
        return True
    if math.isnan(a) or math.isnan(b) or math.isinf(a) or math.isinf(b):
        return False
    return abs(a - b) <= rtol * max(abs(a), abs(b), 1e-300)


def roundtrip(est, kind):
    """the estimator after a trip through a serialiser (as when it is shipped between processes or checkpointed)"""
    import copy
    import pickle
    if kind == 'pickle':
        return pickle.loads(pickle.dumps(est))
    if kind == 'dill':
        import dill
        return dill.loads(dill.dumps(est))
    if kind == 'deepcopy':
        return copy.deepcopy(est)
    if kind == 'copy':
        # a shallow copy shares state with the original, which is dropped here: must behave like the original
        return copy.copy(est)
    raise ValueError(kind)


def gen_roundtrips(rng, n):
    """[[i, kind]]: before observation i the estimator is replaced by its round-tripped self"""
    if n < 2 or rng.random() > 0.3:
        return []
    return sorted([rng.randrange(1, n), rng.choice(['pickle', 'dill', 'deepcopy', 'copy'])] for _ in range(rng.choice([1, 1, 2])))


def excusable(ranks_differ, pre_state, q, x):
    """a lock-step difference may be a matter of rounding only if a decision of that step lies within 1e-9 of its threshold —
    and a difference in the RANKS only if a rank decision (|desired - rank| against 1) does: the parabolic-vs-neighbour
    test decides heights, never ranks"""
    mg, rmg = [], []
    paper_step(dict(p=q, N=pre_state[0], q=list(pre_state[1]), n=[int(t) + 1 for t in pre_state[2]]), x, margins=mg, rank_margins=rmg)
    pool = rmg if ranks_differ else mg
    return bool(pool) and min(pool) < 1e-9


def gen_rejects(rng, n):
    """[[i, kind]]: before observation i the estimator is offered something it cannot take; the caller catches the exception
    and carries on (a corrupt record in a long stream)"""
    if n < 2 or rng.random() > 0.25:
        return []
    # (after at least one accepted observation: the very first one also fixes the shape)
    return sorted([rng.randrange(1, n), rng.choice(['text', 'wrongshape'])] for _ in range(rng.choice([1, 1, 2])))


def offer_rejected(est, kind, shape):
    """returns None if the estimator refused and kept its state, else a complaint"""
    import numpy as np
    ncomp = int(np.prod(shape)) if shape else 1
    before = [state(est, c if shape else None) for c in range(ncomp)]
    n0 = est.n
    bad = 'n/a' if kind == 'text' else np.arange(float(ncomp + 1))
    try:
        est.accumulate(bad)
    except Exception:  # noqa
        after = [state(est, c if shape else None) for c in range(ncomp)]
        if est.n != n0 or repr(after) != repr(before):
            return 'a rejected observation (%s) changed the estimator: n %s -> %s' % (kind, n0, est.n)
        return None
    return 'accepted'          # the implementation took it (broadcasting): nothing to compare, the case is dropped


def reinit(est, spec):
    """call the constructor again on a used estimator (a long-lived object that is reset between runs)"""
    if spec[0] == 'cdf':
        est.__init__(spec[1])
    elif spec[0] == 'grid':
        est.__init__(list(spec[1]))
    elif spec[0] == 'quantile':
        est.__init__(spec[1])
    else:
        est.__init__()
    return est


def grid_complaint(est, spec):
    """the estimator's grid is the grid it was given, whatever the caller does with its own array afterwards"""
    if spec[0] != 'grid':
        return None
    got = [float(t) for t in est.q_desired]
    want = sorted(float(t) for t in spec[1])
    return None if got == want else 'the estimator runs with the grid %s, it was given %s (and the caller changed its own array afterwards)' % (got[:6], want[:6])
