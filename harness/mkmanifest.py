"""regenerate /verif/MANIFEST.json from the table below (run after adding a check)."""
import json
import os

VERIF = os.path.dirname(os.path.dirname(os.path.abspath(__file__)))

COMMON_NOTE = ('Trusted: Lean 4.33 kernel with axioms propext/Classical.choice/Quot.sound (audited on every run), the hand-written '
               'Lean model (lean/Gpv/Model), the correspondence harness that ties it to /repo on every run, and the documented '
               'behaviour of CPython/numpy/multiprocessing/pickle/zipfile (modelled, not verified). ')

# id -> (technique, level text, extra note, design_ref)
CHECKS = {
    'C01': ('Lean 4 proof: inductive invariant over all reachable states of a labelled transition system with adversarial scheduler; '
            'progress + decreasing measure; trace-acceptance correspondence under forced worker schedules',
            'Theorems for every configuration (nworkers>=1, extracache, skipNone), source, function and every schedule of worker '
            'start/finish events: the window is the contiguous ordered range [taken, drawn), the output so far is the spec of the '
            'taken prefix (par_safety), every final state delivered exactly spec (par_final), no deadlock (par_progress), every run '
            'is finite (par_measure/par_terminates), serial = parallel = spec, chains compose. The same step? function is the trace '
            'acceptor that validates event traces of the real code under forced out-of-order completions on every run.',
            'multiprocessing.Pool is modelled (FIFO-free dispatch to idle workers, get() returns the task outcome); maxtasksperchild only '
            'changes which OS process serves a task and is exercised, not modelled.',
            'DESIGN.md §6 C01'),
    'C02': ('Lean 4 proof: window invariants of the transition system (window_bound, window_full_when_waiting, workers_saturated, '
            'draws_at_yield, lazy_init); draw-counter correspondence under demand histories and withheld completions',
            'Theorems over all reachable states: nothing is drawn and no pool exists before the first next; drawn-taken <= nworkers+extracache; '
            'the window is exactly full whenever the generator waits in the main loop; when no start is possible running = min(nworkers, '
            'unfinished); serial draws exactly one element per processed element.',
            '"processed at the same time in distinct processes" is observed (distinct pids with completions withheld), not proved.',
            'DESIGN.md §6 C02'),
    'C03': ('Lean 4 proof: failure clause of the specification + par_final/serial_final over all schedules and failure positions; '
            'correspondence over every failure position/kind with forced completion orders',
            'Theorems: spec = ordered prefix then the exception (function failure at k or source failure after k), delivered by every '
            'maximal parallel run under every schedule and by the serial run; after a final state next() changes nothing and no output '
            'is ever added.',
            'A task whose element/result cannot be pickled is modelled as that task failing (Pool behaviour, exercised for real).',
            'DESIGN.md §6 C03'),
    'C04': ('Lean 4 proof: pool-scoping invariant over every exit edge of the generator (close, throw, failure, exhaustion); '
            'process-table observation at every stop point',
            'Theorems over all reachable states and every consumer behaviour: the pool is alive exactly while the generator body is '
            'entered and not left; every final state has the pool terminated or never created; a stream that is never advanced '
            'creates no pool; worker events need a live pool.',
            'That Pool.terminate() ends the OS processes and the behaviour at interpreter exit are runtime facts: observed in /proc and '
            'with child interpreters, not proved.',
            'DESIGN.md §6 C04'),
    'C05': ('Lean 4 proof (induction + field algebra) over the executable accumulator model; model-vs-code correspondence in exact rationals',
            'Theorems for every field of characteristic 0 and every finite sequence: Mean/Variance/Cov2/Counter/Min/Max runs equal the batch '
            'statistic, with n, sum, rms, mean read-outs, the n=1 error branch and invariance under permutation of arrival order. '
            'The model definitions are the ones the driver executes against the real classes on generated sequences each run.',
            'The floating-point error clause is checked as a test (float_probe against the exact rational batch statistic), not proved.',
            'DESIGN.md §6 C05'),
    'C06': ('Lean 4 proof (pooled-merge algebra, induction over merge trees) over the executable model; model-vs-code correspondence on random partitions and merge orders',
            'Theorems: merge (run xs) (run ys) = run (xs ++ ys) as states for Counter/Min/Max/Mean/Variance/Cov2 over every field of '
            'characteristic 0, including empty operands on either side; every binary merge tree over every partition equals one run over '
            'the concatenation; non-mergeable kinds return NotImplementedError with the receiver unchanged. The pinned-tree counterexamples '
            '(ZeroDivisionError / TypeError on empty operands) are proved about the pre-fix model and were replayed on the real code.',
            'Float bounds of merges are tested, not proved. "other is unchanged" is checked on the implementation (read before/after) and carried by the store model of C11.',
            'DESIGN.md §6 C06'),
}


def main():
    props = [json.loads(l) for l in open(os.path.join(VERIF, 'properties.jsonl'))]
    checks, na = [], []
    for p in props:
        pid = p['id']
        if pid in CHECKS:
            tech, text, note, ref = CHECKS[pid]
            checks.append({
                'property_id': pid,
                'quick_cmd': './check %s --tier quick' % pid,
                'thorough_cmd': './check %s --tier thorough' % pid,
                'evidence_file': 'evidence/%s.json' % pid,
                'replay_cmd_template': './check %s --replay {path}' % pid,
                'engine': 'gpv-lean',
                'level_claimed': {'category': 'proof', 'text': text, 'design_ref': ref},
                'level_note': COMMON_NOTE + note,
                'technique': tech,
            })
        else:
            na.append({'property_id': pid, 'reason': 'check not built yet (work in progress; planned in DESIGN.md §6 %s)' % pid})
    m = {
        'version': 1,
        'setup_cmd': 'cd lean && lake build',
        'hooks': {
            'guard': 'GENERATORPIPELINE_VERIF',
            'enable': 'no source hooks are needed: the harness instruments from outside (inherited pipes/semaphores, module attributes); the guard is unused',
            'baseline_off_cmd': 'cd /repo && /venv/bin/python -m pytest -ra -q -p no:cacheprovider --timeout=900 --continue-on-collection-errors',
            'source_commits': [],
            'add_only': True,
        },
        'engines': [{
            'name': 'gpv-lean', 'path': 'lean',
            'serves_properties': [c['property_id'] for c in checks],
            'kind_free_text': 'Lean 4 project: executable models (Gpv/Model), proofs (Gpv/Proofs, Gpv/Props), line-protocol driver (Driver.lean); '
                              'Python correspondence harness in harness/',
        }],
        'checks': checks,
        'not_applicable': na,
        'notes': 'Exit codes: 0 property shown to hold; 1 VIOLATION; 2 failure of the verification machinery itself (never a violation). '
                 'fix: commits in /repo are listed in known_findings.json.',
    }
    json.dump(m, open(os.path.join(VERIF, 'MANIFEST.json'), 'w'), indent=1)
    print('checks:', [c['property_id'] for c in checks], 'not_applicable:', len(na))


if __name__ == '__main__':
    main()
