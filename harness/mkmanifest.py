"""regenerate /verif/MANIFEST.json from the table below (run after adding a check)."""
import json
import os

VERIF = os.path.dirname(os.path.dirname(os.path.abspath(__file__)))

COMMON_NOTE = ('Trusted: Lean 4.33 kernel with axioms propext/Classical.choice/Quot.sound (audited on every run), the hand-written '
               'Lean model (lean/Gpv/Model), the correspondence harness that ties it to /repo on every run, and the documented '
               'behaviour of CPython/numpy/multiprocessing/pickle/zipfile (modelled, not verified). ')

# id -> (technique, level text, extra note, design_ref)
CHECKS = {
    'C01': ('Lean 4 proof: inductive invariant over all reachable states of a labelled transition system with adversarial scheduler; '
            'progress + decreasing measure; trace-acceptance correspondence under forced worker schedules',
            'Theorems for every configuration (nworkers>=1, extracache, skipNone), source, function and every schedule of worker '
            'start/finish events: the window is the contiguous ordered range [taken, drawn), the output so far is the spec of the '
            'taken prefix (par_safety), every final state delivered exactly spec (par_final), no deadlock (par_progress), every run '
            'is finite (par_measure/par_terminates), serial = parallel = spec, chains compose. The same step? function is the trace '
            'acceptor that validates event traces of the real code under forced out-of-order completions on every run.',
            'multiprocessing.Pool is modelled (FIFO-free dispatch to idle workers, get() returns the task outcome); maxtasksperchild only '
            'changes which OS process serves a task and is exercised, not modelled.',
            'DESIGN.md §6 C01'),
    'C02': ('Lean 4 proof: window invariants of the transition system (window_bound, window_full_when_waiting, workers_saturated, '
            'draws_at_yield, lazy_init); draw-counter correspondence under demand histories and withheld completions',
            'Theorems over all reachable states: nothing is drawn and no pool exists before the first next; drawn-taken <= nworkers+extracache; '
            'the window is exactly full whenever the generator waits in the main loop; when no start is possible running = min(nworkers, '
            'unfinished); serial draws exactly one element per processed element.',
            '"processed at the same time in distinct processes" is observed (distinct pids with completions withheld), not proved.',
            'DESIGN.md §6 C02'),
    'C03': ('Lean 4 proof: failure clause of the specification + par_final/serial_final over all schedules and failure positions; '
            'correspondence over every failure position/kind with forced completion orders',
            'Theorems: spec = ordered prefix then the exception (function failure at k or source failure after k), delivered by every '
            'maximal parallel run under every schedule and by the serial run; after a final state next() changes nothing and no output '
            'is ever added.',
            'A task whose element/result cannot be pickled is modelled as that task failing (Pool behaviour, exercised for real).',
            'DESIGN.md §6 C03'),
    'C04': ('Lean 4 proof: pool-scoping invariant over every exit edge of the generator (close, throw, failure, exhaustion); '
            'process-table observation at every stop point',
            'Theorems over all reachable states and every consumer behaviour: the pool is alive exactly while the generator body is '
            'entered and not left; every final state has the pool terminated or never created; a stream that is never advanced '
            'creates no pool; worker events need a live pool.',
            'That Pool.terminate() ends the OS processes and the behaviour at interpreter exit are runtime facts: observed in /proc and '
            'with child interpreters, not proved.',
            'DESIGN.md §6 C04'),
    'C05': ('Lean 4 proof (induction + field algebra) over the executable accumulator model; model-vs-code correspondence in exact rationals',
            'Theorems for every field of characteristic 0 and every finite sequence: Mean/Variance/Cov2/Counter/Min/Max runs equal the batch '
            'statistic, with n, sum, rms, mean read-outs, the n=1 error branch and invariance under permutation of arrival order. '
            'The model definitions are the ones the driver executes against the real classes on generated sequences each run.',
            'The floating-point clause: for the MEAN it is proved under the standard model of rounding (C05Float.mean_float_error, 6*n*u*max|x| '
            'for 8*n*u <= 1) and for the VARIANCE (Welford) too (C05FloatVar.var_float_defect / _centered / var_float_value_error: worst-case '
            'bounds on n*var - S and on the rounded read-out, for 64*n*u <= 1) and the covariance entry (C05FloatCov.cov_float_defect and its Cauchy-Schwarz, centred and read-out forms); '
            'merges and running variants are checked as a test (float_probe against the exact rational batch statistic). The '
            'update expressions and read-outs of Mean, Variance (Welford) and Covariance are additionally translated from the current source and proved equal to the model by ring on every run.',
            'DESIGN.md §6 C05'),
    'C06': ('Lean 4 proof (pooled-merge algebra, induction over merge trees) over the executable model; model-vs-code correspondence on random partitions and merge orders',
            'Theorems: merge (run xs) (run ys) = run (xs ++ ys) as states for Counter/Min/Max/Mean/Variance/Cov2 over every field of '
            'characteristic 0, including empty operands on either side; every binary merge tree over every partition equals one run over '
            'the concatenation; non-mergeable kinds return NotImplementedError with the receiver unchanged. The pinned-tree counterexamples '
            '(ZeroDivisionError / TypeError on empty operands) are proved about the pre-fix model and were replayed on the real code.',
            'The float bound of the mean merge and of whole merge trees is proved in the standard rounding model (C06Float.*: grows with the tree depth, not the number of chunks); those of the variance / covariance merges are tested, not proved. "other is unchanged" is checked on the implementation (read before/after) and carried by the store model of C11.',
            'DESIGN.md §6 C06'),
    'C07': ('Lean 4 proof: inductive invariant of the P² update (per-marker B3 step, placement step) over every linearly ordered field; '
            'lock-step correspondence of the same definitions run at binary64 against the numpy implementation',
            'Theorems for every grid with >= 2 markers and every sequence once n >= m: heights sorted, lowest/highest marker = exact '
            'min/max, ranks integers strictly increasing from 0 to n-1 (inv_step, inv_run); before that the markers are the observations '
            'in arrival order; q_actual in [0,1] and monotone; np.interp model monotone and within range, hence cdf/quantile read-outs.',
            'Besides the exact-field theorems the structural invariants (sorted heights, exact min/max, range, integer strictly increasing ranks) are '
            'proved for the same generic model at rounded arithmetic (C07Float.*: any monotone, idempotent, sign-symmetric rounding with relative error u, '
            '(1+u)^2 <= 2, integers up to N exact, n <= N); that binary64 is such an arithmetic in its normal range is assumed, overflow/subnormals/NaN '
            'are outside the model; the read-outs are proved over exact fields only; the bit-level lock-step run exercises the rest.',
            'DESIGN.md §6 C07'),
    'C08': ('Lean 4 proof: refinement of the vectorised-code model to a direct transcription of Box 1 of Jain & Chlamtac (relation Abs, '
            'step and run level); lock-step correspondence plus an independent Python transcription of the paper',
            'Theorems for every ordered field, grid and sequence: the model state after every observation is the paper algorithm\'s state '
            '(ranks shifted by one, tie convention "equal counts as below"); QuantileEstimator uses the paper\'s grid; with exactly m '
            'observations the markers are the exact order statistics.',
            'Convergence (mass below the estimate within 0.08 of p) is an empirical claim: seeded statistical test, reported as a test.',
            'DESIGN.md §6 C08'),
    'C09': ('Lean 4 proof: the dispatch function `call` (element path = the undecorated call, no stream created) and kwargs as a parameter of '
            'the verified transition system; differential run over ~45 argument kinds',
            'Theorems: a non-iterator argument yields exactly the direct call result (value or exception) and no stream; only iterators create '
            'a stream, which is created inert (nothing drawn, no pool, counters untouched); every finished run delivers spec for the one f '
            'that carries the kwargs.',
            'Name/docstring preservation (functools.update_wrapper) is interpreter metadata: compared at run time only.',
            'DESIGN.md §6 C09'),
    'C10': ('Lean 4 proof: flat-map invariant over all reachable states of the serial machine with any consumer (FInv), laziness theorems; '
            'history correspondence with instrumented source and inner generators',
            'Theorems: the exhausted stream is the concatenation of the per-element expansions (None rule per item, empty iterator inserts '
            'nothing); at every hand-over exactly the items up to the current one were pulled and no further source element was drawn; a '
            'draw is only possible after the inner iterator signalled exhaustion.',
            'CPython generator semantics are modelled (explicit machine), not verified.',
            'DESIGN.md §6 C10'),
    'C11': ('Lean 4 proof over an ownership model of numpy buffers (who allocates, who writes) for each accumulator update; byte-wise '
            'snapshots / np.shares_memory / caller-side mutation differential on the real classes',
            'Theorems for every history of array/scalar arguments: no update of Minimum/Maximum/Mean/Variance/Running*/P² writes a caller '
            'buffer and every buffer the accumulator holds is its own, so later caller writes are invisible; merges allocate fresh results. '
            'The pinned-tree counterexample (Minimum aliasing its first argument) is proved about the pre-fix update.',
            'Which numpy primitive allocates is numpy behaviour (assumed; the correspondence compares the model\'s two facts with what is '
            'observed). Reading is pure in the model by construction; checked on the implementation.',
            'DESIGN.md §6 C11'),
    'C12': ('Lean 4 proof: projection to a component is a homomorphism of the numpy-broadcast operand type, hence commutes with every '
            'accumulator update and merge (no field axiom used); array-vs-grid-of-scalars differential on the real classes',
            'Theorems for every well-shaped sequence and component: array Mean/Variance/Min/Max/RunningMean/RunningVariance states (and merges, '
            'merge trees) project to the scalar accumulator run on that component; Covariance entry (i,j) is the pair accumulator on '
            'components i,j, symmetric, diagonal = Variance; changing another component changes nothing.',
            'The vectorised np.where form of P² has its own model (Model/P2Vec.lean), proved equal per component to the scalar update '
            '(C12P2.run_col) and compared bit-for-bit in lock-step with the array estimator.',
            'DESIGN.md §6 C12'),
    'C13': ('Lean 4 proof: counter invariants over all reachable states of the parallel and serial machines; additivity by a shift '
            'bisimulation; exact emulation of the "{:.2%}" string',
            'Theorems: in every reachable state processed = p0 + results taken and yielded = y0 + values handed over (so yielded <= processed '
            'in parallel mode), for every schedule and consumer; a stream started with counters (p0,y0) behaves exactly like one started '
            'at (0,0) shifted by (p0,y0); for several streams of ONE stage alive at once (Model/Stage.lean) every stream behaves as if alone '
            'and the shared counters are p0 + sum of results taken, y0 + sum of values handed over (C13Stage.*); when the function or the '
            'source fails the counters stop at exactly the failure-free prefix, identically in-process and in parallel, and never move again (C13Fail.*).',
            'The string formatting is modelled (binary64 division and multiplication, round-half-even on the exact value) and compared, not proved.',
            'DESIGN.md §6 C13'),
    'C14': ('Lean 4 proof: digitize characterisation, fold invariants of BinSorter for an arbitrary per-bin accumulator, DynamicBinSorter on '
            'top of the P² invariant; per-observation differential on the real classes',
            'Theorems: for increasing edges each key has exactly one bin (edge[i] <= key < edge[i+1] or under/overflow); every bin holds the '
            'fold of its own data in arrival order; counts are conserved; DynamicBinSorter trains on the first nbins observations, then adds '
            'each observation to exactly one bin whose current edges contain it; edges sorted and spanning [min,max]; counts sum to n - nbins.',
            'np.digitize is modelled as "number of edges <= key".',
            'DESIGN.md §6 C14'),
    'C15': ('Lean 4 proof: exact counting over the finite space of all random choice sequences (induction on the stream length); scripted '
            'random source and exhaustive enumeration on the implementation',
            'Theorems: size min(n,k), distinct positions, first k verbatim, requested ranges; among the n!/k! choice sequences every k-subset '
            'of positions is produced by exactly (n-k)! (probability 1/C(n,k)); each position is retained by a fraction k/n.',
            'random.randint being uniform and independent is trusted.',
            'DESIGN.md §6 C15'),
    'C16': ('Lean 4 proof: take-last / stable-merge lemmas for CacheAccumulator, top-k (multiset) lemmas for CacheMaximum incl. '
            'topK(topK A ++ topK B) = topK(A ++ B); virtual-clock differential on the real classes',
            'Theorems: CacheAccumulator holds the last min(n,k) observations; merging two time-sorted streams = one cache over their stable '
            'time-ordered interleaving; CacheMaximum holds min(n,k) seen observations (any timeout), without timeout exactly the k largest '
            'keys, listed monotonically, invariant under permutation; merge = k largest keys of the union; counts add. The pinned-tree merge '
            'counterexample is proved.',
            'heapq is modelled as a multiset with pop-min, deque(maxlen) as take-last; (key,time) pairs are assumed distinct (stated input restriction).',
            'DESIGN.md §6 C16'),
    'C17': ('Lean 4 proof: closed-form weights of the exponential running mean by induction, convexity bounds, warm-up equivalence with the '
            'plain accumulators; rational-vs-float differential with lifetime changes',
            'Theorems for every ordered field: RunningMean = sum of w_i x_i with the stated weights (non-negative, summing to one), value '
            'between min and max for any lifetime >= 1, constants reproduced, RunningVariance/Covariance = Variance/Covariance while '
            'n <= lifetime, the lifetime setter acts on every part.',
            'For the running MEAN the float behaviour is proved in the standard rounding model with given weights (C17Float.*: bounded independently of n, error <= 4*u*l*M/(1-4*u*l)); the running variance / covariance and the rounding of the weights are compared with a tolerance, not proved.',
            'DESIGN.md §6 C17'),
    'C18': ('Lean 4 proof: generator-as-machine model of savestream with every exit edge, normal-form theorem for all next/close histories; '
            'every stop point x stop kind on the real functions',
            'Theorems: the tap hands through exactly the source prefix one at a time; for every history that ends with the consumer done '
            '(closed after >= 1 element, exhausted, source failure) the archive replays exactly the elements handed over; the archive is '
            'unreadable while open; replay order is independent of member names.',
            'zipfile and pickle are trusted (members in write order, readable once closed, round-trip).',
            'DESIGN.md §6 C18'),
    'C19': ('Lean 4 proof: machines for observe / observe_time / simplecache and a model of star import evaluated on the real __all__; '
            'instrumented differential incl. a virtual clock',
            'Theorems: observe/observe_time are transparent and lazy, observers are called in order exactly on every interval-th element '
            '(resp. when the clock advanced by more than the interval since the last observed element; the first is observed under the clock '
            'assumption); simplecache yields exactly the length-L windows and rejects non-iterators; a star import succeeds iff every '
            'advertised name is bound.',
            'The clock assumption (non-decreasing readings above the interval) is the property\'s own.',
            'DESIGN.md §6 C19'),
    'C20': ('Lean 4 proof: invariant, deadlock-freedom and decreasing measure of the sender x receiver product system over a lock-step REQ/REP '
            'socket model; all interleavings for small n on the real functions over a substituted transport',
            'Theorems for every finite stream and every interleaving: the alternation of neither socket is ever violated, the received list '
            'is always a prefix of the sent one, every maximal run is finite and ends with received = sent, receiver ended and sender '
            'returned; the sender draws at most one element beyond the requests seen; either side may start.',
            'Real ZeroMQ is not exercised (pyzmq absent, cannot be installed): the transport is a substituted lock-step module, as the '
            'property itself states.',
            'DESIGN.md §6 C20'),
}


def main():
    props = [json.loads(l) for l in open(os.path.join(VERIF, 'properties.jsonl'))]
    checks, na = [], []
    for p in props:
        pid = p['id']
        if pid in CHECKS:
            tech, text, note, ref = CHECKS[pid]
            checks.append({
                'property_id': pid,
                'quick_cmd': './check %s --tier quick' % pid,
                'thorough_cmd': './check %s --tier thorough' % pid,
                'evidence_file': 'evidence/%s.json' % pid,
                'replay_cmd_template': './check %s --replay {path}' % pid,
                'engine': 'gpv-lean',
                'level_claimed': {'category': 'proof', 'text': text, 'design_ref': ref},
                'level_note': COMMON_NOTE + note,
                'technique': tech,
            })
        else:
            na.append({'property_id': pid, 'reason': 'check not built yet (work in progress; planned in DESIGN.md §6 %s)' % pid})
    m = {
        'version': 1,
        'setup_cmd': 'cd lean && lake build',
        'hooks': {
            'guard': 'GENERATORPIPELINE_VERIF',
            'enable': 'no source hooks are needed: the harness instruments from outside (inherited pipes/semaphores, module attributes); the guard is unused',
            'baseline_off_cmd': 'cd /repo && /venv/bin/python -m pytest -ra -q -p no:cacheprovider --timeout=900 --continue-on-collection-errors',
            'source_commits': [],
            'add_only': True,
        },
        'engines': [{
            'name': 'gpv-lean', 'path': 'lean',
            'serves_properties': [c['property_id'] for c in checks],
            'kind_free_text': 'Lean 4 project: executable models (Gpv/Model), proofs (Gpv/Proofs, Gpv/Props), line-protocol driver (Driver.lean); '
                              'Python correspondence harness in harness/',
        }],
        'checks': checks,
        'not_applicable': na,
        'notes': 'Exit codes: 0 property shown to hold; 1 VIOLATION; 2 failure of the verification machinery itself (never a violation). '
                 'fix: commits in /repo are listed in known_findings.json.',
    }
    json.dump(m, open(os.path.join(VERIF, 'MANIFEST.json'), 'w'), indent=1)
    print('checks:', [c['property_id'] for c in checks], 'not_applicable:', len(na))


if __name__ == '__main__':
    main()
