"""
core.py — shared machinery of the /verif checks.

Flow of one check (DESIGN.md §4.5):

  1. build the Lean project (models, proofs of this property, driver), audit the
     axioms of every registered theorem            -> failure here is exit 2
  2. run the implementation in /repo and the Lean model on the same cases
     (correspondence), and the property oracle on the implementation
  3. decide:  oracle failure not listed as a finding      -> VIOLATION (replay = input)
              correspondence broken, no oracle failure    -> VIOLATION ... no-failing-input-found
              otherwise                                   -> exit 0
  4. write evidence/<id>.json

Everything random derives from VERIF_SEED.
"""
import fcntl
import hashlib
import json
import os
import random
import re
import subprocess
import sys
import time
import traceback

VERIF = os.path.dirname(os.path.dirname(os.path.abspath(__file__)))
LEAN_DIR = os.path.join(VERIF, 'lean')
REPO = os.environ.get('VERIF_REPO', '/repo')
PY = os.environ.get('VERIF_PY', '/venv/bin/python')
ALLOWED_AXIOMS = {'propext', 'Classical.choice', 'Quot.sound'}
FORBIDDEN = re.compile(r'\b(sorry|admit|native_decide|bv_decide|implemented_by|unsafe)\b|^axiom\s|maxHeartbeats 0')

TRUSTED_BASE = [
    'Lean 4.33.0 kernel; axioms propext, Classical.choice, Quot.sound only (audited with #print axioms on every run)',
    'the hand-written Lean model of the code (lean/Gpv/Model/*.lean) — tied to /repo by the correspondence harness run on every invocation',
    'the correspondence harness (harness/*.py): generators, canonicalisation, instrumentation',
    'CPython, numpy, multiprocessing, dill/pickle, zipfile, heapq, deque behave as documented (modelled, not verified)',
]


def theorems(*pids):
    reg = json.load(open(os.path.join(VERIF, 'harness', 'theorems.json')))
    out = []
    for pid in pids:
        for t in reg.get(pid, []):
            if t not in out:
                out.append(t)
    return out


class InfraError(Exception):
    """a failure of the verification machinery itself (exit 2, never a VIOLATION)"""


def log(*a):
    print(*a, file=sys.stderr, flush=True)


# ----------------------------------------------------------------------------
# Lean side
# ----------------------------------------------------------------------------

def _run(cmd, cwd=None, timeout=3600, input=None):
    return subprocess.run(cmd, cwd=cwd, capture_output=True, text=True, timeout=timeout, input=input)


class LeanLock:
    def __enter__(self):
        os.makedirs(os.path.join(LEAN_DIR, '.lake'), exist_ok=True)
        self.f = open(os.path.join(LEAN_DIR, '.lake', 'verif.lock'), 'w')
        fcntl.flock(self.f, fcntl.LOCK_EX)
        return self

    def __exit__(self, *a):
        fcntl.flock(self.f, fcntl.LOCK_UN)
        self.f.close()


def lean_build(targets):
    """incremental `lake build` of the given targets (serialised by flock)"""
    t0 = time.time()
    with LeanLock():
        r = _run(['lake', 'build'] + list(targets), cwd=LEAN_DIR, timeout=3000)
    if r.returncode != 0:
        raise InfraError('lake build %s failed:\n%s\n%s' % (targets, r.stdout[-4000:], r.stderr[-4000:]))
    return time.time() - t0


def driver_path():
    return os.path.join(LEAN_DIR, '.lake', 'build', 'bin', 'driver')


def lean_source_audit(modules):
    """grep the sources of the given modules (and everything under Gpv/) for forbidden constructs"""
    hits = []
    for root, _, files in os.walk(os.path.join(LEAN_DIR, 'Gpv')):
        for fn in files:
            if not fn.endswith('.lean'):
                continue
            p = os.path.join(root, fn)
            incomment = 0
            for i, line in enumerate(open(p, encoding='utf-8'), 1):
                # strip block comments (coarse) and line comments
                s = line
                if incomment:
                    if '-/' in s:
                        s = s.split('-/', 1)[1]
                        incomment = 0
                    else:
                        continue
                while '/-' in s:
                    pre, rest = s.split('/-', 1)
                    if '-/' in rest:
                        s = pre + rest.split('-/', 1)[1]
                    else:
                        s = pre
                        incomment = 1
                        break
                s = s.split('--', 1)[0]
                if FORBIDDEN.search(s):
                    hits.append('%s:%d: %s' % (os.path.relpath(p, LEAN_DIR), i, line.strip()))
    return hits


def lean_axioms(modules, theorems):
    """`#print axioms` for each registered theorem; returns {thm: [axioms]}"""
    src = ''.join('import %s\n' % m for m in modules) + ''.join('#print axioms %s\n' % t for t in theorems)
    module = modules[0]
    tmp = os.path.join(LEAN_DIR, '.lake', 'audit_%s_%d.lean' % (module.replace('.', '_'), os.getpid()))
    with open(tmp, 'w') as f:
        f.write(src)
    try:
        r = _run(['lake', 'env', 'lean', tmp], cwd=LEAN_DIR, timeout=1200)
    finally:
        os.unlink(tmp)
    out = r.stdout + r.stderr
    res = {}
    # outputs:  'Foo.bar' depends on axioms: [propext, Quot.sound]   /  'Foo.bar' does not depend on any axioms
    for m in re.finditer(r"^'([^\n]+?)' depends on axioms: \[([^\]]*)\]", out, re.S | re.M):
        res[m.group(1)] = [a.strip() for a in m.group(2).replace('\n', ' ').split(',') if a.strip()]
    for m in re.finditer(r"^'([^\n]+?)' does not depend on any axioms", out, re.M):
        res[m.group(1)] = []
    if r.returncode != 0 or set(res) != set(theorems):
        raise InfraError('axiom audit of %s failed (missing %s):\n%s' % (
            module, sorted(set(theorems) - set(res)), out[-3000:]))
    return res


def run_driver(lines, timeout=1800):
    """pipe protocol lines through the compiled model driver, return output lines"""
    exe = driver_path()
    if not os.path.exists(exe):
        raise InfraError('driver executable missing: %s' % exe)
    data = '\n'.join(lines) + '\n'
    r = subprocess.run([exe], input=data, capture_output=True, text=True, timeout=timeout)
    if r.returncode != 0:
        raise InfraError('driver failed rc=%d: %s' % (r.returncode, r.stderr[-2000:]))
    return r.stdout.split('\n')[:-1] if r.stdout.endswith('\n') else r.stdout.split('\n')


# ----------------------------------------------------------------------------
# known findings
# ----------------------------------------------------------------------------

def load_findings(pid):
    p = os.path.join(VERIF, 'known_findings.json')
    if not os.path.exists(p):
        return []
    data = json.load(open(p))
    return [e for e in data.get('entries', []) if e.get('property') == pid and e.get('status') == 'finding']


# ----------------------------------------------------------------------------
# the check context
# ----------------------------------------------------------------------------

class Ctx:
    def __init__(self, pid, tier, seed):
        self.pid = pid
        self.tier = tier
        self.seed = seed
        self.rng = random.Random('%s-%d' % (pid, seed))
        self.t0 = time.time()
        self.evaluations = 0
        self.keys = set()           # canonical keys of distinct non-trivial cases
        self.samples = []
        self.disagreements = []     # correspondence breaks: dict(obligation, case, impl, model)
        self.failures = []          # oracle failures: dict(sig, what, case, ...)
        self.stats = {}
        self.extra = {}
        self.traces_validated = 0
        self.notes = []

    @property
    def quick(self):
        return self.tier == 'quick'

    def scale(self, quick, thorough):
        return quick if self.quick else thorough

    def count(self, key, k=1):
        self.stats[key] = self.stats.get(key, 0) + k

    def case(self, key, nontrivial, sample=None):
        """register one explored case; `key` identifies it after canonicalisation"""
        self.evaluations += 1
        if nontrivial:
            h = hashlib.sha1(json.dumps(key, sort_keys=True, default=str).encode()).hexdigest()[:16]
            self.keys.add(h)
        if sample is not None and len(self.samples) < 6:
            self.samples.append(sample)

    def disagree(self, obligation, case, impl, model, detail=''):
        self.disagreements.append(dict(obligation=obligation, case=case, impl=impl, model=model, detail=detail))
        log('[%s] correspondence break (%s): case=%s impl=%s model=%s %s' % (
            self.pid, obligation, _short(case), _short(impl), _short(model), detail))

    def guard(self, case, obligation='implementation-behaviour-interpretable-by-the-harness'):
        """with ctx.guard(case): …  — an unexpected exception while judging one case (the implementation did
        something the harness has no reading for) is a broken tie for that case, not a crash of the check"""
        ctx = self

        class _G:
            def __enter__(self_):
                return self_

            def __exit__(self_, et, ev, tb):
                if et is None or issubclass(et, (InfraError, KeyboardInterrupt, SystemExit, subprocess.TimeoutExpired)):
                    return False
                ctx.disagree(obligation, case, 'exception while judging the case', ''.join(traceback.format_exception(et, ev, tb))[-1500:])
                return True
        return _G()

    def fail(self, sig, what, case, **kw):
        """the property oracle fails on the implementation for a concrete input"""
        self.failures.append(dict(sig=sig, what=what, case=case, **kw))
        log('[%s] ORACLE FAILURE sig=%s: %s case=%s' % (self.pid, sig, what, _short(case)))


def _short(x, n=400):
    s = json.dumps(x, default=str) if not isinstance(x, str) else x
    return s if len(s) <= n else s[:n] + '...'


def jsonable(x):
    try:
        json.dumps(x)
        return x
    except TypeError:
        return json.loads(json.dumps(x, default=str))


# ----------------------------------------------------------------------------
# main entry
# ----------------------------------------------------------------------------

def main(prop, argv=None):
    """prop: module-like object with ID, MODULE, THEOREMS, RULE, check(ctx), optional
    TARGETS (extra lake targets), ASSUMPTIONS, PARTIAL (list of str), replay(ctx, data)"""
    import argparse
    ap = argparse.ArgumentParser()
    ap.add_argument('--tier', default=os.environ.get('VERIF_TIER', 'quick'))
    ap.add_argument('--replay', default=None)
    ap.add_argument('--no-lean', action='store_true', help='development only: skip build and audit')
    a = ap.parse_args(argv)
    tier = a.tier if a.tier in ('quick', 'thorough') else 'quick'
    if a.no_lean:
        os.environ['VERIF_NO_FORMULAS'] = '1'
        # development runs never overwrite the evidence that is committed
        os.environ.setdefault('VERIF_EVIDENCE_DIR', os.path.join(__import__('tempfile').gettempdir(), 'verif_dev_evidence'))
    seed = int(os.environ.get('VERIF_SEED', '0') or 0)
    pid = prop.ID
    if a.replay:
        # a replay runs under the seed and tier recorded in the file, so that a case which is only described there
        # (a long sequence cut short, "whole run") is regenerated exactly
        try:
            rec = json.load(open(a.replay))
            seed = int(rec.get('seed', seed))
            tier = rec.get('tier', tier) if rec.get('tier') in ('quick', 'thorough') else tier
        except Exception as e:  # noqa
            log('[%s] INFRASTRUCTURE FAILURE: cannot read the replay file %s: %r' % (pid, a.replay, e))
            sys.exit(2)
    ctx = Ctx(pid, tier, seed)
    # last line of defence against a hang in in-process work on the implementation (every scenario that starts
    # processes already runs in its own process group with its own limit): a time-out of the whole check is an
    # infrastructure outcome (exit 2), never a verdict
    limit = float(os.environ.get('VERIF_WALL_LIMIT', '2400' if tier == 'quick' else '14400'))

    def _watchdog():
        time.sleep(limit)
        log('[%s] TIMEOUT: the check did not finish within %.0f s' % (pid, limit))
        try:
            os.killpg(0, 9) if os.getpgid(0) == os.getpid() else None
        finally:
            os._exit(2)
    import threading
    threading.Thread(target=_watchdog, daemon=True).start()
    sys.path.insert(0, REPO)
    import warnings
    warnings.filterwarnings('ignore')
    os.environ.setdefault('PYTHONDONTWRITEBYTECODE', '1')
    sys.dont_write_bytecode = True
    try:
        discharged = 0
        axioms = {}
        build_s = 0.0
        if not a.no_lean:
            mods = list(getattr(prop, 'MODULES', [prop.MODULE]))
            build_s = lean_build(mods + ['driver'])
            hits = lean_source_audit(mods)
            if hits:
                raise InfraError('forbidden constructs in Lean sources:\n' + '\n'.join(hits))
            axioms = lean_axioms(mods, prop.THEOREMS)
            bad = {t: ax for t, ax in axioms.items() if not set(ax) <= ALLOWED_AXIOMS}
            if bad:
                raise InfraError('theorems with unexpected axioms: %s' % bad)
            discharged = len(axioms)
            if tier == 'thorough' and getattr(prop, 'LEANCHECKER', True):
                with LeanLock():
                    r = _run(['lake', 'env', 'leanchecker'] + mods, cwd=LEAN_DIR, timeout=3000)
                if r.returncode != 0:
                    raise InfraError('leanchecker rejected %s:\n%s' % (prop.MODULE, (r.stdout + r.stderr)[-3000:]))
                ctx.extra['leanchecker'] = 'ok'
        if a.replay:
            data = json.load(open(a.replay))
            if isinstance(data.get('case'), dict):
                prop.replay(ctx, data)
            else:
                prop.check(ctx)         # the record is about the run as a whole: repeat it under the recorded seed and tier
        else:
            prop.check(ctx)
    except InfraError as e:
        log('[%s] INFRASTRUCTURE FAILURE: %s' % (pid, e))
        sys.exit(2)
    except subprocess.TimeoutExpired as e:
        log('[%s] TIMEOUT: %s' % (pid, e))
        sys.exit(2)
    except Exception:
        # the implementation did something the harness has no reading for: the tie between model and code
        # is broken for this run (not an infrastructure failure: those are InfraError / timeouts above)
        tb = traceback.format_exc()
        log('[%s] harness exception while exercising the implementation:\n%s' % (pid, tb))
        ctx.disagree('implementation-behaviour-interpretable-by-the-harness', 'whole run', 'exception', tb[-1500:])

    # ---- decide -------------------------------------------------------------
    findings = load_findings(pid)
    violations = []
    known_hit = {}
    for f in ctx.failures:
        m = [k for k in findings if k.get('sig') == f['sig']]
        if m:
            known_hit.setdefault(f['sig'], (m[0], f))
        else:
            violations.append(f)
    for sig, (k, f) in known_hit.items():
        print('KNOWN-FINDING: property=%s %s' % (pid, k.get('what', f['what'])))
    rc = 0
    os.makedirs(os.path.join(VERIF, 'replays'), exist_ok=True)
    if violations:
        # one replay per distinct signature
        seen = set()
        for f in violations:
            if f['sig'] in seen:
                continue
            seen.add(f['sig'])
            h = hashlib.sha1(json.dumps(f, sort_keys=True, default=str).encode()).hexdigest()[:10]
            path = os.path.join('replays', '%s-%s.json' % (pid, h))
            json.dump(jsonable(dict(property=pid, kind='failing-input', seed=seed, tier=tier, **f)),
                      open(os.path.join(VERIF, path), 'w'), indent=1)
            print('VIOLATION property=%s replay=%s' % (pid, path))
        rc = 1
    elif ctx.disagreements and not known_hit:
        obl = sorted({d['obligation'] for d in ctx.disagreements})
        h = hashlib.sha1(json.dumps(ctx.disagreements[0], sort_keys=True, default=str).encode()).hexdigest()[:10]
        path = os.path.join('replays', '%s-%s.json' % (pid, h))
        json.dump(jsonable(dict(property=pid, kind='correspondence-broken', seed=seed, tier=tier,
                                obligations_no_longer_checked=obl,
                                theorems_resting_on_them=prop.THEOREMS,
                                first_disagreements=ctx.disagreements[:5],
                                note='the model and the implementation differ on these cases but the '
                                     'property oracle found no input on which the property itself fails')),
                  open(os.path.join(VERIF, path), 'w'), indent=1)
        print('VIOLATION property=%s replay=%s no-failing-input-found' % (pid, path))
        rc = 1
    elif ctx.disagreements and known_hit:
        # disagreements that are explained by a listed finding only count when they involve other inputs
        other = [d for d in ctx.disagreements if not d.get('known')]
        if other:
            h = hashlib.sha1(json.dumps(other[0], sort_keys=True, default=str).encode()).hexdigest()[:10]
            path = os.path.join('replays', '%s-%s.json' % (pid, h))
            json.dump(jsonable(dict(property=pid, kind='correspondence-broken', seed=seed, tier=tier,
                                    obligations_no_longer_checked=sorted({d['obligation'] for d in other}),
                                    first_disagreements=other[:5])),
                      open(os.path.join(VERIF, path), 'w'), indent=1)
            print('VIOLATION property=%s replay=%s no-failing-input-found' % (pid, path))
            rc = 1

    # ---- evidence -----------------------------------------------------------
    wall = time.time() - ctx.t0
    pl = sys.modules.get('harness.pipelib')
    if pl is not None and getattr(pl, 'ISOLATED_RERUNS', [0])[0]:
        ctx.stats['isolated_runs_repeated_after_a_timeout'] = pl.ISOLATED_RERUNS[0]
    cov = dict(
        obligations=len(prop.THEOREMS),
        discharged=discharged,
        checker_cmd='cd lean && lake build %s driver && lake env lean <audit: #print axioms of every registered theorem>%s' % (
            prop.MODULE, ' && lake env leanchecker %s' % prop.MODULE if tier == 'thorough' else ''),
        trusted_base=TRUSTED_BASE + list(getattr(prop, 'TRUSTED', [])),
        theorems={t: axioms.get(t) for t in prop.THEOREMS},
        evaluations=ctx.evaluations,
        distinct_nontrivial=len(ctx.keys),
        rule=prop.RULE,
        samples=jsonable(ctx.samples) if ctx.samples else ['(no sample recorded)'],
        traces_validated_against_impl=ctx.traces_validated,
        correspondence_disagreements=len(ctx.disagreements),
        oracle_failures=len(ctx.failures),
        known_findings_hit=sorted(known_hit),
        distribution=ctx.stats,
        lean_build_s=round(build_s, 2),
        partial_clauses=list(getattr(prop, 'PARTIAL', [])),
    )
    cov.update(ctx.extra)
    ev = dict(property_id=pid, tier=tier, seed=seed, level='proof', coverage=cov,
              assumptions=list(getattr(prop, 'ASSUMPTIONS', [])) + ctx.notes,
              wall_s=round(wall, 2), violations=(len(violations) if violations else (1 if rc else 0)))
    evdir = os.environ.get('VERIF_EVIDENCE_DIR') or os.path.join(VERIF, 'evidence')
    os.makedirs(evdir, exist_ok=True)
    json.dump(jsonable(ev), open(os.path.join(evdir, pid + '.json'), 'w'), indent=1)
    log('[%s] tier=%s seed=%d evaluations=%d nontrivial=%d disagreements=%d oracle_failures=%d wall=%.1fs rc=%d' % (
        pid, tier, seed, ctx.evaluations, len(ctx.keys), len(ctx.disagreements), len(ctx.failures), wall, rc))
    sys.exit(rc)
