"""C14 — bin sorters partition the stream: each observation lands in exactly one bin."""
from fractions import Fraction
import numpy as np
from harness import core, acclib, p2lib

ID = 'C14'
MODULE = 'Gpv.Props.C14'
THEOREMS = core.theorems('C14') + ['Gpv.C07.inv_run']
MODULES = ['Gpv.Props.C14', 'Gpv.Props.C07']
RULE = ('BinSorter: increasing edge lists x key sequences with ties, keys exactly on edges and out of range x per-bin class (Counter, '
        'Mean, CacheAccumulator) x datakey; DynamicBinSorter: nbins 1-8 x key families (ties, constant, sorted, extremes); checked after '
        'EVERY observation: exactly one bin changes, it is the bin whose (current) edges contain the key, counts are conserved, each '
        'bin equals a stand-alone accumulator fed that bin\'s data; model: digitize/BinSorter in exact rationals, DynamicBinSorter run '
        'at binary64 (per-bin content = list of observation positions). non-trivial: a key on an edge or out of range (static), or '
        'a new extreme after training (dynamic); distinct by (edges/nbins, keys).')
PARTIAL = ['DynamicBinSorter depends on the P² invariants of C07, proved over exact ordered fields (float clause: see C07)']
ASSUMPTIONS = ['np.digitize on increasing edges returns the number of edges <= key']


def fmtq(x):
    return acclib.fmt_frac(Fraction(x) if isinstance(x, int) else Fraction(float(x)))


def showval(acc):
    try:
        return repr(acc.value)
    except Exception as e:  # noqa
        return 'raises ' + type(e).__name__


def static_cases(ctx):
    A = acclib.accmod()
    rng = ctx.rng
    lines, metas = [], []
    for _ in range(ctx.scale(200, 2000)):
        ne = rng.randint(2, 7)
        edges = sorted(rng.sample(range(-10, 11), ne))
        edges = [e / 2 for e in edges]
        n = rng.choice([0, 1, 3, 8, 20, 40])
        keys = []
        for _ in range(n):
            r = rng.random()
            if r < 0.3:
                keys.append(rng.choice(edges))
            elif r < 0.45:
                keys.append(rng.choice([edges[0] - 1.5, edges[-1] + 0.5, edges[-1] + 7, float('inf'), float('-inf')]))   # ±inf: beyond every edge, counted there
            else:
                keys.append(rng.randint(-24, 24) / 4)
        if rng.random() < 0.15:
            # integer keys and edges of epoch-nanosecond size (above 2**53): exact in int64, not in float64
            t0 = 1700000000123456789
            edges = [t0 + e * 10 ** 9 for e in range(ne)]
            keys = [rng.choice(edges) + rng.choice([-1, 0, 1, -100, 100, 5 * 10 ** 8]) for _ in range(n)]
        if rng.random() < 0.15:
            # the same bins in other units (nanoseconds given in seconds, …): widths far below any absolute tolerance
            sc = rng.choice([1e-9, 1e-12, 1e-7])
            edges = [e * sc for e in edges]
            keys = [k * sc for k in keys]
        narrow = None
        if rng.random() < 0.15:
            # keys and edges of different float widths: the comparison is that of the exact values (float32 0.7 is 0.699999988…,
            # below the double 0.7), whichever side is the narrow one
            narrow = rng.choice(['keys', 'edges'])
            dec = [0.1, 0.3, 0.7, 1.1, 1.9]
            edges = dec[:max(2, min(ne, 5))]
            if narrow == 'edges':
                edges = np.array(edges, dtype=np.float32)
                keys = [rng.choice(dec + [0.2, 0.5, 2.5, 0.0]) for _ in range(n)]
            else:
                keys = [np.float32(rng.choice(dec + [0.2, 0.5, 2.5, 0.0])) for _ in range(n)]
        # bins of accumulators with nested / mutable members too: every bin must own its state
        cls = rng.choice(['Counter', 'Mean', 'CacheAccumulator', 'Variance', 'Maximum', 'CacheMaximum', 'RunningVariance'])
        kw = {'length': 3} if cls in ('CacheAccumulator', 'CacheMaximum') else ({'lifetime': 3} if cls == 'RunningVariance' else {})
        obs_as_lists = rng.random() < 0.3
        passed_kw = dict(kw)
        bs = A.BinSorter(edges, getattr(A, cls), kwargs=passed_kw, key=lambda o: o[0], datakey=lambda o: o[1])
        edited = bool(kw) and rng.random() < 0.6
        if edited:
            # the caller goes on using ITS dict (for the next sorter, with another setting): the sorter was configured when it was made
            passed_kw.update({k: 1 if k == 'length' else 50 for k in kw})
            ctx.count('kwargs_dict_edited_after_construction')
        # pre-aggregated partial results as data: an element that is itself an accumulator of the bin's class is MERGED into the bin
        partials = cls in ('Counter', 'Mean') and rng.random() < 0.3
        xedges = [float(e) for e in edges] if narrow else edges          # exact values of the edges (as Python numbers)
        case = dict(static=True, edges=[e for e in xedges], keys=[float(k) if narrow else k for k in keys], cls=cls, narrow_side=narrow, partial_results_as_data=partials, kwargs_dict_edited_after_construction=edited, observations_are_lists=obs_as_lists)
        edges_for_oracle = xedges
        nb = len(edges) - 1
        bins = [[] for _ in range(nb)]
        under = over = 0
        ok = True
        weight = lambda d: d.n if hasattr(d, 'n') and hasattr(d, 'accumulate') else 1     # noqa
        for i, k in enumerate(keys):
            d = float(i)
            if partials and i % 3 == 1:
                d = A.Counter(2 + i % 3) if cls == 'Counter' else A.Mean(value=float(i), n=2 + i % 3)
            bs.accumulate([k, d] if obs_as_lists else (k, d))      # an observation may be a list as well as a tuple: ONE observation
            kx = float(k) if narrow else k
            j = None
            for b in range(nb):
                if edges_for_oracle[b] <= kx < edges_for_oracle[b + 1]:
                    j = b
            if j is None:
                if kx < edges_for_oracle[0]:
                    under += 1
                else:
                    over += 1
            else:
                bins[j].append(d)
            e, h = bs.histogram
            if list(h) != [sum(weight(x) for x in b) for b in bins] or (not partials and bs.n != i + 1) or [float(t) if narrow else t for t in list(e)] != list(edges_for_oracle):
                ctx.fail('binsorter-histogram-not-groupby', 'after key %r: histogram %s, group-by of the keys %s, n=%s' % (k, list(h), [len(b) for b in bins], bs.n), case)
                ok = False
                break
            if not partials and sum(h) + under + over != bs.n:
                ctx.fail('binsorter-counts-not-conserved', 'inner %d + under %d + over %d != n %d' % (sum(h), under, over, bs.n), case)
                ok = False
                break
        if ok:
            _, accs = bs.value
            for b, acc in enumerate(accs):
                ref = getattr(A, cls)(**kw)
                for d in bins[b]:
                    ref.accumulate(d)
                if ref.n != acc.n or showval(ref) != showval(acc):
                    ctx.fail('binsorter-bin-state', 'bin %d holds %s (n=%d), a stand-alone %s fed the bin\'s data holds %s (n=%d)' % (
                        b, showval(acc), acc.n, cls, showval(ref), ref.n), case)
                    break
        kxs = case['keys']
        on_edge = any(k in edges_for_oracle for k in kxs) or any(k < edges_for_oracle[0] or k >= edges_for_oracle[-1] for k in kxs)
        ctx.case(('static', tuple(edges_for_oracle), tuple(kxs), cls, narrow, partials), on_edge and n >= 3, sample=case if n <= 8 else None)
        ctx.count('static:' + cls)
        if narrow:
            ctx.count('mixed_float_widths')
        if partials:
            ctx.count('partial_results_as_data')
            continue            # (the model's bins hold plain data)
        edges, keys = edges_for_oracle, kxs
        if any(isinstance(k, float) and k in (float('inf'), float('-inf')) for k in keys):
            ctx.count('static_cases_with_infinite_keys')
            continue            # (the model's rationals have no infinity; the group-by oracle above has judged the case)
        lines.append('p2q.binsort %s | %s' % (' '.join(fmtq(e) for e in edges), ' '.join(fmtq(k) for k in keys)))
        metas.append((case, [len(b) for b in bins], under, over, bins))
    mout = core.run_driver(lines)
    for (case, counts, under, over, bins), ml in zip(metas, mout):
        n, b = ml.split('|')
        mb = [[int(t) for t in part.split()] for part in b.split(';')]
        want = [[None] * under] + bins + [[None] * over]
        if int(n) != len(case['keys']) or [len(x) for x in mb] != [len(x) for x in want] or \
                [[float(t) for t in x] for x in mb[1:-1]] != bins:
            ctx.disagree('binsorter-model-correspondence', case, dict(inner=bins, under=under, over=over), ml)


def reentrant_key_cases(ctx):
    """a key function may itself feed sub-records into the same sorter (a record that carries a batch): every observation is binned and counted"""
    A = acclib.accmod()
    rng = ctx.rng
    for _ in range(ctx.scale(6, 40)):
        edges = [0.0, 1.0, 2.0, 3.0]
        records = []
        for _ in range(rng.randint(2, 8)):
            k = rng.choice([-0.5, 0.2, 1.0, 1.7, 2.9, 3.0, 4.2])
            subs = [rng.choice([-0.5, 0.2, 1.0, 1.7, 2.9, 3.0]) for _ in range(rng.choice([0, 0, 1, 3]))]
            records.append((k, subs))
        holder = []

        def key(rec):
            for sk in rec[1]:
                holder[0].accumulate((sk, []))
            return rec[0]
        bs = A.BinSorter(edges, A.Counter, key=key, datakey=lambda r: None)
        holder.append(bs)
        case = dict(reentrant_key=True, edges=edges, records=records)
        ctx.case(('reentrant-key', str(records)), any(r[1] for r in records), sample=case)
        ctx.count('reentrant_key')
        try:
            for r in records:
                bs.accumulate(r)
            e, h = bs.histogram
        except Exception as ex:  # noqa
            ctx.fail('binsorter-raises', 'a key function that feeds the same sorter raised %r' % (ex,), case)
            continue
        allkeys = [r[0] for r in records] + [sk for r in records for sk in r[1]]
        want = [sum(1 for k in allkeys if edges[b] <= k < edges[b + 1]) for b in range(3)]
        if list(h) != want or bs.n != len(allkeys):
            ctx.fail('binsorter-counts-not-conserved', '%d observations were made (records and the sub-records their key function fed in); '
                     'histogram %s (expected %s), n=%s' % (len(allkeys), list(h), want, bs.n), case)


def dynamic_cases(ctx):
    A = acclib.accmod()
    rng = ctx.rng
    lines, metas = [], []
    for _ in range(ctx.scale(160, 1600)):
        nb = rng.choice([1, 2, 3, 4, 5, 8])
        n = rng.choice([0, 2, nb, nb + 1, nb + 3, 15, 40, 90])
        fam = rng.choice(['uniform', 'tied', 'constant', 'sorted', 'reversed', 'ints', 'gauss', 'mixedties', 'extreme'])
        keys = p2lib.gen_seq(rng, n, fam)
        ds = A.DynamicBinSorter(nb, A.Counter)
        case = dict(dynamic=True, nbins=nb, family=fam, keys=keys if n <= 40 else keys[:40] + ['…'])
        prev = [0] * nb
        assign = [None] * n
        ok = True
        newext = False
        for i, k in enumerate(keys):
            ds.accumulate(k)
            edges, h = ds.histogram
            h = list(h)
            if i < nb:
                if any(h) or ds.n != i + 1:
                    ctx.fail('dynbin-training-touches-bins', 'observation %d of the first nbins=%d changed the bins: %s' % (i, nb, h), case)
                    ok = False
                    break
                continue
            diff = [a - b for a, b in zip(h, prev)]
            if sorted(diff) != [0] * (nb - 1) + [1] or ds.n != i + 1:
                ctx.fail('dynbin-not-exactly-one-bin', 'observation %d changed the bin counts by %s (n=%s)' % (i, diff, ds.n), case)
                ok = False
                break
            idx = diff.index(1)
            assign[i] = idx
            e = [float(t) for t in np.asarray(edges, dtype=float)]
            if any(a > b for a, b in zip(e, e[1:])) or e[0] != min(keys[:i + 1]) or e[-1] != max(keys[:i + 1]) or len(e) != nb + 1:
                ctx.fail('dynbin-edges-invalid', 'edges %s must be sorted and span min/max %r/%r' % (e, min(keys[:i + 1]), max(keys[:i + 1])), case)
                ok = False
                break
            if not (e[idx] <= k and (k < e[idx + 1] or (idx == nb - 1 and k == e[-1]))):
                ctx.fail('dynbin-wrong-bin', 'key %r was added to bin %d whose current edges are [%r, %r) (edges %s)' % (k, idx, e[idx], e[idx + 1], e), case)
                ok = False
                break
            if sum(h) != (i + 1) - nb:
                ctx.fail('dynbin-counts-not-conserved', 'counts sum to %d after %d observations with nbins=%d' % (sum(h), i + 1, nb), case)
                ok = False
                break
            if i > nb and (k == e[0] or k == e[-1]) and (k < min(keys[:i]) or k > max(keys[:i])):
                newext = True
            prev = h
        ctx.case(('dyn', nb, keys), newext, sample=case if n <= 12 else None)
        ctx.count('dynamic:' + fam)
        ctx.count('dynamic_new_extreme_after_training', 1 if newext else 0)
        if ok:
            q = [float(t) for t in ds.cdfestimator.q_desired]
            lines.append('p2f.dynbin %d | %s | %s' % (nb, ' '.join(p2lib.hexf(t) for t in q), ' '.join(p2lib.hexf(k) for k in keys)))
            metas.append((case, assign, nb, n, [float(t) for t in np.asarray(ds.bin_edges, dtype=float)] if n > nb else None))
    mout = core.run_driver(lines)
    for (case, assign, nb, n, edges), ml in zip(metas, mout):
        parts = ml.split('|')
        mb = [[int(t) for t in part.split()] for part in parts[1].split(';')] if parts[1].strip() or nb else []
        want = [[i for i, a in enumerate(assign) if a == b] for b in range(nb)]
        if int(parts[0]) != n or mb != want:
            ctx.disagree('dynbin-model-correspondence', case, want, ml[:300])
        elif edges is not None:
            me = [p2lib.unhex(t) for t in parts[2].split()]
            if not all(p2lib.close_rel(a, b) for a, b in zip(me, edges)):
                ctx.disagree('dynbin-edges-model-correspondence', case, edges, me)


def check(ctx):
    reentrant_key_cases(ctx)
    static_cases(ctx)
    dynamic_cases(ctx)


def replay(ctx, data):
    check(ctx)


if __name__ == '__main__':
    import sys
    core.main(sys.modules[__name__])
