"""C06 — merging partial accumulators = accumulating everything; empty operand neutral; refusals."""
from fractions import Fraction
import itertools
import numpy as np
from harness import core, acclib
from harness.props import c05

ID = 'C06'
MODULE = 'Gpv.Props.C06'
MODULES = ['Gpv.Props.C06', 'Gpv.Props.C06Float', 'Gpv.Props.C06FloatVar', 'Gpv.Props.C06FloatCov', 'Gpv.Props.C06FloatVarTree', 'Gpv.Props.C06FloatCovTree']
THEOREMS = core.theorems('C06', 'C06Float', 'C06FloatVar', 'C06FloatCov', 'C06FloatVarTree', 'C06FloatCovTree')
RULE = ('random sequence split into 1..6 chunks (empty chunks included), one accumulator per chunk, random binary merge order, '
        'receiver and merged-in accumulator read before and after every merge; model in exact rationals vs implementation floats '
        '(rtol 1e-9); oracle = exact batch statistic of the union + "other unchanged" + counts add; plus every non-mergeable class '
        'merged with its own kind. non-trivial: >= 2 non-empty chunks of unequal size, or an empty operand; distinct by (kind, chunks, order).')
PARTIAL = ['floating-point bound of the pooled MEAN merge: proved in the standard rounding model (C06Float.mean_merge_float_error: one merge costs at most '
           '((1+u)^3 - 1)*max(|a|,|b|), attained; merged_streams_float_error: 6*(L+1)*u*M; tree_float_error(_lin): a merge tree of depth d over float runs of '
           'length <= L is within 6*(L+d)*u*M of the exact mean — it grows with the depth, not with the number of chunks); of the VARIANCE merge (Chan et al.) too '
           '(C06FloatVar.var_merge_float_error: relative error at most (1+u)^8 - 1 of the exact merged variance for exact operands, attained; '
           '_perturbed: operands carrying errors; merged_var_streams_float_error: two Welford float runs merged are within 9u*S/N + 62*N*u*M^2); whole merge trees of variance accumulators '
           '(C06FloatVarTree.var_tree_float_error(_lin): depth d, longest leaf L: 9/2*(d+1)*u*(S/N) + (62*L + 16*d*(L+d))*u*M^2 — neither the number of chunks nor N enters); '
           'one entry of the COVARIANCE merge (C06FloatCov.cov_merge_float_error: ((1+u)^4-1)*(n|ca|+m|cb|)/N + ((1+u)^8-1)*|dai||daj|nm/N^2, attained; no bound relative to the '
           'exact entry exists — no_relative_bound; 13*u*M^2 for data within M; merged_cov_streams_float_error). covariance merge trees (C06FloatCovTree.cov_tree_float_error_lin: (67L+30d(L+d))*u*Mx*My) and whole matrices in the max-norm '
           '(C05FloatMatrix) likewise. float_probe additionally tests ill-conditioned data against the exact rational statistic (a test)']
ASSUMPTIONS = ['numpy element-wise arithmetic and broadcasting']

REFUSERS = ['RunningMean', 'RunningVariance', 'RunningCovariance', 'ReservoirSampling', 'CDFEstimator',
            'QuantileEstimator', 'MedianEstimator', 'BinSorter', 'DynamicBinSorter']
MERGERS = ['Counter', 'Minimum', 'Maximum', 'Mean', 'Variance', 'Covariance', 'CacheAccumulator', 'CacheMaximum']


def build_case(rng, quick):
    kind = rng.choice(['counter', 'min', 'max', 'mean', 'mean', 'var', 'var', 'cov', 'cov'])
    shape = rng.choice([(), (), (2,), (3,), (2, 2)])
    if kind == 'cov' and shape == (2, 2):
        shape = (2,)
    family = rng.choice(['int', 'dyadic', 'tied', 'mixed', 'narrowint', 'offset'] + (['nearmax'] if kind in ('min', 'max', 'mean', 'counter') else ['offset', 'offset']))
    m = rng.randint(1, 6)
    sizes = [rng.choice([0, 0, 1, 1, 2, 3, 5, 8]) for _ in range(m)]
    chunks = [c05.gen_values(rng, k, shape, family) for k in sizes]
    # merge order: list of (receiver index, other index)
    alive = list(range(m))
    order = []
    while len(alive) > 1:
        i, j = rng.sample(alive, 2)
        order.append((i, j))
        alive.remove(j)
    if rng.random() < 0.2:
        # an accumulator merged into ITSELF holds what it would hold had it seen its own data twice
        k = order[-1][0] if order else 0
        order.append((k, k))
    extra = c05.gen_values(rng, rng.choice([0, 1, 2, 3]), shape, family)
    return dict(kind=kind, chunks=chunks, order=order, family=family, extra=extra)


def program(case):
    kind = case['kind']
    prog = []
    for i, ch in enumerate(case['chunks']):
        prog.append(['new', 'r%d' % i, kind])
        for v in ch:
            prog.append(['push', 'r%d' % i, v])
    for (i, j) in case['order']:
        prog += [['read', 'r%d' % i], ['read', 'r%d' % j], ['merge', 'r%d' % i, 'r%d' % j],
                 ['read', 'r%d' % i], ['read', 'r%d' % j]]
    if not case['order']:
        prog.append(['read', 'r0'])
    # keep using the receiver after the merges: the accumulators merged in must not be affected
    if case['order'] and case.get('extra'):
        final = 'r%d' % case['order'][-1][0]
        for v in case['extra']:
            prog.append(['push', final, v])
        prog.append(['read', final])
        for (i, j) in case['order']:
            prog.append(['read', 'r%d' % j])
    return prog


def scale_of(case):
    vals = [v for ch in case['chunks'] for v in ch] + list(case.get('extra') or [])
    if case['kind'] == 'counter' or not vals:
        return Fraction(1)
    mx = max([abs(x) for v in vals for x in acclib.flat(v)[1]] + [Fraction(1)])
    if case.get('family') == 'offset' and case['kind'] in ('var', 'cov'):
        return c05.spread_scale(case['kind'], [acclib.flat(v)[1] for v in vals], mx * mx)
    return mx * mx if case['kind'] in ('var', 'cov') else mx


def same_read(a, b):
    return a == b


def oracle(ctx, case, impl):
    """impl: outputs of program(case) on the real classes"""
    kind = case['kind']
    content = {i: list(ch) for i, ch in enumerate(case['chunks'])}
    scale = scale_of(case)
    pos = 0
    for x in impl:
        if isinstance(x, str) and x.startswith('!push:'):
            ctx.fail('push-raises:%s:%s' % (kind, x), '%s raised %s while accumulating a valid observation' % (acclib.KINDS[kind], x), case)
            return
    for (i, j) in case['order']:
        if len(impl) < pos + 5:
            ctx.fail('merge-history-incomplete:' + kind, 'the history stopped early: %s' % (impl[pos:],), case)
            return
        ri0, rj0, mres, ri1, rj1 = impl[pos:pos + 5]
        pos += 5
        empties = (len(content[i]) == 0, len(content[j]) == 0)
        if mres != 'ok':
            sig = 'merge-raises:%s:%s' % (kind, mres)
            if any(empties):
                sig = 'merge-empty-operand-raises:%s' % ('minmax' if kind in ('min', 'max') else 'moments')
            ctx.fail(sig, 'merging %s (n=%d) with %s (n=%d) raised %s' % (
                acclib.KINDS[kind], len(content[i]), acclib.KINDS[kind], len(content[j]), mres), case)
            return
        if i != j and not same_read(rj0, rj1):
            ctx.fail('merge-changes-other:' + kind, 'the merged-in accumulator changed: %s -> %s' % (rj0, rj1), case)
            return
        content[i] = content[i] + content[j]
        vals = content[i]
        n = len(vals)
        if ri1['n'] != (True, [float(n)], []):
            ctx.fail('merge-count:' + kind, 'n after merge is %s, expected %d' % (ri1['n'], n), case)
            return
        if n == 0:
            if not same_read(ri0, ri1):
                ctx.fail('merge-empty-not-neutral:' + kind, 'merging two empty accumulators changed the receiver', case)
            continue
        ovals = vals if kind != 'counter' else [0] * n
        if not c05.oracle_check(ctx, kind, ovals, ri1, case, scale):
            return
        last_other = getattr(oracle, '_others', None)
        if any(empties) and empties[1]:
            # empty operand merged in: receiver read-outs must be what they were
            for k in ri0:
                if isinstance(ri0[k], str) or isinstance(ri1[k], str):
                    if ri0[k] != ri1[k]:
                        ctx.fail('merge-empty-not-neutral:' + kind, 'read-out %s changed %s -> %s' % (k, ri0[k], ri1[k]), case)
                        return


def oracle_extra(ctx, case, impl):
    """the part of the history after the merges: more observations into the receiver, then every merged-in accumulator again"""
    if not (case['order'] and case.get('extra')):
        return
    kind = case['kind']
    k = 5 * len(case['order'])
    tail = impl[k:]
    if len(tail) != 1 + len(case['order']):
        return
    content = {i: list(ch) for i, ch in enumerate(case['chunks'])}
    others_after_merge = {}
    pos = 0
    for (i, j) in case['order']:
        others_after_merge[j] = impl[pos + 4]
        content[i] = content[i] + content[j]
        pos += 5
    final = case['order'][-1][0]
    vals = content[final] + list(case['extra'])
    scale = scale_of(dict(case, chunks=case['chunks'] + [case['extra']]))
    ovals = vals if kind != 'counter' else [0] * len(vals)
    if vals and not isinstance(tail[0], str):
        c05.oracle_check(ctx, kind, ovals, tail[0], case, scale)
    for idx, (i, j) in enumerate(case['order']):
        if i != j and j != final and tail[1 + idx] != others_after_merge[j]:
            ctx.fail('merge-aliases-other:' + kind, 'accumulating into the receiver after the merge changed the accumulator that had been '
                     'merged in (r%d): %s -> %s' % (j, others_after_merge[j], tail[1 + idx]), case)
            return


def snapshot(acc):
    def conv(x):
        if isinstance(x, (list, tuple)):
            return [conv(t) for t in x]
        if isinstance(x, np.ndarray):
            return ['nd', list(x.shape), [repr(t) for t in x.ravel().tolist()]]
        if hasattr(x, 'n') and hasattr(x, 'value') and not isinstance(x, type):
            return ['acc', type(x).__name__, conv(x.n), conv(_safe(lambda: x.value))]
        return repr(x)
    return [type(acc).__name__, conv(_safe(lambda: acc.n)), conv(_safe(lambda: acc.value))]


def _safe(th):
    try:
        return th()
    except Exception as e:  # noqa
        return '!' + type(e).__name__


def make_refuser(A, name, rng, k):
    if name in ('RunningMean', 'RunningVariance', 'RunningCovariance'):
        a = getattr(A, name)(lifetime=rng.choice([1, 3, 10]))
        for _ in range(k):
            a += (np.array([rng.randint(-5, 5), rng.randint(-5, 5)], dtype=float) if name == 'RunningCovariance'
                  else float(rng.randint(-5, 5)))
        return a
    if name == 'ReservoirSampling':
        a = A.ReservoirSampling(length=3)
    elif name == 'CDFEstimator':
        a = A.CDFEstimator(rng.choice([3, 5, 7]))
    elif name == 'QuantileEstimator':
        a = A.QuantileEstimator(rng.choice([0.1, 0.5, 0.9]))
    elif name == 'MedianEstimator':
        a = A.MedianEstimator()
    elif name == 'BinSorter':
        a = A.BinSorter([0, 1, 2, 3])
    elif name == 'DynamicBinSorter':
        a = A.DynamicBinSorter(3)
    for _ in range(k):
        a += float(rng.randint(-5, 5)) + rng.random()
    return a


def refusal_cases(ctx):
    A = acclib.accmod()
    lines = []
    names = REFUSERS + MERGERS
    for name in names:
        lines.append('acc.kindmerge ' + name)
    mout = core.run_driver(lines)
    model = dict(zip(names, mout))
    reps = ctx.scale(6, 40)
    for name in REFUSERS:
        for t in range(reps):
            ka, kb = ctx.rng.choice([0, 1, 4, 9, 14]), ctx.rng.choice([0, 1, 4, 9, 14])
            a = make_refuser(A, name, ctx.rng, ka)
            b = make_refuser(A, name, ctx.rng, kb)
            sa, sb = snapshot(a), snapshot(b)
            try:
                a.accumulate(b)
                res = 'ok'
            except Exception as e:  # noqa
                res = '!' + type(e).__name__
            changed = (snapshot(a) != sa) or (snapshot(b) != sb)
            case = dict(refuse=name, na=ka, nb=kb)
            ctx.case(('refuse', name, ka, kb, t), ka > 0 or kb > 0)
            ctx.count('refusal:' + name)
            impl = res + (' merged' if changed else ' unchanged')
            if impl != model[name]:
                ctx.disagree('mergeable-kinds-correspondence', case, impl, model[name])
            if res != '!NotImplementedError':
                sig = 'refusal-wrong-error:%s:%s' % (name, res)
                if name in ('RunningVariance', 'RunningCovariance') and res == '!AttributeError':
                    sig = 'running-merge-raises-AttributeError'
                ctx.fail(sig, '%s += %s gave %s instead of NotImplementedError' % (name, name, res), case)
            elif changed:
                ctx.fail('refusal-changes-state:' + name, 'state changed although the merge was refused', case)
    # "its own kind" includes the library's own specialisations of a class (MedianEstimator IS a QuantileEstimator, …)
    for name, special in [('QuantileEstimator', 'MedianEstimator'), ('CDFEstimator', 'MedianEstimator'), ('CDFEstimator', 'QuantileEstimator'),
                          ('BinSorter', 'DynamicBinSorter')]:
        for t in range(2):
            ka, kb = ctx.rng.choice([0, 4, 12]), ctx.rng.choice([1, 6, 14])
            a = make_refuser(A, name, ctx.rng, ka)
            b = make_refuser(A, special, ctx.rng, kb)
            if not isinstance(b, type(a)):
                continue
            sa, sb = snapshot(a), snapshot(b)
            try:
                a.accumulate(b)
                res = 'ok'
            except Exception as e:  # noqa
                res = '!' + type(e).__name__
            changed = (snapshot(a) != sa) or (snapshot(b) != sb)
            case = dict(refuse=name, operand=special, na=ka, nb=kb)
            ctx.case(('refuse-special', name, special, ka, kb, t), True)
            ctx.count('refusal:%s+=%s' % (name, special))
            if res != '!NotImplementedError':
                ctx.fail('refusal-wrong-error:%s:%s' % (name, res), '%s += %s gave %s instead of NotImplementedError' % (name, special, res), case)
            elif changed:
                ctx.fail('refusal-changes-state:' + name, 'state changed although the merge was refused', case)
    # frames without elements (an empty region of interest): shape (0,) or (3, 0) — streams of them merge like any others
    for cls in ('Mean', 'Variance', 'Covariance', 'Minimum', 'Maximum'):
        for shape in ((0,), (3, 0)):
            if cls == 'Covariance' and shape != (0,):
                continue
            case = dict(zero_size_frames=True, cls=cls, shape=list(shape))
            ctx.case(('zero-size', cls, shape), True, sample=case)
            ctx.count('zero_size_frames')
            try:
                whole, a, b, e = getattr(A, cls)(), getattr(A, cls)(), getattr(A, cls)(), getattr(A, cls)()
                for i in range(3):
                    whole.accumulate(np.zeros(shape))
                    (a if i < 2 else b).accumulate(np.zeros(shape))
                a.accumulate(b)
                a.accumulate(e)
                ok = a.n == whole.n == 3 and np.shape(a.value if cls != 'Covariance' else a.rms) == np.shape(whole.value if cls != 'Covariance' else whole.rms)
                why = 'n=%s/%s' % (a.n, whole.n)
            except Exception as ex:  # noqa
                ok, why = False, 'raised %r' % (ex,)
            if not ok:
                ctx.fail('merge-zero-size-frames:' + cls, '%s over frames of shape %s, merged in two chunks plus an empty operand: %s' % (cls, shape, why), case)
    # mergeable kinds must say ok in the model (their behaviour is covered above / in C16)
    for name in MERGERS:
        if model[name] != 'ok merged':
            raise core.InfraError('model says %s for %s' % (model[name], name))


def check(ctx):
    from harness import formulas
    formulas.check_formulas(ctx, ['Mean._accumulate_other', 'Variance._accumulate_other', 'Covariance._accumulate_other'])
    rng = ctx.rng
    cases = []
    fixed = [
        dict(kind='mean', chunks=[[], []], order=[(0, 1)], family='corpus'),
        dict(kind='var', chunks=[[], []], order=[(0, 1)], family='corpus'),
        dict(kind='cov', chunks=[[], []], order=[(0, 1)], family='corpus'),
        dict(kind='min', chunks=[[], [1.0, 2.0]], order=[(0, 1)], family='corpus'),
        dict(kind='max', chunks=[[3.0], []], order=[(0, 1)], family='corpus'),
        dict(kind='min', chunks=[[], []], order=[(0, 1)], family='corpus'),
        dict(kind='mean', chunks=[[1.0, 2.0, 3.0], []], order=[(0, 1)], family='corpus'),
        dict(kind='var', chunks=[[], [1.0, 2.0, 4.0]], order=[(0, 1)], family='corpus'),
        dict(kind='var', chunks=[[1.0], [2.0, 4.0, 9.0, 1.0]], order=[(0, 1)], family='corpus'),
        dict(kind='cov', chunks=[[[1.0, 2.0]], [[3.0, 2.5], [0.0, 1.0], [2.0, 2.0]]], order=[(1, 0)], family='corpus'),
    ]
    cases += fixed
    for _ in range(ctx.scale(300, 4000)):
        cases.append(build_case(rng, ctx.quick))
    lines, spans, progs = [], [], []
    for c in cases:
        prog = program(c)
        if c.get('family') != 'corpus':
            c['history_ops'] = acclib.gen_history_ops(rng, prog)
        progs.append(prog)
        lines += acclib.model_lines(prog)
        spans.append(acclib.n_outputs(prog))
    mout = core.run_driver(lines)
    if len(mout) != sum(spans):
        raise core.InfraError('driver produced %d lines, expected %d' % (len(mout), sum(spans)))
    pos = 0
    for c, prog, k in zip(cases, progs, spans):
        model = acclib.parse_model(mout[pos:pos + k])
        pos += k
        impl, _ = acclib.run_impl(acclib.apply_history_ops(prog, c.get('history_ops')))
        sizes = [len(ch) for ch in c['chunks']]
        nonempty = [s for s in sizes if s]
        nontriv = (len(set(nonempty)) >= 2) or (0 in sizes and len(sizes) >= 2)
        ctx.case((c['kind'], c['chunks'], c['order']), nontriv, sample=c if c['family'] != 'corpus' else None)
        ctx.count('kind:' + c['kind'])
        ctx.count('chunks:%d' % len(sizes))
        ctx.count('empty_chunks', sizes.count(0))
        scale = scale_of(c)
        for i, (iv, mv) in enumerate(itertools.zip_longest(impl, model)):
            if iv is None or mv is None:
                ctx.disagree('merge-model-correspondence', c, iv, str(mv), 'output count')
                break
            bad = acclib.compare_read(iv, mv, scale)
            if bad:
                ctx.disagree('merge-model-correspondence', c,
                             iv if isinstance(iv, str) else {k: iv.get(k) for k in bad},
                             mv if isinstance(mv, str) else {k: str(mv.get(k)) for k in bad}, 'at output %d keys %s' % (i, bad))
                break
        with ctx.guard(c):
            oracle(ctx, c, impl)
            oracle_extra(ctx, c, impl)
    refusal_cases(ctx)
    ephemeral_operand_cases(ctx)
    complex_merge_cases(ctx)


def ephemeral_operand_cases(ctx):
    """the usual reduction loop `total += partial(chunk)`: every partial result dies right after it was merged in (its memory, and
    with it its id(), is reused by the next one) — the total is still the statistic of all the data"""
    A = acclib.accmod()
    rng = ctx.rng
    for _ in range(ctx.scale(30, 300)):
        kind = rng.choice(['counter', 'min', 'max', 'mean', 'var', 'cov'])
        shape = (2,) if kind == 'cov' else rng.choice([(), (2,), (3,)])
        nchunks = rng.randint(2, 12)
        chunks = [c05.gen_values(rng, rng.choice([1, 1, 2, 3, 5]), shape, 'dyadic') for _ in range(nchunks)]
        cls = getattr(A, acclib.KINDS[kind])
        total = cls()
        for ch in chunks:
            part = cls()
            for v in ch:
                part.accumulate(acclib.to_obj(v))
            total += part
            del part
        vals = [v for ch in chunks for v in ch]
        case = dict(kind=kind, ephemeral_partials=True, chunks=chunks)
        ctx.case(('ephemeral', kind, str(chunks)), True, sample=case if len(vals) <= 6 else None)
        ctx.count('ephemeral_operands')
        flatvals = [acclib.flat(v)[1] for v in vals]
        mx = max([abs(x) for c in flatvals for x in c] + [Fraction(1)])
        scale = mx * mx if kind in ('var', 'cov') else mx
        readout = acclib.read_impl(kind, total)
        if len(vals) >= 2 or kind not in ('var', 'cov'):
            c05.oracle_check(ctx, kind, vals if kind != 'counter' else [0] * len(vals), readout, case, scale)


def complex_merge_cases(ctx):
    """the merge identity is one of field arithmetic: it holds for complex observations as it does for real ones (the two
    accumulators compared are both the implementation's: one fed everything, one merged from chunks)"""
    A = acclib.accmod()
    rng = ctx.rng
    for _ in range(ctx.scale(12, 100)):
        kind = rng.choice(['mean', 'cov', 'var'])
        d = 2
        chunks = [[np.array([complex(rng.randint(-8, 8) / 4, rng.randint(-8, 8) / 4) for _ in range(d)]) for _ in range(rng.choice([1, 2, 4]))]
                  for _ in range(rng.randint(2, 4))]
        cls = getattr(A, acclib.KINDS[kind])
        whole, total = cls(), cls()
        for ch in chunks:
            part = cls()
            for v in ch:
                part.accumulate(v)
                whole.accumulate(v)
            total.accumulate(part)
        case = dict(kind=kind, complex_observations=True, chunks=[[[str(z) for z in v] for v in ch] for ch in chunks])
        ctx.case(('complex', kind, str(case['chunks'])), True, sample=case)
        ctx.count('complex_merges')
        try:
            a, b = np.asarray(total.value), np.asarray(whole.value)
            same = total.n == whole.n and a.shape == b.shape and np.allclose(a, b, rtol=1e-9, atol=1e-12)
        except ZeroDivisionError:
            same = total.n == whole.n
        if not same:
            ctx.fail('merge-differs-from-single-run:complex:' + kind, 'complex observations: merged %s, single accumulator %s' % (
                np.asarray(total.value).ravel()[:4], np.asarray(whole.value).ravel()[:4]), case)


def replay(ctx, data):
    case = data['case']
    if case.get('complex_observations'):
        complex_merge_cases(ctx)
        return
    if case.get('ephemeral_partials'):
        ephemeral_operand_cases(ctx)
        return
    if 'refuse' in case:
        refusal_cases(ctx)
        return
    case['order'] = [tuple(x) for x in case['order']]
    impl, _ = acclib.run_impl(acclib.apply_history_ops(program(case), case.get('history_ops')))
    oracle(ctx, case, impl)
    oracle_extra(ctx, case, impl)
    ctx.case(('replay', case), True, sample=case)


if __name__ == '__main__':
    import sys
    core.main(sys.modules[__name__])
