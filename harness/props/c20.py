"""C20 — network streaming delivers the exact sequence, then ends, for every interleaving (lock-step REQ/REP model)."""
import dataclasses
import decimal
import enum
import fractions
import pickle
import numpy as np
import sys
import threading
import types
from harness import core, pipelib

ID = 'C20'
MODULE = 'Gpv.Props.C20'
THEOREMS = core.theorems('C20')
RULE = ('pyzmq is not installed: sys.modules["zmq"] is replaced by an in-process lock-step REQ/REP transport whose every operation '
        '(and the sender\'s source draws and the consumer\'s next()) waits for a scheduler; sender and receiver run in two threads; '
        'the scheduler picks among the enabled operations (random in quick, EVERY interleaving for n <= 3 in thorough, n <= 2 in quick); '
        'streams contain None, (None, None), (0, x) and other look-alikes of the end marker; oracle: received == sent (after '
        'pickling), receiver ends, sender returns, no alternation error, draws <= requests + 1 at every point, no deadlock; the event '
        'trace must be accepted by the Lean product transition system. non-trivial: n >= 2 with a None-like element; distinct by (elements, schedule).')
PARTIAL = ['real ZeroMQ is not exercised at all (pyzmq cannot be installed here); the property itself is phrased under a lock-step model of the sockets']
ASSUMPTIONS = ['ZeroMQ REQ/REP is a strict lock-step pair with reliable in-order delivery; REQ.send does not block before the peer is bound']


class Deadlock(Exception):
    pass


class Sched:
    """both parties announce their next operation and block; the scheduler grants one enabled operation at a time"""
    def __init__(self, chooser):
        self.cv = threading.Condition()
        self.pending = {}          # party -> op
        self.grant = None
        self.finished = set()
        self.events = []
        self.chooser = chooser
        self.req = None            # request slot
        self.rep = None            # reply slot
        self.error = None

    def enabled(self, op):
        if op == 'sRecv':
            return self.req is not None
        if op == 'rRecv':
            return self.rep is not None
        return True

    def wait_turn(self, party, op):
        with self.cv:
            self.pending[party] = op
            self.cv.notify_all()
            while self.grant != party:
                if self.error:
                    raise Deadlock()
                self.cv.wait(timeout=0.05)
            self.grant = None
            del self.pending[party]
            self.events.append(op)

    def finish(self, party):
        with self.cv:
            self.finished.add(party)
            self.cv.notify_all()

    def run(self):
        with self.cv:
            while True:
                while len(self.pending) + len(self.finished) < 2 or self.grant is not None:
                    if not self.cv.wait(timeout=10):
                        self.error = 'scheduler timeout'
                        self.cv.notify_all()
                        return
                if len(self.finished) == 2:
                    return
                cand = sorted(p for p, op in self.pending.items() if self.enabled(op))
                if not cand:
                    self.error = 'deadlock: pending %s, finished %s' % (self.pending, sorted(self.finished))
                    self.cv.notify_all()
                    return
                self.grant = self.chooser(cand, self)
                self.cv.notify_all()


def make_fake_zmq(sched, log):
    zmq = types.ModuleType('zmq')
    zmq.REQ, zmq.REP = 'REQ', 'REP'

    class ZMQError(Exception):
        pass

    class Socket:
        def __init__(self, kind):
            self.kind = kind
            self.expect = 'send' if kind == 'REQ' else 'recv'
            self.party = 'r' if kind == 'REQ' else 's'

        def __enter__(self):
            return self

        def __exit__(self, *a):
            return False

        def bind(self, addr):
            log.append(('bind', addr))

        def connect(self, addr):
            log.append(('connect', addr))

        def _alt(self, what):
            if self.expect != what:
                log.append(('violation', self.kind, what))
                raise ZMQError('Operation cannot be accomplished in current state')
            self.expect = 'recv' if what == 'send' else 'send'

        def _send(self, payload):
            sched.wait_turn(self.party, self.party + 'Send')
            self._alt('send')
            if self.kind == 'REQ':
                if sched.req is not None:
                    log.append(('violation', 'request slot full'))
                sched.req = payload
            else:
                if sched.rep is not None:
                    log.append(('violation', 'reply slot full'))
                sched.rep = payload

        def _recv(self):
            sched.wait_turn(self.party, self.party + 'Recv')
            self._alt('recv')
            if self.kind == 'REQ':
                m, sched.rep = sched.rep, None
            else:
                m, sched.req = sched.req, None
            return m

        def send(self, data, *a, **k):
            self._send(bytes(data))

        def recv(self, *a, **k):
            return self._recv()

        def send_pyobj(self, obj, *a, **k):
            self._send(pickle.dumps(obj))

        def recv_pyobj(self, *a, **k):
            return pickle.loads(self._recv())

    class Context:
        def socket(self, kind):
            return Socket(kind)

    zmq.Context = Context
    zmq.ZMQError = ZMQError
    return zmq


def run_once(elems, chooser, reuse=False):
    """reuse: the producer refills ONE object in place (a list or an array) and yields that same object every time"""
    sched = Sched(chooser)
    log = []
    fake = make_fake_zmq(sched, log)
    saved = {k: sys.modules.get(k) for k in ('zmq', 'generatorpipeline.network')}
    sys.modules['zmq'] = fake
    sys.modules.pop('generatorpipeline.network', None)
    res = dict(received=[], sender_returned=False, receiver_ended=False, errors=[], draws_ok=True)
    try:
        import importlib
        net = importlib.import_module('generatorpipeline.network')

        class Source:
            def __init__(self):
                self.i = 0
                self.buf = None

            def __iter__(self):
                return self

            def __next__(self):
                sched.wait_turn('s', 'sDraw')
                if self.i >= len(elems):
                    raise StopIteration
                self.i += 1
                if reuse:
                    if self.buf is None:
                        self.buf = elems[self.i - 1].copy()
                    else:
                        self.buf[:] = elems[self.i - 1]
                    return self.buf
                return elems[self.i - 1]

        def sender():
            try:
                net.zmqgeneratorsend(Source(), 'tcp://*:1')
                res['sender_returned'] = True
            except Deadlock:
                pass
            except Exception as e:  # noqa
                res['errors'].append('sender: %r' % (e,))
            finally:
                sched.finish('s')

        def receiver():
            try:
                stream = net.zmqgeneratorrecv('tcp://127.0.0.1:1')
                while True:
                    sched.wait_turn('r', 'rNext')
                    try:
                        res['received'].append(next(stream))
                    except StopIteration:
                        res['receiver_ended'] = True
                        # a stream that has ended stays ended: asked again (clean-up code, a second list(stream)) it says so at once,
                        # without touching the network
                        n_ev = len(sched.events)
                        try:
                            next(stream)
                            res['after_end'] = 'a value'
                        except StopIteration:
                            res['after_end'] = 'stop'
                        except Deadlock:
                            res['after_end'] = 'blocked on the network'
                        except Exception as e:  # noqa
                            res['after_end'] = repr(e)
                        res['after_end_events'] = list(sched.events[n_ev:])
                        break
            except Deadlock:
                pass
            except Exception as e:  # noqa
                res['errors'].append('receiver: %r' % (e,))
            finally:
                sched.finish('r')

        ts = [threading.Thread(target=sender, daemon=True), threading.Thread(target=receiver, daemon=True)]
        for t in ts:
            t.start()
        sched.run()
        for t in ts:
            t.join(timeout=5)
    finally:
        for k, v in saved.items():
            if v is None:
                sys.modules.pop(k, None)
            else:
                sys.modules[k] = v
    res['events'] = list(sched.events)
    res['sched_error'] = sched.error
    res['log'] = log
    return res


def judge(ctx, elems_desc, elems, res, case, model_line):
    ev = res['events']
    if res['sched_error']:
        ctx.fail('network-deadlock', 'no party can move: %s (trace %s)' % (res['sched_error'], ' '.join(ev)), case)
        return
    if res['errors'] or any(l[0] == 'violation' for l in res['log']):
        ctx.fail('network-socket-alternation-or-error', 'errors %s, socket log %s' % (res['errors'], [l for l in res['log'] if l[0] == 'violation']), case)
        return
    def same(a, b):
        try:
            return type(a) is type(b) and (pipelib.same_value(a, b) or pickle.dumps(a) == pickle.dumps(b))
        except Exception:  # noqa
            return False
    ok = len(res['received']) == len(elems) and all(same(a, b) for a, b in zip(res['received'], elems))
    if not ok or not res['receiver_ended'] or not res['sender_returned']:
        ctx.fail('network-stream-not-delivered', 'sent %s, received %d elements (%s), receiver ended=%s, sender returned=%s' % (
            elems_desc, len(res['received']), [show(x)[:20] for x in res['received']], res['receiver_ended'], res['sender_returned']), case)
        return
    if res.get('after_end', 'stop') != 'stop' or res.get('after_end_events'):
        ctx.fail('receiver-restarts-after-end', 'asked again after its end the receiver gave %s (network activity: %s)' % (
            res.get('after_end'), res.get('after_end_events')), case)
        return
    draws = reqs = 0
    for e in ev:
        if e == 'sDraw':
            draws += 1
        elif e == 'sRecv':
            reqs += 1
        if min(draws, len(elems)) > reqs + 1:
            ctx.fail('sender-draws-ahead', 'the sender drew %d elements after only %d requests' % (draws, reqs), case)
            return
    st = dict(p.split('=', 1) for p in model_line.split(' ') if '=' in p)
    if not model_line.startswith('accept'):
        ctx.disagree('network-trace-accepted-by-product-system', case, ' '.join(ev), model_line[:300])
    else:
        ctx.traces_validated += 1
        if st['final'] != 'true' or st['violated'] != 'false' or len([t for t in st['received'].split(',') if t]) != len(elems):
            ctx.disagree('network-final-state-equals-model', case, 'delivered %d' % len(elems), model_line[:300])


def show(x):
    try:
        return repr(x)
    except Exception:  # noqa
        return '<unprintable %s>' % type(x).__name__


@dataclasses.dataclass
class Reading:
    """a class of the running program (when the check runs, this module is __main__): instances arrive as instances of THIS class"""
    channel: int
    value: float


class Colour(enum.Enum):
    RED = 1
    BLUE = 2


ELEMS = [Reading(3, 2.5), Colour.BLUE, Reading, pipelib.Sulky(4),
         None, (None, None), (0, None), (None, 1), 0, '', [], b'next', ('u', 1), {'status': None}, 1.5, [None], False,
         # exception OBJECTS are ordinary elements (results collected with return_exceptions-style code): handed on, never raised
         ValueError('as an element'), KeyError(1), OSError(2, 'msg'), StopIteration('as an element')]
# elements that are EQUAL (and hash alike) without being the same: each arrives as what it is
class Frame(bytes):
    pass


# binary payloads of every kind: each arrives as the type it is
BINARY = [bytearray(b'frame'), bytearray(), Frame(b'sub'), memoryview(b'mv').tobytes()]
TWINS = [0.0, -0.0, (1, 2), (True, 2.0), (1.0, 2), decimal.Decimal('1.0'), decimal.Decimal('1.00'), (fractions.Fraction(1, 2), 0), (0.5, False), 1, True, 1.0]
ELEMS = ELEMS + TWINS + BINARY


def check(ctx):
    rng = ctx.rng
    runs, lines = [], []
    # random schedules
    for it in range(ctx.scale(150, 1200)):
        n = rng.choice([0, 1, 2, 3, 5, 9]) if it else 300      # one stream longer than CPython's small-integer cache (257)
        idx = [rng.randrange(len(ELEMS)) for _ in range(n)]
        elems = [ELEMS[i] for i in idx]
        if it == 1:
            elems = list(TWINS)
            rng.shuffle(elems)
            n = len(elems)
        if it == 2:
            elems = list(BINARY) + [b'plain']
            rng.shuffle(elems)
            n = len(elems)
        reuse = n >= 2 and rng.random() < 0.3
        if reuse:
            # what must arrive is the content at the moment each element was handed to the sender
            elems = [[k, 'shot%d' % k] for k in range(n)] if rng.random() < 0.5 else [np.full(3, float(k)) for k in range(n)]
            ctx.count('producer_reuses_one_object')
        bias = rng.choice([0.5, 0.1, 0.9])
        chooser = lambda cand, s, rng=rng, bias=bias: (cand[0] if rng.random() < bias else cand[-1])  # noqa
        res = run_once(elems, chooser, reuse)
        case = dict(elements=[show(e) for e in elems], schedule='random', trace=' '.join(res['events']), producer_reuses_one_object=reuse)
        runs.append((case, elems, res, n >= 2 and (reuse or any(e is None or (isinstance(e, tuple) and e == (None, None)) for e in elems))))
        lines.append('net.trace %d | %s' % (n, ' '.join(res['events'])))
    # one stream longer than any 16-bit counter (65 540 elements): complete, in order, both ends finish
    N16 = 65540
    res16 = run_once(list(range(N16)), lambda cand, s: cand[0])
    case16 = dict(elements='0 .. %d' % (N16 - 1), schedule='first enabled party', n=N16)
    ctx.case(('long-network-stream', N16), True, sample=case16)
    ctx.count('stream_beyond_65535_elements')
    if res16['sched_error'] or res16['errors'] or res16['received'] != list(range(N16)) or not res16['receiver_ended'] or not res16['sender_returned']:
        ctx.fail('network-stream-not-delivered', 'a %d-element stream: received %d elements, receiver ended=%s, sender returned=%s, %s %s' % (
            N16, len(res16['received']), res16['receiver_ended'], res16['sender_returned'], res16['sched_error'] or '', res16['errors'][:1]), case16)
    # every interleaving for small n (stateless DFS over the scheduler's choices)
    nmax = ctx.scale(2, 3)
    exhaustive = 0
    for n in range(0, nmax + 1):
        elems = [None, (None, None), ('u', 2)][:n]
        stack = [[]]
        seen = 0
        while stack:
            prefix = stack.pop()
            taken = []

            def chooser(cand, s, prefix=prefix, taken=taken):
                k = len(taken)
                c = prefix[k] if k < len(prefix) else 0
                taken.append((c, len(cand)))
                return cand[c]
            res = run_once(elems, chooser)
            seen += 1
            for k in range(len(prefix), len(taken)):
                for alt in range(1, taken[k][1]):
                    stack.append([t[0] for t in taken[:k]] + [alt])
            case = dict(elements=[show(e) for e in elems], schedule='enumerated', trace=' '.join(res['events']))
            runs.append((case, elems, res, n >= 2))
            lines.append('net.trace %d | %s' % (n, ' '.join(res['events'])))
        exhaustive += seen
        ctx.count('interleavings_n%d' % n, seen)
    ctx.extra['exhaustive'] = True
    ctx.extra['interleavings_enumerated'] = exhaustive
    mout = core.run_driver(lines)
    for (case, elems, res, nontriv), ml in zip(runs, mout):
        ctx.case((case['elements'], case['trace']), nontriv, sample=case if len(elems) <= 2 else None)
        ctx.count('schedule:' + case['schedule'])
        judge(ctx, case['elements'], elems, res, case, ml)


def replay(ctx, data):
    check(ctx)


if __name__ == '__main__':
    import sys as _s
    core.main(_s.modules[__name__])
