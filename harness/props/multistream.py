"""
multistream.py — several streams of ONE decorated stage, created, advanced, abandoned and dropped in an interleaved plan.

Shared by C01 (outputs), C02 (window / laziness per stream), C03 (a failure in one stream while others are alive),
C04 (pools and processes, never-advanced streams), C10 (two live in-process flat-map streams) and C13 (counters).
Every stream must behave exactly as if it were the only one (the theorems are per stream; the stage object carries
nothing but the two counters), and the counters must add up.
"""
from harness import core, pipelib
from harness.props import c01


def gen_case(rng, parallel=None, failures=False, iters=False):
    par = (rng.random() < 0.6) if parallel is None else parallel
    cfg = dict(nworkers=rng.choice([1, 2, 3]) if par else 0, extracache=rng.choice([0, 1, 2]), skipNone=rng.random() < 0.7,
               maxtasksperchild=None)
    ns = rng.choice([2, 2, 3])
    streams = []
    uid = 50000
    for s in range(ns):
        n = rng.choice([0, 1, 3, 5, 8])
        table = []
        for i in range(n):
            r = rng.random()
            if iters and not par and r < 0.35:
                items = []
                for _ in range(rng.randint(0, 3)):
                    if rng.random() < 0.3:
                        items.append('n')
                    else:
                        uid += 1
                        items.append(uid)
                table.append(['it', items])
            elif r < 0.55 + (0 if iters else 0.2):
                table.append(['u'])
            else:
                table.append(['n'])
        tail = None
        if failures and rng.random() < 0.4:
            if n and rng.random() < 0.5:
                table[rng.randrange(n)] = ['e', rng.randrange(100)]
            else:
                tail = rng.randrange(100)
        streams.append(dict(n=n, table=table, tail=tail, kwargs=rng.choice([{}, {}, {'a': s}])))
    # plan: create all or some lazily, interleave nexts, some closes / drops, possibly never advance one
    plan = []
    order = list(range(ns))
    rng.shuffle(order)
    created = set()
    never = rng.choice(order) if rng.random() < 0.3 else None
    budget = {s: rng.randint(0, streams[s]['n'] + 2) for s in order}
    for s in order:
        if rng.random() < 0.6:
            plan.append([s, 'K'])
            created.add(s)
    steps = []
    for s in order:
        if s != never:
            steps += [s] * budget[s]
    rng.shuffle(steps)
    for s in steps:
        if s not in created:
            plan.append([s, 'K'])
            created.add(s)
        plan.append([s, 'N'])
        if rng.random() < 0.08:
            plan.append([s, rng.choice(['C', 'G'])])
    for s in order:
        if s not in created:
            plan.append([s, 'K'])
        if s == never or rng.random() < 0.4:
            plan.append([s, rng.choice(['C', 'G'])])
    return dict(cfg=cfg, streams=streams, plan=plan, fkind=rng.choice(['module', 'lambda', 'closure']), label='multi')


def gen_case_pending_failure(rng):
    """stream A's source (or function) has already failed while results of A are still in flight; a second stream of the same
    stage is created and STARTED at exactly that moment; then A is asked for the rest — it must still end with its exception"""
    nw, ec = rng.choice([1, 2, 3]), rng.choice([0, 1, 2])
    w = nw + ec
    cfg = dict(nworkers=nw, extracache=ec, skipNone=rng.random() < 0.7, maxtasksperchild=None)
    na = rng.randint(1, w + 2)
    ta = [['u'] if rng.random() < 0.8 else ['n'] for _ in range(na)]
    tail = None
    if rng.random() < 0.6:
        tail = rng.randrange(100)                      # the source raises after na elements
    else:
        ta[rng.randrange(max(0, na - w), na)] = ['e', rng.randrange(100)]     # the function fails for one of the last elements
    nb = rng.choice([1, 2, 4])
    streams = [dict(n=na, table=ta, tail=tail, kwargs={}), dict(n=nb, table=[['u'] for _ in range(nb)], tail=None, kwargs={})]
    before = rng.randint(1, max(1, na - 1))            # A is advanced this far before B starts
    plan = [[0, 'K']] + ([[1, 'K']] if rng.random() < 0.5 else [])
    plan += [[0, 'N']] * before
    if [1, 'K'] not in plan:
        plan.append([1, 'K'])
    plan.append([1, 'N'])
    rest = [[0, 'N']] * (na + 2 - before) + [[1, 'N']] * (nb + 1)
    rng.shuffle(rest)
    plan += rest
    return dict(cfg=cfg, streams=streams, plan=plan, fkind=rng.choice(['module', 'lambda', 'closure']), label='multi')


def expected_stream(case, s):
    st = case['streams'][s]
    sub = dict(cfg=case['cfg'], table=st['table'], tail=st['tail'])
    exp = pipelib.expected_obs(sub, parallel=case['cfg']['nworkers'] > 0)
    # unique values carry the global element id
    out = []
    for tok in exp:
        if tok.startswith('v') and int(tok[1:]) < pipelib.SBASE:
            out.append('v%d' % (pipelib.SBASE * s + int(tok[1:])))
        else:
            out.append(tok)
    return out


def producer_index(case, s, k):
    """(element index, item index) producing the k-th delivered value (1-based) of stream s"""
    skip = case['cfg']['skipNone']
    cnt = 0
    for i, t in enumerate(case['streams'][s]['table']):
        if t[0] == 'it':
            for j, it in enumerate(t[1]):
                if it == 'n' and skip:
                    continue
                cnt += 1
                if cnt == k:
                    return i, j
        elif t[0] == 'n' and skip:
            continue
        elif t[0] == 'e':
            return None
        else:
            cnt += 1
            if cnt == k:
                return i, None
    return None


def judge(ctx, case, res, aspects, label):
    """aspects: subset of {'outputs', 'draws', 'process', 'counters'}"""
    par = case['cfg']['nworkers'] > 0
    small = dict(cfg=case['cfg'], streams=case['streams'], plan=case['plan'], fkind=case['fkind'], label=label)
    ns = len(case['streams'])
    if 'harness_error' in res:
        raise core.InfraError('multi-stream runner failed: ' + res['harness_error'])
    if res.get('retried'):
        ctx.count('scenarios_rerun_after_a_timeout')
    if res.get('timeout'):
        ctx.fail('stream-deadlock', 'interleaved streams of one stage did not finish within the time limit', small)
        return
    cl = case['cfg']['nworkers'] + case['cfg']['extracache']
    got = {s: [] for s in range(ns)}
    taken = {s: 0 for s in range(ns)}         # results taken so far per stream (for the counters)
    total_y = 0
    ok = True
    for r in res['reads']:
        s = r['stream']
        if r['kind'] == 'value':
            got[s].append('n' if r['id'] == 'n' else 'v%d' % r['id'])
            total_y += 1
            pi = producer_index(case, s, len(got[s]))
            if pi is not None:
                taken[s] = pi[0] + 1
                if 'draws' in aspects and ok:
                    if par and r['draws'] - (pi[0] + 1) > cl:
                        ctx.fail('window-exceeded', 'stream %d: at the hand-over of element %d the source was at %d (window %d)' % (s, pi[0], r['draws'], cl), small)
                        ok = False
                    elif par and r['draws'] < min(case['streams'][s]['n'], pi[0] + cl):
                        ctx.fail('window-not-filled', 'stream %d: at the hand-over of element %d only %d elements were drawn (window %d)' % (
                            s, pi[0], r['draws'], cl), small)
                        ok = False
                    elif not par and r['draws'] != pi[0] + 1:
                        ctx.fail('serial-draws-ahead', 'stream %d (in-process): at the hand-over of element %d the source was at %d' % (s, pi[0], r['draws']), small)
                        ok = False
        elif r['kind'] == 'raised':
            got[s].append('r%d' % r['id'])
            # a failing function was "taken" but not processed; a failing source: everything before was processed
            st = case['streams'][s]
            fe = next((i for i, t in enumerate(st['table']) if t[0] == 'e'), None)
            taken[s] = fe if fe is not None else st['n']
        else:
            got[s].append('stop')
            if not any(x.startswith('r') for x in got[s]):      # a StopIteration after a failure adds nothing
                taken[s] = case['streams'][s]['n']
        if 'counters' in aspects and ok:
            want_p, want_y = sum(taken.values()), total_y
            if (r['processed'], r['yielded']) != (want_p, want_y):
                ctx.fail('pipe-info-counts-wrong', 'with %d streams of one stage alive, after a hand-over in stream %d: processed=%d '
                         'yielded=%d, expected %d/%d' % (ns, s, r['processed'], r['yielded'], want_p, want_y), small)
                ok = False
    if 'outputs' in aspects:
        for s in range(ns):
            exp = expected_stream(case, s)
            g = got[s]
            g2 = [x for i, x in enumerate(g) if not (x == 'stop' and i > 0 and g[i - 1] in ('stop',)) ]
            g2 = [x for i, x in enumerate(g2) if not (x == 'stop' and i > 0 and g2[i - 1].startswith('r'))]
            if g2 != exp[:len(g2)]:
                ctx.fail('stream-output-differs-from-map', 'stream %d of %d interleaved streams of one stage delivered %s, expected a prefix of %s' % (
                    s, ns, g2, exp), small, observed=g2, expected=exp)
                ok = False
                break
    if 'process' in aspects:
        for s, cr in res.get('created', {}).items():
            if cr['draws'] != 0 or cr['new_children'] != 0:
                ctx.fail('not-lazy-process-before-first-next', 'creating stream %s drew %d elements / started %d processes' % (s, cr['draws'], cr['new_children']), small)
        if res.get('children_after'):
            ctx.fail('worker-outlives-stream:multi', 'after all streams of the stage were finished or closed, %d child process(es) remained: %s' % (
                len(res['children_after']), res['children_after']), small)
        ev = res['events']
        if sum(1 for e in ev if e[0] == 'P') != sum(1 for e in ev if e[0] == 'X'):
            ctx.fail('pool-not-terminated', '%d pools created, %d terminated' % (sum(1 for e in ev if e[0] == 'P'), sum(1 for e in ev if e[0] == 'X')), small)
        advanced = {r['stream'] for r in res['reads']} | {i for t, i, p in ev if t == 'N'}
        if par and sum(1 for e in ev if e[0] == 'P') != len(advanced):
            ctx.fail('pool-count-wrong', '%d streams were advanced but %d pools were created' % (len(advanced), sum(1 for e in ev if e[0] == 'P')), small)
    return ok


def model_lines(case, res):
    """one acceptor / serial-machine line per stream"""
    lines, keys = [], []
    par = case['cfg']['nworkers'] > 0
    for s, st in enumerate(case['streams']):
        toks = pipelib.stream_events(res['events'], s)
        if not any(t == 'N' for t in toks):
            continue
        sub = dict(cfg=case['cfg'], table=st['table'], tail=st['tail'])
        tail = '-' if st['tail'] is None else 'e%d' % st['tail']
        if par:
            lines.append('pipe.trace %d %d %d 0 0 | %s | %s | %s' % (case['cfg']['nworkers'], case['cfg']['extracache'],
                         1 if case['cfg']['skipNone'] else 0, tail, ' '.join(pipelib.model_outcomes(sub)), ' '.join(toks)))
        else:
            dem = [t for t in toks if t in ('N', 'C')]
            lines.append('pipe.serial %d 0 0 | %s | %s | %s' % (1 if case['cfg']['skipNone'] else 0, tail,
                         ' '.join(pipelib.model_outcomes(sub, parallel=False)), ' '.join(dem)))
        keys.append((s, len([t for t in toks if t in ('N', 'C')]) if not par else 1))
    return lines, keys


def replay(ctx, case):
    """re-run one recorded multi-stream scenario (the replay file carries the aspects it was judged on)"""
    c = {k: v for k, v in case.items() if k not in ('aspects', 'label')}
    c['plan'] = [tuple(x) if isinstance(x, list) and len(x) == 2 and not isinstance(x[1], list) else x for x in c['plan']]
    run(ctx, 0, set(case.get('aspects') or ['outputs']), case.get('label', 'multi-replay'), cases=[c])


def run(ctx, ncases, aspects, label, parallel=None, failures=False, iters=False, cases=None):
    rng = ctx.rng
    if cases is None:
        cases = [gen_case(rng, parallel, failures, iters) for _ in range(ncases)]
        if failures and parallel is not False:
            cases += [gen_case_pending_failure(rng) for _ in range(max(4, ncases // 4))]
    results = pipelib.run_cases(cases, workers=16)
    for attempt in range(2):
        again = [i for i, r in enumerate(results) if r.get('timeout') and 'harness_error' not in r]
        if not again:
            break
        again = again[:8]
        redo = pipelib.run_cases([cases[i] for i in again], workers=4)
        for i, r in zip(again, redo):
            r['retried'] = attempt + 1
            results[i] = r
    all_lines, spans = [], []
    for c, r in zip(cases, results):
        if 'harness_error' in r:
            raise core.InfraError('multi-stream runner failed: ' + r['harness_error'])
        ls, keys = model_lines(c, r)
        all_lines += ls
        spans.append(keys)
    # the whole interleaved history through the Stage model (shared counters): parallel stages only
    stage_lines, stage_idx = [], []
    for ci, (c, r) in enumerate(zip(cases, results)):
        if c['cfg']['nworkers'] > 0 and not r.get('timeout'):
            srcs = []
            for st in c['streams']:
                sub = dict(cfg=c['cfg'], table=st['table'], tail=st['tail'])
                srcs.append('%s %s' % ('-' if st['tail'] is None else 'e%d' % st['tail'], ' '.join(pipelib.model_outcomes(sub))))
            # streams are numbered by creation order in the model: map plan order
            order = [s for s, a in c['plan'] if a == 'K']
            remap = {s: k for k, s in enumerate(order)}
            toks = ['K'] * len(order)
            for t in pipelib.stage_events(r['events']):
                si, e = t.split(':', 1)
                if int(si) in remap:
                    toks.append('%d:%s' % (remap[int(si)], e))
            srcs_ordered = [srcs[s] for s in order]
            stage_lines.append('pipe.stage %d %d %d 0 0 | %s | %s' % (c['cfg']['nworkers'], c['cfg']['extracache'],
                               1 if c['cfg']['skipNone'] else 0, ' | '.join(srcs_ordered), ' '.join(toks)))
            stage_idx.append(ci)
    stage_out = core.run_driver(stage_lines) if stage_lines else []
    stage_res = dict(zip(stage_idx, stage_out))
    mout = core.run_driver(all_lines) if all_lines else []
    pos = 0
    for c, r, keys in zip(cases, results, spans):
        small = dict(c, label=label, aspects=sorted(aspects))
        interleaved = len({s for s, a in c['plan'] if a == 'N'}) >= 2
        ctx.case(('multi', c['cfg'], c['streams'], c['plan']), interleaved, sample=small if sum(st['n'] for st in c['streams']) <= 6 else None)
        ctx.count('multi_stream_scenarios')
        with ctx.guard(small):
            ok = judge(ctx, c, r, aspects, label)
            ci = cases.index(c)
            if ok and ci in stage_res:
                so = stage_res[ci]
                if not so.startswith('accept'):
                    ctx.disagree('interleaved-history-accepted-by-stage-model', small, ' '.join(pipelib.stage_events(r['events']))[:600], so[:400])
                else:
                    ctx.count('stage_histories_validated')
                    sd = dict(p.split('=', 1) for p in so.split(' ') if '=' in p)
                    fi = r.get('final_info') or {}
                    if (int(sd['processed']), int(sd['yielded'])) != (fi.get('processed'), fi.get('yielded')):
                        ctx.disagree('stage-counters-equal-model', small, fi, dict(processed=sd['processed'], yielded=sd['yielded']))
            par = c['cfg']['nworkers'] > 0
            for (s, k) in keys:
                out = mout[pos:pos + k]
                pos += k
                if not ok or r.get('timeout'):
                    continue
                exp = expected_stream(c, s)
                if par:
                    st = pipelib.parse_state(out[0])
                    if st['verdict'] != 'accept':
                        ctx.disagree('multi-stream-trace-accepted-by-transition-system', small, ' '.join(pipelib.stream_events(r['events'], s)), out[0][:300])
                    else:
                        ctx.traces_validated += 1
                else:
                    ctx.traces_validated += 1
                    last = pipelib.parse_state('x ' + out[-1]) if out else {}
                    mo = [t for t in last.get('out', '').split(',') if t]
                    mo = ['v%d' % (pipelib.SBASE * s + int(t[1:])) if t.startswith('v') and int(t[1:]) < pipelib.SBASE else t for t in mo]
                    g = []
                    for rd in r['reads']:
                        if rd['stream'] == s:
                            g.append('n' if rd.get('id') == 'n' else ('v%d' % rd['id'] if rd['kind'] == 'value' else ('r%d' % rd['id'] if rd['kind'] == 'raised' else 'stop')))
                    while g[-2:] == ['stop', 'stop'] or (len(g) >= 2 and g[-1] == 'stop' and g[-2].startswith('r')):
                        g.pop()
                    if mo != g:
                        ctx.disagree('multi-stream-serial-machine-correspondence', small, g, out[-1][:300] if out else None)
