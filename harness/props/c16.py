"""C16 — retention caches hold exactly the last k / k largest observations; merges agree."""
import numpy as np
from harness import core, acclib

ID = 'C16'
MODULE = 'Gpv.Props.C16'
THEOREMS = core.theorems('C16')
RULE = ('CacheAccumulator / CacheMaximum with lengths 1-8 under a substituted virtual clock (module attribute `time`), duplicate keys, '
        'key/time functions, optional timeout, two interleaved streams followed by a merge; value and n after every push and after the '
        'merge compared with the Lean model (time stamps explicit) and with list oracles: last min(n,k) observations in arrival order; '
        'k largest keys (as a sorted list — the order among equal keys is not claimed), listed monotonically; merge = what one cache '
        'would hold after both streams; counts add; the merged-in cache is unchanged. Input restriction: (key, time) pairs are '
        'pairwise distinct. non-trivial: n > k with duplicate keys, or a merge of two non-empty caches; distinct by (kind, k, data).')
PARTIAL = ['heapq is modelled as a multiset with pop-min; deque(maxlen) as take-last: library behaviour, exercised not verified']
ASSUMPTIONS = ['(key, time) pairs of the observations are pairwise distinct, so tuple comparison never reaches the observation itself',
               'time stamps are non-decreasing within each stream (virtual clock)']


class Clock:
    def __init__(self, readings):
        self.readings = list(readings)
        self.calls = 0

    def time_ns(self):
        self.calls += 1
        return self.readings.pop(0)

    def time(self):
        return self.time_ns() / 1e9


def with_clock(readings, fn):
    A = acclib.accmod()
    old = A.time
    clk = Clock(readings)
    A.time = clk
    try:
        return fn(A), clk
    finally:
        A.time = old


def cacheacc_cases(ctx):
    rng = ctx.rng
    lines, metas = [], []
    for _ in range(ctx.scale(200, 2000)):
        L = rng.choice([1, 1, 2, 3, 5, 8])
        na, nb = rng.choice([0, 1, 3, 6, 12]), rng.choice([0, 1, 3, 6, 12])
        # interleaved arrival: a global strictly increasing clock, each observation goes to stream a or b; the readings are small
        # numbers or real epoch nanoseconds (1.7e18: above 2**53, a nanosecond apart — nothing may go through a float)
        t = rng.choice([100, 100, 1700000000123456789])
        sa, sb, order = [], [], []
        ids = iter(range(10 ** 6))
        while len(sa) < na or len(sb) < nb:
            t += rng.choice([0, 1, 1, 5]) if rng.random() < 0.9 else 0
            which = 'a' if (len(sb) >= nb or (len(sa) < na and rng.random() < 0.5)) else 'b'
            (sa if which == 'a' else sb).append((t, next(ids)))
            order.append(which)
        def run(A):
            a, b = A.CacheAccumulator(L), A.CacheAccumulator(L)
            ia = ib = 0
            reads = []
            for w in order:
                if w == 'a':
                    a.accumulate(('o', sa[ia][1])); ia += 1
                else:
                    b.accumulate(('o', sb[ib][1])); ib += 1
            reads.append(([v[1] for v in a.value], a.n))
            reads.append(([v[1] for v in b.value], b.n))
            a.accumulate(b)
            reads.append(([v[1] for v in a.value], a.n))
            reads.append(([v[1] for v in b.value], b.n))
            for (tt, oid) in sc:
                a.accumulate(('o', oid))
            reads.append(([v[1] for v in a.value], a.n))
            # the merged-in cache keeps living its own life: more observations into it must not show up in the receiver
            for (tt, oid) in sd:
                b.accumulate(('o', oid))
            reads.append(([v[1] for v in a.value], a.n))
            reads.append(([v[1] for v in b.value], b.n))
            # a cache merged into ITSELF: what one cache holds that saw its own stream twice (same time stamps: receiver first)
            c = A.CacheAccumulator(L)
            for (tt, oid) in sa:
                c.accumulate(('o', oid))
            c.accumulate(c)
            reads.append(([v[1] for v in c.value], c.n))
            # a SECOND merge into the (by now usually full) receiver, after observations that interleave in time with another cache
            e = A.CacheAccumulator(L)
            for (who, tt, oid) in post:
                (a if who == 'a' else e).accumulate(('o', oid))
            a.accumulate(e)
            reads.append(([v[1] for v in a.value], a.n))
            return reads
        sc = []
        for _ in range(rng.choice([0, 1, 2, 5])):
            t += rng.choice([1, 2])
            sc.append((t, next(ids)))
        sd = []
        for _ in range(rng.choice([0, 1, 2, 4])):
            t += rng.choice([1, 2])
            sd.append((t, next(ids)))
        post = []
        for _ in range(rng.choice([0, 2, 4, 7])):
            t += rng.choice([1, 2])
            post.append((rng.choice('ae'), t, next(ids)))
        readings = [x[0] for x in sorted(sa + sb, key=lambda p: p[1])] + [x[0] for x in sc] + [x[0] for x in sd] + [x[0] for x in sa] + [x[1] for x in post]
        reads, clk = with_clock(readings, run)
        case = dict(kind='CacheAccumulator', L=L, a=sa, b=sb)
        ctx.case(('acc', L, sa, sb), na > 0 and nb > 0, sample=case if na + nb <= 8 else None)
        ctx.count('cacheacc')
        (va, ca), (vb, cb), (vm, cm), (vb2, cb2), (vc, cc), (vc2, cc2), (vd, cd), (vs, cs), (v2, c2) = reads
        wants = [x[1] for x in sa for _ in (0, 1)][-L:] if na else []
        # equal time stamps: all of the receiver's items with that stamp first, then the other's (stable merge) — for a self-merge
        # with distinct stamps that is x0 x0 x1 x1 …; with ties inside the stream the order among equal stamps is the stream's
        dbl = sorted([(p[0], 0, i, p[1]) for i, p in enumerate(sa[-L:])] + [(p[0], 1, i, p[1]) for i, p in enumerate(sa[-L:])])
        wants = [m[3] for m in dbl][-L:] if na else []
        if vs != wants or cs != 2 * na:
            ctx.fail('cacheacc-self-merge-wrong', 'a cache merged into itself holds %s (n=%s), expected %s (n=%d)' % (vs, cs, wants, 2 * na), case)
        if va != [x[1] for x in sa][-min(na, L):] if na else va != []:
            ctx.fail('cacheacc-not-last-k', 'value %s, the last %d of %s are %s' % (va, L, [x[1] for x in sa], [x[1] for x in sa][-L:]), case)
        if (ca, cb) != (na, nb):
            ctx.fail('cacheacc-n', 'n = %s/%s' % (ca, cb), case)
        # merged: stable merge by time, receiver first on ties, last L
        merged = sorted([(p[0], 0, i, p[1]) for i, p in enumerate(sa[-L:] if na else [])] +
                        [(p[0], 1, i, p[1]) for i, p in enumerate(sb[-L:] if nb else [])])
        full = sorted([(p[0], 0, i, p[1]) for i, p in enumerate(sa)] + [(p[0], 1, i, p[1]) for i, p in enumerate(sb)])
        want = [m[3] for m in full][-L:] if full else []
        if vm != want or cm != na + nb:
            ctx.fail('cacheacc-merge-wrong', 'merged cache holds %s (n=%s); one cache that saw both streams in time order holds %s (n=%d)' % (
                vm, cm, want, na + nb), case)
        if (vb2, cb2) != (vb, cb):
            ctx.fail('merge-changes-other:CacheAccumulator', 'the merged-in cache changed', case)
        wantc = ([m[3] for m in full] + [p[1] for p in sc])[-L:] if (full or sc) else []
        if vc != wantc or cc != na + nb + len(sc):
            ctx.fail('cacheacc-after-merge-wrong', 'after a merge and %d further observations the cache holds %s (n=%s), expected %s' % (len(sc), vc, cc, wantc), case)
        if (vc2, cc2) != (vc, cc):
            ctx.fail('merge-aliases-other:CacheAccumulator', 'observations given to the merged-in cache after the merge changed the receiver: %s -> %s' % (vc, vc2), case)
        wantd = ([x[1] for x in sb] + [x[1] for x in sd])[-L:] if (sb or sd) else []
        if vd != wantd or cd != nb + len(sd):
            ctx.fail('cacheacc-donor-wrong-after-merge', 'the merged-in cache holds %s (n=%s) after %d further observations, expected %s' % (vd, cd, len(sd), wantd), case)
        # second merge: the receiver's retained items carry the time stamps they arrived with
        stamped = ([(m[0], m[3]) for m in full] + [(p[0], p[1]) for p in sc] + [(tt, oid) for who, tt, oid in post if who == 'a'])[-L:]
        other = [(tt, oid) for who, tt, oid in post if who == 'e'][-L:]
        want2 = [x[3] for x in sorted([(tt, 0, i, oid) for i, (tt, oid) in enumerate(stamped)] + [(tt, 1, i, oid) for i, (tt, oid) in enumerate(other)])][-L:]
        n2 = na + nb + len(sc) + len(post)
        if v2 != want2 or c2 != n2:
            ctx.fail('cacheacc-second-merge-wrong', 'after merge, %d further observations and a second merge the cache holds %s (n=%s), one cache '
                     'that saw everything in time order holds %s (n=%d)' % (len(sc), v2, c2, want2, n2), case)
        lines.append('cache.acc %d | %s' % (L, ' '.join('%d:%d' % p for p in sa)))
        lines.append('cache.accmerge %d | %s | %s | %s' % (L, ' '.join('%d:%d' % p for p in sa), ' '.join('%d:%d' % p for p in sb),
                                                       ' '.join('%d:%d' % p for p in sc)))
        metas.append((case, (va, ca), (vc, cc)))
    mout = core.run_driver(lines)
    for k, (case, ra, rm) in enumerate(metas):
        for ml, (v, c) in ((mout[2 * k], ra), (mout[2 * k + 1], rm)):
            n, vals = ml.split('|')
            if (int(n), [int(t) for t in vals.split()]) != (c, v):
                ctx.disagree('cacheacc-model-correspondence', case, (v, c), ml)


def cachemax_cases(ctx):
    rng = ctx.rng
    lines, metas = [], []
    A = acclib.accmod()
    for _ in range(ctx.scale(260, 2500)):
        L = rng.choice([1, 2, 3, 5, 8])
        tmo = rng.choice([None, None, None, 3, 10, 40])
        na = rng.choice([0, 1, 3, 6, 14, 30])
        nb = rng.choice([0, 2, 5, 12]) if tmo is None else 0
        t = 10
        sa, sb = [], []
        ids = iter(range(10 ** 6))
        kbase = rng.choice([0, 0, 0, 2 ** 53, 1700000000123456000])     # keys may be integers no float can tell apart
        # the key function may return numpy scalars of a narrow or unsigned type (a frame's .sum(), a uint8 pixel): they order like the
        # numbers they are — 0 is the smallest unsigned key, -128 the smallest int8
        ktype = rng.choice([None, None, None, 'uint64', 'uint8', 'int8', 'str', 'tuple'])      # keys need an order, not arithmetic: strings and tuples too
        kpool = {'uint64': [0, 0, 1, 2, 5, 41, 650, 700], 'uint8': [0, 0, 1, 3, 200, 255], 'int8': [-128, -128, -127, -1, 0, 3, 127],
                 'str': [0, 1, 2, 3, 5, 8, 13, 21], 'tuple': [0, 1, 2, 3, 5, 8, 13, 21]}.get(ktype)
        for s, n in ((sa, na), (sb, nb)):
            for _ in range(n):
                t += rng.choice([1, 1, 2, 7])            # strictly increasing: (key, time) pairs are distinct
                s.append((rng.choice(kpool) if kpool else kbase + rng.randint(-3, 6), t, next(ids)))
        conv = (lambda v: 'key%05d' % v) if ktype == 'str' else ((lambda v: (v, 'x')) if ktype == 'tuple' else (np.dtype(ktype).type if ktype else (lambda v: v)))
        mk = lambda: A.CacheMaximum(length=L, key=lambda o: conv(o[0]), time_key=lambda o: o[1], timeout=tmo)  # noqa
        a, b = mk(), mk()
        case = dict(kind='CacheMaximum', L=L, timeout=tmo, a=sa, b=sb, key_type=ktype)
        if ktype:
            ctx.count('cachemax_key_type:' + ktype)
        ok = True
        for i, o in enumerate(sa):
            a.accumulate(o)
            vals = a.value
            keys = [v[0] for v in vals]
            seen = sa[:i + 1]
            if a.n != i + 1 or len(vals) != min(i + 1, L) or any(v not in seen for v in vals):
                ctx.fail('cachemax-size-or-membership', 'after %d observations the cache holds %d items (n=%s)' % (i + 1, len(vals), a.n), case)
                ok = False
                break
            if keys != sorted(keys):
                ctx.fail('cachemax-not-monotone', 'value is not listed monotonically by key: %s' % keys, case)
                ok = False
                break
            if tmo is None and keys != sorted(o[0] for o in seen)[-min(i + 1, L):]:
                ctx.fail('cachemax-not-largest', 'retained keys %s, the %d largest seen are %s' % (keys, L, sorted(o[0] for o in seen)[-L:]), case)
                ok = False
                break
        dup = len({o[0] for o in sa}) < len(sa)
        ctx.case(('max', L, tmo, sa, sb), (na > L and dup) or (na > 0 and nb > 0), sample=case if na + nb <= 8 else None)
        ctx.count('cachemax:' + ('timeout' if tmo is not None else 'plain'))
        if not ok:
            continue
        if tmo is None:
            c = mk()
            for o in sa:
                c.accumulate(o)
            c.accumulate(c)          # merged into itself: the largest keys of its own stream taken twice
            keys = [v[0] for v in c.value]
            want = sorted([o[0] for o in sa] * 2)[-min(2 * na, L):] if na else []
            if keys != want or c.n != 2 * na:
                ctx.fail('cachemax-self-merge-wrong', 'a cache merged into itself holds keys %s (n=%s), expected %s (n=%d)' % (keys, c.n, want, 2 * na), case)
        lines.append('cache.max %d %s | %s' % (L, '-' if tmo is None else tmo, ' '.join('%d:%d:%d' % o for o in sa)))
        ra = (a.n, [v[0] for v in a.value], sorted(v[2] for v in a.value))
        rm = None
        if tmo is None:
            for o in sb:
                b.accumulate(o)
            before_b = (b.n, list(b.value))
            a.accumulate(b)
            keys = [v[0] for v in a.value]
            want = sorted(o[0] for o in sa + sb)[-min(na + nb, L):] if na + nb else []
            if keys != want or a.n != na + nb:
                sig = 'cachemax-merge-ignores-other' if keys == sorted(o[0] for o in sa)[-min(na, L):] and nb else 'cachemax-merge-wrong'
                ctx.fail(sig, 'merged cache keys %s (n=%s); the %d largest keys of both streams are %s (n=%d)' % (keys, a.n, L, want, na + nb), case)
            if (b.n, list(b.value)) != before_b:
                ctx.fail('merge-changes-other:CacheMaximum', 'the merged-in cache changed', case)
            sc = []
            for _ in range(rng.choice([0, 1, 3, 6])):
                t += rng.choice([1, 2])
                sc.append((rng.choice(kpool) if kpool else kbase + rng.randint(-3, 8), t, next(ids)))
            for o in sc:
                a.accumulate(o)
            keys = [v[0] for v in a.value]
            want = sorted(o[0] for o in sa + sb + sc)[-min(na + nb + len(sc), L):] if na + nb + len(sc) else []
            if keys != want or a.n != na + nb + len(sc):
                ctx.fail('cachemax-after-merge-wrong', 'after a merge and %d further observations: keys %s (n=%s), the %d largest seen are %s' % (
                    len(sc), keys, a.n, L, want), case)
            lines.append('cache.maxmerge %d | %s | %s | %s' % (L, ' '.join('%d:%d:%d' % o for o in sa), ' '.join('%d:%d:%d' % o for o in sb),
                                                            ' '.join('%d:%d:%d' % o for o in sc)))
            rm = (a.n, keys)
        metas.append((case, ra, rm))
    mout = core.run_driver(lines)
    pos = 0
    for case, ra, rm in metas:
        n, keys, ids = mout[pos].split('|')
        pos += 1
        got = (int(n), [int(t) for t in keys.split()], [int(t) for t in ids.split()])
        if case['timeout'] is None:
            # only the key multiset is claimed (ties between equal keys may retain either observation)
            if got[:2] != ra[:2]:
                ctx.disagree('cachemax-model-correspondence', case, ra, mout[pos - 1])
        elif got != ra:
            ctx.disagree('cachemax-timeout-model-correspondence', case, ra, mout[pos - 1])
        if rm is not None:
            n, keys = mout[pos].split('|')
            pos += 1
            if (int(n), [int(t) for t in keys.split()]) != rm:
                ctx.disagree('cachemax-merge-model-correspondence', case, rm, mout[pos - 1])


def default_clock_case(ctx):
    """CacheMaximum with the default time source (system clock, here virtual)"""
    def run(A):
        c = A.CacheMaximum(length=2)
        for k in (5, 1, 9, 3):
            c.accumulate(k)
        return c.value, c.n
    (vals, n), clk = with_clock([10, 20, 30, 40], run)
    ctx.case(('default-clock',), True)
    if vals != [5, 9] or n != 4 or clk.calls != 4:
        ctx.fail('cachemax-default-clock', 'value %s n=%s clock calls=%d' % (vals, n, clk.calls), dict(default_clock=True))


def check(ctx):
    cacheacc_cases(ctx)
    cachemax_cases(ctx)
    default_clock_case(ctx)


def replay(ctx, data):
    check(ctx)


if __name__ == '__main__':
    import sys
    core.main(sys.modules[__name__])
