"""C03 — failure transparency: ordered prefix, then the same exception; serial = parallel."""
from harness import core, pipelib
from harness.props import c01

ID = 'C03'
MODULE = 'Gpv.Props.C03'
MODULES = ['Gpv.Props.C03', 'Gpv.Props.C01']
THEOREMS = core.theorems('C03') + ['Gpv.C01.par_final', 'Gpv.C01.par_run_delivers', 'Gpv.C01.serial_final', 'Gpv.C01.serial_eq_parallel']
RULE = ('every failure position k in 0..n x failure kind (function raises a picklable exception with args; element that cannot be '
        'sent; result that cannot be sent back; source raises after k elements) x window size x forced completion order (failing '
        'task first / last / random), plus the same table run in-process; the consumer must see the ordered prefix, then the same '
        'exception (type and args), then StopIteration for ever; trace accepted by the Lean transition system. '
        'non-trivial: failure position >= 1 with at least 2 tasks in flight at the time of the failure; distinct by (config, table, schedule).')
PARTIAL = []
ASSUMPTIONS = ['a task whose element or result cannot be pickled fails at get() (multiprocessing.Pool behaviour)']


def gen_cases(ctx):
    rng = ctx.rng
    cases = []
    sizes = [1, 2, 3, 5, 8] if ctx.quick else [1, 2, 3, 4, 5, 6, 8, 11]
    reps = ctx.scale(1, 4)
    for _ in range(reps):
        for n in sizes:
            for k in range(n + 1):
                for kind in ('e', 'pe', 'pr', 'src'):
                    if kind != 'src' and k == n:
                        continue
                    if ctx.quick and rng.random() < 0.15:
                        continue
                    table = c01.rand_table(rng, n, zoo=False)
                    tail = None
                    if kind == 'src':
                        table = table[:k]
                        tail = rng.randrange(100)
                        nn = k
                    else:
                        table[k] = [kind] if kind != 'e' else ['e', rng.choice([5, 12, 19, 6, 13, 20]) if rng.random() < 0.35 else rng.randrange(100)]   # id = 5 / 6 mod 7: StopIteration / multiprocessing.TimeoutError
                        nn = n
                    cfg = c01.rand_cfg(rng)
                    cfg['maxtasksperchild'] = None
                    mode = rng.choice(['first', 'last', 'random', 'free'])
                    prio = list(range(nn))
                    if mode == 'first' and kind != 'src' and nn:
                        prio = [k] + [i for i in range(nn) if i != k]
                    elif mode == 'last' and kind != 'src' and nn:
                        prio = [i for i in range(nn) if i != k] + [k]
                    else:
                        rng.shuffle(prio)
                    sched = None if mode == 'free' else dict(priority=prio, quiet_ms=15)
                    base = dict(cfg=cfg, n=nn, tail=tail, table=table, fkind=rng.choice(['module', 'lambda', 'closure']),
                                kwargs={}, schedule=sched, demand=['N*', 'A', 'A'], label='%s:%s' % (kind, mode), kind=kind, k=k)
                    if rng.random() < 0.3:
                        base['library_warnings_are_errors'] = True
                    if rng.random() < 0.25:
                        base['unprintable_elements'] = True
                    if not base.get('unprintable_elements') and rng.random() < 0.25:
                        base['element_kind'] = rng.choice(['twins', 'range'])
                    if rng.random() < 0.3:
                        base['closable_source'] = True
                    if kind == 'src' and rng.random() < 0.4:
                        base['source_exception'] = rng.choice(['picky', 'falsy', 'frozen'])   # cannot be re-created from its args / is falsy / takes no new attributes
                    if kind == 'src' and rng.random() < 0.5:
                        base['resume'] = rng.choice([1, 2, 4])      # a source that could go on after its exception (csv-reader like)
                    cases.append(base)
                    if kind == 'e' and nn - k >= 2 and cfg['nworkers'] + cfg['extracache'] >= 2 and rng.random() < 0.6:
                        # two faults in one window: the function fails for element k and the source, read ahead, raises before
                        # that result is taken — the consumer must get the EARLIER failure (element k's), as in-process
                        kk = rng.randint(k + 1, min(nn, k + cfg['nworkers'] + cfg['extracache']) - 0)
                        kk = min(kk, nn)
                        two = dict(base, n=kk, table=table[:kk], tail=rng.randrange(100), label='e+src:%s' % mode, kind='e+src')
                        if two['schedule']:
                            two['schedule'] = dict(two['schedule'], priority=[i for i in two['schedule']['priority'] if i < kk])
                        cases.append(two)
                        cases.append(dict(two, cfg=dict(cfg, nworkers=0), schedule=None, label='e+src:serial'))
                    if kind in ('e', 'src'):
                        cases.append(dict(base, cfg=dict(cfg, nworkers=0), schedule=None, label='%s:serial' % kind))
    # every run has a function failure on an element that cannot be printed, in a worker and in-process (the stage has no business
    # calling repr() on an element, least of all while it handles the function's exception)
    for lab_ok in (lambda c: c['kind'] == 'e' and c['cfg']['nworkers'] > 0, lambda c: c['kind'] == 'e' and c['cfg']['nworkers'] == 0):
        if not any(lab_ok(c) and c.get('unprintable_elements') for c in cases):
            first = next((c for c in cases if lab_ok(c)), None)
            if first is not None:
                cases.append(dict(first, unprintable_elements=True))
    # … and a failure for an element that EQUALS its predecessor in the window without being the same (-2 and -2.0): the earlier twin's
    # result says nothing about the later one
    tw = lambda c: (c['kind'] == 'e' and c['k'] % 2 == 1 and c['cfg']['nworkers'] > 0 and c['cfg']['nworkers'] + c['cfg']['extracache'] >= 2
                    and c['table'][c['k'] - 1][0] in ('u', 'z', 'n'))
    if not any(tw(c) and c.get('element_kind') == 'twins' for c in cases):
        first = next((c for c in cases if tw(c)), None)
        if first is not None:
            first = dict(first, element_kind='twins')
            first.pop('unprintable_elements', None)
            cases.append(first)
    # … and every kind of awkward source exception at least once, with results in flight
    for kind_ in ('picky', 'falsy', 'frozen'):
        if not any(c.get('source_exception') == kind_ and c['cfg']['nworkers'] > 0 for c in cases):
            first = next((c for c in cases if c['kind'] == 'src' and c['cfg']['nworkers'] > 0 and c['n'] >= 1 and not c.get('resume')), None)
            if first is not None:
                cases.append(dict(first, source_exception=kind_))
    # corpus: the defect input of the pinned tree (DESIGN §3, D1)
    cases.insert(0, dict(cfg=dict(nworkers=2, extracache=2, skipNone=True, maxtasksperchild=None), n=6, tail=7,
                         table=[['u']] * 6, fkind='module', kwargs={}, schedule=None, demand=['N*', 'A'],
                         label='src:corpus', kind='src', k=6))
    return cases


def judge(ctx, case, res, mout):
    c01.judge(ctx, case, res, mout_fix(case, res, mout))
    small = dict(cfg=case['cfg'], n=case['n'], table=case['table'], tail=case.get('tail'), schedule=case.get('schedule'),
                 fkind=case['fkind'], demand=case['demand'], label=case['label'], kwargs={})
    pipelib.carry_flags(small, case)
    af = res.get('after_final', [])
    if any(a != 'stop' for a in af):
        ctx.fail('not-finished-after-failure', 'next() after the end of the stream gave %s' % af, small)
    ctx.count('kind:' + case['kind'])


def mout_fix(case, res, mout):
    return mout


def c01_judge_signature(ctx, case, res):
    pass


def check(ctx):
    triples = c01.execute(gen_cases(ctx))
    cases = [t[0] for t in triples]
    results = [t[1] for t in triples]
    for c, r, m in triples:
        nfail = len(ctx.failures)
        with ctx.guard(c):
            judge(ctx, c, r, m)
        # refine the signature of output mismatches for failure scenarios
        for f in ctx.failures[nfail:]:
            if f['sig'] == 'stream-output-differs-from-map':
                exp, got = f.get('expected', []), f.get('observed', [])
                if c['kind'] == 'src' and c['cfg']['nworkers'] > 0 and got[-1:] == exp[-1:] and len(got) < len(exp) \
                        and got[:-1] == exp[:len(got) - 1]:
                    f['sig'] = 'source-failure-drops-in-flight-results'
                elif got[-1:] != exp[-1:]:
                    f['sig'] = 'failure-not-propagated:%s' % c['kind']
                else:
                    f['sig'] = 'failure-prefix-wrong:%s' % c['kind']
    # serial = parallel on raising functions and sources
    by_key = {}
    for c, r in zip(cases, results):
        if c['kind'] in ('e', 'src', 'e+src'):
            key = (str(c['table']), c.get('tail'), c['cfg']['skipNone'])
            by_key.setdefault(key, {})['s' if c['cfg']['nworkers'] == 0 else 'p'] = (c, pipelib.observed_obs(r))
    for key, d in by_key.items():
        if 's' in d and 'p' in d and d['s'][1] != d['p'][1]:
            c = d['p'][0]
            if not any(f['case'].get('table') == c['table'] and f['case'].get('tail') == c.get('tail') for f in ctx.failures):
                ctx.fail('serial-differs-from-parallel', 'in-process run saw %s, parallel run saw %s' % (d['s'][1], d['p'][1]),
                         dict(cfg=c['cfg'], n=c['n'], table=c['table'], tail=c.get('tail'), schedule=c.get('schedule'),
                              fkind=c['fkind'], demand=c['demand'], label=c['label'], kwargs={}))
    from harness.props import multistream
    multistream.run(ctx, ctx.scale(40, 400), {'outputs'}, 'multi-C03', failures=True)


def replay(ctx, data):
    case = data['case']
    if 'streams' in case:
        from harness.props import multistream
        multistream.replay(ctx, case)
        return
    case.setdefault('kind', 'src' if case.get('tail') is not None else 'e')
    case.setdefault('k', 0)
    for c, r, m in c01.execute([case], workers=1):
        with ctx.guard(c):
            judge(ctx, c, r, m)


if __name__ == '__main__':
    import sys
    core.main(sys.modules[__name__])
