"""C13 — pipe_info counts exactly what was processed and what was handed to the consumer."""
from harness import core, pipelib
from harness.props import c01

ID = 'C13'
MODULE = 'Gpv.Props.C13'
MODULES = ['Gpv.Props.C13', 'Gpv.Props.C13Stage', 'Gpv.Props.C13Fail']
THEOREMS = core.theorems('C13', 'C13Stage', 'C13Fail')
RULE = ('pipe_info() is read at every hand-over during partial, complete, early-terminated (close) and repeated consumption (a second '
        'stream of the same stage started with the counters the first one left), serial and parallel, with dropped Nones and forced '
        'schedules; oracle: yielded = values handed over so far, processed = elements whose result was taken (the current one '
        'included); the counters and the printed string are compared with the Lean model (transition system counters, exact '
        'emulation of the "{:.2%}" formatting). non-trivial: at least one dropped None and a window >= 2; distinct by (config, table, demand).')
PARTIAL = []
ASSUMPTIONS = []


def gen_cases(ctx):
    rng = ctx.rng
    cases = []
    for _ in range(ctx.scale(200, 2000)):
        n = rng.choice([1, 3, 6, 10, 17])
        cfg = c01.rand_cfg(rng, parallel=rng.random() < 0.7)
        cfg['maxtasksperchild'] = None
        k = rng.randint(0, n + 1)
        demand = ['N'] * k + rng.choice([['C'], ['N*'], ['I', 'C']])
        forced = cfg['nworkers'] > 0 and rng.random() < 0.35
        prio = list(range(n))
        rng.shuffle(prio)
        pre = rng.choice([(0, 0), (0, 0), (rng.randint(1, 30), 0)])
        pre = (pre[0], rng.randint(0, pre[0]))
        prior = None
        table = c01.rand_table(rng, n, zoo=False)
        if rng.random() < 0.4:
            # a real earlier stream of the same stage over the first `prior` elements of the table
            prior = rng.randint(1, n)
            kept = sum(1 for t in table[:prior] if not (t[0] == 'n' and cfg['skipNone']))
            pre = (prior, kept)
        if prior is None and rng.random() < 0.25:
            # a stage that has been in service for long: totals around 2**31 and 2**63 are ordinary Python integers
            big = rng.choice([2 ** 31, 2 ** 31, 2 ** 32, 2 ** 63]) - rng.randint(1, max(1, n - 1))
            pre = (big, big - rng.choice([0, 0, 3, 1000]))
        elif prior is None and rng.random() < 0.2:
            # totals that END on a ratio whose third decimal of the percentage is a 5 (14.375 %% ...): printed as '{:.2%%}' prints it
            kept_all = sum(1 for t in table if not (t[0] == 'n' and cfg['skipNone']))
            fin = rng.choice([(160, 23), (160, 49), (160, 51), (160, 87), (160, 93), (320, 46)])
            if fin[1] >= kept_all and fin[0] - n >= fin[1] - kept_all:
                pre = (fin[0] - n, fin[1] - kept_all)
        label = 'info'
        if prior is None and rng.random() < 0.33:
            # the function fails for one element: the failing element's result is never taken, so it is not counted —
            # in a worker exactly as in-process — and the stage keeps correct counts for what comes later
            table[rng.randrange(n)] = ['e', rng.randrange(100)]
            demand = ['N*', 'I']
            label = 'info-failure'
        cases.append(dict(cfg=cfg, n=n, tail=None, table=table, fkind='module', kwargs={},
                          schedule=dict(priority=prio, quiet_ms=15) if forced else None, demand=demand, label=label,
                          pre_counts=None if prior else list(pre), prior_n=prior, pre_expected=list(pre), pre_model=pre))
    return cases


def judge(ctx, case, res, mout, info_lines):
    par = case['cfg']['nworkers'] > 0
    small = {k: case[k] for k in ('cfg', 'n', 'tail', 'table', 'fkind', 'kwargs', 'schedule', 'demand', 'label', 'pre_counts', 'prior_n', 'pre_expected')}
    pipelib.carry_flags(small, case)
    cl = case['cfg']['nworkers'] + case['cfg']['extracache']
    drops = any(t[0] == 'n' for t in case['table']) and case['cfg']['skipNone']
    ctx.case((case['cfg'], case['table'], case['demand'], case.get('schedule'), case['pre_expected']), drops and (cl >= 2 or not par), sample=small)
    ctx.count('mode:' + ('parallel' if par else 'serial'))
    if res.get('retried'):
        ctx.count('scenarios_rerun_after_a_timeout')
    if res.get('timeout'):
        ctx.fail('stream-deadlock', 'the stream did not finish within the time limit', small)
        return
    p0, y0 = case['pre_expected']
    if case.get('prior_n'):
        ctx.count('real_prior_stream')
        if tuple(res.get('prior_info', ())) != (p0, y0):
            ctx.fail('pipe-info-not-additive', 'after a first stream over %d elements pipe_info is %s, expected %s' % (
                case['prior_n'], res.get('prior_info'), (p0, y0)), small)
            return
    if res.get('infos_changed_later'):
        ctx.fail('pipe-info-readout-changes-later', '%d of the read-outs taken while the stream ran show different numbers afterwards: a read-out '
                 'describes the moment it was taken' % res['infos_changed_later'], small)
        return
    skip = case['cfg']['skipNone']
    # oracle at every hand-over
    nv = 0
    for r in res['reads']:
        if r['kind'] == 'value':
            nv += 1
            # element that produced this output
            cnt, j = 0, None
            for i, t in enumerate(case['table']):
                if t[0] == 'n' and skip:
                    continue
                cnt += 1
                if cnt == nv:
                    j = i
                    break
            if (r['processed'], r['yielded']) != (p0 + j + 1, y0 + nv):
                ctx.fail('pipe-info-counts-wrong', 'holding output %d (element %d): processed=%d yielded=%d, expected %d/%d' % (
                    nv, j, r['processed'], r['yielded'], p0 + j + 1, y0 + nv), small)
                return
        elif r['kind'] == 'raised':
            fe = next((i for i, t in enumerate(case['table']) if t[0] == 'e'), None)
            if fe is None:
                continue          # an exception nobody asked for: reported by the output oracle of C01/C03
            kept = sum(1 for t in case['table'][:fe] if not (t[0] == 'n' and skip))
            if (r['processed'], r['yielded']) != (p0 + fe, y0 + kept):
                ctx.fail('pipe-info-counts-failed-element', 'after the function failed for element %d: processed=%d yielded=%d, expected %d/%d '
                         '(the failing element\'s result was never taken)' % (fe, r['processed'], r['yielded'], p0 + fe, y0 + kept), small)
                return
        elif r['kind'] == 'stop':
            if any(t[0] == 'e' for t in case['table']):
                continue          # next() after the failure: counts stay as they were (checked above)
            kept = sum(1 for t in case['table'] if not (t[0] == 'n' and skip))
            if (r['processed'], r['yielded']) != (p0 + case['n'], y0 + kept):
                ctx.fail('pipe-info-final-counts-wrong', 'after exhaustion processed=%d yielded=%d, expected %d/%d' % (
                    r['processed'], r['yielded'], p0 + case['n'], y0 + kept), small)
                return
    # printed form
    for r, il in zip(res['reads'], info_lines):
        if r['info_str'] != il:
            ctx.disagree('pipe-info-string-equals-model', small, r['info_str'], il)
            return
        if r['processed'] > 0:
            want = '%.2f%%' % (100.0 * r['yielded'] / r['processed'])
            if not r['info_str'].endswith('[' + want + ']') and abs(float(r['info_str'].split('[')[1][:-2]) - 100.0 * r['yielded'] / r['processed']) > 0.0051:
                ctx.fail('pipe-info-ratio-wrong', 'printed %s for %d/%d' % (r['info_str'], r['yielded'], r['processed']), small)
                return
    # model counters
    if par:
        st = pipelib.parse_state(mout[0])
        if st['verdict'] != 'accept':
            ctx.disagree('parallel-trace-accepted-by-transition-system', small, ' '.join(pipelib.event_tokens(res['events'])), mout[0][:300])
            return
        ctx.traces_validated += 1
        fi = res['final_info']
        if (int(st['processed']), int(st['yielded'])) != (fi['processed'], fi['yielded']):
            ctx.disagree('counters-equal-model', small, fi, dict(processed=st['processed'], yielded=st['yielded']))
    else:
        ctx.traces_validated += 1
        k = 0
        for tok, ml in zip(c01.serial_demands(case, res), mout):
            if tok == 'N' and k < len(res['reads']):
                ms = pipelib.parse_state('x ' + ml)
                r = res['reads'][k]
                if (int(ms['processed']), int(ms['yielded'])) != (r['processed'], r['yielded']):
                    ctx.disagree('serial-counters-equal-model', small, (r['processed'], r['yielded']), ml)
                    break
                k += 1


def check(ctx):
    triples = c01.execute(gen_cases(ctx))
    lines, spans = [], []
    for c, r, m in triples:
        spans.append(len(r['reads']))
        for rd in r['reads']:
            lines.append('pipe.info %d %d' % (rd['processed'], rd['yielded']))
    out = core.run_driver(lines) if lines else []
    pos = 0
    for (c, r, m), k in zip(triples, spans):
        with ctx.guard(c):
            judge(ctx, c, r, m, out[pos:pos + k])
        pos += k
    # single-element calls do not count
    from generatorpipeline import pipeline
    P = pipeline(0)(lambda x: x)
    for v in (1, 'a', [1, 2], None, range(3)):
        P(v)
    if (P.pipe_info().processed, P.pipe_info().yielded) != (0, 0):
        ctx.fail('element-calls-counted', 'single-element calls changed pipe_info to %s' % P.pipe_info(), dict(element_calls=True))
    wrapped_stage_cases(ctx)
    reentrant_cases(ctx)
    from harness.props import multistream
    multistream.run(ctx, ctx.scale(40, 400), {'counters'}, 'multi-C13', iters=True)


def _drop_odd(x):
    return None if x % 2 else x


def _wrapped(nw_base, nw_variant, n1, n2, when):
    """a stage that wraps another stage object (runs in its own process group)"""
    from generatorpipeline import pipeline
    info = lambda P: (P.pipe_info().processed, P.pipe_info().yielded)   # noqa
    base = pipeline(nw_base)(_drop_odd)
    early = pipeline(nw_variant)(base) if when == 'before' else None     # wrapped while the inner stage is still unused
    out1 = list(base(iter(range(n1))))
    variant = early if early is not None else pipeline(nw_variant)(base)
    res = dict(base_after_own=info(base), variant_fresh=info(variant), out1=out1)
    stream = variant(iter(range(n2)))
    held = []
    for v in stream:
        held.append((v, info(variant), info(base)))
    res.update(held=held, variant_end=info(variant), base_end=info(base))
    return res


WALK = None


def _weight(node):
    # a recursive tree walk: the function itself streams the children through the SAME stage
    if isinstance(node, int):
        return node
    return sum(WALK(iter(node)))


def _reentrant(trees):
    global WALK
    from generatorpipeline import pipeline
    WALK = pipeline(0)(_weight)
    held = []
    for v in WALK(iter(trees)):
        held.append((v, WALK.pipe_info().processed, WALK.pipe_info().yielded))
    return held


def _nodes(t):
    return 1 if isinstance(t, int) else 1 + sum(_nodes(c) for c in t)


def reentrant_cases(ctx):
    """the wrapped function may itself run streams of the same stage (in-process): every stream's elements are counted, the
    nested ones included, at every moment an output is held"""
    rng = ctx.rng
    for _ in range(ctx.scale(4, 20)):
        def tree(d):
            if d == 0 or rng.random() < 0.3:
                return rng.randint(1, 9)
            return [tree(d - 1) for _ in range(rng.randint(1, 3))]
        trees = [tree(3) for _ in range(rng.randint(1, 4))]
        case = dict(reentrant=True, trees=trees)
        ctx.case(('reentrant', str(trees)), any(isinstance(t, list) for t in trees), sample=case)
        ctx.count('reentrant_function')
        st, held = pipelib.isolated(_reentrant, (trees,), timeout=30)
        if st != 'ok':
            ctx.fail('wrapped-stage-fails', 'a stage whose function streams through the same stage: %s %s' % (st, str(held)[-300:]), case)
            continue
        done = 0
        for k, (v, p, y) in enumerate(held):
            done += _nodes(trees[k])            # every node of the trees handed out so far was one processed element of some stream
            if (p, y) != (done, done) or v != _weight_plain(trees[k]):
                ctx.fail('pipe-info-counts-wrong', 'holding output %d of a re-entrant walk: value %s, processed=%d yielded=%d, expected %s, %d/%d' % (
                    k + 1, v, p, y, _weight_plain(trees[k]), done, done), case)
                break


def _weight_plain(t):
    return t if isinstance(t, int) else sum(_weight_plain(c) for c in t)


def wrapped_stage_cases(ctx):
    """a stage is a stage: one built around another (already used) stage object starts at 0/0 and counts its own streams only;
    the inner stage sees single-element calls, which do not count"""
    rng = ctx.rng
    for _ in range(ctx.scale(8, 40)):
        nwb, nwv = rng.choice([0, 0, 2]), rng.choice([0, 0, 2])
        n1, n2 = rng.choice([1, 4, 7]), rng.choice([1, 3, 6])
        when = rng.choice(['after', 'after', 'before'])
        case = dict(wrapped_stage=True, nworkers_inner=nwb, nworkers_outer=nwv, n_inner_stream=n1, n_outer_stream=n2, wrapped=when)
        ctx.case(('wrapped', nwb, nwv, n1, n2, when), n1 >= 2 and when == 'after', sample=case)
        ctx.count('wrapped_stage')
        st, r = pipelib.isolated(_wrapped, (nwb, nwv, n1, n2, when), timeout=40)
        if st == 'timeout':
            st, r = pipelib.isolated(_wrapped, (nwb, nwv, n1, n2, when), timeout=40)
        if st != 'ok':
            ctx.fail('wrapped-stage-fails', 'a stage wrapped around a stage: %s %s' % (st, str(r)[-300:]), case)
            continue
        own = (n1, (n1 + 1) // 2)
        if r['base_after_own'] != own or r['out1'] != [x for x in range(n1) if x % 2 == 0]:
            ctx.fail('pipe-info-final-counts-wrong', 'inner stage after its own stream: %s, expected %s' % (r['base_after_own'], own), case)
            continue
        if r['variant_fresh'] != (0, 0):
            ctx.fail('new-stage-inherits-counts', 'a stage that has not seen any stream reports %s (it wraps a stage that had processed %s)' % (
                r['variant_fresh'], own), case)
            continue
        exp = [(x, (x + 1, x // 2 + 1), own) for x in range(n2) if x % 2 == 0]
        if r['held'] != exp or r['variant_end'] != (n2, (n2 + 1) // 2) or r['base_end'] != own:
            ctx.fail('wrapped-stage-counts-wrong', 'outer stage over %d elements: held %s end %s, inner stage %s; expected %s, %s, %s' % (
                n2, r['held'], r['variant_end'], r['base_end'], exp, (n2, (n2 + 1) // 2), own), case)


def replay(ctx, data):
    case = data['case']
    if case.get('element_calls'):
        check(ctx)
        return
    if case.get('wrapped_stage'):
        wrapped_stage_cases(ctx)
        return
    if case.get('reentrant'):
        reentrant_cases(ctx)
        return
    if 'streams' in case:
        from harness.props import multistream
        multistream.replay(ctx, case)
        return
    case['pre_model'] = tuple(case['pre_expected'])
    for c, r, m in c01.execute([case], workers=1):
        il = core.run_driver(['pipe.info %d %d' % (rd['processed'], rd['yielded']) for rd in r['reads']]) if r['reads'] else []
        with ctx.guard(c):
            judge(ctx, c, r, m, il)


if __name__ == '__main__':
    import sys
    core.main(sys.modules[__name__])
