"""C07 — P² invariants after every observation: sorted finite markers, exact extremes, integer ranks."""
from fractions import Fraction
import math
import numpy as np
from harness import core, p2lib

ID = 'C07'
MODULE = 'Gpv.Props.C07'
MODULES = ['Gpv.Props.C07', 'Gpv.Props.C07Float']
THEOREMS = core.theorems('C07', 'C07Float')
RULE = ('grid (linear 2-12 markers, arbitrary sorted grids, QuantileEstimator p incl. 0.01/0.99, median) x sequence family '
        '(uniform, heavily tied, constant, sorted, reversed, |x| to 1e300, integers, gaussian) x shape (scalar, 1-d, 2-d arrays); '
        'after EVERY observation the invariants are checked through the public read-outs (oracle) and the implementation state is '
        'compared in lock-step with the Lean model run at binary64 from the implementation\'s previous state (ranks exact, heights '
        'rtol 1e-9; a difference is counted as ambiguous, not reported, only when a decision of that step lies within 1e-9 of its '
        'threshold). non-trivial: at least one tie and at least one marker adjustment; distinct by (grid, sequence).')
PARTIAL = ['binary64: besides the theorems over exact ordered fields, the same invariants are proved for the UNCHANGED generic model '
           'instantiated at rounded arithmetic (C07Float.*, Proofs/Rounded.lean: every operation rounds its exact result by a monotone, '
           'idempotent, sign-symmetric fl with relative error u, (1+u)^2 <= 2, integers up to N exact; n <= N): heights sorted (non-strictly), '
           'first/last marker = exact min/max, heights within the data range, ranks integers strictly increasing 0..n-1. Overflow, '
           'subnormals, NaN/inf and -0.0 are outside that model (binary64 satisfies its laws for |x| in the normal range and n < 2^53: '
           'assumed, not proved about Lean Float); the read-outs (q_actual, interp) are proved over exact fields only; exercised by the lock-step run at Float']
ASSUMPTIONS = ['observations are finite and contain no -0.0 / NaN']


def probe_points(rng, lo, hi):
    span = hi - lo if hi > lo else 1.0
    if not math.isfinite(span):
        span = 1e300
    pts = [lo, hi, lo - 0.5 * span if math.isfinite(lo - 0.5 * span) else lo, (lo + hi) / 2]
    pts += [lo + span * rng.random() for _ in range(4)]
    return sorted(p for p in pts if math.isfinite(p))


def check_invariants(ctx, est, xs_comp, comp, ncomp, case, rng):
    """oracle on one component after an observation; returns False on failure"""
    m = len(est.q_desired)
    n = len(xs_comp)
    heights_all, qact_all = est.cdf
    H = np.asarray(heights_all, dtype=float).reshape(m, -1)[:, comp]
    if est.n != n:
        ctx.fail('p2-n-wrong', 'n = %r after %d observations' % (est.n, n), case)
        return False
    if n < m:
        got = [float(t) for t in H[:n]]
        if not all(p2lib.same_float(a, b) for a, b in zip(got, xs_comp)):
            ctx.fail('p2-fill-not-arrival-order', 'before the markers are full they must be the observations in arrival order: %s vs %s' % (
                got, xs_comp), case)
            return False
        return True
    h = [float(t) for t in H]
    if not all(math.isfinite(t) for t in h):
        ctx.fail('p2-marker-not-finite', 'marker values %s' % h, case)
        return False
    if any(a > b for a, b in zip(h, h[1:])):
        ctx.fail('p2-markers-not-sorted', 'marker values not non-decreasing after %d observations: %s' % (n, h), case)
        return False
    if h[0] != min(xs_comp) or h[-1] != max(xs_comp):
        ctx.fail('p2-extremes-not-exact', 'lowest/highest marker %r/%r but min/max seen %r/%r' % (h[0], h[-1], min(xs_comp), max(xs_comp)), case)
        return False
    if n == m and h != sorted(xs_comp):
        ctx.fail('p2-not-exact-at-m', 'with exactly m observations the markers must be the sorted observations', case)
        return False
    _, pos, _ = est._debug_info
    P = [float(t) for t in np.asarray(pos, dtype=float).reshape(m, -1)[:, comp]]
    if any(t != int(t) for t in P) or P[0] != 0 or P[-1] != n - 1 or any(a >= b for a, b in zip(P, P[1:])):
        ctx.fail('p2-ranks-invalid', 'ranks must be integers strictly increasing from 0 to n-1=%d: %s' % (n - 1, P), case)
        return False
    if n >= 2:
        qa = [float(t) for t in np.asarray(qact_all, dtype=float).reshape(m, -1)[:, comp]]
        if any(not (0.0 <= t <= 1.0) for t in qa) or any(a > b for a, b in zip(qa, qa[1:])):
            ctx.fail('p2-qactual-out-of-range', 'q_actual %s' % qa, case)
            return False
        if ncomp == 1 and np.asarray(heights_all).ndim == 1:
            pts = probe_points(rng, h[0], h[-1])
            cv = [float(est.cdf_interp(v)) for v in pts]
            if any(not (0.0 <= c <= 1.0) for c in cv) or any(a > b + 1e-15 for a, b in zip(cv, cv[1:])):
                ctx.fail('p2-cdf-interp-not-monotone-in-range', 'cdf_interp at %s gives %s' % (pts, cv), case)
                return False
            ps = [0.0, 0.1, 0.25, 0.5, 0.75, 0.9, 1.0]
            qv = [float(est.quantile_interp(p)) for p in ps]
            if any(not (h[0] <= v <= h[-1]) for v in qv) or any(a > b for a, b in zip(qv, qv[1:])):
                ctx.fail('p2-quantile-interp-out-of-range', 'quantile_interp at %s gives %s (range %r..%r)' % (ps, qv, h[0], h[-1]), case)
                return False
            ctx.count('interp_probes', len(pts) + len(ps))
    return True


def gen_case(rng, quick):
    spec = p2lib.gen_grid(rng)
    fam = rng.choice(p2lib.FAMILIES)
    n = rng.choice([3, 6, 12, 25, 60] if quick else [3, 6, 12, 25, 60, 150, 400])
    shape = rng.choice([(), (), (), (2,), (3,), (2, 2)])
    ncomp = int(np.prod(shape)) if shape else 1
    cols = [p2lib.gen_seq(rng, n, fam if c == 0 else rng.choice(p2lib.FAMILIES)) for c in range(ncomp)]
    case = dict(spec=spec, family=fam, n=n, shape=list(shape), cols=cols)
    if rng.random() < 0.25:
        # observations of different floating widths: the FIRST one narrow (float32 / float16), later ones mostly float64 with
        # values the narrow type cannot hold; a narrow observation's value is rounded to its type beforehand, so the model
        # and the oracle see exactly the number the estimator is given
        narrow = rng.choice(['float32', 'float32', 'float16'])
        dts = []
        for i in range(n):
            d = narrow if (i == 0 or rng.random() < 0.15) else 'float64'
            with np.errstate(over='ignore'):
                conv = [float(np.dtype(d).type(cols[c][i])) for c in range(ncomp)]
            if d != 'float64' and not all(np.isfinite(v) and (v != 0 or cols[c][i] == 0) for c, v in enumerate(conv)):
                d = 'float64'
                conv = [cols[c][i] for c in range(ncomp)]
            for c in range(ncomp):
                cols[c][i] = conv[c]
            dts.append(d)
        case['dtypes'] = dts
    case['roundtrip'] = p2lib.gen_roundtrips(rng, n)
    case['rejects'] = p2lib.gen_rejects(rng, n)
    if shape and rng.random() < 0.3:
        case['as_lists'] = True
    return case


def run_case(ctx, case, rng, lines, posts):
    est = p2lib.make(case['spec'])
    msg = p2lib.grid_complaint(est, case['spec'])
    if msg:
        ctx.fail('p2-grid-aliases-caller', msg, small(case))
        return False, False
    q = [float(t) for t in est.q_desired]
    shape = tuple(case['shape'])
    ncomp = len(case['cols'])
    n = case['n']
    ok = True
    adjusted = False
    trips = {}
    for i, kind in case.get('roundtrip') or []:
        trips.setdefault(i, []).append(kind)
    rejects = {}
    for i, kind in case.get('rejects') or []:
        rejects.setdefault(i, []).append(kind)
    for i in range(n):
        for kind in trips.get(i, []):
            est = p2lib.roundtrip(est, kind)
        for kind in rejects.get(i, []):
            msg = p2lib.offer_rejected(est, kind, shape)
            if msg == 'accepted':
                return True, adjusted          # not a rejection for this shape: drop the rest of the case
            if msg:
                ctx.fail('p2-rejected-observation-changes-state', msg + ' (before observation %d)' % i, small(case))
                return False, adjusted
        pre = [p2lib.state(est, c if shape else None) for c in range(ncomp)]
        obs = [case['cols'][c][i] for c in range(ncomp)]
        dt = (case.get('dtypes') or ['float64'] * n)[i]
        if shape:
            x = np.array(obs, dtype=dt).reshape(shape)
            if case.get('as_lists') and dt == 'float64':
                x = x.tolist()          # the same vector / frame spelled as a (nested) Python list: one observation, like a tuple or an array
        else:
            x = obs[0] if dt == 'float64' else np.dtype(dt).type(obs[0])
        try:
            est.accumulate(x)
        except Exception as e:  # noqa
            ctx.fail('p2-raises', 'accumulate raised %r at observation %d' % (e, i), small(case))
            return False, adjusted
        for c in range(ncomp):
            post = p2lib.state(est, c if shape else None)
            lines.append(p2lib.step_line(q, pre[c], obs[c]))
            posts.append((case, i, c, pre[c], obs[c], post, q))
            if len(pre[c][1]) == len(q) and any(a != b for a, b in zip(pre[c][1][1:-1], post[1][1:-1])):
                adjusted = True
            if ok:
                ok = check_invariants(ctx, est, case['cols'][c][:i + 1], c, ncomp, small(case), rng)
    return ok, adjusted


def small(case):
    return dict(spec=case['spec'], family=case['family'], n=case['n'], shape=case['shape'], dtypes=case.get('dtypes'), roundtrip=case.get('roundtrip'), rejects=case.get('rejects'), as_lists=case.get('as_lists'),
                cols=[c if len(c) <= 40 else c[:40] + ['...(%d more; regenerate with the seed)' % (len(c) - 40)] for c in case['cols']])


def compare_lockstep(ctx, lines, posts):
    mout = core.run_driver(lines)
    if len(mout) != len(posts):
        raise core.InfraError('driver returned %d lines for %d steps' % (len(mout), len(posts)))
    redo = []
    for (case, i, c, pre, x, post, q), ml in zip(posts, mout):
        n, h, pos = p2lib.parse_state(ml)
        ctx.count('lockstep_steps')
        same_ranks = len(pos) == len(post[2]) and all(a == b for a, b in zip(pos, post[2]))
        same_h = len(h) == len(post[1]) and all(p2lib.close_rel(a, b) for a, b in zip(h, post[1]))
        if n == post[0] and same_ranks and same_h:
            if not all(p2lib.same_float(a, b) for a, b in zip(h, post[1])):
                ctx.count('lockstep_not_bit_identical')
            continue
        redo.append((case, i, c, pre, x, post, q, ml))
    for (case, i, c, pre, x, post, q, ml) in redo:
        # a decision of this step within rounding distance of its threshold may legitimately fall either way
        n_, h_, pos_ = p2lib.parse_state(ml)
        ranks_differ = not (len(pos_) == len(post[2]) and all(a == b for a, b in zip(pos_, post[2])))
        if len(pre[1]) == len(q) and p2lib.excusable(ranks_differ, pre, q, x):
            ctx.count('lockstep_ambiguous_under_rounding')
        else:
            ctx.disagree('p2-lockstep-model-correspondence', small(case), dict(step=i, comp=c, pre=pre, x=x, post=post),
                         dict(float_model=ml))


def acc_frac(t):
    fr = Fraction(float(t))
    return str(fr.numerator) if fr.denominator == 1 else '%d/%d' % (fr.numerator, fr.denominator)


def long_stream(ctx, lines, posts):
    """one long stream: ranks must stay exact integers far beyond the sizes of the other cases (2^15, 2^16, 2^17 …)"""
    rng = ctx.rng
    n = ctx.scale(40000, 140000)
    spec = rng.choice([['median'], ['quantile', 0.9], ['cdf', 5]])
    est = p2lib.make(spec)
    q = [float(t) for t in est.q_desired]
    m = len(q)
    case = dict(spec=spec, family='long', n=n, shape=[], cols=[['uniform(0,1) stream of %d observations from the run\'s seed' % n]])
    lo, hi = float('inf'), float('-inf')
    watch = {2 ** k + d for k in (15, 16, 17) for d in (-2, -1, 0, 1, 2)}
    for i in range(n):
        x = rng.random()
        lo, hi = min(lo, x), max(hi, x)
        lock = (i + 1) in watch or i % 997 == 0
        pre = p2lib.state(est) if lock else None
        est.accumulate(x)
        if i + 1 < m:
            continue
        _, pos, h = est._debug_info
        P = [float(t) for t in pos]
        H = [float(t) for t in h]
        if P[0] != 0 or P[-1] != i or any(a >= b for a, b in zip(P, P[1:])) or any(t != int(t) for t in P):
            ctx.fail('p2-ranks-invalid', 'after %d observations the ranks are %s (must be integers strictly increasing from 0 to %d)' % (i + 1, P, i), case)
            return
        if H[0] != lo or H[-1] != hi or any(a > b for a, b in zip(H, H[1:])):
            ctx.fail('p2-markers-not-sorted', 'after %d observations: markers %s, observed range [%r, %r]' % (i + 1, H, lo, hi), case)
            return
        if lock:
            lines.append(p2lib.step_line(q, pre, x))
            posts.append((case, i, 0, pre, x, p2lib.state(est), q))
    ctx.case(('long', spec, n), True, sample=dict(spec=spec, n=n))
    ctx.count('long_stream_observations', n)


def reinit_cases(ctx):
    """an estimator whose constructor is called again is a new estimator: after a second run it is in the state of a fresh one fed that run"""
    rng = ctx.rng
    for _ in range(ctx.scale(12, 80)):
        spec = p2lib.gen_grid(rng)
        shape = rng.choice([(), (), (2,)])
        k = int(np.prod(shape)) if shape else 1
        mk = lambda vals: (np.array(vals, dtype=float).reshape(shape) if shape else vals[0])     # noqa
        run1 = [[rng.gauss(50, 9) for _ in range(k)] for _ in range(rng.choice([3, 12, 40]))]
        run2 = [[rng.gauss(0, 1) for _ in range(k)] for _ in range(rng.choice([1, 4, 9, 25]))]
        used = p2lib.make(spec)
        for v in run1:
            used.accumulate(mk(v))
        p2lib.reinit(used, spec)
        fresh = p2lib.make(spec)
        case = dict(spec=spec, shape=list(shape), reinitialised_after=len(run1), second_run=len(run2))
        ctx.case(('reinit', str(spec), len(run1), len(run2), shape), len(run2) >= len(fresh.q_desired), sample=case)
        ctx.count('reinitialised_estimators')
        bad = None
        for i, v in enumerate(run2):
            used.accumulate(mk(v))
            fresh.accumulate(mk(v))
            a = [p2lib.state(used, c if shape else None) for c in range(k)]
            b = [p2lib.state(fresh, c if shape else None) for c in range(k)]
            if repr(a) != repr(b):
                bad = 'after observation %d of the second run the re-initialised estimator is in state %s, a fresh one in %s' % (i + 1, a[0], b[0])
                break
        if bad:
            ctx.fail('p2-reinitialised-estimator-keeps-state', bad, case)


def check(ctx):
    reinit_cases(ctx)
    from harness import formulas
    formulas.check_formulas(ctx, ['CDFEstimator._linear', 'CDFEstimator._parabolic'])
    rng = ctx.rng
    lines, posts = [], []
    ncases = ctx.scale(220, 2500)
    for k in range(ncases):
        case = gen_case(rng, ctx.quick)
        if k < (3 if ctx.quick else 8):
            # an estimator that is saved early (check-pointed during or just after its warm-up) and then carries on for hundreds of
            # observations: what was restored is an estimator like any other
            n = rng.choice([140, 300]) if (ctx.quick or k < 7) else 33000
            shape = rng.choice([(), (2,)])
            ncomp = int(np.prod(shape)) if shape else 1
            fam = rng.choice(p2lib.FAMILIES)
            case = dict(spec=p2lib.gen_grid(rng), family=fam, n=n, shape=list(shape),
                        cols=[p2lib.gen_seq(rng, n, fam) for _ in range(ncomp)],
                        roundtrip=[[rng.choice([1, 2, 4, 9, 30, 100]), rng.choice(['pickle', 'dill', 'deepcopy', 'copy'])]], rejects=[])
            ctx.count('saved_early_then_long')
        ok, adjusted = run_case(ctx, case, rng, lines, posts)
        tied = any(len(set(c)) < len(c) for c in case['cols'])
        ctx.case((case['spec'], case['cols']), tied and adjusted, sample=small(case) if case['n'] <= 12 else None)
        ctx.count('family:' + case['family'])
        ctx.count('grid:' + case['spec'][0])
        ctx.count('shape:%s' % (case['shape'],))
        if len(lines) > 60000:
            compare_lockstep(ctx, lines, posts)
            lines, posts = [], []
    long_stream(ctx, lines, posts)
    compare_lockstep(ctx, lines, posts)


def replay(ctx, data):
    case = data['case']
    if 'reinitialised_after' in case:
        reinit_cases(ctx)
        return
    if any(isinstance(t, str) for c in case['cols'] for t in c):
        check(ctx)       # the sequence was cut short in the file: regenerate everything under the recorded seed and tier
        return
    lines, posts = [], []
    run_case(ctx, case, ctx.rng, lines, posts)
    compare_lockstep(ctx, lines, posts)
    ctx.case(('replay', case['spec']), True, sample=small(case))


if __name__ == '__main__':
    import sys
    core.main(sys.modules[__name__])
