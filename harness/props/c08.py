"""C08 — the P² estimator computes the published algorithm for any p / grid; convergence probe."""
from fractions import Fraction
import math
import numpy as np
from harness import core, p2lib
from harness.props import c07

ID = 'C08'
MODULE = 'Gpv.Props.C08'
THEOREMS = core.theorems('C08') + ['Gpv.C07.exact_at_m', 'Gpv.C07.inv_run']
MODULES = ['Gpv.Props.C08', 'Gpv.Props.C07']
RULE = ('grid x p x sequence family as in C07 (scalars); after every observation the implementation state (_debug_info) is compared '
        'with an independent scalar implementation written from Box 1 of the paper (1-based positions, if/else, tie convention of the '
        'property), ranks exactly and heights rtol 1e-9; a rank difference is re-decided with the paper implementation in exact '
        'rationals from the implementation\'s previous state. The marker grid of QuantileEstimator(p) is compared with the model\'s '
        'quantileGrid bit for bit; lock-step with the Lean model as in C07. non-trivial: p != 0.5 or a non-default grid, with at least '
        'one adjustment of an outer inner marker to the left; distinct by (grid, sequence).')
PARTIAL = ['convergence ("after a few thousand observations the mass below the estimate differs from p by < 0.08") is an empirical claim '
           'with no known proof: run as a seeded statistical test (convergence_probe), reported as a test']
ASSUMPTIONS = ['observations are finite']


def paper_compare(ctx, case, xs, spec, cols=None):
    """cols: when given, the observations are arrays whose components are cols[c][i]; component 0 is xs"""
    est = p2lib.make(spec)
    p = [float(t) for t in est.q_desired]
    m = len(p)
    left_outer = False
    ncomp = len(cols) if cols else 1
    trips = {}
    for i, kind in case.get('roundtrip') or []:
        trips.setdefault(i, []).append(kind)
    rejects = {}
    for i, kind in case.get('rejects') or []:
        rejects.setdefault(i, []).append(kind)
    for i in range(len(xs)):
        for kind in trips.get(i, []):
            est = p2lib.roundtrip(est, kind)
        for kind in rejects.get(i, []):
            msg = p2lib.offer_rejected(est, kind, (len(cols),) if cols else ())
            if msg == 'accepted':
                return left_outer
            if msg:
                ctx.fail('p2-rejected-observation-changes-state', msg + ' (before observation %d)' % i, case)
                return left_outer
        pres = [p2lib.state(est, c if cols else None) for c in range(ncomp)]
        obs_i = np.array([cols[c][i] for c in range(ncomp)], dtype=float) if cols else xs[i]
        if cols and case.get('as_lists'):
            obs_i = obs_i.tolist()          # the same vector spelled as a Python list
        est.accumulate(obs_i)
        for c in range(ncomp):
            x = cols[c][i] if cols else xs[i]
            r = _paper_one(ctx, case, p, m, pres[c], p2lib.state(est, c if cols else None), x, i, (cols[c] if cols else xs)[:m])
            if r is None:
                return left_outer
            left_outer = left_outer or r
    return left_outer


def _paper_one(ctx, case, p, m, pre, post, x, i, first):
    if True:
        left_outer = False
        n, h, pos = post
        if n < m:
            return False
        if n == m:
            st = p2lib.paper_init(p, first)
        else:
            # lock-step: advance the paper implementation from the implementation's previous state
            prev = dict(p=p, N=pre[0], q=list(pre[1]), n=[int(t) + 1 for t in pre[2]])
            st = p2lib.paper_step(prev, x)
            if m >= 3 and pos[1] < pre[2][1] or (m >= 4 and pos[m - 2] < pre[2][m - 2]):
                left_outer = True
        ranks_ok = [int(t) + 1 for t in pos] == st['n']
        h_ok = all(p2lib.close_rel(a, b) for a, b in zip(h, st['q']))
        ctx.count('paper_steps')
        if ranks_ok and h_ok:
            return left_outer
        if n > m:
            # is some decision of this step within rounding distance of its threshold?
            if p2lib.excusable(not ranks_ok, pre, p, x):
                ctx.count('paper_ambiguous_under_rounding')
                return left_outer
        ctx.fail('p2-differs-from-paper', 'after observation %d: implementation ranks %s heights %s, paper algorithm ranks %s heights %s' % (
            i, [int(t) + 1 for t in pos], h, st['n'], st['q']), case)
        return None


def grid_cases(ctx):
    lines, ps = [], []
    for _ in range(ctx.scale(40, 300)):
        p = ctx.rng.choice([0.01, 0.05, 0.1, 0.25, 1 / 3, 0.5, 0.75, 0.9, 0.99, ctx.rng.random()])
        if not 0 < p < 1:
            continue
        ps.append(p)
        lines.append('p2f.qgrid ' + p2lib.hexf(p))
    out = core.run_driver(lines)
    import generatorpipeline.accumulators as A
    for p, ml in zip(ps, out):
        mg = [p2lib.unhex(t) for t in ml.split()]
        ig = [float(t) for t in A.QuantileEstimator(p).q_desired]
        want = [0.0, p / 2, p, (1 + p) / 2, 1.0]
        ctx.case(('qgrid', p), p != 0.5)
        ctx.count('qgrid_cases')
        if not all(p2lib.close_rel(a, b, 1e-12) for a, b in zip(ig, want)) or len(ig) != 5:
            ctx.fail('quantile-grid-wrong', 'QuantileEstimator(%r) uses markers %s, the paper prescribes %s' % (p, ig, want), dict(p=p))
        if not all(p2lib.close_rel(a, b, 1e-12) for a, b in zip(ig, mg)):
            ctx.disagree('quantile-grid-equals-model', dict(p=p), ig, mg)
        est = A.QuantileEstimator(p)
        xs = [ctx.rng.gauss(0, 1) for _ in range(5)]
        for x in xs:
            est += x
        if float(est.value) != sorted(xs)[2]:
            ctx.fail('quantile-not-exact-order-statistic', 'with 5 observations the estimate must be the middle order statistic', dict(p=p, xs=xs))


def convergence_probe(ctx):
    """TEST (not proof)."""
    import generatorpipeline.accumulators as A
    from statistics import NormalDist
    rng = ctx.rng
    n = ctx.scale(3000, 8000)
    worst = 0.0
    dists = {
        'uniform': (lambda: rng.random(), lambda v: min(max(v, 0.0), 1.0)),
        'normal': (lambda: rng.gauss(0, 1), lambda v: NormalDist().cdf(v)),
        'exponential': (lambda: rng.expovariate(1.0), lambda v: 1 - math.exp(-max(v, 0.0))),
        'bimodal': (lambda: rng.gauss(-3, 1) if rng.random() < 0.5 else rng.gauss(3, 1),
                    lambda v: 0.5 * NormalDist(-3, 1).cdf(v) + 0.5 * NormalDist(3, 1).cdf(v)),
    }
    ps = [0.01, 0.1, 0.25, 0.5, 0.75, 0.9, 0.99] if ctx.quick else [0.01, 0.05, 0.1, 0.25, 0.4, 0.5, 0.6, 0.75, 0.9, 0.95, 0.99]
    for name, (draw, cdf) in dists.items():
        xs = [draw() for _ in range(n)]
        for p in ps:
            est = A.QuantileEstimator(p)
            for x in xs:
                est += x
            err = abs(cdf(float(est.value)) - p)
            worst = max(worst, err)
            ctx.count('convergence_cases')
            if err >= 0.08:
                ctx.fail('quantile-does-not-converge', '%s, p=%g: mass below the estimate after %d observations differs from p by %.3f' % (
                    name, p, n, err), dict(probe='convergence', dist=name, p=p, n=n))
        for k in ([5, 9] if ctx.quick else [3, 5, 9, 17]):
            est = A.CDFEstimator(k)
            for x in xs:
                est += x
            heights, qa = est.cdf
            for j in range(1, k - 1):
                err = abs(cdf(float(heights[j])) - j / (k - 1))
                worst = max(worst, err)
                ctx.count('convergence_cases')
                if err >= 0.08:
                    ctx.fail('cdf-marker-does-not-converge', '%s, CDFEstimator(%d) marker %d: off by %.3f after %d observations' % (
                        name, k, j, err, n), dict(probe='convergence', dist=name, k=k, j=j, n=n))
    ctx.extra['convergence_probe (test)'] = dict(observations=n, worst_abs_error=round(worst, 4), bound=0.08)


def interleaved_estimators_case(ctx):
    """several estimators alive at once, with different grids, fed in lock step (one per detector channel): each is what it would be alone"""
    rng = ctx.rng
    for trial in range(3):
        specs = [p2lib.gen_grid(rng) for _ in range(rng.choice([2, 3]))]
        if len({repr(sp) for sp in specs}) < 2:
            specs[0] = ['quantile', 0.1]
            specs[-1] = ['quantile', 0.9]
        n = rng.choice([12, 30, 60])
        xs = p2lib.gen_seq(rng, n, rng.choice(['uniform', 'gauss', 'tied', 'ints']))
        alone = []
        for sp in specs:
            e = p2lib.make(sp)
            for x in xs:
                e.accumulate(x)
            alone.append(p2lib.state(e))
        live = [p2lib.make(sp) for sp in specs]
        for x in xs:
            for e in live:
                e.accumulate(x)
        case = dict(interleaved_estimators=True, specs=specs, n=n, family='lock step', values=xs if n <= 12 else None)
        ctx.case(('interleaved-estimators', repr(specs), tuple(xs)), True, sample=case)
        ctx.count('interleaved_estimators')
        for sp, e, want in zip(specs, live, alone):
            got = p2lib.state(e)
            if got[0] != want[0] or got[2] != want[2] or not all(p2lib.same_float(a, b) for a, b in zip(got[1], want[1])):
                ctx.fail('p2-estimators-share-state', 'estimator %s fed in lock step with %d others ends as %s; fed alone it ends as %s' % (
                    sp, len(specs) - 1, (got[0], got[1][:6], got[2][:6]), (want[0], want[1][:6], want[2][:6])), case)
                break


def check(ctx):
    interleaved_estimators_case(ctx)
    from harness import formulas
    formulas.check_formulas(ctx, ['CDFEstimator._linear', 'CDFEstimator._parabolic', 'QuantileEstimator.grid'])
    rng = ctx.rng
    lines, posts = [], []
    for k in range(ctx.scale(200, 2000)):
        spec = p2lib.gen_grid(rng)
        fam = rng.choice(p2lib.FAMILIES)
        n = rng.choice([6, 12, 25, 60, 120] if ctx.quick else [6, 12, 25, 60, 150, 400, 1000])
        xs = p2lib.gen_seq(rng, n, fam)
        trips = p2lib.gen_roundtrips(rng, n)
        rej = p2lib.gen_rejects(rng, n)
        case = dict(spec=spec, family=fam, n=n, shape=[], cols=[xs], roundtrip=trips, rejects=rej)
        sm = c07.small(case)
        cols = None
        if rng.random() < 0.3:
            cols = [xs] + [p2lib.gen_seq(rng, n, rng.choice(p2lib.FAMILIES)) for _ in range(rng.choice([1, 2]))]
            case = dict(spec=spec, family=fam, n=n, shape=[len(cols)], cols=cols, roundtrip=trips, rejects=rej, as_lists=rng.random() < 0.4)
            sm = c07.small(case)
            ctx.count('array_observations')
        left = paper_compare(ctx, sm, xs, spec, cols)
        nondefault = not (spec[0] == 'median' or (spec[0] == 'quantile' and spec[1] == 0.5))
        ctx.case((spec, xs), nondefault and left, sample=sm if n <= 12 else None)
        ctx.count('family:' + fam)
        ctx.count('grid:' + spec[0])
        # lock-step with the Lean model (same machinery as C07)
        c07.run_case(ctx, case, rng, lines, posts)
    c07.long_stream(ctx, lines, posts)      # ranks beyond 2^15 / 2^16 / 2^17, lock-step at those points
    c07.compare_lockstep(ctx, lines, posts)
    grid_cases(ctx)
    convergence_probe(ctx)


def replay(ctx, data):
    case = data['case']
    if case.get('interleaved_estimators'):
        interleaved_estimators_case(ctx)
        return
    if case.get('probe') == 'convergence':
        convergence_probe(ctx)
        return
    if 'p' in case and 'spec' not in case:
        grid_cases(ctx)
        return
    if any(isinstance(t, str) for t in case['cols'][0]):
        check(ctx)       # the sequence was cut short in the file: regenerate everything under the recorded seed and tier
        return
    paper_compare(ctx, case, case['cols'][0], case['spec'])
    ctx.case(('replay', case['spec']), True, sample=case)


if __name__ == '__main__':
    import sys
    core.main(sys.modules[__name__])
