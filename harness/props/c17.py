"""C17 — running accumulators are exponential averages: plain mean in warm-up, then decay."""
from fractions import Fraction
import itertools
import numpy as np
from harness import core, acclib
from harness.props import c05

ID = 'C17'
MODULE = 'Gpv.Props.C17'
MODULES = ['Gpv.Props.C17', 'Gpv.Props.C17Float', 'Gpv.Props.C17FloatVar', 'Gpv.Props.C17FloatCov', 'Gpv.Props.C05FloatMatrix']
THEOREMS = core.theorems('C17', 'C17Float', 'C17FloatVar', 'C17FloatCov', 'C05FloatMatrix')
RULE = ('RunningMean / RunningVariance / RunningCovariance with lifetimes 1-50 (integers and non-integers >= 1), sequences below, at '
        'and above the lifetime, scalars and arrays, lifetime changed mid-stream; read after every push; model in exact rationals vs '
        'float implementation (rtol 1e-9); oracle: explicit weights (1/n in warm-up, then 1/L, decaying by 1-1/L, first L sharing one '
        'weight), value between min and max, constant reproduced, Running* = plain Variance/Covariance while n <= lifetime. '
        'non-trivial: n > lifetime >= 2 with non-constant data; distinct by (kind, lifetime, data).')
PARTIAL = ['floating-point behaviour of the RUNNING MEAN: proved in the standard rounding model with the step weights taken as given numbers in [0,1] '
           '(C17Float.rmean_float_bounded: |acc| <= M*amin/(amin-4u) for ever, i.e. independent of n; rmean_float_error(_const/_model): the distance to the '
           'exact recursion stays below 4*u*l*M/(1-4*u*l), the initial error is forgotten geometrically; rmean_float_warmup: 3*(n+1)*u*M during warm-up; '
           'rmean_float_stationary: a bound independent of the weight is false). The RUNNING VARIANCE likewise (C17FloatVar.rvar_float_error_model: for |x| <= M and 8*l*u <= 1 every '
           'float run stays within 8*l*u*M of the exact mean and 244*l*u*M^2 of the exact running variance — independent of the number of observations; '
           '_tight, _warmup, _bounded_model, _value_error for the n/(n-1) read-out). One entry of the RUNNING COVARIANCE too (C17FloatCov.rcov_float_error_model: same constants, '
           '244*l*u*M^2, independent of n; rcov_diag_strict: it does not literally reduce to the variance on the diagonal). The rounding of the weights themselves '
           '(1/lifetime, 1/n) is not covered: tested against the exact model with a tolerance']
ASSUMPTIONS = ['numpy element-wise arithmetic']


def weights(L, n):
    a = Fraction(1, L)
    if n <= L:
        return [Fraction(1, n)] * n
    return [((1 - a) ** (n - L)) / L if i < L else a * (1 - a) ** (n - 1 - i) for i in range(n)]


def oracle(ctx, kind, L, vals, reads, case, scale):
    """reads[i] = implementation read-out after i+1 observations (no lifetime change in this case)"""
    cols = [acclib.flat(v)[1] for v in vals]
    d = len(cols[0])
    for i, r in enumerate(reads):
        n = i + 1
        if isinstance(r, str):
            ctx.fail('running-raises:%s' % kind, 'accumulating raised %s' % r, case)
            return
        if r['n'] != (True, [float(n)], []):
            ctx.fail('running-n-wrong', 'n = %s after %d observations' % (r['n'], n), case)
            return
        if kind == 'rmean':
            got = r['value'][1]
            if isinstance(L, int):
                w = weights(L, n)
                if sum(w) != 1 or any(x < 0 for x in w):
                    raise core.InfraError('weight oracle broken')
                exp = [sum(w[k] * cols[k][j] for k in range(n)) for j in range(d)]
                if not all(acclib.close_num(g, e, scale) for g, e in zip(got, exp)):
                    ctx.fail('running-mean-weights-wrong', 'RunningMean(lifetime=%s) after %d observations reports %s, the weighted average '
                             'with the stated weights is %s' % (L, n, got[:4], [acclib.show(e) for e in exp[:4]]), case)
                    return
            lo = [min(c[j] for c in cols[:n]) for j in range(d)]
            hi = [max(c[j] for c in cols[:n]) for j in range(d)]
            eps = Fraction(1, 10 ** 9) * scale
            if any(not np.isfinite(g) or Fraction(g) < l - eps or Fraction(g) > h + eps for g, l, h in zip(got, lo, hi)):
                ctx.fail('running-mean-outside-data-range', 'value %s outside [%s, %s]' % (got[:4], lo[:4], hi[:4]), case)
                return
        elif n <= L:
            plain = c05.batch_oracle('var' if kind == 'rvar' else 'cov', vals[:n])
            for k in ('rms', 'mean', 'value'):
                if k not in plain:
                    continue
                g = r.get(k)
                if isinstance(g, str) or len(g[1]) != len(plain[k]) or not all(acclib.close_num(a, b, scale) for a, b in zip(g[1], plain[k])):
                    ctx.fail('running-differs-from-plain-in-warmup:%s' % kind,
                             '%s.%s during warm-up (n=%d <= lifetime=%s) is %s, plain statistic %s' % (
                                 acclib.KINDS[kind], k, n, L, g if isinstance(g, str) else g[1][:4], [float(b) for b in plain[k][:4]]), case)
                    return


def default_instances_case(ctx):
    """accumulators made without arguments are independent objects: configuring one does not reconfigure the others"""
    A = acclib.accmod()
    for cls_name in ('RunningMean', 'RunningVariance'):
        cls = getattr(A, cls_name)
        a, b, c = cls(), cls(), cls()
        b.lifetime = 3
        c.lifetime = 250
        case = dict(default_constructed=cls_name, others_set_to=[3, 250])
        ctx.case(('default-instances', cls_name), True, sample=case)
        ctx.count('default_instances')
        ref = cls(lifetime=10)
        xs = [float((7 * i) % 11) for i in range(25)]
        bad = None
        for i, x in enumerate(xs):
            a.accumulate(x)
            ref.accumulate(x)
            va = a.value if cls_name == 'RunningMean' else a.rms
            vr = ref.value if cls_name == 'RunningMean' else ref.rms
            if abs(a.lifetime - 10) > 1e-9 or abs(float(va) - float(vr)) > 1e-12 * max(1.0, abs(float(vr))):
                bad = 'after %d observations a default-constructed %s reports %r (lifetime %r); one made with lifetime=10 reports %r' % (
                    i + 1, cls_name, float(va), a.lifetime, float(vr))
                break
        if bad:
            ctx.fail('running-instances-share-configuration', bad, case)


def process_history_case(ctx):
    """what an accumulator computes depends on ITS lifetime, not on which lifetimes other accumulators in the process were given before
    (equal numbers of another type: float32(10), float16(2.5), Fraction(7), 10)"""
    import fractions
    A = acclib.accmod()
    for other, mine in [(np.float32(10), 10.0), (np.float16(4), 4.0), (fractions.Fraction(7), 7.0), (np.float32(3), 3.0)]:
        for cls_name in ('RunningMean', 'RunningVariance'):
            cls = getattr(A, cls_name)
            try:
                o = cls(lifetime=other)
                o.accumulate(1.0)
                o.accumulate(2.0)
            except Exception:  # noqa
                pass                      # (whether such a lifetime is usable is not the point here)
            a = cls(lifetime=mine)
            case = dict(process_history=True, cls=cls_name, an_earlier_accumulator_had_lifetime=repr(other), lifetime=mine)
            ctx.case(('process-history', cls_name, repr(other), mine), True, sample=case)
            ctx.count('process_history')
            xs = [0.1 * ((7 * i) % 11) + 1e-3 * i for i in range(3 * int(mine) + 6)]
            for x in xs:
                a.accumulate(x)
            if cls_name == 'RunningMean':
                w = weights(int(mine), len(xs))
                want = float(sum(wi * Fraction(x) for wi, x in zip(w, xs)))
                got = a.value
            else:
                ref = cls(lifetime=int(mine))
                for x in xs:
                    ref.accumulate(x)
                want, got = float(ref.rms), a.rms
            bad = None
            if type(got) not in (float, np.float64) and not (isinstance(got, np.ndarray) and got.dtype == np.float64):
                bad = 'the read-out is a %s (%r)' % (type(got).__name__, got)
            elif abs(float(got) - want) > 1e-12 * max(1.0, abs(want)):
                bad = 'the read-out is %r, the weights of lifetime %r give %r' % (float(got), mine, want)
            if bad:
                ctx.fail('running-depends-on-process-history', '%s(lifetime=%r) after an earlier %s(lifetime=%r) in the same process: %s' % (
                    cls_name, mine, cls_name, other, bad), case)


def extreme_frame_case(ctx):
    """finite frames whose SUM is not finite (alternating ±1.5e308 over 16 pixels): every element is a finite number, the running mean of a
    constant stream of them is that frame, and each of them counts"""
    A = acclib.accmod()
    for lifetime in (1, 4):
        frame = np.array([1.5e308 if i % 2 == 0 else -1.5e308 for i in range(16)])
        case = dict(extreme_frames=True, lifetime=lifetime, frame='16 pixels alternating +1.5e308 / -1.5e308', n=6)
        ctx.case(('extreme-frames', lifetime), True, sample=case)
        ctx.count('extreme_frames')
        a = A.RunningMean(lifetime=lifetime)
        try:
            with np.errstate(all='ignore'):
                for _ in range(6):
                    a.accumulate(frame.copy())
            v, n = np.asarray(a.value, dtype=float), a.n
            ok = n == 6 and v.shape == frame.shape and bool(np.all(np.abs(v - frame) <= 1e-9 * np.abs(frame)))
            why = 'n=%s, value[:2]=%s' % (n, v.ravel()[:2].tolist())
        except Exception as e:  # noqa
            ok, why = False, 'raised %r' % (e,)
        if not ok:
            ctx.fail('running-constant-not-reproduced', 'RunningMean(lifetime=%d) over a constant stream of a finite frame with huge alternating values: %s' % (lifetime, why), case)


def check(ctx):
    default_instances_case(ctx)
    process_history_case(ctx)
    extreme_frame_case(ctx)
    from harness import formulas
    formulas.check_formulas(ctx, ['RunningMean._accumulate_obj'])
    rng = ctx.rng
    cases = []
    for _ in range(ctx.scale(260, 3000)):
        kind = rng.choice(['rmean', 'rmean', 'rvar', 'rcov'])
        L = rng.choice([1, 2, 3, 5, 8, 10, 20, 50, 2.5, 1.0, 7.25])
        n = rng.choice([1, 2, 3, 5, 9, 12, 25, 60])
        shape = rng.choice([(), (), (2,), (3,)]) if kind != 'rcov' else rng.choice([(2,), (3,)])
        fam = rng.choice(['int', 'dyadic', 'tied', 'const', 'mixed', 'narrowint', 'offset'] + (['nearmax'] if kind == 'rmean' else []))
        if fam == 'const':
            c = rng.randint(-9, 9) / 2
            vals = [c if shape == () else {'arr': (np.ones(shape) * c).tolist(), 'dtype': 'float64'} for _ in range(n)]
        else:
            vals = c05.gen_values(rng, n, shape, fam)
        change = None
        if rng.random() < 0.25 and n >= 3:
            change = (rng.randint(1, n - 1), rng.choice([1, 2, 4, 16, 3.5]))
        cases.append(dict(kind=kind, L=L, values=vals, change=change, family=fam))
    lines, spans, progs = [], [], []
    for c in cases:
        prog = [['new', 'a', c['kind'], c['L']]]
        for i, v in enumerate(c['values']):
            if c['change'] and c['change'][0] == i:
                prog.append(['lifetime', 'a', c['change'][1]])
            prog.append(['push', 'a', v])
            prog.append(['read', 'a'])
        # a refused merge must leave the accumulator as it is
        prog += [['new', 'b', c['kind'], c['L']], ['merge', 'a', 'b'], ['read', 'a']]
        c['history_ops'] = acclib.gen_history_ops(rng, prog)
        progs.append(prog)
        lines += acclib.model_lines(prog)
        spans.append(acclib.n_outputs(prog))
    mout = core.run_driver(lines)
    if len(mout) != sum(spans):
        raise core.InfraError('driver produced %d lines, expected %d' % (len(mout), sum(spans)))
    pos = 0
    for c, prog, k in zip(cases, progs, spans):
        model = acclib.parse_model(mout[pos:pos + k])
        pos += k
        impl, regs = acclib.run_impl(acclib.apply_history_ops(prog, c.get('history_ops')))
        flatvals = [acclib.flat(v)[1] for v in c['values']]
        mx = max([abs(x) for col in flatvals for x in col] + [Fraction(1)])
        scale = mx * mx if c['kind'] != 'rmean' else mx
        if c['family'] == 'offset':
            scale = c05.spread_scale(c['kind'], flatvals, scale)
        n = len(c['values'])
        Lint = isinstance(c['L'], int)
        ctx.case((c['kind'], c['L'], c['values'], c['change']),
                 n > c['L'] >= 2 and len({tuple(col) for col in flatvals}) >= 2, sample=c if n <= 5 else None)
        ctx.count('kind:' + c['kind'])
        ctx.count('regime:' + ('warmup' if n <= c['L'] else 'decay'))
        ctx.count('lifetime_changed', 1 if c['change'] else 0)
        for i, (iv, mv) in enumerate(itertools.zip_longest(impl, model)):
            if iv is None or mv is None:
                ctx.disagree('running-model-correspondence', c, iv, str(mv), 'output count')
                break
            bad = acclib.compare_read(iv, mv, scale)
            if bad:
                ctx.disagree('running-model-correspondence', c, iv if isinstance(iv, str) else {k: iv.get(k) for k in bad},
                             mv if isinstance(mv, str) else {k: str(mv.get(k)) for k in bad}, 'at output %d keys %s' % (i, bad))
                break
        reads = impl[:n]
        if not c['change']:
            oracle(ctx, c['kind'], c['L'], c['values'], reads, c, scale)
        else:
            a = regs['a']
            want = c['change'][1]
            parts = [a] if c['kind'] == 'rmean' else ([a.mean, a.var] if c['kind'] == 'rvar' else [a.mean, a._cov])
            if any(abs(p.lifetime - want) > 1e-9 * want for p in parts) or abs(a.lifetime - want) > 1e-9 * want:
                ctx.fail('lifetime-setter-partial', 'after setting lifetime=%s the parts report %s' % (want, [p.lifetime for p in parts]), c)
        if len(impl) >= n + 2 and impl[n] != '!NotImplementedError':
            ctx.fail('running-merge-not-refused', 'merging two %s gave %s' % (acclib.KINDS[c['kind']], impl[n]), c)
        elif len(impl) >= n + 2 and n >= 1 and impl[n + 1] != impl[n - 1]:
            ctx.fail('running-merge-changes-state', 'a refused merge changed the accumulator', c)


def replay(ctx, data):
    c = data['case']
    prog = [['new', 'a', c['kind'], c['L']]]
    for i, v in enumerate(c['values']):
        if c.get('change') and c['change'][0] == i:
            prog.append(['lifetime', 'a', c['change'][1]])
        prog += [['push', 'a', v], ['read', 'a']]
    impl, regs = acclib.run_impl(acclib.apply_history_ops(prog, c.get('history_ops')))
    flatvals = [acclib.flat(v)[1] for v in c['values']]
    mx = max([abs(x) for col in flatvals for x in col] + [Fraction(1)])
    if not c.get('change'):
        oracle(ctx, c['kind'], c['L'], c['values'], impl, c, mx * mx if c['kind'] != 'rmean' else mx)
    ctx.case(('replay', c['kind']), True, sample=c)


if __name__ == '__main__':
    import sys
    core.main(sys.modules[__name__])
