"""C10 — in-process stages splice generator results in place (flat-map), lazily."""
from harness import core, pipelib
from harness.props import c01

ID = 'C10'
MODULE = 'Gpv.Props.C10'
THEOREMS = core.theorems('C10') + ['Gpv.C01.serial_final', 'Gpv.C01.serial_final_explicit', 'Gpv.C01Ship.shipped_stream_eq', 'Gpv.C01Ship.sspec_congr']
MODULES = ['Gpv.Props.C10', 'Gpv.Props.C01', 'Gpv.Props.C01Ship']
RULE = ('in-process stage whose function returns a mix of plain values, None, empty and finite generators with embedded None and falsy '
        'items; skipNone both ways; partial consumption histories (k nexts then close / exhaust); the source and every inner generator '
        'log each pull; oracle: output = concatenation of the per-element expansions; at the hand-over of item j of element i exactly '
        'j+1 items of that generator and i+1 source elements have been pulled; the next element is drawn only after the generator '
        'signalled exhaustion; compared after every demand with the Lean serial machine (drawn, pulls, processed, yielded, out). '
        'non-trivial: at least one generator with >= 2 items one of which is None, and one empty generator; distinct by (table, demand).')
PARTIAL = []
ASSUMPTIONS = []


def rand_table(rng, n):
    t = []
    uid = 5000
    for i in range(n):
        r = rng.random()
        if r < 0.2:
            t.append(['n'])
        elif r < 0.4:
            t.append(['u'])
        elif r < 0.5:
            t.append(['z', rng.randrange(len(pipelib.ZOO))])
        elif r < 0.62:
            t.append(['it', [], rng.choice(['gen', 'map', 'cls'])])
        else:
            items = []
            for _ in range(rng.randint(1, 4)):
                q = rng.random()
                if q < 0.3:
                    items.append('n')
                elif q < 0.5:
                    items.append(['z', rng.randrange(len(pipelib.ZOO))])
                elif q < 0.62:
                    uid += 1
                    items.append(['g', uid])        # an item that is itself an iterator: one item, never looked into
                else:
                    uid += 1
                    items.append(uid)
            t.append(['it', items, rng.choice(['gen', 'gen', 'map', 'cls'])])
    return t


def gen_cases(ctx):
    rng = ctx.rng
    cases = []
    for _ in range(ctx.scale(260, 2500)):
        n = rng.choice([0, 1, 2, 4, 7, 11])
        table = rand_table(rng, n)
        total = sum(len(t[1]) if t[0] == 'it' else 1 for t in table)
        k = rng.randint(0, total + 1)
        demand = ['N'] * k + rng.choice([['C'], ['G'], ['N*'], ['N*']])
        cases.append(dict(cfg=dict(nworkers=0, extracache=0, skipNone=rng.random() < 0.7, maxtasksperchild=None), n=n, tail=None,
                          table=table, fkind=rng.choice(['module', 'lambda', 'closure']), kwargs=rng.choice([{}, {'a': 1}]),
                          schedule=None, demand=demand, label='flatmap', second=False))
    return cases


def judge(ctx, case, res, mout):
    small = {k: case[k] for k in ('cfg', 'n', 'tail', 'table', 'fkind', 'kwargs', 'schedule', 'demand', 'label')}
    pipelib.carry_flags(small, case)
    its = [t for t in case['table'] if t[0] == 'it']
    ctx.case((case['cfg']['skipNone'], case['table'], case['demand']),
             any(len(t[1]) >= 2 and 'n' in t[1] for t in its) and any(not t[1] for t in its), sample=small if case['n'] <= 4 else None)
    ctx.count('generators', len(its))
    ctx.count('empty_generators', sum(1 for t in its if not t[1]))
    if res.get('retried'):
        ctx.count('scenarios_rerun_after_a_timeout')
    if res.get('timeout'):
        ctx.fail('stream-deadlock', 'the stream did not finish', small)
        return
    skip = case['cfg']['skipNone']
    # expected stream of (element index, item index or None, token)
    exp = []
    for i, t in enumerate(case['table']):
        if t[0] == 'it':
            for j, it in enumerate(t[1]):
                if it == 'n':
                    if not skip:
                        exp.append((i, j, 'n'))
                else:
                    exp.append((i, j, 'v' + pipelib.item_token(it)))
        elif t[0] == 'n':
            if not skip:
                exp.append((i, None, 'n'))
        elif t[0] == 'z':
            exp.append((i, None, 'v%d' % (pipelib.ZBASE + t[1])))
        else:
            exp.append((i, None, 'v%d' % i))
    got = pipelib.observed_obs(res)
    vals = [g for g in got if g != 'stop']
    want = [e[2] for e in exp][:len(vals)]
    exhausted = got[-1:] == ['stop']
    if vals != want or (exhausted and len(vals) != len(exp)):
        ctx.fail('flatmap-output-wrong', 'output %s, concatenation of the per-element expansions %s' % (got, [e[2] for e in exp]), small,
                 observed=got, expected=[e[2] for e in exp])
        return
    # laziness: walk the event trace
    ev = res['events']
    draws, pulls, ended = 0, {}, set()
    k = 0
    for tag, idx, pid in ev:
        if tag == 'D':
            # a draw of element `draws` (0-based) must come after the previous element's generator ended
            prev = draws - 1
            if prev >= 0 and case['table'][prev][0] == 'it' and prev not in ended:
                ctx.fail('flatmap-draws-before-inner-exhausted', 'element %d was drawn before the generator of element %d was exhausted' % (draws, prev), small)
                return
            draws += 1
        elif tag == 'L':
            pulls[idx // 1000] = pulls.get(idx // 1000, 0) + 1
        elif tag == 'M':
            ended.add(idx)
        elif tag in ('Y', 'y'):
            i, j, tok = exp[k]
            k += 1
            if draws != i + 1:
                ctx.fail('flatmap-source-not-lazy', 'at the hand-over of output %d (element %d) %d elements had been drawn' % (k, i, draws), small)
                return
            if j is not None and pulls.get(i, 0) != j + 1:
                ctx.fail('flatmap-inner-not-lazy', 'at the hand-over of item %d of element %d, %d items of its generator had been pulled' % (
                    j, i, pulls.get(i, 0)), small)
                return
    # an abandoned stream (close / dropped and collected) asks for nothing any more: neither the source nor an inner
    # iterator may be advanced from then on
    stop_at = next((n for n, e in enumerate(ev) if e[0] in ('C', 'G')), None)
    if stop_at is not None:
        late = [e for e in ev[stop_at + 1:] if e[0] in ('L', 'D')]
        if late:
            ctx.fail('flatmap-advances-after-abandon', 'after the consumer abandoned the stream (%s) %s advanced %d more time(s)' % (
                'close' if ev[stop_at][0] == 'C' else 'garbage collection',
                'an inner iterator was' if late[0][0] == 'L' else 'the source was', len(late)), small)
            return
    # an iterator that is only an ITEM of a result belongs to the consumer: the stage must not advance it
    if any(e[0] == 'W' for e in ev):
        ctx.fail('flatmap-looks-into-item', 'an item that is itself an iterator was advanced by the stage instead of being handed over as one item', small)
        return
    if any(t == 'K' for t, i, p in ev):
        ctx.fail('kwargs-not-forwarded', 'a per-element call received different keyword arguments', small)
    # correspondence after every demand
    dem = c01.serial_demands(case, res)
    ctx.traces_validated += 1
    ri = 0
    for tok, ml in zip(dem, mout):
        ms = pipelib.parse_state('x ' + ml)
        if tok == 'N' and ri < len(res['reads']):
            r = res['reads'][ri]
            ri += 1
            mo = [t for t in ms.get('out', '').split(',') if t]
            io = pipelib.observed_obs(dict(reads=res['reads'][:ri]))
            while io[-2:] == ['stop', 'stop']:
                io.pop()          # a finished stream answers every further next() with StopIteration
            if (int(ms['drawn']), int(ms['processed']), int(ms['yielded'])) != (r['draws'], r['processed'], r['yielded']) or mo != io:
                ctx.disagree('serial-flatmap-machine-correspondence', small, dict(draws=r['draws'], processed=r['processed'], yielded=r['yielded'], out=io), ml)
                return


def _expand_f(x):
    # element x expands to x % 4 items, every second one None; multiples of 5 give a plain None
    if x % 5 == 0:
        return None
    return iter([None if j % 2 else (x, j) for j in range(x % 4)])


def _copied(how, skipNone, n):
    import copy
    import pickle
    import dill
    from generatorpipeline import pipeline
    base = pipeline(0, skipNone=skipNone)(_expand_f)
    P = {'copy': copy.copy, 'deepcopy': copy.deepcopy, 'pickle': lambda o: pickle.loads(pickle.dumps(o)),
         'dill': lambda o: dill.loads(dill.dumps(o))}[how](base)
    return list(P(iter(range(n)))), list(base(iter(range(n))))


def copied_stage_cases(ctx):
    """a copy of a stage (shallow, deep, through pickle or dill — the last is what a worker gets) splices and filters like the stage"""
    rng = ctx.rng
    for how in ('copy', 'deepcopy', 'pickle', 'dill'):
        for skip in (True, False):
            n = rng.choice([6, 9, 12])
            case = dict(copied_stage=how, skipNone=skip, n=n)
            ctx.case(('copied', how, skip, n), not skip, sample=case)
            ctx.count('copied_stage')
            st, r = pipelib.isolated(_copied, (how, skip, n), timeout=30)
            if st != 'ok':
                ctx.fail('copied-stage-fails', 'a %s of a stage: %s %s' % (how, st, str(r)[-300:]), case)
                continue
            exp = []
            for x in range(n):
                items = [None] if x % 5 == 0 else [None if j % 2 else (x, j) for j in range(x % 4)]
                exp += [v for v in items if not (v is None and skip)]
            if r[0] != exp or r[1] != exp:
                ctx.fail('flatmap-output-wrong', 'a %s of a stage with skipNone=%s delivered %s (the original %s), expected %s' % (how, skip, r[0], r[1], exp), case,
                         observed=r[0], expected=exp)


_HOST_LOG = []


class _HostSrc:
    def __init__(self, n):
        self.n, self.i = n, 0

    def __iter__(self):
        return self

    def __next__(self):
        if self.i >= self.n:
            _HOST_LOG.append('X')
            raise StopIteration
        self.i += 1
        _HOST_LOG.append('D%d' % (self.i - 1))
        return self.i - 1


def _host_inner(i, items):
    for j, it in enumerate(items):
        _HOST_LOG.append('I%d.%d' % (i, j))
        yield it
    _HOST_LOG.append('E%d' % i)


_HOST_SHAPES = None


def _host_f(x):
    sh = _HOST_SHAPES[x]
    if sh[0] == 'plain':
        return sh[1]
    return _host_inner(x, sh[1])


def _host_reference(shapes, skipNone):
    """what the property says, spelled out: per element its expansion, in order, None rule per item, everything on demand"""
    src = _HostSrc(len(shapes))
    for el in src:
        sh = shapes[el]
        items = (sh[1],) if sh[0] == 'plain' else _host_inner(el, sh[1])
        for it in items:
            if it is not None or not skipNone:
                yield it


def _host_consume(stream, takes, hop, use_send=False):
    import threading
    got = []

    def one():
        try:
            # a consumer may ask for the next item with send(value) just as well: the stream does not listen to what it is sent
            v = stream.send(('sent', len(got))) if (use_send and got) else next(stream)
            got.append(('v', v, list(_HOST_LOG)))
        except StopIteration:
            got.append(('end', None, list(_HOST_LOG)))
        except BaseException as e:  # noqa
            got.append(('exc', '%s: %s' % (type(e).__name__, e), list(_HOST_LOG)))

    over = threading.Event()      # the threads stay alive to the end, so each request really comes from a different thread (no identifier is reused)

    def one_and_stay(ready):
        one()
        ready.set()
        over.wait(30)

    for k in range(takes):
        if hop:
            ready = threading.Event()
            t = threading.Thread(target=one_and_stay, args=(ready,), daemon=True)
            t.start()
            if not ready.wait(10):
                got.append(('stuck', None, list(_HOST_LOG)))
                break
        else:
            one()
        if got[-1][0] != 'v':
            break
    over.set()
    return got


def _host_body(shapes, skipNone, takes, hop, use_library, use_send=False):
    global _HOST_SHAPES
    _HOST_SHAPES = shapes
    del _HOST_LOG[:]
    if use_library:
        from generatorpipeline import pipeline
        stream = pipeline(0, skipNone=skipNone)(_host_f)(_HostSrc(len(shapes)))
    else:
        stream = _host_reference(shapes, skipNone)
    return _host_consume(stream, takes, hop, use_send)


def _host_child(conn, args):
    try:
        conn.send(('ok', _host_body(*args)))
    except BaseException as e:  # noqa
        conn.send(('error', repr(e)))
    conn.close()


def _host_run(shapes, skipNone, takes, host, hop, use_send=False):
    """runs in a forked child of the check"""
    want = _host_body(shapes, skipNone, takes, False, False, use_send)
    if host == 'mp-process':
        import multiprocessing as mp
        a, b = mp.Pipe()
        pr = mp.Process(target=_host_child, args=(b, (shapes, skipNone, takes, hop, True, use_send)))
        pr.start()
        if not a.poll(30):
            pr.kill()
            return dict(want=want, got=[('stuck', None, [])])
        st, got = a.recv()
        pr.join(5)
        if st != 'ok':
            return dict(want=want, got=[('exc', got, [])])
    else:
        got = _host_body(shapes, skipNone, takes, hop, True, use_send)
    return dict(want=want, got=got)


def hosted_stream_cases(ctx, only_send=False):
    """the in-process stream is an ordinary generator: which thread asks for the next item, and which process of the program hosts the stream,
    changes nothing — same items, and after every hand-over exactly the same draws and inner-iterator steps as the spelled-out expansion"""
    rng = ctx.rng
    for host, hop, full, use_send in [('main', True, True, False), ('main', True, False, False), ('mp-process', False, False, False), ('mp-process', True, True, False),
                                     ('main', False, True, True), ('main', False, False, True)]:
        if only_send and not use_send:
            continue
        n = rng.choice([3, 4, 6])
        shapes = []
        for i in range(n):
            r = rng.random()
            if r < 0.55:
                shapes.append(('iter', [rng.choice([10 * i + j, None]) if rng.random() < 0.25 else 10 * i + j for j in range(rng.choice([0, 1, 2, 3, 4]))]))
            else:
                shapes.append(('plain', rng.choice([None, 100 + i])))
        if not any(sh[0] == 'iter' and len(sh[1]) >= 2 for sh in shapes):
            shapes[0] = ('iter', [1, 2, 3])
        skip = rng.choice([True, False])
        total = sum((1 if sh[0] == 'plain' else len(sh[1])) for sh in shapes)
        takes = total + 1 if full else rng.choice([2, 3, total // 2 + 1, total + 1])
        case = dict(hosted_stream=host, next_calls_from_fresh_threads=hop, consumer_uses_send=use_send, shapes=shapes, skipNone=skip, takes=takes)
        ctx.case(('hosted', host, hop, use_send, repr(shapes), skip, takes), True, sample=case)
        ctx.count('hosted:' + host + ('+threads' if hop else '') + ('+send' if use_send else ''))
        st, r = pipelib.isolated(_host_run, (shapes, skip, takes, host, hop, use_send), timeout=60)
        if st != 'ok':
            ctx.fail('hosted-stream-fails', 'in-process stream hosted in %s%s: %s %s' % (host, ' with next() from fresh threads' if hop else '', st, str(r)[-300:]), case)
            continue
        want, got = r['want'], r['got']
        for k, (w, g) in enumerate(zip(want, got)):
            if w != g:
                ctx.fail('hosted-stream-differs', 'in-process stream hosted in %s%s: request %d gave %r after %s; the expansion spelled out gives %r after %s'
                         % (host, ' with next() from fresh threads' if hop else '', k, g[:2], g[2][-6:], w[:2], w[2][-6:]), case)
                break
        else:
            if len(want) != len(got):
                ctx.fail('hosted-stream-differs', 'in-process stream hosted in %s: %d requests answered, the expansion spelled out answers %d' % (host, len(got), len(want)), case)


_HELD = {}


def _held_f(x):
    sh = _HOST_SHAPES[x]
    if sh[0] == 'plain':
        return sh[1]
    it = _host_inner(x, sh[1])
    _HELD[x] = it            # somebody else keeps the iterator too (a cursor, an open reader): it is theirs, the stage only borrows it
    return it


def _held_body(shapes, skipNone, takes, way, use_library):
    import gc
    global _HOST_SHAPES
    _HOST_SHAPES = shapes
    del _HOST_LOG[:]
    _HELD.clear()
    if use_library:
        from generatorpipeline import pipeline
        stream = pipeline(0, skipNone=skipNone)(_held_f)(_HostSrc(len(shapes)))
    else:
        def ref():
            for el in _HostSrc(len(shapes)):
                r = _held_f(el)
                for it in ((r,) if shapes[el][0] == 'plain' else r):
                    if it is not None or not skipNone:
                        yield it
        stream = ref()
    got = [next(stream) for _ in range(takes)]
    if way == 'close':
        stream.close()
    elif way == 'throw':
        try:
            stream.throw(KeyError('stop'))
        except KeyError:
            pass
    elif way == 'throw-stopiteration':
        # thrown into a generator, StopIteration does not end it quietly: PEP 479 turns it into RuntimeError, the stream is over
        try:
            extra = stream.throw(StopIteration('stop'))
            got.append(('throw-returned', extra))
        except RuntimeError as e:
            got.append(('RuntimeError', type(e.__cause__).__name__))
        except StopIteration:
            got.append(('StopIteration',))
        try:
            got.append(('then', next(stream)))
        except StopIteration:
            got.append(('then', 'stop'))
    else:
        del stream
        gc.collect()
    rest = {k: list(v) for k, v in sorted(_HELD.items())}
    return dict(got=got, rest=rest, log=list(_HOST_LOG))


def _held_run(shapes, skipNone, takes, way):
    return dict(want=_held_body(shapes, skipNone, takes, way, False), got=_held_body(shapes, skipNone, takes, way, True))


def held_iterator_cases(ctx):
    """an iterator the function returns may be kept by somebody else as well: a stream that is stopped while inside it has taken the items it
    was asked for and nothing else — the unread rest is still there for its owner (the stage neither drains nor closes what it borrowed)"""
    rng = ctx.rng
    for way in ('close', 'throw', 'drop', 'throw-stopiteration'):
        shapes = [('plain', 100), ('iter', [10, 11, None, 13, 14, 15]), ('plain', 102), ('iter', [30, 31])]
        if rng.random() < 0.5:
            shapes = shapes[1:]
        skip = rng.choice([True, False])
        first_iter = next(i for i, sh in enumerate(shapes) if sh[0] == 'iter')
        takes = first_iter + rng.choice([1, 2])
        case = dict(held_iterators=True, shapes=shapes, skipNone=skip, takes=takes, stopped_by=way)
        ctx.case(('held', repr(shapes), skip, takes, way), True, sample=case)
        ctx.count('held_iterators:' + way)
        st, r = pipelib.isolated(_held_run, (shapes, skip, takes, way), timeout=60)
        if st != 'ok':
            ctx.fail('held-iterator-run-fails', 'in-process stream stopped (%s) inside an iterator that its maker still holds: %s %s' % (way, st, str(r)[-300:]), case)
            continue
        if r['got'] != r['want']:
            ctx.fail('held-iterator-touched', 'stream stopped (%s) after %d items, inside an iterator its maker still holds: the maker then reads %r from it '
                     '(stream got %r, log %s); with the expansion spelled out the maker reads %r (log %s)'
                     % (way, takes, r['got']['rest'], r['got']['got'], r['got']['log'][-5:], r['want']['rest'], r['want']['log'][-5:]), case)


def check(ctx):
    copied_stage_cases(ctx)
    hosted_stream_cases(ctx)
    held_iterator_cases(ctx)
    for c, r, m in c01.execute(gen_cases(ctx)):
        with ctx.guard(c):
            judge(ctx, c, r, m)
    from harness.props import multistream
    multistream.run(ctx, ctx.scale(50, 500), {'outputs', 'draws'}, 'multi-C10', parallel=False, iters=True)


def replay(ctx, data):
    if 'copied_stage' in data['case']:
        copied_stage_cases(ctx)
        return
    if 'held_iterators' in data['case']:
        held_iterator_cases(ctx)
        return
    if 'hosted_stream' in data['case']:
        hosted_stream_cases(ctx)
        return
    if 'streams' in data['case']:
        from harness.props import multistream
        multistream.replay(ctx, data['case'])
        return
    for c, r, m in c01.execute([data['case']], workers=1):
        with ctx.guard(c):
            judge(ctx, c, r, m)


if __name__ == '__main__':
    import sys
    core.main(sys.modules[__name__])
