"""C15 — ReservoirSampling holds a uniformly random k-subset (exact counting over all random outcomes)."""
from fractions import Fraction
import itertools
import math
import numpy as np
from harness import core

ID = 'C15'
MODULE = 'Gpv.Props.C15'
MODULES = ['Gpv.Props.C15', 'Gpv.Props.C15Reentrant']
THEOREMS = core.theorems('C15', 'C15Reentrant')
RULE = ('the module attribute `random` of accumulators is replaced from outside by a scripted source that serves prescribed draws '
        'through whatever API is called and records the requested ranges; (a) random scripts for n up to 40, k up to 8: reservoir, n and '
        'requested ranges compared with the Lean model fed the same script; (b) EVERY script for n <= 7, k <= 3 (quick: n <= 6) run on '
        'the implementation, each weighted by the product of 1/range-size: every k-subset must have probability exactly 1/C(n,k); '
        '(c) seeded statistical run with the real random module. non-trivial: n > k >= 1; distinct by (k, n, script).')
PARTIAL = ['random.randint being uniform and independent is trusted (third-party); the counting theorem is over all choice sequences']
ASSUMPTIONS = ['random.randint(1, n) is uniform on 1..n and independent between calls']


class Scripted:
    """stands in for the `random` module inside accumulators.py"""
    def __init__(self, script):
        self.script = list(script)
        self.ranges = []
        self.returned = []

    def _draw(self, a, b):
        self.ranges.append((a, b))
        if b < a:
            raise ValueError('empty range for randrange() (%d, %d)' % (a, b + 1))
        u = self.script.pop(0) if self.script else 0
        self.returned.append(a + (u % (b - a + 1)))
        return self.returned[-1]

    def randint(self, a, b):
        return self._draw(a, b)

    def randrange(self, start, stop=None, step=1):
        if stop is None:
            start, stop = 0, start
        return self._draw(start, stop - 1)

    def random(self):
        self.ranges.append(('random',))
        return (self.script.pop(0) if self.script else 0) / 1e6

    def choice(self, seq):
        return seq[self._draw(0, len(seq) - 1)]


def run_impl_none(k, n, script, none_at):
    """like run_impl but the observation at position none_at is None (an ordinary object for the library)"""
    import generatorpipeline.accumulators as A
    rs = A.ReservoirSampling(length=k)
    src = Scripted(script)
    old = A.random
    A.random = src
    try:
        for i in range(n):
            rs.accumulate(None if i == none_at else ('pos', i))
    except Exception as e:  # noqa
        return ['!%s' % type(e).__name__], -1
    finally:
        A.random = old
    return [(none_at if v is None else v[1]) for v in rs.value], rs.n


def run_impl(k, n, script):
    import generatorpipeline.accumulators as A
    rs = A.ReservoirSampling(length=k)
    src = Scripted(script)
    old = A.random
    A.random = src
    try:
        for i in range(n):
            rs.accumulate(('pos', i))
    except Exception as e:  # noqa
        return ['!%s' % type(e).__name__], -1, src.ranges
    finally:
        A.random = old
    return [v[1] for v in rs.value], rs.n, src.ranges


def run_impl_views(k, n, script):
    """observations that are array VIEWS and ndarray subclasses (slices of a big buffer, masked frames): the reservoir holds the very objects it
    was given — returns (positions by identity, n, every retained item is one of the offered objects)"""
    import generatorpipeline.accumulators as A
    rs = A.ReservoirSampling(length=k)
    src = Scripted(script)
    old = A.random
    A.random = src
    base = np.arange(4 * n + 8, dtype=float)
    obs = []
    for i in range(n):
        if i % 3 == 0:
            obs.append(np.ma.masked_array([float(i), float(i) + 0.5], mask=[False, True]))
        elif i % 3 == 1:
            obs.append(base[4 * i:4 * i + 3])
        else:
            obs.append(np.asarray(np.matrix([[float(i), 1.0]])) if False else base[4 * i:4 * i + 2].reshape(1, 2))
    try:
        for o in obs:
            rs.accumulate(o)
    except Exception as e:  # noqa
        return ['!%s' % type(e).__name__], -1, False
    finally:
        A.random = old
    pos, same = [], True
    for v in rs.value:
        j = next((i for i, o in enumerate(obs) if o is v), None)
        if j is None:
            same = False
            j = next((i for i, o in enumerate(obs) if np.shape(o) == np.shape(v) and float(np.ravel(np.asarray(o))[0]) == float(np.ravel(np.asarray(v))[0])), -1)
        pos.append(j)
    return pos, rs.n, same


def run_impl_accumulators(k, n, script):
    """observations that are themselves accumulators (per-chunk Counters, Means, reservoirs): each is ONE observation"""
    import generatorpipeline.accumulators as A
    rs = A.ReservoirSampling(length=k)
    src = Scripted(script)
    old = A.random
    A.random = src
    # (not reservoirs: an operand of the accumulator's own class is a merge request by the dispatch rule, and that is refused)
    obs = [[A.Counter(i % 4), A.Mean(value=1.0, n=i % 3), A.Variance(), A.Counter()][i % 4] for i in range(n)]
    try:
        for o in obs:
            rs.accumulate(o)
    except Exception as e:  # noqa
        return ['!%s' % type(e).__name__], -1
    finally:
        A.random = old
    pos = []
    for v in rs.value:
        hit = [i for i, o in enumerate(obs) if o is v]
        pos.append(hit[0] if hit else 'foreign:%r' % (v,))
    return pos, rs.n


def run_impl_iterators(k, n, script):
    """like run_impl, but every observation is itself an iterator (a generator over a few values): it is ONE observation, kept or
    dropped as a whole, never looked into. Returns (retained positions by identity, n, how many observations were advanced)"""
    import generatorpipeline.accumulators as A
    rs = A.ReservoirSampling(length=k)
    src = Scripted(script)
    old = A.random
    A.random = src
    obs = [iter([('inner', i, j) for j in range(i % 3)]) if i % 2 else (('inner', i, j) for j in range(1 + i % 2)) for i in range(n)]
    try:
        for o in obs:
            rs.accumulate(o)
    except Exception as e:  # noqa
        return ['!%s' % type(e).__name__], -1, 0
    finally:
        A.random = old
    pos = []
    for v in rs.value:
        hit = [i for i, o in enumerate(obs) if o is v]
        pos.append(hit[0] if hit else 'foreign:%r' % (v,))
    consumed = 0
    for i, o in enumerate(obs):
        left = list(o)
        want = i % 3 if i % 2 else 1 + i % 2
        consumed += len(left) != want
    return pos, rs.n, consumed


def run_impl_polled(k, n, script, polls):
    """like run_impl, but `value` is read (once or twice) after the observations in `polls`; returns {i: reads} and the final result"""
    import generatorpipeline.accumulators as A
    rs = A.ReservoirSampling(length=k)
    src = Scripted(script)
    old = A.random
    A.random = src
    seen = {}
    try:
        for i in range(n):
            rs.accumulate(('pos', i))
            if i in polls:
                seen[i] = [[v[1] for v in rs.value] for _ in range(polls[i])]
    except Exception as e:  # noqa
        return {}, ['!%s' % type(e).__name__], -1
    finally:
        A.random = old
    return seen, [v[1] for v in rs.value], rs.n


def run_impl_saved(k, n, script, at, how):
    """like run_impl, but after observation `at` the accumulator is replaced by its saved-and-restored self (a check-point; a trip to
    another process); returns (value read right after the restore, final reservoir, final n)"""
    import copy
    import pickle
    import generatorpipeline.accumulators as A
    rs = A.ReservoirSampling(length=k)
    src = Scripted(script)
    old = A.random
    A.random = src
    seen = None
    try:
        for i in range(n):
            rs.accumulate(('pos', i))
            if i == at:
                rs = pickle.loads(pickle.dumps(rs)) if how == 'pickle' else (copy.deepcopy(rs) if how == 'deepcopy' else copy.copy(rs))
                seen = ([v[1] if isinstance(v, tuple) and len(v) == 2 else repr(v) for v in rs.value], rs.n)
    except Exception as e:  # noqa
        return seen, ['!%s: %s' % (type(e).__name__, e)], -1
    finally:
        A.random = old
    return seen, [v[1] if isinstance(v, tuple) and len(v) == 2 else repr(v) for v in rs.value], rs.n


class _Echo:
    """an observation whose disposal is itself observed: when the last reference goes, a note about it is fed to the same reservoir (a frame
    whose finaliser reports to the statistics) — possibly in the middle of the accumulate() call that evicts it"""
    live = True

    def __init__(self, i, rs, calls):
        self.i, self.rs, self.calls = i, rs, calls

    def __del__(self):
        if _Echo.live:
            self.calls.append(('echo', self.i))
            self.rs.accumulate(('echo', self.i))


ECHO_DETAIL = [None]


def run_impl_echo(k, n, script):
    import gc
    import generatorpipeline.accumulators as A
    rs = A.ReservoirSampling(length=k)
    src = Scripted(script)
    old = A.random
    A.random = src
    calls = []
    _Echo.live = True
    gc.disable()
    try:
        for i in range(n):
            calls.append(('obs', i))
            rs.accumulate(_Echo(i, rs, calls))
        _Echo.live = False
        ECHO_DETAIL[0] = dict(ids=[(v.i if isinstance(v, _Echo) else 1000 + v[1]) for v in rs.value], returned=list(src.returned), calls=list(calls))
        return len(calls), rs.n, len(rs.value), list(src.ranges)
    except Exception as e:  # noqa
        _Echo.live = False
        return len(calls), -1, '!%s: %s' % (type(e).__name__, e), list(src.ranges)
    finally:
        _Echo.live = False
        A.random = old
        gc.enable()


def echo_cases(ctx):
    """every accumulate() call is an observation — also one made from the finaliser of an element the reservoir is just evicting: n counts it and
    its random choice is over 1..(its own number)"""
    rng = ctx.rng
    ties = []
    for _ in range(ctx.scale(20, 200)):
        k = rng.choice([1, 1, 2, 3])
        n = rng.choice([3, 5, 9, 20])
        script = [rng.randrange(0, 3 * k) for _ in range(4 * n)]     # small draws: evictions (and so re-entrant observations) are frequent
        case = dict(echo_observations=True, k=k, n=n, draws=script)
        ECHO_DETAIL[0] = None
        calls, cnt, held, ranges = run_impl_echo(k, n, script)
        ctx.case(('echo', k, n, tuple(script)), True, sample=case if n <= 5 else None)
        ctx.count('echo_runs')
        if ECHO_DETAIL[0] is not None and cnt != -1:
            det = ECHO_DETAIL[0]
            ties.append(('res.echo first %d | %s | %s' % (k, ' '.join(map(str, det['returned'])), ' '.join('e' * n)),
                         (cnt, det['ids'], [tuple(r) for r in ranges]), case))
        want_ranges = [(1, t) for t in range(k + 1, calls + 1)]
        if cnt == -1:
            ctx.fail('reservoir-raises', 'with observations that report their own disposal to the reservoir: %s' % held, case)
        elif cnt != calls or held != min(calls, k) or [tuple(r) for r in ranges] != want_ranges:
            ctx.fail('reservoir-reentrant-observation', '%d accumulate() calls (some made while an element was being evicted): n=%s, %s held, random requests %s; '
                     'every call is one observation: n=%d and requests %s' % (calls, cnt, held, ranges[:8], calls, want_ranges[:8]), case)
    # the statement-level model (Model/Reentrant.lean, increment first): same count, same retained observations, same requests
    if ties:
        mout = core.run_driver([t[0] for t in ties])
        for (line, (cnt, ids, ranges), case), ml in zip(ties, mout):
            ctx.count('reentrant_model_ties')
            try:
                mn, mids, mr = [part.split() for part in ml.split('|')]
                model = (int(mn[0]), [int(t) for t in mids], [tuple(int(x) for x in t.split(':')) for t in mr])
            except Exception:  # noqa
                model = ml[:200]
            if model != (cnt, ids, ranges):
                ctx.disagree('reentrant-model-correspondence', case, dict(n=cnt, reservoir=ids, requests=ranges[:10]), model if isinstance(model, str) else
                             dict(n=model[0], reservoir=model[1], requests=model[2][:10]), line[:200])


def check(ctx):
    rng = ctx.rng
    echo_cases(ctx)
    # (a) random scripts vs the model
    lines, metas = [], []
    for _ in range(ctx.scale(300, 3000)):
        k = rng.choice([0, 1, 1, 2, 3, 5, 8])
        n = rng.choice([0, 1, 2, 3, 5, 8, 13, 25, 40])
        draws = [rng.randrange(max(1, t)) for t in range(k + 1, n + 1)]     # u in [0, t-1] for t = k+1..n
        res, cnt, ranges = run_impl(k, n, draws)
        js = [1] * min(k, n) + [u + 1 for u in draws]
        js = js + [1] * (n - len(js))
        lines.append('res.run %d %d | %s' % (k, n, ' '.join(map(str, js))))
        lines.append('res.ranges %d %d' % (k, n))
        metas.append((k, n, draws, res, cnt, ranges))
    # one long stream (beyond 2**16 observations): Algorithm R as the property words it, with the scripted draws
    for (k, n) in [(2, 66000)] + ([(1, 140000), (5, 70000)] if not ctx.quick else []):
        draws = [rng.randrange(t) for t in range(k + 1, n + 1)]
        res, cnt, ranges = run_impl(k, n, draws)
        ref = list(range(min(k, n)))
        for t, u in zip(range(k + 1, n + 1), draws):
            if u + 1 <= k:
                ref[u] = t - 1
        want_ranges = [(1, t) for t in range(k + 1, n + 1)]
        case = dict(k=k, n=n, draws='%d scripted draws from the run\'s seed' % len(draws))
        ctx.case(('long', k, n), True, sample=case)
        ctx.count('long_streams')
        if (res, cnt) != (ref, n) or ranges != want_ranges:
            late = sum(1 for p in res if isinstance(p, int) and p >= 65536)
            ctx.fail('reservoir-long-stream-wrong', 'after %d observations (k=%d) the reservoir holds positions %s (n=%s, %d random requests, %d retained '
                     'positions beyond 65536); Algorithm R with the same draws holds %s' % (n, k, res[:8], cnt, len(ranges), late, ref[:8]), case)
    mout = core.run_driver(lines)
    for idx, (k, n, draws, res, cnt, ranges) in enumerate(metas):
        case = dict(k=k, n=n, draws=draws)
        ctx.case((k, n, draws), n > k >= 1, sample=case if n <= 8 else None)
        ctx.count('k:%d' % k)
        mn, mres = mout[2 * idx].split('|')
        mres = [int(t) for t in mres.split()]
        mranges = [tuple(int(x) for x in t.split(':')) for t in mout[2 * idx + 1].split() if t != '-']
        if n >= 1:
            na = rng.randrange(n)
            res2, cnt2 = run_impl_none(k, n, draws, na)
            if (res2, cnt2) != (res, cnt):
                ctx.fail('reservoir-none-observation', 'with None as observation %d the reservoir is %s (n=%s), with an ordinary object %s (n=%s)' % (
                    na, res2, cnt2, res, cnt), dict(case, none_at=na))
        if n >= 1 and rng.random() < 0.5:
            res4, cnt4, consumed = run_impl_iterators(k, n, draws)
            ctx.count('iterator_observations')
            if (res4, cnt4) != (res, cnt) or consumed:
                ctx.fail('reservoir-looks-into-observation', 'with observations that are iterators the reservoir holds positions %s (n=%s, %d observations '
                         'advanced); with ordinary objects %s (n=%s)' % (res4, cnt4, consumed, res, cnt), dict(case, observations='iterators'))
        if n >= 1 and rng.random() < 0.4:
            res7, cnt7, same7 = run_impl_views(k, n, draws)
            ctx.count('view_and_subclass_observations')
            if (res7, cnt7) != (res, cnt) or not same7:
                ctx.fail('reservoir-looks-into-observation', 'with observations that are array views / masked arrays the reservoir holds positions %s (n=%s; the '
                         'very objects offered: %s); with ordinary objects %s (n=%s)' % (res7, cnt7, same7, res, cnt), dict(case, observations='array views'))
        if n >= 1 and rng.random() < 0.5:
            res5, cnt5 = run_impl_accumulators(k, n, draws)
            ctx.count('accumulator_observations')
            if (res5, cnt5) != (res, cnt):
                ctx.fail('reservoir-looks-into-observation', 'with observations that are accumulators the reservoir holds positions %s (n=%s); with '
                         'ordinary objects %s (n=%s)' % (res5, cnt5, res, cnt), dict(case, observations='accumulators'))
        if n >= 1 and rng.random() < 0.6:
            # a reservoir that is saved and restored along the way — while it is still filling as well as later
            at = rng.randrange(min(n, k)) if (k >= 2 and rng.random() < 0.6) else rng.randrange(n)
            how = rng.choice(['pickle', 'deepcopy', 'copy'])
            seen6, res6, cnt6 = run_impl_saved(k, n, draws, at, how)
            ctx.count('saved_and_restored_runs')
            want_seen = run_impl(k, at + 1, draws[:max(0, at + 1 - k)])[0]
            if seen6 is None or seen6 != (want_seen, at + 1):
                ctx.fail('reservoir-changed-by-saving', 'restored (%s) after %d observations the reservoir reports %s; it held %s (n=%d)' % (
                    how, at + 1, seen6, want_seen, at + 1), dict(case, saved_after=at + 1, how=how))
            elif (res6, cnt6) != (res, cnt):
                ctx.fail('reservoir-changed-by-saving', 'saved and restored (%s) after %d observations the reservoir ends as %s (n=%s); undisturbed it ends as %s (n=%s)' % (
                    how, at + 1, res6, cnt6, res, cnt), dict(case, saved_after=at + 1, how=how))
        if n >= 2:
            # an accumulator that is polled while it runs (live display) reports, each time, what an accumulator that saw only
            # that prefix reports, and ends like the one that was never read
            polls = {i: rng.choice([1, 1, 2]) for i in rng.sample(range(n), rng.randint(1, min(n, 4)))}
            seen, res3, cnt3 = run_impl_polled(k, n, draws, polls)
            ctx.count('polled_runs')
            bad = None
            for i, reads in sorted(seen.items()):
                want = run_impl(k, i + 1, draws[:max(0, i + 1 - k)])[0]
                if any(r != want for r in reads):
                    bad = 'value read after observation %d is %s, an accumulator fed the same %d observations holds %s' % (i + 1, reads, i + 1, want)
                    break
            if bad is None and (res3, cnt3) != (res, cnt):
                bad = 'after reads at %s the reservoir ends as %s (n=%s), unread it ends as %s (n=%s)' % (sorted(polls), res3, cnt3, res, cnt)
            if bad:
                ctx.fail('reservoir-reading-not-pure', bad, dict(case, polls={str(a): b for a, b in polls.items()}))
        if (cnt, res) != (int(mn), mres):
            ctx.disagree('reservoir-model-correspondence', case, dict(n=cnt, res=res), dict(n=int(mn), res=mres))
        if [tuple(r) for r in ranges] != mranges:
            ctx.disagree('reservoir-requested-ranges', case, ranges, mranges)
        # oracle: structure
        if cnt == -1:
            ctx.fail('reservoir-raises', 'accumulating raised %s (requested ranges %s)' % (res, ranges[-2:]), case)
        elif cnt != n or len(res) != min(n, k) or len(set(res)) != len(res) or any(not (0 <= p < n) for p in res):
            ctx.fail('reservoir-structure', 'n=%s reservoir=%s for k=%d after %d observations' % (cnt, res, k, n), case)
        elif n <= k and res != list(range(n)):
            ctx.fail('reservoir-not-verbatim', 'while n <= k the reservoir must be the input verbatim: %s' % res, case)
    # (b) exhaustive: every script, exact probabilities
    nmax = ctx.scale(6, 7)
    for k in (1, 2, 3):
        for n in range(k, nmax + 1):
            sizes = None
            prob = {}
            total = Fraction(0)
            count = 0
            # discover the range sizes with an all-zero script, then enumerate the product space
            r0, c0, ranges0 = run_impl(k, n, [])
            if c0 == -1:
                ctx.fail('reservoir-raises', 'k=%d n=%d: accumulating raised %s' % (k, n, r0), dict(exhaustive=True, k=k, n=n))
                continue
            sizes = [(b - a + 1) for (a, b) in ranges0]
            for script in itertools.product(*[range(s) for s in sizes]):
                res, cnt, ranges = run_impl(k, n, script)
                if [(b - a + 1) for (a, b) in ranges] != sizes:
                    raise core.InfraError('range sizes depend on the draws')
                w = Fraction(1)
                for s in sizes:
                    w /= s
                key = frozenset(res)
                prob[key] = prob.get(key, Fraction(0)) + w
                total += w
                count += 1
            ctx.case(('exhaustive', k, n), n > k)
            ctx.count('exhaustive_scripts', count)
            want = Fraction(1, math.comb(n, k))
            subsets = [frozenset(c) for c in itertools.combinations(range(n), k)]
            bad = [(sorted(s), str(prob.get(s, Fraction(0)))) for s in subsets if prob.get(s, Fraction(0)) != want]
            case = dict(exhaustive=True, k=k, n=n)
            if total != 1 or bad or set(prob) - set(subsets):
                ctx.fail('reservoir-not-uniform', 'k=%d n=%d: every %d-subset must have probability %s; deviating: %s' % (
                    k, n, k, want, bad[:6]), case)
            # the theorem's count: (n-k)! scripts per subset out of n!/k!
            if sizes == list(range(k + 1, n + 1)):
                if count * math.factorial(k) != math.factorial(n):
                    ctx.disagree('reservoir-total-count', case, count, 'n!/k!')
    ctx.extra['exhaustive'] = True
    # (c) statistical, real random module
    import random as _r
    import generatorpipeline.accumulators as A
    _r.seed(ctx.seed * 7919 + 11)
    for (k, n, reps) in ([(3, 10, 4000)] if ctx.quick else [(3, 10, 20000), (5, 40, 20000), (1, 7, 20000)]):
        hits = [0] * n
        for _ in range(reps):
            rs = A.ReservoirSampling(length=k)
            for i in range(n):
                rs += i
            for v in rs.value:
                hits[v] += 1
        pexp = k / n
        sd = math.sqrt(reps * pexp * (1 - pexp))
        worst = max(abs(h - reps * pexp) / sd for h in hits)
        ctx.count('statistical_runs', reps)
        ctx.extra.setdefault('statistical (test)', []).append(dict(k=k, n=n, reps=reps, worst_sigma=round(worst, 2)))
        if worst > 6:
            ctx.fail('reservoir-inclusion-frequency', 'k=%d n=%d: inclusion frequencies deviate by %.1f sigma from k/n' % (k, n, worst),
                     dict(statistical=True, k=k, n=n))


def replay(ctx, data):
    case = data['case']
    if case.get('echo_observations'):
        echo_cases(ctx)
        return
    if case.get('exhaustive') or case.get('statistical'):
        check(ctx)
        return
    res, cnt, ranges = run_impl(case['k'], case['n'], case['draws'])
    ctx.case(('replay', case['k'], case['n']), True, sample=dict(case, res=res, n_reported=cnt, ranges=ranges))
    if cnt != case['n'] or len(res) != min(case['n'], case['k']) or len(set(res)) != len(res):
        ctx.fail('reservoir-structure', 'n=%s reservoir=%s' % (cnt, res), case)


if __name__ == '__main__':
    import sys
    core.main(sys.modules[__name__])
