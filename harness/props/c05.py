"""C05 — streaming accumulators equal the batch statistic (exact in ℚ; float probe as a test)."""
from fractions import Fraction
import itertools
import math
import numpy as np
from harness import core, acclib

ID = 'C05'
MODULE = 'Gpv.Props.C05'
MODULES = ['Gpv.Props.C05', 'Gpv.Props.C05Float', 'Gpv.Props.C05FloatVar', 'Gpv.Props.C05FloatCov', 'Gpv.Props.C05FloatMatrix']
THEOREMS = core.theorems('C05', 'C05Float', 'C05FloatVar', 'C05FloatCov', 'C05FloatMatrix')
RULE = ('random accumulator kind x shape (0-d..3-d) x length x value family (small ints, dyadics, mixed int/float, '
        'python numbers and ndarrays); read after every push; model run in exact rationals, implementation in floats, '
        'compared with relative tolerance 1e-9; independent oracle = exact batch statistic in Fractions. '
        'non-trivial: length >= 3 and at least two different observations; distinct by (kind, shape, data).')
PARTIAL = ['floating-point error bound of the MEAN: proved (C05Float.mean_float_error: every run of the four rounded operations under the '
           'standard model |delta| <= u stays within 6*n*u*max|x| of the exact mean, for 8*n*u <= 1) — the model is the relative-error one '
           '(no overflow/underflow), Lean Float itself is not reasoned about',
           'floating-point error bound of the VARIANCE (Welford update + read-out): proved in the same rounding model (C05FloatVar.var_float_defect: '
           '|n*v - S| <= 4u*S + 58*n^2*u*M^2 for 64*n*u <= 1; var_float_defect_centered: first order linear in the condition number; '
           'var_float_value_error(_centered) for the rounded read-out var*(n/(n-1))). These are worst-case bounds and are NOT the tolerance the '
           'harness uses (8*n*eps*kappa); float_probe remains a test against the exact rational batch statistic',
           'floating-point error bound of the COVARIANCE entry (Cov2.push): proved in the same model (C05FloatCov.cov_float_defect: '
           '|n*c - Sxy| <= 2u*(t*Sxx + Syy/t) + 58*n^2*u*Mx*My for every t > 0; cov_float_defect_cs with G^2 >= Sxx*Syy; centred and read-out forms; '
           'the variance is the diagonal case). NOT proved: bounds for merges and for the running variants; exact symmetry of the float matrix '
           '(false for this operation order: only |c_xy - c_yx| <= 2*bound)']
ASSUMPTIONS = ['numpy element-wise arithmetic and broadcasting', 'inputs are finite']

SHAPES = [(), (), (1,), (2,), (3,), (4,), (2, 2), (2, 3), (2, 1, 2)]


NARROW = [('uint8', 0, 255), ('int8', -128, 127), ('int16', -32768, 32767), ('uint16', 0, 65535), ('int32', -2 ** 31, 2 ** 31 - 1),
          ('int64', -2 ** 62, 2 ** 62)]


def gen_narrow(rng, n, shape):
    """fixed-width integer observations near the limits of their dtype (sums leave the dtype's range)"""
    dt, lo, hi = rng.choice(NARROW)
    k = int(np.prod(shape)) if shape else 1
    vals = []
    for _ in range(n):
        a = [rng.choice([hi, hi - 1, lo, lo + 1, hi // 2 + 1, rng.randint(lo, hi)]) for _ in range(k)]
        if shape == ():
            vals.append({'arr': a[0], 'dtype': dt})       # 0-d array / numpy integer scalar
        else:
            vals.append({'arr': np.array(a, dtype=dt).reshape(shape).tolist(), 'dtype': dt})
    return vals


LADDERS = [['float32', 'float64'], ['float16', 'float32', 'float64'], ['uint8', 'uint16', 'uint32'], ['int8', 'int16', 'int32', 'int64'],
           ['int32', 'int64'], ['uint8', 'int16', 'float32', 'float64']]


def gen_mixedwidth(rng, n, shape):
    """observations of ONE kind but different widths: the narrowest dtype arrives first, wider ones later carry values the
    narrow type cannot hold (0.1, 300 for uint8, 2**40 for int32). Only used for Minimum / Maximum, which are exact."""
    ladder = rng.choice(LADDERS)
    k = int(np.prod(shape)) if shape else 1
    vals = []
    for i in range(n):
        dt = ladder[0] if i == 0 else rng.choice(ladder)
        a = []
        for _ in range(k):
            if dt == 'float16':
                a.append(rng.randint(-64, 64) / 4.0)
            elif dt == 'float32':
                a.append(rng.choice([rng.randint(-800, 800) / 8.0, float(np.float32(rng.randint(-90, 90) / 10.0))]))
            elif dt == 'float64':
                a.append(rng.choice([rng.randint(-900, 900) / 10.0, rng.randint(-9, 9) * 1e-3, rng.randint(-3, 3) * 1e39]))
            else:
                info = np.iinfo(dt)
                lo, hi = max(info.min, -2 ** 40), min(info.max, 2 ** 40)
                a.append(rng.choice([hi, hi - 1, lo, lo + 1, rng.randint(lo, hi), rng.randint(max(lo, -300), min(hi, 300))]))
        if shape == ():
            vals.append({'arr': a[0], 'dtype': dt})
        else:
            vals.append({'arr': np.array(a, dtype=dt).reshape(shape).tolist(), 'dtype': dt})
    return vals


OFFSET = [1e9]


def spread_scale(kind, flatvals, default):
    """tolerance scale for second moments of data with a large common offset M and a small spread R: the streaming (Welford) update
    loses about n*u*M*R, not u*M*M — a tolerance relative to M*M would hide a catastrophic cancellation"""
    if kind not in ('var', 'cov', 'rvar', 'rcov') or not flatvals:
        return default
    d = len(flatvals[0])
    M = max([abs(x) for c in flatvals for x in c] + [Fraction(1)])
    R = max([max(c[j] for c in flatvals) - min(c[j] for c in flatvals) for j in range(d)] + [Fraction(1, 8)])
    n = len(flatvals)
    tol = Fraction(64 * n) * Fraction(2) ** -53 * M * R + Fraction(1, 10 ** 9) * R * R
    return min(default, tol * 10 ** 9)


def gen_values(rng, n, shape, family):
    if family == 'offset':
        OFFSET[0] = rng.choice([1e9, -3e8, float(2 ** 40), 12345678.0])
    if family == 'pyfirst':
        # a plain Python number first (weakly typed for numpy), narrower numpy floats afterwards: the extreme is one of the observations, exactly
        vals = [rng.choice([1.1, 0.1, -0.3, 1e300, -1e300, 16777217, -16777217, 123456789.123])]
        for _ in range(n - 1):
            vals.append(rng.choice([{'arr': rng.choice([1.5, 2.0, 3.0, -2.5, 0.25, -1.0]), 'dtype': rng.choice(['float32', 'float16'])},
                                    rng.choice([0.7, -0.7, 5, -5])]))
        return vals
    if family == 'narrowint':
        return gen_narrow(rng, n, shape)
    if family == 'mixedwidth':
        return gen_mixedwidth(rng, n, shape)
    vals = []
    for _ in range(n):
        def one():
            if family == 'int':
                return rng.randint(-20, 20)
            if family == 'dyadic':
                return rng.randint(-160, 160) / 8.0
            if family == 'tied':
                return float(rng.choice([-1, 0, 0, 2]))
            if family == 'mixed':
                return rng.choice([rng.randint(-9, 9), rng.randint(-90, 90) / 4.0])
            if family == 'big':
                return float(rng.randint(-3, 3) * 2 ** rng.randint(0, 30))
            if family == 'offset':
                # a large common offset, a small spread (detector pedestal): the variance must come out of the spread, not be
                # lost in the square of the offset — every value is exactly representable
                return OFFSET[0] + rng.randint(-64, 64) / 8.0
            if family == 'sqrtmax':
                # beyond the square root of the largest float (1.34e154): the values cannot be squared, their deviations can
                return float(2 ** 515) + rng.randint(-8, 8) * float(2 ** 485)
            if family == 'nearmax':
                # finite, and so is every mean / extremum of them — but their SUM is not: nothing may be summed up
                return rng.choice([1.0, 1.0, 1.0, -1.0]) * rng.uniform(0.9, 1.7) * 1e308
            raise ValueError(family)
        if shape == ():
            vals.append(one())
        else:
            k = int(np.prod(shape))
            if family == 'mixed':
                # whole arrays of ints or of floats, mixed across the sequence
                if rng.random() < 0.5:
                    a = np.array([rng.randint(-9, 9) for _ in range(k)], dtype=int).reshape(shape)
                    vals.append({'arr': a.tolist(), 'dtype': 'int64'})
                else:
                    a = np.array([rng.randint(-90, 90) / 4.0 for _ in range(k)]).reshape(shape)
                    vals.append({'arr': a.tolist(), 'dtype': 'float64'})
            else:
                a = np.array([float(one()) for _ in range(k)]).reshape(shape)
                vals.append({'arr': a.tolist(), 'dtype': 'float64'})
    return vals


def batch_oracle(kind, vals):
    """exact batch statistic of the whole sequence: dict key -> list of Fractions (flattened)"""
    cols = [acclib.flat(v)[1] for v in vals]
    n = len(cols)
    d = len(cols[0])
    res = {'n': n}
    if kind == 'counter':
        res['value'] = [Fraction(n)]
        return res
    if kind == 'min':
        res['value'] = [min(c[i] for c in cols) for i in range(d)]
        return res
    if kind == 'max':
        res['value'] = [max(c[i] for c in cols) for i in range(d)]
        return res
    mean = [sum(c[i] for c in cols) / n for i in range(d)]
    if kind == 'mean':
        res['value'] = mean
        res['sum'] = [sum(c[i] for c in cols) for i in range(d)]
        return res
    if kind == 'var':
        ss = [sum((c[i] - mean[i]) ** 2 for c in cols) for i in range(d)]
        res['mean'] = mean
        res['rms'] = [s / n for s in ss]
        if n >= 2:
            res['value'] = [s / (n - 1) for s in ss]
        return res
    if kind == 'cov':
        ss = [sum((c[i] - mean[i]) * (c[j] - mean[j]) for c in cols) for i in range(d) for j in range(d)]
        res['mean'] = mean
        res['rms'] = [s / n for s in ss]
        if n >= 2:
            res['value'] = [s / (n - 1) for s in ss]
        return res
    raise ValueError(kind)


def all_integer_observations(vals):
    """every observation is an integer array / numpy integer / Python int (no float among them: then the result is float)"""
    for v in vals:
        if isinstance(v, dict):
            if not str(v.get('dtype', '')).startswith(('int', 'uint')):
                return False
        elif isinstance(v, bool) or not isinstance(v, int):
            return False
    return True


def oracle_check(ctx, kind, vals_prefix, readout, case, scale):
    """compare one implementation read-out with the exact batch statistic"""
    if isinstance(readout, str):
        sig = 'push-raises:%s:%s' % (kind, readout)
        if kind in ('min', 'max') and 'UFuncTypeError' in readout:
            sig = 'minmax-dtype-pinned-by-first-observation'
        ctx.fail(sig, '%s raised %s while accumulating a valid observation' % (acclib.KINDS[kind], readout), case)
        return False
    exp = batch_oracle(kind, vals_prefix)
    ok = True
    if readout['n'] != (True, [float(exp['n'])], []):
        ctx.fail('n-wrong:' + kind, 'n read-out %s != %d' % (readout['n'], exp['n']), case)
        ok = False
    for k in ('value', 'sum', 'rms', 'mean'):
        if k not in exp:
            continue
        iv = readout.get(k)
        if isinstance(iv, str):
            ctx.fail('read-raises:%s:%s:%s' % (kind, k, iv), '%s.%s raised %s' % (kind, k, iv), case)
            ok = False
            continue
        if kind in ('min', 'max') and k == 'value' and all(q.denominator == 1 for q in exp[k]) and all_integer_observations(vals_prefix):
            # integer observations: the extremum is that integer, in an integer dtype, exactly (also beyond 2**53)
            ei = readout.get('exact_int')
            good = ei is not None and len(ei) == len(exp[k]) and all(Fraction(a) == q for a, q in zip(ei, exp[k]))
        elif kind in ('min', 'max'):
            # an extremum is one of the observations: exact wherever a float carries the value exactly
            good = len(iv[1]) == len(exp[k]) and all(
                (not (math.isnan(f) or math.isinf(f)) and Fraction(f) == q) if abs(q) < 2 ** 53 else acclib.close_num(f, q, scale)
                for f, q in zip(iv[1], exp[k]))
        else:
            good = len(iv[1]) == len(exp[k]) and all(acclib.close_num(f, q, scale) for f, q in zip(iv[1], exp[k]))
        if not good:
            ctx.fail('batch-mismatch:%s:%s' % (kind, k),
                     '%s.%s = %s but the batch statistic is %s' % (acclib.KINDS[kind], k, iv[1][:6], [acclib.show(q) for q in exp[k][:6]]),
                     case)
            ok = False
    if kind == 'var' and 'value' in exp and not isinstance(readout.get('std'), str):
        for f, q in zip(readout['std'][1], exp['value']):
            if not acclib.close_num(f * f, q, scale, 1e-8):
                ctx.fail('std-inconsistent', 'std**2 != value', case)
                ok = False
                break
    return ok


def run_case(ctx, kind, vals, label):
    prog = [['new', 'a', kind]]
    for v in vals:
        prog.append(['push', 'a', v])
        prog.append(['read', 'a'])
    return prog


def float_probe(ctx):
    """TEST (not proof): ill-conditioned float data vs the exact rational batch statistic."""
    A = acclib.accmod()
    rng = ctx.rng
    eps = 2.0 ** -52
    nprobe = ctx.scale(40, 400)
    worst = {'mean': 0.0, 'var': 0.0, 'cov': 0.0}
    for t in range(nprobe):
        e = rng.choice([0, 3, 6, 8, 9, 10, 12, 15])
        n = rng.choice([10, 100, 1000] if ctx.quick else [10, 100, 1000, 20000])
        offset = 10.0 ** e * rng.choice([1, -1])
        spread = rng.choice([1.0, 1e-3, 100.0])
        xs = [offset + spread * rng.uniform(-1, 1) for _ in range(n)]
        fx = [Fraction(x) for x in xs]
        mean = sum(fx) / n
        ss = sum((x - mean) ** 2 for x in fx)
        var = ss / (n - 1)
        m = A.Mean()
        v = A.Variance()
        c = A.Covariance()
        for x in xs:
            m += x
            v += x
            c += np.array([x, -x])
        maxabs = max(abs(x) for x in xs)
        case = {'probe': 'float', 'offset': offset, 'spread': spread, 'n': n, 'seed_index': t}
        ctx.count('float_probe_cases')
        # mean: |err| <= C n eps max|x|
        err = abs(Fraction(float(m.value)) - mean)
        bound = Fraction(4 * n * eps * maxabs)
        worst['mean'] = max(worst['mean'], float(err / bound) if bound else 0.0)
        if err > bound:
            ctx.fail('float-mean-unstable', 'Mean error %.3g exceeds 4*n*eps*max|x| = %.3g' % (float(err), float(bound)), case)
        if var > 0:
            kappa = math.sqrt(1.0 + float(mean * mean * n / ss))
            relbound = 8 * n * eps * kappa
            rel = float(abs(Fraction(float(v.value)) - var) / var)
            worst['var'] = max(worst['var'], rel / relbound)
            if rel > relbound and relbound < 0.5:
                ctx.fail('float-variance-unstable',
                         'Variance relative error %.3g exceeds 8*n*eps*kappa = %.3g (kappa=%.3g)' % (rel, relbound, kappa), case)
            cv = np.asarray(c.value)
            relc = max(float(abs(Fraction(float(cv[0, 0])) - var) / var), float(abs(Fraction(float(cv[0, 1])) + var) / var))
            worst['cov'] = max(worst['cov'], relc / relbound)
            if relc > relbound and relbound < 0.5:
                ctx.fail('float-covariance-unstable',
                         'Covariance relative error %.3g exceeds 8*n*eps*kappa = %.3g' % (relc, relbound), case)
    ctx.extra['float_probe (test)'] = {'cases': nprobe, 'worst_error_over_bound': worst}


def check(ctx):
    from harness import formulas
    formulas.check_formulas(ctx, ['Mean._accumulate_obj', 'Mean.sum', 'Variance._accumulate_obj', 'Variance.value', 'Covariance._accumulate_obj',
                                  'Covariance.value'])
    rng = ctx.rng
    ncases = ctx.scale(400, 6000)
    cases = []
    # fixed corpus first: the defect inputs of DESIGN §3 and edge cases
    corpus = [
        ('min', [3, 2.5]), ('max', [1, 2.5, 2]), ('min', [2.5, 3, 1]),
        ('min', [{'arr': [5, 6], 'dtype': 'int64'}, {'arr': [1.5, 9.0], 'dtype': 'float64'}]),
        ('max', [{'arr': [5, 6], 'dtype': 'int64'}, {'arr': [1.5, 9.5], 'dtype': 'float64'}]),
        ('var', [1, 2, 4]), ('var', [7.0]), ('cov', [[1.0, 2.0], [3.0, 2.5], [0.0, 1.0]]),
        ('mean', [0, 0, 0]), ('counter', [None, None]), ('cov', [1.0, 2.0, 4.0]),
    ]
    for kind, vals in corpus:
        cases.append((kind, vals, 'corpus'))
    for _ in range(ncases):
        kind = rng.choice(['counter', 'min', 'max', 'mean', 'mean', 'var', 'var', 'cov', 'cov'])
        shape = rng.choice(SHAPES)
        if kind == 'cov' and int(np.prod(shape)) > 4:
            shape = (2,)
        family = rng.choice(['int', 'dyadic', 'tied', 'mixed', 'big', 'narrowint'] + (['mixedwidth'] * 3 + ['pyfirst'] * 2 if kind in ('min', 'max') else [])
                            + (['nearmax'] if kind in ('min', 'max', 'mean', 'counter') else []) + ['offset']
                            + (['sqrtmax'] if kind in ('var', 'cov', 'mean') else []))
        n = rng.choice([1, 2, 3, 4, 5, 8, 13, 30] if ctx.quick else [1, 2, 3, 5, 8, 13, 30, 60, 150])
        if family == 'pyfirst':
            shape = ()
        cases.append((kind, gen_values(rng, n, shape, family), family))
    lines, spans, progs = [], [], []
    hops = []
    for kind, vals, fam in cases:
        prog = run_case(ctx, kind, vals, fam)
        hops.append(acclib.gen_history_ops(rng, prog) if fam != 'corpus' else {})
        progs.append(prog)
        ml = acclib.model_lines(prog)
        lines += ml
        spans.append(acclib.n_outputs(prog))
    mout = core.run_driver(lines)
    if len(mout) != sum(spans):
        raise core.InfraError('driver produced %d lines, expected %d' % (len(mout), sum(spans)))
    pos = 0
    for (kind, vals, fam), prog, k, hop in zip(cases, progs, spans, hops):
        model = acclib.parse_model(mout[pos:pos + k])
        pos += k
        impl, _ = acclib.run_impl(acclib.apply_history_ops(prog, hop))
        flatvals = [acclib.flat(v)[1] for v in vals] if kind != 'counter' else [[Fraction(0)] for _ in vals]
        mx = max([abs(x) for c in flatvals for x in c] + [Fraction(1)])
        scale = mx * mx if kind in ('var', 'cov') else mx
        if fam in ('offset', 'sqrtmax'):
            scale = spread_scale(kind, flatvals, scale)
        case = {'kind': kind, 'values': vals, 'family': fam, 'history_ops': hop}
        distinct = len({tuple(c) for c in flatvals}) >= 2
        ctx.case((kind, vals), len(vals) >= 3 and distinct, sample=case if fam != 'corpus' else None)
        ctx.count('kind:' + kind)
        ctx.count('family:' + fam)
        ctx.count('len:%d' % len(vals))
        # correspondence: every read-out
        ok_corr = True
        for i, (iv, mv) in enumerate(itertools.zip_longest(impl, model)):
            if iv is None or mv is None or isinstance(iv, str):
                if not (isinstance(iv, str) and iv == mv):
                    ctx.disagree('accumulator-model-correspondence', case, iv, mv, 'at read %d' % i)
                    ok_corr = False
                break
            bad = acclib.compare_read(iv, mv, scale)
            if bad:
                ctx.disagree('accumulator-model-correspondence', case, {k: iv.get(k) for k in bad},
                             {k: str(mv.get(k)) for k in bad}, 'at read %d keys %s' % (i, bad))
                ok_corr = False
                break
        # oracle: exact batch statistic after every push
        if kind == 'counter':
            ovals = [0 for _ in vals]
        else:
            ovals = vals
        for i, iv in enumerate(impl):
            if not oracle_check(ctx, kind, ovals[:i + 1], iv, case, scale):
                break
        if len(impl) < len(vals):
            pass
    float_probe(ctx)
    big_frame_cases(ctx)
    huge_integer_cases(ctx)


def big_frame_cases(ctx):
    """detector-size frames (more than 2**16 pixels) in either memory order, also as transposed views: the memory layout of an array is
    not part of its value. Integer-valued pixels, so the batch statistic computed by numpy in float64 is exact."""
    A = acclib.accmod()
    rng = ctx.rng
    for kind, cls in (('mean', A.Mean), ('var', A.Variance), ('min', A.Minimum)):
        layout = rng.choice(['fortran-first', 'transposed-views', 'c-then-fortran'])
        shape = (260, 256)
        frames = [np.array([[float((i * 7 + j * 3 + t * 11) % 23 - 9) for j in range(shape[1])] for i in range(shape[0])]) for t in range(4)]
        fed = []
        for t, fr in enumerate(frames):
            if layout == 'fortran-first':
                fed.append(np.asfortranarray(fr) if t == 0 else fr)
            elif layout == 'transposed-views':
                fed.append(np.ascontiguousarray(fr.T).T)       # same values, F-ordered view
            else:
                fed.append(fr if t == 0 else np.asfortranarray(fr))
        case = dict(kind=kind, big_frames=list(shape), layout=layout, n=len(frames))
        ctx.case(('big-frame', kind, layout), True, sample=case)
        ctx.count('big_frames')
        acc = cls()
        try:
            for fr in fed:
                acc.accumulate(fr)
            got = np.asarray(acc.value)
        except Exception as e:  # noqa
            ctx.fail('push-raises:%s:!%s' % (kind, type(e).__name__), 'accumulating %s frames raised %r' % (layout, e), case)
            continue
        stack = np.stack(frames)
        want = stack.mean(axis=0) if kind == 'mean' else (stack.var(axis=0, ddof=1) if kind == 'var' else stack.min(axis=0))
        if acc.n != len(frames) or got.shape != want.shape or not np.allclose(got, want, rtol=1e-12, atol=1e-12):
            bad = int(np.sum(~np.isclose(got, want, rtol=1e-12, atol=1e-12))) if got.shape == want.shape else -1
            ctx.fail('batch-mismatch:%s:value' % kind, '%s over %d frames of %s pixels (%s): %d pixels differ from the batch statistic (n=%s)' % (
                kind, len(frames), shape, layout, bad, acc.n), case)


def huge_integer_cases(ctx):
    """finite reals of any magnitude: Python integers with more digits than the interpreter will convert to a string (4300 by default).
    Counting and comparing need no string; nothing about these numbers is ever printed here either."""
    A = acclib.accmod()
    rng = ctx.rng
    base = 10 ** 5000
    vals = [base + rng.randint(-50, 50) for _ in range(6)]
    for kind, cls in (('counter', A.Counter), ('min', A.Minimum), ('max', A.Maximum)):
        case = dict(kind=kind, values='six Python integers near 10**5000', family='hugeint')
        ctx.case(('hugeint', kind), True, sample=case)
        ctx.count('huge_integers')
        acc = cls()
        try:
            for v in vals:
                acc.accumulate(v)
            n = acc.n
            got = acc.value
        except Exception as e:  # noqa
            ctx.fail('push-raises:%s:!%s' % (kind, type(e).__name__), '%s raised %s while accumulating a 5001-digit integer' % (acclib.KINDS[kind], type(e).__name__), case)
            continue
        want = len(vals) if kind == 'counter' else (min(vals) if kind == 'min' else max(vals))
        try:
            same = int(np.asarray(got).item() if kind != 'counter' else got) == want
        except Exception:  # noqa
            same = False
        if n != len(vals) or not same:
            ctx.fail('batch-mismatch:%s:value' % kind, '%s of six 5001-digit integers is wrong (offset from 10**5000: %s, expected %s; n=%s)' % (
                kind, 'n/a' if not same and kind == 'counter' else 'differs', want - base if kind != 'counter' else want, n), case)


def replay(ctx, data):
    case = data['case']
    if case.get('family') == 'hugeint':
        huge_integer_cases(ctx)
        return
    if case.get('big_frames'):
        big_frame_cases(ctx)
        return
    if case.get('probe') == 'float':
        float_probe(ctx)
        return
    prog = run_case(ctx, case['kind'], case['values'], 'replay')
    impl, _ = acclib.run_impl(acclib.apply_history_ops(prog, case.get('history_ops')))
    vals = case['values'] if case['kind'] != 'counter' else [0 for _ in case['values']]
    flatvals = [acclib.flat(v)[1] for v in vals]
    mx = max([abs(x) for c in flatvals for x in c] + [Fraction(1)])
    scale = mx * mx if case['kind'] in ('var', 'cov') else mx
    for i, iv in enumerate(impl):
        if not oracle_check(ctx, case['kind'], vals[:i + 1], iv, case, scale):
            break
    ctx.case(('replay', case), True, sample=case)


if __name__ == '__main__':
    import sys
    core.main(sys.modules[__name__])
