"""C19 — advertised stream helpers exist; observe is transparent; simplecache = window."""
import json
import os
import subprocess
import sys
import numpy as np
from harness import core

ID = 'C19'
MODULE = 'Gpv.Props.C19'
THEOREMS = core.theorems('C19')
RULE = ('(a) the package namespace: __all__ and the bound names are read in a fresh interpreter, a real star import is executed, and the '
        'model\'s starImport is evaluated on the real lists; (b) observe / observe_time / simplecache on instrumented sources (draw '
        'counter at each hand-over, identity of handed-on elements), observer functions that log (function index, element), intervals '
        '1-7, window lengths 1-6, partial consumption, and a substituted virtual clock (module attribute `time`) with non-decreasing '
        'readings; every history is compared with the Lean machines (drawn, out, call log) and with direct oracles. '
        'non-trivial: interval >= 2 or window >= 2 with more elements than that, or a clock with ties; distinct by (helper, parameters, stream).')
PARTIAL = []
ASSUMPTIONS = ['clock readings are non-decreasing and the first reading exceeds the interval (as those of the epoch clock do)']


def namespace_case(ctx):
    code = r'''
import json, sys
sys.path.insert(0, %r)
import generatorpipeline as G
out = {'all': list(G.__all__), 'bound': [n for n in dir(G)]}
ns = {}
try:
    exec('from generatorpipeline import *', ns)
    out['star'] = 'ok'
    out['star_names'] = sorted(k for k in ns if not k.startswith('__'))
except Exception as e:
    out['star'] = type(e).__name__ + ': ' + str(e)
helpers = ['simplecache', 'observe', 'observe_time', 'savestream', 'loadstream']
out['attr'] = {h: hasattr(G, h) for h in helpers}
import generatorpipeline.streamfunctions as S
out['same_object'] = {h: (getattr(G, h, None) is getattr(S, h)) for h in helpers}
print(json.dumps(out))
''' % core.REPO
    r = subprocess.run([core.PY, '-c', code], capture_output=True, text=True, timeout=120,
                       env=dict(os.environ, PYTHONDONTWRITEBYTECODE='1'))
    if r.returncode != 0:
        raise core.InfraError('namespace probe failed: ' + r.stderr[-1000:])
    info = json.loads(r.stdout.strip().splitlines()[-1])
    helpers = ['simplecache', 'observe', 'observe_time', 'savestream', 'loadstream']
    case = dict(namespace=True)
    ctx.case(('namespace',), True, sample=dict(all=info['all'], star=info['star']))
    ctx.case(('namespace-attrs', tuple(sorted(info['attr'].items()))), True)
    missing = [h for h in helpers if not info['attr'][h] or not info['same_object'][h]]
    if info['star'] != 'ok':
        ctx.fail('star-import-fails', '`from generatorpipeline import *` raises %s' % info['star'], case)
    elif missing or any(h not in info['star_names'] for h in helpers):
        ctx.fail('advertised-helper-unreachable', 'helpers not reachable from the package: %s' % (missing or
                 [h for h in helpers if h not in info['star_names']]), case)
    if any(h not in info['all'] for h in helpers):
        ctx.fail('helper-not-advertised', '__all__ no longer lists %s' % [h for h in helpers if h not in info['all']], case)
    ml = core.run_driver(['strm.star | %s | %s' % (' '.join(info['all']), ' '.join(info['bound']))])[0]
    impl = 'ok ' + ' '.join(info['all']) if info['star'] == 'ok' else 'AttributeError ' + info['star'].split("'")[-2]
    if ml != impl:
        ctx.disagree('star-import-equals-model', case, impl, ml)


class NoTruth:
    """a return value that refuses to be truth-tested"""
    def __bool__(self):
        raise RuntimeError('the return value of an observer was truth-tested')


def elk(el):
    """position of a source element"""
    if isinstance(el, Unprintable):
        return el.k
    if isinstance(el, np.ndarray):
        return int(el[0])
    return el[1]


def show(calls):
    return [(j, ('unprintable', el.k) if isinstance(el, Unprintable) else (('array', elk(el)) if isinstance(el, np.ndarray) else el)) for j, el in calls]


def same_calls(a, b):
    return [(j, id(el)) for j, el in a] == [(j, id(el)) for j, el in b]


class Unprintable:
    def __init__(self, k):
        self.k = k

    def __repr__(self):
        raise RuntimeError('repr() of a stream element was called')

    __str__ = __repr__

    def __eq__(self, other):
        return isinstance(other, Unprintable) and other.k == self.k

    def __hash__(self):
        return hash(('unprintable', self.k))


class Src:
    def __init__(self, n, fail=False, rewind=False):
        self.n, self.i, self.fail = n, 0, fail
        self.rewind = rewind           # a tutorial-style iterator whose __iter__ starts over: `for x in it` calls it exactly once
        self.items = [(('el', k) if k % 4 != 2 else Unprintable(k)) for k in range(n)]      # some elements cannot be printed
        for k in range(n):
            # … and some are arrays the producer has made read-only (a memory-mapped frame, np.frombuffer of a message): still read-only afterwards
            if k % 7 == 3:
                self.items[k] = np.frombuffer(np.array([float(k), 0.5]).tobytes(), dtype=float)
            elif k % 7 == 5:
                a = np.array([float(k), 1.5])
                a.setflags(write=False)
                self.items[k] = a

    def __iter__(self):
        if self.rewind:
            self.i = 0
        return self

    def __next__(self):
        if self.i >= self.n:
            if self.fail:
                raise KeyError('src')
            raise StopIteration
        self.i += 1
        return self.items[self.i - 1]

    closed_calls = 0

    def close(self):
        # the source is also a resource with a close() of its own (a reader): closing it is its owner's business, not the helper's
        self.closed_calls += 1


class Clock:
    def __init__(self, readings):
        self.readings = list(readings)
        self.calls = 0

    def time_ns(self):
        self.calls += 1
        return self.readings.pop(0)


SEND_STEPS = [False]


def drive(stream, src, k, close):
    """k nexts then optional close; returns per-demand (draws, outputs so far), final status"""
    got, hist, status = [], [], 'open'
    for step in range(k):
        try:
            # (a consumer may use send() as well as next(): the helpers do not listen to what they are sent)
            got.append(stream.send(('sent', step)) if (SEND_STEPS[0] and step > 0 and step % 2 == 1 and status == 'open' and got) else next(stream))
            hist.append((src.i, len(got)))
        except StopIteration:
            status = 'done' if status == 'open' else status
            hist.append((src.i, len(got)))
        except KeyError:
            status = 'failed' if status == 'open' else status
            hist.append((src.i, len(got)))
        except ValueError:
            status = 'valueerror' if status == 'open' else status
            hist.append((src.i, len(got)))
        except Exception as e:  # noqa
            status = ('raised ' + type(e).__name__) if status == 'open' else status
            hist.append((src.i, len(got)))
    if close and status == 'open':
        stream.close()
        status = 'closed'
    return got, hist, status


def observe_cases(ctx):
    import generatorpipeline.streamfunctions as S
    rng = ctx.rng
    lines, metas = [], []
    for _ in range(ctx.scale(200, 2000)):
        timed = rng.random() < 0.45
        n = rng.choice([0, 1, 2, 5, 9, 14])
        nf = rng.choice([0, 1, 2, 3])
        fail = rng.random() < 0.2
        k = rng.randint(0, n + 2)
        close = rng.random() < 0.4
        long_stream = (not timed) and rng.random() < 0.06
        if long_stream:
            n = rng.choice([130, 300])          # longer than an 8-bit counter can count
            k = n + 1
        src = Src(n, fail)
        SEND_STEPS[0] = rng.random() < 0.3
        log = []
        # what an observer returns is its own business (file.write returns a count, a predicate returns a bool, ...): never looked at
        rets = [rng.choice([None, None, True, 1, 'text', [0], np.array([1, 2]), NoTruth(), 'el']) for _ in range(nf)]
        funcs = [(lambda el, j=j: (log.append((j, el)), el if isinstance(rets[j], str) and rets[j] == 'el' else rets[j])[1]) for j in range(nf)]
        if not timed:
            # the interval may come as any integer-like number (a numpy scalar from a config array, a bool, a float like 2.0)
            iv_raw = rng.choice([np.int8(3), np.uint8(5), np.int16(2), np.int64(3), 2.0, True]) if (long_stream or rng.random() < 0.15) \
                else rng.choice([1, 1, 2, 3, 7])
            if not long_stream and rng.random() < 0.08:
                iv_raw = rng.choice([sys.maxsize, 10 ** 18, 2 ** 63, 2 ** 70 + 1])       # "only the first element": any interval >= 1 is an interval
            iv = int(iv_raw)
            stream = S.observe(src, *funcs, interval=iv_raw)
            if src.i != 0 or log:
                ctx.fail('observe-not-lazy', 'creating the stream drew elements or called observers', dict(helper='observe'))
                continue
            got, hist, status = drive(stream, src, k, close)
            case = dict(helper='observe', n=n, nfuncs=nf, interval=iv, interval_type=type(iv_raw).__name__, k=k, close=close, source_fails=fail)
            want_calls = [(j, src.items[i]) for i in range(min(k, n)) if i % iv == 0 for j in range(nf)]
            lines.append('strm.observe %d %d %d %s | %s' % (nf, iv, n, 'e1' if fail else '-', ' '.join(['N'] * k + (['C'] if close else []))))
            nontriv = iv >= 2 and n > iv
        else:
            iv_s = rng.choice([0.5, 1.0, 0.001])
            iv_ns = int(float(iv_s) * 1e9)
            # small readings, or real epoch nanoseconds (1.7e18 > 2**53) with arrivals a few ns around the interval boundary:
            # the comparison is one of integers
            t = iv_ns + rng.randint(1, 10 ** 9) if rng.random() < 0.6 else 1700000000000000000 + rng.randint(1, 10 ** 9)
            readings = []
            for _ in range(n + 3):
                readings.append(t)
                t += rng.choice([0, 0, 1, iv_ns // 2, iv_ns, iv_ns + 1, iv_ns + 100, iv_ns - 100, 3 * iv_ns])
            clk = Clock(readings)
            old = S.time
            S.time = clk
            try:
                stream = S.observe_time(src, *funcs, interval=iv_s)
                got, hist, status = drive(stream, src, k, close)
            finally:
                S.time = old
            case = dict(helper='observe_time', n=n, nfuncs=nf, interval=iv_s, k=k, close=close, source_fails=fail, clock=readings[:n])
            want_calls, tlast = [], 0
            for i in range(min(k, n)):
                if readings[i] - tlast > iv_ns:
                    tlast = readings[i]
                    want_calls += [(j, src.items[i]) for j in range(nf)]
            lines.append('strm.otime %d %d %d %s | %s | %s' % (nf, iv_ns, n, 'e1' if fail else '-', ' '.join(map(str, readings[:max(n, 1)])),
                                                          ' '.join(['N'] * k + (['C'] if close else []))))
            nontriv = any(a == b for a, b in zip(readings, readings[1:n])) and n >= 3
        ctx.case((case['helper'], n, nf, case['interval'], k, close, fail, tuple(case.get('clock', []))), nontriv, sample=case if n <= 5 else None)
        ctx.count('helper:' + case['helper'])
        # oracle
        if len(got) != min(k, n) or any(g is not src.items[i] for i, g in enumerate(got)):
            ctx.fail('observe-not-transparent:' + case['helper'], 'handed through %d elements (identity kept: %s), expected %d' % (
                len(got), all(g is src.items[i] for i, g in enumerate(got)), min(k, n)), case)
            continue
        if any(d != y for (d, y) in hist if y > 0 and d <= n and y == d) and False:
            pass
        if any(d > y + (1 if False else 0) and y < n and d != y for d, y in hist[:min(k, n)]):
            ctx.fail('observe-draws-ahead:' + case['helper'], 'draw counter / hand-overs %s' % hist[:8], case)
            continue
        if not same_calls(log, want_calls):
            ctx.fail('observer-calls-wrong:' + case['helper'], 'observer calls %s, expected %s' % (show(log[:8]), show(want_calls[:8])), case)
            continue
        want_status = 'open'
        if k > n:
            want_status = 'failed' if fail else 'done'
        elif close:
            want_status = 'closed'
        if status != want_status:
            ctx.fail('observe-end-state:' + case['helper'], 'stream ended as %s, expected %s' % (status, want_status), case)
            continue
        if src.closed_calls:
            ctx.fail('observe-closes-source:' + case['helper'], 'the helper called close() on its source (%d times); the source belongs to the caller' % src.closed_calls, case)
            continue
        thawed = [k for k, el in enumerate(src.items) if isinstance(el, np.ndarray) and el.flags.writeable]
        if thawed:
            ctx.fail('observe-changes-element:' + case['helper'], 'read-only array elements %s are writeable after they went through' % thawed[:6], case)
            continue
        metas.append((case, len(got), src.i, [(j, elk(el)) for j, el in log], len(lines) - 1, k + (1 if close else 0)))
    # a long timed stream: hundreds of elements within one interval (a burst), then sparse arrivals — which elements are observed depends on
    # their arrival times alone, however many came before
    for iv_s, burst in ((1.0, 600), (2.5, 2000)):
        iv_ns = int(iv_s * 1e9)
        t = 1700000000000000000
        readings = []
        for i in range(burst + 14):
            readings.append(t)
            t += 1000 if i < burst else rng.choice([int(0.7 * iv_ns), int(0.4 * iv_ns), iv_ns + 5, 2 * iv_ns])
        n = len(readings)
        src = Src(n, False)
        SEND_STEPS[0] = False
        log = []
        clk = Clock(readings + [readings[-1]] * 3)
        old = S.time
        S.time = clk
        try:
            stream = S.observe_time(src, lambda el: log.append((0, el)), interval=iv_s)
            got, hist, status = drive(stream, src, n + 1, False)
        finally:
            S.time = old
        want_calls, tlast = [], 0
        for i in range(n):
            if readings[i] - tlast > iv_ns:
                tlast = readings[i]
                want_calls.append((0, src.items[i]))
        case = dict(helper='observe_time', n=n, nfuncs=1, interval=iv_s, burst=burst, clock='%d arrivals 1 us apart, then sparse' % burst)
        ctx.case(('observe_time-burst', iv_s, burst, tuple(readings[burst:])), True, sample=case)
        ctx.count('timed_bursts')
        if len(got) != n or status != 'done' or not same_calls(log, want_calls):
            ctx.fail('observer-calls-wrong:observe_time', 'after a burst of %d elements: observed positions %s, expected %s (handed through %d of %d, ended %s)' % (
                burst, [elk(el) for _, el in log][:12], [elk(el) for _, el in want_calls][:12], len(got), n, status), case)
    mout_all = core.run_driver(lines)
    # each line yields one output line per demand
    pos = 0
    outs = []
    for ln in lines:
        nd = len(ln.split('|')[-1].split())
        outs.append(mout_all[pos:pos + nd])
        pos += nd
    for case, ngot, draws, calls, li, nd in metas:
        if nd == 0:
            continue
        last = dict(p.split('=', 1) for p in outs[li][-1].split(' ') if '=' in p)
        m_out = [t for t in last.get('out', '').split(',') if t]
        m_calls = [tuple(int(x) for x in t.split(':')) for t in last.get('calls', '').split(',') if t]
        if (len(m_out), int(last['drawn']), m_calls) != (ngot, draws, calls):
            ctx.disagree('observe-machine-correspondence', case, dict(handed=ngot, drawn=draws, calls=calls[:6]), outs[li][-1][:300])


def simplecache_cases(ctx):
    import generatorpipeline.streamfunctions as S
    rng = ctx.rng
    lines, metas = [], []
    for _ in range(ctx.scale(150, 1500)):
        n = rng.choice([0, 1, 2, 4, 7, 12])
        L = rng.choice([1, 2, 3, 4, 6])
        k = rng.randint(0, n + 2)
        fail = rng.random() < 0.2
        src = Src(n, fail, rewind=rng.random() < 0.4)
        SEND_STEPS[0] = rng.random() < 0.3
        stream = S.simplecache(src, L)
        got, hist, status = drive(stream, src, k, False)
        case = dict(helper='simplecache', n=n, length=L, k=k, source_fails=fail)
        ctx.case(('simplecache', n, L, k, fail), L >= 2 and n > L, sample=case if n <= 4 else None)
        ctx.count('helper:simplecache')
        nwin = max(0, n - L + 1)
        want = [[src.items[i] for i in range(j, j + L)] for j in range(min(k, nwin))]
        idx = elk
        if len(got) != len(want) or any(len(a) != len(b) or any(x is not y for x, y in zip(a, b)) for a, b in zip(got, want)):
            ctx.fail('simplecache-window-wrong', 'windows %s, expected %s' % ([[idx(e) for e in w] for w in got][:5], [[idx(e) for e in w] for w in want][:5]), case)
            continue
        if any(a is b for i, a in enumerate(got) for b in got[i + 1:]) or any(not isinstance(w, list) for w in got):
            ctx.fail('simplecache-list-not-fresh', 'the same list object was handed out twice', case)
            continue
        if any(d != j + L for j, (d, y) in enumerate(hist[:len(got)])):
            ctx.fail('simplecache-draws-ahead', 'draw counter at the hand-overs: %s (window length %d)' % ([d for d, y in hist[:len(got)]], L), case)
            continue
        lines.append('strm.scache 1 %d %d %s | %s' % (L, n, 'e1' if fail else '-', ' '.join(['N'] * k)))
        metas.append((case, [[idx(e) for e in w] for w in got], src.i, status, k))
    # non-iterators are rejected
    for bad in ([1, 2, 3], range(5), 'abc', (1,), {'a': 1}, None, 7):
        case = dict(helper='simplecache', non_iterator=type(bad).__name__)
        ctx.case(('simplecache-noniter', type(bad).__name__), True)
        try:
            s = S.simplecache(bad, 2)
            next(s)
            ctx.fail('simplecache-accepts-non-iterator', 'a %s was accepted' % type(bad).__name__, case)
        except ValueError:
            pass
        except StopIteration:
            ctx.fail('simplecache-accepts-non-iterator', 'a %s was accepted (empty stream)' % type(bad).__name__, case)
        except Exception as e:  # noqa
            ctx.fail('simplecache-wrong-rejection', 'a %s was rejected with %r instead of ValueError' % (type(bad).__name__, e), case)
    lines.append('strm.scache 0 2 3 - | N')
    mout = core.run_driver(lines)
    if 'err=true' not in mout[-1] or 'drawn=0' not in mout[-1]:
        raise core.InfraError('model does not reject non-iterators: ' + mout[-1])
    pos = 0
    for case, wins, draws, status, k in metas:
        out = mout[pos:pos + k]
        pos += k
        if k == 0:
            continue
        last = dict(p.split('=', 1) for p in out[-1].split(' ') if '=' in p)
        m_w = [[int(x) for x in w.split(',')] for w in last.get('out', '').split(';') if w]
        m_pc = last['pc']
        impl_pc = {'open': 'atYield', 'done': 'done', 'failed': 'failed'}[status]
        if (m_w, int(last['drawn']), m_pc) != (wins, draws, impl_pc):
            ctx.disagree('simplecache-machine-correspondence', case, dict(windows=wins, drawn=draws, state=impl_pc), out[-1][:300])


def check(ctx):
    namespace_case(ctx)
    observe_cases(ctx)
    simplecache_cases(ctx)


def replay(ctx, data):
    check(ctx)


if __name__ == '__main__':
    import sys
    core.main(sys.modules[__name__])
