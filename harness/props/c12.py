"""C12 — array observations are element-wise: one accumulator = a grid of scalar ones."""
from fractions import Fraction
import itertools
import numpy as np
from harness import core, acclib, p2lib
from harness.props import c05, c07

ID = 'C12'
MODULE = 'Gpv.Props.C12'
MODULES = ['Gpv.Props.C12', 'Gpv.Props.C12P2', 'Gpv.Props.C12Alias']
THEOREMS = core.theorems('C12', 'C12P2', 'C12Alias')
RULE = ('accumulator kind (Minimum, Maximum, Mean, Variance, RunningMean, RunningVariance, Covariance, CDF/Quantile estimators) x shape '
        '(0-d to 3-d) x sequence; after EVERY observation (and after merges) each component of the array accumulator is compared with a '
        'separate scalar accumulator of the real code fed that component only (oracle, rtol 1e-12; exact for ranks, min, max), and the '
        'array accumulator is compared with the Lean array model (Val with numpy broadcasting) in exact rationals; P² components use '
        'different sequence families so that they take different branches in the same step. non-trivial: >= 2 components with '
        'different data and >= 3 observations; distinct by (kind, shape, data).')
PARTIAL = ['the np.where (vectorised) P2 update IS modelled (Gpv.Model.P2Vec) and proved equal, per component, to the scalar update '
           '(C12P2.run_col); the model of the array estimator is compared bit-for-bit in lock-step with the implementation',
           '"to the last few bits": the theorems are exact (any operations, even Float: the projection lemmas use no field axiom); '
           'the implementation comparison uses rtol 1e-12']
ASSUMPTIONS = ['numpy ufuncs and np.where act element-wise']

KINDS = ['min', 'max', 'mean', 'var', 'rmean', 'rvar', 'cov']


def comp_values(vals, c):
    return [float(np.asarray(acclib.to_obj(v), dtype=float).ravel()[c]) for v in vals]


def close(a, b, rtol=1e-12):
    a, b = float(a), float(b)
    return a == b or abs(a - b) <= rtol * max(abs(a), abs(b), 1e-300)


def readout(kind, acc):
    if kind in ('var', 'rvar'):
        try:
            v = acc.value
        except ZeroDivisionError:
            v = None
        return dict(value=v, rms=acc.rms, mean=acc.mean.value, n=acc.n)
    return dict(value=acc.value, n=acc.n)


def own_view(acc, kind, shape, pick):
    """an observation made from the accumulator's own read-out — the current mean put in place of a dropped frame, mirrored: a VIEW
    (first axis reversed, or transposed) of an array the accumulator handed out, which may well be its live state. Returns (view, values)"""
    cands = [acc.mean.value, acc.rms] if kind in ('var', 'rvar') else [acc.value]
    cands = [c for c in cands if isinstance(c, np.ndarray) and c.shape == tuple(shape)]
    if not cands:
        return None, None
    ro = cands[pick % len(cands)]
    mirror = (lambda a: a.T) if (len(shape) == 2 and shape[0] == shape[1] and pick % 2) else ((lambda a: a[::-1]) if shape[0] >= 2 else (lambda a: a[..., ::-1]))
    view = mirror(ro)
    # (for a plain Mean the model's one-statement step gives the same for a view as for a copy — C12Alias.mean_one_eq_pure — so the tie
    # holds whether or not `value` is the live state)
    of_mean = (kind in ('var', 'rvar') and ro is cands[0] and np.shares_memory(ro, acc.mean.value)) or kind == 'mean'
    # component i of the view is component sigma[i] of the array it is a view of
    sigma = [int(t) for t in mirror(np.arange(int(np.prod(shape))).reshape(shape)).ravel()]
    OWN_VIEW_INFO[0] = dict(of_mean=bool(of_mean), sigma=sigma)
    return view, np.array(view, dtype=float, copy=True)


OWN_VIEW_INFO = [None]
ALIAS_TIES = []          # (driver line, what the real accumulator holds afterwards, case): compared with Model/Alias.lean at the end of the check


def alias_tie_before(arr, values):
    """driver line for the aliasing model: the array Variance's state (exact rationals of its floats) and the observation — a view of the
    running mean where it is one, else the values as a fresh array"""
    info = OWN_VIEW_INFO[0]
    fq = lambda a: ' '.join(acclib.fmt_frac(Fraction(float(t))) for t in np.asarray(a, dtype=float).ravel())     # noqa
    obs = ('view ' + ' '.join(map(str, info['sigma']))) if info['of_mean'] else ('fresh ' + fq(values))
    if not hasattr(arr, 'rms'):
        return 'alias.meanstep one %d | %s | %s' % (arr.n, fq(arr.value), obs)          # a plain Mean: its value IS its state
    return 'alias.step fixed %d | %s | %s | %s' % (arr.n, fq(arr.mean.value), fq(arr.rms), obs)


def grid_case(ctx, kind, shape, vals, L, merge_at, own_at=None):
    """array accumulator vs grid of scalar accumulators, both on the real code"""
    A = acclib.accmod()
    cls = getattr(A, acclib.KINDS[kind])
    mk = (lambda: cls(lifetime=L)) if kind in ('rmean', 'rvar') else cls
    ncomp = int(np.prod(shape)) if shape else 1
    arr, arr2 = mk(), mk()
    grid = [mk() for _ in range(ncomp)]
    grid2 = [mk() for _ in range(ncomp)]
    case = dict(kind=kind, shape=list(shape), values=vals, L=L, merge_at=merge_at, own_at=own_at)
    for i, v in enumerate(vals):
        obj = acclib.to_obj(v)
        second = merge_at is not None and i >= merge_at
        if own_at and own_at[0] == i and not second and ncomp >= 2 and arr.n >= 1:
            view, values = own_view(arr, kind, shape, own_at[1])
            if view is not None:
                ctx.count('own_readout_as_observation')
                tie = alias_tie_before(arr, values) if kind in ('var', 'mean') and arr.n >= 1 else None
                arr.accumulate(view)
                if tie and kind == 'var':
                    ALIAS_TIES.append((tie, (arr.n, [float(t) for t in np.ravel(arr.mean.value)], [float(t) for t in np.ravel(arr.rms)]), case))
                elif tie:
                    ALIAS_TIES.append((tie, (arr.n, [float(t) for t in np.ravel(arr.value)], []), case))
                for c in range(ncomp):
                    grid[c].accumulate(float(values.ravel()[c]))
                if not compare(ctx, kind, arr, grid, ncomp, case, 'after a mirrored view of its own read-out was fed before observation %d' % i):
                    return False
        (arr2 if second else arr).accumulate(obj)
        flat = np.asarray(obj, dtype=float).ravel()
        for c in range(ncomp):
            (grid2 if second else grid)[c].accumulate(float(flat[c]))
        target, tgrid = (arr2, grid2) if second else (arr, grid)
        if not compare(ctx, kind, target, tgrid, ncomp, case, 'after observation %d' % i):
            return False
    if merge_at is not None and kind in ('min', 'max', 'mean', 'var'):
        arr.accumulate(arr2)
        for c in range(ncomp):
            grid[c].accumulate(grid2[c])
        if not compare(ctx, kind, arr, grid, ncomp, case, 'after the merge'):
            return False
        # keep using the receiver; the accumulator merged in must still agree with its own scalar grid
        for v in vals[:2]:
            obj = acclib.to_obj(v)
            arr.accumulate(obj)
            flat = np.asarray(obj, dtype=float).ravel()
            for c in range(ncomp):
                grid[c].accumulate(float(flat[c]))
        if not compare(ctx, kind, arr, grid, ncomp, case, 'after observations following the merge'):
            return False
        if arr2.n > 0 and not compare(ctx, kind, arr2, grid2, ncomp, case, 'merged-in accumulator after the receiver was used further'):
            return False
    return True


def compare(ctx, kind, arr, grid, ncomp, case, where):
    ra = readout(kind, arr)
    for c in range(ncomp):
        rg = readout(kind, grid[c])
        for k, va in ra.items():
            vg = rg[k]
            if k == 'n':
                if va != vg:
                    ctx.fail('elementwise-n', 'n differs %s' % where, case)
                    return False
                continue
            if va is None or vg is None:
                if (va is None) != (vg is None):
                    ctx.fail('elementwise-error-differs', '%s: error on one side only %s' % (k, where), case)
                    return False
                continue
            a = np.asarray(va, dtype=float).ravel()
            if a.size != ncomp:
                ctx.fail('elementwise-shape', '%s has %d components, expected %d %s' % (k, a.size, ncomp, where), case)
                return False
            exact = kind in ('min', 'max')
            if (exact and float(a[c]) != float(vg)) or not close(a[c], vg):
                ctx.fail('component-differs-from-scalar-accumulator:' + kind,
                         '%s.%s component %d is %r, a scalar accumulator fed that component reports %r (%s)' % (
                             acclib.KINDS[kind], k, c, float(a[c]), float(vg), where), case)
                return False
    return True


def cov_case(ctx, vals, d, frame=None, own_at=None):
    """frame = [shape, order]: the d components arrive as a frame of that shape (component i = element i in the usual row-major numbering, as
    numpy.cov of the flattened frames has it), stored in C or Fortran order or handed over as a transposed view — the layout in memory is not
    part of an array's value"""
    A = acclib.accmod()
    C = A.Covariance()
    V = [A.Variance() for _ in range(d)]
    pairs = {(i, j): A.Covariance() for i in range(d) for j in range(d) if i < j}
    case = dict(kind='cov', d=d, values=vals, frame=frame, own_at=own_at)
    for n, v in enumerate(vals, 1):
        x = np.asarray(acclib.to_obj(v), dtype=float)
        if frame:
            shp, order = tuple(frame[0]), frame[1]
            fr = x.reshape(shp)
            fr = np.asfortranarray(fr) if order == 'F' else (np.ascontiguousarray(fr.T).T if order == 'T' else np.ascontiguousarray(fr))
            C += fr
        else:
            C += x
        for i in range(d):
            V[i] += float(x[i])
        for (i, j), acc in pairs.items():
            acc += np.array([x[i], x[j]])
        if own_at == n and not frame:
            # the current mean, mirrored, put in as an observation: a view of what the accumulator handed out
            view = C.mean.value[::-1]
            x = np.array(view, dtype=float, copy=True)
            ctx.count('own_readout_as_observation')
            fq = lambda a: ' '.join(acclib.fmt_frac(Fraction(float(t))) for t in np.asarray(a, dtype=float).ravel())     # noqa
            tie = 'alias.covstep fixed %d | %s | %s | view %s' % (C.n, fq(C.mean.value), fq(C.rms), ' '.join(str(d - 1 - i) for i in range(d)))
            C += view
            ALIAS_TIES.append((tie, (C.n, [float(t) for t in np.ravel(C.mean.value)], [float(t) for t in np.ravel(C.rms)]), case))
            for i in range(d):
                V[i] += float(x[i])
            for (i, j), acc in pairs.items():
                acc += np.array([x[i], x[j]])
        if n < 2:
            continue
        M = np.asarray(C.value)
        scale = max(1.0, float(np.max(np.abs(M))))
        for i in range(d):
            if abs(M[i, i] - float(V[i].value)) > 1e-11 * scale:
                ctx.fail('cov-diagonal-not-variance', 'entry (%d,%d)=%r but Variance of component %d is %r' % (i, i, M[i, i], i, V[i].value), case)
                return
            for j in range(i + 1, d):
                pij = float(np.asarray(pairs[(i, j)].value)[0, 1])
                if abs(M[i, j] - pij) > 1e-11 * scale or abs(M[i, j] - M[j, i]) > 1e-11 * scale:
                    ctx.fail('cov-entry-not-pair-covariance', 'entry (%d,%d)=%r, covariance of the two components alone %r, transposed %r' % (
                        i, j, M[i, j], pij, M[j, i]), case)
                    return


def p2_case(ctx, rng, lines, posts, vlines, vposts):
    spec = p2lib.gen_grid(rng)
    shape = rng.choice([(2,), (3,), (2, 2), (2, 1, 2)])
    ncomp = int(np.prod(shape))
    n = rng.choice([8, 20, 50])
    cols = [p2lib.gen_seq(rng, n, rng.choice(p2lib.FAMILIES)) for _ in range(ncomp)]
    case = dict(spec=spec, family='mixed', n=n, shape=list(shape), cols=cols)
    est = p2lib.make(spec)
    grid = [p2lib.make(spec) for _ in range(ncomp)]
    diverse = False
    qd = [float(t) for t in est.q_desired]
    for i in range(n):
        x = np.array([cols[c][i] for c in range(ncomp)], dtype=float).reshape(shape)
        pre = [p2lib.state(est, c) for c in range(ncomp)]
        est.accumulate(x)
        # lock-step with the ARRAY model (marker-major rows, np.where selections)
        nrows = len(pre[0][1])
        hflat = [pre[c][1][r] for r in range(nrows) for c in range(ncomp)]
        pflat = [pre[c][2][r] for r in range(len(qd)) for c in range(ncomp)]
        vlines.append('p2f.vstep %d %d | %s | %s | %s | %s' % (ncomp, pre[0][0], ' '.join(p2lib.hexf(t) for t in qd),
                      ' '.join(p2lib.hexf(t) for t in hflat), ' '.join(p2lib.hexf(t) for t in pflat),
                      ' '.join(p2lib.hexf(cols[c][i]) for c in range(ncomp))))
        vposts.append((c07.small(case), i, [p2lib.state(est, c) for c in range(ncomp)], pre, [cols[c][i] for c in range(ncomp)], qd))
        moved = []
        for c in range(ncomp):
            before = p2lib.state(grid[c])
            grid[c].accumulate(cols[c][i])
            sc = p2lib.state(grid[c])
            moved.append(before[2] != sc[2][:len(before[2])] or True)
            sa = p2lib.state(est, c)
            if sa[0] != sc[0] or sa[2] != sc[2] or not all(p2lib.same_float(a, b) or close(a, b) for a, b in zip(sa[1], sc[1])):
                ctx.fail('component-differs-from-scalar-accumulator:p2',
                         'P2 component %d after observation %d: array estimator %s, scalar estimator %s' % (c, i, sa, sc), c07.small(case))
                return case
        ranks = [tuple(p2lib.state(grid[c])[2]) for c in range(ncomp)]
        if len(set(ranks)) > 1:
            diverse = True
    ctx.case(('p2', spec, cols), diverse, sample=c07.small(case) if n <= 8 else None)
    ctx.count('kind:p2')
    ctx.count('p2_components_in_different_branches', 1 if diverse else 0)
    return case


def check(ctx):
    rng = ctx.rng
    lines, spans, progs, metas = [], [], [], []
    for _ in range(ctx.scale(260, 2500)):
        kind = rng.choice(KINDS)
        shape = rng.choice([(), (1,), (2,), (3,), (2, 2), (2, 3), (2, 1, 2)])
        fam = rng.choice(['int', 'dyadic', 'tied', 'mixed', 'big'])
        n = rng.choice([1, 2, 3, 5, 9, 16])
        if kind == 'cov':
            d = rng.choice([2, 3, 4, 4, 6])
            vals = c05.gen_values(rng, n, (d,), 'dyadic' if fam == 'mixed' else fam)
            frame = [{4: [2, 2], 6: [2, 3]}[d], rng.choice(['C', 'F', 'T'])] if d in (4, 6) and rng.random() < 0.7 else None
            if frame:
                ctx.count('cov_frames:' + frame[1])
            cov_case(ctx, vals, d, frame, rng.randint(2, n) if (not frame and n >= 3 and rng.random() < 0.4) else None)
            shape = (d,)
            L, merge_at = None, None
        else:
            if kind in ('min', 'max') and fam == 'mixed':
                fam = 'dyadic'
            vals = c05.gen_values(rng, n, shape, fam)
            if kind in ('min', 'max') and shape and n >= 3 and rng.random() < 0.3:
                # boolean frames (masks): the element-wise AND / OR over the stream, component by component
                p_true = rng.choice([0.5, 0.85, 0.15])
                vals = [{'arr': np.array([rng.random() < p_true for _ in range(int(np.prod(shape)))]).reshape(shape).tolist(), 'dtype': 'bool'} for _ in range(n)]
                # (the stream starts in the neutral state — all set for the AND, all clear for the OR — so every later frame matters)
                vals[0] = {'arr': np.full(shape, kind == 'min').tolist(), 'dtype': 'bool'}
                fam = 'bool'
                ctx.count('boolean_frames')
            if shape and int(np.prod(shape)) >= 2 and rng.random() < 0.2 and fam != 'bool':
                # components on very different footings: one of order ten, the others a large offset with a tiny spread
                # (1000 + k/1024): what happens to one component must not depend on the others
                k = int(np.prod(shape))
                vals = [{'arr': np.array([rng.randint(-80, 80) / 8.0] + [1000.0 + rng.randint(-8, 8) / 1024.0 for _ in range(k - 1)]).reshape(shape).tolist(),
                         'dtype': 'float64'} for _ in range(n)]
                fam = 'percomponent-offset'
            L = rng.choice([1, 2, 5, 10])
            merge_at = rng.randint(0, n) if rng.random() < 0.4 else None
            if fam == 'percomponent-offset' and n >= 4:
                merge_at = rng.randint(2, n - 2)
            own_at = [rng.randint(1, n - 1), rng.randint(0, 3)] if (shape and int(np.prod(shape)) >= 2 and n >= 2 and rng.random() < 0.35) else None
            grid_case(ctx, kind, shape, vals, L, merge_at, own_at)
        ncomp = int(np.prod(shape)) if shape else 1
        flat = [acclib.flat(v)[1] for v in vals]
        distinct_components = ncomp >= 2 and any(len({c[k] for k in range(ncomp)}) > 1 for c in flat)
        ctx.case((kind, shape, vals), distinct_components and n >= 3, sample=dict(kind=kind, shape=list(shape), values=vals) if n <= 3 else None)
        ctx.count('kind:' + kind)
        ctx.count('shape:%s' % (list(shape),))
        # correspondence with the Lean array model
        prog = [['new', 'a', kind] + ([L] if kind in ('rmean', 'rvar') else [])]
        for v in vals:
            prog += [['push', 'a', v], ['read', 'a']]
        progs.append(prog)
        lines += acclib.model_lines(prog)
        spans.append(acclib.n_outputs(prog))
        metas.append(dict(kind=kind, shape=list(shape), values=vals, L=L, history_ops=acclib.gen_history_ops(rng, prog)))
    mout = core.run_driver(lines)
    pos = 0
    for prog, k, meta in zip(progs, spans, metas):
        model = acclib.parse_model(mout[pos:pos + k])
        pos += k
        impl, _ = acclib.run_impl(acclib.apply_history_ops(prog, meta.get('history_ops')))
        flatvals = [acclib.flat(v)[1] for v in meta['values']]
        mx = max([abs(x) for col in flatvals for x in col] + [Fraction(1)])
        scale = mx * mx if meta['kind'] in ('var', 'rvar', 'cov') else mx
        for i, (iv, mv) in enumerate(itertools.zip_longest(impl, model)):
            if iv is None or mv is None:
                ctx.disagree('array-model-correspondence', meta, iv, str(mv))
                break
            bad = acclib.compare_read(iv, mv, scale)
            if bad:
                ctx.disagree('array-model-correspondence', meta, iv if isinstance(iv, str) else {k: iv.get(k) for k in bad},
                             mv if isinstance(mv, str) else {k: str(mv.get(k)) for k in bad}, 'at read %d keys %s' % (i, bad))
                break
    compare_alias_ties(ctx)
    p2_extreme_component_cases(ctx)
    # P²: array estimator vs grid of scalar estimators, components in different branches; lock-step per component
    l2, p2, vl, vp = [], [], [], []
    for _ in range(ctx.scale(60, 600)):
        case = p2_case(ctx, rng, l2, p2, vl, vp)
        c07.run_case(ctx, case, rng, l2, p2)
    c07.compare_lockstep(ctx, l2, p2)
    compare_vector_lockstep(ctx, vl, vp)


def p2_extreme_component_cases(ctx):
    """one component near the largest float (beyond C07's range: its own markers may overflow to inf or nan), the other ordinary: what happens to
    the ordinary component — and to the extreme one — is what a scalar estimator fed that component alone does. Real code on both sides, no model."""
    rng = ctx.rng
    for _ in range(ctx.scale(12, 100)):
        spec = p2lib.gen_grid(rng)
        n = rng.choice([8, 20, 40])
        big = [rng.choice([-1, 1]) * rng.uniform(0.9, 1.7) * 1e308 for _ in range(n)]
        other = p2lib.gen_seq(rng, n, rng.choice(['uniform', 'gauss', 'ints', 'tied']))
        order = rng.choice([0, 1])
        cols = [big, other] if order == 0 else [other, big]
        case = dict(kind='p2', extreme_component=order, spec=spec, n=n, cols=cols if n <= 8 else None)
        ctx.case(('p2-extreme', repr(spec), tuple(other), order), True, sample=case if n <= 8 else None)
        ctx.count('p2_extreme_component')
        est = p2lib.make(spec)
        grid = [p2lib.make(spec), p2lib.make(spec)]
        bad = None
        for i in range(n):
            with np.errstate(all='ignore'):
                est.accumulate(np.array([cols[0][i], cols[1][i]]))
                for c in range(2):
                    grid[c].accumulate(cols[c][i])
            for c in range(2):
                sa, sc = p2lib.state(est, c), p2lib.state(grid[c])
                if sa[0] != sc[0] or sa[2] != sc[2] or not all(p2lib.same_float(a, b) for a, b in zip(sa[1], sc[1])):
                    bad = 'component %d (%s) after observation %d: array estimator %s, scalar estimator %s' % (
                        c, 'the extreme one' if c == order else 'the ordinary one', i, (sa[1][:6], sa[2][:6]), (sc[1][:6], sc[2][:6]))
                    break
            if bad:
                break
        if bad:
            ctx.fail('component-differs-from-scalar-accumulator:p2', 'frames with one component near the largest float: ' + bad, dict(case, cols=cols))


def compare_alias_ties(ctx):
    """observations that are views of the accumulator's own running mean: the real Variance / Covariance against `stepFixed` of
    Model/Alias.lean (which C12Alias.fixed_eq_pure proves equal to the component-wise Welford push of the view's present values)"""
    ties = list(ALIAS_TIES)
    del ALIAS_TIES[:]
    if not ties:
        return
    mout = core.run_driver([t[0] for t in ties])
    for (line, (n, mean, var), case), ml in zip(ties, mout):
        ctx.count('alias_model_ties')
        try:
            parts = [part.split() for part in ml.split('|')]
            mn, mm, mv = parts if len(parts) == 3 else (parts[0], parts[1], [])
            model = (int(mn[0]), [Fraction(t) for t in mm], [Fraction(t) for t in mv])
        except Exception:  # noqa
            ctx.disagree('alias-model-correspondence', case, dict(n=n, mean=mean, var=var), ml[:300], line[:300])
            continue
        scale_m = max([abs(x) for x in model[1]] + [Fraction(1)])
        scale_v = max([abs(x) for x in model[2]] + [Fraction(1)])
        ok = model[0] == n and len(model[1]) == len(mean) and len(model[2]) == len(var) and \
            all(abs(Fraction(a) - b) <= Fraction(1, 10 ** 10) * scale_m for a, b in zip(mean, model[1])) and \
            all(abs(Fraction(a) - b) <= Fraction(1, 10 ** 10) * scale_v for a, b in zip(var, model[2]))
        if not ok:
            ctx.disagree('alias-model-correspondence', case, dict(n=n, mean=mean, var=var),
                         dict(n=model[0], mean=[float(x) for x in model[1]], var=[float(x) for x in model[2]]), line[:300])


def compare_vector_lockstep(ctx, vlines, vposts):
    mout = core.run_driver(vlines) if vlines else []
    for (case, i, posts, pres, xs, qd), ml in zip(vposts, mout):
        ncomp = len(posts)
        n, hs, ps = ml.split('|')
        hs = [p2lib.unhex(t) for t in hs.split()]
        ps = [p2lib.unhex(t) for t in ps.split()]
        ctx.count('vector_lockstep_steps')
        ok = int(n) == posts[0][0]
        for c in range(ncomp):
            mh = hs[c::ncomp]
            mp = ps[c::ncomp]
            if not (len(mh) == len(posts[c][1]) and all(p2lib.close_rel(a, b) for a, b in zip(mh, posts[c][1]))
                    and mp == posts[c][2]):
                ok = False
        if ok:
            continue
        exc = False
        for c in range(ncomp):
            if len(pres[c][1]) == len(qd):
                rd = ps[c::ncomp] != posts[c][2]
                exc = exc or p2lib.excusable(rd, pres[c], qd, xs[c])
        if exc:
            ctx.count('vector_lockstep_ambiguous_under_rounding')
        else:
            ctx.disagree('p2-array-model-lockstep', case, dict(step=i, post=posts), ml[:400])


def replay(ctx, data):
    case = data['case']
    if case.get('kind') == 'p2' and 'extreme_component' in case:
        p2_extreme_component_cases(ctx)
        return
    if case.get('kind') == 'cov':
        cov_case(ctx, case['values'], case['d'], case.get('frame'), case.get('own_at'))
        compare_alias_ties(ctx)
    elif 'spec' in case:
        check(ctx)       # regenerated under the recorded seed and tier (core.main sets both from the replay file)
    else:
        grid_case(ctx, case['kind'], tuple(case['shape']), case['values'], case.get('L'), case.get('merge_at'), case.get('own_at'))
    ctx.case(('replay', case.get('kind')), True, sample=case)


if __name__ == '__main__':
    import sys
    core.main(sys.modules[__name__])
